/-
  C20 `modulePath_agrees`: what `strconv.Unquote` accepting a `"…"` token says about the token's bytes —
  it ends with the closing quote, contains no newline, and a `//` in the token is a `//` in the value.
-/
import ModVerif.Basic.Quote
import ModVerif.Proofs.ModfileC20ModStr
namespace ModVerif.Proofs.ModfileC20
open ModVerif ModVerif.Proofs.ModfileLex ModVerif.Proofs.ModfileC20Utf8

/-- a byte that is neither `/` nor a newline -/
def Opaque (x : UInt8) : Prop := x ≠ 47 ∧ x ≠ 10

theorem unhex_opaque {x : UInt8} (h : (Quote.unhex x).isSome = true) : Opaque x := by
  unfold Quote.unhex at h
  constructor <;> (intro hx; subst hx; revert h; decide)

theorem foldlM_unhex : ∀ (l : List UInt8) (init v : Nat),
    l.foldlM (fun v c => (Quote.unhex c).map fun x => v * 16 + x) init = some v → ∀ c ∈ l, (Quote.unhex c).isSome = true := by
  intro l
  induction l with
  | nil => intro _ _ _ c hc; cases hc
  | cons a t ih =>
    intro init v h c hc
    simp only [List.foldlM_cons] at h
    cases ha : Quote.unhex a with
    | none => simp [ha] at h
    | some y =>
      simp only [ha, Option.map_some, Option.bind_eq_bind, Option.bind_some] at h
      simp only [List.mem_cons] at hc
      rcases hc with rfl | hc
      · simp [ha]
      · exact ih _ v h c hc

theorem hexValue_opaque {l : List UInt8} {v : Nat} (h : Quote.hexValue l = some v) : ∀ c ∈ l, Opaque c := by
  intro c hc
  cases l with
  | nil => cases hc
  | cons a t =>
    unfold Quote.hexValue at h
    exact unhex_opaque (foldlM_unhex _ 0 v h c hc)


/-- the escape part of `unquoteChar` (after the backslash), as its own definition -/
def unquoteEsc (e : UInt8) (s2 : Bytes) : Option (Nat × Bool × Bytes) :=
  if e == 97 then some (7, false, s2)
  else if e == 98 then some (8, false, s2)
  else if e == 102 then some (12, false, s2)
  else if e == 110 then some (10, false, s2)
  else if e == 114 then some (13, false, s2)
  else if e == 116 then some (9, false, s2)
  else if e == 118 then some (11, false, s2)
  else if e == 120 || e == 117 || e == 85 then
    let n := if e == 120 then 2 else if e == 117 then 4 else 8
    if s2.length < n then none else
    match Quote.hexValue (s2.take n) with
    | none => none
    | some v =>
      if e == 120 then some (v, false, s2.drop n)
      else if !Quote.validRune v then none
      else some (v, true, s2.drop n)
  else if 48 ≤ e && e ≤ 55 then
    match s2 with
    | d1 :: d2 :: s3 =>
      if 48 ≤ d1 && d1 ≤ 55 && 48 ≤ d2 && d2 ≤ 55 then
        let v := (e.toNat - 48) * 64 + (d1.toNat - 48) * 8 + (d2.toNat - 48)
        if v > 255 then none else some (v, false, s3)
      else none
    | _ => none
  else if e == 92 then some (92, false, s2)
  else if e == 34 then some (34, false, s2)
  else none

theorem unquoteChar_eq (c : UInt8) (rest : Bytes) :
    Quote.unquoteChar (c :: rest) =
      if c == 34 then none
      else if c.toNat ≥ 0x80 then
        some ((Utf8.decodeRune (c :: rest)).1, true, (c :: rest).drop (Utf8.decodeRune (c :: rest)).2)
      else if c != 92 then some (c.toNat, false, rest)
      else
        match rest with
        | [] => none
        | e :: s2 => unquoteEsc e s2 := by
  cases rest <;> rfl

theorem octal_opaque {d : UInt8} (h : (48 ≤ d && d ≤ 55) = true) : Opaque d := by
  simp only [Bool.and_eq_true, decide_eq_true_eq] at h
  constructor <;> (intro hd; subst hd; revert h; decide)

theorem unquoteEsc_chunk (e : UInt8) (s2 : Bytes) (r : Nat) (mb : Bool) (tail : Bytes)
    (h : unquoteEsc e s2 = some (r, mb, tail)) :
    ∃ ch, (92 : UInt8) :: e :: s2 = ch ++ tail ∧ ch ≠ [] ∧ ∀ x ∈ ch, Opaque x := by
  have two : ∀ (e' : UInt8), e = e' → Opaque e' → tail = s2 →
      ∃ ch, (92 : UInt8) :: e :: s2 = ch ++ tail ∧ ch ≠ [] ∧ ∀ x ∈ ch, Opaque x := by
    intro e' he hop ht
    subst he; subst ht
    refine ⟨[92, e], rfl, by simp, ?_⟩
    intro x hx
    simp only [List.mem_cons, List.not_mem_nil, or_false] at hx
    rcases hx with rfl | rfl
    · exact ⟨by decide, by decide⟩
    · exact hop
  unfold unquoteEsc at h
  by_cases h97 : (e == 97) = true
  · rw [if_pos h97] at h
    simp only [Option.some.injEq, Prod.mk.injEq] at h
    exact two 97 (by simpa using h97) ⟨by decide, by decide⟩ h.2.2.symm
  rw [if_neg h97] at h
  by_cases h98 : (e == 98) = true
  · rw [if_pos h98] at h
    simp only [Option.some.injEq, Prod.mk.injEq] at h
    exact two 98 (by simpa using h98) ⟨by decide, by decide⟩ h.2.2.symm
  rw [if_neg h98] at h
  by_cases h102 : (e == 102) = true
  · rw [if_pos h102] at h
    simp only [Option.some.injEq, Prod.mk.injEq] at h
    exact two 102 (by simpa using h102) ⟨by decide, by decide⟩ h.2.2.symm
  rw [if_neg h102] at h
  by_cases h110 : (e == 110) = true
  · rw [if_pos h110] at h
    simp only [Option.some.injEq, Prod.mk.injEq] at h
    exact two 110 (by simpa using h110) ⟨by decide, by decide⟩ h.2.2.symm
  rw [if_neg h110] at h
  by_cases h114 : (e == 114) = true
  · rw [if_pos h114] at h
    simp only [Option.some.injEq, Prod.mk.injEq] at h
    exact two 114 (by simpa using h114) ⟨by decide, by decide⟩ h.2.2.symm
  rw [if_neg h114] at h
  by_cases h116 : (e == 116) = true
  · rw [if_pos h116] at h
    simp only [Option.some.injEq, Prod.mk.injEq] at h
    exact two 116 (by simpa using h116) ⟨by decide, by decide⟩ h.2.2.symm
  rw [if_neg h116] at h
  by_cases h118 : (e == 118) = true
  · rw [if_pos h118] at h
    simp only [Option.some.injEq, Prod.mk.injEq] at h
    exact two 118 (by simpa using h118) ⟨by decide, by decide⟩ h.2.2.symm
  rw [if_neg h118] at h
  by_cases hhex : (e == 120 || e == 117 || e == 85) = true
  · rw [if_pos hhex] at h
    have heop : Opaque e := by
      simp only [Bool.or_eq_true, beq_iff_eq] at hhex
      rcases hhex with (rfl | rfl) | rfl <;> exact ⟨by decide, by decide⟩
    simp only at h
    by_cases hlen : s2.length < (if (e == 120) = true then 2 else if (e == 117) = true then 4 else 8)
    · rw [if_pos hlen] at h; cases h
    rw [if_neg hlen] at h
    cases hv : Quote.hexValue (s2.take (if (e == 120) = true then 2 else if (e == 117) = true then 4 else 8)) with
    | none => rw [hv] at h; cases h
    | some v =>
      rw [hv] at h
      simp only at h
      have hdig := hexValue_opaque hv
      have htail : tail = s2.drop (if (e == 120) = true then 2 else if (e == 117) = true then 4 else 8) := by
        by_cases hx : (e == 120) = true
        · rw [if_pos hx] at h
          simp only [Option.some.injEq, Prod.mk.injEq] at h; exact h.2.2.symm
        · rw [if_neg hx] at h
          by_cases hvr : (!Quote.validRune v) = true
          · rw [if_pos hvr] at h; cases h
          · rw [if_neg hvr] at h
            simp only [Option.some.injEq, Prod.mk.injEq] at h; exact h.2.2.symm
      refine ⟨92 :: e :: s2.take (if (e == 120) = true then 2 else if (e == 117) = true then 4 else 8), ?_, by simp, ?_⟩
      · rw [htail]; simp
      · intro x hx
        simp only [List.mem_cons] at hx
        rcases hx with rfl | rfl | hx
        · exact ⟨by decide, by decide⟩
        · exact heop
        · exact hdig x hx
  rw [if_neg hhex] at h
  by_cases hoct : (48 ≤ e && e ≤ 55) = true
  · rw [if_pos hoct] at h
    match s2, h with
    | [], h => cases h
    | [_], h => cases h
    | d1 :: d2 :: s3, h =>
      simp only at h
      by_cases hd : (48 ≤ d1 && d1 ≤ 55 && 48 ≤ d2 && d2 ≤ 55) = true
      · rw [if_pos hd] at h
        simp only [Bool.and_eq_true] at hd
        by_cases hv : (e.toNat - 48) * 64 + (d1.toNat - 48) * 8 + (d2.toNat - 48) > 255
        · rw [if_pos hv] at h; cases h
        · rw [if_neg hv] at h
          simp only [Option.some.injEq, Prod.mk.injEq] at h
          obtain ⟨_, _, rfl⟩ := h
          refine ⟨[92, e, d1, d2], rfl, by simp, ?_⟩
          intro x hx
          simp only [List.mem_cons, List.not_mem_nil, or_false] at hx
          rcases hx with rfl | rfl | rfl | rfl
          · exact ⟨by decide, by decide⟩
          · exact octal_opaque hoct
          · exact octal_opaque (by rw [Bool.and_eq_true]; exact ⟨hd.1.1.1, hd.1.1.2⟩)
          · exact octal_opaque (by rw [Bool.and_eq_true]; exact ⟨hd.1.2, hd.2⟩)
      · rw [if_neg hd] at h; cases h
  rw [if_neg hoct] at h
  by_cases h92 : (e == 92) = true
  · rw [if_pos h92] at h
    simp only [Option.some.injEq, Prod.mk.injEq] at h
    exact two 92 (by simpa using h92) ⟨by decide, by decide⟩ h.2.2.symm
  rw [if_neg h92] at h
  by_cases h34 : (e == 34) = true
  · rw [if_pos h34] at h
    simp only [Option.some.injEq, Prod.mk.injEq] at h
    exact two 34 (by simpa using h34) ⟨by decide, by decide⟩ h.2.2.symm
  rw [if_neg h34] at h
  cases h


/-- one step of the unquoting loop either copies one plain byte or consumes a chunk (multi-byte rune or
    escape sequence) without `/` and newline -/
theorem unquoteChar_chunk (c : UInt8) (rest : Bytes) (r : Nat) (mb : Bool) (tail : Bytes)
    (h : Quote.unquoteChar (c :: rest) = some (r, mb, tail)) :
    (tail = rest ∧ Quote.charBytes r mb = [c]) ∨
    (∃ ch, c :: rest = ch ++ tail ∧ ch ≠ [] ∧ ∀ x ∈ ch, Opaque x) := by
  rw [unquoteChar_eq] at h
  by_cases h34 : (c == 34) = true
  · rw [if_pos h34] at h; cases h
  rw [if_neg h34] at h
  by_cases hge : c.toNat ≥ 0x80
  · rw [if_pos hge] at h
    simp only [Option.some.injEq, Prod.mk.injEq] at h
    obtain ⟨_, _, rfl⟩ := h
    right
    refine ⟨(c :: rest).take (Utf8.decodeRune (c :: rest)).2, (List.take_append_drop _ _).symm, ?_, ?_⟩
    · have := (decodeRune_width (c :: rest) (by simp)).1
      intro hnil
      have hl := congrArg List.length hnil
      simp only [List.length_take, List.length_cons, List.length_nil] at hl
      omega
    · rcases decodeRune_cases c rest with ⟨hlt, _⟩ | ⟨_, _, hall⟩
      · omega
      · intro x hx
        have := hall x hx
        constructor <;> (intro hx'; subst hx'; simp at this)
  rw [if_neg hge] at h
  by_cases hbs : (c != 92) = true
  · rw [if_pos hbs] at h
    simp only [Option.some.injEq, Prod.mk.injEq] at h
    obtain ⟨rfl, rfl, rfl⟩ := h
    left
    refine ⟨rfl, ?_⟩
    unfold Quote.charBytes
    simp
  rw [if_neg hbs] at h
  have hc : c = 92 := by simpa using hbs
  subst hc
  right
  match rest, h with
  | [], h => cases h
  | e :: s2, h => exact unquoteEsc_chunk e s2 r mb tail h

/-- `Chunked body out`: `body` is a sequence of plain bytes (copied to `out`) and opaque chunks -/
inductive Chunked : Bytes → Bytes → Prop
  | nil : Chunked [] []
  | plain (c : UInt8) {b o : Bytes} : c ≠ 10 → Chunked b o → Chunked (c :: b) (c :: o)
  | chunk (ch out : Bytes) {b o : Bytes} : ch ≠ [] → (∀ x ∈ ch, Opaque x) → Chunked b o → Chunked (ch ++ b) (out ++ o)

theorem Chunked.head47 {b' o : Bytes} (h : Chunked (47 :: b') o) : ∃ o', o = 47 :: o' := by
  generalize hb : (47 : UInt8) :: b' = body at h
  cases h with
  | nil => cases hb
  | plain c hc hrest =>
    simp only [List.cons.injEq] at hb
    exact ⟨_, by rw [← hb.1]⟩
  | chunk ch out hne hop hrest =>
    exfalso
    cases ch with
    | nil => exact hne rfl
    | cons x xs =>
      simp only [List.cons_append, List.cons.injEq] at hb
      exact (hop x (by simp)).1 hb.1.symm

theorem Chunked.noNewline {b o : Bytes} (h : Chunked b o) : ∀ x ∈ b, x ≠ 10 := by
  induction h with
  | nil => intro x hx; cases hx
  | plain c hc _ ih =>
    intro x hx
    simp only [List.mem_cons] at hx
    rcases hx with rfl | hx
    · exact hc
    · exact ih x hx
  | chunk ch out _ hop _ ih =>
    intro x hx
    rcases List.mem_append.mp hx with hx | hx
    · exact (hop x hx).2
    · exact ih x hx

theorem Chunked.slashes {b o : Bytes} (h : Chunked b o) : [47, 47] <:+: b → [47, 47] <:+: o := by
  induction h with
  | nil => rintro ⟨p, q, h⟩; simp at h
  | @plain c b o hc hrest ih =>
    rintro ⟨p, q, hpq⟩
    cases p with
    | nil =>
      simp only [List.nil_append, List.cons_append, List.cons.injEq] at hpq
      obtain ⟨rfl, hb⟩ := hpq
      rw [← hb] at hrest
      obtain ⟨o', rfl⟩ := hrest.head47
      exact ⟨[], o', rfl⟩
    | cons x p' =>
      simp only [List.cons_append, List.cons.injEq] at hpq
      obtain ⟨p2, q2, h2⟩ := ih ⟨p', q, by simpa using hpq.2⟩
      exact ⟨c :: p2, q2, by simp [← h2]⟩
  | @chunk ch out b o hne hop hrest ih =>
    intro hin
    rcases slashes_infix_append hin with h | h | ⟨h, _⟩
    · exfalso
      obtain ⟨p, q, hpq⟩ := h
      exact (hop 47 (by rw [← hpq]; simp)).1 rfl
    · obtain ⟨p2, q2, h2⟩ := ih h
      exact ⟨out ++ p2, q2, by simp [← h2]⟩
    · exfalso
      exact (hop 47 (List.mem_of_getLast? h)).1 rfl

theorem unquoteLoop_spec : ∀ (fuel : Nat) (s acc out rem : Bytes),
    Quote.unquoteLoop fuel s acc = some (out, rem) →
    ∃ body ob, s = body ++ 34 :: rem ∧ out = acc.reverse ++ ob ∧ Chunked body ob := by
  intro fuel
  induction fuel with
  | zero => intro s acc out rem h; simp [Quote.unquoteLoop] at h
  | succ n ih =>
    intro s acc out rem h
    unfold Quote.unquoteLoop at h
    cases s with
    | nil => simp at h
    | cons c rest =>
      simp only at h
      by_cases h34 : (c == 34) = true
      · rw [if_pos h34] at h
        simp only [Option.some.injEq, Prod.mk.injEq] at h
        have : c = 34 := by simpa using h34
        subst this
        exact ⟨[], [], by rw [h.2]; rfl, by rw [← h.1]; simp, Chunked.nil⟩
      · rw [if_neg h34] at h
        cases huc : Quote.unquoteChar (c :: rest) with
        | none => rw [huc] at h; cases h
        | some v =>
          obtain ⟨r, mb, tail⟩ := v
          rw [huc] at h
          simp only at h
          by_cases h10 : (c == 10) = true
          · rw [if_pos h10] at h; cases h
          · rw [if_neg h10] at h
            have hc10 : c ≠ 10 := by simpa using h10
            obtain ⟨body', ob', hs, hout, hch⟩ := ih _ _ _ _ h
            rcases unquoteChar_chunk c rest r mb tail huc with ⟨ht, hcb⟩ | ⟨ch, hsplit, hne, hop⟩
            · subst ht
              refine ⟨c :: body', c :: ob', by rw [hs]; rfl, ?_, Chunked.plain c hc10 hch⟩
              rw [hout, hcb]; simp
            · refine ⟨ch ++ body', Quote.charBytes r mb ++ ob', by rw [hsplit, hs]; simp, ?_,
                Chunked.chunk ch _ hne hop hch⟩
              rw [hout]; simp

/-- A `"…"` token that `strconv.Unquote` accepts: it ends with its closing quote, contains no newline, and
    every `//` in it is a `//` of the value. -/
theorem unquote_facts {tok path : Bytes} (h : Quote.unquote tok = some path) (hq : tok.head? = some 34) :
    (∃ body, tok = 34 :: body ++ [34]) ∧ (∀ b ∈ tok, b ≠ 10) ∧ ([47, 47] <:+: tok → [47, 47] <:+: path) := by
  unfold Quote.unquote at h
  match tok, h, hq with
  | [], h, hq => cases hq
  | [_], h, hq => cases h
  | q :: r1 :: rest', h, hq =>
    simp only [List.head?_cons, Option.some.injEq] at hq
    subst hq
    simp only at h
    split at h
    · cases h
    · have e1 : ((34 : UInt8) == 96) = false := by decide
      simp only [e1, Bool.false_eq_true, if_false, beq_self_eq_true, if_true] at h
      cases hl : Quote.unquoteLoop ((r1 :: rest').length + 1) (r1 :: rest') [] with
      | none => rw [hl] at h; cases h
      | some v =>
        obtain ⟨out, rem⟩ := v
        rw [hl] at h
        cases rem with
        | cons x xs => cases h
        | nil =>
          simp only [Option.some.injEq] at h
          subst h
          obtain ⟨body, ob, hs, hout, hch⟩ := unquoteLoop_spec _ _ _ _ _ hl
          simp only [List.reverse_nil, List.nil_append] at hout
          subst hout
          rw [hs]
          refine ⟨⟨body, by simp⟩, ?_, ?_⟩
          · intro b hb
            simp only [List.mem_cons, List.mem_append, List.not_mem_nil, or_false] at hb
            rcases hb with rfl | hb | rfl
            · decide
            · exact hch.noNewline b hb
            · decide
          · intro hin
            apply hch.slashes
            -- the quotes are not slashes
            have h1 : [47, 47] <:+: [34] ++ (body ++ [34]) := by simpa using hin
            rcases slashes_infix_append h1 with h | h | ⟨h, _⟩
            · obtain ⟨p, q, hpq⟩ := h
              have := congrArg List.length hpq
              simp at this; omega
            · rcases slashes_infix_append h with h | h | ⟨_, h⟩
              · exact h
              · obtain ⟨p, q, hpq⟩ := h
                have := congrArg List.length hpq
                simp at this; omega
              · cases h
            · cases h

end ModVerif.Proofs.ModfileC20
