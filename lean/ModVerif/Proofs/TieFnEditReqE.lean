/-
  Helper lemmas for Tie/FnEditReq.lean, part E: `File_AddRetract` of the regenerated go.mod edit operations
  (Generated/FnEdit.lean) against the model's `addRetract`.

  * `parseDirectiveComment_line`: the regenerated `parseDirectiveComment(nil, line)` on a line object = the model's
    `parseDirectiveComment none` of its comments (loops over `Before` and `Suffix`);
  * `AddRetract_loop_eq`: the loop that appends the rationale comments `// line` to `Before` of the new line;
  * `retractTail` / `retractTail_eq`: the code after the new line exists (a transcription of the regenerated text, which
    occurs twice in `File_AddRetract`; the main proof checks by `exact` that the two occurrences ARE this function);
  * `File_AddRetract_sim`.

  Owner: edit-req.
-/
import ModVerif.Proofs.TieFnEditReqD
import ModVerif.Proofs.GoRtLemmasTile
set_option linter.unusedSimpArgs false
set_option linter.unusedVariables false
namespace ModVerif.Tie.FnEditReqE
open ModVerif ModVerif.GoRt ModVerif.Generated.Edit ModVerif.Tie.FnEditRep ModVerif.Tie.FnEditTreeA ModVerif.Tie.FnEditReqA
  ModVerif.Tie.FnEditReqB ModVerif.Tie.FnEditReqC
open ModVerif.Modfile.Edit (clearAll firstRest markAll markRemoved deref nilId EditErr EFile addLine addLinePtr addLineWalk Hint mkLine
  insertAfterId loc locStmt treeIds lastWith)
open ModVerif.TieFnEditAddLine (nodeCount Frame)
open ModVerif.Drv.GenEdit (isPrintI quoteI)

/-! ### parseDirectiveComment on a line that is not in a block (`block == nil`) -/

/-- the model's per-comment step -/
def dirLine (c : Modfile.Comment) : Option Bytes :=
  if isPrefixOfB [47, 47] c.token then some (GoStrings.trimSpace (c.token.drop 2)) else none

theorem parseDirectiveComment_loop2_eq (h : Heap) : ∀ (suf pre : List Modfile.Comment) (fuel : Nat) (lines : List Bytes),
    suf.length + 1 ≤ fuel →
    parseDirectiveComment_loop2 ((pre ++ suf).map comG) h fuel (pre.length : Int) lines =
      .ok (len ((pre ++ suf).map comG), lines ++ suf.filterMap dirLine)
  | [], pre, fuel, lines, hf => by
    obtain ⟨fuel, rfl⟩ : ∃ k, fuel = k + 1 := ⟨fuel - 1, by omega⟩
    unfold parseDirectiveComment_loop2
    simp [len_eq]
  | c :: suf, pre, fuel, lines, hf => by
    obtain ⟨fuel, rfl⟩ : ∃ k, fuel = k + 1 := ⟨fuel - 1, by omega⟩
    have ih := fun lines' => parseDirectiveComment_loop2_eq h suf (pre ++ [c]) fuel lines' (by simp at hf; omega)
    simp only [List.append_assoc, List.singleton_append] at ih
    unfold parseDirectiveComment_loop2
    have hlt : ((pre.length : Nat) : Int) < len ((pre ++ c :: suf).map comG) := by rw [len_eq]; simp; omega
    have hidx : idxL ((pre ++ c :: suf).map comG) (pre.length : Int) = .ok (comG c) := by
      rw [List.map_append, List.map_cons]
      have := idxL_mid (pre.map comG) (comG c) (suf.map comG)
      simpa using this
    simp only [hlt, decide_true, if_true, hidx, bind_ok]
    have hpre : hasPrefix (comG c).Token [47, 47] = isPrefixOfB [47, 47] c.token := rfl
    by_cases hp : isPrefixOfB [47, 47] c.token = true
    · rw [if_neg (show ¬ ((!hasPrefix (comG c).Token [47, 47]) = true) by rw [hpre, hp]; simp)]
      have := ih (lines ++ [trimSpace (trimPrefix (comG c).Token [47, 47])])
      rw [succ_len_snoc pre c, this]
      simp [dirLine, hp, GoRt.trimPrefix, trimSpace_eq]
    · have hp' : isPrefixOfB [47, 47] c.token = false := by simpa using hp
      rw [if_pos (show ((!hasPrefix (comG c).Token [47, 47]) = true) by rw [hpre, hp']; rfl)]
      have := ih lines
      rw [succ_len_snoc pre c, this]
      simp [dirLine, hp']

theorem parseDirectiveComment_line {h : Heap} {p : Int} {l : Modfile.Line} (hg : heapGet h.lines p = .ok (lineG l)) (fuel : Nat)
    (hf : l.comments.before.length + l.comments.suffix.length + 4 ≤ fuel) :
    parseDirectiveComment fuel 0 p h = .ok (Modfile.parseDirectiveComment none l.comments, h) := by
  obtain ⟨k, rfl⟩ : ∃ k, fuel = k + 3 := ⟨fuel - 3, by omega⟩
  have hb := parseDirectiveComment_loop2_eq h l.comments.before [] (k + 2) [] (by omega)
  have hs := fun lines => parseDirectiveComment_loop2_eq h l.comments.suffix [] (k + 1) lines (by omega)
  simp only [List.nil_append, List.length_nil, show ((0 : Nat) : Int) = 0 from rfl] at hb hs
  unfold parseDirectiveComment
  simp only [decide_true, Bool.not_true, Bool.false_eq_true, if_false, pure_eq_ok, bind_ok, Expr_getComments, hg,
    lineG_Comments, comsG_Before, comsG_Suffix]
  unfold parseDirectiveComment_loop1
  simp only [len_eq, List.length_cons, List.length_nil, idxL_zero_cons, bind_ok, hb]
  unfold parseDirectiveComment_loop1
  simp only [len_eq, List.length_cons, List.length_nil, Int.zero_add, idxL_one_cons, bind_ok, hs]
  unfold parseDirectiveComment_loop1
  simp [len_eq, idxL_one_cons, hs, Modfile.parseDirectiveComment, GoStrings.join, GoRt.join, List.filterMap_append]
  rfl


/-! ### the rationale comments of `AddRetract` -/

/-- a rationale line as a comment -/
def ratCom (line : Bytes) : Modfile.Comment := { token := B "// " ++ line }

/-- the model's line function: the comments are appended to `Before` -/
def addBefore (cs : List Modfile.Comment) (l : Modfile.Line) : Modfile.Line :=
  { l with comments := { l.comments with before := l.comments.before ++ cs } }

theorem IdEquiv_addBefore (cs : List Modfile.Comment) : IdEquiv (addBefore cs) := fun _ _ => rfl

theorem setLineH_setLineH (h : Heap) (p : Int) (l1 l2 : Modfile.Line) : setLineH (setLineH h p l1) p l2 = setLineH h p l2 := by
  simp [setLineH, List.set_set]

theorem addBefore_addBefore (a b : List Modfile.Comment) (l : Modfile.Line) : addBefore b (addBefore a l) = addBefore (a ++ b) l := by
  simp [addBefore]

theorem AddRetract_loop_eq (rationale : Bytes) (r p : Int) :
    ∀ (suf pre : List Bytes) (h : Heap) (l : Modfile.Line) (ro : Retract) (fuel : Nat),
      heapGet h.retracts r = .ok ro → ro.Syntax = p → heapGet h.lines p = .ok (lineG l) → suf.length + 1 ≤ fuel →
      File_AddRetract_loop1 isPrintI quoteI (pre ++ suf) rationale r fuel (pre.length : Int) h =
        .ok (len (pre ++ suf), setLineH h p (addBefore (suf.map ratCom) l))
  | [], pre, h, l, ro, fuel, hr, hp, hl, hf => by
    obtain ⟨fuel, rfl⟩ : ∃ k, fuel = k + 1 := ⟨fuel - 1, by omega⟩
    unfold File_AddRetract_loop1
    have : addBefore [] l = l := by simp [addBefore]
    simp [not_lt_len_end, len_eq, this, setLineH_self hl]
  | line :: suf, pre, h, l, ro, fuel, hr, hp, hl, hf => by
    obtain ⟨fuel, rfl⟩ : ∃ k, fuel = k + 1 := ⟨fuel - 1, by omega⟩
    have hB : ([47, 47, 32] : Bytes) = B "// " := by decide +kernel
    have ih := AddRetract_loop_eq rationale r p suf (pre ++ [line]) (setLineH h p (addBefore [ratCom line] l)) (addBefore [ratCom line] l) ro fuel
      (by simpa using hr) hp (heapGet_setLineH_same hl _) (by simp at hf; omega)
    simp only [List.append_assoc, List.singleton_append] at ih
    unfold File_AddRetract_loop1
    simp only [lt_len_mid, decide_true, if_true, idxL_mid, bind_ok, pure_eq_ok, hr, hp, Expr_getComments, Expr_setComments, hl,
      heapSet_of_get _ hl]
    rw [succ_len_snoc pre line]
    have := ih
    simp only [setLineH_setLineH, addBefore_addBefore] at this
    refine Eq.trans (congrArg (fun w => File_AddRetract_loop1 isPrintI quoteI (pre ++ line :: suf) rationale r fuel
      (((pre ++ [line]).length : Nat) : Int) w) ?_) (this.trans (by simp))
    simp only [setLineH, lineG, addBefore, Drv.GenEdit.comsG, Drv.GenEdit.comG, ratCom, hB, List.map_append, List.map_cons, List.map_nil]
    rfl

/-! ### model facts -/

theorem findLine_updateLine_self (fs : Modfile.FileSyntax) (id : Nat) (g : Modfile.Line → Modfile.Line) (l : Modfile.Line)
    (hn : (treeIds fs.stmts).Nodup) (hg : ∀ l, (g l).id = l.id) (hf : fs.findLine id = some l) :
    (fs.updateLine id g).findLine id = some (g l) := by
  have hid : l.id = id := by
    unfold Modfile.FileSyntax.findLine at hf
    simpa using List.find?_some hf
  have hm : l ∈ fs.allLines := by
    unfold Modfile.FileSyntax.findLine at hf
    exact List.mem_of_find?_eq_some hf
  rw [Modfile.Edit.allLines_eq_loc] at hm
  obtain ⟨q, hq, rfl⟩ := List.mem_map.1 hm
  have hq' : (q.1, g q.2) ∈ loc (fs.updateLine id g).stmts := by
    rw [Modfile.Edit.loc_updateLine fs id g hn]
    refine List.mem_map.2 ⟨q, hq, ?_⟩
    simp [hid]
  have hn' : (treeIds (fs.updateLine id g).stmts).Nodup := by
    rw [Modfile.Edit.treeIds_updateLine fs id g hn hg]; exact hn
  have := Modfile.Edit.findLine_of_loc _ hn' _ hq'
  simpa [hg, hid] using this

/-- garbage in `retracts`: any object list that still holds the represented entries -/
theorem RepFAt.withRetracts {h : Heap} {o : File} {e : EFile} (R : RepFAt h o e) (v : List Retract)
    (hv : REnts v retractG (·.lineId) h.lines.length o.Retract e.f.retract) : RepFAt { h with retracts := v } o e where
  syn := RepSyn.congr (h := h) (h' := { h with retracts := v }) rfl rfl rfl rfl R.syn
  tok := R.tok
  linesG := LinesG.congr (h := h) (h' := { h with retracts := v }) R.linesG rfl
  next := R.next
  module := R.module
  go := R.go
  toolchain := R.toolchain
  godebug := R.godebug
  require := R.require
  exclude := R.exclude
  replace := R.replace
  retract := hv
  tool := R.tool

/-- the rationale comments of the model -/
def ratComs (rationale : Bytes) : List Modfile.Comment :=
  if rationale.isEmpty then [] else (splitOn 10 rationale).map ratCom

/-- the tokens of a `retract` line -/
def retrTokens (vi : Modfile.VersionInterval) : List Bytes :=
  if vi.low == vi.high then [B "retract", Modfile.autoQuote vi.low]
  else [B "retract", [91], Modfile.autoQuote vi.low, [44], Modfile.autoQuote vi.high, [93]]

/-- the model's `addRetract` after the two version checks -/
def addRetractOk (e : EFile) (vi : Modfile.VersionInterval) (rationale : Bytes) : EFile :=
  let syn := (addLine e.f.syn none (retrTokens vi) e.next).updateLine e.next (addBefore (ratComs rationale))
  let rat := match syn.findLine e.next with
    | some l => Modfile.parseDirectiveComment none l.comments
    | none => []
  { f := { e.f with retract := e.f.retract ++ [{ interval := vi, rationale := rat, lineId := e.next }], syn := syn },
    next := e.next + 1 }

/-- the module path that `AddRetract` checks the versions against -/
def modPath (e : EFile) : Bytes :=
  match e.f.module with
  | some m => m.mod.path
  | none => []

theorem addRetract_eq (e : EFile) (vi : Modfile.VersionInterval) (rationale : Bytes) :
    Modfile.Edit.addRetract e vi rationale =
      if !Modfile.Edit.checkCanonicalVersion (modPath e) vi.high then .error .invalidVersion else
      if !Modfile.Edit.checkCanonicalVersion (modPath e) vi.low then .error .invalidVersion else
      .ok (addRetractOk e vi rationale) := by
  unfold Modfile.Edit.addRetract modPath addRetractOk retrTokens ratComs addBefore ratCom
  rfl

theorem length_splitOn (sep : UInt8) : ∀ p : Bytes, (splitOn sep p).length ≤ p.length + 1
  | [] => by simp [splitOn]
  | c :: rest => by
    have ih := length_splitOn sep rest
    unfold splitOn
    split
    · simp; omega
    · cases h : splitOn sep rest with
      | nil => simp
      | cons s ss => rw [h] at ih; simp at ih ⊢; omega

theorem ratComs_length (rationale : Bytes) : (ratComs rationale).length ≤ rationale.length + 1 := by
  unfold ratComs
  split
  · simp
  · simp only [List.length_map]
    exact length_splitOn 10 rationale

/-- the part of `File.AddRetract` after the new line exists (rule.go:1580–1592): `r.Syntax = line`, the rationale comments,
    `r.Rationale = parseDirectiveComment(nil, r.Syntax)`, `f.Retract = append(f.Retract, r)` — a transcription of the
    regenerated text, which `File_AddRetract` contains twice (`File_AddRetract_shape`) -/
def retractK13 (fuel : Nat) (fp r : Int) (world : Heap) : M (Option String × Heap) := do
  let t5 ← heapGet world.retracts r
  let t6 ← parseDirectiveComment fuel 0 t5.Syntax world
  let t8 ← heapGet t6.2.retracts r
  let t9 ← heapSet t6.2.retracts r { t8 with Rationale := t6.1 }
  let world : Heap := { t6.2 with retracts := t9 }
  let t10 ← heapGet world.mods fp
  let t11 ← heapGet world.mods fp
  let t12 ← heapSet world.mods fp { t11 with Retract := t10.Retract ++ [r] }
  pure (none, { world with mods := t12 })

def retractTail (fuel : Nat) (fp r : Int) (rationale : Bytes) (new : Int) (world : Heap) : M (Option String × Heap) := do
  let t27 ← heapGet world.retracts r
  let t28 ← heapSet world.retracts r { t27 with Syntax := new }
  let world : Heap := { world with retracts := t28 }
  if (!decide (rationale = [])) then (do
    let x ← File_AddRetract_loop1 isPrintI quoteI (split rationale [10]) rationale r fuel 0 world
    retractK13 fuel fp r x.2) else retractK13 fuel fp r world

/-- the new typed entry: its rationale is read back from the comments of its line -/
def newRetract (vi : Modfile.VersionInterval) (l : Modfile.Line) (n : Nat) : Modfile.Retract :=
  { interval := vi, rationale := Modfile.parseDirectiveComment none l.comments, lineId := n }

theorem retractTail_eq {w : Heap} {fp : Int} {o : File} {l : Modfile.Line} (hs : List Retract) (vi : Modfile.VersionInterval)
    (rationale : Bytes) (n : Nat) (fuel : Nat)
    (hw : w.retracts = hs ++ [({ (default : Retract) with VersionInterval := viG vi } : Retract)])
    (hl : heapGet w.lines (n : Int) = .ok (lineG l)) (hc : l.comments = {}) (ho : heapGet w.mods fp = .ok o)
    (hf : rationale.length + 5 ≤ fuel) :
    retractTail fuel fp ((hs.length + 1 : Nat) : Int) rationale (n : Int) w =
      .ok (none, { setLineH w (n : Int) (addBefore (ratComs rationale) l) with
        retracts := hs ++ [retractG (newRetract vi (addBefore (ratComs rationale) l) n)],
        mods := w.mods.set (fp.toNat - 1) { o with Retract := o.Retract ++ [((hs.length + 1 : Nat) : Int)] } }) := by
  have hr0 : heapGet w.retracts ((hs.length + 1 : Nat) : Int) = .ok ({ (default : Retract) with VersionInterval := viG vi } : Retract) := by
    rw [hw]; exact heapGet_alloc_new _ _
  unfold retractTail
  simp only [hr0, bind_ok, heapSet_of_get _ hr0]
  have hidx : (((hs.length + 1 : Nat) : Int).toNat - 1) = hs.length := by simp
  rw [hidx, hw, set_alloc_last]
  -- the heap after `r.Syntax = line`
  generalize hw4 : ({ w with retracts := hs ++ [({ VersionInterval := viG vi, Rationale := (default : Retract).Rationale, Syntax := (n : Int) } : Retract)] } : Heap) = w4
  have hr4 : heapGet w4.retracts ((hs.length + 1 : Nat) : Int) = .ok ({ VersionInterval := viG vi, Rationale := [], Syntax := (n : Int) } : Retract) := by
    rw [← hw4]; exact heapGet_alloc_new _ _
  have hl4 : heapGet w4.lines (n : Int) = .ok (lineG l) := by rw [← hw4]; exact hl
  have ho4 : heapGet w4.mods fp = .ok o := by rw [← hw4]; exact ho
  -- the comment loop
  have hloop : (if (!decide (rationale = [])) = true then (do
        let x ← File_AddRetract_loop1 isPrintI quoteI (split rationale [10]) rationale ((hs.length + 1 : Nat) : Int) fuel 0 w4
        pure x.2) else pure w4 : M Heap) = .ok (setLineH w4 (n : Int) (addBefore (ratComs rationale) l)) := by
    unfold ratComs
    cases rationale with
    | nil =>
      have : addBefore [] l = l := by simp [addBefore]
      simp [this, setLineH_self hl4]
    | cons c cs =>
      have := AddRetract_loop_eq (c :: cs) ((hs.length + 1 : Nat) : Int) (n : Int) (split (c :: cs) [10]) [] w4 l _ fuel hr4 rfl hl4
        (by rw [GoRtTile.split_single]; have := length_splitOn 10 (c :: cs); omega)
      simp only [List.nil_append, List.length_nil, show ((0 : Nat) : Int) = 0 from rfl] at this
      have hne : (!decide (c :: cs = ([] : Bytes))) = true := by simp
      rw [if_pos hne, this]
      simp [GoRtTile.split_single]
  have hk : ∀ (k : Heap → M (Option String × Heap)),
      (if (!decide (rationale = [])) = true then (do
        let x ← File_AddRetract_loop1 isPrintI quoteI (split rationale [10]) rationale ((hs.length + 1 : Nat) : Int) fuel 0 w4
        k x.2) else k w4) = k (setLineH w4 (n : Int) (addBefore (ratComs rationale) l)) := by
    intro k
    split at hloop
    · rename_i hc'
      rw [if_pos hc']
      cases hL : File_AddRetract_loop1 isPrintI quoteI (split rationale [10]) rationale ((hs.length + 1 : Nat) : Int) fuel 0 w4 with
      | error err => rw [hL] at hloop; cases hloop
      | ok x =>
        rw [hL] at hloop
        simp only [bind_ok, pure_eq_ok, Except.ok.injEq] at hloop
        simp only [bind_ok, hloop]
    · rename_i hc'
      rw [if_neg hc']
      simp only [pure_eq_ok, Except.ok.injEq] at hloop
      rw [← hloop]
  rw [hk (retractK13 fuel fp ((hs.length + 1 : Nat) : Int))]
  unfold retractK13
  -- the heap after the comments were added
  have hl5 : heapGet (setLineH w4 (n : Int) (addBefore (ratComs rationale) l)).lines (n : Int) =
      .ok (lineG (addBefore (ratComs rationale) l)) := heapGet_setLineH_same hl4 _
  have hpd := parseDirectiveComment_line hl5 fuel (by
    have := ratComs_length rationale
    simp only [addBefore, hc, List.nil_append, List.length_nil]; omega)
  simp only [setLineH_retracts, hr4, bind_ok, hpd, heapSet_of_get _ hr4, setLineH_mods, ho4, pure_eq_ok]
  subst hw4
  simp [setLineH, set_alloc_last, retractG, newRetract, hidx, viG, heapSet_of_get _ ho]


theorem File_AddRetract_sim (A : AddLineSpec) {h : Heap} {fp : Int} {e : EFile} (R : RepF h fp e)
    (vi : Modfile.VersionInterval) (rationale : Bytes) (fuel : Nat)
    (hf1 : (modPath e).length + 1 ≤ fuel) (hf2 : 2 * vi.high.length ≤ fuel) (hf3 : 2 * vi.low.length ≤ fuel)
    (hf4 : nodeCount e.f.syn.stmts + 3 ≤ fuel) (hf5 : rationale.length + 5 ≤ fuel)
    (hf6 : vi.low.length + 1 ≤ fuel) (hf7 : vi.high.length + 1 ≤ fuel) :
    match Modfile.Edit.addRetract e vi rationale with
    | .ok e' => ∃ h', File_AddRetract isPrintI quoteI fuel fp (viG vi) rationale h = .ok (none, h') ∧ RepF h' fp e'
    | .error err => err = .invalidVersion ∧ ∃ s, File_AddRetract isPrintI quoteI fuel fp (viG vi) rationale h = .ok (some s, h) := by
  obtain ⟨o, ho, R⟩ := R
  rw [addRetract_eq]
  -- the module path
  have hcase : (o.Module = 0 ∧ modPath e = []) ∨
      (¬ (o.Module = 0) ∧ ∃ mo, heapGet h.modules o.Module = .ok mo ∧ modPath e = mo.Mod.Path) := by
    have hm := R.module
    unfold modPath
    cases hmd : e.f.module with
    | none => rw [hmd] at hm; left; exact ⟨hm, rfl⟩
    | some m =>
      rw [hmd] at hm
      right
      exact ⟨by have := heapGet_pos hm.1; omega, _, hm.1, rfl⟩
  have hB : ([114, 101, 116, 114, 97, 99, 116] : Bytes) = B "retract" := by decide +kernel
  unfold File_AddRetract
  rcases hcase with ⟨h0, hp⟩ | ⟨h0, mo, hmo, hp⟩
  all_goals rw [hp] at hf1 ⊢
  all_goals first
    | simp only [ho, bind_ok, h0, hmo, decide_true, decide_false, Bool.not_true, Bool.not_false, Bool.false_eq_true, if_true, if_false]
    | simp only [ho, bind_ok, h0, decide_true, decide_false, Bool.not_true, Bool.not_false, Bool.false_eq_true, if_true, if_false]
  all_goals
    obtain ⟨err1, hc1, hi1⟩ := checkCanonicalVersion_ok fuel _ (viG vi).High hf1 hf2
    obtain ⟨err2, hc2, hi2⟩ := checkCanonicalVersion_ok fuel _ (viG vi).Low hf1 hf3
    simp only [hc1, hc2, bind_ok]
    simp only [viG_High, viG_Low] at hi1 hi2
    cases err1 with
    | some s1 =>
      have hv1 := fun hh => (by simpa using hi1.2 hh : False)
      simp only [Option.isNone_some, Bool.not_false, if_true, pure_eq_ok]
      split
      · rename_i e' heq
        split at heq
        · cases heq
        · rename_i hn; exact absurd (by simpa using hn) hv1
      · rename_i err heq
        split at heq
        · cases heq; exact ⟨rfl, s1, rfl⟩
        · rename_i hn; exact absurd (by simpa using hn) hv1
    | none =>
    have hv1 := hi1.1 rfl
    cases err2 with
    | some s2 =>
      have hv2 := fun hh => (by simpa using hi2.2 hh : False)
      simp only [Option.isNone_some, Option.isNone_none, Bool.not_false, Bool.not_true, Bool.false_eq_true, if_true, if_false, pure_eq_ok, hv1]
      split
      · rename_i e' heq
        split at heq
        · cases heq
        · rename_i hn; exact absurd (by simpa using hn) hv2
      · rename_i err heq
        split at heq
        · cases heq; exact ⟨rfl, s2, rfl⟩
        · rename_i hn; exact absurd (by simpa using hn) hv2
    | none =>
        have hv2 := hi2.1 rfl
        simp only [hv1, hv2, Bool.not_true, Bool.false_eq_true, if_false, Option.isNone_none]
        -- the allocated `Retract`, the new line
        have R2 : RepFAt { h with retracts := h.retracts ++ [({ (default : Retract) with VersionInterval := viG vi } : Retract)] } o e :=
          RepFAt.withRetracts R _ (R.retract.mono (fun p v hp => heapGet_alloc_old _ hp) (Nat.le_refl _))
        obtain ⟨t0, trest, htk⟩ : ∃ t0 trest, retrTokens vi = t0 :: trest := by
          unfold retrTokens; split <;> exact ⟨_, _, rfl⟩
        obtain ⟨h3, l, a1, F, R3, hl, hnew, hfind⟩ := addLine_file A R2 none t0 trest fuel hf4
        rw [← htk] at a1 R3 hfind
        have hq1 : AutoQuote isPrintI quoteI fuel (viG vi).Low = .ok (Modfile.autoQuote vi.low) := AutoQuote_ok vi.low fuel hf6
        have hq2 : AutoQuote isPrintI quoteI fuel (viG vi).High = .ok (Modfile.autoQuote vi.high) := AutoQuote_ok vi.high fuel hf7
        have hgen : (if decide ((viG vi).Low = (viG vi).High) = true then
              [([114, 101, 116, 114, 97, 99, 116] : Bytes), Modfile.autoQuote vi.low]
            else [([114, 101, 116, 114, 97, 99, 116] : Bytes), [91], Modfile.autoQuote vi.low, [44], Modfile.autoQuote vi.high, [93]]) =
            retrTokens vi := by
          unfold retrTokens
          by_cases hlh : vi.low = vi.high
          · rw [if_pos (show decide ((viG vi).Low = (viG vi).High) = true from decide_eq_true hlh)]; simp [hlh, hB]
          · rw [if_neg (show ¬ (decide ((viG vi).Low = (viG vi).High) = true) from fun hd => hlh (of_decide_eq_true hd))]; simp [hlh, hB]
        have hlen3 : h3.lines.length = e.next := by have := R3.next; simp at this; omega
        have hret3 : h3.retracts = h.retracts ++ [({ (default : Retract) with VersionInterval := viG vi } : Retract)] := F.retracts
        have hmods3 : h3.mods = h.mods := F.mods
        have ho3 : heapGet h3.mods fp = .ok o := by rw [hmods3]; exact ho
        have htail := retractTail_eq (w := h3) (fp := fp) (o := o) (l := l) h.retracts vi rationale e.next fuel hret3 hl hnew.2 ho3 hf5
        -- the representation of the final heap
        have R3' := RepFAt.withRetracts R3 h.retracts (R.retract.mono (fun _ _ hp => hp) (by have := R.next; omega))
        have R4 := RepFAt.setLine R3' (IdEquiv_addBefore (ratComs rationale)) (p := (e.next : Int)) (l0 := l) hl
        have R5 := RepFAt.pushRetract R4 (newRetract vi (addBefore (ratComs rationale) l) e.next) (by simp [newRetract, hlen3])
        have R6 := RepFAt.setMods R5 (h3.mods.set (fp.toNat - 1) { o with Retract := o.Retract ++ [((h.retracts.length + 1 : Nat) : Int)] })
        generalize hFdef : ({ setLineH h3 (e.next : Int) (addBefore (ratComs rationale) l) with
            retracts := h.retracts ++ [retractG (newRetract vi (addBefore (ratComs rationale) l) e.next)],
            mods := h3.mods.set (fp.toNat - 1) { o with Retract := o.Retract ++ [((h.retracts.length + 1 : Nat) : Int)] } } : Heap) = hF at htail
        refine ⟨hF, ?_, { o with Retract := o.Retract ++ [((h.retracts.length + 1 : Nat) : Int)] }, ?_, ?_⟩
        · -- the regenerated text is `addLine` followed by `retractTail`
          have hgo : ∀ (toks : List Bytes), toks = retrTokens vi →
              (do let t25 ← FileSyntax_addLine fuel o.Syntax Expr.nil toks
                    { h with retracts := (heapAlloc h.retracts ({ (default : Retract) with VersionInterval := viG vi } : Retract)).2 }
                  retractTail fuel fp (heapAlloc h.retracts ({ (default : Retract) with VersionInterval := viG vi } : Retract)).1 rationale t25.1 t25.2)
                = .ok (none, hF) := by
            intro toks htoks
            rw [htoks, show (Expr.nil) = hintE none from rfl]
            erw [a1]
            exact htail
          by_cases hlh : vi.low = vi.high
          · rw [if_pos (show decide ((viG vi).Low = (viG vi).High) = true from decide_eq_true hlh)]
            simp only [hq1, bind_ok]
            exact hgo _ (by unfold retrTokens; simp [hlh, hB])
          · rw [if_neg (show ¬ (decide ((viG vi).Low = (viG vi).High) = true) from fun hd => hlh (of_decide_eq_true hd))]
            simp only [hq1, hq2, bind_ok]
            exact hgo _ (by unfold retrTokens; simp [hlh, hB])
        · rw [← hFdef]; exact heapGet_listSet_same _ ho3
        · rw [← hFdef]
          have hnd : (treeIds (addLine e.f.syn none (retrTokens vi) e.next).stmts).Nodup := by
            obtain ⟨es, r⟩ := R3.syn; exact r.nodupL
          have hfl := findLine_updateLine_self _ e.next (addBefore (ratComs rationale)) l hnd (fun _ => rfl) hfind
          have hmodel : addRetractOk e vi rationale =
              { f := { e.f with retract := e.f.retract ++ [newRetract vi (addBefore (ratComs rationale) l) e.next],
                                syn := (addLine e.f.syn none (retrTokens vi) e.next).updateLine e.next (addBefore (ratComs rationale)) },
                next := e.next + 1 } := by
            unfold addRetractOk
            simp only [hfl, newRetract]
          rw [hmodel]
          simpa using R6

end ModVerif.Tie.FnEditReqE
