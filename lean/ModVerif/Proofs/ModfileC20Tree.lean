/-
  C20 `pos_consistent`, parser level: every position the parser stores in the tree is copied from a token
  (`TokFacts`), every parser error is raised at the lexer's current position.
-/
import ModVerif.Model.Modfile.Comments
import ModVerif.Proofs.ModfileC20Lex
namespace ModVerif.Proofs.ModfileC20
open ModVerif ModVerif.Modfile ModVerif.Proofs.ModfileLex ModVerif.Proofs.ModfilePos

/-- a comment of the tree: the blank-line placeholder `Comment{}` of blocks, or a comment whose text is
    found in the input at its consistent start position -/
def CommentOK (data : Bytes) (c : Comment) : Prop := c = {} ∨ PosAt data c.start c.token

def CommentsOK (data : Bytes) (cs : Comments) : Prop :=
  (∀ c ∈ cs.before, CommentOK data c) ∧ (∀ c ∈ cs.suffix, CommentOK data c) ∧ (∀ c ∈ cs.after, CommentOK data c)

theorem commentsOK_empty (data : Bytes) : CommentsOK data {} :=
  ⟨(by intro c h; cases h), (by intro c h; cases h), (by intro c h; cases h)⟩

structure LineOK (data : Bytes) (l : Line) : Prop where
  comments : CommentsOK data l.comments
  start : ∃ t ts, l.token = t :: ts ∧ PosAt data l.start t
  «end» : ∃ t, l.token.getLast? = some t ∧ EndsAt data l.«end» t

structure BlockOK (data : Bytes) (b : LineBlock) : Prop where
  comments : CommentsOK data b.comments
  start : ∃ t ts, b.token = t :: ts ∧ PosAt data b.start t
  lparen : PosAt data b.lparen.pos [40]
  lparenC : CommentsOK data b.lparen.comments
  rparen : PosAt data b.rparen.pos [41]
  rparenC : CommentsOK data b.rparen.comments
  lines : ∀ l ∈ b.lines, LineOK data l

structure CommentBlockOK (data : Bytes) (cb : CommentBlock) : Prop where
  comments : CommentsOK data cb.comments
  start : ∃ c cs, cb.comments.before = c :: cs ∧ c.start = cb.start ∧ PosAt data cb.start c.token

def ExprOK (data : Bytes) : Expr → Prop
  | .commentBlock cb => CommentBlockOK data cb
  | .line l => LineOK data l
  | .lineBlock b => BlockOK data b
  | .lparen _ => False
  | .rparen _ => False

/-- outcome of a parser function: a reachable lexer state and a result satisfying `A`, or an error at a
    consistent position -/
def PRes {α : Type} (data : Bytes) (A : α → Prop) : Except SynErr (α × Input) → Prop
  | .ok (a, i') => Reach data i' ∧ A a
  | .error e => PosOK data e.pos

theorem reach_cur {data : Bytes} {i : Input} (h : Reach data i) : PosOK data i.pos :=
  (reach_tokOK2 h).inv.cur

theorem reach_facts {data : Bytes} {i : Input} (h : Reach data i) : TokFacts data i.token :=
  (reach_tokOK2 h).facts

theorem lex_res {data : Bytes} {i : Input} (h : Reach data i) :
    (∃ i', lex i = .ok (i.token, i') ∧ Reach data i') ∨ (∃ e, lex i = .error e ∧ PosOK data e.pos) := by
  unfold lex
  cases hr : readToken i with
  | ok i' => exact Or.inl ⟨i', by simp [bind, Except.bind], Reach.lex h hr⟩
  | error e => exact Or.inr ⟨e, by simp [bind, Except.bind], readToken_err_pos h hr⟩

theorem getLast?_reverse_cons {α : Type} (a : α) (l : List α) : (l ++ [a]).reverse.getLast? = (a :: l.reverse).getLast? := by
  simp

/-- loop invariant for the token accumulator of `parseLine`/`parseStmt` -/
structure Acc (data : Bytes) (start : Position) (tokensRev : List Bytes) : Prop where
  first : ∃ t, tokensRev.getLast? = some t ∧ PosAt data start t

theorem Acc.cons {data : Bytes} {start : Position} {ts : List Bytes} (h : Acc data start ts) (t : Bytes) :
    Acc data start (t :: ts) := by
  obtain ⟨f, hf, hp⟩ := h.first
  refine ⟨f, ?_, hp⟩
  cases ts with
  | nil => simp at hf
  | cons a l => simpa using hf

theorem Acc.start_reverse {data : Bytes} {start : Position} {ts : List Bytes} (h : Acc data start ts) :
    ∃ t l, ts.reverse = t :: l ∧ PosAt data start t := by
  obtain ⟨f, hf, hp⟩ := h.first
  have : ts.reverse.head? = some f := by simpa using hf
  cases hr : ts.reverse with
  | nil => rw [hr] at this; simp at this
  | cons a l =>
    rw [hr] at this
    simp at this
    exact ⟨a, l, rfl, this ▸ hp⟩

theorem parseLineLoop_res {data : Bytes} : ∀ (fuel : Nat) (i : Input) (s e : Position) (t : Bytes) (ts : List Bytes),
    Reach data i → Acc data s (t :: ts) → EndsAt data e t →
    PRes data (fun l => LineOK data l) (parseLineLoop fuel i s e (t :: ts)) := by
  intro fuel
  induction fuel with
  | zero => intro i s e t ts hr _ _; exact reach_cur hr
  | succ n ih =>
    intro i s e t ts hr hacc hend
    unfold parseLineLoop
    rcases lex_res hr with ⟨i1, h1, hr1⟩ | ⟨e1, h1, he1⟩
    · simp only [h1, bind, Except.bind]
      split
      · refine ⟨Reach.setId _ hr1, commentsOK_empty data, ?_, ?_⟩
        · obtain ⟨a, l, hl, hp⟩ := hacc.start_reverse
          exact ⟨a, l, hl, hp⟩
        · exact ⟨t, by simp, hend⟩
      · exact ih i1 s i.token.endPos i.token.text (t :: ts) hr1 (hacc.cons _) (reach_facts hr).«end»
    · simp only [h1, bind, Except.bind]
      exact he1


theorem parseLine_res {data : Bytes} (fuel : Nat) (i : Input) (hr : Reach data i) :
    PRes data (fun l => LineOK data l) (parseLine fuel i) := by
  unfold parseLine
  rcases lex_res hr with ⟨i1, h1, hr1⟩ | ⟨e1, h1, he1⟩
  · simp only [h1, bind, Except.bind]
    split
    · exact reach_cur hr1
    · have hf := reach_facts hr
      exact parseLineLoop_res fuel i1 _ _ _ [] hr1 ⟨⟨_, rfl, hf.start⟩⟩ hf.«end»
  · simp only [h1, bind, Except.bind]
    exact he1

theorem mem_ite_cons {α : Type} {b : Bool} {c a : α} {cs : List α} (h : c ∈ (if b = true then a :: cs else cs)) :
    c = a ∨ c ∈ cs := by
  cases b
  · exact Or.inr (by simpa using h)
  · simpa using h

/-- the part of a block that is known when its lines are being parsed -/
structure BlockPre (data : Bytes) (b : LineBlock) : Prop where
  comments : CommentsOK data b.comments
  start : ∃ t ts, b.token = t :: ts ∧ PosAt data b.start t
  lparen : PosAt data b.lparen.pos [40]
  lparenC : CommentsOK data b.lparen.comments

theorem parseLineBlockLoop_res {data : Bytes} : ∀ (fuel : Nat) (i : Input) (x : LineBlock) (ls : List Line)
    (cs : List Comment), Reach data i → BlockPre data x → (∀ l ∈ ls, LineOK data l) → (∀ c ∈ cs, CommentOK data c) →
    PRes data (fun b => BlockOK data b) (parseLineBlockLoop fuel i x ls cs) := by
  intro fuel
  induction fuel with
  | zero => intro i x ls cs hr _ _ _; exact reach_cur hr
  | succ n ih =>
    intro i x ls cs hr hx hls hcs
    unfold parseLineBlockLoop
    unfold Input.peek
    split
    · rcases lex_res hr with ⟨i1, h1, hr1⟩ | ⟨e1, h1, he1⟩
      · simp only [h1, bind, Except.bind]
        exact ih i1 x ls cs hr1 hx hls hcs
      · simp only [h1, bind, Except.bind]; exact he1
    · rcases lex_res hr with ⟨i1, h1, hr1⟩ | ⟨e1, h1, he1⟩
      · simp only [h1, bind, Except.bind]
        refine ih i1 x ls _ hr1 hx hls ?_
        intro c hc
        rcases mem_ite_cons hc with rfl | hc
        · exact Or.inl rfl
        · exact hcs c hc
      · simp only [h1, bind, Except.bind]; exact he1
    · rename_i hk
      rcases lex_res hr with ⟨i1, h1, hr1⟩ | ⟨e1, h1, he1⟩
      · simp only [h1, bind, Except.bind]
        refine ih i1 x ls _ hr1 hx hls ?_
        intro c hc
        simp only [List.mem_cons] at hc
        rcases hc with rfl | hc
        · exact Or.inr (reach_facts hr).start
        · exact hcs c hc
      · simp only [h1, bind, Except.bind]; exact he1
    · exact reach_cur hr
    · rename_i hk
      rcases lex_res hr with ⟨i1, h1, hr1⟩ | ⟨e1, h1, he1⟩
      · simp only [h1, bind, Except.bind]
        split
        · exact reach_cur hr1
        · rcases lex_res hr1 with ⟨i2, h2, hr2⟩ | ⟨e2, h2, he2⟩
          · simp only [h2]
            refine ⟨hr2, hx.comments, hx.start, hx.lparen, hx.lparenC, ?_, ?_, ?_⟩
            · have hf := reach_facts hr
              have := hf.punct 41 hk
              rw [← this]; exact hf.start
            · refine ⟨?_, (by intro c h; cases h), (by intro c h; cases h)⟩
              intro c hc
              exact hcs c (List.mem_reverse.mp hc)
            · intro l hl
              exact hls l (List.mem_reverse.mp hl)
          · simp only [h2]; exact he2
      · simp only [h1, bind, Except.bind]; exact he1
    · have hl := parseLine_res (n + 1) i hr
      cases hpl : parseLine (n + 1) i with
      | error e => rw [hpl] at hl; simp only [bind, Except.bind]; exact hl
      | ok v =>
        rw [hpl] at hl
        simp only [bind, Except.bind]
        refine ih v.2 x _ [] hl.1 hx ?_ (by intro c h; cases h)
        intro l hl'
        simp only [List.mem_cons] at hl'
        rcases hl' with rfl | hl'
        · refine ⟨⟨?_, hl.2.comments.2.1, hl.2.comments.2.2⟩, hl.2.start, hl.2.«end»⟩
          intro c hc
          exact hcs c (List.mem_reverse.mp hc)
        · exact hls l hl'


theorem parseStmtLoop_res {data : Bytes} : ∀ (fuel : Nat) (i : Input) (s e : Position) (t : Bytes) (ts : List Bytes),
    Reach data i → Acc data s (t :: ts) → (EndsAt data e t ∨ i.token.kind.isEOL = false) →
    PRes data (fun x => ExprOK data x) (parseStmtLoop fuel i s e (t :: ts)) := by
  intro fuel
  induction fuel with
  | zero => intro i s e t ts hr _ _; exact reach_cur hr
  | succ n ih =>
    intro i s e t ts hr hacc hend
    unfold parseStmtLoop
    rcases lex_res hr with ⟨i1, h1, hr1⟩ | ⟨e1, h1, he1⟩
    · simp only [h1, bind, Except.bind]
      have hf := reach_facts hr
      split
      · rename_i heol
        refine ⟨Reach.setId _ hr1, commentsOK_empty data, ?_, ?_⟩
        · obtain ⟨a, l, hl, hp⟩ := hacc.start_reverse
          exact ⟨a, l, hl, hp⟩
        · rcases hend with hend | hne
          · exact ⟨t, by simp, hend⟩
          · rw [hne] at heol; cases heol
      · split
        · rename_i hk
          have hk : i.token.kind = .punct 40 := by simpa using hk
          have hlp : PosAt data i.token.pos [40] := by
            have := hf.punct 40 hk
            rw [← this]; exact hf.start
          unfold Input.peek
          split
          · -- start of block
            unfold parseLineBlock
            have hb := parseLineBlockLoop_res (n + 1) i1
              { start := s, token := (t :: ts).reverse, lparen := { pos := i.token.pos } } [] [] hr1
              ⟨commentsOK_empty data, hacc.start_reverse, hlp, commentsOK_empty data⟩
              (by intro l h; cases h) (by intro c h; cases h)
            cases hpb : parseLineBlockLoop (n + 1) i1
              { start := s, token := (t :: ts).reverse, lparen := { pos := i.token.pos } } [] [] with
            | error e => rw [hpb] at hb; exact hb
            | ok v => rw [hpb] at hb; exact hb
          · split
            · rename_i hnext
              have hnext : i1.token.kind = .punct 41 := by simpa using hnext
              rcases lex_res hr1 with ⟨i2, h2, hr2⟩ | ⟨e2, h2, he2⟩
              · simp only [h2]
                split
                · rcases lex_res hr2 with ⟨i3, h3, hr3⟩ | ⟨e3, h3, he3⟩
                  · simp only [h3]
                    have hf1 := reach_facts hr1
                    refine ⟨hr3, commentsOK_empty data, hacc.start_reverse, hlp, commentsOK_empty data, ?_,
                      commentsOK_empty data, (by intro l h; cases h)⟩
                    have := hf1.punct 41 hnext
                    rw [← this]; exact hf1.start
                  · simp only [h3]; exact he3
                · rename_i hne
                  refine ih i2 s e _ _ hr2 ((hacc.cons _).cons _) (Or.inr ?_)
                  simpa using hne
              · simp only [h2]; exact he2
            · rename_i hne _
              refine ih i1 s e _ _ hr1 (hacc.cons _) (Or.inr ?_)
              simpa using hne
        · exact ih i1 s _ _ _ hr1 (hacc.cons _) (Or.inl hf.«end»)
    · simp only [h1, bind, Except.bind]; exact he1

theorem parseStmt_res {data : Bytes} (fuel : Nat) (i : Input) (hr : Reach data i) :
    PRes data (fun x => ExprOK data x) (parseStmt fuel i) := by
  unfold parseStmt
  rcases lex_res hr with ⟨i1, h1, hr1⟩ | ⟨e1, h1, he1⟩
  · simp only [h1, bind, Except.bind]
    have hf := reach_facts hr
    exact parseStmtLoop_res fuel i1 _ _ _ [] hr1 ⟨⟨_, rfl, hf.start⟩⟩ (Or.inl hf.«end»)
  · simp only [h1, bind, Except.bind]; exact he1


theorem exprOK_comments {data : Bytes} {s : Expr} (h : ExprOK data s) : CommentsOK data s.comments := by
  cases s with
  | commentBlock x => exact h.comments
  | line x => exact h.comments
  | lineBlock x => exact h.comments
  | lparen x => exact h.elim
  | rparen x => exact h.elim

/-- replacing the comments of a line or block statement -/
theorem exprOK_setComments {data : Bytes} {s : Expr} {cs : Comments} (h : ExprOK data s)
    (hnc : ∀ x, s ≠ .commentBlock x) (hc : CommentsOK data cs) : ExprOK data (s.setComments cs) := by
  cases s with
  | commentBlock x => exact absurd rfl (hnc x)
  | line x => exact ⟨hc, h.start, h.«end»⟩
  | lineBlock x => exact ⟨hc, h.start, h.lparen, h.lparenC, h.rparen, h.rparenC, h.lines⟩
  | lparen x => exact h.elim
  | rparen x => exact h.elim

/-- `parseStmt` returns a line or a block -/
theorem parseStmtLoop_kind : ∀ (fuel : Nat) (i : Input) (s e : Position) (ts : List Bytes) (x : Expr) (i' : Input),
    parseStmtLoop fuel i s e ts = .ok (x, i') → (∃ l, x = .line l) ∨ (∃ b, x = .lineBlock b) := by
  intro fuel
  induction fuel with
  | zero => intro i s e ts x i' h; simp [parseStmtLoop] at h
  | succ n ih =>
    intro i s e ts x i' h
    unfold parseStmtLoop at h
    cases h1 : lex i with
    | error e1 => simp [h1, bind, Except.bind] at h
    | ok v =>
      simp only [h1, bind, Except.bind] at h
      split at h
      · simp only [Except.ok.injEq, Prod.mk.injEq] at h
        exact Or.inl ⟨_, h.1.symm⟩
      · split at h
        · split at h
          · split at h
            · cases h
            · simp only [Except.ok.injEq, Prod.mk.injEq] at h
              exact Or.inr ⟨_, h.1.symm⟩
          · split at h
            · split at h
              · cases h
              · split at h
                · split at h
                  · cases h
                  · simp only [Except.ok.injEq, Prod.mk.injEq] at h
                    exact Or.inr ⟨_, h.1.symm⟩
                · exact ih _ _ _ _ _ _ h
            · exact ih _ _ _ _ _ _ h
        · exact ih _ _ _ _ _ _ h

theorem parseStmt_kind {fuel : Nat} {i : Input} {x : Expr} {i' : Input} (h : parseStmt fuel i = .ok (x, i')) :
    (∃ l, x = .line l) ∨ (∃ b, x = .lineBlock b) := by
  unfold parseStmt at h
  cases h1 : lex i with
  | error e1 => simp [h1, bind, Except.bind] at h
  | ok v =>
    simp only [h1, bind, Except.bind] at h
    exact parseStmtLoop_kind _ _ _ _ _ _ _ h

theorem parseFileLoop_res {data : Bytes} : ∀ (fuel : Nat) (i : Input) (stmtsRev : List Expr) (cb : Option CommentBlock),
    Reach data i → (∀ s ∈ stmtsRev, ExprOK data s) → (∀ c, cb = some c → CommentBlockOK data c) →
    PRes data (fun stmts => ∀ s ∈ stmts, ExprOK data s) (parseFileLoop fuel i stmtsRev cb) := by
  intro fuel
  induction fuel with
  | zero => intro i _ _ hr _ _; exact reach_cur hr
  | succ n ih =>
    intro i stmtsRev cb hr hst hcb
    have hcons : ∀ (x : Expr), ExprOK data x → ∀ s ∈ x :: stmtsRev, ExprOK data s := by
      intro x hx s hs
      simp only [List.mem_cons] at hs
      rcases hs with rfl | hs
      · exact hx
      · exact hst s hs
    unfold parseFileLoop
    unfold Input.peek
    split
    · rcases lex_res hr with ⟨i1, h1, hr1⟩ | ⟨e1, h1, he1⟩
      · simp only [h1, bind, Except.bind]
        split
        · rename_i c
          exact ih i1 _ none hr1 (hcons (.commentBlock c) (hcb c rfl)) (by intro c h; cases h)
        · exact ih i1 _ none hr1 hst (by intro c h; cases h)
      · simp only [h1, bind, Except.bind]; exact he1
    · rcases lex_res hr with ⟨i1, h1, hr1⟩ | ⟨e1, h1, he1⟩
      · simp only [h1, bind, Except.bind]
        have hf := reach_facts hr
        refine ih i1 _ _ hr1 hst ?_
        intro c' hc'
        simp only [Option.some.injEq] at hc'
        subst hc'
        have hnew : CommentOK data { start := i.token.pos, token := i.token.text } := Or.inr hf.start
        cases cb with
        | none =>
          refine ⟨⟨?_, (by intro c h; cases h), (by intro c h; cases h)⟩, ?_⟩
          · intro c hc
            simp at hc
            subst hc; exact hnew
          · exact ⟨_, [], rfl, rfl, hf.start⟩
        | some c0 =>
          have h0 := hcb c0 rfl
          refine ⟨⟨?_, h0.comments.2.1, h0.comments.2.2⟩, ?_⟩
          · intro c hc
            simp only [List.mem_append, List.mem_singleton] at hc
            rcases hc with hc | rfl
            · exact h0.comments.1 c hc
            · exact hnew
          · obtain ⟨c1, cs1, hb, hs, hp⟩ := h0.start
            exact ⟨c1, cs1 ++ [{ start := i.token.pos, token := i.token.text }], by simp [hb], hs, hp⟩
      · simp only [h1, bind, Except.bind]; exact he1
    · split
      · rename_i c
        refine ⟨hr, ?_⟩
        intro s hs
        exact hcons (.commentBlock c) (hcb c rfl) s (List.mem_reverse.mp hs)
      · refine ⟨hr, ?_⟩
        intro s hs
        exact hst s (List.mem_reverse.mp hs)
    · have hs := parseStmt_res (n + 1) i hr
      cases hps : parseStmt (n + 1) i with
      | error e => rw [hps] at hs; simp only [bind, Except.bind]; exact hs
      | ok v =>
        rw [hps] at hs
        simp only [bind, Except.bind]
        split
        · rename_i c
          refine ih v.2 _ none hs.1 (hcons _ ?_) (by intro c h; cases h)
          have hk := parseStmt_kind (show parseStmt (n + 1) i = .ok (v.1, v.2) by rw [hps])
          refine exprOK_setComments hs.2 ?_ ⟨(hcb c rfl).comments.1, (exprOK_comments hs.2).2.1, (exprOK_comments hs.2).2.2⟩
          intro x hx
          rcases hk with ⟨l, hl⟩ | ⟨b, hb⟩
          · rw [hl] at hx; cases hx
          · rw [hb] at hx; cases hx
        · exact ih v.2 _ none hs.1 (hcons _ hs.2) (by intro c h; cases h)

theorem parseFile_res {data : Bytes} :
    PRes data (fun stmts => ∀ s ∈ stmts, ExprOK data s) (parseFile data) := by
  unfold parseFile
  cases h : readToken (newInput data) with
  | error e => simp only [bind, Except.bind]; exact readToken_first_err_pos h
  | ok i =>
    simp only [bind, Except.bind]
    exact parseFileLoop_res _ i [] none (Reach.start h) (by intro s h; cases h) (by intro c h; cases h)


/-! ### comment assignment only moves comments -/

def AllOK (data : Bytes) (cs : List Comment) : Prop := ∀ c ∈ cs, CommentOK data c

theorem takeLine_append (start : Position) : ∀ (l : List Comment), (takeLine start l).1 ++ (takeLine start l).2 = l := by
  intro l
  induction l with
  | nil => rfl
  | cons c rest ih =>
    unfold takeLine
    split
    · simp only [List.cons_append, ih]
    · rfl

theorem takeSuffix_mem («end» : Position) : ∀ (l acc : List Comment) (c : Comment),
    (c ∈ (takeSuffix «end» acc l).1 → c ∈ acc ∨ c ∈ l) ∧ (c ∈ (takeSuffix «end» acc l).2 → c ∈ l) := by
  intro l
  induction l with
  | nil => intro acc c; simp [takeSuffix]
  | cons a rest ih =>
    intro acc c
    unfold takeSuffix
    split
    · have := ih (a :: acc) c
      constructor
      · intro h
        rcases this.1 h with h | h
        · simp only [List.mem_cons] at h
          rcases h with rfl | h
          · exact Or.inr (by simp)
          · exact Or.inl h
        · exact Or.inr (List.mem_cons_of_mem _ h)
      · intro h
        exact List.mem_cons_of_mem _ (this.2 h)
    · exact ⟨fun h => Or.inl h, fun h => h⟩

theorem assignBefore_ok {data : Bytes} (start : Position) {cs : Comments} {line : List Comment}
    (hc : CommentsOK data cs) (hl : AllOK data line) :
    CommentsOK data (assignBefore start cs line).1 ∧ AllOK data (assignBefore start cs line).2 ∧
    (assignBefore start cs line).1.before = cs.before ++ (takeLine start line).1 := by
  unfold assignBefore
  have happ := takeLine_append start line
  refine ⟨⟨?_, hc.2.1, hc.2.2⟩, ?_, rfl⟩
  · intro c h
    simp only [List.mem_append] at h
    rcases h with h | h
    · exact hc.1 c h
    · exact hl c (by rw [← happ]; exact List.mem_append_left _ h)
  · intro c h
    exact hl c (by rw [← happ]; exact List.mem_append_right _ h)

theorem assignSuffix_ok {data : Bytes} (span : Position × Position) {cs : Comments} {suf : List Comment}
    (hc : CommentsOK data cs) (hl : AllOK data suf) :
    CommentsOK data (assignSuffix span cs suf).1 ∧ AllOK data (assignSuffix span cs suf).2 ∧
    (assignSuffix span cs suf).1.before = cs.before := by
  unfold assignSuffix
  split
  · refine ⟨⟨hc.1, ?_, hc.2.2⟩, hl, rfl⟩
    intro c h
    exact hc.2.1 c (List.mem_reverse.mp h)
  · have hm := takeSuffix_mem span.2 suf []
    refine ⟨⟨hc.1, ?_, hc.2.2⟩, ?_, rfl⟩
    · intro c h
      simp only [List.mem_reverse, List.mem_append] at h
      rcases h with h | h
      · exact hc.2.1 c h
      · rcases (hm c).1 h with h | h
        · cases h
        · exact hl c h
    · intro c h
      exact hl c ((hm c).2 h)

theorem preLines_ok {data : Bytes} : ∀ (ls : List Line) (line : List Comment),
    (∀ l ∈ ls, LineOK data l) → AllOK data line →
    (∀ l ∈ (preLines ls line).1, LineOK data l) ∧ AllOK data (preLines ls line).2 := by
  intro ls
  induction ls with
  | nil => intro line h hl; exact ⟨h, hl⟩
  | cons l rest ih =>
    intro line h hl
    have hlo := h l (by simp)
    obtain ⟨h1, h2, _⟩ := assignBefore_ok l.start hlo.comments hl
    have := ih (assignBefore l.start l.comments line).2 (fun x hx => h x (List.mem_cons_of_mem _ hx)) h2
    unfold preLines
    refine ⟨?_, this.2⟩
    intro x hx
    simp only [List.mem_cons] at hx
    rcases hx with rfl | hx
    · exact ⟨h1, hlo.start, hlo.«end»⟩
    · exact this.1 x hx

theorem postLinesRev_ok {data : Bytes} : ∀ (ls : List Line) (suf : List Comment),
    (∀ l ∈ ls, LineOK data l) → AllOK data suf →
    (∀ l ∈ (postLinesRev ls suf).1, LineOK data l) ∧ AllOK data (postLinesRev ls suf).2 := by
  intro ls
  induction ls with
  | nil => intro line h hl; exact ⟨h, hl⟩
  | cons l rest ih =>
    intro suf h hl
    have hlo := h l (by simp)
    obtain ⟨h1, h2, _⟩ := assignSuffix_ok (l.start, l.«end») hlo.comments hl
    have := ih (assignSuffix (l.start, l.«end») l.comments suf).2 (fun x hx => h x (List.mem_cons_of_mem _ hx)) h2
    unfold postLinesRev
    refine ⟨?_, this.2⟩
    intro x hx
    simp only [List.mem_cons] at hx
    rcases hx with rfl | hx
    · exact ⟨h1, hlo.start, hlo.«end»⟩
    · exact this.1 x hx

theorem preStmt_ok {data : Bytes} (s : Expr) (line : List Comment) (hs : ExprOK data s) (hl : AllOK data line) :
    ExprOK data (preStmt s line).1 ∧ AllOK data (preStmt s line).2 := by
  cases s with
  | lineBlock b =>
    unfold preStmt
    obtain ⟨a1, a2, _⟩ := assignBefore_ok b.start hs.comments hl
    obtain ⟨b1, b2, _⟩ := assignBefore_ok b.lparen.pos hs.lparenC a2
    obtain ⟨c1, c2⟩ := preLines_ok b.lines _ hs.lines b2
    obtain ⟨d1, d2, _⟩ := assignBefore_ok b.rparen.pos hs.rparenC c2
    exact ⟨⟨a1, hs.start, hs.lparen, b1, hs.rparen, d1, c1⟩, d2⟩
  | line x =>
    obtain ⟨a1, a2, _⟩ := assignBefore_ok x.start hs.comments hl
    exact ⟨⟨a1, hs.start, hs.«end»⟩, a2⟩
  | commentBlock x =>
    obtain ⟨a1, a2, a3⟩ := assignBefore_ok x.start hs.comments hl
    refine ⟨⟨a1, ?_⟩, a2⟩
    obtain ⟨c, cs, hb, hst, hp⟩ := hs.start
    exact ⟨c, cs ++ (takeLine x.start line).1, by
      show (assignBefore x.start x.comments line).1.before = _
      rw [a3, hb]; rfl, hst, hp⟩
  | lparen x => exact hs.elim
  | rparen x => exact hs.elim

theorem postStmt_ok {data : Bytes} (s : Expr) (suf : List Comment) (hs : ExprOK data s) (hl : AllOK data suf) :
    ExprOK data (postStmt s suf).1 ∧ AllOK data (postStmt s suf).2 := by
  cases s with
  | lineBlock b =>
    unfold postStmt
    obtain ⟨a1, a2, _⟩ := assignSuffix_ok (Expr.lineBlock b).span hs.comments hl
    obtain ⟨b1, b2, _⟩ := assignSuffix_ok (Expr.rparen b.rparen).span hs.rparenC a2
    obtain ⟨c1, c2⟩ := postLinesRev_ok b.lines.reverse _ (fun l hl => hs.lines l (List.mem_reverse.mp hl)) b2
    obtain ⟨d1, d2, _⟩ := assignSuffix_ok (Expr.lparen b.lparen).span hs.lparenC c2
    exact ⟨⟨a1, hs.start, hs.lparen, d1, hs.rparen, b1, fun l hl => c1 l (List.mem_reverse.mp hl)⟩, d2⟩
  | line x =>
    obtain ⟨a1, a2, _⟩ := assignSuffix_ok (Expr.line x).span hs.comments hl
    exact ⟨⟨a1, hs.start, hs.«end»⟩, a2⟩
  | commentBlock x =>
    obtain ⟨a1, a2, a3⟩ := assignSuffix_ok (Expr.commentBlock x).span hs.comments hl
    refine ⟨⟨a1, ?_⟩, a2⟩
    obtain ⟨c, cs, hb, hst, hp⟩ := hs.start
    exact ⟨c, cs, by
      show (assignSuffix (Expr.commentBlock x).span x.comments suf).1.before = _
      rw [a3, hb], hst, hp⟩
  | lparen x => exact hs.elim
  | rparen x => exact hs.elim

theorem preStmts_ok {data : Bytes} : ∀ (ss : List Expr) (line : List Comment),
    (∀ s ∈ ss, ExprOK data s) → AllOK data line →
    (∀ s ∈ (preStmts ss line).1, ExprOK data s) ∧ AllOK data (preStmts ss line).2 := by
  intro ss
  induction ss with
  | nil => intro line h hl; exact ⟨h, hl⟩
  | cons s rest ih =>
    intro line h hl
    obtain ⟨h1, h2⟩ := preStmt_ok s line (h s (by simp)) hl
    have := ih (preStmt s line).2 (fun x hx => h x (List.mem_cons_of_mem _ hx)) h2
    unfold preStmts
    refine ⟨?_, this.2⟩
    intro x hx
    simp only [List.mem_cons] at hx
    rcases hx with rfl | hx
    · exact h1
    · exact this.1 x hx

theorem postStmtsRev_ok {data : Bytes} : ∀ (ss : List Expr) (suf : List Comment),
    (∀ s ∈ ss, ExprOK data s) → AllOK data suf →
    (∀ s ∈ (postStmtsRev ss suf).1, ExprOK data s) ∧ AllOK data (postStmtsRev ss suf).2 := by
  intro ss
  induction ss with
  | nil => intro line h hl; exact ⟨h, hl⟩
  | cons s rest ih =>
    intro suf h hl
    obtain ⟨h1, h2⟩ := postStmt_ok s suf (h s (by simp)) hl
    have := ih (postStmt s suf).2 (fun x hx => h x (List.mem_cons_of_mem _ hx)) h2
    unfold postStmtsRev
    refine ⟨?_, this.2⟩
    intro x hx
    simp only [List.mem_cons] at hx
    rcases hx with rfl | hx
    · exact h1
    · exact this.1 x hx

/-- the whole tree -/
structure FileOK (data : Bytes) (f : FileSyntax) : Prop where
  comments : CommentsOK data f.comments
  stmts : ∀ s ∈ f.stmts, ExprOK data s

theorem assignComments_ok {data : Bytes} (f : FileSyntax) (cs : List Comment) (hf : FileOK data f) (hc : AllOK data cs) :
    FileOK data (assignComments f cs) := by
  unfold assignComments
  have hline : AllOK data (cs.filter (!·.suffix)) := fun c h => hc c (List.mem_filter.mp h).1
  have hsuf : AllOK data (cs.filter (·.suffix)).reverse := fun c h => hc c (List.mem_filter.mp (List.mem_reverse.mp h)).1
  obtain ⟨a1, a2, _⟩ := assignBefore_ok f.span.1 hf.comments hline
  obtain ⟨b1, b2⟩ := preStmts_ok f.stmts _ hf.stmts a2
  obtain ⟨c1, c2⟩ := postStmtsRev_ok (preStmts f.stmts (assignBefore f.span.1 f.comments (cs.filter (!·.suffix))).2).1.reverse
    (cs.filter (·.suffix)).reverse (fun s hs => b1 s (List.mem_reverse.mp hs)) hsuf
  refine ⟨⟨?_, a1.2.1, ?_⟩, ?_⟩
  · intro c h
    simp only [List.mem_append, List.mem_reverse] at h
    rcases h with h | h
    · exact a1.1 c h
    · exact c2 c h
  · intro c h
    simp only [List.mem_append] at h
    rcases h with h | h
    · exact a1.2.2 c h
    · exact b2 c h
  · intro s hs
    exact c1 s (List.mem_reverse.mp hs)

/-- `pos_consistent` for the syntax-only parser: every position of the tree and the position of the error. -/
theorem parse_pos_consistent (name data : Bytes) :
    match parse name data with
    | .ok t => FileOK data t
    | .error e => PosOK data e.pos := by
  unfold parse
  have h := @parseFile_res data
  cases hp : parseFile data with
  | error e => rw [hp] at h; simp only [bind, Except.bind]; exact h
  | ok v =>
    rw [hp] at h
    simp only [bind, Except.bind]
    refine assignComments_ok _ _ ⟨commentsOK_empty data, h.2⟩ ?_
    intro c hc
    exact Or.inr ((reach_tokOK2 h.1).inv.comments c (List.mem_reverse.mp hc)).1

end ModVerif.Proofs.ModfileC20
