/-
  Helper lemmas for Tie/FnRuleLeaf.lean, part C: parseReplace on a token VIEW of its own line.

  `prOut fn pos line verb args fx` is the Go function on the token LIST `args` (rule.go order): the tokens after the in-place
  stores, the NEW `*Replace` object or the NEW `*Error` object, and the length of the old version handed to
  module.CheckPathMajor (its fuel).  `parseReplace_spec`: the regenerated function on a view of the line `line` computes
  exactly that; the heap afterwards is `setToksH` plus one allocation.  `prOut_model`: `prOut` is the hand model's
  `parseReplace` (errors under `errAbs`, all at the line's start).

  Technique: every intermediate heap is `setToksH h0 r.owner (pre ++ ts)` for the anchor view `v0 : TokView h0 r pre toks0`;
  `A.len / A.getK / A.setK / A.line` compute the view operations on such a heap.
-/
import ModVerif.Proofs.TieFnRuleLeafB
set_option linter.unusedSimpArgs false
set_option linter.unusedVariables false
namespace ModVerif.Tie.FnRuleLeafC
open ModVerif ModVerif.GoRt ModVerif.Generated ModVerif.Tie.FnRuleRep ModVerif.Tie.FnRuleLeafA ModVerif.Tie.FnRuleLeafB
open ModVerif.Drv.GenModfile (isPrintI unquoteI)
open ModVerif.Drv.GenRule (fixG)

/-! ### view operations on an anchored heap -/

section anchor
variable {h0 : Rule.Heap} {r : Rule.TokRef} {pre toks0 : List Bytes}

theorem A.view (v0 : TokView h0 r pre toks0) (ts : List Bytes) : TokView (setToksH h0 r.owner (pre ++ ts)) r pre ts := by
  have := v0.afterStore pre ts r.lo (by obtain ⟨_, _, _, hlo⟩ := v0; exact hlo)
  exact this

theorem A.len (v0 : TokView h0 r pre toks0) (ts : List Bytes) :
    Rule.TokRef.len r (setToksH h0 r.owner (pre ++ ts)) = .ok (ts.length : Int) := (A.view v0 ts).len

theorem A.get0 (v0 : TokView h0 r pre toks0) (t : Bytes) (rest : List Bytes) :
    Rule.TokRef.get r 0 (setToksH h0 r.owner (pre ++ t :: rest)) = .ok t := V.get0 (A.view v0 _)
theorem A.get1 (v0 : TokView h0 r pre toks0) (t u : Bytes) (rest : List Bytes) :
    Rule.TokRef.get r 1 (setToksH h0 r.owner (pre ++ t :: u :: rest)) = .ok u := V.get1 (A.view v0 _)
theorem A.get2 (v0 : TokView h0 r pre toks0) (t u x : Bytes) (rest : List Bytes) :
    Rule.TokRef.get r 2 (setToksH h0 r.owner (pre ++ t :: u :: x :: rest)) = .ok x := V.get2 (A.view v0 _)
theorem A.get3 (v0 : TokView h0 r pre toks0) (t u x y : Bytes) (rest : List Bytes) :
    Rule.TokRef.get r 3 (setToksH h0 r.owner (pre ++ t :: u :: x :: y :: rest)) = .ok y := V.get3 (A.view v0 _)
theorem A.get4 (v0 : TokView h0 r pre toks0) (t u x y z : Bytes) (rest : List Bytes) :
    Rule.TokRef.get r 4 (setToksH h0 r.owner (pre ++ t :: u :: x :: y :: z :: rest)) = .ok z := V.get4 (A.view v0 _)

theorem A.set0 (v0 : TokView h0 r pre toks0) (t : Bytes) (rest : List Bytes) (x : Bytes) :
    Rule.TokRef.set r 0 x (setToksH h0 r.owner (pre ++ t :: rest)) = .ok (setToksH h0 r.owner (pre ++ x :: rest)) := by
  rw [(V.set0 (A.view v0 _) x).1, v0.setToksH_twice]
theorem A.set1 (v0 : TokView h0 r pre toks0) (t u : Bytes) (rest : List Bytes) (x : Bytes) :
    Rule.TokRef.set r 1 x (setToksH h0 r.owner (pre ++ t :: u :: rest)) = .ok (setToksH h0 r.owner (pre ++ t :: x :: rest)) := by
  rw [(V.set1 (A.view v0 _) x).1, v0.setToksH_twice]
theorem A.set2 (v0 : TokView h0 r pre toks0) (t u y : Bytes) (rest : List Bytes) (x : Bytes) :
    Rule.TokRef.set r 2 x (setToksH h0 r.owner (pre ++ t :: u :: y :: rest)) = .ok (setToksH h0 r.owner (pre ++ t :: u :: x :: rest)) := by
  rw [(V.set2 (A.view v0 _) x).1, v0.setToksH_twice]
theorem A.set3 (v0 : TokView h0 r pre toks0) (t u y z : Bytes) (rest : List Bytes) (x : Bytes) :
    Rule.TokRef.set r 3 x (setToksH h0 r.owner (pre ++ t :: u :: y :: z :: rest)) =
      .ok (setToksH h0 r.owner (pre ++ t :: u :: y :: x :: rest)) := by
  rw [(V.set3 (A.view v0 _) x).1, v0.setToksH_twice]
theorem A.set4 (v0 : TokView h0 r pre toks0) (t u y z a : Bytes) (rest : List Bytes) (x : Bytes) :
    Rule.TokRef.set r 4 x (setToksH h0 r.owner (pre ++ t :: u :: y :: z :: a :: rest)) =
      .ok (setToksH h0 r.owner (pre ++ t :: u :: y :: z :: x :: rest)) := by
  rw [(V.set4 (A.view v0 _) x).1, v0.setToksH_twice]

/-- the owner line in an anchored heap: only its tokens differ -/
theorem A.line {L : Rule.Line} (hg : heapGet h0.lines r.owner = .ok L) (ts : List Bytes) :
    heapGet (setToksH h0 r.owner ts).lines r.owner = .ok { L with Token := ts } := heapGet_setToksH_same hg ts

end anchor

/-! ### the Go function on a token list -/

structure PrOut where
  toks : List Bytes
  res : Except Rule.Error Rule.Replace
  vlen : Nat

/-- `wrapError` / `errorf`: `&Error{Filename, Pos, Err}` -/
def eW (fn : Bytes) (pos : Rule.Position) (err : Option String) : Rule.Error :=
  { (default : Rule.Error) with Filename := fn, Pos := pos, Err := err }

/-- `wrapModPathError`: `&Error{Filename, Pos, ModPath, Verb, Err}` -/
def eM (fn : Bytes) (pos : Rule.Position) (verb modPath : Bytes) (err : Option String) : Rule.Error :=
  { (default : Rule.Error) with Filename := fn, Pos := pos, ModPath := modPath, Verb := verb, Err := err }

def fmtUsage : Bytes := [117, 115, 97, 103, 101, 58, 32, 37, 115, 32, 109, 111, 100, 117, 108, 101, 47, 112, 97, 116, 104, 32, 91, 118, 49, 46, 50, 46, 51, 93, 32, 61, 62, 32, 111, 116, 104, 101, 114, 47, 109, 111, 100, 117, 108, 101, 32, 118, 49, 46, 52, 10, 9, 32, 111, 114, 32, 37, 115, 32, 109, 111, 100, 117, 108, 101, 47, 112, 97, 116, 104, 32, 91, 118, 49, 46, 50, 46, 51, 93, 32, 61, 62, 32, 46, 46, 47, 108, 111, 99, 97, 108, 47, 100, 105, 114, 101, 99, 116, 111, 114, 121]
def fmtQuoted : Bytes := [105, 110, 118, 97, 108, 105, 100, 32, 113, 117, 111, 116, 101, 100, 32, 115, 116, 114, 105, 110, 103, 58, 32, 37, 118]
def fmtDirVersion : Bytes := [114, 101, 112, 108, 97, 99, 101, 109, 101, 110, 116, 32, 109, 111, 100, 117, 108, 101, 32, 100, 105, 114, 101, 99, 116, 111, 114, 121, 32, 112, 97, 116, 104, 32, 37, 113, 32, 99, 97, 110, 110, 111, 116, 32, 104, 97, 118, 101, 32, 118, 101, 114, 115, 105, 111, 110]
def fmtAtVersion : Bytes := [114, 101, 112, 108, 97, 99, 101, 109, 101, 110, 116, 32, 109, 111, 100, 117, 108, 101, 32, 109, 117, 115, 116, 32, 109, 97, 116, 99, 104, 32, 102, 111, 114, 109, 97, 116, 32, 39, 112, 97, 116, 104, 32, 118, 101, 114, 115, 105, 111, 110, 39, 44, 32, 110, 111, 116, 32, 39, 112, 97, 116, 104, 64, 118, 101, 114, 115, 105, 111, 110, 39]
def fmtNeedsDir : Bytes := [114, 101, 112, 108, 97, 99, 101, 109, 101, 110, 116, 32, 109, 111, 100, 117, 108, 101, 32, 119, 105, 116, 104, 111, 117, 116, 32, 118, 101, 114, 115, 105, 111, 110, 32, 109, 117, 115, 116, 32, 98, 101, 32, 100, 105, 114, 101, 99, 116, 111, 114, 121, 32, 112, 97, 116, 104, 32, 40, 114, 111, 111, 116, 101, 100, 32, 111, 114, 32, 115, 116, 97, 114, 116, 105, 110, 103, 32, 119, 105, 116, 104, 32, 46, 32, 111, 114, 32, 46, 46, 41]
def fmtWindows : Bytes := [114, 101, 112, 108, 97, 99, 101, 109, 101, 110, 116, 32, 100, 105, 114, 101, 99, 116, 111, 114, 121, 32, 97, 112, 112, 101, 97, 114, 115, 32, 116, 111, 32, 98, 101, 32, 87, 105, 110, 100, 111, 119, 115, 32, 112, 97, 116, 104, 32, 40, 111, 110, 32, 97, 32, 110, 111, 110, 45, 119, 105, 110, 100, 111, 119, 115, 32, 115, 121, 115, 116, 101, 109, 41]

def eF (fn : Bytes) (pos : Rule.Position) (fmt : Bytes) : Rule.Error := eW fn pos (some (bytesToStr fmt))

def mkMV (p v : Bytes) : ModVersion := ({ (default : ModVersion) with Path := p, Version := v } : ModVersion)

def mkReplace (line : Int) (s v ns nv : Bytes) : Rule.Replace :=
  ({ (default : Rule.Replace) with Old := mkMV s v, New := mkMV ns nv, Syntax := line } : Rule.Replace)

/-- the part after the arrow: `pre'` are the (already rewritten) tokens up to and including `=>` -/
def prTail (fn : Bytes) (pos : Rule.Position) (line : Int) (verb : Bytes) (fx : Option ModVerif.Modfile.Fixer) (pre' : List Bytes)
    (s v : Bytes) (vlen : Nat) (nsTok : Bytes) (nvTok : Option Bytes) : PrOut :=
  if ¬ ((psOut nsTok).1.2).isNone then ⟨pre' ++ (psOut nsTok).2 :: nvTok.toList, .error (eF fn pos fmtQuoted), vlen⟩
  else
    match nvTok with
    | none =>
      if ¬ ModVerif.Modfile.isDirectoryPath (psOut nsTok).1.1 then
        if GoRt.contains (psOut nsTok).1.1 [64] then ⟨pre' ++ [(psOut nsTok).2], .error (eF fn pos fmtAtVersion), vlen⟩
        else ⟨pre' ++ [(psOut nsTok).2], .error (eF fn pos fmtNeedsDir), vlen⟩
      else if GoRt.contains (psOut nsTok).1.1 [92] then ⟨pre' ++ [(psOut nsTok).2], .error (eF fn pos fmtWindows), vlen⟩
      else ⟨pre' ++ [(psOut nsTok).2], .ok (mkReplace line s v (psOut nsTok).1.1 []), vlen⟩
    | some nvT =>
      if ¬ ((pvOut (psOut nsTok).1.1 nvT fx).1.2).isNone then
        ⟨pre' ++ [(psOut nsTok).2, (pvOut (psOut nsTok).1.1 nvT fx).2], .error (eW fn pos (pvOut (psOut nsTok).1.1 nvT fx).1.2), vlen⟩
      else if ModVerif.Modfile.isDirectoryPath (psOut nsTok).1.1 then
        ⟨pre' ++ [(psOut nsTok).2, (pvOut (psOut nsTok).1.1 nvT fx).2], .error (eF fn pos fmtDirVersion), vlen⟩
      else ⟨pre' ++ [(psOut nsTok).2, (pvOut (psOut nsTok).1.1 nvT fx).2],
        .ok (mkReplace line s v (psOut nsTok).1.1 (pvOut (psOut nsTok).1.1 nvT fx).1.1), vlen⟩

/-- `arrow = 1`: `a0 => nsTok [nvTok]` -/
def prHead1 (fn : Bytes) (pos : Rule.Position) (line : Int) (verb : Bytes) (fx : Option ModVerif.Modfile.Fixer)
    (a0 ar nsTok : Bytes) (nvTok : Option Bytes) : PrOut :=
  if ¬ ((psOut a0).1.2).isNone then ⟨(psOut a0).2 :: ar :: nsTok :: nvTok.toList, .error (eF fn pos fmtQuoted), 0⟩
  else
    match ModVerif.Modfile.modulePathMajor (psOut a0).1.1 with
    | none => ⟨(psOut a0).2 :: ar :: nsTok :: nvTok.toList, .error (eM fn pos verb (psOut a0).1.1 (some "invalid module path")), 0⟩
    | some _ => prTail fn pos line verb fx [(psOut a0).2, ar] (psOut a0).1.1 [] 0 nsTok nvTok

/-- `arrow = 2`: `a0 a1 => nsTok [nvTok]` -/
def prHead2 (fn : Bytes) (pos : Rule.Position) (line : Int) (verb : Bytes) (fx : Option ModVerif.Modfile.Fixer)
    (a0 a1 ar nsTok : Bytes) (nvTok : Option Bytes) : PrOut :=
  if ¬ ((psOut a0).1.2).isNone then ⟨(psOut a0).2 :: a1 :: ar :: nsTok :: nvTok.toList, .error (eF fn pos fmtQuoted), 0⟩
  else
    match ModVerif.Modfile.modulePathMajor (psOut a0).1.1 with
    | none => ⟨(psOut a0).2 :: a1 :: ar :: nsTok :: nvTok.toList, .error (eM fn pos verb (psOut a0).1.1 (some "invalid module path")), 0⟩
    | some pathMajor =>
      if ¬ ((pvOut (psOut a0).1.1 a1 fx).1.2).isNone then
        ⟨(psOut a0).2 :: (pvOut (psOut a0).1.1 a1 fx).2 :: ar :: nsTok :: nvTok.toList, .error (eW fn pos (pvOut (psOut a0).1.1 a1 fx).1.2), 0⟩
      else if ¬ Module.checkPathMajor (pvOut (psOut a0).1.1 a1 fx).1.1 pathMajor = true then
        ⟨(psOut a0).2 :: (pvOut (psOut a0).1.1 a1 fx).2 :: ar :: nsTok :: nvTok.toList,
          .error (eM fn pos verb (psOut a0).1.1 TieFnModule.majorErr), (pvOut (psOut a0).1.1 a1 fx).1.1.length⟩
      else prTail fn pos line verb fx [(psOut a0).2, (pvOut (psOut a0).1.1 a1 fx).2, ar] (psOut a0).1.1 (pvOut (psOut a0).1.1 a1 fx).1.1
        (pvOut (psOut a0).1.1 a1 fx).1.1.length nsTok nvTok

def arrowB : Bytes := [61, 62]

/-- parseReplace on a token list (rule.go order) -/
def prOut (fn : Bytes) (pos : Rule.Position) (line : Int) (verb : Bytes) (args : List Bytes) (fx : Option ModVerif.Modfile.Fixer) : PrOut :=
  match args with
  | [a0, x, y] => if x = arrowB then prHead1 fn pos line verb fx a0 x y none else ⟨args, .error (eF fn pos fmtUsage), 0⟩
  | [a0, x, y, z] =>
    if x = arrowB then prHead1 fn pos line verb fx a0 x y (some z)
    else if y = arrowB then prHead2 fn pos line verb fx a0 x y z none else ⟨args, .error (eF fn pos fmtUsage), 0⟩
  | [a0, x, y, z, w] =>
    if x = arrowB then ⟨args, .error (eF fn pos fmtUsage), 0⟩
    else if y = arrowB then prHead2 fn pos line verb fx a0 x y z (some w) else ⟨args, .error (eF fn pos fmtUsage), 0⟩
  | _ => ⟨args, .error (eF fn pos fmtUsage), 0⟩

/-- pointers and heap after parseReplace -/
def prFinal (h : Rule.Heap) (o : PrOut) (owner : Int) (pre : List Bytes) : (Int × Int) × Rule.Heap :=
  match o.res with
  | .ok R => ((((h.replaces.length + 1 : Nat) : Int), 0), { setToksH h owner (pre ++ o.toks) with replaces := h.replaces ++ [R] })
  | .error E => ((0, ((h.errors.length + 1 : Nat) : Int)), { setToksH h owner (pre ++ o.toks) with errors := h.errors ++ [E] })


/-! ### the closures on an anchored heap -/

section closures
variable {h0 : Rule.Heap} {r : Rule.TokRef} {L : Rule.Line}

theorem wrapError_A (hg : heapGet h0.lines r.owner = .ok L) (fuel : Nat) (fn : Bytes) (err : Option String) (ts : List Bytes) :
    Rule.parseReplace_wrapError isPrintI Quote.quote unquoteI fuel fn r.owner err (setToksH h0 r.owner ts) =
      .ok ((((h0.errors.length + 1 : Nat) : Int)), { setToksH h0 r.owner ts with errors := h0.errors ++ [eW fn L.Start err] }) := by
  simp [Rule.parseReplace_wrapError, A.line hg, bind, Except.bind, pure, Except.pure, heapAlloc, eW]

theorem errorf_A (hg : heapGet h0.lines r.owner = .ok L) (fuel : Nat) (fn : Bytes) (fmt : Bytes) (as : List Unit) (ts : List Bytes) :
    Rule.parseReplace_errorf isPrintI Quote.quote unquoteI fuel fn r.owner fmt as (setToksH h0 r.owner ts) =
      .ok ((((h0.errors.length + 1 : Nat) : Int)), { setToksH h0 r.owner ts with errors := h0.errors ++ [eF fn L.Start fmt] }) := by
  simp [Rule.parseReplace_errorf, wrapError_A hg, bind, Except.bind, pure, Except.pure, eF]

theorem wrapModPathError_A (hg : heapGet h0.lines r.owner = .ok L) (fuel : Nat) (fn verb modPath : Bytes) (err : Option String)
    (ts : List Bytes) :
    Rule.parseReplace_wrapModPathError isPrintI Quote.quote unquoteI fuel fn r.owner verb modPath err (setToksH h0 r.owner ts) =
      .ok ((((h0.errors.length + 1 : Nat) : Int)),
        { setToksH h0 r.owner ts with errors := h0.errors ++ [eM fn L.Start verb modPath err] }) := by
  simp [Rule.parseReplace_wrapModPathError, A.line hg, bind, Except.bind, pure, Except.pure, heapAlloc, eM]

end closures

theorem psOut_len (a : Bytes) : (psOut a).1.1.length ≤ 4 * a.length := by
  unfold psOut
  cases hps : ModVerif.Modfile.parseString a with
  | none => simp
  | some p => obtain ⟨t, tok⟩ := p; simpa using parseString_length hps

theorem IsDirectoryPath_spec (ns : Bytes) : Rule.IsDirectoryPath ns = .ok (ModVerif.Modfile.isDirectoryPath ns) := by
  rw [IsDirectoryPath_eq]; exact Tie.FnModfile.IsDirectoryPath_tie ns

theorem mpm_spec (a : Bytes) (fuel : Nat) (hf : 4 * a.length + 1 ≤ fuel) :
    Rule.modulePathMajor fuel (psOut a).1.1 = .ok (match ModVerif.Modfile.modulePathMajor (psOut a).1.1 with
      | some major => (major, none)
      | none => ([], some "invalid module path")) :=
  modulePathMajor_spec _ fuel (by have := psOut_len a; omega)

/-- the simp set of the symbolic execution -/
local macro "pr_simp" "[" ts:Lean.Parser.Tactic.simpLemma,* "]" : tactic =>
  `(tactic| simp only [bind, Except.bind, pure, Except.pure, decide_false, decide_true, Bool.false_eq_true, if_false, if_true,
      Bool.not_true, Bool.not_false, not_true_eq_false, not_false_eq_true, Bool.not_eq_true, Bool.true_and, Bool.and_true,
      Int.reduceAdd, Int.reduceLT, Int.reduceGT, Int.reduceGE, Int.reduceLE, Int.reduceEq, Option.isNone_none, Option.isNone_some, Option.toList_none, Option.toList_some,
      List.append_assoc, List.cons_append, List.nil_append, heapAlloc, ModVerif.Tie.FnRuleRep.setToksH_replaces,
      ModVerif.Tie.FnRuleRep.setToksH_errors, $ts,*])

theorem prTail_vlen (fn : Bytes) (pos : Rule.Position) (line : Int) (verb : Bytes) (fx : Option ModVerif.Modfile.Fixer) (pre' : List Bytes)
    (s v : Bytes) (vlen : Nat) (nsTok : Bytes) (nvTok : Option Bytes) : (prTail fn pos line verb fx pre' s v vlen nsTok nvTok).vlen = vlen := by
  unfold prTail
  cases nvTok <;> simp only [] <;> repeat' split
  all_goals rfl

theorem prHead2_vlen {fn : Bytes} {pos : Rule.Position} {line : Int} {verb : Bytes} {fx : Option ModVerif.Modfile.Fixer}
    {a0 a1 ar nsTok : Bytes} {nvTok : Option Bytes} {pm : Bytes} (p0 : ((psOut a0).1.2).isNone = true)
    (hm : ModVerif.Modfile.modulePathMajor (psOut a0).1.1 = some pm) (p1 : ((pvOut (psOut a0).1.1 a1 fx).1.2).isNone = true) :
    (prHead2 fn pos line verb fx a0 a1 ar nsTok nvTok).vlen = (pvOut (psOut a0).1.1 a1 fx).1.1.length := by
  unfold prHead2
  simp only [p0, hm, p1, not_true_eq_false, if_false]
  split
  · rfl
  · exact prTail_vlen ..

theorem arrowB_eq : arrowB = ([61, 62] : Bytes) := rfl

/-- `a0 a1 => ns nv` -/
theorem shape5 {h : Rule.Heap} {r : Rule.TokRef} {pre : List Bytes} {a0 a1 ar ns nv : Bytes}
    (v : TokView h r pre [a0, a1, ar, ns, nv]) {L : Rule.Line} (hg : heapGet h.lines r.owner = .ok L) (fn verb : Bytes)
    (fx : Option ModVerif.Modfile.Fixer) (fuel : Nat) (hf : 8 * tokSum [a0, a1, ar, ns, nv] + 1 ≤ fuel)
    (hv : 2 * (prOut fn L.Start r.owner verb [a0, a1, ar, ns, nv] fx).vlen ≤ fuel) :
    Rule.parseReplace isPrintI Quote.quote unquoteI fuel fn r.owner verb r (fixG fx) (setToksH h r.owner (pre ++ [a0, a1, ar, ns, nv])) =
      .ok (prFinal h (prOut fn L.Start r.owner verb [a0, a1, ar, ns, nv] fx) r.owner pre) := by
  simp only [tokSum_cons, tokSum_nil] at hf
  have hl : ∀ x y z w u : Bytes, (([x, y, z, w, u] : List Bytes).length : Int) = 5 := fun _ _ _ _ _ => rfl
  by_cases hx : a1 = arrowB
  · have e1 : decide (a1 = ([61, 62] : Bytes)) = true := by simp [hx, arrowB]
    unfold Rule.parseReplace
    simp only []
    pr_simp [A.len v, hl, A.get1 v, e1, prOut, prFinal, errorf_A hg, hx]
    rfl
  have e1 : decide (a1 = ([61, 62] : Bytes)) = false := by simpa [arrowB] using hx
  by_cases hy : ar = arrowB
  rotate_left
  · have e2 : decide (ar = ([61, 62] : Bytes)) = false := by simpa [arrowB] using hy
    unfold Rule.parseReplace
    simp only []
    pr_simp [A.len v, hl, A.get1 v, A.get2 v, e1, e2, prOut, prFinal, errorf_A hg, hx, hy]
    rfl
  subst hy
  have e2 : decide (arrowB = ([61, 62] : Bytes)) = true := by decide
  have hy : arrowB = arrowB := rfl
  have S0 := fun w => parseString_spec a0 fuel (by omega) w
  have M0 := mpm_spec a0 fuel (by omega)
  have V1 := fun p w => parseVersion_spec verb p a1 fx fuel (by omega) w
  have S3 := fun w => parseString_spec ns fuel (by omega) w
  have V4 := fun p w => parseVersion_spec verb p nv fx fuel (by omega) w
  rcases Bool.eq_false_or_eq_true ((psOut a0).1.2).isNone with p0 | p0
  rotate_left
  · unfold Rule.parseReplace
    simp only []
    pr_simp [A.len v, hl, A.get0 v, A.get1 v, A.get2 v, A.set0 v, e1, e2, prOut, prHead2, prFinal, errorf_A hg, hx, hy, S0, p0]
    rfl
  rcases hm : ModVerif.Modfile.modulePathMajor (psOut a0).1.1 with _ | pm
  · unfold Rule.parseReplace
    simp only []
    pr_simp [A.len v, hl, A.get0 v, A.get1 v, A.get2 v, A.set0 v, e1, e2, prOut, prHead2, prFinal, errorf_A hg, wrapModPathError_A hg,
      hx, hy, S0, p0, M0, hm]
  rcases Bool.eq_false_or_eq_true ((pvOut (psOut a0).1.1 a1 fx).1.2).isNone with p1 | p1
  rotate_left
  · unfold Rule.parseReplace
    simp only []
    pr_simp [A.len v, hl, A.get0 v, A.get1 v, A.get2 v, A.set0 v, A.set1 v, e1, e2, prOut, prHead2, prFinal, errorf_A hg,
      wrapModPathError_A hg, wrapError_A hg, hx, hy, S0, p0, M0, hm, V1, p1]
  have hv' : 2 * (pvOut (psOut a0).1.1 a1 fx).1.1.length ≤ fuel := by
    have : (prOut fn L.Start r.owner verb [a0, a1, arrowB, ns, nv] fx).vlen = (pvOut (psOut a0).1.1 a1 fx).1.1.length := by
      simp only [prOut, hx, hy, if_false, if_true]
      exact prHead2_vlen p0 hm p1
    rw [this] at hv; exact hv
  have C1 := Tie.FnModule.CheckPathMajor_tie (pvOut (psOut a0).1.1 a1 fx).1.1 pm fuel hv'
  rcases Bool.eq_false_or_eq_true (Module.checkPathMajor (pvOut (psOut a0).1.1 a1 fx).1.1 pm) with cm | cm
  rotate_left
  · have cm' : ¬ (Module.checkPathMajor (pvOut (psOut a0).1.1 a1 fx).1.1 pm = true) := by simp [cm]
    have hme : (TieFnModule.majorErr).isNone = false := rfl
    unfold Rule.parseReplace
    simp only []
    pr_simp [A.len v, hl, A.get0 v, A.get1 v, A.get2 v, A.set0 v, A.set1 v, e1, e2, prOut, prHead2, prFinal, errorf_A hg,
      wrapModPathError_A hg, wrapError_A hg, hx, hy, S0, p0, M0, hm, V1, p1, C1, cm, hme]
  rcases Bool.eq_false_or_eq_true ((psOut ns).1.2).isNone with p2 | p2
  rotate_left
  · unfold Rule.parseReplace
    simp only []
    pr_simp [A.len v, hl, A.get0 v, A.get1 v, A.get2 v, A.get3 v, A.set0 v, A.set1 v, A.set3 v, e1, e2, prOut, prHead2, prTail, prFinal,
      errorf_A hg, wrapModPathError_A hg, wrapError_A hg, hx, hy, S0, p0, M0, hm, V1, p1, C1, cm, S3, p2]
    rfl
  have hl' := hl
  rcases Bool.eq_false_or_eq_true ((pvOut (psOut ns).1.1 nv fx).1.2).isNone with p3 | p3
  rotate_left
  · unfold Rule.parseReplace
    simp only []
    pr_simp [A.len v, hl, hl', A.get0 v, A.get1 v, A.get2 v, A.get3 v, A.get4 v, A.set0 v, A.set1 v, A.set3 v, A.set4 v, e1, e2, prOut,
      prHead2, prTail, prFinal, errorf_A hg, wrapModPathError_A hg, wrapError_A hg, hx, hy, S0, p0, M0, hm, V1, p1, C1, cm, S3, p2, V4, p3]
  rcases Bool.eq_false_or_eq_true (ModVerif.Modfile.isDirectoryPath (psOut ns).1.1) with d | d
  rotate_left
  · unfold Rule.parseReplace
    simp only []
    pr_simp [A.len v, hl, hl', A.get0 v, A.get1 v, A.get2 v, A.get3 v, A.get4 v, A.set0 v, A.set1 v, A.set3 v, A.set4 v, e1, e2, prOut,
      prHead2, prTail, prFinal, errorf_A hg, wrapModPathError_A hg, wrapError_A hg, hx, hy, S0, p0, M0, hm, V1, p1, C1, cm, S3, p2, V4, p3,
      IsDirectoryPath_spec, d, mkReplace, mkMV]
  · unfold Rule.parseReplace
    simp only []
    pr_simp [A.len v, hl, hl', A.get0 v, A.get1 v, A.get2 v, A.get3 v, A.get4 v, A.set0 v, A.set1 v, A.set3 v, A.set4 v, e1, e2, prOut,
      prHead2, prTail, prFinal, errorf_A hg, wrapModPathError_A hg, wrapError_A hg, hx, hy, S0, p0, M0, hm, V1, p1, C1, cm, S3, p2, V4, p3,
      IsDirectoryPath_spec, d]
    rfl


/-- `a0 => ns nv` and `a0 a1 => ns` -/
theorem shape4 {h : Rule.Heap} {r : Rule.TokRef} {pre : List Bytes} {a0 a1 ar ns : Bytes}
    (v : TokView h r pre [a0, a1, ar, ns]) {L : Rule.Line} (hg : heapGet h.lines r.owner = .ok L) (fn verb : Bytes)
    (fx : Option ModVerif.Modfile.Fixer) (fuel : Nat) (hf : 8 * tokSum [a0, a1, ar, ns] + 1 ≤ fuel)
    (hv : 2 * (prOut fn L.Start r.owner verb [a0, a1, ar, ns] fx).vlen ≤ fuel) :
    Rule.parseReplace isPrintI Quote.quote unquoteI fuel fn r.owner verb r (fixG fx) (setToksH h r.owner (pre ++ [a0, a1, ar, ns])) =
      .ok (prFinal h (prOut fn L.Start r.owner verb [a0, a1, ar, ns] fx) r.owner pre) := by
  simp only [tokSum_cons, tokSum_nil] at hf
  have hl : ∀ x y z w : Bytes, (([x, y, z, w] : List Bytes).length : Int) = 4 := fun _ _ _ _ => rfl
  have S0 := fun w => parseString_spec a0 fuel (by omega) w
  have M0 := mpm_spec a0 fuel (by omega)
  by_cases hx : a1 = arrowB
  · -- arrow = 1: a0 => ar ns   (ar is the replacement path, ns its version)
    subst hx
    have e1 : decide (arrowB = ([61, 62] : Bytes)) = true := by decide
    have hx : arrowB = arrowB := rfl
    have S2 := fun w => parseString_spec ar fuel (by omega) w
    have V3 := fun p w => parseVersion_spec verb p ns fx fuel (by omega) w
    rcases Bool.eq_false_or_eq_true ((psOut a0).1.2).isNone with p0 | p0
    rotate_left
    · unfold Rule.parseReplace
      simp only []
      pr_simp [A.len v, hl, A.get0 v, A.get1 v, A.get2 v, A.get3 v, A.set0 v, A.set1 v, A.set2 v, A.set3 v, e1, prOut, prHead1, prHead2, prTail, prFinal, errorf_A hg, wrapModPathError_A hg, wrapError_A hg, IsDirectoryPath_spec, mkReplace, mkMV, hx, S0, p0]
      rfl
    rcases hm : ModVerif.Modfile.modulePathMajor (psOut a0).1.1 with _ | pm
    · unfold Rule.parseReplace
      simp only []
      pr_simp [A.len v, hl, A.get0 v, A.get1 v, A.get2 v, A.get3 v, A.set0 v, A.set1 v, A.set2 v, A.set3 v, e1, prOut, prHead1, prHead2, prTail, prFinal, errorf_A hg, wrapModPathError_A hg, wrapError_A hg, IsDirectoryPath_spec, mkReplace, mkMV, hx, S0, p0, M0, hm]
    rcases Bool.eq_false_or_eq_true ((psOut ar).1.2).isNone with p2 | p2
    rotate_left
    · unfold Rule.parseReplace
      simp only []
      pr_simp [A.len v, hl, A.get0 v, A.get1 v, A.get2 v, A.get3 v, A.set0 v, A.set1 v, A.set2 v, A.set3 v, e1, prOut, prHead1, prHead2, prTail, prFinal, errorf_A hg, wrapModPathError_A hg, wrapError_A hg, IsDirectoryPath_spec, mkReplace, mkMV, hx, S0, p0, M0, hm, S2, p2]
      rfl
    rcases Bool.eq_false_or_eq_true ((pvOut (psOut ar).1.1 ns fx).1.2).isNone with p3 | p3
    rotate_left
    · unfold Rule.parseReplace
      simp only []
      pr_simp [A.len v, hl, A.get0 v, A.get1 v, A.get2 v, A.get3 v, A.set0 v, A.set1 v, A.set2 v, A.set3 v, e1, prOut, prHead1, prHead2, prTail, prFinal, errorf_A hg, wrapModPathError_A hg, wrapError_A hg, IsDirectoryPath_spec, mkReplace, mkMV, hx, S0, p0, M0, hm, S2, p2, V3, p3]
    rcases Bool.eq_false_or_eq_true (ModVerif.Modfile.isDirectoryPath (psOut ar).1.1) with d | d
    · unfold Rule.parseReplace
      simp only []
      pr_simp [A.len v, hl, A.get0 v, A.get1 v, A.get2 v, A.get3 v, A.set0 v, A.set1 v, A.set2 v, A.set3 v, e1, prOut, prHead1, prHead2, prTail, prFinal, errorf_A hg, wrapModPathError_A hg, wrapError_A hg, IsDirectoryPath_spec, mkReplace, mkMV, hx, S0, p0, M0, hm, S2, p2, V3, p3, d]
      rfl
    · unfold Rule.parseReplace
      simp only []
      pr_simp [A.len v, hl, A.get0 v, A.get1 v, A.get2 v, A.get3 v, A.set0 v, A.set1 v, A.set2 v, A.set3 v, e1, prOut, prHead1, prHead2, prTail, prFinal, errorf_A hg, wrapModPathError_A hg, wrapError_A hg, IsDirectoryPath_spec, mkReplace, mkMV, hx, S0, p0, M0, hm, S2, p2, V3, p3, d]
  have e1 : decide (a1 = ([61, 62] : Bytes)) = false := by simpa [arrowB] using hx
  by_cases hy : ar = arrowB
  rotate_left
  · have e2 : decide (ar = ([61, 62] : Bytes)) = false := by simpa [arrowB] using hy
    unfold Rule.parseReplace
    simp only []
    pr_simp [A.len v, hl, A.get1 v, A.get2 v, e1, e2, prOut, prFinal, errorf_A hg, hx, hy]
    rfl
  subst hy
  have e2 : decide (arrowB = ([61, 62] : Bytes)) = true := by decide
  have V1 := fun p w => parseVersion_spec verb p a1 fx fuel (by omega) w
  have S3 := fun w => parseString_spec ns fuel (by omega) w
  rcases Bool.eq_false_or_eq_true ((psOut a0).1.2).isNone with p0 | p0
  rotate_left
  · unfold Rule.parseReplace
    simp only []
    pr_simp [A.len v, hl, A.get0 v, A.get1 v, A.get2 v, A.get3 v, A.set0 v, A.set1 v, A.set2 v, A.set3 v, e1, prOut, prHead1, prHead2, prTail, prFinal, errorf_A hg, wrapModPathError_A hg, wrapError_A hg, IsDirectoryPath_spec, mkReplace, mkMV, hx, e2, S0, p0]
    rfl
  rcases hm : ModVerif.Modfile.modulePathMajor (psOut a0).1.1 with _ | pm
  · unfold Rule.parseReplace
    simp only []
    pr_simp [A.len v, hl, A.get0 v, A.get1 v, A.get2 v, A.get3 v, A.set0 v, A.set1 v, A.set2 v, A.set3 v, e1, prOut, prHead1, prHead2, prTail, prFinal, errorf_A hg, wrapModPathError_A hg, wrapError_A hg, IsDirectoryPath_spec, mkReplace, mkMV, hx, e2, S0, p0, M0, hm]
  rcases Bool.eq_false_or_eq_true ((pvOut (psOut a0).1.1 a1 fx).1.2).isNone with p1 | p1
  rotate_left
  · unfold Rule.parseReplace
    simp only []
    pr_simp [A.len v, hl, A.get0 v, A.get1 v, A.get2 v, A.get3 v, A.set0 v, A.set1 v, A.set2 v, A.set3 v, e1, prOut, prHead1, prHead2, prTail, prFinal, errorf_A hg, wrapModPathError_A hg, wrapError_A hg, IsDirectoryPath_spec, mkReplace, mkMV, hx, e2, S0, p0, M0, hm, V1, p1]
  have hv' : 2 * (pvOut (psOut a0).1.1 a1 fx).1.1.length ≤ fuel := by
    have : (prOut fn L.Start r.owner verb [a0, a1, arrowB, ns] fx).vlen = (pvOut (psOut a0).1.1 a1 fx).1.1.length := by
      simp only [prOut, hx, if_false, if_true]
      exact prHead2_vlen p0 hm p1
    rw [this] at hv; exact hv
  have C1 := Tie.FnModule.CheckPathMajor_tie (pvOut (psOut a0).1.1 a1 fx).1.1 pm fuel hv'
  have hme : (TieFnModule.majorErr).isNone = false := rfl
  rcases Bool.eq_false_or_eq_true (Module.checkPathMajor (pvOut (psOut a0).1.1 a1 fx).1.1 pm) with cm | cm
  rotate_left
  · unfold Rule.parseReplace
    simp only []
    pr_simp [A.len v, hl, A.get0 v, A.get1 v, A.get2 v, A.get3 v, A.set0 v, A.set1 v, A.set2 v, A.set3 v, e1, prOut, prHead1, prHead2, prTail, prFinal, errorf_A hg, wrapModPathError_A hg, wrapError_A hg, IsDirectoryPath_spec, mkReplace, mkMV, hx, e2, S0, p0, M0, hm, V1, p1, C1, cm, hme]
  rcases Bool.eq_false_or_eq_true ((psOut ns).1.2).isNone with p2 | p2
  rotate_left
  · unfold Rule.parseReplace
    simp only []
    pr_simp [A.len v, hl, A.get0 v, A.get1 v, A.get2 v, A.get3 v, A.set0 v, A.set1 v, A.set2 v, A.set3 v, e1, prOut, prHead1, prHead2, prTail, prFinal, errorf_A hg, wrapModPathError_A hg, wrapError_A hg, IsDirectoryPath_spec, mkReplace, mkMV, hx, e2, S0, p0, M0, hm, V1, p1, C1, cm, hme, S3, p2]
    rfl
  rcases Bool.eq_false_or_eq_true (ModVerif.Modfile.isDirectoryPath (psOut ns).1.1) with d | d
  rotate_left
  · rcases Bool.eq_false_or_eq_true (GoRt.contains (psOut ns).1.1 [64]) with c | c
    · unfold Rule.parseReplace
      simp only []
      pr_simp [A.len v, hl, A.get0 v, A.get1 v, A.get2 v, A.get3 v, A.set0 v, A.set1 v, A.set2 v, A.set3 v, e1, prOut, prHead1, prHead2, prTail, prFinal, errorf_A hg, wrapModPathError_A hg, wrapError_A hg, IsDirectoryPath_spec, mkReplace, mkMV, hx, e2, S0, p0, M0, hm, V1, p1, C1, cm, hme, S3, p2, d, c]
      rfl
    · unfold Rule.parseReplace
      simp only []
      pr_simp [A.len v, hl, A.get0 v, A.get1 v, A.get2 v, A.get3 v, A.set0 v, A.set1 v, A.set2 v, A.set3 v, e1, prOut, prHead1, prHead2, prTail, prFinal, errorf_A hg, wrapModPathError_A hg, wrapError_A hg, IsDirectoryPath_spec, mkReplace, mkMV, hx, e2, S0, p0, M0, hm, V1, p1, C1, cm, hme, S3, p2, d, c]
      rfl
  rcases Bool.eq_false_or_eq_true (GoRt.contains (psOut ns).1.1 [92]) with c | c
  · unfold Rule.parseReplace
    simp only []
    pr_simp [A.len v, hl, A.get0 v, A.get1 v, A.get2 v, A.get3 v, A.set0 v, A.set1 v, A.set2 v, A.set3 v, e1, prOut, prHead1, prHead2, prTail, prFinal, errorf_A hg, wrapModPathError_A hg, wrapError_A hg, IsDirectoryPath_spec, mkReplace, mkMV, hx, e2, S0, p0, M0, hm, V1, p1, C1, cm, hme, S3, p2, d, c]
    rfl
  · unfold Rule.parseReplace
    simp only []
    pr_simp [A.len v, hl, A.get0 v, A.get1 v, A.get2 v, A.get3 v, A.set0 v, A.set1 v, A.set2 v, A.set3 v, e1, prOut, prHead1, prHead2, prTail, prFinal, errorf_A hg, wrapModPathError_A hg, wrapError_A hg, IsDirectoryPath_spec, mkReplace, mkMV, hx, e2, S0, p0, M0, hm, V1, p1, C1, cm, hme, S3, p2, d, c]

/-- `a0 => ns` -/
theorem shape3 {h : Rule.Heap} {r : Rule.TokRef} {pre : List Bytes} {a0 a1 ns : Bytes}
    (v : TokView h r pre [a0, a1, ns]) {L : Rule.Line} (hg : heapGet h.lines r.owner = .ok L) (fn verb : Bytes)
    (fx : Option ModVerif.Modfile.Fixer) (fuel : Nat) (hf : 8 * tokSum [a0, a1, ns] + 1 ≤ fuel) :
    Rule.parseReplace isPrintI Quote.quote unquoteI fuel fn r.owner verb r (fixG fx) (setToksH h r.owner (pre ++ [a0, a1, ns])) =
      .ok (prFinal h (prOut fn L.Start r.owner verb [a0, a1, ns] fx) r.owner pre) := by
  simp only [tokSum_cons, tokSum_nil] at hf
  have hl : ∀ x y z : Bytes, (([x, y, z] : List Bytes).length : Int) = 3 := fun _ _ _ => rfl
  have S0 := fun w => parseString_spec a0 fuel (by omega) w
  have M0 := mpm_spec a0 fuel (by omega)
  have S2 := fun w => parseString_spec ns fuel (by omega) w
  by_cases hx : a1 = arrowB
  rotate_left
  · have e1 : decide (a1 = ([61, 62] : Bytes)) = false := by simpa [arrowB] using hx
    unfold Rule.parseReplace
    simp only []
    pr_simp [A.len v, hl, A.get1 v, e1, prOut, prFinal, errorf_A hg, hx]
    rfl
  subst hx
  have e1 : decide (arrowB = ([61, 62] : Bytes)) = true := by decide
  have hx : arrowB = arrowB := rfl
  rcases Bool.eq_false_or_eq_true ((psOut a0).1.2).isNone with p0 | p0
  rotate_left
  · unfold Rule.parseReplace
    simp only []
    pr_simp [A.len v, hl, A.get0 v, A.get1 v, A.get2 v, A.get3 v, A.set0 v, A.set1 v, A.set2 v, A.set3 v, e1, prOut, prHead1, prHead2, prTail, prFinal, errorf_A hg, wrapModPathError_A hg, wrapError_A hg, IsDirectoryPath_spec, mkReplace, mkMV, hx, S0, p0]
    rfl
  rcases hm : ModVerif.Modfile.modulePathMajor (psOut a0).1.1 with _ | pm
  · unfold Rule.parseReplace
    simp only []
    pr_simp [A.len v, hl, A.get0 v, A.get1 v, A.get2 v, A.get3 v, A.set0 v, A.set1 v, A.set2 v, A.set3 v, e1, prOut, prHead1, prHead2, prTail, prFinal, errorf_A hg, wrapModPathError_A hg, wrapError_A hg, IsDirectoryPath_spec, mkReplace, mkMV, hx, S0, p0, M0, hm]
  rcases Bool.eq_false_or_eq_true ((psOut ns).1.2).isNone with p2 | p2
  rotate_left
  · unfold Rule.parseReplace
    simp only []
    pr_simp [A.len v, hl, A.get0 v, A.get1 v, A.get2 v, A.get3 v, A.set0 v, A.set1 v, A.set2 v, A.set3 v, e1, prOut, prHead1, prHead2, prTail, prFinal, errorf_A hg, wrapModPathError_A hg, wrapError_A hg, IsDirectoryPath_spec, mkReplace, mkMV, hx, S0, p0, M0, hm, S2, p2]
    rfl
  rcases Bool.eq_false_or_eq_true (ModVerif.Modfile.isDirectoryPath (psOut ns).1.1) with d | d
  rotate_left
  · rcases Bool.eq_false_or_eq_true (GoRt.contains (psOut ns).1.1 [64]) with c | c
    · unfold Rule.parseReplace
      simp only []
      pr_simp [A.len v, hl, A.get0 v, A.get1 v, A.get2 v, A.get3 v, A.set0 v, A.set1 v, A.set2 v, A.set3 v, e1, prOut, prHead1, prHead2, prTail, prFinal, errorf_A hg, wrapModPathError_A hg, wrapError_A hg, IsDirectoryPath_spec, mkReplace, mkMV, hx, S0, p0, M0, hm, S2, p2, d, c]
      rfl
    · unfold Rule.parseReplace
      simp only []
      pr_simp [A.len v, hl, A.get0 v, A.get1 v, A.get2 v, A.get3 v, A.set0 v, A.set1 v, A.set2 v, A.set3 v, e1, prOut, prHead1, prHead2, prTail, prFinal, errorf_A hg, wrapModPathError_A hg, wrapError_A hg, IsDirectoryPath_spec, mkReplace, mkMV, hx, S0, p0, M0, hm, S2, p2, d, c]
      rfl
  rcases Bool.eq_false_or_eq_true (GoRt.contains (psOut ns).1.1 [92]) with c | c
  · unfold Rule.parseReplace
    simp only []
    pr_simp [A.len v, hl, A.get0 v, A.get1 v, A.get2 v, A.get3 v, A.set0 v, A.set1 v, A.set2 v, A.set3 v, e1, prOut, prHead1, prHead2, prTail, prFinal, errorf_A hg, wrapModPathError_A hg, wrapError_A hg, IsDirectoryPath_spec, mkReplace, mkMV, hx, S0, p0, M0, hm, S2, p2, d, c]
    rfl
  · unfold Rule.parseReplace
    simp only []
    pr_simp [A.len v, hl, A.get0 v, A.get1 v, A.get2 v, A.get3 v, A.set0 v, A.set1 v, A.set2 v, A.set3 v, e1, prOut, prHead1, prHead2, prTail, prFinal, errorf_A hg, wrapModPathError_A hg, wrapError_A hg, IsDirectoryPath_spec, mkReplace, mkMV, hx, S0, p0, M0, hm, S2, p2, d, c]


/-- fewer than three or more than five arguments: the usage error -/
theorem shapeUsage {h : Rule.Heap} {r : Rule.TokRef} {pre args : List Bytes}
    (v : TokView h r pre args) {L : Rule.Line} (hg : heapGet h.lines r.owner = .ok L) (fn verb : Bytes)
    (fx : Option ModVerif.Modfile.Fixer) (fuel : Nat) (hlen : args.length ≤ 2 ∨ 6 ≤ args.length) :
    Rule.parseReplace isPrintI Quote.quote unquoteI fuel fn r.owner verb r (fixG fx) (setToksH h r.owner (pre ++ args)) =
      .ok (prFinal h (prOut fn L.Start r.owner verb args fx) r.owner pre) := by
  rcases args with _ | ⟨a, _ | ⟨b, _ | ⟨c, _ | ⟨d, _ | ⟨e, _ | ⟨f, rest⟩⟩⟩⟩⟩⟩
  · have hl : ((([] : List Bytes).length : Nat) : Int) = 0 := rfl
    unfold Rule.parseReplace
    simp only []
    pr_simp [A.len v, hl, prOut, prFinal, errorf_A hg]
    rfl
  · have hl : ((([a] : List Bytes).length : Nat) : Int) = 1 := rfl
    unfold Rule.parseReplace
    simp only []
    pr_simp [A.len v, hl, prOut, prFinal, errorf_A hg]
    rfl
  · have hl : ((([a, b] : List Bytes).length : Nat) : Int) = 2 := rfl
    by_cases hx : b = arrowB
    · have e1 : decide (b = ([61, 62] : Bytes)) = true := by simp [hx, arrowB]
      unfold Rule.parseReplace
      simp only []
      pr_simp [A.len v, hl, A.get1 v, e1, prOut, prFinal, errorf_A hg]
      rfl
    · have e1 : decide (b = ([61, 62] : Bytes)) = false := by simpa [arrowB] using hx
      unfold Rule.parseReplace
      simp only []
      pr_simp [A.len v, hl, A.get1 v, e1, prOut, prFinal, errorf_A hg]
      rfl
  · simp at hlen
  · simp at hlen
  · simp at hlen
  · have g1 : decide ((((a :: b :: c :: d :: e :: f :: rest).length : Nat) : Int) ≥ 2) = true := by simp; omega
    have g2 : decide ((((a :: b :: c :: d :: e :: f :: rest).length : Nat) : Int) < 3) = false := by simp; omega
    have g3 : decide ((((a :: b :: c :: d :: e :: f :: rest).length : Nat) : Int) > 4) = true := by simp; omega
    have g4 : decide ((((a :: b :: c :: d :: e :: f :: rest).length : Nat) : Int) < 4) = false := by simp; omega
    have g5 : decide ((((a :: b :: c :: d :: e :: f :: rest).length : Nat) : Int) > 5) = true := by simp; omega
    by_cases hx : b = arrowB
    · have e1 : decide (b = ([61, 62] : Bytes)) = true := by simp [hx, arrowB]
      unfold Rule.parseReplace
      simp only []
      pr_simp [A.len v, g1, g2, g3, A.get1 v, e1, prOut, prFinal, errorf_A hg]
      rfl
    · have e1 : decide (b = ([61, 62] : Bytes)) = false := by simpa [arrowB] using hx
      unfold Rule.parseReplace
      simp only []
      pr_simp [A.len v, g1, g4, g5, A.get1 v, e1, prOut, prFinal, errorf_A hg]
      rfl

/-- **parseReplace on a view of its own line** -/
theorem parseReplace_spec {h : Rule.Heap} {r : Rule.TokRef} {pre args : List Bytes}
    (v : TokView h r pre args) {L : Rule.Line} (hg : heapGet h.lines r.owner = .ok L) (fn verb : Bytes)
    (fx : Option ModVerif.Modfile.Fixer) (fuel : Nat) (hf : 8 * tokSum args + 1 ≤ fuel)
    (hv : 2 * (prOut fn L.Start r.owner verb args fx).vlen ≤ fuel) :
    Rule.parseReplace isPrintI Quote.quote unquoteI fuel fn r.owner verb r (fixG fx) h =
      .ok (prFinal h (prOut fn L.Start r.owner verb args fx) r.owner pre) := by
  have key : Rule.parseReplace isPrintI Quote.quote unquoteI fuel fn r.owner verb r (fixG fx) (setToksH h r.owner (pre ++ args)) =
      .ok (prFinal h (prOut fn L.Start r.owner verb args fx) r.owner pre) := by
    rcases args with _ | ⟨a, _ | ⟨b, _ | ⟨c, _ | ⟨d, _ | ⟨e, _ | ⟨f, rest⟩⟩⟩⟩⟩⟩
    · exact shapeUsage v hg fn verb fx fuel (by simp)
    · exact shapeUsage v hg fn verb fx fuel (by simp)
    · exact shapeUsage v hg fn verb fx fuel (by simp)
    · exact shape3 v hg fn verb fx fuel hf
    · exact shape4 v hg fn verb fx fuel hf hv
    · exact shape5 v hg fn verb fx fuel hf hv
    · exact shapeUsage v hg fn verb fx fuel (by simp)
  rwa [v.setToksH_self] at key

end ModVerif.Tie.FnRuleLeafC
