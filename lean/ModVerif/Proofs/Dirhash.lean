/-
  Helper lemmas for C19 (sumdb/dirhash): insertion sort w.r.t. a strict total order is the unique sorted
  permutation; the Hash1 loop computes the documented lines; the line format parses back unambiguously.
  Core Lean only.
-/
import ModVerif.Model.Dirhash
import ModVerif.Proofs.BytesOrder
namespace ModVerif.Dirhash
open ModVerif

/-- decidable equality of results, so that concrete instances can be closed by kernel evaluation -/
instance instDecidableEqExcept {ε α : Type} [DecidableEq ε] [DecidableEq α] : DecidableEq (Except ε α)
  | .ok a, .ok b => if h : a = b then isTrue (by rw [h]) else isFalse (by intro e; cases e; exact h rfl)
  | .error a, .error b => if h : a = b then isTrue (by rw [h]) else isFalse (by intro e; cases e; exact h rfl)
  | .ok _, .error _ => isFalse (by intro e; cases e)
  | .error _, .ok _ => isFalse (by intro e; cases e)

/-! ### strict total orders and insertion sort -/

/-- a strict total order presented by a Bool-valued `lt` -/
structure StrictTotal {α : Type} (lt : α → α → Bool) : Prop where
  asymm : ∀ a b, lt a b = true → lt b a = false
  trans : ∀ a b c, lt a b = true → lt b c = true → lt a c = true
  total : ∀ a b, lt a b = false → lt b a = false → a = b

theorem bytesLt_strictTotal : StrictTotal bytesLt := ⟨bytesLt_asymm, bytesLt_trans, bytesLt_total⟩

section SortSec
variable {α : Type} {lt : α → α → Bool}

theorem StrictTotal.irrefl (h : StrictTotal lt) (a : α) : lt a a = false := by
  cases e : lt a a with
  | false => rfl
  | true => have := h.asymm a a e; rw [e] at this; exact this

/-- `≤` (the negation of `>`) is transitive -/
theorem StrictTotal.le_trans (h : StrictTotal lt) {a b c : α} (ab : lt b a = false) (bc : lt c b = false) :
    lt c a = false := by
  cases hca : lt c a with
  | false => rfl
  | true =>
    cases hab : lt a b with
    | true => have := h.trans c a b hca hab; rw [this] at bc; exact absurd bc (by decide)
    | false => have e := h.total a b hab ab; subst e; rw [hca] at bc; exact absurd bc (by decide)

theorem orderedInsert_perm (x : α) : ∀ l : List α, (orderedInsert lt x l).Perm (x :: l)
  | [] => .refl _
  | y :: ys => by
    unfold orderedInsert; split
    · exact ((orderedInsert_perm x ys).cons y).trans (List.Perm.swap x y ys)
    · exact .refl _

theorem insertionSort_perm : ∀ l : List α, (insertionSort lt l).Perm l
  | [] => .refl _
  | x :: xs => (orderedInsert_perm x _).trans ((insertionSort_perm xs).cons x)

theorem orderedInsert_sorted (h : StrictTotal lt) (x : α) : ∀ l : List α,
    l.Pairwise (fun a b => lt b a = false) → (orderedInsert lt x l).Pairwise (fun a b => lt b a = false)
  | [], _ => by simp [orderedInsert]
  | y :: ys, hs => by
    have ⟨hy, hys⟩ := List.pairwise_cons.1 hs
    unfold orderedInsert; split
    · rename_i hyx
      refine List.pairwise_cons.2 ⟨?_, orderedInsert_sorted h x ys hys⟩
      intro z hz
      have hz' : z ∈ x :: ys := (orderedInsert_perm x ys).subset hz
      rcases List.mem_cons.1 hz' with rfl | hz'
      · exact h.asymm _ _ hyx
      · exact hy z hz'
    · rename_i hyx
      have hyx : lt y x = false := by simpa using hyx
      refine List.pairwise_cons.2 ⟨?_, hs⟩
      intro z hz
      rcases List.mem_cons.1 hz with rfl | hz
      · exact hyx
      · exact h.le_trans hyx (hy z hz)

theorem insertionSort_sorted (h : StrictTotal lt) : ∀ l : List α,
    (insertionSort lt l).Pairwise (fun a b => lt b a = false)
  | [] => List.Pairwise.nil
  | x :: xs => orderedInsert_sorted h x _ (insertionSort_sorted h xs)

/-- any `≤`-sorted permutation of `l` IS the insertion sort of `l` -/
theorem insertionSort_eq_of_sorted_perm (h : StrictTotal lt) {l s : List α}
    (hs : s.Pairwise (fun a b => lt b a = false)) (p : s.Perm l) : insertionSort lt l = s :=
  List.Perm.eq_of_pairwise (le := fun a b => lt b a = false)
    (fun a b _ _ h1 h2 => h.total a b h2 h1) (insertionSort_sorted h l) hs
    ((insertionSort_perm l).trans p.symm)

/-- the sort of a list depends only on its multiset of elements -/
theorem insertionSort_eq_of_perm (h : StrictTotal lt) {l₁ l₂ : List α} (p : l₁.Perm l₂) :
    insertionSort lt l₁ = insertionSort lt l₂ :=
  (insertionSort_eq_of_sorted_perm h (insertionSort_sorted h l₁) ((insertionSort_perm l₁).trans p)).symm

theorem strictSorted_le (h : StrictTotal lt) {s : List α} (hs : s.Pairwise (fun a b => lt a b = true)) :
    s.Pairwise (fun a b => lt b a = false) :=
  hs.imp (fun {a b} hab => h.asymm a b hab)

theorem strictSorted_nodup (h : StrictTotal lt) {s : List α} (hs : s.Pairwise (fun a b => lt a b = true)) :
    s.Nodup :=
  hs.imp (fun {a b} hab e => by subst e; rw [h.irrefl] at hab; exact absurd hab (by decide))

end SortSec

theorem sortStrings_perm (l : List Bytes) : (sortStrings l).Perm l := insertionSort_perm l

theorem sortStrings_eq_of_perm {l₁ l₂ : List Bytes} (p : l₁.Perm l₂) : sortStrings l₁ = sortStrings l₂ :=
  insertionSort_eq_of_perm bytesLt_strictTotal p

/-! ### association lists with distinct keys -/

theorem lookup_of_mem_nodup {α β : Type} [BEq α] [LawfulBEq α] : ∀ (l : List (α × β)) (a : α) (b : β),
    (l.map (·.1)).Nodup → (a, b) ∈ l → l.lookup a = some b
  | [], _, _, _, h => by simp at h
  | (a', b') :: l, a, b, nd, h => by
    simp only [List.map_cons, List.nodup_cons] at nd
    rcases List.mem_cons.1 h with e | h'
    · cases e; simp [List.lookup]
    · have hne : a ≠ a' := by
        intro e
        exact nd.1 (List.mem_map.2 ⟨(a, b), h', e⟩)
      have : (a == a') = false := by simpa using hne
      simp only [List.lookup, this]
      exact lookup_of_mem_nodup l a b nd.2 h'

theorem mem_of_lookup_eq_some {α β : Type} [BEq α] [LawfulBEq α] : ∀ (l : List (α × β)) (a : α) (b : β),
    l.lookup a = some b → (a, b) ∈ l
  | [], _, _, h => by simp [List.lookup] at h
  | (a', b') :: l, a, b, h => by
    simp only [List.lookup] at h
    split at h
    · rename_i e
      have e : a = a' := by simpa using e
      cases h; subst e; exact List.mem_cons_self
    · exact List.mem_cons_of_mem _ (mem_of_lookup_eq_some l a b h)

theorem nodup_of_keys_nodup {α β : Type} {l : List (α × β)} (h : (l.map (·.1)).Nodup) : l.Nodup :=
  List.Pairwise.of_map (·.1) (fun a b hne e => hne (by rw [e])) h

/-! ### the loop of Hash1 -/

theorem hasNewline_false_iff (n : Bytes) : hasNewline n = false ↔ (10 : UInt8) ∉ n := by
  unfold hasNewline
  rw [List.any_eq_false]
  constructor
  · intro h hm; exact h 10 hm (by decide)
  · intro h x hx e
    have : x = 10 := by simpa using e
    subst this; exact h hx

/-- on newline-free names that all open, the loop writes exactly the documented lines -/
theorem summaryLoop_ok (sha : Bytes → Bytes) (openF : Bytes → Option Bytes) : ∀ s : List (Bytes × Bytes),
    (∀ p ∈ s, hasNewline p.1 = false) → (∀ p ∈ s, openF p.1 = some p.2) →
    summaryLoop sha openF (s.map (·.1)) = .ok (s.flatMap fun p => summaryLine (sha p.2) p.1)
  | [], _, _ => rfl
  | p :: s, hn, ho => by
    have ih := summaryLoop_ok sha openF s (fun q hq => hn q (List.mem_cons_of_mem _ hq))
      (fun q hq => ho q (List.mem_cons_of_mem _ hq))
    simp only [List.map_cons, summaryLoop, hn p List.mem_cons_self, ho p List.mem_cons_self, ih,
      List.flatMap_cons]
    rfl

/-- digest written for a name (`[]` when the name does not open; only used on names that do) -/
def digestOf (sha : Bytes → Bytes) (openF : Bytes → Option Bytes) (n : Bytes) : Bytes :=
  match openF n with
  | some c => sha c
  | none => []

/-- converse: a successful loop means every name is newline-free and opens, and the output is the lines -/
theorem summaryLoop_inv (sha : Bytes → Bytes) (openF : Bytes → Option Bytes) : ∀ (names : List Bytes) (s : Bytes),
    summaryLoop sha openF names = .ok s →
    (∀ n ∈ names, hasNewline n = false ∧ ∃ c, openF n = some c) ∧
    s = (names.map fun n => (digestOf sha openF n, n)).flatMap fun p => summaryLine p.1 p.2
  | [], s, h => by
    simp only [summaryLoop] at h
    cases h
    exact ⟨by simp, rfl⟩
  | n :: names, s, h => by
    simp only [summaryLoop] at h
    split at h
    · cases h
    · rename_i hnl
      have hnl : hasNewline n = false := by simpa using hnl
      split at h
      · cases h
      · rename_i c hc
        split at h
        · cases h
        · rename_i s' hs'
          have ⟨ih1, ih2⟩ := summaryLoop_inv sha openF names s' hs'
          cases h
          refine ⟨?_, ?_⟩
          · intro m hm
            rcases List.mem_cons.1 hm with rfl | hm
            · exact ⟨hnl, c, hc⟩
            · exact ih1 m hm
          · simp only [List.map_cons, List.flatMap_cons, digestOf, hc, ih2]

/-- a list with a newline name never gets through the loop -/
theorem summaryLoop_newline (sha : Bytes → Bytes) (openF : Bytes → Option Bytes) (names : List Bytes) (n : Bytes)
    (hm : n ∈ names) (hn : hasNewline n = true) (s : Bytes) : summaryLoop sha openF names ≠ .ok s := by
  intro h
  have := ((summaryLoop_inv sha openF names s h).1 n hm).1
  rw [hn] at this
  exact absurd this (by decide)

/-- ... and when every name opens, the error is the newline error -/
theorem summaryLoop_newline_err (sha : Bytes → Bytes) (openF : Bytes → Option Bytes) : ∀ (names : List Bytes) (n : Bytes),
    n ∈ names → hasNewline n = true → (∀ m ∈ names, ∃ c, openF m = some c) →
    summaryLoop sha openF names = .error .newline
  | [], _, hm, _, _ => by simp at hm
  | m :: names, n, hm, hn, ho => by
    simp only [summaryLoop]
    cases hml : hasNewline m with
    | true => simp
    | false =>
      have hm' : n ∈ names := by
        rcases List.mem_cons.1 hm with rfl | hm'
        · rw [hn] at hml; exact absurd hml (by decide)
        · exact hm'
      obtain ⟨c, hc⟩ := ho m List.mem_cons_self
      have ih := summaryLoop_newline_err sha openF names n hm' hn (fun q hq => ho q (List.mem_cons_of_mem _ hq))
      simp [hc, ih]

theorem summaryLoop_congr (sha : Bytes → Bytes) (o₁ o₂ : Bytes → Option Bytes) : ∀ names : List Bytes,
    (∀ n ∈ names, o₁ n = o₂ n) → summaryLoop sha o₁ names = summaryLoop sha o₂ names
  | [], _ => rfl
  | n :: names, h => by
    simp only [summaryLoop, h n List.mem_cons_self,
      summaryLoop_congr sha o₁ o₂ names (fun m hm => h m (List.mem_cons_of_mem _ hm))]

/-! ### the line format parses back -/

/-- splitting at the first occurrence of a separator is unambiguous -/
theorem sep_unique {α : Type} (s : α) : ∀ (a a' r r' : List α), s ∉ a → s ∉ a' →
    a ++ s :: r = a' ++ s :: r' → a = a' ∧ r = r'
  | [], [], _, _, _, _, h => by simp at h; exact ⟨rfl, h⟩
  | [], y :: a', _, _, _, h2, h => by
    simp only [List.nil_append, List.cons_append, List.cons.injEq] at h
    exact absurd (h.1 ▸ List.mem_cons_self) h2
  | x :: a, [], _, _, h1, _, h => by
    simp only [List.nil_append, List.cons_append, List.cons.injEq] at h
    exact absurd (h.1 ▸ List.mem_cons_self) h1
  | x :: a, y :: a', r, r', h1, h2, h => by
    simp only [List.cons_append, List.cons.injEq] at h
    have ⟨e1, e2⟩ := sep_unique s a a' r r' (fun m => h1 (List.mem_cons_of_mem _ m))
      (fun m => h2 (List.mem_cons_of_mem _ m)) h.2
    exact ⟨by rw [h.1, e1], e2⟩

theorem hexDigit_ne_space : ∀ n, n < 16 → hexDigit n ≠ 32 := by decide

theorem hexDigit_inj : ∀ m, m < 16 → ∀ n, n < 16 → hexDigit m = hexDigit n → m = n := by decide

theorem space_not_mem_hexEnc : ∀ d : Bytes, (32 : UInt8) ∉ hexEnc d
  | [] => by simp [hexEnc]
  | c :: d => by
    have h1 := hexDigit_ne_space (c.toNat / 16) (by have := c.toNat_lt; omega)
    have h2 := hexDigit_ne_space (c.toNat % 16) (by omega)
    simp only [hexEnc, List.mem_cons, not_or]
    exact ⟨fun e => h1 e.symm, fun e => h2 e.symm, space_not_mem_hexEnc d⟩

theorem hexEnc_injective : ∀ a b : Bytes, hexEnc a = hexEnc b → a = b
  | [], [], _ => rfl
  | [], _ :: _, h => by simp [hexEnc] at h
  | _ :: _, [], h => by simp [hexEnc] at h
  | c :: a, d :: b, h => by
    simp only [hexEnc, List.cons.injEq] at h
    have hc := c.toNat_lt
    have hd := d.toNat_lt
    have e1 := hexDigit_inj _ (by omega) _ (by omega) h.1
    have e2 := hexDigit_inj _ (by omega) _ (by omega) h.2.1
    have e : c = d := UInt8.toNat_inj.1 (by omega)
    rw [e, hexEnc_injective a b h.2.2]

theorem hexEnc_length : ∀ d : Bytes, (hexEnc d).length = 2 * d.length
  | [] => rfl
  | _ :: d => by simp [hexEnc, hexEnc_length d]; omega

/-- the summary determines the list of (digest, name) lines, provided no name contains a newline -/
theorem lines_injective : ∀ s₁ s₂ : List (Bytes × Bytes),
    (∀ p ∈ s₁, (10 : UInt8) ∉ p.2) → (∀ p ∈ s₂, (10 : UInt8) ∉ p.2) →
    (s₁.flatMap fun p => summaryLine p.1 p.2) = (s₂.flatMap fun p => summaryLine p.1 p.2) → s₁ = s₂
  | [], [], _, _, _ => rfl
  | [], q :: s₂, _, _, h => by
    have := congrArg List.length h
    simp [summaryLine] at this
  | p :: s₁, [], _, _, h => by
    have := congrArg List.length h
    simp [summaryLine] at this
  | p :: s₁, q :: s₂, h1, h2, h => by
    have line_eq : ∀ (d n r : Bytes), summaryLine d n ++ r = hexEnc d ++ 32 :: 32 :: (n ++ 10 :: r) := by
      intro d n r; simp [summaryLine]
    simp only [List.flatMap_cons] at h
    rw [line_eq, line_eq] at h
    have ⟨e1, e2⟩ := sep_unique 32 _ _ _ _ (space_not_mem_hexEnc p.1) (space_not_mem_hexEnc q.1) h
    simp only [List.cons.injEq, true_and] at e2
    have ⟨e3, e4⟩ := sep_unique 10 _ _ _ _ (h1 p List.mem_cons_self) (h2 q List.mem_cons_self) e2
    have ih := lines_injective s₁ s₂ (fun r hr => h1 r (List.mem_cons_of_mem _ hr))
      (fun r hr => h2 r (List.mem_cons_of_mem _ hr)) e4
    have : p = q := Prod.ext (hexEnc_injective _ _ e1) e3
    rw [this, ih]

end ModVerif.Dirhash
