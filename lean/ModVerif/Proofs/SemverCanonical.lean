/- accessors and the canonical form, via the decomposition of `parse` -/
import ModVerif.Proofs.SemverGrammar
namespace ModVerif.Semver
open ModVerif ModVerif.SemverSpec

theorem B_dot00 : B ".0.0" = [46, 48, 46, 48] := by decide +kernel
theorem B_dot0 : B ".0" = [46, 48] := by decide +kernel

theorem num_zero : Num [48] := ⟨by simp, by decide, by simp⟩

theorem decomp_fields {v : Bytes} {p : Parsed} (h : Decomp v p) :
    Num p.major ∧ Num p.minor ∧ Num p.patch ∧ PreOpt p.prerelease ∧ BuildOpt p.build := by
  cases h with
  | short1 maj nmaj => exact ⟨nmaj, num_zero, num_zero, Or.inl rfl, Or.inl rfl⟩
  | short2 maj min nmaj nmin => exact ⟨nmaj, nmin, num_zero, Or.inl rfl, Or.inl rfl⟩
  | full maj min pat pre bld nmaj nmin npat hpre hbld => exact ⟨nmaj, nmin, npat, hpre, hbld⟩

theorem take_append_left' {α} (l1 l2 : List α) : (l1 ++ l2).take ((l1 ++ l2).length - l2.length) = l1 := by
  have : (l1 ++ l2).length - l2.length = l1.length := by simp
  rw [this]; simp

/-- Canonical(v) = "v" major "." minor "." patch prerelease  (build metadata dropped, short forms filled with 0) -/
theorem canonical_spec {v : Bytes} {p : Parsed} (h : parse v = some p) :
    canonical v = 118 :: p.major ++ 46 :: p.minor ++ 46 :: p.patch ++ p.prerelease := by
  have hd := parse_decomp h
  unfold canonical
  rw [h]
  cases hd with
  | short1 maj nmaj => simp [B_dot00]
  | short2 maj min nmaj nmin => simp [B_dot0]
  | full maj min pat pre bld nmaj nmin npat hpre hbld =>
    simp only
    cases bld with
    | nil => simp
    | cons b bs =>
      simp only [List.isEmpty_cons, Bool.not_false, if_true]
      have := take_append_left' (118 :: maj ++ 46 :: min ++ 46 :: pat ++ pre) (b :: bs)
      simpa [List.append_assoc] using this

/-- the canonical form is itself valid, with the same number and prerelease parts and no build -/
theorem canonical_parse {v : Bytes} {p : Parsed} (h : parse v = some p) :
    parse (canonical v) = some { major := p.major, minor := p.minor, patch := p.patch, prerelease := p.prerelease } := by
  rw [canonical_spec h]
  obtain ⟨nmaj, nmin, npat, hpre, _⟩ := decomp_fields (parse_decomp h)
  have := decomp_parse (Decomp.full p.major p.minor p.patch p.prerelease [] nmaj nmin npat hpre (Or.inl rfl))
  simpa using this

theorem canonical_invalid {v : Bytes} (h : parse v = none) : canonical v = [] := by
  unfold canonical; rw [h]

theorem canonical_valid_ne_nil {v : Bytes} {p : Parsed} (h : parse v = some p) : canonical v ≠ [] := by
  rw [canonical_spec h]; simp

theorem preOpt_preOK {x : Bytes} (h : PreOpt x) : PreOK x := by
  rcases h with rfl | ⟨ids, _, _, rfl⟩
  · exact Or.inl rfl
  · exact Or.inr ⟨_, rfl⟩

/-- equal keys ⇔ equal canonical forms -/
theorem vkey_eq_iff_canonical (v w : Bytes) : vkey v = vkey w ↔ canonical v = canonical w := by
  unfold vkey
  cases hv : parse v with
  | none =>
    cases hw : parse w with
    | none => simp [canonical_invalid hv, canonical_invalid hw]
    | some q =>
      simp [canonical_invalid hv]
      exact fun e => canonical_valid_ne_nil hw e
  | some p =>
    cases hw : parse w with
    | none =>
      simp [canonical_invalid hw]
      exact canonical_valid_ne_nil hv
    | some q =>
      simp only [Option.map_some, Option.some.injEq]
      constructor
      · intro hk
        unfold pkey at hk
        simp only [Prod.mk.injEq] at hk
        obtain ⟨h1, h2, h3, h4⟩ := hk
        have hpre := preKey_inj (parse_preOK hv) (parse_preOK hw) h4
        rw [canonical_spec hv, canonical_spec hw, h1, h2, h3, hpre]
      · intro hc
        have e1 := canonical_parse hv
        have e2 := canonical_parse hw
        rw [hc] at e1
        rw [e1] at e2
        simp at e2
        unfold pkey
        rw [e2.1, e2.2.1, e2.2.2.1, e2.2.2.2]

/-! accessors -/

theorem major_spec {v : Bytes} {p : Parsed} (h : parse v = some p) : major v = 118 :: p.major := by
  have hd := parse_decomp h
  unfold major; rw [h]
  cases hd with
  | short1 maj _ =>
    simp only
    have : 1 + maj.length = (118 :: maj).length := by simp; omega
    rw [this, List.take_length]
  | short2 maj min _ _ =>
    simp only
    have : 1 + maj.length = (118 :: maj).length := by simp; omega
    rw [this, List.cons_append, ← List.cons_append, List.take_left']
    rfl
  | full maj min pat pre bld _ _ _ _ _ =>
    simp only
    have : 1 + maj.length = (118 :: maj).length := by simp; omega
    rw [this]
    have e : 118 :: maj ++ 46 :: min ++ 46 :: pat ++ pre ++ bld = (118 :: maj) ++ (46 :: min ++ 46 :: pat ++ pre ++ bld) := by
      simp [List.append_assoc]
    rw [e, List.take_left']
    rfl

theorem prerelease_spec {v : Bytes} {p : Parsed} (h : parse v = some p) : prerelease v = p.prerelease := by
  unfold prerelease; rw [h]
theorem build_spec {v : Bytes} {p : Parsed} (h : parse v = some p) : build v = p.build := by
  unfold build; rw [h]

end ModVerif.Semver

namespace ModVerif.Semver
open ModVerif ModVerif.SemverSpec

theorem majorMinor_spec {v : Bytes} {p : Parsed} (h : parse v = some p) :
    majorMinor v = 118 :: p.major ++ 46 :: p.minor := by
  have hd := parse_decomp h
  unfold majorMinor; rw [h]
  cases hd with
  | short1 maj _ =>
    simp only
    have e1 : 1 + maj.length = (118 :: maj).length := by simp; omega
    rw [if_neg]
    · rw [e1, List.take_length]; simp
    · simp only [Bool.and_eq_true, decide_eq_true_eq]
      intro hh
      have := hh.1.1
      simp at this
      omega
  | short2 maj min _ _ =>
    simp only
    have e1 : 1 + maj.length = (118 :: maj).length := by simp; omega
    have e2 : 1 + maj.length + 1 + min.length = (118 :: maj ++ 46 :: min).length := by simp; omega
    have c1 : (118 :: maj ++ 46 :: min)[1 + maj.length]? = some 46 := by
      rw [e1]; simp [List.getElem?_append_right]
    have c2 : ((118 :: maj ++ 46 :: min).take (1 + maj.length + 1 + min.length)).drop (1 + maj.length + 1) = min := by
      rw [e2, List.take_length]
      have : 1 + maj.length + 1 = (118 :: maj ++ [46]).length := by simp; omega
      rw [this]
      have : 118 :: maj ++ 46 :: min = (118 :: maj ++ [46]) ++ min := by simp
      rw [this, List.drop_left']
      rfl
    rw [if_pos]
    · rw [e2, List.take_length]
    · rw [c1, c2]; simp; omega
  | full maj min pat pre bld _ _ _ _ _ =>
    simp only
    have e1 : 1 + maj.length = (118 :: maj).length := by simp; omega
    have full_eq : 118 :: maj ++ 46 :: min ++ 46 :: pat ++ pre ++ bld
        = (118 :: maj ++ 46 :: min) ++ (46 :: pat ++ pre ++ bld) := by simp [List.append_assoc]
    have e2 : 1 + maj.length + 1 + min.length = (118 :: maj ++ 46 :: min).length := by simp; omega
    have c1 : (118 :: maj ++ 46 :: min ++ 46 :: pat ++ pre ++ bld)[1 + maj.length]? = some 46 := by
      rw [e1]
      have : 118 :: maj ++ 46 :: min ++ 46 :: pat ++ pre ++ bld = (118 :: maj) ++ (46 :: (min ++ 46 :: pat ++ pre ++ bld)) := by
        simp [List.append_assoc]
      rw [this, List.getElem?_append_right (Nat.le_refl _)]; simp
    have c2 : ((118 :: maj ++ 46 :: min ++ 46 :: pat ++ pre ++ bld).take (1 + maj.length + 1 + min.length)).drop (1 + maj.length + 1) = min := by
      rw [full_eq, e2, List.take_left']
      have : 1 + maj.length + 1 = (118 :: maj ++ [46]).length := by simp; omega
      rw [this]
      have : 118 :: maj ++ 46 :: min = (118 :: maj ++ [46]) ++ min := by simp
      rw [this, List.drop_left']
      · rfl
      · rfl
    rw [if_pos]
    · rw [full_eq, e2, List.take_left']; rfl
    · rw [c1, c2]; simp; omega

end ModVerif.Semver
