/-
  Helper lemmas for Tie/FnParseComments.lean, part H: the three passes of assignComments on a reified file.
-/
import ModVerif.Proofs.TieFnParseCommentsG
set_option linter.unusedSimpArgs false
set_option linter.unusedVariables false
namespace ModVerif.TieFnParseComments
open ModVerif ModVerif.GoRt ModVerif.Generated ModVerif.Generated.Parse ModVerif.Tie.FnParseHeap

theorem RFile_mk {h : Heap} {p : Int} {t : Modfile.FileSyntax} {es : List Expr}
    (hf : heapGet h.files p = .ok (fileG t es)) (hs : RStmts h es t.stmts) : RFile h p t := ⟨es, hf, hs⟩

/-- the file object after a store of its comments -/
theorem setComments_file {h h1 : Heap} {p : Int} {t : Modfile.FileSyntax} {es : List Expr} {c : Modfile.Comments}
    (hf : heapGet h.files p = .ok (fileG t es)) (hset : Expr_setComments (.FileSyntax p) (comsG c) h = .ok h1) :
    heapGet h1.files p = .ok (fileG { t with comments := c } es) ∧ h1.cbs = h.cbs ∧ h1.lines = h.lines ∧
      h1.blocks = h.blocks := by
  rw [setComments_FileSyntax hf] at hset
  cases hset
  exact ⟨heapGet_listSet_same _ hf, rfl, rfl, rfl⟩

/-! ### pass 1 -/

theorem phase1 {h : Heap} {p : Int} {t : Modfile.FileSyntax} {es : List Expr} {N fuel : Nat}
    (hf : heapGet h.files p = .ok (fileG t es)) (hs : RStmts h es t.stmts)
    (hnd : (stmtsNodes .pre es t.stmts).Nodup) (line0 : List Modfile.Comment) (hN : line0.length ≤ N)
    (hfuel : nodeCount t.stmts + N + 4 ≤ fuel) :
    ∃ h2, passF step1 fuel (.FileSyntax p :: stmtsNodes .pre es t.stmts) (h, line0.map comG) =
        .ok (h2, (Modfile.preStmts t.stmts (Modfile.assignBefore t.span.1 t.comments line0).2).2.map comG) ∧
      heapGet h2.files p = .ok (fileG { t with comments := (Modfile.assignBefore t.span.1 t.comments line0).1 } es) ∧
      RStmts h2 es (Modfile.preStmts t.stmts (Modfile.assignBefore t.span.1 t.comments line0).2).1 := by
  obtain ⟨f1, rfl⟩ : ∃ f1, fuel = f1 + 1 := ⟨fuel - 1, by omega⟩
  obtain ⟨f2, rfl⟩ : ∃ f2, f1 = f2 + 1 := ⟨f1 - 1, by omega⟩
  have hsp := Span_FileSyntax (RFile_mk hf hs) f2
  have hg : Expr_getComments (.FileSyntax p) h = .ok (comsG t.comments) := getComments_FileSyntax hf
  obtain ⟨h1, hset⟩ := setComments_ok_of_get hg (comsG (Modfile.assignBefore t.span.1 t.comments line0).1)
  have hstep : step1 (f2 + 1) (.FileSyntax p) (h, line0.map comG) =
      .ok (h1, (Modfile.assignBefore t.span.1 t.comments line0).2.map comG) := by
    simp only [step1, hsp, bind_ok, spanG]
    rw [loop3_eq t.span.1 _ line0 (f2 + 1) h t.comments (by omega) hg, hset]; rfl
  obtain ⟨hf1, hc1, hl1, hb1⟩ := setComments_file hf hset
  have hs1 : RStmts h1 es t.stmts := (RStmts_congr hc1 hl1 hb1).2 hs
  have hcount := stmtsNodes_length_le hs
  have hl1' : (Modfile.assignBefore t.span.1 t.comments line0).2.length ≤ N :=
    Nat.le_trans (F1_shrinks (t.span.1, t.span.2) t.comments line0) hN
  obtain ⟨h2, hp2, hr2, hf2, _⟩ := pass_stmts (step1_spec N) F1_shrinks .pre es t.stmts h1
    (Modfile.assignBefore t.span.1 t.comments line0).2 (f2 + 1) hs1 hnd hl1' (by omega)
    (fun s _ => by cases s <;> simp [StmtP])
  refine ⟨h2, ?_, by rw [hf2]; exact hf1, ?_⟩
  · rw [passF_cons, hstep, bind_ok, hp2, travStmts_F1]
  · rw [← travStmts_F1]; exact hr2

/-! ### pass 2 -/

theorem step2_file {h : Heap} {p : Int} {t : Modfile.FileSyntax} (hr : RFile h p t) (f : Nat) (s : List Comment) :
    step2 (f + 1) (.FileSyntax p) (h, s) = .ok (h, s) := by
  simp [step2, Span_FileSyntax hr f]

theorem phase2 {h : Heap} {p : Int} {t : Modfile.FileSyntax} {es : List Expr} {N fuel : Nat}
    (hf : heapGet h.files p = .ok (fileG t es)) (hs : RStmts h es t.stmts)
    (hnd : (stmtsNodes .pre es t.stmts).Nodup) (sufRev : List Modfile.Comment) (hN : sufRev.length ≤ N)
    (hfuel : nodeCount t.stmts + N + 4 ≤ fuel) :
    ∃ h4, passF step2 fuel (.FileSyntax p :: stmtsNodes .rpost es.reverse t.stmts.reverse) (h, emb2 sufRev) =
        .ok (h4, emb2 (travStmts .rpost F2 t.stmts.reverse sufRev).2) ∧
      h4.files = h.files ∧ RStmts h4 es (travStmts .rpost F2 t.stmts.reverse sufRev).1.reverse := by
  obtain ⟨f1, rfl⟩ : ∃ f1, fuel = f1 + 1 := ⟨fuel - 1, by omega⟩
  obtain ⟨f2, rfl⟩ : ∃ f2, f1 = f2 + 1 := ⟨f1 - 1, by omega⟩
  have hlen := RStmts_length hs
  have hcount := stmtsNodes_length_le hs
  have hnd' := nodup_stmtsNodes_reverse .pre es t.stmts hlen hnd
  have hcnt' : (stmtsNodes .rpost es.reverse t.stmts.reverse).length = nodeCount t.stmts := by
    rw [← stmtsNodes_post_reverse es t.stmts hlen, List.length_reverse, stmtsNodes_length, hcount]
  obtain ⟨h4, hp4, hr4, hf4, _⟩ := pass_stmts (step2_spec N) F2_shrinks .rpost es.reverse t.stmts.reverse h
    sufRev (f2 + 1) (RStmts_reverse hs) hnd' hN (by omega) (fun s _ => by cases s <;> simp [StmtP])
  refine ⟨h4, ?_, hf4, ?_⟩
  · rw [passF_cons, step2_file (RFile_mk hf hs), bind_ok, hp4]
  · have := RStmts_reverse hr4
    simpa using this

/-! ### pass 3 -/

theorem rev3C_short {c : Modfile.Comments} (h : c.suffix.length ≤ 1) : rev3C c = c := by
  obtain ⟨b, s, a⟩ := c
  simp only [rev3C]
  congr
  match s, h with
  | [], _ => rfl
  | [x], _ => rfl

theorem phase3 {h : Heap} {p : Int} {t : Modfile.FileSyntax} {es : List Expr} {N fuel : Nat}
    (hf : heapGet h.files p = .ok (fileG t es)) (hs : RStmts h es t.stmts)
    (hnd : (stmtsNodes .pre es t.stmts).Nodup) (hP : ∀ s ∈ t.stmts, StmtP (fun c => c.suffix.length ≤ N) s)
    (hfs : t.comments.suffix.length ≤ 1) (hfuel : nodeCount t.stmts + N + 4 ≤ fuel) :
    ∃ h5, passF step3 fuel (stmtsNodes .post es t.stmts ++ [.FileSyntax p]) (h, []) = .ok (h5, []) ∧
      h5.files = h.files ∧ RStmts h5 es (t.stmts.map rev3) := by
  have hcount := stmtsNodes_length_le hs
  have hcnt' : (stmtsNodes .post es t.stmts).length = nodeCount t.stmts := by rw [stmtsNodes_length, hcount]
  obtain ⟨h5, hp5, hr5, hf5, _⟩ := pass_stmts (step3_spec N) F3_shrinks .post es t.stmts h [] fuel hs hnd
    (by simp) (by omega) hP
  rw [travStmts_F3] at hr5
  refine ⟨h5, ?_, hf5, hr5⟩
  rw [passF_append _ _ _ _ _ _ hp5 (by omega)]
  obtain ⟨g, hg⟩ : ∃ g, fuel - (stmtsNodes .post es t.stmts).length = g + 1 :=
    ⟨fuel - (stmtsNodes .post es t.stmts).length - 1, by omega⟩
  rw [hg, passF_cons]
  have hgc : Expr_getComments (.FileSyntax p) h5 = .ok (comsG t.comments) := by
    apply getComments_FileSyntax (t := fileG t es); rw [hf5]; exact hf
  rw [step3_eq [] hgc (by omega), rev3C_short hfs, setComments_self hgc]
  simp only [bind_ok, pure_eq_ok, passF_nil]

end ModVerif.TieFnParseComments
