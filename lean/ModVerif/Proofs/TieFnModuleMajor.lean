/-
  Tie proofs for the regenerated module.go functions, part 4: CheckPathMajor, MatchPathMajor, PathMajorPrefix,
  CanonicalVersion.  The semver functions they call are the regenerated ones (Generated.Semver.*), replaced by the
  model's through the tie theorems of Tie/FnSemver.lean.
-/
import ModVerif.Generated.FnModule
import ModVerif.Model.Module
import ModVerif.Proofs.GoRtLemmasStr
import ModVerif.Tie.FnSemver
import ModVerif.Proofs.ModuleMajor
namespace ModVerif.TieFnModule
open ModVerif ModVerif.GoRt ModVerif.GoRtStr

/-! the string literals of the model, as byte lists -/
theorem B_unstable : B "-unstable" = [45, 117, 110, 115, 116, 97, 98, 108, 101] := by decide +kernel
theorem B_dotv : B ".v" = [46, 118] := by decide +kernel
theorem B_dotv1 : B ".v1" = [46, 118, 49] := by decide +kernel
theorem B_v000 : B "v0.0.0-" = [118, 48, 46, 48, 46, 48, 45] := by decide +kernel
theorem B_v0 : B "v0" = [118, 48] := by decide +kernel
theorem B_v1 : B "v1" = [118, 49] := by decide +kernel
theorem B_incompatible : B "+incompatible" = [43, 105, 110, 99, 111, 109, 112, 97, 116, 105, 98, 108, 101] := by
  decide +kernel

/-- the error value of CheckPathMajor: `&InvalidVersionError{Version: v, Err: fmt.Errorf("should be %s, not %s", …)}` -/
def majorErr : Option String := wrapErr "InvalidVersionError" (some "should be %s, not %s")

theorem beq_bytes (a b : Bytes) : decide (a = b) = (a == b) := by
  rw [Bool.eq_iff_iff]; simp

theorem CheckPathMajor_spec (v pathMajor : Bytes) (fuel : Nat) (hf : 2 * v.length ≤ fuel) :
    Generated.Module.CheckPathMajor fuel v pathMajor =
      .ok (if Module.checkPathMajor v pathMajor = true then none else majorErr) := by
  unfold Generated.Module.CheckPathMajor
  extract_lets _ k9 pm'
  have hk : ∀ pm : Bytes, k9 pm = .ok (if
      (if (isPrefixOfB (B "v0.0.0-") v && pm == B ".v1") = true then true
       else match pm with
        | [] => Semver.major v == B "v0" || Semver.major v == B "v1" || Semver.build v == B "+incompatible"
        | c :: rest => if (c == 47 || c == 46) = true then Semver.major v == rest else false) = true
      then none else majorErr) := by
    intro pm
    simp only [k9, hasPrefix, B_dotv1, B_v000, B_v0, B_v1, B_incompatible, beq_bytes,
      Tie.FnSemver.Major_tie v fuel hf, Tie.FnSemver.Build_tie v fuel hf, bind_ok, pure_eq_ok]
    by_cases h1 : (isPrefixOfB [118, 48, 46, 48, 46, 48, 45] v && pm == [46, 118, 49]) = true
    · simp [h1]
    simp only [h1, Bool.false_eq_true, if_false]
    cases pm with
    | nil =>
      simp only [List.nil_beq_eq, List.isEmpty_nil]
      by_cases h2 : (Semver.major v == [118, 48] || Semver.major v == [118, 49]) = true
      · simp [h2]
      · simp only [h2, Bool.false_eq_true, if_false, bind_ok]
        have h2' : (Semver.major v == [118, 48] || Semver.major v == [118, 49]) = false := by simpa using h2
        simp only [Bool.false_or]
        cases (Semver.build v == [43, 105, 110, 99, 111, 109, 112, 97, 116, 105, 98, 108, 101]) <;> simp [majorErr]
    | cons c rest =>
      simp only [idx_zero_cons, bind_ok, sliceFrom_one_cons, byte_eq_int (n := 47) (d := 47) rfl,
        byte_eq_int (n := 46) (d := 46) rfl]
      by_cases h47 : c = 47
      · subst h47
        by_cases hm : Semver.major v = rest <;> simp [hm, majorErr]
      · by_cases h46 : c = 46
        · subst h46
          by_cases hm : Semver.major v = rest <;> simp [hm, majorErr]
        · simp [h47, h46, majorErr]
  unfold Module.checkPathMajor
  simp only [hasPrefix, hasSuffix, B_unstable, B_dotv]
  have htrim : pm' = Module.trimSuffixB pathMajor [45, 117, 110, 115, 116, 97, 98, 108, 101] := rfl
  by_cases hc : (isPrefixOfB [46, 118] pathMajor && hasSuffixB pathMajor [45, 117, 110, 115, 116, 97, 98, 108, 101]) = true
  · simp only [hc, if_true, hk, htrim]; rfl
  · simp only [hc, Bool.false_eq_true, if_false, hk]; rfl


theorem MatchPathMajor_spec (v pathMajor : Bytes) (fuel : Nat) (hf : 2 * v.length ≤ fuel) :
    Generated.Module.MatchPathMajor fuel v pathMajor = .ok (Module.matchPathMajor v pathMajor) := by
  unfold Generated.Module.MatchPathMajor Module.matchPathMajor
  rw [CheckPathMajor_spec v pathMajor fuel hf, bind_ok]
  cases Module.checkPathMajor v pathMajor <;> simp [majorErr, wrapErr]

theorem hasSuffixB_iff (s suf : Bytes) : hasSuffixB s suf = true ↔ ∃ x, s = x ++ suf := by
  unfold hasSuffixB
  rw [Module.isPrefixOfB_iff]
  constructor
  · rintro ⟨t, ht⟩
    refine ⟨t.reverse, ?_⟩
    have := congrArg List.reverse ht
    simpa using this
  · rintro ⟨x, rfl⟩
    exact ⟨x.reverse, by simp⟩

theorem PathMajorPrefix_spec (pathMajor : Bytes) (fuel : Nat) (hf : 2 * pathMajor.length ≤ fuel) :
    Generated.Module.PathMajorPrefix fuel pathMajor =
      (match Module.pathMajorPrefix pathMajor with
       | some m => .ok m
       | none => .error .panic) := by
  unfold Generated.Module.PathMajorPrefix
  extract_lets k6 pm'
  have hk : ∀ pm : Bytes, pm ≠ [] → pm.length ≤ pathMajor.length →
      k6 pm = (if (pm.drop 1 != Semver.major (pm.drop 1)) = true then .error .panic else .ok (pm.drop 1)) := by
    intro pm hne hlen
    cases pm with
    | nil => exact absurd rfl hne
    | cons c m =>
      have hm : 2 * m.length ≤ fuel := by simp at hlen; omega
      simp only [k6, sliceFrom_one_cons, bind_ok, Tie.FnSemver.Major_tie m fuel hm, List.drop_succ_cons, List.drop_zero]
      have e : (m != Semver.major m) = !decide (m = Semver.major m) := by rw [beq_bytes]; rfl
      rw [e]
      cases decide (m = Semver.major m) <;> simp
  cases pathMajor with
  | nil => simp [Module.pathMajorPrefix]
  | cons c rest =>
    simp only [reduceCtorEq, decide_false, Bool.false_eq_true, if_false, idx_zero_cons, bind_ok,
      byte_eq_int (n := 47) (d := 47) rfl, byte_eq_int (n := 46) (d := 46) rfl, Module.pathMajorPrefix,
      hasPrefix, hasSuffix, B_unstable, B_dotv]
    by_cases hsep : c = 47 ∨ c = 46
    · have h1 : (c != 47 && c != 46) = false := by rcases hsep with h | h <;> simp [h]
      have h2 : (if (!decide (c = 47)) = true then (pure (!decide (c = 46)) : M Bool) else pure false)
          = .ok false := by
        rcases hsep with h | h <;> simp [h]
      simp only [h1, h2, bind_ok, Bool.false_eq_true, if_false]
      by_cases hc : (isPrefixOfB [46, 118] (c :: rest) && hasSuffixB (c :: rest) [45, 117, 110, 115, 116, 97, 98, 108, 101]) = true
      · simp only [hc, if_true]
        have hpm : pm' = Module.trimSuffixB (c :: rest) [45, 117, 110, 115, 116, 97, 98, 108, 101] := rfl
        rw [Bool.and_eq_true] at hc
        obtain ⟨x, hx⟩ := (hasSuffixB_iff _ _).mp hc.2
        have hxne : x ≠ [] := by
          intro e; subst e
          simp only [List.nil_append] at hx
          injection hx with hx1 _
          subst hx1
          have := hc.1
          simp [isPrefixOfB] at this
        have htr : Module.trimSuffixB (c :: rest) [45, 117, 110, 115, 116, 97, 98, 108, 101] = x := by
          rw [hx]; exact Module.trimSuffixB_append _ _
        rw [hpm, htr, hk x hxne (by rw [hx]; simp)]
        cases (x.drop 1 != Semver.major (x.drop 1)) <;> simp
      · simp only [hc, Bool.false_eq_true, if_false]
        rw [hk (c :: rest) (by simp) (Nat.le_refl _)]
        cases ((c :: rest).drop 1 != Semver.major ((c :: rest).drop 1)) <;> simp
    · have h47 : c ≠ 47 := fun e => hsep (Or.inl e)
      have h46 : c ≠ 46 := fun e => hsep (Or.inr e)
      simp [h47, h46]

theorem CanonicalVersion_spec (v : Bytes) (fuel : Nat) (hf : 2 * v.length ≤ fuel) :
    Generated.Module.CanonicalVersion fuel v = .ok (Semver.canonicalVersion v) := by
  unfold Generated.Module.CanonicalVersion Semver.canonicalVersion
  simp only [Tie.FnSemver.Canonical_tie v fuel hf, Tie.FnSemver.Build_tie v fuel hf, bind_ok, beq_bytes, B_incompatible]
  cases (Semver.build v == [43, 105, 110, 99, 111, 109, 112, 97, 116, 105, 98, 108, 101]) <;> simp

end ModVerif.TieFnModule
