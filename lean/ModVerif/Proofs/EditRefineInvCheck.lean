/-
  EditRefine, part 19 — an executable check of the tree invariant: `invB e = true → Inv e`, so that `Inv` can be
  discharged by kernel evaluation for any concrete (e.g. freshly parsed and loaded) file.
-/
import ModVerif.Proofs.EditRefineInvBulk
set_option linter.unusedSimpArgs false
namespace ModVerif.Modfile.Edit
open ModVerif ModVerif.Modfile

structure EntB where
  id : Nat
  accB : List Bytes → List Comment → Bool

def tokIsB (x v : Bytes) : Bool := x == v || x == autoQuote v

theorem tokIsB_sound {x v : Bytes} (h : tokIsB x v = true) : tokIs x v := by
  simp only [tokIsB, Bool.or_eq_true, beq_iff_eq] at h
  exact h

def entMB (m : Module) : EntB := ⟨m.lineId, fun t _ => t == [B "module", autoQuote m.mod.path]⟩
def entGoB (g : Go) : EntB := ⟨g.lineId, fun t _ => t == [B "go", g.version]⟩
def entTcB (t : Toolchain) : EntB := ⟨t.lineId, fun tk _ => tk == [B "toolchain", t.name]⟩
def entGB (g : Godebug) : EntB := ⟨g.lineId, fun t _ => t == [B "godebug", g.key ++ [61] ++ g.value]⟩
def entRqB (r : Require) : EntB :=
  ⟨r.lineId, fun t s => t == [B "require", autoQuote r.mod.path, r.mod.version] && isIndirectS s == r.indirect⟩
def entXB (x : Exclude) : EntB := ⟨x.lineId, fun t _ => t == [B "exclude", autoQuote x.mod.path, x.mod.version]⟩
def entRpB (r : Replace) : EntB := ⟨r.lineId, fun t _ => t == replaceToks r⟩
def entRtB (r : Retract) : EntB :=
  ⟨r.lineId, fun t _ =>
    (match t with
     | [a, x] => a == B "retract" && tokIsB x r.interval.low && r.interval.low == r.interval.high
     | _ => false) ||
    (match t with
     | [a, l, x, c, y, rb] => a == B "retract" && l == [91] && c == [44] && rb == [93] && tokIsB x r.interval.low &&
         tokIsB y r.interval.high
     | _ => false)⟩
def entTB (t : Tool) : EntB :=
  ⟨t.lineId, fun tk _ => match tk with
    | [a, x] => a == B "tool" && tokIsB x t.path
    | _ => false⟩

def entsOfB {α : Type} (live : α → Bool) (mk : α → EntB) (l : List α) : List EntB := (l.filter live).map mk

def entriesB (f : File) : List EntB :=
  f.module.toList.map entMB ++ (f.go.toList.map entGoB ++ (f.toolchain.toList.map entTcB ++
  (entsOfB liveG entGB f.godebug ++ (entsOfB liveRq entRqB f.require ++ (entsOfB liveX entXB f.exclude ++
  (entsOfB liveRp entRpB f.replace ++ (entsOfB liveRt entRtB f.retract ++ entsOfB liveT entTB f.tool)))))))

/-- an `EntB` decides (soundly) an `Ent` -/
def Decides (p : EntB) (en : Ent) : Prop := p.id = en.id ∧ ∀ t s, p.accB t s = true → en.acc t s

theorem dM (m : Module) : Decides (entMB m) (entM m) := ⟨rfl, fun t s h => by simpa [entMB, entM] using h⟩
theorem dGo (g : Go) : Decides (entGoB g) (entGo g) := ⟨rfl, fun t s h => by simpa [entGoB, entGo] using h⟩
theorem dTc (g : Toolchain) : Decides (entTcB g) (entTc g) := ⟨rfl, fun t s h => by simpa [entTcB, entTc] using h⟩
theorem dG (g : Godebug) : Decides (entGB g) (entG g) := ⟨rfl, fun t s h => by simpa [entGB, entG] using h⟩
theorem dRq (r : Require) : Decides (entRqB r) (entRq r) :=
  ⟨rfl, fun t s h => by simpa [entRqB, entRq] using h⟩
theorem dX (x : Exclude) : Decides (entXB x) (entX x) := ⟨rfl, fun t s h => by simpa [entXB, entX] using h⟩
theorem dRp (r : Replace) : Decides (entRpB r) (entRp r) := ⟨rfl, fun t s h => by simpa [entRpB, entRp] using h⟩
theorem dRt (r : Retract) : Decides (entRtB r) (entRt r) := by
  refine ⟨rfl, fun t s h => ?_⟩
  simp only [entRtB, Bool.or_eq_true] at h
  simp only [entRt]
  rcases h with h | h
  · split at h
    · rename_i a x
      simp only [Bool.and_eq_true, beq_iff_eq] at h
      exact Or.inl ⟨x, by rw [h.1.1], tokIsB_sound h.1.2, h.2⟩
    · cases h
  · split at h
    · rename_i a l x c y rb
      simp only [Bool.and_eq_true, beq_iff_eq] at h
      rcases h with ⟨⟨⟨⟨⟨h1, h2⟩, h3⟩, h4⟩, h5⟩, h6⟩
      exact Or.inr ⟨x, y, by rw [h1, h2, h3, h4], tokIsB_sound h5, tokIsB_sound h6⟩
    · cases h
theorem dT (x : Tool) : Decides (entTB x) (entT x) := by
  refine ⟨rfl, fun t s h => ?_⟩
  simp only [entTB] at h
  simp only [entT]
  split at h
  · rename_i a y
    simp only [Bool.and_eq_true, beq_iff_eq] at h
    exact ⟨y, by rw [h.1], tokIsB_sound h.2⟩
  · cases h

theorem mem_entries_iff (f : File) (en : Ent) : en ∈ entries f ↔
    (∃ x ∈ f.module.toList, entM x = en) ∨ (∃ x ∈ f.go.toList, entGo x = en) ∨ (∃ x ∈ f.toolchain.toList, entTc x = en) ∨
    (∃ x ∈ f.godebug.filter liveG, entG x = en) ∨ (∃ x ∈ f.require.filter liveRq, entRq x = en) ∨
    (∃ x ∈ f.exclude.filter liveX, entX x = en) ∨ (∃ x ∈ f.replace.filter liveRp, entRp x = en) ∨
    (∃ x ∈ f.retract.filter liveRt, entRt x = en) ∨ (∃ x ∈ f.tool.filter liveT, entT x = en) := by
  simp only [entries, entsOf, List.mem_append, List.mem_map]

theorem mem_entriesB_iff (f : File) (p : EntB) : p ∈ entriesB f ↔
    (∃ x ∈ f.module.toList, entMB x = p) ∨ (∃ x ∈ f.go.toList, entGoB x = p) ∨ (∃ x ∈ f.toolchain.toList, entTcB x = p) ∨
    (∃ x ∈ f.godebug.filter liveG, entGB x = p) ∨ (∃ x ∈ f.require.filter liveRq, entRqB x = p) ∨
    (∃ x ∈ f.exclude.filter liveX, entXB x = p) ∨ (∃ x ∈ f.replace.filter liveRp, entRpB x = p) ∨
    (∃ x ∈ f.retract.filter liveRt, entRtB x = p) ∨ (∃ x ∈ f.tool.filter liveT, entTB x = p) := by
  simp only [entriesB, entsOfB, List.mem_append, List.mem_map]

theorem entries_ids_eq (f : File) : (entries f).map (·.id) = (entriesB f).map (·.id) := by
  simp only [entries, entriesB, entsOf, entsOfB, List.map_append, List.map_map]
  rfl

theorem entries_to_B (f : File) : ∀ en ∈ entries f, ∃ p ∈ entriesB f, Decides p en := by
  intro en hen
  rw [mem_entries_iff] at hen
  rcases hen with ⟨x, hx, rfl⟩ | ⟨x, hx, rfl⟩ | ⟨x, hx, rfl⟩ | ⟨x, hx, rfl⟩ | ⟨x, hx, rfl⟩ | ⟨x, hx, rfl⟩ | ⟨x, hx, rfl⟩ |
    ⟨x, hx, rfl⟩ | ⟨x, hx, rfl⟩
  · exact ⟨entMB x, (mem_entriesB_iff f _).2 (Or.inl ⟨x, hx, rfl⟩), dM x⟩
  · exact ⟨entGoB x, (mem_entriesB_iff f _).2 (Or.inr (Or.inl ⟨x, hx, rfl⟩)), dGo x⟩
  · exact ⟨entTcB x, (mem_entriesB_iff f _).2 (Or.inr (Or.inr (Or.inl ⟨x, hx, rfl⟩))), dTc x⟩
  · exact ⟨entGB x, (mem_entriesB_iff f _).2 (Or.inr (Or.inr (Or.inr (Or.inl ⟨x, hx, rfl⟩)))), dG x⟩
  · exact ⟨entRqB x, (mem_entriesB_iff f _).2 (Or.inr (Or.inr (Or.inr (Or.inr (Or.inl ⟨x, hx, rfl⟩))))), dRq x⟩
  · exact ⟨entXB x, (mem_entriesB_iff f _).2 (Or.inr (Or.inr (Or.inr (Or.inr (Or.inr (Or.inl ⟨x, hx, rfl⟩)))))), dX x⟩
  · exact ⟨entRpB x, (mem_entriesB_iff f _).2 (Or.inr (Or.inr (Or.inr (Or.inr (Or.inr (Or.inr (Or.inl ⟨x, hx, rfl⟩))))))), dRp x⟩
  · exact ⟨entRtB x, (mem_entriesB_iff f _).2 (Or.inr (Or.inr (Or.inr (Or.inr (Or.inr (Or.inr (Or.inr (Or.inl ⟨x, hx, rfl⟩)))))))), dRt x⟩
  · exact ⟨entTB x, (mem_entriesB_iff f _).2 (Or.inr (Or.inr (Or.inr (Or.inr (Or.inr (Or.inr (Or.inr (Or.inr ⟨x, hx, rfl⟩)))))))), dT x⟩

theorem entriesB_to (f : File) : ∀ p ∈ entriesB f, ∃ en ∈ entries f, en.id = p.id := by
  intro p hp
  have : p.id ∈ (entries f).map (·.id) := by rw [entries_ids_eq]; exact List.mem_map.2 ⟨p, hp, rfl⟩
  rcases List.mem_map.1 this with ⟨en, hen, hid⟩
  exact ⟨en, hen, hid⟩

def matchB (es : List EntB) (vs : List VLine) : Bool :=
  decide ((es.map (·.id)).Nodup) && es.all (fun p => vs.any (fun v => v.id == p.id && p.accB v.toks v.suffix)) &&
    vs.all (fun v => es.any (fun p => p.id == v.id))

theorem matchB_sound (f : File) (vs : List VLine) (h : matchB (entriesB f) vs = true) : Match (entries f) vs := by
  simp only [matchB, Bool.and_eq_true, decide_eq_true_eq, List.all_eq_true, List.any_eq_true, beq_iff_eq] at h
  rcases h with ⟨⟨h1, h2⟩, h3⟩
  refine ⟨by rw [entries_ids_eq]; exact h1, ?_, ?_⟩
  · intro en hen
    rcases entries_to_B f en hen with ⟨p, hp, hid, hacc⟩
    rcases h2 p hp with ⟨v, hv, hvid, hb⟩
    exact ⟨v, hv, hvid.trans hid, hacc _ _ hb⟩
  · intro v hv
    rcases h3 v hv with ⟨p, hp, hid⟩
    rcases entriesB_to f p hp with ⟨en, hen, hid'⟩
    exact ⟨en, hen, hid'.trans hid⟩

def stmtWFB : Expr → Bool
  | .lineBlock b => b.token.length == 1 && b.lines.all (·.inBlock) && b.comments.suffix.isEmpty
  | .line l => !l.inBlock
  | _ => true

def treeWFB (stmts : List Expr) (next : Nat) : Bool :=
  decide (treeIds stmts).Nodup && (treeIds stmts).all (fun i => decide (i < next) && i != 0) && stmts.all stmtWFB

theorem treeWFB_sound (stmts : List Expr) (next : Nat) (h : treeWFB stmts next = true) : TreeWF stmts next := by
  simp only [treeWFB, Bool.and_eq_true, decide_eq_true_eq, List.all_eq_true, bne_iff_ne, ne_eq] at h
  rcases h with ⟨⟨h1, h2⟩, h3⟩
  refine ⟨h1, fun i hi => (h2 i hi).1, fun i hi => (h2 i hi).2, ?_, ?_, ?_, ?_⟩
  · intro b hb
    have := h3 _ hb
    simp only [stmtWFB, Bool.and_eq_true, beq_iff_eq] at this
    rcases hl : b.token with _ | ⟨v, _ | ⟨w, r⟩⟩
    · rw [hl] at this; simp at this
    · exact ⟨v, rfl⟩
    · rw [hl] at this; simp at this
  · intro l hl
    have := h3 _ hl
    simpa [stmtWFB] using this
  · intro b hb l hl
    have := h3 _ hb
    simp only [stmtWFB, Bool.and_eq_true, List.all_eq_true] at this
    exact this.1.2 l hl
  · intro b hb
    have := h3 _ hb
    simp only [stmtWFB, Bool.and_eq_true, List.isEmpty_iff] at this
    exact this.2

def idWFB {α : Type} (live : α → Bool) (id : α → Nat) (l : List α) : Bool :=
  l.all fun x => if live x then id x != 0 else id x == 0

theorem idWFB_sound {α : Type} (live : α → Bool) (id : α → Nat) (l : List α) (h : idWFB live id l = true) : IdWF live id l := by
  intro x hx
  have := List.all_eq_true.1 h x hx
  by_cases hl : live x = true
  · simp only [hl, if_true, bne_iff_ne, ne_eq] at this
    exact ⟨fun _ => this, fun h' => (by rw [hl] at h'; cases h')⟩
  · simp only [Bool.not_eq_true] at hl
    simp only [hl, Bool.false_eq_true, if_false, beq_iff_eq] at this
    exact ⟨fun h' => (by rw [hl] at h'; cases h'), fun _ => this⟩

def tinvB (e : EFile) : Bool :=
  idWFB liveX (·.lineId) e.f.exclude && idWFB liveRp (·.lineId) e.f.replace && idWFB liveT (·.lineId) e.f.tool &&
    decide (idsOf e.f).Nodup && (idsOf e.f).all (fun i => decide (i < e.next)) && decide (0 < e.next)

theorem tinvB_sound (e : EFile) (h : tinvB e = true) : TInv e := by
  simp only [tinvB, Bool.and_eq_true, decide_eq_true_eq, List.all_eq_true] at h
  rcases h with ⟨⟨⟨⟨⟨h1, h2⟩, h3⟩, h4⟩, h5⟩, h6⟩
  exact ⟨idWFB_sound _ _ _ h1, idWFB_sound _ _ _ h2, idWFB_sound _ _ _ h3, h4, h5, h6⟩

/-- **the tree invariant as a Boolean test** -/
def invB (e : EFile) : Bool :=
  treeWFB e.f.syn.stmts e.next && matchB (entriesB e.f) (view e.f.syn.stmts) && tinvB e

theorem invB_sound (e : EFile) (h : invB e = true) : Inv e := by
  simp only [invB, Bool.and_eq_true] at h
  exact ⟨treeWFB_sound _ _ h.1.1, matchB_sound _ _ h.1.2, tinvB_sound _ h.2⟩

end ModVerif.Modfile.Edit
