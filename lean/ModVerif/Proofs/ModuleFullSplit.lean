/-
  C06, full `checkModPath_iff`: "SplitPathVersion reports ok" is exactly the documented major-suffix rule,
  stated on the path alone (`PathSpec.MajorRuleOK`, no reference to `splitPathVersion`).
  Both directions come from two "compute" lemmas that evaluate `splitPathVersion` / `splitGopkgIn` on a
  path of the form  pre ++ "/v" ++ n  resp.  pre ++ ".v" ++ n [++ "-unstable"].
-/
import ModVerif.Model.Module
import ModVerif.Spec.PathSpec
import ModVerif.Proofs.ModuleSplit
import ModVerif.Proofs.ModuleMajor
import ModVerif.Proofs.ModuleSpec
import ModVerif.Proofs.ListLemmas

/-! ### the documented rules, stated on the path alone (specification side) -/
namespace ModVerif.PathSpec
open ModVerif

/-- a path (not under gopkg.in) ends in a malformed major-version element: "/v" followed by a non-empty run
    of digits and dots that contains a dot ("/v2.1"), starts with '0' ("/v0", "/v02") or is "1" ("/v1"). -/
def BadSlashMajor (p : Bytes) : Prop :=
  ∃ pre n, p = pre ++ 47 :: 118 :: n ∧ n ≠ [] ∧ (∀ c ∈ n, isAsciiDigit c.toNat ∨ c = 46) ∧
    (46 ∈ n ∨ n.head? = some 48 ∨ n = [49])

/-- a gopkg.in path ends in ".vN" or ".vN-unstable" (N decimal without leading zero; ".v0-unstable" is excluded) -/
def GopkgPathOK (p : Bytes) : Prop :=
  ∃ pre n, Num n ∧ (p = pre ++ 46 :: 118 :: n ∨ (p = pre ++ 46 :: 118 :: (n ++ B "-unstable") ∧ n ≠ [48]))

/-- the documented major-version rule of CheckPath: outside gopkg.in no malformed "/vN" element at the end
    (no "/v0…", "/v1", leading zero or dotted major); under gopkg.in the path must end in ".vN[-unstable]". -/
def MajorRuleOK (p : Bytes) : Prop :=
  (isPrefixOfB (B "gopkg.in/") p = true → GopkgPathOK p) ∧
  (isPrefixOfB (B "gopkg.in/") p = false → ¬ BadSlashMajor p)

/-- lower-case ASCII letters, ASCII digits, dots and dashes -/
def FirstChar (r : Nat) : Prop := (97 ≤ r ∧ r ≤ 122) ∨ isAsciiDigit r ∨ r = 45 ∨ r = 46

/-- "The leading path element (up to the first slash, if any), by convention a domain name, must contain only
    lower-case ASCII letters, ASCII digits, dots (U+002E), and dashes (U+002D); it must contain at least one
    dot and cannot start with a dash." -/
def FirstElemOK (p : Bytes) : Prop :=
  46 ∈ (splitOn 47 p).headD [] ∧ ((splitOn 47 p).headD []).head? ≠ some 45 ∧
  ∀ r ∈ Utf8.runes ((splitOn 47 p).headD []), FirstChar r

end ModVerif.PathSpec

namespace ModVerif.Module
open ModVerif

/-! ### small facts -/

theorem B_slash_v1 : B "/v1" = [47, 118, 49] := by decide +kernel
theorem B_dot_v0 : B ".v0" = [46, 118, 48] := by decide +kernel
theorem B_unstable : B "-unstable" = [45, 117, 110, 115, 116, 97, 98, 108, 101] := by decide +kernel

theorem digdot_iff (c : UInt8) :
    (isDigit c || c == 46) = true ↔ (PathSpec.isAsciiDigit c.toNat ∨ c = 46) := by
  simp [isDigit_iff, PathSpec.isAsciiDigit]

theorem isDigit_iff_spec (c : UInt8) : isDigit c = true ↔ PathSpec.isAsciiDigit c.toNat := isDigit_iff c

theorem not_digdot_v : (isDigit 118 || (118 : UInt8) == 46) = false := by decide
theorem not_digit_v : isDigit 118 = false := by decide

/-- a string whose last byte is a digit does not end in "-unstable" -/
theorem hasSuffixB_last_digit (x : Bytes) (d : UInt8) (hd : isDigit d = true) :
    hasSuffixB (x ++ [d]) (B "-unstable") = false := by
  unfold hasSuffixB
  have hB : (B "-unstable").reverse = 101 :: (B "-unstabl").reverse := by decide +kernel
  rw [hB]
  have hne : (101 : UInt8) ≠ d := by
    intro h; subst h; revert hd; decide
  simp [isPrefixOfB, hne]

/-! ### SplitPathVersion outside gopkg.in -/

/-- evaluation of SplitPathVersion on  pre ++ "/v" ++ n  (n a non-empty run of digits and dots) -/
theorem splitPathVersion_compute (p pre n : Bytes) (hg : isPrefixOfB (B "gopkg.in/") p = false)
    (hp : p = pre ++ 47 :: 118 :: n) (hne : n ≠ [])
    (hn : ∀ c ∈ n, (isDigit c || c == 46) = true) :
    splitPathVersion p =
      if (n.contains 46 || n.head? == some 48 || n == [49]) = true then (p, [], false)
      else (pre, 47 :: 118 :: n, true) := by
  unfold splitPathVersion
  simp only [hg, Bool.false_eq_true, if_false]
  have hrev : p.reverse = n.reverse ++ (118 :: 47 :: pre.reverse) := by rw [hp]; simp
  have hall : n.reverse.all (fun c => isDigit c || c == 46) = true := by
    rw [List.all_eq_true]; intro c hc; exact hn c (by simpa using hc)
  have hnh : NoHead (fun c => isDigit c || c == 46) (118 :: 47 :: pre.reverse) := by
    intro c r e; simp at e; rw [← e.1]; exact not_digdot_v
  rw [hrev, takeWhile_append_all _ _ _ hall hnh, dropWhile_append_all _ _ _ hall hnh]
  have hne' : n.reverse.isEmpty = false := by simpa using hne
  simp only [hne', Bool.false_eq_true, if_false, List.reverse_reverse]
  have h2 : (47 :: 118 :: n)[2]? = n.head? := by cases n <;> simp
  have h3 : ((47 :: 118 :: n) == B "/v1") = (n == [49]) := by
    rw [B_slash_v1]
    cases n with
    | nil => rfl
    | cons a t => simp
  have h4 : ((47 :: 118 :: n).length ≤ 2) = False := by
    cases n with
    | nil => exact absurd rfl hne
    | cons a t => simp
  have h5 : n.reverse.contains 46 = n.contains 46 := by
    rw [Bool.eq_iff_iff]; simp
  rw [h2, h3, h5]
  simp only [h4, decide_false, Bool.or_false]

/-- if SplitPathVersion (outside gopkg.in) reports !ok, the path ends in a malformed "/vN" element -/
theorem splitPathVersion_not_ok_bad (p : Bytes) (hg : isPrefixOfB (B "gopkg.in/") p = false)
    (h : (splitPathVersion p).2.2 = false) : PathSpec.BadSlashMajor p := by
  unfold splitPathVersion at h
  simp only [hg, Bool.false_eq_true, if_false] at h
  have hsplit : p.reverse.takeWhile (fun c => isDigit c || c == 46) ++ p.reverse.dropWhile (fun c => isDigit c || c == 46) = p.reverse :=
    List.takeWhile_append_dropWhile
  have hall : ∀ c ∈ p.reverse.takeWhile (fun c => isDigit c || c == 46), (isDigit c || c == 46) = true := by
    intro c hc
    exact List.all_eq_true.mp (List.all_takeWhile (l := p.reverse) (p := fun c => isDigit c || c == 46)) c hc
  generalize p.reverse.takeWhile (fun c => isDigit c || c == 46) = tl at h hsplit hall
  generalize p.reverse.dropWhile (fun c => isDigit c || c == 46) = rest at h hsplit
  split at h
  · simp at h
  · rename_i hne
    split at h
    · rename_i pre'
      split at h
      · rename_i hc
        refine ⟨pre'.reverse, tl.reverse, ?_, ?_, ?_, ?_⟩
        · have := congrArg List.reverse hsplit
          simp at this
          simp [← this]
        · intro h0; apply hne; simpa using h0
        · intro c hc'
          exact (digdot_iff c).mp (hall c (by simpa using hc'))
        · simp only [Bool.or_eq_true, decide_eq_true_eq] at hc
          rcases hc with ((hc | hc) | hc) | hc
          · left; simpa using hc
          · exfalso
            have : tl.reverse ≠ [] := by intro h0; apply hne; simpa using h0
            cases ht : tl.reverse with
            | nil => exact this ht
            | cons a t => rw [ht] at hc; simp at hc
          · right; left
            cases ht : tl.reverse with
            | nil => rw [ht] at hc; simp at hc
            | cons a t => rw [ht] at hc; simpa using hc
          · right; right
            rw [B_slash_v1] at hc
            simpa using hc
      · simp at h
    · simp at h

/-- outside gopkg.in: SplitPathVersion reports ok exactly when the path has no malformed "/vN" element at the end -/
theorem splitPathVersion_ok_iff_nongopkg (p : Bytes) (hg : isPrefixOfB (B "gopkg.in/") p = false) :
    (splitPathVersion p).2.2 = true ↔ ¬ PathSpec.BadSlashMajor p := by
  constructor
  · rintro hok ⟨pre, n, hp, hne, hn, hbad⟩
    have hc := splitPathVersion_compute p pre n hg hp hne (fun c hc => (digdot_iff c).mpr (hn c hc))
    have hcond : (n.contains 46 || n.head? == some 48 || n == [49]) = true := by
      rcases hbad with h | h | h
      · simp [h]
      · simp [h]
      · simp [h]
    rw [if_pos hcond] at hc
    rw [hc] at hok
    cases hok
  · intro hnb
    cases hs : (splitPathVersion p).2.2
    · exact absurd (splitPathVersion_not_ok_bad p hg hs) hnb
    · rfl

/-! ### splitGopkgIn -/

/-- evaluation of splitGopkgIn on  pre ++ ".v" ++ n ++ sfx  (n non-empty digits, sfx "" or "-unstable") -/
theorem splitGopkgIn_compute (p pre n sfx : Bytes) (hg : isPrefixOfB (B "gopkg.in/") p = true)
    (hp : p = pre ++ 46 :: 118 :: (n ++ sfx)) (hne : n ≠ [])
    (hn : ∀ c ∈ n, isDigit c = true) (hsfx : sfx = [] ∨ sfx = B "-unstable") :
    splitGopkgIn p =
      if (n.head? == some 48 && !(n == [48] && sfx == [])) = true then (p, [], false)
      else (pre, 46 :: 118 :: (n ++ sfx), true) := by
  unfold splitGopkgIn
  simp only [hg, Bool.not_true, Bool.false_eq_true, if_false]
  -- the part of the reversed path that is scanned for digits
  have hrev1 : (if hasSuffixB p (B "-unstable") = true then p.reverse.drop 9 else p.reverse)
      = n.reverse ++ (118 :: 46 :: pre.reverse) ∧
      (if hasSuffixB p (B "-unstable") = true then B "-unstable" else []) = sfx := by
    rcases hsfx with rfl | rfl
    · obtain ⟨d, ds, hd⟩ : ∃ d ds, n.reverse = d :: ds := by
        cases hr : n.reverse with
        | nil => exact absurd (by simpa using hr) hne
        | cons d ds => exact ⟨d, ds, rfl⟩
      have hdn : d ∈ n := by
        have : d ∈ n.reverse := by rw [hd]; simp
        simpa using this
      have hn' : n = ds.reverse ++ [d] := by
        have := congrArg List.reverse hd; simpa using this
      have hu : hasSuffixB p (B "-unstable") = false := by
        have : p = (pre ++ 46 :: 118 :: ds.reverse) ++ [d] := by rw [hp, hn']; simp
        rw [this]; exact hasSuffixB_last_digit _ d (hn d hdn)
      simp only [hu, Bool.false_eq_true, if_false]
      simp [hp]
    · have e : p = (pre ++ 46 :: 118 :: n) ++ B "-unstable" := by rw [hp]; simp
      have hu : hasSuffixB p (B "-unstable") = true := by rw [e]; exact hasSuffixB_append _ _
      have hlen : (B "-unstable").reverse.length = 9 := by decide +kernel
      have : p.reverse.drop 9 = (pre ++ 46 :: 118 :: n).reverse := by
        rw [e, List.reverse_append, ← hlen, List.drop_left]
      simp [hu, this]
  obtain ⟨hr1, hr2⟩ := hrev1
  rw [hr1, hr2]
  have hall : n.reverse.all isDigit = true := by
    rw [List.all_eq_true]; intro c hc; exact hn c (by simpa using hc)
  have hnh : NoHead isDigit (118 :: 46 :: pre.reverse) := by
    intro c r e; simp at e; rw [← e.1]; exact not_digit_v
  rw [takeWhile_append_all _ _ _ hall hnh, dropWhile_append_all _ _ _ hall hnh]
  have hne' : n.reverse.isEmpty = false := by simpa using hne
  simp only [hne', Bool.false_eq_true, if_false, List.reverse_reverse]
  have h2 : (46 :: 118 :: (n ++ sfx))[2]? = n.head? := by
    cases n with
    | nil => exact absurd rfl hne
    | cons a t => simp
  have h4 : ((46 :: 118 :: (n ++ sfx)).length ≤ 2) = False := by
    cases n with
    | nil => exact absurd rfl hne
    | cons a t => simp
  have h3 : ((46 :: 118 :: (n ++ sfx)) != B ".v0") = !(n == [48] && sfx == []) := by
    rw [B_dot_v0]
    cases n with
    | nil => exact absurd rfl hne
    | cons a t =>
      cases t with
      | nil =>
        cases sfx with
        | nil => simp [bne]
        | cons b s => simp [bne]
      | cons a' t' => simp [bne]
  rw [h2, h3]
  simp only [h4, decide_false, Bool.false_or]

theorem num_digits {n : Bytes} (h : PathSpec.Num n) : ∀ c ∈ n, isDigit c = true :=
  fun c hc => (isDigit_iff c).mpr (h.2.1 c hc)

/-- under gopkg.in: splitGopkgIn reports ok exactly when the path ends in ".vN" or ".vN-unstable" -/
theorem splitGopkgIn_ok_iff (p : Bytes) (hg : isPrefixOfB (B "gopkg.in/") p = true) :
    (splitGopkgIn p).2.2 = true ↔ PathSpec.GopkgPathOK p := by
  constructor
  · intro hok
    have hfull : splitGopkgIn p = ((splitGopkgIn p).1, (splitGopkgIn p).2.1, true) := by rw [← hok]
    obtain ⟨happ, _, n, hnum, hmaj⟩ := splitGopkgIn_ok p _ _ hfull
    refine ⟨(splitGopkgIn p).1, n, hnum, ?_⟩
    rcases hmaj with hm | hm
    · left; exact happ.symm.trans (by rw [hm])
    · right
      have hp' : p = (splitGopkgIn p).1 ++ 46 :: 118 :: (n ++ B "-unstable") := happ.symm.trans (by rw [hm])
      refine ⟨hp', ?_⟩
      intro h48
      have hc := splitGopkgIn_compute p (splitGopkgIn p).1 n (B "-unstable") hg hp' hnum.1
        (num_digits hnum) (Or.inr rfl)
      have hcond : (n.head? == some 48 && !(n == [48] && B "-unstable" == [])) = true := by
        rw [h48, B_unstable]; decide
      rw [if_pos hcond] at hc
      rw [hc] at hok
      cases hok
  · rintro ⟨pre, n, hnum, hform⟩
    rcases hform with hp | ⟨hp, hn0⟩
    · have hc := splitGopkgIn_compute p pre n [] hg (by simpa using hp) hnum.1 (num_digits hnum) (Or.inl rfl)
      have hcond : ¬ (n.head? == some 48 && !(n == [48] && ([] : Bytes) == [])) = true := by
        intro hh
        simp only [Bool.and_eq_true, beq_iff_eq, Bool.not_eq_true', Bool.and_eq_false_iff] at hh
        have := hnum.2.2 hh.1
        rcases hh.2 with h | h
        · simp [this] at h
        · simp at h
      rw [if_neg hcond] at hc
      rw [hc]
    · have hc := splitGopkgIn_compute p pre n (B "-unstable") hg hp hnum.1 (num_digits hnum) (Or.inr rfl)
      have hcond : ¬ (n.head? == some 48 && !(n == [48] && B "-unstable" == [])) = true := by
        intro hh
        simp only [Bool.and_eq_true, beq_iff_eq] at hh
        exact hn0 (hnum.2.2 hh.1)
      rw [if_neg hcond] at hc
      rw [hc]

/-- SplitPathVersion reports ok exactly when the path satisfies the documented major-version rule -/
theorem splitPathVersion_ok_iff (p : Bytes) :
    (splitPathVersion p).2.2 = true ↔ PathSpec.MajorRuleOK p := by
  unfold PathSpec.MajorRuleOK
  cases hg : isPrefixOfB (B "gopkg.in/") p
  · rw [splitPathVersion_ok_iff_nongopkg p hg]
    simp
  · have : splitPathVersion p = splitGopkgIn p := by unfold splitPathVersion; simp [hg]
    rw [this, splitGopkgIn_ok_iff p hg]
    simp

end ModVerif.Module
