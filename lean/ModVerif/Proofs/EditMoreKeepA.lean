/-
  EditMore, part 16 — for C08 `untouched_lines_survive` / C16 `comments_survive`: the live lines of a tree WITH their
  whole-line and end-of-line comments (`viewX`), the relation "every line whose id is not in S is still there, same
  tokens, at least the same comments" (`Keeps S`), and `FileSyntax.updateLine` / `markRemoved` under it.
-/
import ModVerif.Proofs.EditMoreSepJ
set_option linter.unusedSimpArgs false
namespace ModVerif.Modfile.Edit
open ModVerif ModVerif.Modfile

/-! ### lines with their comments -/

/-- a live line with its full tokens, its whole-line comments (`Before`) and its end-of-line comments (`Suffix`) -/
structure XLine where
  id : Nat
  toks : List Bytes
  before : List Comment
  suffix : List Comment

def mkX (p : List Bytes × Line) : XLine := ⟨p.2.id, p.1 ++ p.2.token, p.2.comments.before, p.2.comments.suffix⟩

def viewX (stmts : List Expr) : List XLine := ((loc stmts).filter liveLoc).map mkX

/-- `x'` is the line `x`, with the same tokens, possibly with more comments -/
def XLine.le (x x' : XLine) : Prop :=
  x'.id = x.id ∧ x'.toks = x.toks ∧ x.before.Sublist x'.before ∧ x.suffix.Sublist x'.suffix

theorem XLine.le_refl (x : XLine) : x.le x := ⟨rfl, rfl, List.Sublist.refl _, List.Sublist.refl _⟩

theorem XLine.le_trans {x y z : XLine} (h1 : x.le y) (h2 : y.le z) : x.le z :=
  ⟨h2.1.trans h1.1, h2.2.1.trans h1.2.1, h1.2.2.1.trans h2.2.2.1, h1.2.2.2.trans h2.2.2.2⟩

theorem viewX_cons (x : Expr) (xs : List Expr) : viewX (x :: xs) = viewX [x] ++ viewX xs := by
  simp [viewX, loc, List.filter_append]
theorem viewX_append (xs ys : List Expr) : viewX (xs ++ ys) = viewX xs ++ viewX ys := by
  simp [viewX, loc_append, List.filter_append]

theorem mem_viewX {stmts : List Expr} {x : XLine} : x ∈ viewX stmts ↔ ∃ p ∈ loc stmts, liveLoc p = true ∧ mkX p = x := by
  unfold viewX
  simp only [List.mem_map, List.mem_filter]
  constructor
  · rintro ⟨p, ⟨h1, h2⟩, h3⟩; exact ⟨p, h1, h2, h3⟩
  · rintro ⟨p, h1, h2, h3⟩; exact ⟨p, ⟨h1, h2⟩, h3⟩

/-- the plain view forgets the whole-line comments -/
theorem view_of_viewX {stmts : List Expr} {x : XLine} (h : x ∈ viewX stmts) : (⟨x.id, x.toks, x.suffix⟩ : VLine) ∈ view stmts := by
  rcases mem_viewX.1 h with ⟨p, hp, hl, rfl⟩
  exact mem_view.2 ⟨p, hp, hl, rfl⟩

theorem viewX_block (b : LineBlock) :
    viewX [Expr.lineBlock b] = (b.lines.filter (fun l => !l.token.isEmpty)).map
      fun l => ⟨l.id, b.token ++ l.token, l.comments.before, l.comments.suffix⟩ := by
  simp only [viewX, loc, List.flatMap_cons, List.flatMap_nil, List.append_nil, locStmt]
  rw [List.filter_map, List.map_map]
  rfl

theorem viewX_line (l : Line) :
    viewX [Expr.line l] = if l.token.isEmpty then [] else [⟨l.id, l.token, l.comments.before, l.comments.suffix⟩] := by
  cases h : l.token.isEmpty <;> simp [viewX, loc, locStmt, liveLoc, h, mkX]

/-- every live line whose id is not in `S` is still there, with the same tokens and at least the same comments -/
def Keeps (S : List Nat) (a b : List Expr) : Prop := ∀ x ∈ viewX a, x.id ∉ S → ∃ x' ∈ viewX b, x.le x'

theorem Keeps.refl (S : List Nat) (a : List Expr) : Keeps S a a := fun x hx _ => ⟨x, hx, x.le_refl⟩

theorem Keeps.of_eq {S : List Nat} {a b : List Expr} (h : viewX b = viewX a) : Keeps S a b :=
  fun x hx _ => ⟨x, by rw [h]; exact hx, x.le_refl⟩

theorem Keeps.trans {S1 S2 : List Nat} {a b c : List Expr} (h1 : Keeps S1 a b) (h2 : Keeps S2 b c) : Keeps (S1 ++ S2) a c := by
  intro x hx hs
  simp only [List.mem_append, not_or] at hs
  rcases h1 x hx hs.1 with ⟨y, hy, hxy⟩
  rcases h2 y hy (by rw [hxy.1]; exact hs.2) with ⟨z, hz, hyz⟩
  exact ⟨z, hz, XLine.le_trans hxy hyz⟩

theorem Keeps.mono {S S' : List Nat} {a b : List Expr} (h : Keeps S a b) (hs : ∀ i ∈ S, i ∈ S') : Keeps S' a b :=
  fun x hx hn => h x hx (fun hi => hn (hs _ hi))

theorem Keeps.append {S : List Nat} {a b c d : List Expr} (h1 : Keeps S a b) (h2 : Keeps S c d) : Keeps S (a ++ c) (b ++ d) := by
  intro x hx hs
  rw [viewX_append] at hx
  rcases List.mem_append.1 hx with hx | hx
  · rcases h1 x hx hs with ⟨y, hy, r⟩
    exact ⟨y, by rw [viewX_append]; exact List.mem_append_left _ hy, r⟩
  · rcases h2 x hx hs with ⟨y, hy, r⟩
    exact ⟨y, by rw [viewX_append]; exact List.mem_append_right _ hy, r⟩

theorem Keeps.cons {S : List Nat} {x y : Expr} {xs ys : List Expr} (h1 : Keeps S [x] [y]) (h2 : Keeps S xs ys) :
    Keeps S (x :: xs) (y :: ys) := by
  have := Keeps.append h1 h2
  simpa using this

/-- a statement all of whose live lines are in `S` may disappear -/
theorem Keeps.drop_head {S : List Nat} {x : Expr} {xs ys : List Expr} (h1 : ∀ v ∈ viewX [x], v.id ∈ S) (h2 : Keeps S xs ys) :
    Keeps S (x :: xs) ys := by
  intro v hv hs
  rw [viewX_cons] at hv
  rcases List.mem_append.1 hv with hv | hv
  · exact absurd (h1 v hv) hs
  · exact h2 v hv hs

/-- a new statement may appear -/
theorem Keeps.add_head {S : List Nat} {y : Expr} {xs ys : List Expr} (h2 : Keeps S xs ys) : Keeps S xs (y :: ys) := by
  intro v hv hs
  rcases h2 v hv hs with ⟨w, hw, r⟩
  exact ⟨w, by rw [viewX_cons]; exact List.mem_append_right _ hw, r⟩

/-! ### the primitives -/

theorem keeps_updateLineIn (id : Nat) (g : Line → Line) : ∀ (ls : List Line) (l : Line), l ∈ ls → l.id ≠ id →
    l ∈ updateLineIn id g ls := by
  intro ls
  induction ls with
  | nil => intro l hl; cases hl
  | cons y ys ih =>
    intro l hl hne
    unfold updateLineIn
    split
    · rename_i hy
      rcases List.mem_cons.1 hl with rfl | hl
      · exact absurd (eq_of_beq hy) hne
      · exact List.mem_cons_of_mem _ hl
    · rcases List.mem_cons.1 hl with rfl | hl
      · exact List.mem_cons_self
      · exact List.mem_cons_of_mem _ (ih l hl hne)

/-- `FileSyntax.updateLine id g` changes at most lines with that id -/
theorem keeps_updateLine (fs : FileSyntax) (id : Nat) (g : Line → Line) : Keeps [id] fs.stmts (fs.updateLine id g).stmts := by
  unfold FileSyntax.updateLine
  simp only
  generalize fs.stmts = stmts
  induction stmts with
  | nil => exact Keeps.refl _ _
  | cons x xs ih =>
    simp only [List.map_cons]
    refine Keeps.cons ?_ ih
    cases x with
    | line l =>
      simp only
      split
      · rename_i hl
        intro v hv hs
        rw [viewX_line] at hv
        split at hv
        · cases hv
        · simp only [List.mem_singleton] at hv
          subst hv
          exact absurd (List.mem_singleton.2 (eq_of_beq hl)) hs
      · exact Keeps.refl _ _
    | lineBlock b =>
      simp only
      intro v hv hs
      rw [viewX_block] at hv ⊢
      rcases List.mem_map.1 hv with ⟨l, hl, rfl⟩
      rcases List.mem_filter.1 hl with ⟨hl1, hl2⟩
      simp only [List.mem_singleton] at hs
      exact ⟨_, List.mem_map.2 ⟨l, List.mem_filter.2 ⟨keeps_updateLineIn id g b.lines l hl1 hs, hl2⟩, rfl⟩, XLine.le_refl _⟩
    | commentBlock c => exact Keeps.refl _ _
    | lparen c => exact Keeps.refl _ _
    | rparen c => exact Keeps.refl _ _

theorem keeps_markRemoved (fs : FileSyntax) (id : Nat) : Keeps [id] fs.stmts (markRemoved fs id).stmts :=
  keeps_updateLine fs id _

theorem keeps_updateTokens (fs : FileSyntax) (id : Nat) (toks : List Bytes) : Keeps [id] fs.stmts (Edit.updateLine fs id toks).stmts :=
  keeps_updateLine fs id _

theorem keeps_markAll (ids : List Nat) : ∀ fs : FileSyntax, Keeps ids fs.stmts (markAll fs ids).stmts := by
  induction ids with
  | nil => intro fs; exact Keeps.refl _ _
  | cons i is ih =>
    intro fs
    have h1 := keeps_markRemoved fs i
    have h2 := ih (markRemoved fs i)
    have := h1.trans h2
    simpa [markAll] using this

end ModVerif.Modfile.Edit
