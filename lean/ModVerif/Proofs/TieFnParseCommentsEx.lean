/-
  The concrete instance used by the non-vacuity examples of Tie/FnParseComments.lean: the go.mod text

      // h
      module m // c

      require (
      <tab>a v1 // d

      <tab>// w
      <tab>b v2
      ) // e

  (a comment block that attaches to the next statement, a block, suffix comments on a line and after `)`, a blank line
  and a whole-line comment inside the block), the heap the REGENERATED parser builds for it (`exHeap`, `exIn`), the tree
  and the recorded comments the hand model's `parseFile` returns (`exTree`, `exComments`), and the kernel-checked facts
  that the former reifies to the latter and is well-formed.
-/
import ModVerif.Proofs.TieFnParseCommentsI
import ModVerif.Proofs.GoRtLemmasLex
namespace ModVerif.TieFnParseComments.Ex
open ModVerif ModVerif.GoRt ModVerif.Generated ModVerif.Generated.Parse ModVerif.Tie.FnParseHeap
open ModVerif.TieFnParseComments ModVerif.GoRtLex
open ModVerif.Drv.LexOps.G (isPrintI isSpaceI)

def exData : Bytes :=
  [47, 47, 32, 104, 10, 109, 111, 100, 117, 108, 101, 32, 109, 32, 47, 47, 32, 99, 10, 10, 114, 101, 113, 117, 105, 114,
   101, 32, 40, 10, 9, 97, 32, 118, 49, 32, 47, 47, 32, 100, 10, 10, 9, 47, 47, 32, 119, 10, 9, 98, 32, 118, 50, 10, 41,
   32, 47, 47, 32, 101, 10]

def exIn0 : input :=
  { (default : input) with complete := exData, remaining := exData, pos := { Line := 1, LineRune := 1, Byte := 0 } }

/-- `in.readToken(); in.parseFile()` of the regenerated parser -/
def exParsed : M (input × Heap) := do
  let (_, i1) ← input_readToken isPrintI isSpaceI 300 exIn0
  let ((_, i2), h2) ← input_parseFile isPrintI isSpaceI 300 i1 (default : Heap)
  pure (i2, h2)

def exHeap : Heap := match exParsed with | .ok (_, h) => h | .error _ => default
def exIn : input := match exParsed with | .ok (i, _) => i | .error _ => default
def exTree : Modfile.FileSyntax :=
  match Modfile.parseFile exData with | .ok (ss, _) => { stmts := ss } | .error _ => {}
def exComments : List Modfile.Comment :=
  match Modfile.parseFile exData with | .ok (_, i) => i.commentsRev.reverse | .error _ => []

instance decStmtP (P : Modfile.Comments → Prop) [DecidablePred P] : (s : Modfile.Expr) → Decidable (StmtP P s)
  | .lineBlock b => by simp only [StmtP]; exact inferInstance
  | .commentBlock c => by simp only [StmtP]; exact inferInstance
  | .line l => by simp only [StmtP]; exact inferInstance
  | .lparen l => by simp only [StmtP]; exact inferInstance
  | .rparen l => by simp only [StmtP]; exact inferInstance

set_option maxRecDepth 100000 in
/-- the graph the regenerated parser builds reifies to the model's statement list and is well-formed -/
theorem exR : RFile exHeap 1 exTree ∧ WF exHeap 1 := by
  have hf : heapGet exHeap.files 1 = .ok (fileG exTree [.Line 1, .LineBlock 1]) := by decide +kernel
  have hs : RStmts exHeap [.Line 1, .LineBlock 1] exTree.stmts := by decide +kernel
  exact ⟨⟨_, hf, hs⟩, WF_of_RFile hf hs (by decide +kernel) (by decide +kernel) (by decide +kernel)⟩

set_option maxRecDepth 100000 in
theorem exI : exIn.file = 1 ∧ exIn.comments = exComments.map comG ∧ exIn.pre = [] ∧ exIn.post = [] := by
  decide +kernel

set_option maxRecDepth 100000 in
theorem exS : exTree.comments.suffix.length ≤ 1 ∧ (∀ s ∈ exTree.stmts, StmtP (fun c => c.suffix.length ≤ 0) s) ∧
    nodeCount exTree.stmts + exComments.length + 0 + 8 ≤ 300 := by
  decide +kernel

end ModVerif.TieFnParseComments.Ex
