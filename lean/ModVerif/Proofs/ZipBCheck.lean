/-
  C12 helper lemmas, part 2: what an accepting run of `checkZip` establishes.

  `zipStep_good`: a step that leaves the report without error was one of three accepting shapes
  (`StepOK`); `run_of_good`: an accepting fold is a chain of accepting steps (`Run`); from a `Run`:
  per-entry facts (`EntryOK`), the valid list, the running total, and the collision-checker invariant
  (`CCInv`: everything registered so far is pairwise compatible).  Core Lean only.
-/
import ModVerif.Spec.ZipSpec
namespace ModVerif.Proofs.ZipB
open ModVerif ModVerif.PathClean ModVerif.Zip ModVerif.ZipSpec

/-- the report has no error so far -/
def Good (s : ZSt) : Prop := s.cf.invalid = [] ∧ s.cf.sizeError = false

theorem good_iff_err (s : ZSt) : Good s ↔ s.cf.err = none := by
  unfold Good CheckedFiles.err
  constructor
  · rintro ⟨h1, h2⟩; simp [h1, h2]
  · intro h
    cases hs : s.cf.sizeError with
    | true => simp [hs] at h
    | false =>
      simp [hs] at h
      exact ⟨h, rfl⟩

theorem not_good_addError (s : ZSt) (n : Bytes) (r : Reason) : ¬ Good (s.addError n r) := by
  intro h; have := h.1; simp [ZSt.addError] at this

/-- `int64(UncompressedSize64)` of the entry -/
abbrev szOf (zf : Entry) : Int := int64OfU64 zf.declSize

/-- what `checkZip` establishes about a file entry with path `rel` below the prefix when the running
    total is `size`. -/
structure FileOK (zf : Entry) (rel : Bytes) (size : Int) : Prop where
  goMod : equalFoldGoMod (pathBase rel) = true → rel = goModName
  nonneg : 0 ≤ szOf zf
  total : size + szOf zf ≤ MaxZipFile
  goModSize : rel = goModName → szOf zf ≤ MaxGoMod
  licenseSize : rel = licenseName → szOf zf ≤ MaxLICENSE

/-- the three accepting shapes of one step -/
inductive StepOK (E : Env) (pfx : Bytes) (s : ZSt) (zf : Entry) : ZSt → Prop
  | root (hp : isPrefixOfB pfx zf.name = true) (h : zf.name.drop pfx.length = []) : StepOK E pfx s zf s
  | dir (cc' : CC) (hp : isPrefixOfB pfx zf.name = true) (hne : zf.name.drop pfx.length ≠ [])
      (hs : hasSlashSuffix (zf.name.drop pfx.length) = true)
      (hclean : pathClean (zf.name.drop pfx.length).dropLast = (zf.name.drop pfx.length).dropLast)
      (hcfp : E.cfp (zf.name.drop pfx.length).dropLast = true)
      (hcc : ccCheckTop E.toFold s.cc (zf.name.drop pfx.length).dropLast true = (cc', none)) :
      StepOK E pfx s zf (s.setCC cc')
  | file (cc' : CC) (hp : isPrefixOfB pfx zf.name = true) (hne : zf.name.drop pfx.length ≠ [])
      (hs : hasSlashSuffix (zf.name.drop pfx.length) = false)
      (hclean : pathClean (zf.name.drop pfx.length) = zf.name.drop pfx.length)
      (hcfp : E.cfp (zf.name.drop pfx.length) = true)
      (hcc : ccCheckTop E.toFold s.cc (zf.name.drop pfx.length) false = (cc', none))
      (hf : FileOK zf (zf.name.drop pfx.length) s.size) :
      StepOK E pfx s zf ⟨{ s.cf with valid := s.cf.valid ++ [zf.name] }, cc', s.size + szOf zf⟩

theorem good_setCC (s : ZSt) (cc : CC) : Good (s.setCC cc) ↔ Good s := Iff.rfl

theorem zipSized_good (s : ZSt) (zf : Entry) (rel : Bytes) (h : Good (zipSized s zf rel)) :
    Good s ∧ FileOK zf rel s.size ∧
      zipSized s zf rel = ⟨{ s.cf with valid := s.cf.valid ++ [zf.name] }, s.cc, s.size + szOf zf⟩ := by
  unfold zipSized at h ⊢
  by_cases h1 : (equalFoldGoMod (pathBase rel) && pathBase rel != rel) = true
  · rw [if_pos h1] at h; exact absurd h (not_good_addError _ _ _)
  rw [if_neg h1] at h ⊢
  by_cases h2 : (equalFoldGoMod (pathBase rel) && rel != goModName) = true
  · rw [if_pos h2] at h; exact absurd h (not_good_addError _ _ _)
  rw [if_neg h2] at h ⊢
  by_cases h3 : (rel == goModName && int64OfU64 zf.declSize > MaxGoMod) = true
  · rw [if_pos h3] at h; exact absurd h (not_good_addError _ _ _)
  rw [if_neg h3] at h ⊢
  by_cases h4 : (rel == licenseName && int64OfU64 zf.declSize > MaxLICENSE) = true
  · rw [if_pos h4] at h; exact absurd h (not_good_addError _ _ _)
  rw [if_neg h4] at h ⊢
  unfold ZSt.account at h ⊢
  by_cases h5 : 0 ≤ int64OfU64 zf.declSize ∧ (MaxZipFile : Int) - s.size ≥ int64OfU64 zf.declSize
  · rw [if_pos h5] at h ⊢
    refine ⟨h, ⟨?_, h5.1, ?_, ?_, ?_⟩, rfl⟩
    · intro hg
      simp only [hg, Bool.true_and, bne_iff_ne, ne_eq, Classical.not_not] at h2
      exact h2
    · have := h5.2; show s.size + int64OfU64 zf.declSize ≤ _; omega
    · intro hr
      have : (rel == goModName) = true := by simpa using hr
      simp only [this, Bool.true_and, decide_eq_true_eq] at h3
      show int64OfU64 zf.declSize ≤ _; omega
    · intro hr
      have : (rel == licenseName) = true := by simpa using hr
      simp only [this, Bool.true_and, decide_eq_true_eq] at h4
      show int64OfU64 zf.declSize ≤ _; omega
  · rw [if_neg h5] at h
    have := h.2
    simp [ZSt.pushValid] at this

theorem zipStep_good (E : Env) (pfx : Bytes) (s : ZSt) (zf : Entry) (h : Good (zipStep E pfx s zf)) :
    Good s ∧ StepOK E pfx s zf (zipStep E pfx s zf) := by
  unfold zipStep at h ⊢
  by_cases h1 : (!isPrefixOfB pfx zf.name) = true
  · rw [if_pos h1] at h; exact absurd h (not_good_addError _ _ _)
  rw [if_neg h1] at h ⊢
  have hp : isPrefixOfB pfx zf.name = true := by simpa using h1
  by_cases h2 : zf.name.drop pfx.length = []
  · have h2' : (zf.name.drop pfx.length == []) = true := by simpa using h2
    rw [if_pos h2'] at h ⊢
    exact ⟨h, .root hp h2⟩
  have h2' : ¬ (zf.name.drop pfx.length == []) = true := by simpa using h2
  rw [if_neg h2'] at h ⊢
  by_cases h3 : hasSlashSuffix (zf.name.drop pfx.length) = true
  · rw [if_pos h3] at h ⊢
    unfold zipNamed at h ⊢
    by_cases h4 : (pathClean (zf.name.drop pfx.length).dropLast != (zf.name.drop pfx.length).dropLast) = true
    · rw [if_pos h4] at h; exact absurd h (not_good_addError _ _ _)
    rw [if_neg h4] at h ⊢
    by_cases h5 : (!E.cfp (zf.name.drop pfx.length).dropLast) = true
    · rw [if_pos h5] at h; exact absurd h (not_good_addError _ _ _)
    rw [if_neg h5] at h ⊢
    rcases hc : ccCheckTop E.toFold s.cc (zf.name.drop pfx.length).dropLast true with ⟨cc', err⟩
    rw [hc] at h
    cases err with
    | some e => exact absurd h (not_good_addError _ _ _)
    | none =>
      simp only [if_true] at h ⊢
      exact ⟨h, .dir cc' hp h2 h3 (by simpa using h4) (by simpa using h5) hc⟩
  · rw [if_neg h3] at h ⊢
    unfold zipNamed at h ⊢
    by_cases h4 : (pathClean (zf.name.drop pfx.length) != zf.name.drop pfx.length) = true
    · rw [if_pos h4] at h; exact absurd h (not_good_addError _ _ _)
    rw [if_neg h4] at h ⊢
    by_cases h5 : (!E.cfp (zf.name.drop pfx.length)) = true
    · rw [if_pos h5] at h; exact absurd h (not_good_addError _ _ _)
    rw [if_neg h5] at h ⊢
    rcases hc : ccCheckTop E.toFold s.cc (zf.name.drop pfx.length) false with ⟨cc', err⟩
    rw [hc] at h
    cases err with
    | some e => exact absurd h (not_good_addError _ _ _)
    | none =>
      simp only [Bool.false_eq_true, if_false] at h ⊢
      obtain ⟨hg, hf, heq⟩ := zipSized_good _ _ _ h
      rw [heq]
      exact ⟨hg, .file cc' hp h2 (by simpa using h3) (by simpa using h4) (by simpa using h5) hc hf⟩

/-- a chain of accepting steps -/
inductive Run (E : Env) (pfx : Bytes) : ZSt → List Entry → ZSt → Prop
  | nil (s : ZSt) : Run E pfx s [] s
  | cons {s s1 s2 : ZSt} {zf : Entry} {es : List Entry} (h : StepOK E pfx s zf s1) (t : Run E pfx s1 es s2) :
      Run E pfx s (zf :: es) s2

theorem run_of_good (E : Env) (pfx : Bytes) : ∀ (es : List Entry) (s : ZSt),
    Good (es.foldl (zipStep E pfx) s) → Good s ∧ Run E pfx s es (es.foldl (zipStep E pfx) s)
  | [], s, h => ⟨h, .nil s⟩
  | zf :: es, s, h => by
    obtain ⟨h1, hr⟩ := run_of_good E pfx es (zipStep E pfx s zf) h
    obtain ⟨h0, hs⟩ := zipStep_good E pfx s zf h1
    exact ⟨h0, .cons hs hr⟩

/-- acceptance by `checkZip`, unfolded -/
theorem checkZip_ok (E : Env) (mpath mvers : Bytes) (zs : Nat) (es : List Entry) (cf : CheckedFiles)
    (h : checkZip E mpath mvers zs es = .ok cf) (he : cf.err = none) :
    E.modOK mpath mvers = true ∧ zs ≤ MaxZipFile ∧
    cf = (es.foldl (zipStep E (zipPrefix mpath mvers)) {}).cf ∧
    Run E (zipPrefix mpath mvers) {} es (es.foldl (zipStep E (zipPrefix mpath mvers)) {}) := by
  unfold checkZip at h
  by_cases h1 : (!E.modOK mpath mvers) = true
  · rw [if_pos h1] at h; cases h
  rw [if_neg h1] at h
  by_cases h2 : zs > MaxZipFile
  · rw [if_pos h2] at h
    injection h with h
    subst h
    simp [CheckedFiles.err] at he
  rw [if_neg h2] at h
  injection h with h
  subst h
  have hg := (good_iff_err _).mpr he
  exact ⟨by simpa using h1, by omega, rfl, (run_of_good _ _ es {} hg).2⟩

/-! ### facts along a run -/

/-- the path of an entry below the prefix with one trailing slash removed -/
def stripName (pfx : Bytes) (e : Entry) : Bytes :=
  if hasSlashSuffix (e.name.drop pfx.length) then (e.name.drop pfx.length).dropLast else e.name.drop pfx.length

/-- per-entry facts that do not depend on the state -/
structure EntryOK (E : Env) (pfx : Bytes) (e : Entry) : Prop where
  hasPrefix : isPrefixOfB pfx e.name = true
  clean : e.name.drop pfx.length ≠ [] → pathClean (stripName pfx e) = stripName pfx e
  cfp : e.name.drop pfx.length ≠ [] → E.cfp (stripName pfx e) = true
  goMod : skipEntry pfx e = false → equalFoldGoMod (pathBase (e.name.drop pfx.length)) = true →
    e.name.drop pfx.length = goModName
  nonneg : skipEntry pfx e = false → 0 ≤ szOf e
  goModSize : skipEntry pfx e = false → e.name.drop pfx.length = goModName → szOf e ≤ MaxGoMod
  licenseSize : skipEntry pfx e = false → e.name.drop pfx.length = licenseName → szOf e ≤ MaxLICENSE

theorem stepOK_entryOK {E : Env} {pfx : Bytes} {s s' : ZSt} {zf : Entry} (h : StepOK E pfx s zf s') :
    EntryOK E pfx zf := by
  cases h with
  | root hp h0 =>
    have hsk : skipEntry pfx zf = true := by simp [skipEntry, h0]
    have hno : ∀ {P : Prop}, skipEntry pfx zf = false → P := fun h => by rw [hsk] at h; cases h
    exact ⟨hp, fun h => absurd h0 h, fun h => absurd h0 h, hno, hno, hno, hno⟩
  | dir cc' hp hne hs hclean hcfp hcc =>
    have hsk : skipEntry pfx zf = true := by simp [skipEntry, hs]
    have hst : stripName pfx zf = (zf.name.drop pfx.length).dropLast := by simp [stripName, hs]
    have hno : ∀ {P : Prop}, skipEntry pfx zf = false → P := fun h => by rw [hsk] at h; cases h
    exact ⟨hp, fun _ => hst ▸ hclean, fun _ => hst ▸ hcfp, hno, hno, hno, hno⟩
  | file cc' hp hne hs hclean hcfp hcc hf =>
    have hst : stripName pfx zf = zf.name.drop pfx.length := by simp [stripName, hs]
    exact ⟨hp, fun _ => hst ▸ hclean, fun _ => hst ▸ hcfp,
      fun _ => hf.goMod, fun _ => hf.nonneg, fun _ => hf.goModSize, fun _ => hf.licenseSize⟩

/-- the file entries: those `Unzip` extracts -/
def fileEntries (pfx : Bytes) (es : List Entry) : List Entry := es.filter (fun e => !skipEntry pfx e)

theorem stepOK_valid_size {E : Env} {pfx : Bytes} {s s' : ZSt} {zf : Entry} (h : StepOK E pfx s zf s') :
    s'.cf.valid = s.cf.valid ++ (fileEntries pfx [zf]).map (·.name) ∧
    s'.size = s.size + ((fileEntries pfx [zf]).map szOf).sum ∧
    (s.size ≤ MaxZipFile → s'.size ≤ MaxZipFile) := by
  cases h with
  | root hp h0 =>
    have hsk : skipEntry pfx zf = true := by simp [skipEntry, h0]
    simp [fileEntries, hsk]
  | dir cc' hp hne hs hclean hcfp hcc =>
    have hsk : skipEntry pfx zf = true := by simp [skipEntry, hs]
    simp [fileEntries, hsk, ZSt.setCC]
  | file cc' hp hne hs hclean hcfp hcc hf =>
    have hne' : (zf.name.drop pfx.length == []) = false := by simpa using hne
    have hsk : skipEntry pfx zf = false := by simp only [skipEntry, hs, hne']; rfl
    refine ⟨?_, ?_, fun _ => hf.total⟩ <;> simp [fileEntries, hsk]

theorem fileEntries_cons (pfx : Bytes) (zf : Entry) (es : List Entry) :
    fileEntries pfx (zf :: es) = fileEntries pfx [zf] ++ fileEntries pfx es := by
  unfold fileEntries
  rw [show zf :: es = [zf] ++ es from rfl, List.filter_append]

theorem run_facts {E : Env} {pfx : Bytes} {s s' : ZSt} {es : List Entry} (h : Run E pfx s es s') :
    (∀ e ∈ es, EntryOK E pfx e) ∧
    s'.cf.valid = s.cf.valid ++ (fileEntries pfx es).map (·.name) ∧
    s'.size = s.size + ((fileEntries pfx es).map szOf).sum ∧
    (s.size ≤ MaxZipFile → s'.size ≤ MaxZipFile) := by
  induction h with
  | nil s => simp [fileEntries]
  | cons hs ht ih =>
    rename_i s s1 s2 zf es
    obtain ⟨i1, i2, i3, i4⟩ := ih
    obtain ⟨j2, j3, j4⟩ := stepOK_valid_size hs
    refine ⟨?_, ?_, ?_, fun h => i4 (j4 h)⟩
    · intro e he
      rcases List.mem_cons.mp he with rfl | he
      · exact stepOK_entryOK hs
      · exact i1 e he
    · rw [i2, j2, fileEntries_cons pfx zf es]; simp
    · rw [i3, j3, fileEntries_cons pfx zf es]; simp [Int.add_assoc]

/-! ### the collision checker: everything registered is pairwise compatible -/

/-- two registered paths (path, is a directory) do not clash: different folded paths, or the same
    directory registered twice. -/
def Compatible (toFold : Bytes → Bytes) (x y : Bytes × Bool) : Prop :=
  toFold x.1 = toFold y.1 → x.1 = y.1 ∧ x.2 = true ∧ y.2 = true

theorem compatible_symm {toFold : Bytes → Bytes} {x y : Bytes × Bool} (h : Compatible toFold x y) :
    Compatible toFold y x := fun e => let ⟨a, b, c⟩ := h e.symm; ⟨a.symm, c, b⟩

/-- invariant of the table: `R` = everything registered so far, in order -/
structure CCInv (toFold : Bytes → Bytes) (cc : CC) (R : List (Bytes × Bool)) : Prop where
  pw : R.Pairwise (Compatible toFold)
  rep : ∀ x ∈ R, ∃ pi, cc.find (toFold x.1) = some pi ∧ pi.path = x.1 ∧ pi.isDir = x.2

theorem ccInv_nil (toFold : Bytes → Bytes) : CCInv toFold [] [] := ⟨List.Pairwise.nil, by simp⟩

theorem find_append_of_some {cc new : CC} {k : Bytes} {pi : PathInfo} (h : cc.find k = some pi) :
    (cc ++ new).find k = some pi := by
  unfold CC.find at *
  rw [List.find?_append, h]; rfl

theorem ccStep_inv {toFold : Bytes → Bytes} {cc cc' : CC} {R : List (Bytes × Bool)} {p : Bytes} {d : Bool}
    (hI : CCInv toFold cc R) (h : ccStep toFold cc p d = (cc', none)) : CCInv toFold cc' (R ++ [(p, d)]) := by
  unfold ccStep at h
  cases hf : cc.find (toFold p) with
  | none =>
    rw [hf] at h
    simp only [Prod.mk.injEq, and_true] at h
    subst h
    refine ⟨List.pairwise_append.mpr ⟨hI.pw, List.pairwise_singleton _ _, ?_⟩, ?_⟩
    · intro x hx y hy
      rw [List.mem_singleton.mp hy]
      intro e
      obtain ⟨pi, hpi, _⟩ := hI.rep x hx
      rw [e] at hpi
      rw [hf] at hpi; cases hpi
    · intro x hx
      rcases List.mem_append.mp hx with hx | hx
      · obtain ⟨pi, hpi, h1, h2⟩ := hI.rep x hx
        exact ⟨pi, find_append_of_some hpi, h1, h2⟩
      · rw [List.mem_singleton.mp hx]
        refine ⟨⟨toFold p, p, d⟩, ?_, rfl, rfl⟩
        unfold CC.find at hf ⊢
        rw [List.find?_append, hf]
        simp
  | some other =>
    rw [hf] at h
    simp only at h
    by_cases h1 : (p != other.path) = true
    · rw [if_pos h1] at h; cases h
    rw [if_neg h1] at h
    by_cases h2 : (d != other.isDir) = true
    · rw [if_pos h2] at h; cases h
    rw [if_neg h2] at h
    by_cases h3 : (!d) = true
    · rw [if_pos h3] at h; cases h
    rw [if_neg h3] at h
    simp only [Prod.mk.injEq, and_true] at h
    subst h
    have e1 : p = other.path := by simpa using h1
    have e2 : d = other.isDir := by simpa using h2
    have e3 : d = true := by simpa using h3
    refine ⟨List.pairwise_append.mpr ⟨hI.pw, List.pairwise_singleton _ _, ?_⟩, ?_⟩
    · intro x hx y hy
      rw [List.mem_singleton.mp hy]
      intro e
      obtain ⟨pi, hpi, hp1, hp2⟩ := hI.rep x hx
      simp only at e
      rw [e, hf] at hpi
      injection hpi with hpi
      subst hpi
      exact ⟨by rw [← hp1, e1], by rw [← hp2, ← e2, e3], e3⟩
    · intro x hx
      rcases List.mem_append.mp hx with hx | hx
      · exact hI.rep x hx
      · rw [List.mem_singleton.mp hx]
        exact ⟨other, hf, e1.symm, e2.symm⟩

/-- the paths `collisionChecker.check` registers for `p`: `p`, then `path.Dir` repeatedly until `.` -/
def regChain : Nat → Bytes → Bool → List (Bytes × Bool)
  | 0, _, _ => []
  | n + 1, p, d => (p, d) :: if pathDir p != [46] then regChain n (pathDir p) true else []

theorem ccCheck_inv {toFold : Bytes → Bytes} : ∀ (fuel : Nat) {cc cc' : CC} {R : List (Bytes × Bool)}
    {p : Bytes} {d : Bool}, CCInv toFold cc R → ccCheck toFold fuel cc p d = (cc', none) →
    CCInv toFold cc' (R ++ regChain fuel p d)
  | 0, _, _, _, _, _, _, h => by simp [ccCheck] at h
  | fuel + 1, cc, cc', R, p, d, hI, h => by
    unfold ccCheck at h
    rcases hst : ccStep toFold cc p d with ⟨cc1, r1⟩
    rw [hst] at h
    cases r1 with
    | some e => simp at h
    | none =>
      simp only at h
      have hI1 := ccStep_inv hI hst
      unfold regChain
      by_cases hd : (pathDir p != [46]) = true
      · rw [if_pos hd] at h ⊢
        have := ccCheck_inv fuel hI1 h
        simpa using this
      · rw [if_neg hd] at h ⊢
        simp only [Prod.mk.injEq, and_true] at h
        subst h
        exact hI1

/-- what one entry registers -/
def regsOf (pfx : Bytes) (e : Entry) : List (Bytes × Bool) :=
  if e.name.drop pfx.length = [] then []
  else regChain ((stripName pfx e).length + 1) (stripName pfx e) (hasSlashSuffix (e.name.drop pfx.length))

theorem stepOK_ccInv {E : Env} {pfx : Bytes} {s s' : ZSt} {zf : Entry} {R : List (Bytes × Bool)}
    (h : StepOK E pfx s zf s') (hI : CCInv E.toFold s.cc R) : CCInv E.toFold s'.cc (R ++ regsOf pfx zf) := by
  cases h with
  | root hp h0 => simp [regsOf, h0]; exact hI
  | dir cc' hp hne hs hclean hcfp hcc =>
    have hst : stripName pfx zf = (zf.name.drop pfx.length).dropLast := by simp [stripName, hs]
    simp only [regsOf, hne, if_false, hst, hs]
    exact ccCheck_inv _ hI hcc
  | file cc' hp hne hs hclean hcfp hcc hf =>
    have hst : stripName pfx zf = zf.name.drop pfx.length := by simp [stripName, hs]
    simp only [regsOf, hne, if_false, hst, hs]
    exact ccCheck_inv _ hI hcc

theorem run_ccInv {E : Env} {pfx : Bytes} {s s' : ZSt} {es : List Entry} (h : Run E pfx s es s') :
    ∀ {R : List (Bytes × Bool)}, CCInv E.toFold s.cc R → CCInv E.toFold s'.cc (R ++ es.flatMap (regsOf pfx)) := by
  induction h with
  | nil s => intro R hI; simpa using hI
  | cons hs ht ih =>
    intro R hI
    have := ih (stepOK_ccInv hs hI)
    simpa [List.flatMap_cons, List.append_assoc] using this

/-- an accepted archive: everything the collision checker saw is pairwise compatible -/
theorem run_noCollision {E : Env} {pfx : Bytes} {s' : ZSt} {es : List Entry} (h : Run E pfx {} es s') :
    (es.flatMap (regsOf pfx)).Pairwise (Compatible E.toFold) := by
  have := (run_ccInv h (ccInv_nil E.toFold)).pw
  simpa using this

end ModVerif.Proofs.ZipB
