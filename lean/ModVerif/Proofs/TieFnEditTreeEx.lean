/-
  Test harness of the non-vacuity examples of Tie/FnEditTree.lean: a parsed two-block go.mod is loaded into a heap with the
  driver's `Drv.GenEdit.load`, an operation is run, the syntax graph is read back with the driver's `synM` and compared
  with the hand model applied to `Edit.load` of the same file (kernel-evaluated, `decide +kernel`).
-/
import ModVerif.Proofs.TieFnEditRep
namespace ModVerif.Tie.FnEditTreeEx
open ModVerif ModVerif.GoRt ModVerif.Generated.Edit

/-- module + a two-line require block (the second line marked `// indirect`) + an exclude block -/
def exFile : Bytes :=
  B "module m\n\nrequire (\n\ta.b/c v1.0.0\n\td.e/f v1.2.3 // indirect\n)\n\nexclude (\n\tx.y/z v1.0.0\n)\n"

/-- run `op fp h` on the heap loaded from the parsed file; read the syntax graph and the `Require` objects back -/
def runSyn (file : Bytes) (op : Int → Heap → M (Unit × Heap)) : Option (Modfile.FileSyntax × List Require) :=
  match Modfile.parseStrict (B "go.mod") file none with
  | .ok f =>
    let (h, fp) := Drv.GenEdit.load f
    match op fp h with
    | .ok (_, h') => (heapGet h'.mods fp).toOption.bind fun o =>
        (Drv.GenEdit.synM h' o.Syntax).bind fun s => (Drv.GenEdit.getAll h'.requires o.Require).map fun r => (s, r)
    | .error _ => none
  | .error _ => none

/-- the model side: a function of `Edit.load` of the parsed file -/
def modelSyn (file : Bytes) (g : Modfile.Edit.EFile → Modfile.FileSyntax × List Modfile.Require) :
    Option (Modfile.FileSyntax × List Require) :=
  match Modfile.parseStrict (B "go.mod") file none with
  | .ok f => let (s, r) := g (Modfile.Edit.load f); some (s, r.map FnEditRep.requireG)
  | .error _ => none

/-- a value computed on the loaded heap -/
def runVal {α : Type} (file : Bytes) (op : Int → Heap → M α) : Option α :=
  match Modfile.parseStrict (B "go.mod") file none with
  | .ok f =>
    let (h, fp) := Drv.GenEdit.load f
    match op fp h with
    | .ok v => some v
    | .error _ => none
  | .error _ => none

def modelVal {α : Type} (file : Bytes) (g : Modfile.Edit.EFile → Option α) : Option α :=
  match Modfile.parseStrict (B "go.mod") file none with
  | .ok f => g (Modfile.Edit.load f)
  | .error _ => none

end ModVerif.Tie.FnEditTreeEx
