/-
  Tie proofs for sumdb/tlog/tile.go, part 5: tile data as flat bytes vs lists of hashes, `tileHash`, `HashFromTile`.

  The generated code keeps tile data as FLAT bytes (`HashSize = 32` bytes per hash) and turns 32 bytes into a hash with
  `ofBytes : Bytes → H`; the model's tile data is a `List H`.  `unflat ofBytes b` is the list of the complete 32-byte
  groups of `b`, each through `ofBytes`.  No hypothesis on `ofBytes` is needed (H is arbitrary).
-/
import ModVerif.Proofs.TieFnTile
import ModVerif.Proofs.TileAuthHash
import ModVerif.Proofs.TileAuthTile
set_option linter.unusedSimpArgs false
namespace ModVerif.TieFnTile
open ModVerif ModVerif.GoRt ModVerif.GoRtTile

/-- the complete 32-byte groups of a byte string -/
def hashes32 (b : Bytes) : List Bytes := (List.range (b.length / 32)).map fun i => (b.drop (32 * i)).take 32

/-- flat tile data as a list of hashes -/
def unflat {H : Type} (ofBytes : Bytes → H) (b : Bytes) : List H := (hashes32 b).map ofBytes

theorem hashes32_length (b : Bytes) : (hashes32 b).length = b.length / 32 := by simp [hashes32]

theorem unflat_length {H : Type} (ofBytes : Bytes → H) (b : Bytes) : (unflat ofBytes b).length = b.length / 32 := by
  simp [unflat, hashes32_length]

theorem hashes32_take (b : Bytes) (m : Nat) (h : 32 * m ≤ b.length) : hashes32 (b.take (32 * m)) = (hashes32 b).take m := by
  apply List.ext_getElem
  · simp only [hashes32_length, List.length_take]; omega
  · intro i h1 h2
    simp only [hashes32_length, List.length_take] at h1 h2
    have hi : i < m := by omega
    simp only [hashes32, List.getElem_map, List.getElem_range, List.getElem_take, List.drop_take, List.take_take]
    congr 1
    omega

theorem hashes32_drop (b : Bytes) (m : Nat) : hashes32 (b.drop (32 * m)) = (hashes32 b).drop m := by
  apply List.ext_getElem
  · simp only [hashes32_length, List.length_drop]; omega
  · intro i h1 h2
    simp only [hashes32, List.getElem_map, List.getElem_range, List.getElem_drop, List.drop_drop]
    congr 2
    omega

theorem unflat_take {H : Type} (ofBytes : Bytes → H) (b : Bytes) (m : Nat) (h : 32 * m ≤ b.length) :
    unflat ofBytes (b.take (32 * m)) = (unflat ofBytes b).take m := by
  simp only [unflat, hashes32_take b m h, List.map_take]

theorem unflat_drop {H : Type} (ofBytes : Bytes → H) (b : Bytes) (m : Nat) :
    unflat ofBytes (b.drop (32 * m)) = (unflat ofBytes b).drop m := by
  simp only [unflat, hashes32_drop b m, List.map_drop]

theorem unflat_single {H : Type} (ofBytes : Bytes → H) (b : Bytes) (h : b.length = 32) : unflat ofBytes b = [ofBytes b] := by
  have : hashes32 b = [b] := by
    simp only [hashes32, h, Nat.div_self (by omega : 0 < 32), List.range_one, List.map_cons, Nat.mul_zero, List.drop_zero,
      List.map_nil]
    rw [List.take_of_length_le (by omega)]
  simp only [unflat, this, List.map_cons, List.map_nil]

/-- a model result in the result type of the generated code: the model's error kinds that can occur where this is used
    (`panic`) are Go panics -/
def errOut {α : Type} : Except Tlog.Err α → M α
  | .ok a => .ok a
  | .error _ => .error .panic

section
variable {H : Type} [DecidableEq H] [Inhabited H] (node : H → H → H) (ofBytes : Bytes → H)

/-! ### tileHash -/

/-- `tileHash` on `2^j` hashes (`32 * 2^j` bytes) is the perfect-tree hash of the model -/
theorem tileHash_ptree_eq : ∀ (j fuel : Nat) (data : Bytes) (r : H), data.length = 32 * 2 ^ j → j < fuel →
    TileAuth.ptree node j (unflat ofBytes data) = some r →
    Generated.Tile.tileHash node ofBytes fuel data = .ok r := by
  intro j
  induction j with
  | zero =>
    intro fuel data r hl hf hr
    obtain ⟨g, rfl⟩ : ∃ g, fuel = g + 1 := ⟨fuel - 1, by omega⟩
    simp only [Nat.pow_zero, Nat.mul_one] at hl
    rw [unflat_single ofBytes data hl] at hr
    simp only [TileAuth.ptree, Option.some.injEq] at hr
    subst hr
    have h32 : len data = 32 := by simp only [len, hl]; rfl
    have d0 : decide ((32 : Int) = 0) = false := rfl
    rw [Generated.Tile.tileHash]
    simp only [h32, d0, Bool.false_eq_true, ↓reduceIte, mpure, decide_true]
  | succ j ih =>
    intro fuel data r hl hf hr
    obtain ⟨g, rfl⟩ : ∃ g, fuel = g + 1 := ⟨fuel - 1, by omega⟩
    have hp := Nat.two_pow_pos j
    rw [Nat.pow_succ] at hl
    obtain ⟨a, b, ha, hb, hr'⟩ := TileAuth.ptree_succ_some node j _ r hr
    have h0 : ¬ (((data.length : Nat) : Int) = 0) := by omega
    have h32 : ¬ (((data.length : Nat) : Int) = 32) := by omega
    have hlen : len data = ((data.length : Nat) : Int) := rfl
    have hhalf : data.length / 2 = 32 * 2 ^ j := by omega
    have e2 : ((2 : Int)) = ((2 : Nat) : Int) := rfl
    rw [← unflat_take ofBytes data (2 ^ j) (by omega)] at ha
    rw [← unflat_drop ofBytes data (2 ^ j)] at hb
    have iha := ih g (data.take (32 * 2 ^ j)) a (by rw [List.length_take]; omega) (by omega) ha
    have ihb := ih g (data.drop (32 * 2 ^ j)) b (by rw [List.length_drop]; omega) (by omega) hb
    have hs1 : sliceTo data ((32 * 2 ^ j : Nat) : Int) = .ok (data.take (32 * 2 ^ j)) := by
      have h1 : (0 : Int) ≤ ((32 * 2 ^ j : Nat) : Int) ∧ ((32 * 2 ^ j : Nat) : Int) ≤ len data := by
        simp only [len, Int.ofNat_eq_natCast]; omega
      simp only [sliceTo, h1, and_self, ↓reduceIte, Int.toNat_natCast]; rfl
    have hs2 : sliceFrom data ((32 * 2 ^ j : Nat) : Int) = .ok (data.drop (32 * 2 ^ j)) := by
      have h1 : (0 : Int) ≤ ((32 * 2 ^ j : Nat) : Int) ∧ ((32 * 2 ^ j : Nat) : Int) ≤ len data := by
        simp only [len, Int.ofNat_eq_natCast]; omega
      simp only [sliceFrom, h1, and_self, ↓reduceIte, Int.toNat_natCast]; rfl
    rw [Generated.Tile.tileHash]
    simp only [hlen, h0, h32, decide_false, Bool.false_eq_true, ↓reduceIte, e2, quo_natCast _ 2 (by omega), hhalf, mbind_ok,
      hs1, hs2, iha, ihb, mpure, hr']

/-- `tileHash(data)` for `len(data) = HashSize * 2^j` -/
theorem tileHash_eq (j fuel : Nat) (data : Bytes) (hl : data.length = 32 * 2 ^ j) (hf : j < fuel) :
    Generated.Tile.tileHash node ofBytes fuel data = errOut (Tile.tileHash node (unflat ofBytes data)) := by
  have hlen : (unflat ofBytes data).length = 2 ^ j := by
    rw [unflat_length, hl, Nat.mul_div_cancel_left _ (by omega)]
  obtain ⟨r, hr⟩ := TileAuth.ptree_isSome node j _ hlen
  rw [tileHash_ptree_eq node ofBytes j fuel data r hl hf hr, TileAuth.tileHash_ptree node j _ r hlen hr]
  rfl

/-- `tileHash("")` panics ("bad math in tileHash") on both sides -/
theorem tileHash_nil (fuel : Nat) (hf : 0 < fuel) :
    Generated.Tile.tileHash node ofBytes fuel [] = errOut (Tile.tileHash node (unflat ofBytes [])) := by
  obtain ⟨g, rfl⟩ : ∃ g, fuel = g + 1 := ⟨fuel - 1, by omega⟩
  rw [Generated.Tile.tileHash]
  simp [len, mthrow, unflat, hashes32, Tile.tileHash, Tile.tileHashF, errOut]

/-! ### HashFromTile -/

/-- the first check of `HashFromTile` (on the model tile) -/
def hftInvalid (t : Tile.Tile) : Bool := t.h < 1 || t.h > 30 || t.data || t.l ≥ 64 || t.w < 1 || t.w > 2 ^ t.h

/-- which of the three error texts `HashFromTile` returns (the model has one error kind, `badTile`, for all three) -/
def hftMsg (t : Tile.Tile) (dlen : Nat) : String :=
  if hftInvalid t then "invalid tile %v"
  else if dlen < t.w then "data len %d too short for tile %v"
  else "index %v is in %v not %v"

/-- the model's result in the result type of the generated `HashFromTile` -/
def hftOut (t : Tile.Tile) (dlen : Nat) : Except Tlog.Err H → H × Option String
  | .ok v => (v, none)
  | .error _ => (default, some (hftMsg t dlen))

theorem slice_natCast' {α : Type} {v : List α} {a b : Nat} (hab : a ≤ b) (hb : b ≤ v.length) :
    slice v (a : Int) (b : Int) = .ok ((v.take b).drop a) := by
  have h1 : (0 : Int) ≤ (a : Int) ∧ (a : Int) ≤ (b : Int) ∧ (b : Int) ≤ len v := by
    simp only [len, Int.ofNat_eq_natCast]; omega
  simp only [slice, h1, and_self, ↓reduceIte, Int.toNat_natCast]; rfl

/-- `HashFromTile(t, data, index)` for EVERY model tile (data tiles and out-of-range fields are rejected on both sides),
    every byte string `data`, `0 ≤ index ≤ MaxInt64 - 1` -/
theorem HashFromTile_eq (fuel : Nat) (t : Tile.Tile) (data : Bytes) (x : Nat) (hx : x + 1 < 2 ^ 63) (hf : 64 ≤ fuel) :
    Generated.Tile.HashFromTile node ofBytes fuel (toGen t) data (x : Int) =
      .ok (hftOut t (data.length / 32) (Tile.hashFromTile node t (unflat ofBytes data) x)) := by
  obtain ⟨th, tl, tn, tw, td⟩ := t
  unfold Tile.hashFromTile
  simp only [unflat_length]
  cases td
  case true =>
    have : ((-1 : Int) < 0) := by omega
    simp [Generated.Tile.HashFromTile, toGen, mpure, mbind_ok, hftOut, hftMsg, hftInvalid]
  case false =>
  by_cases hinv1 : th < 1 ∨ th > 30 ∨ tl ≥ 64 ∨ tw < 1
  · have hg : ((decide ((th : Int) < 1) || decide ((th : Int) > 30) || decide ((tl : Int) < 0) || decide ((tl : Int) ≥ 64) ||
        decide ((tw : Int) < 1)) = true) := by
      rcases hinv1 with h | h | h | h
      · have : ((th : Int) < 1) := by omega
        simp [this]
      · have : ((th : Int) > 30) := by omega
        simp [this]
      · have : ((tl : Int) ≥ 64) := by omega
        simp [this]
      · have : ((tw : Int) < 1) := by omega
        simp [this]
    have hm : (decide (th < 1) || decide (th > 30) || false || decide (tl ≥ 64) || decide (tw < 1) || decide (tw > 2 ^ th)) = true := by
      rcases hinv1 with h | h | h | h <;> simp [h]
    simp only [Generated.Tile.HashFromTile, toGen, Bool.false_eq_true, ↓reduceIte, hg, mpure, mbind_ok, hm, hftOut, hftMsg,
      hftInvalid]
  · have h1 : 1 ≤ th := by omega
    have h30 : th ≤ 30 := by omega
    have hl64 : tl < 64 := by omega
    have hw1 : 1 ≤ tw := by omega
    have hg : ((decide ((th : Int) < 1) || decide ((th : Int) > 30) || decide ((tl : Int) < 0) || decide ((tl : Int) ≥ 64) ||
        decide ((tw : Int) < 1)) = false) := by
      have a1 : ¬ ((th : Int) < 1) := by omega
      have a2 : ¬ ((th : Int) > 30) := by omega
      have a3 : ¬ ((tl : Int) < 0) := by omega
      have a4 : ¬ ((tl : Int) ≥ 64) := by omega
      have a5 : ¬ ((tw : Int) < 1) := by omega
      simp [a1, a2, a3, a4, a5]
    have hp : 2 ^ th < 2 ^ 63 := Nat.pow_lt_pow_right (by omega) (by omega)
    have hp30 : 2 ^ th ≤ 2 ^ 30 := Nat.pow_le_pow_right (by omega) h30
    have m1 : decide (th < 1) = false := by simp; omega
    have m2 : decide (th > 30) = false := by simp; omega
    have m3 : decide (tl ≥ 64) = false := by simp; omega
    have m4 : decide (tw < 1) = false := by simp; omega
    simp only [Generated.Tile.HashFromTile, toGen, Bool.false_eq_true, ↓reduceIte, hg, toU64_natCast (show th < 2 ^ 64 by omega),
      shl_one_natCast, chk64_natCast hp, mbind_ok, mpure, m1, m2, m3, m4, Bool.or_false, Bool.false_or]
    by_cases hwide : tw > 2 ^ th
    · have hwide' : ((tw : Int) > ((2 ^ th : Nat) : Int)) := by omega
      have hinvT : hftInvalid { h := th, l := tl, n := tn, w := tw } = true := by
        unfold hftInvalid
        simp only [m1, m2, m3, m4, Bool.or_false, Bool.false_or]
        exact decide_eq_true hwide
      simp only [hwide, hwide', decide_true, ↓reduceIte, hftOut, hftMsg, hinvT]
    · have hwide' : ¬ ((tw : Int) > ((2 ^ th : Nat) : Int)) := by omega
      have e32 : (tw : Int) * 32 = ((32 * tw : Nat) : Int) := by omega
      have hinvF : hftInvalid { h := th, l := tl, n := tn, w := tw } = false := by
        unfold hftInvalid
        simp only [m1, m2, m3, m4, Bool.or_false, Bool.false_or]
        exact decide_eq_false hwide
      simp only [hwide, hwide', decide_false, Bool.false_eq_true, ↓reduceIte, e32, chk64_natCast (show 32 * tw < 2 ^ 63 by omega),
        mbind_ok]
      by_cases hshort : data.length / 32 < tw
      · have hshort' : (len data < ((32 * tw : Nat) : Int)) := by simp only [len, Int.ofNat_eq_natCast]; omega
        simp only [hshort, hshort', decide_true, ↓reduceIte, hftOut, hftMsg, hinvF, Bool.false_eq_true]
      · have hshort' : ¬ (len data < ((32 * tw : Nat) : Int)) := by simp only [len, Int.ofNat_eq_natCast]; omega
        obtain ⟨lv, k, hs⟩ := TlogStore.split_total x (by omega)
        have hcl := TileAuth.tileForIndex_eq th x lv k (by omega) hs
        have hts := TileAuth.ts_le th lv k (by omega)
        simp only [TileAuth.ts] at hts
        simp only [hshort, hshort', decide_false, Bool.false_eq_true, ↓reduceIte,
          tileForIndex_eq fuel th x hx (by omega) (Or.inl (by omega)) hf, hcl, tfiOut, toGen, bind, Except.bind]
        generalize hS : k % 2 ^ (th - lv % th) * 2 ^ (lv % th) = S at hts
        have hE : (k % 2 ^ (th - lv % th) + 1) * 2 ^ (lv % th) = S + 2 ^ (lv % th) := by
          rw [Nat.add_mul, Nat.one_mul, hS]
        rw [hE]
        generalize hJ : lv % th = J at hts
        generalize hL1 : lv / th = L1
        generalize hN1 : k / 2 ^ (th - J) = N1
        by_cases hmis : tl ≠ L1 ∨ tn ≠ N1 ∨ tw < S + 2 ^ J
        · have hg2 : ((!decide ((tl : Int) = (L1 : Int)) || !decide ((tn : Int) = (N1 : Int)) ||
              decide ((tw : Int) < ((S + 2 ^ J : Nat) : Int))) = true) := by
            simp only [Bool.or_eq_true, Bool.not_eq_true', decide_eq_false_iff_not, decide_eq_true_eq]
            omega
          have hm2 : (tl != L1 || tn != N1 || decide (tw < S + 2 ^ J)) = true := by
            rcases hmis with h | h | h <;> simp [h]
          simp only [hg2, ↓reduceIte, hm2, hftOut, hftMsg, hinvF, Bool.false_eq_true, hshort]
        · have c1 : tl = L1 := by omega
          have c2 : tn = N1 := by omega
          have c3 : ¬ tw < S + 2 ^ J := by omega
          have hg2 : ((!decide ((tl : Int) = (L1 : Int)) || !decide ((tn : Int) = (N1 : Int)) ||
              decide ((tw : Int) < ((S + 2 ^ J : Nat) : Int))) = false) := by
            simp only [Bool.or_eq_false_iff, Bool.not_eq_false', decide_eq_true_eq, decide_eq_false_iff_not]
            omega
          have hm2 : (tl != L1 || tn != N1 || decide (tw < S + 2 ^ J)) = false := by simp [c1, c2, c3]
          have hpJ := Nat.two_pow_pos J
          have hslice := slice_natCast' (v := data) (a := 32 * S) (b := 32 * (S + 2 ^ J)) (by omega) (by omega)
          have hslen : ((data.take (32 * (S + 2 ^ J))).drop (32 * S)).length = 32 * 2 ^ J := by
            rw [List.length_drop, List.length_take]; omega
          have hJlt : J < fuel := by
            have : J < th := by rw [← hJ]; exact Nat.mod_lt _ (by omega)
            omega
          have hun : unflat ofBytes ((data.take (32 * (S + 2 ^ J))).drop (32 * S)) =
              ((unflat ofBytes data).take (S + 2 ^ J)).drop S := by
            rw [unflat_drop, unflat_take _ _ _ (by omega)]
          have hth := tileHash_eq node ofBytes J fuel _ hslen hJlt
          rw [hun] at hth
          have hlen2 : (((unflat ofBytes data).take (S + 2 ^ J)).drop S).length = 2 ^ J := by
            rw [List.length_drop, List.length_take, unflat_length]; omega
          obtain ⟨r, hr⟩ := TileAuth.ptree_isSome node J _ hlen2
          have hmod := TileAuth.tileHash_ptree node J _ r hlen2 hr
          rw [hmod] at hth
          simp only [hg2, Bool.false_eq_true, ↓reduceIte, hm2, hslice, hth, hmod, errOut, hftOut]

end
end ModVerif.TieFnTile
