/-
  Shared vocabulary of the tie proofs of the regenerated go.mod PARSER (Generated/FnParse.lean), whose syntax tree is a
  HEAP of objects (`Parse.Heap`: `cbs`, `files`, `lines`, `blocks`; a pointer is the 1-based position, 0 = nil).

  * embeddings of the hand model's values into the generated structures (`posG`, `comG`, `comsG`, `tokG`, `cbG`, `lineG`,
    `lparenG`, `rparenG`, `blockG`, `fileG`) and the read-back direction (`posOf`, `comOf`, `comsOf`: the functions of the
    driver Drv/GenParse.lean) with the round trips;
  * the reification of a heap graph as a model tree, both as the driver's `Option`-valued functions (`lineOf`, `exprOf`,
    `fileOf`: same text as Drv.GenParse) and as RELATIONS in the embedding direction (`RLine`, `RLines`, `RExpr`,
    `RStmts`, `RFile`): the object at the pointer IS the embedding of the model node (so every position in it is a
    natural number), a line's pointer is its `id + 1`;  `RFile h p f → fileOf h p = some f`;
  * `WF h p`: everything reachable from the file at `p` is allocated, statements are comment blocks / lines / blocks,
    and no two places of the graph hold the same pointer (no aliasing);
  * frame lemmas: `heapGet` after `heapSet` / `heapAlloc`, `Expr_getComments` after `Expr_setComments`, and the
    reification relations under allocation, under a change of another list, under `heapSet` at another pointer.

  Owner: parse-comments.  Other agents import this file and do not edit it.
-/
import ModVerif.Generated.FnParse
import ModVerif.Model.Modfile.Comments
import ModVerif.Drv.LexOps
import ModVerif.Proofs.GoRtLemmas
set_option linter.unusedSimpArgs false
set_option linter.unusedVariables false
namespace ModVerif.Tie.FnParseHeap
open ModVerif ModVerif.GoRt ModVerif.Generated
open ModVerif.Drv.LexOps.M (kindCode)

/-! ### embeddings (model → generated) and read-back (generated → model) -/

def posG (p : Modfile.Position) : Parse.Position :=
  { Line := (p.line : Int), LineRune := (p.lineRune : Int), Byte := (p.byte : Int) }

def posOf (p : Parse.Position) : Modfile.Position :=
  { line := p.Line.toNat, lineRune := p.LineRune.toNat, byte := p.Byte.toNat }

def comG (c : Modfile.Comment) : Parse.Comment := { Start := posG c.start, Token := c.token, Suffix := c.suffix }
def comOf (c : Parse.Comment) : Modfile.Comment := { start := posOf c.Start, token := c.Token, suffix := c.Suffix }

def comsG (c : Modfile.Comments) : Parse.Comments :=
  { Before := c.before.map comG, Suffix := c.suffix.map comG, After := c.after.map comG }
def comsOf (c : Parse.Comments) : Modfile.Comments :=
  { before := c.Before.map comOf, suffix := c.Suffix.map comOf, after := c.After.map comOf }

def tokG (t : Modfile.Token) : Parse.token :=
  { kind := kindCode t.kind, pos := posG t.pos, endPos := posG t.endPos, text := t.text }

/-- all three components are natural numbers -/
def PosNN (p : Parse.Position) : Prop := 0 ≤ p.Line ∧ 0 ≤ p.LineRune ∧ 0 ≤ p.Byte

@[simp] theorem posOf_posG (p : Modfile.Position) : posOf (posG p) = p := by
  cases p; simp [posOf, posG]

theorem posG_posOf {p : Parse.Position} (h : PosNN p) : posG (posOf p) = p := by
  obtain ⟨a, b, c⟩ := p
  obtain ⟨h1, h2, h3⟩ := h
  simp only [posOf, posG] at *
  congr <;> omega

theorem posNN_posG (p : Modfile.Position) : PosNN (posG p) := by
  simp [PosNN, posG]

theorem posG_inj {p q : Modfile.Position} (h : posG p = posG q) : p = q := by
  have := congrArg posOf h
  simpa using this

@[simp] theorem posG_zero : posG {} = (default : Parse.Position) := rfl
@[simp] theorem posG_Line (p : Modfile.Position) : (posG p).Line = (p.line : Int) := rfl
@[simp] theorem posG_LineRune (p : Modfile.Position) : (posG p).LineRune = (p.lineRune : Int) := rfl
@[simp] theorem posG_Byte (p : Modfile.Position) : (posG p).Byte = (p.byte : Int) := rfl

@[simp] theorem comOf_comG (c : Modfile.Comment) : comOf (comG c) = c := by
  cases c; simp [comOf, comG]

@[simp] theorem comG_zero : comG {} = (default : Parse.Comment) := rfl
@[simp] theorem comG_Start (c : Modfile.Comment) : (comG c).Start = posG c.start := rfl
@[simp] theorem comG_Token (c : Modfile.Comment) : (comG c).Token = c.token := rfl
@[simp] theorem comG_Suffix (c : Modfile.Comment) : (comG c).Suffix = c.suffix := rfl

theorem comG_inj {c d : Modfile.Comment} (h : comG c = comG d) : c = d := by
  have := congrArg comOf h
  simpa using this

@[simp] theorem map_comOf_comG (l : List Modfile.Comment) : (l.map comG).map comOf = l := by
  induction l with
  | nil => rfl
  | cons a t ih => simp [ih]

@[simp] theorem comsOf_comsG (c : Modfile.Comments) : comsOf (comsG c) = c := by
  cases c; simp only [comsOf, comsG, map_comOf_comG]

@[simp] theorem comsG_zero : comsG {} = (default : Parse.Comments) := rfl
@[simp] theorem comsG_Before (c : Modfile.Comments) : (comsG c).Before = c.before.map comG := rfl
@[simp] theorem comsG_Suffix (c : Modfile.Comments) : (comsG c).Suffix = c.suffix.map comG := rfl
@[simp] theorem comsG_After (c : Modfile.Comments) : (comsG c).After = c.after.map comG := rfl

theorem comsG_inj {c d : Modfile.Comments} (h : comsG c = comsG d) : c = d := by
  have := congrArg comsOf h
  simpa using this

/-! ### the heap objects of model nodes -/

def cbG (c : Modfile.CommentBlock) : Parse.CommentBlock := { Comments := comsG c.comments, Start := posG c.start }

def lineG (l : Modfile.Line) : Parse.Line :=
  { Comments := comsG l.comments, Start := posG l.start, Token := l.token, InBlock := l.inBlock, End := posG l.«end» }

def lparenG (x : Modfile.LParen) : Parse.LParen := { Comments := comsG x.comments, Pos := posG x.pos }
def rparenG (x : Modfile.RParen) : Parse.RParen := { Comments := comsG x.comments, Pos := posG x.pos }

/-- the block object: its lines are the pointers `ps` -/
def blockG (b : Modfile.LineBlock) (ps : List Int) : Parse.LineBlock :=
  { Comments := comsG b.comments, Start := posG b.start, LParen := lparenG b.lparen, Token := b.token, Line := ps,
    RParen := rparenG b.rparen }

/-- the file object: its statements are the pointers `es` -/
def fileG (f : Modfile.FileSyntax) (es : List Parse.Expr) : Parse.FileSyntax :=
  { Name := f.name, Comments := comsG f.comments, Stmt := es }

/-! ### reification, `Option`-valued (the text of Drv/GenParse.lean) -/

def lineOf (h : Parse.Heap) (p : Int) : Option Modfile.Line :=
  match heapGet h.lines p with
  | .ok l => some { id := p.toNat - 1, comments := comsOf l.Comments, start := posOf l.Start, token := l.Token,
                    inBlock := l.InBlock, «end» := posOf l.End }
  | .error _ => none

def exprOf (h : Parse.Heap) : Parse.Expr → Option Modfile.Expr
  | .CommentBlock p => match heapGet h.cbs p with
    | .ok c => some (.commentBlock { comments := comsOf c.Comments, start := posOf c.Start })
    | .error _ => none
  | .Line p => (lineOf h p).map .line
  | .LineBlock p => match heapGet h.blocks p with
    | .ok b => do
      let ls ← b.Line.mapM (lineOf h)
      pure (.lineBlock { comments := comsOf b.Comments, start := posOf b.Start,
                         lparen := { comments := comsOf b.LParen.Comments, pos := posOf b.LParen.Pos },
                         token := b.Token, lines := ls,
                         rparen := { comments := comsOf b.RParen.Comments, pos := posOf b.RParen.Pos } })
    | .error _ => none
  | _ => none

def fileOf (h : Parse.Heap) (p : Int) : Option Modfile.FileSyntax :=
  match heapGet h.files p with
  | .ok f => do
    let ss ← f.Stmt.mapM (exprOf h)
    pure { name := f.Name, comments := comsOf f.Comments, stmts := ss }
  | .error _ => none

/-! ### reification as relations (embedding direction) -/

/-- the line object at `p` is the embedding of `l`, and `l.id` is the creation index of the object -/
def RLine (h : Parse.Heap) (p : Int) (l : Modfile.Line) : Prop :=
  heapGet h.lines p = .ok (lineG l) ∧ p = ((l.id + 1 : Nat) : Int)

def RLines (h : Parse.Heap) : List Int → List Modfile.Line → Prop
  | [], [] => True
  | p :: ps, l :: ls => RLine h p l ∧ RLines h ps ls
  | _, _ => False

/-- the statement `e` of the heap is the model statement `s` -/
def RExpr (h : Parse.Heap) : Parse.Expr → Modfile.Expr → Prop
  | .CommentBlock p, .commentBlock c => heapGet h.cbs p = .ok (cbG c)
  | .Line p, .line l => RLine h p l
  | .LineBlock p, .lineBlock b => ∃ ps, heapGet h.blocks p = .ok (blockG b ps) ∧ RLines h ps b.lines
  | _, _ => False

def RStmts (h : Parse.Heap) : List Parse.Expr → List Modfile.Expr → Prop
  | [], [] => True
  | e :: es, s :: ss => RExpr h e s ∧ RStmts h es ss
  | _, _ => False

/-- the graph at the file pointer `p` is the model tree `f` -/
def RFile (h : Parse.Heap) (p : Int) (f : Modfile.FileSyntax) : Prop :=
  ∃ es, heapGet h.files p = .ok (fileG f es) ∧ RStmts h es f.stmts

/-! ### pointers of a graph, well-formedness -/

/-- the line pointers of a block object (`[]` if the block is not allocated) -/
def blockLines (h : Parse.Heap) (p : Int) : List Int :=
  match heapGet h.blocks p with
  | .ok b => b.Line
  | .error _ => []

/-- all line pointers below a statement list, in source order -/
def linePtrs (h : Parse.Heap) : List Parse.Expr → List Int
  | [] => []
  | .Line p :: es => p :: linePtrs h es
  | .LineBlock p :: es => blockLines h p ++ linePtrs h es
  | _ :: es => linePtrs h es

def blockPtrs : List Parse.Expr → List Int
  | [] => []
  | .LineBlock p :: es => p :: blockPtrs es
  | _ :: es => blockPtrs es

def cbPtrs : List Parse.Expr → List Int
  | [] => []
  | .CommentBlock p :: es => p :: cbPtrs es
  | _ :: es => cbPtrs es

/-- a statement: a comment block, a line or a block, allocated with everything below it -/
def StmtOK (h : Parse.Heap) : Parse.Expr → Prop
  | .CommentBlock p => ∃ c, heapGet h.cbs p = .ok c
  | .Line p => ∃ l, heapGet h.lines p = .ok l
  | .LineBlock p => ∃ b, heapGet h.blocks p = .ok b ∧ ∀ q ∈ b.Line, ∃ l, heapGet h.lines q = .ok l
  | _ => False

/-- the graph at the file pointer `p` is well-formed: allocated, statements of the three statement types, no pointer
    held twice -/
structure WF (h : Parse.Heap) (p : Int) : Prop where
  file : ∃ f, heapGet h.files p = .ok f ∧ (∀ e ∈ f.Stmt, StmtOK h e) ∧
    (linePtrs h f.Stmt).Nodup ∧ (blockPtrs f.Stmt).Nodup ∧ (cbPtrs f.Stmt).Nodup

/-! ### heapGet / heapSet / heapAlloc -/

theorem heapGet_ok_iff {α : Type} {l : List α} {p : Int} {v : α} :
    heapGet l p = .ok v ↔ 0 < p ∧ l[p.toNat - 1]? = some v := by
  unfold heapGet
  by_cases hp : p ≤ 0
  · simp [hp]; intro h; omega
  · simp only [hp, if_false]
    cases hv : l[p.toNat - 1]? with
    | none => simp
    | some w =>
      simp only [pure, Except.pure, Except.ok.injEq, Option.some.injEq]
      constructor
      · intro h; exact ⟨by omega, h⟩
      · intro h; exact h.2

theorem heapGet_pos {α : Type} {l : List α} {p : Int} {v : α} (h : heapGet l p = .ok v) : 0 < p :=
  (heapGet_ok_iff.1 h).1

theorem heapGet_le_length {α : Type} {l : List α} {p : Int} {v : α} (h : heapGet l p = .ok v) :
    p.toNat ≤ l.length := by
  obtain ⟨hp, hv⟩ := heapGet_ok_iff.1 h
  have := (List.getElem?_eq_some_iff.1 hv).1
  omega

theorem heapGet_error {α : Type} {l : List α} {p : Int} {e : Err} (h : heapGet l p = .error e) : e = .panic := by
  unfold heapGet at h
  split at h
  · cases h; rfl
  · split at h
    · cases h
    · cases h; rfl

/-- a natural-number view: the `k`-th object (from 0) is at the pointer `k + 1` -/
theorem heapGet_natCast {α : Type} (l : List α) (k : Nat) :
    heapGet l ((k + 1 : Nat) : Int) = (match l[k]? with | some v => .ok v | none => .error .panic) := by
  unfold heapGet
  have h1 : ¬ (((k + 1 : Nat) : Int) ≤ 0) := by omega
  have h2 : ((k + 1 : Nat) : Int).toNat - 1 = k := by omega
  simp only [h1, if_false, h2]
  cases l[k]? <;> rfl

@[simp] theorem heapAlloc_fst {α : Type} (l : List α) (v : α) : (heapAlloc l v).1 = ((l.length + 1 : Nat) : Int) := rfl
@[simp] theorem heapAlloc_snd {α : Type} (l : List α) (v : α) : (heapAlloc l v).2 = l ++ [v] := rfl

/-- the fresh object -/
theorem heapGet_alloc_new {α : Type} (l : List α) (v : α) :
    heapGet (l ++ [v]) ((l.length + 1 : Nat) : Int) = .ok v := by
  rw [heapGet_natCast]; simp

/-- allocation does not move the old objects -/
theorem heapGet_alloc_old {α : Type} {l : List α} {p : Int} {w : α} (v : α) (h : heapGet l p = .ok w) :
    heapGet (l ++ [v]) p = .ok w := by
  obtain ⟨hp, hv⟩ := heapGet_ok_iff.1 h
  refine heapGet_ok_iff.2 ⟨hp, ?_⟩
  have := (List.getElem?_eq_some_iff.1 hv).1
  rw [List.getElem?_append_left this]; exact hv

theorem heapGet_append_old {α : Type} {l : List α} {p : Int} {w : α} (t : List α) (h : heapGet l p = .ok w) :
    heapGet (l ++ t) p = .ok w := by
  obtain ⟨hp, hv⟩ := heapGet_ok_iff.1 h
  refine heapGet_ok_iff.2 ⟨hp, ?_⟩
  have := (List.getElem?_eq_some_iff.1 hv).1
  rw [List.getElem?_append_left this]; exact hv

theorem heapGet_alloc_of_le {α : Type} (l : List α) (v : α) {p : Int} (h : p.toNat ≤ l.length) :
    heapGet (l ++ [v]) p = heapGet l p := by
  unfold heapGet
  by_cases hp : p ≤ 0
  · simp [hp]
  · simp only [hp, if_false]
    rw [List.getElem?_append_left (by omega)]

/-- `heapSet` succeeds exactly on allocated pointers -/
theorem heapSet_of_get {α : Type} {l : List α} {p : Int} {w : α} (v : α) (h : heapGet l p = .ok w) :
    heapSet l p v = .ok (l.set (p.toNat - 1) v) := by
  have hp := heapGet_pos h
  have hl := heapGet_le_length h
  unfold heapSet
  have : ¬ (p ≤ 0 ∨ l.length < p.toNat) := by omega
  simp only [this, if_false]; rfl

theorem heapSet_ok_iff {α : Type} {l l' : List α} {p : Int} {v : α} :
    heapSet l p v = .ok l' ↔ 0 < p ∧ p.toNat ≤ l.length ∧ l' = l.set (p.toNat - 1) v := by
  unfold heapSet
  by_cases hc : p ≤ 0 ∨ l.length < p.toNat
  · simp only [hc, if_true]
    constructor
    · intro h; exact nomatch h
    · intro h; omega
  · simp only [hc, if_false, pure, Except.pure, Except.ok.injEq]
    constructor
    · intro h; exact ⟨by omega, by omega, h.symm⟩
    · intro h; exact h.2.2.symm

theorem heapSet_length {α : Type} {l l' : List α} {p : Int} {v : α} (h : heapSet l p v = .ok l') :
    l'.length = l.length := by
  obtain ⟨_, _, rfl⟩ := heapSet_ok_iff.1 h
  simp

theorem heapGet_set_same {α : Type} {l l' : List α} {p : Int} {v : α} (h : heapSet l p v = .ok l') :
    heapGet l' p = .ok v := by
  obtain ⟨hp, hl, rfl⟩ := heapSet_ok_iff.1 h
  refine heapGet_ok_iff.2 ⟨hp, ?_⟩
  rw [List.getElem?_set_self (by omega)]

theorem heapGet_set_other {α : Type} {l l' : List α} {p q : Int} {v : α} (h : heapSet l p v = .ok l')
    (hq : q ≠ p) : heapGet l' q = heapGet l q := by
  obtain ⟨hp, hl, rfl⟩ := heapSet_ok_iff.1 h
  unfold heapGet
  by_cases hq0 : q ≤ 0
  · simp [hq0]
  · simp only [hq0, if_false]
    rw [List.getElem?_set_ne (by omega)]

/-- every allocated pointer stays allocated under `heapSet` (the object at `p` is replaced) -/
theorem heapGet_set_ok {α : Type} {l l' : List α} {p q : Int} {v w : α} (h : heapSet l p v = .ok l')
    (hq : heapGet l q = .ok w) : ∃ w', heapGet l' q = .ok w' := by
  by_cases e : q = p
  · subst e; exact ⟨v, heapGet_set_same h⟩
  · exact ⟨w, by rw [heapGet_set_other h e]; exact hq⟩


theorem heapGet_listSet_same {α : Type} {l : List α} {p : Int} {w : α} (v : α) (h : heapGet l p = .ok w) :
    heapGet (l.set (p.toNat - 1) v) p = .ok v :=
  heapGet_set_same (heapSet_of_get v h)

theorem heapGet_listSet_other {α : Type} {l : List α} {p q : Int} {w : α} (v : α) (h : heapGet l p = .ok w)
    (hq : q ≠ p) : heapGet (l.set (p.toNat - 1) v) q = heapGet l q :=
  heapGet_set_other (heapSet_of_get v h) hq

/-- allocate, then overwrite the fresh object: still an extension of the old list by one object -/
theorem set_alloc_last {α : Type} (l : List α) (v v' : α) : (l ++ [v]).set l.length v' = l ++ [v'] := by
  induction l with
  | nil => rfl
  | cons a t ih => simp [ih]

/-! ### `Expr_getComments` / `Expr_setComments` -/

section comments
open Parse

theorem getComments_CommentBlock {h : Heap} {p : Int} {t : CommentBlock} (hg : heapGet h.cbs p = .ok t) :
    Expr_getComments (.CommentBlock p) h = .ok t.Comments := by simp [Expr_getComments, hg]
theorem getComments_Line {h : Heap} {p : Int} {t : Line} (hg : heapGet h.lines p = .ok t) :
    Expr_getComments (.Line p) h = .ok t.Comments := by simp [Expr_getComments, hg]
theorem getComments_LineBlock {h : Heap} {p : Int} {t : LineBlock} (hg : heapGet h.blocks p = .ok t) :
    Expr_getComments (.LineBlock p) h = .ok t.Comments := by simp [Expr_getComments, hg]
theorem getComments_LParen {h : Heap} {p : Int} {t : LineBlock} (hg : heapGet h.blocks p = .ok t) :
    Expr_getComments (.LParen p) h = .ok t.LParen.Comments := by simp [Expr_getComments, hg]
theorem getComments_RParen {h : Heap} {p : Int} {t : LineBlock} (hg : heapGet h.blocks p = .ok t) :
    Expr_getComments (.RParen p) h = .ok t.RParen.Comments := by simp [Expr_getComments, hg]
theorem getComments_FileSyntax {h : Heap} {p : Int} {t : FileSyntax} (hg : heapGet h.files p = .ok t) :
    Expr_getComments (.FileSyntax p) h = .ok t.Comments := by simp [Expr_getComments, hg]

theorem setComments_CommentBlock {h : Heap} {p : Int} {t : CommentBlock} (hg : heapGet h.cbs p = .ok t) (c : Comments) :
    Expr_setComments (.CommentBlock p) c h = .ok { h with cbs := h.cbs.set (p.toNat - 1) { t with Comments := c } } := by
  simp [Expr_setComments, hg, heapSet_of_get _ hg]
theorem setComments_Line {h : Heap} {p : Int} {t : Line} (hg : heapGet h.lines p = .ok t) (c : Comments) :
    Expr_setComments (.Line p) c h = .ok { h with lines := h.lines.set (p.toNat - 1) { t with Comments := c } } := by
  simp [Expr_setComments, hg, heapSet_of_get _ hg]
theorem setComments_LineBlock {h : Heap} {p : Int} {t : LineBlock} (hg : heapGet h.blocks p = .ok t) (c : Comments) :
    Expr_setComments (.LineBlock p) c h = .ok { h with blocks := h.blocks.set (p.toNat - 1) { t with Comments := c } } := by
  simp [Expr_setComments, hg, heapSet_of_get _ hg]
theorem setComments_LParen {h : Heap} {p : Int} {t : LineBlock} (hg : heapGet h.blocks p = .ok t) (c : Comments) :
    Expr_setComments (.LParen p) c h =
      .ok { h with blocks := h.blocks.set (p.toNat - 1) { t with LParen := { t.LParen with Comments := c } } } := by
  simp [Expr_setComments, hg, heapSet_of_get _ hg]
theorem setComments_RParen {h : Heap} {p : Int} {t : LineBlock} (hg : heapGet h.blocks p = .ok t) (c : Comments) :
    Expr_setComments (.RParen p) c h =
      .ok { h with blocks := h.blocks.set (p.toNat - 1) { t with RParen := { t.RParen with Comments := c } } } := by
  simp [Expr_setComments, hg, heapSet_of_get _ hg]
theorem setComments_FileSyntax {h : Heap} {p : Int} {t : FileSyntax} (hg : heapGet h.files p = .ok t) (c : Comments) :
    Expr_setComments (.FileSyntax p) c h = .ok { h with files := h.files.set (p.toNat - 1) { t with Comments := c } } := by
  simp [Expr_setComments, hg, heapSet_of_get _ hg]

/-- `Expr_setComments` succeeds exactly where `Expr_getComments` does -/
theorem setComments_ok_of_get {e : Expr} {h : Heap} {c0 : Comments} (hg : Expr_getComments e h = .ok c0) (c : Comments) :
    ∃ h', Expr_setComments e c h = .ok h' := by
  cases e with
  | CommentBlock p =>
    cases hh : heapGet h.cbs p with
    | ok t => exact ⟨_, setComments_CommentBlock hh c⟩
    | error e => simp [Expr_getComments, hh] at hg
  | LParen p =>
    cases hh : heapGet h.blocks p with
    | ok t => exact ⟨_, setComments_LParen hh c⟩
    | error e => simp [Expr_getComments, hh] at hg
  | RParen p =>
    cases hh : heapGet h.blocks p with
    | ok t => exact ⟨_, setComments_RParen hh c⟩
    | error e => simp [Expr_getComments, hh] at hg
  | Line p =>
    cases hh : heapGet h.lines p with
    | ok t => exact ⟨_, setComments_Line hh c⟩
    | error e => simp [Expr_getComments, hh] at hg
  | LineBlock p =>
    cases hh : heapGet h.blocks p with
    | ok t => exact ⟨_, setComments_LineBlock hh c⟩
    | error e => simp [Expr_getComments, hh] at hg
  | FileSyntax p =>
    cases hh : heapGet h.files p with
    | ok t => exact ⟨_, setComments_FileSyntax hh c⟩
    | error e => simp [Expr_getComments, hh] at hg
  | nil => simp [Expr_getComments] at hg

theorem getComments_ok_of_set {e : Expr} {h h' : Heap} {c : Comments} (hs : Expr_setComments e c h = .ok h') :
    ∃ c0, Expr_getComments e h = .ok c0 := by
  cases e with
  | CommentBlock p =>
    cases hh : heapGet h.cbs p with
    | ok t => exact ⟨_, getComments_CommentBlock hh⟩
    | error e => simp [Expr_setComments, hh] at hs
  | LParen p =>
    cases hh : heapGet h.blocks p with
    | ok t => exact ⟨_, getComments_LParen hh⟩
    | error e => simp [Expr_setComments, hh] at hs
  | RParen p =>
    cases hh : heapGet h.blocks p with
    | ok t => exact ⟨_, getComments_RParen hh⟩
    | error e => simp [Expr_setComments, hh] at hs
  | Line p =>
    cases hh : heapGet h.lines p with
    | ok t => exact ⟨_, getComments_Line hh⟩
    | error e => simp [Expr_setComments, hh] at hs
  | LineBlock p =>
    cases hh : heapGet h.blocks p with
    | ok t => exact ⟨_, getComments_LineBlock hh⟩
    | error e => simp [Expr_setComments, hh] at hs
  | FileSyntax p =>
    cases hh : heapGet h.files p with
    | ok t => exact ⟨_, getComments_FileSyntax hh⟩
    | error e => simp [Expr_setComments, hh] at hs
  | nil => simp [Expr_setComments] at hs


/-- what `Expr_setComments` does to the four lists: three are untouched, one has ONE object replaced, by an object that
    differs from the old one in (one of) its `Comments` only -/
theorem setComments_shape {e : Expr} {h h' : Heap} {c : Comments} (hs : Expr_setComments e c h = .ok h') :
    (match e with
     | .CommentBlock p => ∃ t, heapGet h.cbs p = .ok t ∧
         h' = { h with cbs := h.cbs.set (p.toNat - 1) { t with Comments := c } }
     | .LParen p => ∃ t, heapGet h.blocks p = .ok t ∧
         h' = { h with blocks := h.blocks.set (p.toNat - 1) { t with LParen := { t.LParen with Comments := c } } }
     | .RParen p => ∃ t, heapGet h.blocks p = .ok t ∧
         h' = { h with blocks := h.blocks.set (p.toNat - 1) { t with RParen := { t.RParen with Comments := c } } }
     | .Line p => ∃ t, heapGet h.lines p = .ok t ∧
         h' = { h with lines := h.lines.set (p.toNat - 1) { t with Comments := c } }
     | .LineBlock p => ∃ t, heapGet h.blocks p = .ok t ∧
         h' = { h with blocks := h.blocks.set (p.toNat - 1) { t with Comments := c } }
     | .FileSyntax p => ∃ t, heapGet h.files p = .ok t ∧
         h' = { h with files := h.files.set (p.toNat - 1) { t with Comments := c } }
     | .nil => False) := by
  cases e with
  | CommentBlock p =>
    cases hh : heapGet h.cbs p with
    | ok t => rw [setComments_CommentBlock hh c] at hs; cases hs; exact ⟨t, hh, rfl⟩
    | error e => simp [Expr_setComments, hh] at hs
  | LParen p =>
    cases hh : heapGet h.blocks p with
    | ok t => rw [setComments_LParen hh c] at hs; cases hs; exact ⟨t, hh, rfl⟩
    | error e => simp [Expr_setComments, hh] at hs
  | RParen p =>
    cases hh : heapGet h.blocks p with
    | ok t => rw [setComments_RParen hh c] at hs; cases hs; exact ⟨t, hh, rfl⟩
    | error e => simp [Expr_setComments, hh] at hs
  | Line p =>
    cases hh : heapGet h.lines p with
    | ok t => rw [setComments_Line hh c] at hs; cases hs; exact ⟨t, hh, rfl⟩
    | error e => simp [Expr_setComments, hh] at hs
  | LineBlock p =>
    cases hh : heapGet h.blocks p with
    | ok t => rw [setComments_LineBlock hh c] at hs; cases hs; exact ⟨t, hh, rfl⟩
    | error e => simp [Expr_setComments, hh] at hs
  | FileSyntax p =>
    cases hh : heapGet h.files p with
    | ok t => rw [setComments_FileSyntax hh c] at hs; cases hs; exact ⟨t, hh, rfl⟩
    | error e => simp [Expr_setComments, hh] at hs
  | nil => simp [Expr_setComments] at hs


theorem getComments_setComments_same {e : Expr} {h h' : Heap} {c : Comments} (hs : Expr_setComments e c h = .ok h') :
    Expr_getComments e h' = .ok c := by
  have := setComments_shape hs
  cases e <;> simp only at this
  all_goals (first | (obtain ⟨t, ht, rfl⟩ := this; simp [Expr_getComments, heapGet_listSet_same _ ht]) | exact this.elim)

/-- the comments of every OTHER node are untouched (`(`, `)` and the block itself are three nodes in one object) -/
theorem getComments_setComments_other {e e' : Expr} {h h' : Heap} {c : Comments} (hs : Expr_setComments e c h = .ok h')
    (hne : e' ≠ e) : Expr_getComments e' h' = Expr_getComments e' h := by
  have := setComments_shape hs
  cases e <;> simp only at this
  all_goals (first | (obtain ⟨t, ht, rfl⟩ := this) | exact this.elim)
  all_goals cases e' <;> simp only [Expr_getComments]
  all_goals (first | rfl | skip)
  all_goals (rename_i p q)
  all_goals (by_cases hpq : q = p)
  all_goals (first | (subst hpq; first | exact absurd rfl hne | simp [heapGet_listSet_same _ ht, ht]) |
                     (rw [heapGet_listSet_other _ ht hpq]))

end comments


/-! ### the reification relations: unfolding, bounds -/

section rel
open Parse

@[simp] theorem RLines_nil (h : Heap) : RLines h [] [] = True := rfl
@[simp] theorem RLines_cons (h : Heap) (p : Int) (ps : List Int) (l : Modfile.Line) (ls : List Modfile.Line) :
    RLines h (p :: ps) (l :: ls) = (RLine h p l ∧ RLines h ps ls) := rfl
@[simp] theorem RLines_nil_cons (h : Heap) (l : Modfile.Line) (ls : List Modfile.Line) : RLines h [] (l :: ls) = False := rfl
@[simp] theorem RLines_cons_nil (h : Heap) (p : Int) (ps : List Int) : RLines h (p :: ps) [] = False := rfl

@[simp] theorem RStmts_nil (h : Heap) : RStmts h [] [] = True := rfl
@[simp] theorem RStmts_cons (h : Heap) (e : Expr) (es : List Expr) (s : Modfile.Expr) (ss : List Modfile.Expr) :
    RStmts h (e :: es) (s :: ss) = (RExpr h e s ∧ RStmts h es ss) := rfl
@[simp] theorem RStmts_nil_cons (h : Heap) (s : Modfile.Expr) (ss : List Modfile.Expr) : RStmts h [] (s :: ss) = False := rfl
@[simp] theorem RStmts_cons_nil (h : Heap) (e : Expr) (es : List Expr) : RStmts h (e :: es) [] = False := rfl

theorem RLines_length {h : Heap} : ∀ {ps : List Int} {ls : List Modfile.Line}, RLines h ps ls → ps.length = ls.length
  | [], [], _ => rfl
  | _ :: ps, _ :: ls, hr => by simp only [RLines_cons] at hr; simp [RLines_length hr.2]
  | [], _ :: _, hr => by simp at hr
  | _ :: _, [], hr => by simp at hr

theorem RStmts_length {h : Heap} : ∀ {es : List Expr} {ss : List Modfile.Expr}, RStmts h es ss → es.length = ss.length
  | [], [], _ => rfl
  | _ :: es, _ :: ss, hr => by simp only [RStmts_cons] at hr; simp [RStmts_length hr.2]
  | [], _ :: _, hr => by simp at hr
  | _ :: _, [], hr => by simp at hr

theorem RLines_append {h : Heap} : ∀ {ps qs : List Int} {ls ms : List Modfile.Line},
    RLines h ps ls → RLines h qs ms → RLines h (ps ++ qs) (ls ++ ms)
  | [], _, [], _, _, h2 => h2
  | _ :: ps, _, _ :: ls, _, h1, h2 => by
    simp only [RLines_cons, List.cons_append] at h1 ⊢; exact ⟨h1.1, RLines_append h1.2 h2⟩
  | [], _, _ :: _, _, h1, _ => by simp at h1
  | _ :: _, _, [], _, h1, _ => by simp at h1

theorem RStmts_append {h : Heap} : ∀ {es fs : List Expr} {ss ts : List Modfile.Expr},
    RStmts h es ss → RStmts h fs ts → RStmts h (es ++ fs) (ss ++ ts)
  | [], _, [], _, _, h2 => h2
  | _ :: es, _, _ :: ss, _, h1, h2 => by
    simp only [RStmts_cons, List.cons_append] at h1 ⊢; exact ⟨h1.1, RStmts_append h1.2 h2⟩
  | [], _, _ :: _, _, h1, _ => by simp at h1
  | _ :: _, _, [], _, h1, _ => by simp at h1

/-- the relations depend on the three lists of statement objects only -/
theorem RLine_congr {h h' : Heap} (hl : h'.lines = h.lines) {p : Int} {l : Modfile.Line} :
    RLine h' p l ↔ RLine h p l := by simp [RLine, hl]

theorem RLines_congr {h h' : Heap} (hl : h'.lines = h.lines) : ∀ {ps : List Int} {ls : List Modfile.Line},
    RLines h' ps ls ↔ RLines h ps ls
  | [], [] => by simp
  | _ :: ps, _ :: ls => by simp only [RLines_cons, RLine_congr hl, RLines_congr hl (ps := ps)]
  | [], _ :: _ => by simp
  | _ :: _, [] => by simp

theorem RExpr_congr {h h' : Heap} (hc : h'.cbs = h.cbs) (hl : h'.lines = h.lines) (hb : h'.blocks = h.blocks)
    {e : Expr} {s : Modfile.Expr} : RExpr h' e s ↔ RExpr h e s := by
  cases e <;> cases s <;> simp only [RExpr, hc, hb, RLine_congr hl, RLines_congr hl]

theorem RStmts_congr {h h' : Heap} (hc : h'.cbs = h.cbs) (hl : h'.lines = h.lines) (hb : h'.blocks = h.blocks) :
    ∀ {es : List Expr} {ss : List Modfile.Expr}, RStmts h' es ss ↔ RStmts h es ss
  | [], [] => by simp
  | _ :: es, _ :: ss => by simp only [RStmts_cons, RExpr_congr hc hl hb, RStmts_congr hc hl hb (es := es)]
  | [], _ :: _ => by simp
  | _ :: _, [] => by simp

/-- in particular they do not look at the file objects -/
@[simp] theorem RExpr_files (h : Heap) (fl : List FileSyntax) (e : Expr) (s : Modfile.Expr) :
    RExpr { h with files := fl } e s ↔ RExpr h e s :=
  RExpr_congr (h := h) (h' := { h with files := fl }) rfl rfl rfl
@[simp] theorem RStmts_files (h : Heap) (fl : List FileSyntax) (es : List Expr) (ss : List Modfile.Expr) :
    RStmts { h with files := fl } es ss ↔ RStmts h es ss :=
  RStmts_congr (h := h) (h' := { h with files := fl }) rfl rfl rfl

/-! ### heap extension: allocation (and mutation of objects allocated later) keeps every reified node -/

/-- `h'` has the objects of `h` at the same pointers, and possibly more -/
structure Ext (h h' : Heap) : Prop where
  cbs : h.cbs <+: h'.cbs
  lines : h.lines <+: h'.lines
  blocks : h.blocks <+: h'.blocks

theorem Ext.refl (h : Heap) : Ext h h := ⟨List.prefix_refl _, List.prefix_refl _, List.prefix_refl _⟩
theorem Ext.trans {h1 h2 h3 : Heap} (a : Ext h1 h2) (b : Ext h2 h3) : Ext h1 h3 :=
  ⟨a.cbs.trans b.cbs, a.lines.trans b.lines, a.blocks.trans b.blocks⟩

theorem heapGet_prefix {α : Type} {l l' : List α} (hp : l <+: l') {p : Int} {v : α} (h : heapGet l p = .ok v) :
    heapGet l' p = .ok v := by
  obtain ⟨t, rfl⟩ := hp
  exact heapGet_append_old t h

theorem RLine.ext {h h' : Heap} (hx : Ext h h') {p : Int} {l : Modfile.Line} (hr : RLine h p l) : RLine h' p l :=
  ⟨heapGet_prefix hx.lines hr.1, hr.2⟩

theorem RLines.ext {h h' : Heap} (hx : Ext h h') : ∀ {ps : List Int} {ls : List Modfile.Line},
    RLines h ps ls → RLines h' ps ls
  | [], [], _ => trivial
  | _ :: ps, _ :: ls, hr => by simp only [RLines_cons] at hr ⊢; exact ⟨hr.1.ext hx, RLines.ext hx hr.2⟩
  | [], _ :: _, hr => by simp at hr
  | _ :: _, [], hr => by simp at hr

theorem RExpr.ext {h h' : Heap} (hx : Ext h h') {e : Expr} {s : Modfile.Expr} (hr : RExpr h e s) : RExpr h' e s := by
  cases e <;> cases s <;> simp only [RExpr] at hr ⊢
  · exact heapGet_prefix hx.cbs hr
  · exact hr.ext hx
  · obtain ⟨ps, hb, hl⟩ := hr
    exact ⟨ps, heapGet_prefix hx.blocks hb, hl.ext hx⟩

theorem RStmts.ext {h h' : Heap} (hx : Ext h h') : ∀ {es : List Expr} {ss : List Modfile.Expr},
    RStmts h es ss → RStmts h' es ss
  | [], [], _ => trivial
  | _ :: es, _ :: ss, hr => by simp only [RStmts_cons] at hr ⊢; exact ⟨hr.1.ext hx, RStmts.ext hx hr.2⟩
  | [], _ :: _, hr => by simp at hr
  | _ :: _, [], hr => by simp at hr

/-- allocation of a line / block / comment block / file -/
theorem Ext.allocLine (h : Heap) (v : Line) : Ext h { h with lines := h.lines ++ [v] } :=
  ⟨List.prefix_refl _, List.prefix_append _ _, List.prefix_refl _⟩
theorem Ext.allocBlock (h : Heap) (v : LineBlock) : Ext h { h with blocks := h.blocks ++ [v] } :=
  ⟨List.prefix_refl _, List.prefix_refl _, List.prefix_append _ _⟩
theorem Ext.allocCb (h : Heap) (v : CommentBlock) : Ext h { h with cbs := h.cbs ++ [v] } :=
  ⟨List.prefix_append _ _, List.prefix_refl _, List.prefix_refl _⟩
theorem Ext.files (h : Heap) (fl : List FileSyntax) : Ext h { h with files := fl } :=
  ⟨List.prefix_refl _, List.prefix_refl _, List.prefix_refl _⟩

/-- overwriting an object beyond the old list: a prefix is kept by `set` at a position ≥ its length -/
theorem prefix_set_of_le {α : Type} {l l' : List α} (hp : l <+: l') {k : Nat} (hk : l.length ≤ k) (v : α) :
    l <+: l'.set k v := by
  obtain ⟨t, rfl⟩ := hp
  rw [List.set_append_right _ _ hk]
  exact List.prefix_append _ _

/-! ### `heapSet` at a pointer that the node does not hold -/

theorem RLine_setLine_other {h : Heap} {q : Int} {v : Line} {l' : List Line} (hs : heapSet h.lines q v = .ok l')
    {p : Int} {l : Modfile.Line} (hq : p ≠ q) : RLine { h with lines := l' } p l ↔ RLine h p l := by
  simp only [RLine, heapGet_set_other hs hq]

theorem RLines_setLine_other {h : Heap} {q : Int} {v : Line} {l' : List Line} (hs : heapSet h.lines q v = .ok l') :
    ∀ {ps : List Int} {ls : List Modfile.Line}, q ∉ ps → (RLines { h with lines := l' } ps ls ↔ RLines h ps ls)
  | [], [], _ => by simp
  | p :: ps, _ :: ls, hq => by
    simp only [List.mem_cons, not_or] at hq
    simp only [RLines_cons, RLine_setLine_other hs (Ne.symm hq.1), RLines_setLine_other hs hq.2]
  | [], _ :: _, _ => by simp
  | _ :: _, [], _ => by simp

/-- the pointers of reified lines are determined by the model lines -/
theorem RLines_ptrs {h : Heap} : ∀ {ps : List Int} {ls : List Modfile.Line}, RLines h ps ls →
    ps = ls.map (fun l => ((l.id + 1 : Nat) : Int))
  | [], [], _ => rfl
  | _ :: ps, _ :: ls, hr => by
    simp only [RLines_cons] at hr
    simp only [List.map_cons, ← RLines_ptrs hr.2, ← hr.1.2]
  | [], _ :: _, hr => by simp at hr
  | _ :: _, [], hr => by simp at hr

theorem RLine_bound {h : Heap} {p : Int} {l : Modfile.Line} (hr : RLine h p l) : 0 < p ∧ p.toNat ≤ h.lines.length :=
  ⟨heapGet_pos hr.1, heapGet_le_length hr.1⟩

theorem RLines_bound {h : Heap} : ∀ {ps : List Int} {ls : List Modfile.Line}, RLines h ps ls →
    ∀ p ∈ ps, 0 < p ∧ p.toNat ≤ h.lines.length
  | [], [], _ => by simp
  | _ :: ps, _ :: ls, hr => by
    simp only [RLines_cons] at hr
    intro p hp
    rcases List.mem_cons.1 hp with rfl | hp
    · exact RLine_bound hr.1
    · exact RLines_bound hr.2 p hp
  | [], _ :: _, hr => by simp at hr
  | _ :: _, [], hr => by simp at hr

/-! ### relation ⇒ the driver's read-back -/

theorem RLine.lineOf {h : Heap} {p : Int} {l : Modfile.Line} (hr : RLine h p l) : lineOf h p = some l := by
  obtain ⟨hg, hp⟩ := hr
  have : p.toNat - 1 = l.id := by omega
  cases l
  simp_all [FnParseHeap.lineOf, lineG]

theorem RLines.mapM_lineOf {h : Heap} : ∀ {ps : List Int} {ls : List Modfile.Line}, RLines h ps ls →
    ps.mapM (FnParseHeap.lineOf h) = some ls
  | [], [], _ => rfl
  | _ :: ps, _ :: ls, hr => by
    simp only [RLines_cons] at hr
    simp [List.mapM_cons, hr.1.lineOf, RLines.mapM_lineOf hr.2]
  | [], _ :: _, hr => by simp at hr
  | _ :: _, [], hr => by simp at hr

theorem RExpr.exprOf {h : Heap} {e : Expr} {s : Modfile.Expr} (hr : RExpr h e s) : exprOf h e = some s := by
  cases e <;> cases s <;> simp only [RExpr] at hr
  · rename_i p c; cases c; simp [FnParseHeap.exprOf, hr, cbG]
  · simp [FnParseHeap.exprOf, hr.lineOf]
  · obtain ⟨ps, hb, hl⟩ := hr
    rename_i p b
    obtain ⟨bc, bs, ⟨lc, lp⟩, bt, bl, ⟨rc, rp⟩⟩ := b
    simp [FnParseHeap.exprOf, hb, blockG, hl.mapM_lineOf, lparenG, rparenG]

theorem RStmts.mapM_exprOf {h : Heap} : ∀ {es : List Expr} {ss : List Modfile.Expr}, RStmts h es ss →
    es.mapM (FnParseHeap.exprOf h) = some ss
  | [], [], _ => rfl
  | _ :: es, _ :: ss, hr => by
    simp only [RStmts_cons] at hr
    simp [List.mapM_cons, hr.1.exprOf, RStmts.mapM_exprOf hr.2]
  | [], _ :: _, hr => by simp at hr
  | _ :: _, [], hr => by simp at hr

/-- the relation determines the driver's read-back -/
theorem RFile.fileOf {h : Heap} {p : Int} {f : Modfile.FileSyntax} (hr : RFile h p f) : fileOf h p = some f := by
  obtain ⟨es, hf, hs⟩ := hr
  cases f
  simp [FnParseHeap.fileOf, hf, fileG, hs.mapM_exprOf]

end rel

/-- strictly increasing pointers are distinct (pointers come out of the allocator in increasing order) -/
theorem nodup_of_pairwise_lt {l : List Int} (h : l.Pairwise (· < ·)) : l.Nodup :=
  h.imp (fun hab => Int.ne_of_lt hab)


/-! ### storing twice, storing what is there -/

section comments2
open Parse

theorem list_set_of_getElem? {α : Type} {l : List α} {i : Nat} {v : α} (h : l[i]? = some v) : l.set i v = l := by
  obtain ⟨hi, rfl⟩ := List.getElem?_eq_some_iff.1 h
  exact List.set_getElem_self hi

theorem heap_set_self {α : Type} {l : List α} {p : Int} {v : α} (h : heapGet l p = .ok v) : l.set (p.toNat - 1) v = l :=
  list_set_of_getElem? (heapGet_ok_iff.1 h).2

/-- storing the comments the node already has changes nothing -/
theorem setComments_self {e : Expr} {h : Heap} {c : Comments} (hg : Expr_getComments e h = .ok c) :
    Expr_setComments e c h = .ok h := by
  cases e with
  | CommentBlock p =>
    cases hh : heapGet h.cbs p with
    | ok t =>
      rw [getComments_CommentBlock hh] at hg; cases hg
      rw [setComments_CommentBlock hh]
      have : ({ t with Comments := t.Comments } : CommentBlock) = t := rfl
      rw [this, heap_set_self hh]
    | error e => simp [Expr_getComments, hh] at hg
  | LParen p =>
    cases hh : heapGet h.blocks p with
    | ok t =>
      rw [getComments_LParen hh] at hg; cases hg
      rw [setComments_LParen hh]
      have : ({ t with LParen := { t.LParen with Comments := t.LParen.Comments } } : LineBlock) = t := rfl
      rw [this, heap_set_self hh]
    | error e => simp [Expr_getComments, hh] at hg
  | RParen p =>
    cases hh : heapGet h.blocks p with
    | ok t =>
      rw [getComments_RParen hh] at hg; cases hg
      rw [setComments_RParen hh]
      have : ({ t with RParen := { t.RParen with Comments := t.RParen.Comments } } : LineBlock) = t := rfl
      rw [this, heap_set_self hh]
    | error e => simp [Expr_getComments, hh] at hg
  | Line p =>
    cases hh : heapGet h.lines p with
    | ok t =>
      rw [getComments_Line hh] at hg; cases hg
      rw [setComments_Line hh]
      have : ({ t with Comments := t.Comments } : Line) = t := rfl
      rw [this, heap_set_self hh]
    | error e => simp [Expr_getComments, hh] at hg
  | LineBlock p =>
    cases hh : heapGet h.blocks p with
    | ok t =>
      rw [getComments_LineBlock hh] at hg; cases hg
      rw [setComments_LineBlock hh]
      have : ({ t with Comments := t.Comments } : LineBlock) = t := rfl
      rw [this, heap_set_self hh]
    | error e => simp [Expr_getComments, hh] at hg
  | FileSyntax p =>
    cases hh : heapGet h.files p with
    | ok t =>
      rw [getComments_FileSyntax hh] at hg; cases hg
      rw [setComments_FileSyntax hh]
      have : ({ t with Comments := t.Comments } : FileSyntax) = t := rfl
      rw [this, heap_set_self hh]
    | error e => simp [Expr_getComments, hh] at hg
  | nil => simp [Expr_getComments] at hg

/-- the second store at the same node wins -/
theorem setComments_twice {e : Expr} {h h1 : Heap} {c1 : Comments} (hs : Expr_setComments e c1 h = .ok h1)
    (c2 : Comments) : Expr_setComments e c2 h1 = Expr_setComments e c2 h := by
  have hsh := setComments_shape hs
  cases e <;> simp only at hsh
  case CommentBlock p =>
    obtain ⟨t, ht, rfl⟩ := hsh
    rw [setComments_CommentBlock (heapGet_listSet_same _ ht), setComments_CommentBlock ht]
    simp [List.set_set]
  case LParen p =>
    obtain ⟨t, ht, rfl⟩ := hsh
    rw [setComments_LParen (heapGet_listSet_same _ ht), setComments_LParen ht]
    simp [List.set_set]
  case RParen p =>
    obtain ⟨t, ht, rfl⟩ := hsh
    rw [setComments_RParen (heapGet_listSet_same _ ht), setComments_RParen ht]
    simp [List.set_set]
  case Line p =>
    obtain ⟨t, ht, rfl⟩ := hsh
    rw [setComments_Line (heapGet_listSet_same _ ht), setComments_Line ht]
    simp [List.set_set]
  case LineBlock p =>
    obtain ⟨t, ht, rfl⟩ := hsh
    rw [setComments_LineBlock (heapGet_listSet_same _ ht), setComments_LineBlock ht]
    simp [List.set_set]
  case FileSyntax p =>
    obtain ⟨t, ht, rfl⟩ := hsh
    rw [setComments_FileSyntax (heapGet_listSet_same _ ht), setComments_FileSyntax ht]
    simp [List.set_set]

end comments2


/-! ### reified ⇒ allocated; decidability of the relations (for kernel-evaluated examples) -/

section wf
open Parse

theorem RLines_alloc {h : Heap} : ∀ {ps : List Int} {ls : List Modfile.Line}, RLines h ps ls →
    ∀ q ∈ ps, ∃ l, heapGet h.lines q = .ok l
  | [], [], _ => by simp
  | _ :: ps, _ :: ls, hr => by
    simp only [RLines_cons] at hr
    intro q hq
    rcases List.mem_cons.1 hq with rfl | hq
    · exact ⟨_, hr.1.1⟩
    · exact RLines_alloc hr.2 q hq
  | [], _ :: _, hr => by simp at hr
  | _ :: _, [], hr => by simp at hr

theorem RExpr.stmtOK {h : Heap} {e : Expr} {s : Modfile.Expr} (hr : RExpr h e s) : StmtOK h e := by
  cases e <;> cases s <;> simp only [RExpr] at hr
  · exact ⟨_, hr⟩
  · exact ⟨_, hr.1⟩
  · obtain ⟨ps, hb, hl⟩ := hr
    exact ⟨_, hb, RLines_alloc hl⟩

theorem RStmts.stmtOK {h : Heap} : ∀ {es : List Expr} {ss : List Modfile.Expr}, RStmts h es ss → ∀ e ∈ es, StmtOK h e
  | [], [], _ => by simp
  | _ :: es, _ :: ss, hr => by
    simp only [RStmts_cons] at hr
    intro e he
    rcases List.mem_cons.1 he with rfl | he
    · exact hr.1.stmtOK
    · exact RStmts.stmtOK hr.2 e he
  | [], _ :: _, hr => by simp at hr
  | _ :: _, [], hr => by simp at hr

/-- a reified graph without repeated pointers is well-formed -/
theorem WF_of_RFile {h : Heap} {p : Int} {t : Modfile.FileSyntax} {es : List Expr}
    (hf : heapGet h.files p = .ok (fileG t es)) (hs : RStmts h es t.stmts) (h1 : (linePtrs h es).Nodup)
    (h2 : (blockPtrs es).Nodup) (h3 : (cbPtrs es).Nodup) : WF h p :=
  ⟨⟨fileG t es, hf, hs.stmtOK, h1, h2, h3⟩⟩

instance decRLine (h : Heap) (p : Int) (l : Modfile.Line) : Decidable (RLine h p l) := by
  unfold RLine
  have : DecidableEq (Except Err Line) := fun a b =>
    match a, b with
    | .ok x, .ok y => if e : x = y then isTrue (by rw [e]) else isFalse (fun e' => e (Except.ok.inj e'))
    | .error x, .error y => if e : x = y then isTrue (by rw [e]) else isFalse (fun e' => e (Except.error.inj e'))
    | .ok _, .error _ => isFalse (fun e => by cases e)
    | .error _, .ok _ => isFalse (fun e => by cases e)
  exact inferInstance

instance decRLines (h : Heap) : (ps : List Int) → (ls : List Modfile.Line) → Decidable (RLines h ps ls)
  | [], [] => isTrue trivial
  | p :: ps, l :: ls => by
    have := decRLines h ps ls
    simp only [RLines_cons]; exact inferInstance
  | [], _ :: _ => isFalse (by simp)
  | _ :: _, [] => isFalse (by simp)

theorem RExpr_block_iff (h : Heap) (p : Int) (b : Modfile.LineBlock) :
    RExpr h (.LineBlock p) (.lineBlock b) ↔
      (match heapGet h.blocks p with
       | .ok b' => b' = blockG b b'.Line ∧ RLines h b'.Line b.lines
       | .error _ => False) := by
  simp only [RExpr]
  constructor
  · rintro ⟨ps, hb, hl⟩
    rw [hb]
    exact ⟨rfl, hl⟩
  · intro hm
    cases hb : heapGet h.blocks p with
    | ok b' => rw [hb] at hm; exact ⟨b'.Line, by rw [← hm.1], hm.2⟩
    | error e => rw [hb] at hm; exact hm.elim

instance decRExpr (h : Heap) : (e : Expr) → (s : Modfile.Expr) → Decidable (RExpr h e s)
  | .CommentBlock p, .commentBlock c => by
    simp only [RExpr]
    cases heapGet h.cbs p with
    | ok x => exact if e : x = cbG c then isTrue (by rw [e]) else isFalse (fun e' => e (Except.ok.inj e'))
    | error x => exact isFalse (fun e => by cases e)
  | .Line p, .line l => by simp only [RExpr]; exact inferInstance
  | .LineBlock p, .lineBlock b => by
    refine @decidable_of_iff _ _ (RExpr_block_iff h p b).symm ?_
    cases heapGet h.blocks p with
    | ok b' => simp only; exact inferInstance
    | error e => exact isFalse (fun x => x)
  | .CommentBlock _, .line _ => isFalse (by simp [RExpr])
  | .CommentBlock _, .lineBlock _ => isFalse (by simp [RExpr])
  | .CommentBlock _, .lparen _ => isFalse (by simp [RExpr])
  | .CommentBlock _, .rparen _ => isFalse (by simp [RExpr])
  | .Line _, .commentBlock _ => isFalse (by simp [RExpr])
  | .Line _, .lineBlock _ => isFalse (by simp [RExpr])
  | .Line _, .lparen _ => isFalse (by simp [RExpr])
  | .Line _, .rparen _ => isFalse (by simp [RExpr])
  | .LineBlock _, .commentBlock _ => isFalse (by simp [RExpr])
  | .LineBlock _, .line _ => isFalse (by simp [RExpr])
  | .LineBlock _, .lparen _ => isFalse (by simp [RExpr])
  | .LineBlock _, .rparen _ => isFalse (by simp [RExpr])
  | .LParen _, _ => isFalse (by simp [RExpr])
  | .RParen _, _ => isFalse (by simp [RExpr])
  | .FileSyntax _, _ => isFalse (by simp [RExpr])
  | .nil, _ => isFalse (by simp [RExpr])

instance decRStmts (h : Heap) : (es : List Expr) → (ss : List Modfile.Expr) → Decidable (RStmts h es ss)
  | [], [] => isTrue trivial
  | e :: es, s :: ss => by
    have := decRStmts h es ss
    simp only [RStmts_cons]; exact inferInstance
  | [], _ :: _ => isFalse (by simp)
  | _ :: _, [] => isFalse (by simp)

end wf

end ModVerif.Tie.FnParseHeap
