/-
  Concrete inputs for the non-vacuity examples of Tie/FnRuleAdd.lean and Tie/FnRuleC20.lean.
  Owner: rule-add.
-/
import ModVerif.Proofs.TieFnRuleAddP
namespace ModVerif.Tie.FnRuleAddEx
open ModVerif ModVerif.GoRt ModVerif.Generated
open ModVerif.Drv.GenRule (parseSynI)

/-- a go.mod file with a module, go, require (indirect) and retract line (the interval needs the fixer) -/
def exMod : Bytes := B "module example.com/m\ngo 1.21\nrequire a.b/c v1.0.0 // indirect\nretract [v1.0.0, latest] // bad\n"
/-- a go.mod file with an unknown directive -/
def exBad : Bytes := B "go 1.21\nfrobnicate x\nrequire (\n\ta.b/c v1\n)\n"
/-- a go.work file -/
def exWork : Bytes := B "go 1.21\nuse (\n\t./a\n\t\"./b c\"\n)\nreplace a.b/c => ../c\n"

/-- the heap of a loaded file with a fresh `File` and `WorkFile` object (both at pointer 1) -/
def exLoad (data : Bytes) : Rule.Heap :=
  match parseSynI (B "go.mod") data default with
  | .ok ((p, _), h) => { h with mods := [{ (default : Rule.File) with Syntax := p }], works := [{ (default : Rule.WorkFile) with Syntax := p }] }
  | .error _ => default

/-- the first statement of the parsed file, a line -/
def exLine (data : Bytes) : ModVerif.Modfile.Line :=
  match ModVerif.Modfile.parse (B "go.mod") data with
  | .ok fs => (match fs.stmts with | .line l :: _ => l | _ => default)
  | .error _ => default

end ModVerif.Tie.FnRuleAddEx
