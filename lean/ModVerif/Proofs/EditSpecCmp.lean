/-
  The three block comparators as strict weak orders.
-/
import ModVerif.Proofs.EditSpecSort
namespace ModVerif.EditSpec
open ModVerif

theorem bytesLt_eq_cmp (a b : Bytes) : bytesLt a b = decide (bytesCmp a b = -1) := by
  unfold bytesCmp
  by_cases h : a = b
  · subst h; simp [bytesLt_irrefl]
  · cases hl : bytesLt a b <;> simp [h]

/-- `lineLess` is the strict part of the lexicographic comparison of token lists -/
theorem lineLess_eq_cmp : ∀ a b : List Bytes, lineLess a b = decide (listCmp bytesCmp a b = -1)
  | [], [] => by simp [lineLess, listCmp]
  | [], _ :: _ => by simp [lineLess, listCmp]
  | _ :: _, [] => by simp [lineLess, listCmp]
  | a :: as, b :: bs => by
    unfold lineLess listCmp
    by_cases h : a = b
    · subst h
      simp [bytesCmp_strict.refl, lineLess_eq_cmp as bs]
    · have hne : bytesCmp a b ≠ 0 := fun h0 => h ((bytesCmp_strict.eq_iff _ _).1 h0)
      simp [h, hne, bytesLt_eq_cmp]

theorem lineLess_strictWeak : StrictWeak lineLess := by
  have h := (PreCmp.of_strict (listCmp_strict bytesCmp_strict)).strictWeak
  have e : lineLess = fun a b => decide (listCmp bytesCmp a b = -1) := by
    funext a b; exact lineLess_eq_cmp a b
  rw [e]; exact h

/-- `lineLess` is total: two lines that are not ordered either way are the same token list -/
theorem lineLess_total (a b : List Bytes) (h1 : lineLess a b = false) (h2 : lineLess b a = false) : a = b := by
  rw [lineLess_eq_cmp] at h1 h2
  have S := listCmp_strict bytesCmp_strict
  have r := S.range a b
  have an := S.antisymm a b
  have : listCmp bytesCmp a b = 0 := by
    simp at h1 h2; omega
  exact (S.eq_iff _ _).1 this

/-- `semver.Compare` as a total preorder comparator (C04) -/
theorem semver_preCmp : PreCmp Semver.compare :=
  ⟨Props.C04.compare_range, Props.C04.compare_antisymm, Props.C04.compare_trans_le⟩

/-- exclude lines as (path, version) pairs: path by byte order, version by semver order -/
def excludeCmp : Bytes × Bytes → Bytes × Bytes → Int := StrictCmp.lex bytesCmp Semver.compare

def excludeLess2 (a b : Bytes × Bytes) : Bool := decide (excludeCmp a b = -1)

theorem excludeLess2_strictWeak : StrictWeak excludeLess2 :=
  ((PreCmp.of_strict bytesCmp_strict).lex semver_preCmp).strictWeak

/-- on the two-token lines a strict parse puts into an exclude block, `lineExcludeLess` is `excludeLess2` -/
theorem lineExcludeLess_two (p v q w : Bytes) :
    lineExcludeLess [p, v] [q, w] = excludeLess2 (p, v) (q, w) := by
  unfold lineExcludeLess excludeLess2 excludeCmp StrictCmp.lex
  by_cases h : p = q
  · subst h
    have r := Props.C04.compare_range v w
    simp [bytesCmp_strict.refl]
    constructor <;> intro h' <;> omega
  · have hne : bytesCmp p q ≠ 0 := fun h0 => h ((bytesCmp_strict.eq_iff _ _).1 h0)
    simp [h, hne, bytesLt_eq_cmp]

/-- retract intervals: descending by low, then by high -/
def retractCmp : Bytes × Bytes → Bytes × Bytes → Int := fun a b => StrictCmp.lex Semver.compare Semver.compare b a

theorem retractCmp_pre : PreCmp retractCmp := (semver_preCmp.lex semver_preCmp).swap

theorem lineRetractLess_eq (li lj : List Bytes) :
    lineRetractLess li lj = decide (retractCmp (interval li) (interval lj) = -1) := by
  unfold lineRetractLess retractCmp StrictCmp.lex
  have a1 := Props.C04.compare_antisymm (interval li).1 (interval lj).1
  have a2 := Props.C04.compare_antisymm (interval li).2 (interval lj).2
  have r1 := Props.C04.compare_range (interval li).1 (interval lj).1
  have r2 := Props.C04.compare_range (interval li).2 (interval lj).2
  by_cases h : Semver.compare (interval li).1 (interval lj).1 = 0
  · have h' : Semver.compare (interval lj).1 (interval li).1 = 0 := by omega
    simp [h, h']
    constructor <;> intro hh <;> omega
  · have h' : Semver.compare (interval lj).1 (interval li).1 ≠ 0 := by omega
    simp [h, h']
    constructor <;> intro hh <;> omega

theorem lineRetractLess_strictWeak : StrictWeak lineRetractLess := by
  have h := (retractCmp_pre.comap interval).strictWeak
  have e : lineRetractLess = fun a b => decide (retractCmp (interval a) (interval b) = -1) := by
    funext a b; exact lineRetractLess_eq a b
  rw [e]; exact h

end ModVerif.EditSpec
