/-
  Tie proofs for sumdb/tlog/note.go (Generated/FnTlogNote.lean vs Model/TlogNote.lean), part 2:
  isValidRecordText (the rune loop), FormatRecord, ParseRecord (bytes.IndexByte, bytes.Index(msg, "\n\n")).
-/
import ModVerif.Proofs.TieFnTlogNote
namespace ModVerif.TieFnTlogNote
open ModVerif ModVerif.GoRt ModVerif.GoRtTile ModVerif.GoRtNote

/-! ### the model's rune walk, one rune at a time -/

theorem aux_skip : ∀ (k last : Nat) (s : Bytes), k ≤ s.length →
    TlogNote.isValidRecordTextAux k last s = TlogNote.isValidRecordTextAux 0 last (s.drop k)
  | 0, _, _, _ => rfl
  | k + 1, last, [], h => by simp at h
  | k + 1, last, _ :: rest, h => by
    simp only [TlogNote.isValidRecordTextAux, List.drop_succ_cons]
    exact aux_skip k last rest (by simp at h; omega)

theorem aux_step (last : Nat) (s : Bytes) (hs : s ≠ []) :
    TlogNote.isValidRecordTextAux 0 last s =
      match Utf8.decode s with
      | none => false
      | some (r, w) =>
        if (r < 0x20 && r != 10) || (last == 10 && r == 10) then false
        else TlogNote.isValidRecordTextAux 0 r (s.drop w) := by
  cases s with
  | nil => exact absurd rfl hs
  | cons b rest =>
    simp only [TlogNote.isValidRecordTextAux]
    cases hd : Utf8.decode (b :: rest) with
    | none => rfl
    | some rw =>
      obtain ⟨r, w⟩ := rw
      have hw := GoRtStr.decode_width hd
      simp only
      split
      · rfl
      · obtain ⟨w', rfl⟩ : ∃ w', w = w' + 1 := ⟨w - 1, by omega⟩
        simp only [Nat.add_sub_cancel, List.drop_succ_cons]
        exact aux_skip w' r rest (by simp at hw; omega)

/-! ### the generated loop -/

/-- what `isValidRecordText` does with the loop result -/
def post : Ctl Bool (Int × Int) → Bool
  | .ret b => b
  | .next (_, last) => decide (last = 10)

theorem loop1_spec (text : Bytes) : ∀ (fuel k lastN : Nat), k ≤ text.length → text.length - k < fuel →
    ∃ r, Generated.TlogNote.isValidRecordText_loop1 text fuel (k : Int) (lastN : Int) = .ok r ∧
      post r = TlogNote.isValidRecordTextAux 0 lastN (text.drop k) := by
  intro fuel
  induction fuel with
  | zero => intro k lastN _ h; omega
  | succ fuel ih =>
    intro k lastN hk hf
    rw [Generated.TlogNote.isValidRecordText_loop1]
    by_cases hlt : k < text.length
    · have hc : decide ((k : Int) < len text) = true := decide_eq_true (by rw [len_eq]; omega)
      simp only [hc, if_true]
      rw [sliceFrom_natCast hk]
      simp only [bind_ok]
      have hne : text.drop k ≠ [] := by
        intro h; have := congrArg List.length h; simp at this; omega
      rw [decodeRune_of_ne_nil _ hne, aux_step lastN _ hne]
      unfold Utf8.decodeRune
      cases hd : Utf8.decode (text.drop k) with
      | none =>
        refine ⟨Ctl.ret false, ?_, rfl⟩
        simp [Utf8.runeError]
      | some rw =>
        obtain ⟨r, w⟩ := rw
        have hw := GoRtStr.decode_width hd
        have hw1 : w = 1 → r < 0x80 := by intro e; subst e; exact decode_width_one hd
        simp only
        have hnot : (decide (((r : Nat) : Int) = 65533) && decide (((w : Nat) : Int) = 1)) = false := by
          by_cases e : w = 1
          · have := hw1 e
            have : ¬ (((r : Nat) : Int) = 65533) := by omega
            simp [this]
          · have : ¬ (((w : Nat) : Int) = 1) := by omega
            simp [this]
        have e1 : decide (((r : Nat) : Int) < 32) = decide (r < 0x20) := decide_eq_decide.mpr (by omega)
        have e2 : (!decide (((r : Nat) : Int) = 10)) = (r != 10) := by
          by_cases h : r = 10
          · subst h; rfl
          · have h' : ¬ (((r : Nat) : Int) = 10) := by omega
            simp [h, h']
        have e3 : decide (((lastN : Nat) : Int) = 10) = (lastN == 10) := by
          by_cases h : lastN = 10
          · subst h; rfl
          · have h' : ¬ (((lastN : Nat) : Int) = 10) := by omega
            simp [h, h']
        have e4 : decide (((r : Nat) : Int) = 10) = (r == 10) := by
          by_cases h : r = 10
          · subst h; rfl
          · have h' : ¬ (((r : Nat) : Int) = 10) := by omega
            simp [h, h']
        rw [e2, e1, hnot, e3, e4, Bool.or_false]
        by_cases hbad : ((decide (r < 0x20) && r != 10) || (lastN == 10 && r == 10)) = true
        · rw [if_pos hbad, if_pos hbad]
          exact ⟨Ctl.ret false, rfl, rfl⟩
        · rw [if_neg hbad, if_neg hbad]
          have hlen : (text.drop k).length = text.length - k := by simp
          have hkw : k + w ≤ text.length := by omega
          obtain ⟨res, h1, h2⟩ := ih (k + w) r hkw (by omega)
          refine ⟨res, ?_, ?_⟩
          · rw [← h1]; simp only [Int.natCast_add]
          · rw [h2, List.drop_drop]
    · have hc : decide ((k : Int) < len text) = false := decide_eq_false (by rw [len_eq]; omega)
      have hke : k = text.length := by omega
      simp only [hc, Bool.false_eq_true, if_false]
      refine ⟨Ctl.next ((k : Int), (lastN : Int)), rfl, ?_⟩
      subst hke
      simp only [post, List.drop_length, TlogNote.isValidRecordTextAux]
      by_cases h : lastN = 10
      · subst h; rfl
      · have h' : ¬ (((lastN : Nat) : Int) = 10) := by omega
        simp [h, h']

theorem isValidRecordText_eq (text : Bytes) (fuel : Nat) (hf : text.length + 1 ≤ fuel) :
    Generated.TlogNote.isValidRecordText fuel text = .ok (TlogNote.isValidRecordText text) := by
  obtain ⟨r, h1, h2⟩ := loop1_spec text fuel 0 0 (Nat.zero_le _) (by omega)
  unfold Generated.TlogNote.isValidRecordText TlogNote.isValidRecordText
  have h1' : Generated.TlogNote.isValidRecordText_loop1 text fuel 0 0 = .ok r := h1
  simp only [h1', bind_ok]
  simp only [List.drop_zero] at h2
  rw [← h2]
  cases r with
  | ret b => rfl
  | next s =>
    obtain ⟨i, last⟩ := s
    simp only [post]
    by_cases h : last = 10 <;> simp [h]

/-! ### FormatRecord -/

/-- the result of the model's `formatRecord` in the result type of the generated one -/
def frOut : Option Bytes → Bytes × Option String
  | some m => (m, none)
  | none => ([], some "errMalformedRecord")

theorem FormatRecord_eq (id : Int) (text : Bytes) (fuel : Nat) (hf : text.length + 1 ≤ fuel) :
    Generated.TlogNote.FormatRecord fuel id text = .ok (frOut (TlogNote.formatRecord id text)) := by
  unfold Generated.TlogNote.FormatRecord TlogNote.formatRecord
  rw [isValidRecordText_eq text fuel hf]
  simp only [bind_ok]
  have e : mkByte 10 = 10 := by decide
  cases h : TlogNote.isValidRecordText text with
  | false => rfl
  | true =>
    simp only [Bool.not_true, Bool.false_eq_true, if_false, itoa_eq, e, pure_eq_ok, frOut]

/-! ### ParseRecord -/

theorem dropWhile_of_not_mem {c : UInt8} : ∀ {s : Bytes}, c ∉ s → s.dropWhile (· != c) = []
  | [], _ => rfl
  | x :: xs, h => by
    have h1 : x ≠ c := fun e => h (by simp [e])
    have h2 : c ∉ xs := fun e => h (by simp [e])
    simp [h1, dropWhile_of_not_mem h2]


/-- the result of the model's `parseRecord` in the result type of the generated one -/
def prOut : Option (Int × Bytes × Bytes) → Int × Bytes × Bytes × Option String
  | some (id, text, rest) => (id, text, rest, none)
  | none => (0, [], [], some "errMalformedRecord")

/-- `bytes.Index(msg, "\n\n")` is the model's `splitBlank` -/
theorem indexAux_blank : ∀ (s : Bytes) (k : Nat),
    match TlogNote.splitBlank s with
    | none => indexAux [10, 10] s k = -1
    | some (pre, post) => indexAux [10, 10] s k = ((k + pre.length : Nat) : Int) ∧ s = pre ++ 10 :: 10 :: post
  | [], k => by simp [TlogNote.splitBlank, indexAux]
  | [a], k => by simp [TlogNote.splitBlank, indexAux, isPrefixOfB]
  | a :: b :: rest, k => by
    have ih := indexAux_blank (b :: rest) (k + 1)
    rw [TlogNote.splitBlank]
    by_cases h : (a == 10 && b == 10) = true
    · simp only [h, if_true]
      have h' := h
      simp only [Bool.and_eq_true, beq_iff_eq] at h'
      obtain ⟨rfl, rfl⟩ := h'
      simp [indexAux, isPrefixOfB]
    · simp only [h, Bool.false_eq_true, if_false]
      have hp : isPrefixOfB [10, 10] (a :: b :: rest) = false := by
        simp only [isPrefixOfB, Bool.and_true]
        simp only [Bool.and_eq_true, beq_iff_eq, not_and] at h
        cases h1 : ((10 : UInt8) == a) with
        | false => rfl
        | true =>
          have ha : a = 10 := by simpa using (beq_iff_eq.mp h1).symm
          have hb := h ha
          simp only [Bool.true_and]
          simpa using fun e : (10 : UInt8) = b => hb e.symm
      rw [indexAux]
      simp only [hp, Bool.false_eq_true, if_false]
      cases hsb : TlogNote.splitBlank (b :: rest) with
      | none => rw [hsb] at ih; exact ih
      | some pp =>
        obtain ⟨pre, post⟩ := pp
        rw [hsb] at ih
        simp only at ih ⊢
        refine ⟨?_, ?_⟩
        · rw [ih.1]; simp only [List.length_cons]; congr 1; omega
        · rw [ih.2]; rfl

theorem ParseRecord_eq (msg : Bytes) (fuel : Nat) (hf : msg.length + 1 ≤ fuel) :
    Generated.TlogNote.ParseRecord fuel msg = .ok (prOut (TlogNote.parseRecord msg)) := by
  unfold Generated.TlogNote.ParseRecord TlogNote.parseRecord
  rw [indexByte_eq msg 10 10 (by decide), span_eq]
  by_cases hm : (10 : UInt8) ∈ msg
  · simp only [hm, if_true]
    have hlen := length_takeWhile_le (· != (10 : UInt8)) msg
    have hneg : ¬ ((((msg.takeWhile (· != (10 : UInt8))).length : Nat) : Int) < 0) := by omega
    simp only [hneg, decide_false, Bool.false_eq_true, if_false]
    rw [sliceTo_natCast hlen, take_length_takeWhile]
    simp only [bind_ok]
    -- the part after the first newline
    have hsplit : msg.dropWhile (· != (10 : UInt8)) = 10 :: msg.drop ((msg.takeWhile (· != (10 : UInt8))).length + 1) := by
      have h1 := drop_length_takeWhile (· != (10 : UInt8)) msg
      cases hd : msg.dropWhile (· != (10 : UInt8)) with
      | nil => exact absurd hm (dropWhile_nil_not_mem hd)
      | cons x rest =>
        have := (mem_of_dropWhile_cons hd).1
        subst this
        rw [hd] at h1
        rw [← List.drop_drop, h1]; rfl
    rw [hsplit]
    simp only
    cases hp : Decimal.parseInt64 (msg.takeWhile (· != (10 : UInt8))) with
    | none =>
      have := parseInt_none _ hp
      simp only [this, Bool.not_false, if_true]; rfl
    | some idv =>
      rw [parseInt_some _ idv hp]
      simp only [Option.isNone_none, Bool.not_true, Bool.false_eq_true, if_false]
      have hlt : (msg.takeWhile (· != (10 : UInt8))).length < msg.length := by
        have h1 := drop_length_takeWhile (· != (10 : UInt8)) msg
        rw [hsplit] at h1
        have := congrArg List.length h1
        simp at this; omega
      have e1 : (((msg.takeWhile (· != (10 : UInt8))).length : Nat) : Int) + 1 =
          (((msg.takeWhile (· != (10 : UInt8))).length + 1 : Nat) : Int) := by simp
      rw [e1, sliceFrom_natCast (by omega)]
      simp only [bind_ok]
      generalize msg.drop ((msg.takeWhile (· != (10 : UInt8))).length + 1) = m2 at *
      have hb := indexAux_blank m2 0
      unfold index
      cases hsb : TlogNote.splitBlank m2 with
      | none =>
        rw [hsb] at hb
        simp only at hb
        rw [hb]
        rfl
      | some pp =>
        obtain ⟨pre, post⟩ := pp
        rw [hsb] at hb
        simp only [Nat.zero_add] at hb
        obtain ⟨hb1, hb2⟩ := hb
        rw [hb1]
        have hneg2 : ¬ (((pre.length : Nat) : Int) < 0) := by omega
        simp only [hneg2, decide_false, Bool.false_eq_true, if_false]
        have e2 : ((pre.length : Nat) : Int) + 1 = ((pre.length + 1 : Nat) : Int) := by simp
        have e3 : ((pre.length : Nat) : Int) + 2 = ((pre.length + 2 : Nat) : Int) := by simp
        have hl2 : m2.length = pre.length + 2 + post.length := by rw [hb2]; simp; omega
        rw [e2, e3, sliceTo_natCast (by omega), sliceFrom_natCast (by omega)]
        simp only [bind_ok]
        have t1 : m2.take (pre.length + 1) = pre ++ [10] := by
          rw [hb2]
          have : pre ++ 10 :: 10 :: post = (pre ++ [10]) ++ 10 :: post := by simp
          rw [this, List.take_left' (by simp)]
        have t2 : m2.drop (pre.length + 2) = post := by
          rw [hb2]
          have : pre ++ 10 :: 10 :: post = (pre ++ [10, 10]) ++ post := by simp
          rw [this, List.drop_left' (by simp)]
        rw [t1, t2]
        have hfl : (pre ++ [10]).length + 1 ≤ fuel := by
          simp only [List.length_append, List.length_cons, List.length_nil]
          have : m2.length ≤ msg.length := by
            have h1 := congrArg List.length hsplit
            have h0 := drop_length_takeWhile (· != (10 : UInt8)) msg
            have h3 := congrArg List.length h0
            simp at h1 h3
            omega
          omega
        rw [isValidRecordText_eq _ fuel hfl]
        simp only [bind_ok]
        cases TlogNote.isValidRecordText (pre ++ [10]) <;> rfl
  · simp only [hm, if_false]
    have hd : msg.dropWhile (· != (10 : UInt8)) = [] := dropWhile_of_not_mem hm
    rw [hd]
    rfl

end ModVerif.TieFnTlogNote
