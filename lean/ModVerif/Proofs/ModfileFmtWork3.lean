/-
  C02 stage 4 for go.work files, part c: the statement loop of `parseWork` on a well-shaped tree: the
  rewritten tree is well-shaped again, and the loop can be replayed on every tree that carries the
  rewritten tokens.  (Port of ModfileFmtDir5.)
-/
import ModVerif.Proofs.ModfileFmtWork2
namespace ModVerif.Proofs.ModfileFmtWork
open ModVerif ModVerif.Modfile ModVerif.Proofs.ModfileFmtLex ModVerif.Proofs.ModfileFmtLine
open ModVerif.Proofs.ModfileFmtFix ModVerif.Proofs.ModfileFmtTree ModVerif.Proofs.ModfileFmtParse
open ModVerif.Proofs.ModfileFmtMain ModVerif.Proofs.ModfileFmtDir

/-! ### the statement loop -/

theorem workStmts_replay (fix : Option Fixer) (hfix : FixOK fix) (hne : FixNE fix) :
    ∀ (ss : List Expr) (st st1 : WorkState) (ss1 : List Expr),
    workStmts fix st ss = (st1, ss1) → st1.errsRev = [] → WorkWellFormed st1.file → WFStmts ss →
    WFStmts ss1 ∧ WorkWellFormed st.file ∧ st.errsRev = [] ∧
    ∀ (st' : WorkState) (ss' : List Expr), WSim st st' → ss'.map eraseExpr = ss1.map normExpr →
      ∃ st1', workStmts fix st' ss' = (st1', ss') ∧ WSim st1 st1' := by
  intro ss
  induction ss with
  | nil =>
    intro st st1 ss1 h he hwf _
    simp only [workStmts, Prod.mk.injEq] at h
    obtain ⟨rfl, rfl⟩ := h
    refine ⟨fun s hs => by simp at hs, hwf, he, ?_⟩
    intro st' ss' hsim hrel
    have : ss' = [] := by simpa using hrel
    subst this
    exact ⟨st', rfl, hsim⟩
  | cons x xs ih =>
    intro st st1 ss1 h he hwf hwfs
    have hx : WFStmt x := hwfs x (by simp)
    have hxs : WFStmts xs := fun s hs => hwfs s (by simp [hs])
    cases x with
    | commentBlock c =>
      simp only [workStmts] at h
      cases hrest : workStmts fix st xs with
      | mk st2 xs2 =>
        simp only [hrest, Prod.mk.injEq] at h
        obtain ⟨rfl, rfl⟩ := h
        obtain ⟨hw2, hwf0, he0, hrep⟩ := ih st st2 xs2 hrest he hwf hxs
        refine ⟨?_, hwf0, he0, ?_⟩
        · intro s hs
          rcases List.mem_cons.1 hs with rfl | hs
          · exact hx
          · exact hw2 s hs
        · intro st' ss' hsim hrel
          cases ss' with
          | nil => simp at hrel
          | cons s' ss'' =>
            simp only [List.map_cons, List.cons.injEq] at hrel
            obtain ⟨hs', hrel'⟩ := hrel
            obtain ⟨st2', hr', hsim'⟩ := hrep st' ss'' hsim hrel'
            cases s' with
            | commentBlock c' =>
              refine ⟨st2', ?_, hsim'⟩
              simp only [workStmts, hr']
            | line _ => simp [eraseExpr, normExpr] at hs'
            | lineBlock _ => simp [eraseExpr, normExpr] at hs'
            | lparen _ => simp [eraseExpr, normExpr] at hs'
            | rparen _ => simp [eraseExpr, normExpr] at hs'
    | line l =>
      have hl : WFLine l := hx
      obtain ⟨verb, args, htok⟩ : ∃ verb args, l.token = verb :: args := by
        cases ht : l.token with
        | nil => exact absurd ht hl.ne
        | cons a b => exact ⟨a, b, rfl⟩
      simp only [workStmts, htok] at h
      cases hstep : WorkFile.add st l verb args fix with
      | mk stm args1 =>
        cases hrest : workStmts fix stm xs with
        | mk st2 xs2 =>
          simp only [hstep, hrest, Prod.mk.injEq] at h
          obtain ⟨rfl, rfl⟩ := h
          obtain ⟨hw2, hwfm, hem, hrep⟩ := ih stm st2 xs2 hrest he hwf hxs
          have horig : ∀ t ∈ args, TokText t := fun t ht => hl.tok t (by rw [htok]; simp [ht])
          obtain ⟨hsok, hwf0, hargs, _⟩ := work_add_step st stm l verb args args1 fix hstep hem hfix hne
            hwfm horig
          refine ⟨?_, hwf0, hsok.errs, ?_⟩
          · intro s hs
            rcases List.mem_cons.1 hs with rfl | hs
            · show WFLine _
              refine ⟨by simp, ?_, ?_, hl.before, hl.suffix, hl.after, hl.inBlock⟩
              · intro t ht
                simp only [List.mem_cons] at ht
                rcases ht with rfl | ht
                · exact hl.tok t (by rw [htok]; simp)
                · exact (hargs t ht).1
              · simp only [List.tail_cons]
                exact lineTailOK_no_lparen args1 (fun t ht => (hargs t ht).2.1)
            · exact hw2 s hs
          · intro st' ss' hsim hrel
            cases ss' with
            | nil => simp at hrel
            | cons s' ss'' =>
              simp only [List.map_cons, List.cons.injEq] at hrel
              obtain ⟨hs', hrel'⟩ := hrel
              cases s' with
              | line l' =>
                simp only [eraseExpr, normExpr, Expr.line.injEq] at hs'
                have htok' : l'.token = verb :: args1 := by
                  have := congrArg Line.token hs'
                  simpa [eraseLine, normLine] using this
                have hsuf' : l'.comments.suffix = [] := by
                  have := congrArg (fun x : Line => x.comments.suffix) hs'
                  simp only [eraseLine, normLine, eraseCs, normCs, hl.suffix, List.map_nil] at this
                  simpa using this
                obtain ⟨stm', hadd', hsim'⟩ := hsok.replay st' l' hsim hsuf'
                obtain ⟨st2', hr', hsim2⟩ := hrep stm' ss'' hsim' hrel'
                refine ⟨st2', ?_, hsim2⟩
                simp only [workStmts, htok', hadd', hr']
                congr 3
                cases l'
                simp only at htok'
                subst htok'
                rfl
              | commentBlock _ => simp [eraseExpr, normExpr] at hs'
              | lineBlock _ => simp [eraseExpr, normExpr] at hs'
              | lparen _ => simp [eraseExpr, normExpr] at hs'
              | rparen _ => simp [eraseExpr, normExpr] at hs'
    | lineBlock b =>
      have hb : WFBlock b := hx
      simp only [workStmts] at h
      -- an error-free run accepts the block only if its header is one known verb
      have hem : ∀ (stm : WorkState) (st2 : WorkState) (xs2 : List Expr),
          workStmts fix stm xs = (st2, xs2) → st2.errsRev = [] → stm.errsRev = [] := by
        intro stm st2 xs2 hr he2
        have := workStmts_errs_mono fix xs stm
        rw [hr] at this
        exact nil_of_suffix_nil this he2
      cases hbt : b.token with
      | nil => exact absurd hbt hb.ne
      | cons verb rest =>
        cases rest with
        | cons r0 rs =>
          exfalso
          simp only [hbt] at h
          cases hrest : workStmts fix (st.err b.start .unknownBlock) xs with
          | mk st2 xs2 =>
            simp only [hrest, Prod.mk.injEq] at h
            obtain ⟨rfl, _⟩ := h
            exact work_err_ne_nil _ _ _ (hem _ _ _ hrest he)
        | nil =>
          simp only [hbt] at h
          by_cases hvb : verbIn verb workBlockVerbs = true
          · simp only [hvb, if_true] at h
            cases hlines : workBlockLines verb fix st b.lines with
            | mk stm ls1 =>
              cases hrest : workStmts fix stm xs with
              | mk st2 xs2 =>
                simp only [hlines, hrest, Prod.mk.injEq] at h
                obtain ⟨rfl, rfl⟩ := h
                obtain ⟨hw2, hwfm, hem', hrep⟩ := ih stm st2 xs2 hrest he hwf hxs
                obtain ⟨hwl1, hlen1, hwf0, he0, hrepl⟩ := workBlockLines_replay verb fix hfix hne b.lines
                  false st stm ls1 hlines hem' hwfm hb.lines
                have hemp : ls1.isEmpty = b.lines.isEmpty := by
                  cases ls1 <;> cases hbl : b.lines <;> simp_all
                refine ⟨?_, hwf0, he0, ?_⟩
                · intro s hs
                  rcases List.mem_cons.1 hs with rfl | hs
                  · show WFBlock _
                    exact ⟨by simp, fun t ht => hb.tok t (by rw [hbt]; simpa using ht), hb.before, hb.suffix,
                      hb.after, hb.lparen, hwl1, by simpa [hemp] using hb.rbefore, hb.rsuffix, hb.rafter⟩
                  · exact hw2 s hs
                · intro st' ss' hsim hrel
                  cases ss' with
                  | nil => simp at hrel
                  | cons s' ss'' =>
                    simp only [List.map_cons, List.cons.injEq] at hrel
                    obtain ⟨hs', hrel'⟩ := hrel
                    cases s' with
                    | lineBlock b' =>
                      simp only [eraseExpr, normExpr, Expr.lineBlock.injEq] at hs'
                      have htok' : b'.token = [verb] := by
                        have := congrArg LineBlock.token hs'
                        simpa [eraseBlock, normBlock, hbt] using this
                      have hlines' : b'.lines.map eraseLine = ls1.map normLine := by
                        have := congrArg LineBlock.lines hs'
                        simpa [eraseBlock, normBlock] using this
                      obtain ⟨stm', hadd', hsim'⟩ := hrepl st' b'.lines hsim hlines'
                      obtain ⟨st2', hr', hsim2⟩ := hrep stm' ss'' hsim' hrel'
                      refine ⟨st2', ?_, hsim2⟩
                      simp only [workStmts, htok', hvb, if_true, hadd', hr']
                      congr 3
                      cases b'
                      simp only at htok'
                      subst htok'
                      rfl
                    | commentBlock _ => simp [eraseExpr, normExpr] at hs'
                    | line _ => simp [eraseExpr, normExpr] at hs'
                    | lparen _ => simp [eraseExpr, normExpr] at hs'
                    | rparen _ => simp [eraseExpr, normExpr] at hs'
          · exfalso
            simp only [hvb, Bool.false_eq_true, if_false] at h
            cases hrest : workStmts fix (st.err b.start .unknownBlock) xs with
            | mk st2 xs2 =>
              simp only [hrest, Prod.mk.injEq] at h
              obtain ⟨rfl, _⟩ := h
              exact work_err_ne_nil _ _ _ (hem _ _ _ hrest he)
    | lparen _ => exact absurd hx id
    | rparen _ => exact absurd hx id

end ModVerif.Proofs.ModfileFmtWork
