/-
  C12 helper: the assumption `CfpSound` holds for the model of `module.CheckFilePath` (which
  Props/C06 proves equivalent to the documented path rules), for every `isLetter`.
-/
import ModVerif.Spec.ZipSpec
import ModVerif.Proofs.ModuleSpec
namespace ModVerif.Proofs.ZipB
open ModVerif ModVerif.Zip ModVerif.ZipSpec

/-- `CheckFilePath` as the zip driver plugs it into `Env.cfp` -/
def cfpOf (isLetter : Nat → Bool) (p : Bytes) : Bool :=
  match Module.checkFilePath isLetter p with
  | .ok _ => true
  | .error _ => false

theorem cfpSound_checkFilePath (isLetter : Nat → Bool) : CfpSound (cfpOf isLetter) := by
  intro p hp c hc
  have hok : Module.checkFilePath isLetter p = .ok () := by
    unfold cfpOf at hp
    cases h : Module.checkFilePath isLetter p with
    | ok u => rfl
    | error e => rw [h] at hp; cases hp
  have hv := (Module.checkPath_iff_spec isLetter .file p).mp hok
  have he := hv.2.2.2 c hc
  refine ⟨he.1, ?_, ?_⟩
  · intro e; apply he.2.1; rw [e]; simp
  · intro e; apply he.2.1; rw [e]; simp

end ModVerif.Proofs.ZipB
