/-
  EditMore, part 19 — what each go.mod operation (all but AddTool and the bulk setters, which follow) does to the lines
  that existed before it: it touches only the lines of the directive it names (`Targets`), or removes duplicates
  (`kill3`, SortBlocks); every other line keeps its tokens and comments (`OpKeeps`).
-/
import ModVerif.Proofs.EditMoreKeepC
set_option linter.unusedSimpArgs false
namespace ModVerif.Modfile.Edit
open ModVerif ModVerif.Modfile

/-- the directive lines an operation names, by their tokens: the line of the directive with the operation's key (all
    `require` lines for the two bulk setters, which rewrite every requirement) -/
def Targets : Op → List Bytes → Prop
  | .addModule _, t => t.head? = some (B "module")
  | .addGo _, t => t.head? = some (B "go")
  | .dropGo, t => t.head? = some (B "go")
  | .addToolchain _, t => t.head? = some (B "toolchain")
  | .dropToolchain, t => t.head? = some (B "toolchain")
  | .addGodebug k _, t => ∃ v, t = [B "godebug", k ++ [61] ++ v]
  | .dropGodebug k, t => ∃ v, t = [B "godebug", k ++ [61] ++ v]
  | .addRequire p _, t => ∃ v, t = [B "require", autoQuote p, v]
  | .dropRequire p, t => ∃ v, t = [B "require", autoQuote p, v]
  | .setRequire _ _, t => t.head? = some (B "require")
  | .setRequireSeparateIndirect _ _, t => t.head? = some (B "require")
  | .dropExclude p v, t => t = [B "exclude", autoQuote p, v]
  | .addReplace op _ _ _, t => ∃ r : Replace, r.old.path = op ∧ t = replaceToks r
  | .dropReplace op ov, t => ∃ r : Replace, r.old.path = op ∧ r.old.version = ov ∧ t = replaceToks r
  | .dropRetract lo hi, t => ∃ r : Retract, r.interval = ⟨lo, hi⟩ ∧ (entRt r).acc t []
  | .dropTool p, t => ∃ x, t = [B "tool", x] ∧ tokIs x p
  | _, _ => False

/-- the operations that end with SortBlocks (de-duplication of exclude / replace / tool) -/
def Sorts : Op → Bool
  | .sortBlocks => true
  | .addTool _ => true
  | .setRequire _ _ => true
  | .setRequireSeparateIndirect _ _ => true
  | _ => false

/-- what one operation does to the lines that existed before it -/
def OpKeeps (e e' : EFile) (op : Op) : Prop :=
  ∃ S : List Nat, KeepsBelow e.next S e.f.syn.stmts e'.f.syn.stmts ∧
    ∀ i ∈ S, (Sorts op = true ∧ i ∈ kill3 e.f) ∨ ∃ en ∈ entries e.f, en.id = i ∧ ∀ t s, en.acc t s → Targets op t

theorem OpKeeps.nil {e e' : EFile} {op : Op} (h : Keeps [] e.f.syn.stmts e'.f.syn.stmts) : OpKeeps e e' op :=
  ⟨[], h.below _, fun _ hi' => by cases hi'⟩

theorem OpKeeps.one {e e' : EFile} {op : Op} (en : Ent) (hen : en ∈ entries e.f) (h : Keeps [en.id] e.f.syn.stmts e'.f.syn.stmts)
    (ht : ∀ t s, en.acc t s → Targets op t) : OpKeeps e e' op :=
  ⟨[en.id], h.below _, fun _ hi => Or.inr ⟨en, hen, (List.mem_singleton.1 hi).symm, ht⟩⟩

theorem mem_entries_module {f : File} {m : Module} (h : f.module = some m) : entM m ∈ entries f := by
  simp [entries, h]
theorem mem_entries_go {f : File} {g : Go} (h : f.go = some g) : entGo g ∈ entries f := by
  simp [entries, h]
theorem mem_entries_toolchain {f : File} {g : Toolchain} (h : f.toolchain = some g) : entTc g ∈ entries f := by
  simp [entries, h]

theorem addModule_keeps (e : EFile) (p : Bytes) (hi : Inv e) : OpKeeps e (addModuleStmt e p) (.addModule p) := by
  unfold addModuleStmt
  cases hm : e.f.module with
  | none => exact OpKeeps.nil (keeps_addLine _ _ _ _ hi.view2)
  | some m =>
    refine OpKeeps.one (entM m) (mem_entries_module hm) (keeps_updateTokens _ _ _) ?_
    intro t s h; simp only [entM] at h; rw [h]; rfl

theorem addGo_keeps (e e' : EFile) (v : Bytes) (hi : Inv e) (h : addGoStmt e v = .ok e') : OpKeeps e e' (.addGo v) := by
  unfold addGoStmt at h
  split at h
  · cases h
  · cases hg : e.f.go with
    | none =>
      simp only [hg, Except.ok.injEq] at h; subst h
      exact OpKeeps.nil (keeps_addLine _ _ _ _ hi.view2)
    | some g =>
      simp only [hg, Except.ok.injEq] at h; subst h
      refine OpKeeps.one (entGo g) (mem_entries_go hg) (keeps_updateTokens _ _ _) ?_
      intro t s h; simp only [entGo] at h; rw [h]; rfl

theorem dropGo_keeps (e : EFile) : OpKeeps e (dropGoStmt e) .dropGo := by
  unfold dropGoStmt
  cases hg : e.f.go with
  | none => exact OpKeeps.nil (Keeps.refl _ _)
  | some g =>
    refine OpKeeps.one (entGo g) (mem_entries_go hg) (keeps_markRemoved _ _) ?_
    intro t s h; simp only [entGo] at h; rw [h]; rfl

theorem addToolchain_keeps (e e' : EFile) (v : Bytes) (hi : Inv e) (h : addToolchainStmt e v = .ok e') :
    OpKeeps e e' (.addToolchain v) := by
  unfold addToolchainStmt at h
  split at h
  · cases h
  · cases hg : e.f.toolchain with
    | none =>
      simp only [hg, Except.ok.injEq] at h; subst h
      exact OpKeeps.nil (keeps_addLine _ _ _ _ hi.view2)
    | some g =>
      simp only [hg, Except.ok.injEq] at h; subst h
      refine OpKeeps.one (entTc g) (mem_entries_toolchain hg) (keeps_updateTokens _ _ _) ?_
      intro t s h; simp only [entTc] at h; rw [h]; rfl

theorem dropToolchain_keeps (e : EFile) : OpKeeps e (dropToolchainStmt e) .dropToolchain := by
  unfold dropToolchainStmt
  cases hg : e.f.toolchain with
  | none => exact OpKeeps.nil (Keeps.refl _ _)
  | some g =>
    refine OpKeeps.one (entTc g) (mem_entries_toolchain hg) (keeps_markRemoved _ _) ?_
    intro t s h; simp only [entTc] at h; rw [h]; rfl


/-- the operation touches lines of entries of one typed list selected by `m` -/
theorem OpKeeps.of_src {e e' : EFile} {op : Op} {α : Type} (S : List Nat) (L : List α) (m : α → Bool) (id : α → Nat)
    (mk : α → Ent) (hk : Keeps S e.f.syn.stmts e'.f.syn.stmts) (hmk : ∀ x, (mk x).id = id x)
    (hmem : ∀ x ∈ L, m x = true → mk x ∈ entries e.f) (hsrc : ∀ d ∈ S, ∃ x ∈ L, m x = true ∧ id x = d)
    (ht : ∀ x, m x = true → ∀ t s, (mk x).acc t s → Targets op t) : OpKeeps e e' op := by
  refine ⟨S, hk.below _, ?_⟩
  intro i hi
  rcases hsrc i hi with ⟨x, hx, hmx, hid⟩
  exact Or.inr ⟨mk x, hmem x hx hmx, by rw [hmk, hid], ht x hmx⟩

theorem mem_entries_godebug {f : File} {g : Godebug} (h : g ∈ f.godebug) (hl : liveG g = true) : entG g ∈ entries f := by
  rw [entries_godebug]
  exact List.mem_append_right _ (List.mem_append_left _ ((mem_entsOf liveG entG).2 ⟨g, h, hl, rfl⟩))
theorem mem_entries_require {f : File} {g : Require} (h : g ∈ f.require) (hl : liveRq g = true) : entRq g ∈ entries f := by
  rw [entries_require]
  exact List.mem_append_right _ (List.mem_append_left _ ((mem_entsOf liveRq entRq).2 ⟨g, h, hl, rfl⟩))
theorem mem_entries_exclude {f : File} {g : Exclude} (h : g ∈ f.exclude) (hl : liveX g = true) : entX g ∈ entries f := by
  rw [entries_exclude]
  exact List.mem_append_right _ (List.mem_append_left _ ((mem_entsOf liveX entX).2 ⟨g, h, hl, rfl⟩))
theorem mem_entries_replace {f : File} {g : Replace} (h : g ∈ f.replace) (hl : liveRp g = true) : entRp g ∈ entries f := by
  rw [entries_replace]
  exact List.mem_append_right _ (List.mem_append_left _ ((mem_entsOf liveRp entRp).2 ⟨g, h, hl, rfl⟩))
theorem mem_entries_retract {f : File} {g : Retract} (h : g ∈ f.retract) (hl : liveRt g = true) : entRt g ∈ entries f := by
  rw [entries_retract]
  exact List.mem_append_right _ (List.mem_append_left _ ((mem_entsOf liveRt entRt).2 ⟨g, h, hl, rfl⟩))
theorem mem_entries_tool {f : File} {g : Tool} (h : g ∈ f.tool) (hl : liveT g = true) : entT g ∈ entries f := by
  rw [entries_tool]
  exact List.mem_append_right _ (List.mem_append_left _ ((mem_entsOf liveT entT).2 ⟨g, h, hl, rfl⟩))

theorem addGodebug_keeps (e e' : EFile) (k v : Bytes) (hk : k ≠ []) (hi : Inv e) (h : addGodebug e k v = .ok e') :
    OpKeeps e e' (.addGodebug k v) := by
  unfold addGodebug addGodebugCore at h
  simp only [bind, Except.bind] at h
  cases hr : firstRest (fun g : Godebug => g.key == k) (·.lineId) (fun g => { g with value := v }) clearedGodebug e.f.godebug true with
  | error err => simp [hr] at h
  | ok r =>
    rcases r with ⟨gd', first, dead⟩
    simp only [hr] at h
    rcases firstRest_src _ _ _ _ _ _ _ _ _ hr with ⟨s1, s2⟩
    cases first with
    | none =>
      simp only [pure, Except.pure, Except.ok.injEq] at h; subst h
      exact OpKeeps.nil (keeps_addLine _ _ _ _ hi.view2)
    | some i =>
      simp only [pure, Except.pure, Except.ok.injEq] at h; subst h
      refine OpKeeps.of_src ([i] ++ dead) e.f.godebug (fun g : Godebug => g.key == k) (·.lineId) entG
        ((keeps_updateTokens _ _ _).trans (keeps_markAll _ _)) (fun _ => rfl)
        (fun x hx hm => mem_entries_godebug hx (ne_nil_of_beq hk hm)) ?_ ?_
      · intro d hd
        rcases List.mem_append.1 hd with hd | hd
        · rw [List.mem_singleton.1 hd]; exact s2 i rfl
        · exact s1 d hd
      · intro x hm t s hacc
        simp only [entG] at hacc
        exact ⟨x.value, by rw [hacc, eq_of_beq hm]⟩

theorem dropGodebug_keeps (e e' : EFile) (k : Bytes) (hk : k ≠ []) (h : dropGodebug e k = .ok e') :
    OpKeeps e e' (.dropGodebug k) := by
  unfold dropGodebug at h
  simp only [bind, Except.bind] at h
  cases hr : clearAll (fun g : Godebug => g.key == k) (·.lineId) clearedGodebug e.f.godebug with
  | error err => simp [hr] at h
  | ok r =>
    rcases r with ⟨gd', dead⟩
    simp only [hr, pure, Except.pure, Except.ok.injEq] at h; subst h
    refine OpKeeps.of_src dead e.f.godebug (fun g : Godebug => g.key == k) (·.lineId) entG (keeps_markAll _ _) (fun _ => rfl)
      (fun x hx hm => mem_entries_godebug hx (ne_nil_of_beq hk hm)) (clearAll_src _ _ _ _ _ _ hr) ?_
    intro x hm t s hacc
    simp only [entG] at hacc
    exact ⟨x.value, by rw [hacc, eq_of_beq hm]⟩

theorem addNewRequire_keeps (e : EFile) (p v : Bytes) (b : Bool) (hi : Inv e) (op : Op) : OpKeeps e (addNewRequire e p v b) op := by
  refine ⟨[], ?_, fun _ h => by cases h⟩
  have h1 := keeps_addLine e.f.syn none [B "require", autoQuote p, v] e.next hi.view2
  have h2 := keeps_updateLine (addLine e.f.syn none [B "require", autoQuote p, v] e.next) e.next (setIndirectLine b)
  have : Keeps ([] ++ [e.next]) e.f.syn.stmts (addNewRequire e p v b).f.syn.stmts := h1.trans h2
  exact this.below_fresh (fun i hi => by rw [List.mem_singleton.1 hi]; exact Nat.le_refl _)

theorem addRequire_keeps (e e' : EFile) (p v : Bytes) (hp : p ≠ []) (hi : Inv e) (h : addRequire e p v = .ok e') :
    OpKeeps e e' (.addRequire p v) := by
  unfold addRequire at h
  simp only [bind, Except.bind] at h
  cases hr : firstRest (fun r : Require => r.mod.path == p) (·.lineId)
      (fun r => { r with mod := { r.mod with version := v } }) clearedRequire e.f.require true with
  | error err => simp [hr] at h
  | ok r =>
    rcases r with ⟨rq', first, dead⟩
    simp only [hr] at h
    rcases firstRest_src _ _ _ _ _ _ _ _ _ hr with ⟨s1, s2⟩
    cases first with
    | none =>
      simp only [pure, Except.pure, Except.ok.injEq] at h; subst h
      exact addNewRequire_keeps e p v false hi _
    | some i =>
      simp only [pure, Except.pure, Except.ok.injEq] at h; subst h
      refine OpKeeps.of_src ([i] ++ dead) e.f.require (fun r : Require => r.mod.path == p) (·.lineId) entRq
        ((keeps_updateTokens _ _ _).trans (keeps_markAll _ _)) (fun _ => rfl)
        (fun x hx hm => mem_entries_require hx (ne_nil_of_beq hp hm)) ?_ ?_
      · intro d hd
        rcases List.mem_append.1 hd with hd | hd
        · rw [List.mem_singleton.1 hd]; exact s2 i rfl
        · exact s1 d hd
      · intro x hm t s hacc
        simp only [entRq] at hacc
        exact ⟨x.mod.version, by rw [hacc.1, eq_of_beq hm]⟩

theorem dropRequire_keeps (e e' : EFile) (p : Bytes) (hp : p ≠ []) (h : dropRequire e p = .ok e') :
    OpKeeps e e' (.dropRequire p) := by
  unfold dropRequire at h
  simp only [bind, Except.bind] at h
  cases hr : clearAll (fun r : Require => r.mod.path == p) (·.lineId) clearedRequire e.f.require with
  | error err => simp [hr] at h
  | ok r =>
    rcases r with ⟨l', dead⟩
    simp only [hr, pure, Except.pure, Except.ok.injEq] at h; subst h
    refine OpKeeps.of_src dead e.f.require (fun r : Require => r.mod.path == p) (·.lineId) entRq (keeps_markAll _ _) (fun _ => rfl)
      (fun x hx hm => mem_entries_require hx (ne_nil_of_beq hp hm)) (clearAll_src _ _ _ _ _ _ hr) ?_
    intro x hm t s hacc
    simp only [entRq] at hacc
    exact ⟨x.mod.version, by rw [hacc.1, eq_of_beq hm]⟩


theorem addExclude_keeps (e e' : EFile) (p v : Bytes) (hi : Inv e) (h : addExclude e p v = .ok e') :
    OpKeeps e e' (.addExclude p v) := by
  unfold addExclude at h
  split at h
  · cases h
  · split at h
    · simp only [Except.ok.injEq] at h; subst h; exact OpKeeps.nil (Keeps.refl _ _)
    · simp only [Except.ok.injEq] at h; subst h
      exact OpKeeps.nil (keeps_addLinePtr _ _ _ _ hi.view2)

theorem dropExclude_keeps (e e' : EFile) (p v : Bytes) (hp : p ≠ []) (h : dropExclude e p v = .ok e') :
    OpKeeps e e' (.dropExclude p v) := by
  unfold dropExclude at h
  simp only [bind, Except.bind] at h
  cases hr : clearAll (fun x : Exclude => x.mod.path == p && x.mod.version == v) (·.lineId) clearedExclude e.f.exclude with
  | error err => simp [hr] at h
  | ok r =>
    rcases r with ⟨l', dead⟩
    simp only [hr, pure, Except.pure, Except.ok.injEq] at h; subst h
    refine OpKeeps.of_src dead e.f.exclude (fun x : Exclude => x.mod.path == p && x.mod.version == v) (·.lineId) entX
      (keeps_markAll _ _) (fun _ => rfl)
      (fun x hx hm => mem_entries_exclude hx (by simp only [Bool.and_eq_true] at hm; exact ne_nil_of_beq hp hm.1))
      (clearAll_src _ _ _ _ _ _ hr) ?_
    intro x hm t s hacc
    simp only [Bool.and_eq_true] at hm
    simp only [entX] at hacc
    show t = _
    rw [hacc, eq_of_beq hm.1, eq_of_beq hm.2]

theorem addReplace_keeps (e e' : EFile) (op ov np nv : Bytes) (hop : op ≠ []) (hi : Inv e) (h : addReplace e op ov np nv = .ok e') :
    OpKeeps e e' (.addReplace op ov np nv) := by
  unfold addReplace addReplaceCore at h
  simp only [bind, Except.bind] at h
  cases hr : firstRest (fun r : Replace => r.old.path == op && (ov.isEmpty || r.old.version == ov)) (·.lineId)
      (fun r => { r with old := { path := op, version := ov }, new := { path := np, version := nv } }) clearedReplace e.f.replace true with
  | error err => simp [hr] at h
  | ok r =>
    rcases r with ⟨rp', first, dead⟩
    simp only [hr] at h
    rcases firstRest_src _ _ _ _ _ _ _ _ _ hr with ⟨s1, s2⟩
    cases first with
    | none =>
      simp only [pure, Except.pure, Except.ok.injEq] at h; subst h
      exact OpKeeps.nil (keeps_addLinePtr _ _ _ _ hi.view2)
    | some i =>
      simp only [pure, Except.pure, Except.ok.injEq] at h; subst h
      refine OpKeeps.of_src ([i] ++ dead) e.f.replace (fun r : Replace => r.old.path == op && (ov.isEmpty || r.old.version == ov))
        (·.lineId) entRp ((keeps_updateTokens _ _ _).trans (keeps_markAll _ _)) (fun _ => rfl)
        (fun x hx hm => mem_entries_replace hx (by simp only [Bool.and_eq_true] at hm; exact ne_nil_of_beq hop hm.1)) ?_ ?_
      · intro d hd
        rcases List.mem_append.1 hd with hd | hd
        · rw [List.mem_singleton.1 hd]; exact s2 i rfl
        · exact s1 d hd
      · intro x hm t s hacc
        simp only [Bool.and_eq_true] at hm
        simp only [entRp] at hacc
        exact ⟨x, eq_of_beq hm.1, hacc⟩

theorem dropReplace_keeps (e e' : EFile) (op ov : Bytes) (hop : op ≠ []) (h : dropReplace e op ov = .ok e') :
    OpKeeps e e' (.dropReplace op ov) := by
  unfold dropReplace dropReplaceCore at h
  simp only [bind, Except.bind] at h
  cases hr : clearAll (fun r : Replace => r.old.path == op && r.old.version == ov) (·.lineId) clearedReplace e.f.replace with
  | error err => simp [hr] at h
  | ok r =>
    rcases r with ⟨l', dead⟩
    simp only [hr, pure, Except.pure, Except.ok.injEq] at h; subst h
    refine OpKeeps.of_src dead e.f.replace (fun r : Replace => r.old.path == op && r.old.version == ov) (·.lineId) entRp
      (keeps_markAll _ _) (fun _ => rfl)
      (fun x hx hm => mem_entries_replace hx (by simp only [Bool.and_eq_true] at hm; exact ne_nil_of_beq hop hm.1))
      (clearAll_src _ _ _ _ _ _ hr) ?_
    intro x hm t s hacc
    simp only [Bool.and_eq_true] at hm
    simp only [entRp] at hacc
    exact ⟨x, eq_of_beq hm.1, eq_of_beq hm.2, hacc⟩

theorem addRetract_keeps (e e' : EFile) (vi : VersionInterval) (why : Bytes) (hi : Inv e) (h : addRetract e vi why = .ok e') (op : Op) :
    OpKeeps e e' op := by
  rw [addRetract_eq] at h
  unfold addRetractP at h
  split at h
  · cases h
  · split at h
    · cases h
    · simp only [Except.ok.injEq] at h; subst h
      refine ⟨[], ?_, fun _ h => by cases h⟩
      have h1 := keeps_addLine e.f.syn none (if vi.low == vi.high then [B "retract", autoQuote vi.low]
        else [B "retract", [91], autoQuote vi.low, [44], autoQuote vi.high, [93]]) e.next hi.view2
      have h2 := keeps_updateLine (addLine e.f.syn none (if vi.low == vi.high then [B "retract", autoQuote vi.low]
        else [B "retract", [91], autoQuote vi.low, [44], autoQuote vi.high, [93]]) e.next) e.next
        (fun l => { l with comments := { l.comments with before := l.comments.before ++
          (if why.isEmpty then [] else (splitOn 10 why).map fun line => ({ token := B "// " ++ line } : Comment)) } })
      have := h1.trans h2
      exact this.below_fresh (fun i hi => by rw [List.mem_singleton.1 hi]; exact Nat.le_refl _)

theorem dropRetract_keeps (e e' : EFile) (lo hi' : Bytes) (hne : lo ≠ [] ∨ hi' ≠ [])
    (h : dropRetract e { low := lo, high := hi' } = .ok e') : OpKeeps e e' (.dropRetract lo hi') := by
  unfold dropRetract at h
  simp only [bind, Except.bind] at h
  cases hr : clearAll (fun r : Retract => r.interval == ({ low := lo, high := hi' } : VersionInterval)) (·.lineId) clearedRetract e.f.retract with
  | error err => simp [hr] at h
  | ok r =>
    rcases r with ⟨l', dead⟩
    simp only [hr, pure, Except.pure, Except.ok.injEq] at h; subst h
    refine OpKeeps.of_src dead e.f.retract (fun r : Retract => r.interval == ({ low := lo, high := hi' } : VersionInterval)) (·.lineId) entRt
      (keeps_markAll _ _) (fun _ => rfl) ?_ (clearAll_src _ _ _ _ _ _ hr) ?_
    · intro x hx hm
      refine mem_entries_retract hx ?_
      have : x.interval = { low := lo, high := hi' } := eq_of_beq hm
      simp only [liveRt, this]
      rcases hne with h1 | h1
      · simp [ne_nil_live h1]
      · simp [ne_nil_live h1]
    · intro x hm t s hacc
      exact ⟨x, eq_of_beq hm, hacc⟩

theorem dropTool_keeps (e e' : EFile) (p : Bytes) (hp : p ≠ []) (h : dropTool e p = .ok e') : OpKeeps e e' (.dropTool p) := by
  unfold dropTool at h
  simp only [bind, Except.bind] at h
  cases hr : clearAll (fun t : Tool => t.path == p) (·.lineId) clearedTool e.f.tool with
  | error err => simp [hr] at h
  | ok r =>
    rcases r with ⟨l', dead⟩
    simp only [hr, pure, Except.pure, Except.ok.injEq] at h; subst h
    refine OpKeeps.of_src dead e.f.tool (fun t : Tool => t.path == p) (·.lineId) entT (keeps_markAll _ _) (fun _ => rfl)
      (fun x hx hm => mem_entries_tool hx (ne_nil_of_beq hp hm)) (clearAll_src _ _ _ _ _ _ hr) ?_
    intro x hm t s hacc
    simp only [entT] at hacc
    rcases hacc with ⟨y, h1, h2⟩
    exact ⟨y, h1, by rw [← eq_of_beq hm]; exact h2⟩

/-- SortBlocks removes only the lines of the documented de-duplication (`kill3`) -/
theorem keeps_sortBlocks (e : EFile) : Keeps (kill3 e.f) e.f.syn.stmts (sortBlocks e).f.syn.stmts := by
  rw [sortBlocks_eq_sem e]
  have := (keeps_dropKilled (kill3 e.f) e.f.syn.stmts).trans (keeps_sortStmts (semOf e.f) false _)
  simpa using this

theorem sortBlocks_keeps (e : EFile) : OpKeeps e (sortBlocks e) .sortBlocks :=
  ⟨kill3 e.f, (keeps_sortBlocks e).below _, fun _ hi => Or.inl ⟨rfl, hi⟩⟩

theorem cleanup_keeps (e : EFile) (op : Op) : OpKeeps e (cleanup e) op := OpKeeps.nil (keeps_cleanupStmts _)

end ModVerif.Modfile.Edit
