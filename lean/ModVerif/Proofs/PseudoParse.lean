/- Helper lemmas for C18: parsePseudoVersion and the accessors on a pseudo-version text. -/
import ModVerif.Proofs.PseudoMain
namespace ModVerif.Proofs.Pseudo
open ModVerif ModVerif.PseudoSpec
open ModVerif.Pseudo hiding isDigit isAlnum

/-- the `base` string parsePseudoVersion extracts: "vX.0.0", "vX.Y.(Z+1)-0" or "vX.Y.Z-pre.0" -/
def pvBase (maj min pat R0 : Bytes) : Bytes :=
  118 :: maj ++ 46 :: min ++ 46 :: pat ++ (if R0.isEmpty then [] else 45 :: R0.dropLast)

/-- the last-index computations of parsePseudoVersion on the text before the revision -/
theorem parse_inner {maj min pat R0 ts : Bytes}
    (hR : Mid min pat R0) (hts : Ts ts) :
    let v := pvP maj min pat R0 ++ ts
    ∃ (a2 b2 : Bytes), splitLast 45 v = some (a2, b2) ∧
      ((R0 = [] ∧ a2 = pvBase maj min pat R0 ∧ b2 = ts ∧
          ∃ a b, splitLast 46 v = some (a, b) ∧ a.length < a2.length) ∨
       (R0 ≠ [] ∧ splitLast 46 v = some (pvBase maj min pat R0, ts) ∧ a2.length < (pvBase maj min pat R0).length)) := by
  intro v
  obtain ⟨nd45, nd46, _⟩ := digits_no ts hts.2
  cases hR with
  | nobase =>
    have e1 : v = (118 :: maj ++ [46, 48, 46, 48]) ++ 45 :: ts := by simp [v, pvP]
    have e2 : v = (118 :: maj ++ [46, 48]) ++ 46 :: ([48, 45] ++ ts) := by simp [v, pvP]
    refine ⟨118 :: maj ++ [46, 48, 46, 48], ts, by rw [e1]; exact splitLast_append 45 _ _ nd45, Or.inl ⟨rfl, ?_, rfl, ?_⟩⟩
    · simp [pvBase]
    · refine ⟨118 :: maj ++ [46, 48], [48, 45] ++ ts, ?_, by simp⟩
      rw [e2]; apply splitLast_append
      simp [nd46]
  | release =>
    have e1 : v = (118 :: maj ++ 46 :: min ++ 46 :: pat ++ [45, 48]) ++ 46 :: ts := by simp [v, pvP]
    have hb : pvBase maj min pat [48, 46] = 118 :: maj ++ 46 :: min ++ 46 :: pat ++ [45, 48] := by simp [pvBase]
    have hmem : (45 : UInt8) ∈ (118 :: maj ++ 46 :: min ++ 46 :: pat ++ [45, 48] : Bytes) := by simp
    obtain ⟨a2, b2, s1, s2⟩ := last_dash_before_dot 45 46 (by decide) _ ts nd45 hmem
    refine ⟨a2, b2, by rw [e1]; exact s1, Or.inr ⟨by simp, ?_, ?_⟩⟩
    · rw [e1, hb]; exact splitLast_append 46 _ _ nd46
    · rw [hb]; exact s2
  | prerelease _ _ body hb' hs =>
    have e1 : v = (118 :: maj ++ 46 :: min ++ 46 :: pat ++ 45 :: body ++ [46, 48]) ++ 46 :: ts := by simp [v, pvP]
    have hb : pvBase maj min pat (body ++ [46, 48, 46]) = 118 :: maj ++ 46 :: min ++ 46 :: pat ++ 45 :: body ++ [46, 48] := by
      have : (body ++ [46, 48, 46] : Bytes) = (body ++ [46, 48]) ++ [46] := by simp
      simp only [pvBase]
      rw [this, List.dropLast_concat]
      simp
    have hmem : (45 : UInt8) ∈ (118 :: maj ++ 46 :: min ++ 46 :: pat ++ 45 :: body ++ [46, 48] : Bytes) := by simp
    obtain ⟨a2, b2, s1, s2⟩ := last_dash_before_dot 45 46 (by decide) _ ts nd45 hmem
    refine ⟨a2, b2, by rw [e1]; exact s1, Or.inr ⟨by simp, ?_, ?_⟩⟩
    · rw [e1, hb]; exact splitLast_append 46 _ _ nd46
    · rw [hb]; exact s2

/-- parsePseudoVersion takes a pseudo-version text apart into base, time stamp, revision and build -/
theorem parsePseudo_pvText {maj min pat R0 ts rev bld : Bytes} (hmaj : Num maj) (hmin : Num min) (hpat : Num pat)
    (hR : Mid min pat R0) (hts : Ts ts) (hrev : Rev rev) (hbld : BuildOK bld) :
    parsePseudoVersion (pvText maj min pat R0 ts rev bld)
      = .ok ⟨pvBase maj min pat R0, ts, rev, bld⟩ := by
  have hps := (isPseudoVersion_pvText hmaj hmin hpat hR hts hrev hbld).2
  have hbuild := build_of_parse (parse_pvText hmaj hmin hpat hR hts hrev hbld)
  unfold parsePseudoVersion
  simp only [hps, Bool.not_true, Bool.false_eq_true, if_false, hbuild]
  rw [pvText_eq, trimSuffix_append, splitLast_head hrev]
  obtain ⟨a2, b2, s45, hcase⟩ := parse_inner (maj := maj) hR hts
  simp only [s45]
  rcases hcase with ⟨_, ea, eb, a, b, s46, hlt⟩ | ⟨_, s46, hlt⟩
  · simp only [s46]
    have : ¬ ((a.length : Int) > (a2.length : Int)) := by omega
    rw [if_neg this]
    simp [ea, eb]
  · simp only [s46]
    have : ((pvBase maj min pat R0).length : Int) > (a2.length : Int) := by omega
    rw [if_pos this]


theorem rev_pvText {maj min pat R0 ts rev bld : Bytes} (hmaj : Num maj) (hmin : Num min) (hpat : Num pat)
    (hR : Mid min pat R0) (hts : Ts ts) (hrev : Rev rev) (hbld : BuildOK bld) :
    pseudoVersionRev (pvText maj min pat R0 ts rev bld) = .ok rev := by
  simp [pseudoVersionRev, parsePseudo_pvText hmaj hmin hpat hR hts hrev hbld]

theorem time_pvText {maj min pat R0 ts rev bld : Bytes} (hmaj : Num maj) (hmin : Num min) (hpat : Num pat)
    (hR : Mid min pat R0) (hts : Ts ts) (hrev : Rev rev) (hbld : BuildOK bld) :
    pseudoVersionTime (pvText maj min pat R0 ts rev bld) = if timeValid ts then .ok ts else .error .time := by
  simp [pseudoVersionTime, parsePseudo_pvText hmaj hmin hpat hR hts hrev hbld]

theorem preOK_nil : PreOK [] := Or.inl rfl
theorem buildOK_nil : BuildOK [] := Or.inl rfl

/-- form (1): no base -/
theorem base_nobase {maj ts rev : Bytes} (hmaj : Num maj) (hts : Ts ts) (hrev : Rev rev) :
    pseudoVersionBase (pvText maj [48] [48] [] ts rev []) = .ok [] := by
  have hp := parsePseudo_pvText hmaj num0 num0 Mid.nobase hts hrev buildOK_nil
  have hpre : Semver.prerelease (pvBase maj [48] [48] []) = [] := by
    have := parse_full hmaj num0 num0 preOK_nil buildOK_nil
    simp only [List.append_nil] at this
    have e : pvBase maj [48] [48] [] = 118 :: maj ++ 46 :: [48] ++ 46 :: [48] := by simp [pvBase]
    rw [e]; unfold Semver.prerelease; rw [this]
  simp [pseudoVersionBase, hp, hpre]

/-- forms (2), (3): the base is recovered by decrementing the patch number -/
theorem base_release {maj min pat pat0 ts rev bld : Bytes} (hmaj : Num maj) (hmin : Num min) (hpat : Num pat)
    (hts : Ts ts) (hrev : Rev rev) (hbld : BuildOK bld) (hdec : decDecimal pat = pat0) (hne : pat0 ≠ []) :
    pseudoVersionBase (pvText maj min pat [48, 46] ts rev bld)
      = .ok (118 :: maj ++ 46 :: min ++ 46 :: pat0 ++ bld) := by
  have hp := parsePseudo_pvText hmaj hmin hpat (Mid.release min pat) hts hrev hbld
  have hb : pvBase maj min pat [48, 46] = 118 :: maj ++ 46 :: min ++ 46 :: pat ++ [45, 48] := by simp [pvBase]
  have hpre0 : PreOK [45, 48] := Or.inr ⟨[48], rfl, by decide, by decide⟩
  have hpre : Semver.prerelease (pvBase maj min pat [48, 46]) = [45, 48] := by
    have := parse_full hmaj hmin hpat hpre0 buildOK_nil
    simp only [List.append_nil] at this
    rw [hb]; unfold Semver.prerelease; rw [this]
  have htrim : trimSuffix (pvBase maj min pat [48, 46]) [45, 48] = 118 :: maj ++ 46 :: min ++ 46 :: pat := by
    rw [hb]; exact trimSuffix_append _ _
  have hsplit : splitLast 46 (118 :: maj ++ 46 :: min ++ 46 :: pat) = some (118 :: maj ++ 46 :: min, pat) := by
    exact splitLast_append 46 (118 :: maj ++ 46 :: min) pat (digits_no pat hpat.2.1).2.1
  have hne' : pat0.isEmpty = false := by
    cases pat0 with
    | nil => exact absurd rfl hne
    | cons _ _ => rfl
  simp only [pseudoVersionBase, hp, hpre, htrim, hsplit, hdec, hne']
  simp

/-- forms (4), (5): the base is the text before ".0." -/
theorem base_prerelease {maj min pat body ts rev bld : Bytes} (hmaj : Num maj) (hmin : Num min) (hpat : Num pat)
    (hb' : ∀ c ∈ body, identOrDot c = true) (hs : ∀ s ∈ splitOn 46 body, s ≠ [] ∧ Semver.isBadNum s = false)
    (hts : Ts ts) (hrev : Rev rev) (hbld : BuildOK bld) :
    pseudoVersionBase (pvText maj min pat (body ++ [46, 48, 46]) ts rev bld)
      = .ok (118 :: maj ++ 46 :: min ++ 46 :: pat ++ 45 :: body ++ bld) := by
  have hp := parsePseudo_pvText hmaj hmin hpat (Mid.prerelease min pat body hb' hs) hts hrev hbld
  have hb : pvBase maj min pat (body ++ [46, 48, 46]) = (118 :: maj ++ 46 :: min ++ 46 :: pat ++ 45 :: body) ++ [46, 48] := by
    have : (body ++ [46, 48, 46] : Bytes) = (body ++ [46, 48]) ++ [46] := by simp
    simp only [pvBase]
    rw [this, List.dropLast_concat]
    simp
  have hpre0 : PreOK (45 :: body ++ [46, 48]) := by
    refine Or.inr ⟨body ++ [46, 48], rfl, ?_, ?_⟩
    · intro c hc
      rcases List.mem_append.mp hc with h | h
      · exact hb' c h
      · simp at h; rcases h with rfl | rfl <;> decide
    · intro s hs'
      have : (body ++ [46, 48] : Bytes) = body ++ 46 :: [48] := by simp
      rw [this, splitOn_append_sep] at hs'
      rcases List.mem_append.mp hs' with h | h
      · exact hs s h
      · have : splitOn 46 [48] = [[48]] := by decide
        rw [this] at h; simp at h; subst h; exact ⟨by simp, bad48⟩
  have hpre : Semver.prerelease (pvBase maj min pat (body ++ [46, 48, 46])) = 45 :: body ++ [46, 48] := by
    have := parse_full hmaj hmin hpat hpre0 buildOK_nil
    simp only [List.append_nil] at this
    have e : (118 :: maj ++ 46 :: min ++ 46 :: pat ++ 45 :: body) ++ [46, 48]
        = 118 :: maj ++ 46 :: min ++ 46 :: pat ++ (45 :: body ++ [46, 48]) := by simp
    rw [hb, e]; unfold Semver.prerelease; rw [this]
  have hne1 : (45 :: body ++ [46, 48] : Bytes).isEmpty = false := rfl
  have hne2 : ((45 :: body ++ [46, 48] : Bytes) == [45, 48]) = false := by
    cases body <;> simp
  have hsuf : hasSuffixB (pvBase maj min pat (body ++ [46, 48, 46])) [46, 48] = true := by
    rw [hb]; exact hasSuffixB_append _ _
  have htrim : trimSuffix (pvBase maj min pat (body ++ [46, 48, 46])) [46, 48] = 118 :: maj ++ 46 :: min ++ 46 :: pat ++ 45 :: body := by
    rw [hb]; exact trimSuffix_append _ _
  simp only [pseudoVersionBase, hp, hpre, hne1, hne2, hsuf, htrim]
  simp

end ModVerif.Proofs.Pseudo
