/-
  General lemmas about the GoRt run-time vocabulary used by the tie proofs of the go.mod lexer (Tie/FnLex.lean):

  * `bytes.LastIndex(s, "\n")` with a one-byte needle, and the slice after it as `takeWhile` on the reversed string
    (the form the lexer model keeps its consumed input in);
  * `strings.HasSuffix` / `strings.TrimSuffix` on a string given by its reversed bytes;
  * `utf8.DecodeRune` on a non-empty string;
  * `rune(c)` on a value in the rune range.

  Core Lean only.  Namespace `ModVerif.GoRtLex`.
-/
import ModVerif.Basic.GoRt
import ModVerif.Basic.GoRtUtf8
import ModVerif.Basic.GoRtStrings
import ModVerif.Proofs.GoRtLemmas
import ModVerif.Proofs.GoRtLemmasStr
namespace ModVerif.GoRtLex
open ModVerif ModVerif.GoRt ModVerif.GoRtStr

/-- decidable equality on results, so that the non-vacuity examples of the tie theorems close by kernel `decide` -/
instance exceptDecEq {ε α : Type} [DecidableEq ε] [DecidableEq α] : DecidableEq (Except ε α)
  | .ok a, .ok b => if h : a = b then isTrue (by rw [h]) else isFalse (fun e => h (Except.ok.inj e))
  | .error a, .error b => if h : a = b then isTrue (by rw [h]) else isFalse (fun e => h (Except.error.inj e))
  | .ok _, .error _ => isFalse (fun e => by cases e)
  | .error _, .ok _ => isFalse (fun e => by cases e)

/-! ### strings.LastIndex with a one-byte needle -/

theorem lastIndexAux_single (c : UInt8) : ∀ (s : Bytes) (k : Nat) (acc : Int),
    lastIndexAux [c] s k acc = lastIndexByteAux c s k acc
  | [], _, _ => by simp [lastIndexAux, lastIndexByteAux]
  | x :: xs, k, acc => by
    have e : isPrefixOfB [c] (x :: xs) = (x == c) := by
      rw [isPrefixOfB_single, Bool.eq_iff_iff]; simp only [beq_iff_eq]; exact eq_comm
    simp only [lastIndexAux, lastIndexByteAux, e]
    exact lastIndexAux_single c xs (k + 1) _

theorem lastIndex_single_not_mem (s : Bytes) (c : UInt8) (h : c ∉ s) : lastIndex s [c] = -1 := by
  simp [lastIndex, lastIndexAux_single, lastIndexByteAux_not_mem c s 0 _ h]

theorem lastIndex_single_split (pre suf : Bytes) (c : UInt8) (h : c ∉ suf) :
    lastIndex (pre ++ c :: suf) [c] = (pre.length : Int) := by
  simp [lastIndex, lastIndexAux_single, lastIndexByteAux_split c suf h pre 0]

/-- `s[LastIndex(s, c)+1 : len(s)]` is the part of `s` after its last `c` (all of `s` when there is none): the
    slice does not panic and equals `takeWhile (· != c)` on the reversed string, reversed. -/
theorem slice_after_lastIndex (s rest : Bytes) (c : UInt8) :
    slice (s ++ rest) (lastIndex s [c] + 1) (s.length : Int) = .ok ((s.reverse.takeWhile (· != c)).reverse) := by
  by_cases hc : c ∈ s
  · obtain ⟨pre, suf, rfl, hs⟩ := exists_last_split c s hc
    rw [lastIndex_single_split pre suf c hs, reverse_takeWhile_split pre suf c hs]
    have h1 : ((pre.length : Int) + 1) = ((pre.length + 1 : Nat) : Int) := by omega
    rw [h1, slice_natCast (by simp) (by simp), List.take_left]
    simp
  · rw [lastIndex_single_not_mem s c hc]
    have h1 : ((-1 : Int) + 1) = ((0 : Nat) : Int) := by omega
    rw [h1, slice_natCast (by omega) (by simp), List.take_left]
    have h2 : c ∉ s.reverse := by simpa using hc
    rw [takeWhile_ne_of_not_mem h2]
    simp

/-! ### HasSuffix / TrimSuffix on a string given by its reversed bytes -/

theorem hasSuffix_reverse (r p : Bytes) : hasSuffix r.reverse p = isPrefixOfB p.reverse r := by
  simp [hasSuffix, hasSuffixB]

theorem trimSuffix_reverse (r p : Bytes) :
    trimSuffix r.reverse p = if isPrefixOfB p.reverse r then (r.drop p.length).reverse else r.reverse := by
  unfold trimSuffix
  rw [show hasSuffixB r.reverse p = isPrefixOfB p.reverse r by simp [hasSuffixB]]
  split
  · rw [List.length_reverse, ← List.reverse_drop]
  · rfl

/-! ### utf8.DecodeRune -/

theorem decodeRune_cons (b : UInt8) (t : Bytes) :
    decodeRune (b :: t) = (((Utf8.decodeRune (b :: t)).1 : Int), ((Utf8.decodeRune (b :: t)).2 : Int)) := by
  simp [decodeRune]

theorem decodeRune_ne_nil {s : Bytes} (h : s ≠ []) :
    decodeRune s = (((Utf8.decodeRune s).1 : Int), ((Utf8.decodeRune s).2 : Int)) := by
  cases s with
  | nil => exact absurd rfl h
  | cons b t => exact decodeRune_cons b t

/-- a decoded rune is at most U+10FFFF -/
theorem decode_le {s : Bytes} {r w : Nat} (h : Utf8.decode s = some (r, w)) : r ≤ 0x10FFFF := by
  unfold Utf8.decode at h
  split at h
  · simp at h
  · rename_i b0 rest
    simp only at h
    have hb := b0.toNat_lt
    repeat' split at h
    all_goals first
      | (simp at h; done)
      | (simp only [Option.some.injEq, Prod.mk.injEq] at h
         obtain ⟨rfl, _⟩ := h
         try simp only [Bool.and_eq_true, Utf8.isCont, Utf8.inRange, decide_eq_true_eq, beq_iff_eq] at *
         omega)

theorem decodeRune_le (s : Bytes) : (Utf8.decodeRune s).1 ≤ 0x10FFFF := by
  unfold Utf8.decodeRune
  cases h : Utf8.decode s with
  | none => simp [Utf8.runeError]
  | some rw => obtain ⟨r, w⟩ := rw; exact decode_le h

/-! ### rune(c) -/

theorem toI32_natCast {n : Nat} (h : n < 2147483648) : toI32 (n : Int) = (n : Int) := by
  unfold toI32; simp only; split <;> omega

end ModVerif.GoRtLex
