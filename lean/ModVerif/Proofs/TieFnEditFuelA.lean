/-
  Closed fuel of the FnEdit session ties, part A (agent edit-fuel): the WEIGHT of a syntax tree and what the tree
  primitives of the model (read.go: `addLine`, `updateLine`, `markRemoved`, `Cleanup`; rule.go: `removeDups`, `SortBlocks`)
  do to it.

  `treeW stmts` = Σ over statements (1 for a comment block / parenthesis; `tokW token + 1` for a line;
  `tokW token + 1 + Σ lines (tokW token + 1)` for a block), `tokW t = 2·Σ|token| + #tokens`.  It dominates every tree
  measure the operation ties ask fuel for: `nodeCount`, `nodes`, `#statements`, `cmpSize` (`≤ treeW`), `sortSize` (`≤ 2·treeW`).

  GROWTH: `addLine` / `addLinePtr` add at most `tokW tokens + 3`; a line update `g` with `lineW (g l) ≤ lineW l + k` adds at
  most `k` (line ids pairwise different: `TreeWF.nodup`) — `updateLine tokens`: `k = tokW tokens`; `markRemoved`, `markAll`,
  `cleanupStmts`, `dropKilled` do not increase it; `sortStmts` keeps it.
-/
import ModVerif.Proofs.TieFnEditSessionB
import ModVerif.Proofs.TieFnEditWorkE
set_option linter.unusedSimpArgs false
set_option linter.unusedVariables false
namespace ModVerif.Tie.FnEditFuelA
open ModVerif ModVerif.Modfile
open ModVerif.TieFnEditAddLine (nodeCount walk_line walk_block walk_cb addLine_none addLine_some)
open ModVerif.Tie.FnEditSortB (nodes)
open ModVerif.Tie.FnEditSortD (cmpSize tokFuel)
open ModVerif.Tie.FnEditSortE (sortSize)
open ModVerif.Modfile.Edit (treeIds addLineWalk Hint mkLine headIs insertAfterId insertAt)

/-! ### weights -/

/-- weight of a token list: twice the bytes plus the number of tokens -/
def tokW (t : List Bytes) : Nat := 2 * (t.map List.length).sum + t.length

def lineW (l : Line) : Nat := tokW l.token + 1

def linesW : List Line → Nat
  | [] => 0
  | l :: ls => lineW l + linesW ls

def exprW : Expr → Nat
  | .line l => lineW l
  | .lineBlock b => tokW b.token + 1 + linesW b.lines
  | _ => 1

def treeW : List Expr → Nat
  | [] => 0
  | x :: xs => exprW x + treeW xs

@[simp] theorem tokW_nil : tokW [] = 0 := rfl
@[simp] theorem tokW_cons (a : Bytes) (t : List Bytes) : tokW (a :: t) = 2 * a.length + 1 + tokW t := by
  simp [tokW]; omega
@[simp] theorem tokW_append (a b : List Bytes) : tokW (a ++ b) = tokW a + tokW b := by
  induction a with
  | nil => simp
  | cons x xs ih => simp [ih]; omega

theorem tokW_take_drop (n : Nat) (t : List Bytes) : tokW (t.take n) + tokW (t.drop n) = tokW t := by
  rw [← tokW_append, List.take_append_drop]

theorem tokW_drop_le (n : Nat) (t : List Bytes) : tokW (t.drop n) ≤ tokW t := by
  have := tokW_take_drop n t; omega

theorem tokW_set_le (t : List Bytes) (i : Nat) (v : Bytes) : tokW (t.set i v) ≤ tokW t + 2 * v.length := by
  induction t generalizing i with
  | nil => simp
  | cons a t ih =>
    cases i with
    | zero => simp; omega
    | succ i => have := ih i; simp; omega

theorem tokFuel_eq (t : List Bytes) : tokFuel t = tokW t + 1 := rfl

@[simp] theorem linesW_nil : linesW [] = 0 := rfl
@[simp] theorem linesW_cons (l : Line) (ls : List Line) : linesW (l :: ls) = lineW l + linesW ls := rfl
@[simp] theorem linesW_append (a b : List Line) : linesW (a ++ b) = linesW a + linesW b := by
  induction a with
  | nil => simp
  | cons x xs ih => simp [ih]; omega

theorem linesW_filter_le (q : Line → Bool) : ∀ ls : List Line, linesW (ls.filter q) ≤ linesW ls
  | [] => Nat.le_refl _
  | l :: ls => by
    have := linesW_filter_le q ls
    by_cases h : q l <;> simp [List.filter_cons, h] <;> omega

theorem length_le_linesW : ∀ ls : List Line, ls.length ≤ linesW ls
  | [] => Nat.le_refl _
  | l :: ls => by have := length_le_linesW ls; simp [lineW]; omega

theorem lineW_le_linesW {l : Line} : ∀ {ls : List Line}, l ∈ ls → lineW l ≤ linesW ls
  | a :: ls, h => by
    rcases List.mem_cons.1 h with rfl | h
    · simp
    · have := lineW_le_linesW h; simp; omega

theorem linesW_eq_sum (ls : List Line) : linesW ls = (ls.map fun l => tokFuel l.token).sum := by
  induction ls with
  | nil => rfl
  | cons l ls ih => simp [ih, lineW, tokFuel_eq]

@[simp] theorem treeW_nil : treeW [] = 0 := rfl
@[simp] theorem treeW_cons (x : Expr) (xs : List Expr) : treeW (x :: xs) = exprW x + treeW xs := rfl
@[simp] theorem treeW_append (a b : List Expr) : treeW (a ++ b) = treeW a + treeW b := by
  induction a with
  | nil => simp
  | cons x xs ih => simp [ih]; omega

theorem exprW_pos (x : Expr) : 1 ≤ exprW x := by
  cases x <;> simp only [exprW, lineW] <;> omega

/-! ### the weight dominates the fuel measures of the tree -/

theorem nodeCount_le_treeW : ∀ ss : List Expr, nodeCount ss ≤ treeW ss
  | [] => Nat.le_refl _
  | s :: ss => by
    have ih := nodeCount_le_treeW ss
    cases s with
    | lineBlock b => have := length_le_linesW b.lines; simp only [nodeCount, treeW_cons, exprW]; omega
    | line l => simp only [nodeCount, treeW_cons, exprW, lineW]; omega
    | commentBlock c => simp only [nodeCount, treeW_cons, exprW]; omega
    | lparen c => simp only [nodeCount, treeW_cons, exprW]; omega
    | rparen c => simp only [nodeCount, treeW_cons, exprW]; omega

theorem nodes_le_treeW : ∀ ss : List Expr, nodes ss ≤ treeW ss
  | [] => Nat.le_refl _
  | s :: ss => by
    have ih := nodes_le_treeW ss
    cases s with
    | lineBlock b => have := length_le_linesW b.lines; simp only [nodes, treeW_cons, exprW]; omega
    | line l => simp only [nodes, treeW_cons, exprW, lineW]; omega
    | commentBlock c => simp only [nodes, treeW_cons, exprW]; omega
    | lparen c => simp only [nodes, treeW_cons, exprW]; omega
    | rparen c => simp only [nodes, treeW_cons, exprW]; omega

theorem sortSize_le_treeW : ∀ ss : List Expr, sortSize ss ≤ treeW ss
  | [] => Nat.le_refl _
  | s :: ss => by
    have ih := sortSize_le_treeW ss
    unfold sortSize at ih ⊢
    cases s with
    | lineBlock b =>
      simp only [cmpSize, treeW_cons, exprW, List.length_cons, ← linesW_eq_sum]; omega
    | line l => simp only [cmpSize, treeW_cons, exprW, lineW, List.length_cons]; omega
    | commentBlock c => simp only [cmpSize, treeW_cons, exprW, List.length_cons]; omega
    | lparen c => simp only [cmpSize, treeW_cons, exprW, List.length_cons]; omega
    | rparen c => simp only [cmpSize, treeW_cons, exprW, List.length_cons]; omega

/-! ### growth: `addLine` -/

theorem insertAfterId_linesW (hid : Nat) (nl : Line) : ∀ (ls r : List Line),
    insertAfterId hid nl ls = some r → linesW r = linesW ls + lineW nl
  | [], r, h => by simp [insertAfterId] at h
  | l :: ls, r, h => by
    unfold insertAfterId at h
    split at h
    · simp only [Option.some.injEq] at h; subst h; simp; omega
    · cases hr : insertAfterId hid nl ls with
      | none => rw [hr] at h; simp at h
      | some r' =>
        rw [hr] at h
        simp only [Option.some.injEq] at h
        subst h
        simp [insertAfterId_linesW hid nl ls r' hr]; omega

theorem lineW_mkLine (new : Nat) (t : List Bytes) (b : Bool) : lineW (mkLine new t b) = tokW t + 1 := rfl

theorem walk_treeW (hint : Hint) (tokens : List Bytes) (new : Nat) : ∀ (xs : List Expr) (i : Nat) (r : List Expr),
    addLineWalk hint tokens new xs i = some r → treeW r ≤ treeW xs + tokW tokens + 2
  | [], i, r, h => by simp [addLineWalk] at h
  | x :: xs, i, r, h => by
    have hd := tokW_drop_le 1 tokens
    have hmap : ∀ r, (addLineWalk hint tokens new xs (i + 1)).map (x :: ·) = some r → treeW r ≤ treeW (x :: xs) + tokW tokens + 2 := by
      intro r hr
      obtain ⟨r', hr', rfl⟩ := Option.map_eq_some_iff.1 hr
      have ih := walk_treeW hint tokens new xs (i + 1) r' hr'
      simp only [treeW_cons]; omega
    cases x with
    | commentBlock c => rw [walk_cb] at h; exact hmap r h
    | lparen c => exact hmap r h
    | rparen c => exact hmap r h
    | line l =>
      rw [walk_line] at h
      split at h
      · split at h
        · simp only [Option.some.injEq] at h; subst h; simp only [treeW_cons, exprW, lineW_mkLine]; omega
        · simp only [Option.some.injEq] at h; subst h
          have := tokW_take_drop 1 l.token
          simp only [treeW_cons, exprW, linesW_cons, linesW_nil, lineW, mkLine]; omega
      · exact hmap r h
    | lineBlock b =>
      rw [walk_block] at h
      split at h
      · split at h
        · simp only [Option.some.injEq] at h; subst h; simp only [treeW_cons, exprW, lineW_mkLine]; omega
        · simp only [Option.some.injEq] at h; subst h
          simp only [treeW_cons, exprW, linesW_append, linesW_cons, linesW_nil, lineW_mkLine]; omega
      · split at h
        · split at h
          · split at h
            · simp only [Option.some.injEq] at h; subst h; simp only [treeW_cons, exprW, lineW_mkLine]; omega
            · split at h
              · rename_i ls hls
                simp only [Option.some.injEq] at h; subst h
                simp only [treeW_cons, exprW, insertAfterId_linesW _ _ _ _ hls, lineW_mkLine]; omega
              · exact hmap r h
          · exact hmap r h
        · exact hmap r h

/-- **`addLine` adds at most the weight of the new tokens + 2** -/
theorem addLine_treeW (fs : FileSyntax) (hint : Option Nat) (tokens : List Bytes) (new : Nat) :
    treeW (Edit.addLine fs hint tokens new).stmts ≤ treeW fs.stmts + tokW tokens + 2 := by
  have happ : treeW (fs.stmts ++ [.line (mkLine new tokens false)]) ≤ treeW fs.stmts + tokW tokens + 2 := by
    simp only [treeW_append, treeW_cons, treeW_nil, exprW, lineW_mkLine]; omega
  cases hint with
  | some id =>
    rw [addLine_some]
    simp only []
    cases hw : addLineWalk (.line id) tokens new fs.stmts 0 with
    | none => exact happ
    | some r => exact walk_treeW _ _ _ _ _ _ hw
  | none =>
    rw [addLine_none]
    simp only []
    cases Edit.lastStmtWith (tokens.head?.getD []) fs.stmts 0 none with
    | none => exact happ
    | some i =>
      simp only []
      cases hw : addLineWalk (.stmt i) tokens new fs.stmts 0 with
      | none => exact happ
      | some r => exact walk_treeW _ _ _ _ _ _ hw

theorem addLinePtr_treeW (fs : FileSyntax) (hint : Option Nat) (tokens : List Bytes) (new : Nat) :
    treeW (Edit.addLinePtr fs hint tokens new).stmts ≤ treeW fs.stmts + tokW tokens + 2 := by
  have happ : treeW (fs.stmts ++ [.line (mkLine new tokens false)]) ≤ treeW fs.stmts + tokW tokens + 2 := by
    simp only [treeW_append, treeW_cons, treeW_nil, exprW, lineW_mkLine]; omega
  unfold Edit.addLinePtr
  split
  · split
    · exact happ
    · exact addLine_treeW _ _ _ _
  · exact happ

/-! ### growth: line updates -/

/-- number of lines with the id `id` -/
def cntL (id : Nat) (ls : List Line) : Nat := ((ls.map (·.id)).count id)

theorem updateLineIn_linesW (id : Nat) (g : Line → Line) (k : Nat) (hg : ∀ l, lineW (g l) ≤ lineW l + k) :
    ∀ ls : List Line, linesW (updateLineIn id g ls) ≤ linesW ls + k * cntL id ls
  | [] => by simp [updateLineIn]
  | l :: ls => by
    have ih := updateLineIn_linesW id g k hg ls
    unfold updateLineIn
    by_cases h : l.id = id
    · have h1 := hg l
      have : cntL id (l :: ls) = cntL id ls + 1 := by simp [cntL, h]
      rw [this, Nat.mul_add, Nat.mul_one]
      simp only [h, beq_self_eq_true, if_true, linesW_cons]; omega
    · have : cntL id (l :: ls) = cntL id ls := by simp [cntL, List.count_cons, h]
      rw [this]
      have hb : (l.id == id) = false := by simpa using h
      simp only [hb, Bool.false_eq_true, if_false, linesW_cons]; omega

theorem updateLineIn_linesW_le (id : Nat) (g : Line → Line) (hg : ∀ l, lineW (g l) ≤ lineW l) (ls : List Line) :
    linesW (updateLineIn id g ls) ≤ linesW ls := by
  have := updateLineIn_linesW id g 0 (fun l => by have := hg l; omega) ls
  simpa using this

theorem treeIds_cons_line (l : Line) (xs : List Expr) : treeIds (.line l :: xs) = l.id :: treeIds xs := by
  rw [Edit.treeIds_cons]; rfl

theorem treeIds_cons_block (b : LineBlock) (xs : List Expr) : treeIds (.lineBlock b :: xs) = b.lines.map (·.id) ++ treeIds xs := by
  rw [Edit.treeIds_cons]
  simp [treeIds, Edit.loc, Edit.locStmt, List.map_map, Function.comp_def]

theorem updateLine_treeW_cnt (id : Nat) (g : Line → Line) (k : Nat) (hg : ∀ l, lineW (g l) ≤ lineW l + k) :
    ∀ ss : List Expr, treeW ((({ stmts := ss } : FileSyntax).updateLine id g).stmts) ≤ treeW ss + k * (treeIds ss).count id := by
  intro ss
  induction ss with
  | nil => simp [FileSyntax.updateLine]
  | cons s ss ih =>
    simp only [FileSyntax.updateLine, List.map_cons, treeW_cons] at ih ⊢
    cases s with
    | line l =>
      rw [treeIds_cons_line, List.count_cons, Nat.mul_add]
      by_cases h : l.id = id
      · have h1 := hg l
        simp only [h, beq_self_eq_true, if_true, exprW, Nat.mul_one]; omega
      · have hb : (l.id == id) = false := by simpa using h
        simp only [hb, Bool.false_eq_true, if_false, exprW, Nat.mul_zero]; omega
    | lineBlock b =>
      rw [treeIds_cons_block, List.count_append, Nat.mul_add]
      have := updateLineIn_linesW id g k hg b.lines
      simp only [exprW, cntL] at this ⊢; omega
    | commentBlock c =>
      have : treeIds (Expr.commentBlock c :: ss) = treeIds ss := by rw [Edit.treeIds_cons]; rfl
      rw [this]; simp only [exprW]; omega
    | lparen c =>
      have : treeIds (Expr.lparen c :: ss) = treeIds ss := by rw [Edit.treeIds_cons]; rfl
      rw [this]; simp only [exprW]; omega
    | rparen c =>
      have : treeIds (Expr.rparen c :: ss) = treeIds ss := by rw [Edit.treeIds_cons]; rfl
      rw [this]; simp only [exprW]; omega

theorem updateLine_stmts (fs : FileSyntax) (id : Nat) (g : Line → Line) :
    (fs.updateLine id g).stmts = (({ stmts := fs.stmts } : FileSyntax).updateLine id g).stmts := rfl

/-- **a line update adds at most what it adds to one line** (line ids pairwise different) -/
theorem updateLine_treeW (fs : FileSyntax) (id : Nat) (g : Line → Line) (k : Nat) (hg : ∀ l, lineW (g l) ≤ lineW l + k)
    (hn : (treeIds fs.stmts).Nodup) : treeW (fs.updateLine id g).stmts ≤ treeW fs.stmts + k := by
  have h1 := updateLine_treeW_cnt id g k hg fs.stmts
  rw [← updateLine_stmts] at h1
  have h2 : (treeIds fs.stmts).count id ≤ 1 := List.nodup_iff_count.1 hn id
  have : k * (treeIds fs.stmts).count id ≤ k * 1 := Nat.mul_le_mul_left k h2
  omega

/-- a line update that does not increase the weight of a line does not increase the weight of the tree -/
theorem updateLine_treeW_le (fs : FileSyntax) (id : Nat) (g : Line → Line) (hg : ∀ l, lineW (g l) ≤ lineW l) :
    treeW (fs.updateLine id g).stmts ≤ treeW fs.stmts := by
  have h1 := updateLine_treeW_cnt id g 0 (fun l => by have := hg l; omega) fs.stmts
  rw [← updateLine_stmts] at h1
  simpa using h1

theorem editUpdateLine_treeW (fs : FileSyntax) (id : Nat) (tokens : List Bytes) (hn : (treeIds fs.stmts).Nodup) :
    treeW (Edit.updateLine fs id tokens).stmts ≤ treeW fs.stmts + tokW tokens := by
  unfold Edit.updateLine
  refine updateLine_treeW fs id _ (tokW tokens) (fun l => ?_) hn
  have := tokW_drop_le 1 tokens
  simp only [lineW]
  split <;> omega

theorem markRemoved_treeW (fs : FileSyntax) (id : Nat) : treeW (Edit.markRemoved fs id).stmts ≤ treeW fs.stmts := by
  unfold Edit.markRemoved
  exact updateLine_treeW_le fs id _ (fun l => by simp [lineW])

theorem markAll_treeW : ∀ (ids : List Nat) (fs : FileSyntax), treeW (Edit.markAll fs ids).stmts ≤ treeW fs.stmts
  | [], fs => Nat.le_refl _
  | i :: ids, fs => by
    have h1 := markAll_treeW ids (Edit.markRemoved fs i)
    have h2 := markRemoved_treeW fs i
    simp only [Edit.markAll, List.foldl_cons] at h1 ⊢
    omega

/-! ### `Cleanup`, `removeDups`, `SortBlocks` -/

theorem cleanupStmts_treeW : ∀ ss : List Expr, treeW (Edit.cleanupStmts ss) ≤ treeW ss
  | [] => Nat.le_refl _
  | s :: ss => by
    have ih := cleanupStmts_treeW ss
    cases s with
    | line l =>
      simp only [Edit.cleanupStmts]
      split <;> simp only [treeW_cons, exprW] <;> omega
    | lineBlock b =>
      have hf := linesW_filter_le (fun l => !l.token.isEmpty) b.lines
      simp only [Edit.cleanupStmts]
      split
      · simp only [treeW_cons, exprW]; omega
      · rename_i l hl
        rw [hl] at hf
        simp only [linesW_cons, linesW_nil, lineW] at hf
        split
        · simp only [treeW_cons, exprW, lineW, tokW_append]; omega
        · simp only [treeW_cons, exprW, hl, linesW_cons, linesW_nil, lineW]; omega
      · simp only [treeW_cons, exprW]; omega
    | commentBlock c => simp only [Edit.cleanupStmts, treeW_cons]; omega
    | lparen c => simp only [Edit.cleanupStmts, treeW_cons]; omega
    | rparen c => simp only [Edit.cleanupStmts, treeW_cons]; omega

theorem dropKilled_treeW (kl : List Nat) : ∀ ss : List Expr, treeW (Edit.dropKilled kl ss) ≤ treeW ss
  | [] => Nat.le_refl _
  | s :: ss => by
    have ih := dropKilled_treeW kl ss
    cases s with
    | line l =>
      simp only [Edit.dropKilled]
      split <;> simp only [treeW_cons, exprW] <;> omega
    | lineBlock b =>
      have hf := linesW_filter_le (fun l => !kl.contains l.id) b.lines
      simp only [Edit.dropKilled]
      split
      · simp only [treeW_cons, exprW]; omega
      · simp only [treeW_cons, exprW]; omega
    | commentBlock c => simp only [Edit.dropKilled, treeW_cons]; omega
    | lparen c => simp only [Edit.dropKilled, treeW_cons]; omega
    | rparen c => simp only [Edit.dropKilled, treeW_cons]; omega

theorem insertLine_linesW (less : List Bytes → List Bytes → Bool) (x : Line) : ∀ ys : List Line,
    linesW (Edit.insertLine less x ys) = lineW x + linesW ys
  | [] => rfl
  | y :: ys => by
    have ih := insertLine_linesW less x ys
    unfold Edit.insertLine
    split <;> simp only [linesW_cons, ih] <;> omega

theorem stableSort_linesW (less : List Bytes → List Bytes → Bool) : ∀ ls : List Line, linesW (Edit.stableSort less ls) = linesW ls
  | [] => rfl
  | l :: ls => by
    have ih := stableSort_linesW less ls
    unfold Edit.stableSort at ih ⊢
    simp only [List.foldr_cons, insertLine_linesW, ih, linesW_cons]

theorem sortStmts_treeW (u w : Bool) : ∀ ss : List Expr, treeW (Edit.sortStmts u w ss) = treeW ss
  | [] => rfl
  | s :: ss => by
    have ih := sortStmts_treeW u w ss
    unfold Edit.sortStmts at ih ⊢
    cases s <;> simp only [List.map_cons, treeW_cons, ih, exprW, stableSort_linesW]

/-! ### insertions -/

theorem insertAt_treeW (ss : List Expr) (i : Nat) (x : Expr) : treeW (insertAt ss i x) = treeW ss + exprW x := by
  unfold insertAt
  have := congrArg treeW (List.take_append_drop i ss)
  simp only [treeW_append, treeW_cons] at this ⊢
  omega

end ModVerif.Tie.FnEditFuelA
