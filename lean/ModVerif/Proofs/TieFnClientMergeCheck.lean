/-
  Tie proofs, sumdb/client.go (merge unit): `Client.checkTrees` and `Client.checkRecord` of the regenerated client against
  the hand model, over the ties of the reads through tiles (`TileSpecs`).
-/
import ModVerif.Proofs.TieFnClientMergeSpec
import ModVerif.Proofs.TieFnClientMergeText
import ModVerif.Proofs.TieFnClientMergeLen
import ModVerif.Tie.FnTlogProof
import ModVerif.Tie.FnTlogInt
namespace ModVerif.TieFnClientMerge
open ModVerif ModVerif.GoRt ModVerif.Client ModVerif.Generated.SumdbClient ModVerif.TieFnClientRep

section
variable {σ H : Type} [DecidableEq H] [Inhabited H] {P : Params H} {E : Env σ}

omit [DecidableEq H] [Inhabited H] in
/-- `c.ops.SecurityError(msg)` on both sides -/
theorem security_step {w : World σ H} {cw : GW σ H} (hr : RepRun P E w cw) (msg : Bytes) :
    (envOf P E).securityError msg cw = ((), withS cw (securityError E w msg)) ∧
      RepRun P E (securityError E w msg) (withS cw (securityError E w msg)) ∧
      FrameG cw (withS cw (securityError E w msg)) ∧ FrameM w (securityError E w msg) := by
  refine ⟨securityError_eq hr.s msg, ?_, withS_frame _ _, frameM_of_c rfl⟩
  exact hr.of_frame (hr.toRepCore.withS rfl) (withS_frame _ _) (frameM_of_c rfl)

omit [DecidableEq H] [Inhabited H] in
/-- the end of the fork branch of `checkTrees`: `c.ops.SecurityError(buf.String()); return ErrSecurity` -/
theorem finish_security {w w2 : World σ H} {cw cw2 : GW σ H} (hr2 : RepRun P E w2 cw2) (msg : Bytes)
    (fg : FrameG cw cw2) (fm : FrameM w w2) :
    ∃ r' cw', (pure ((some "ErrSecurity" : Option String), ((envOf P E).securityError msg cw2).2) :
        M (Option String × GW σ H)) = .ok (r', cw') ∧
      RepRun P E (securityError E w2 msg) cw' ∧ RepUnit r' (.error .security) ∧
      FrameG cw cw' ∧ FrameM w (securityError E w2 msg) := by
  obtain ⟨es, rr3, fg3, fm3⟩ := security_step hr2 msg
  rw [es]
  exact ⟨_, _, rfl, rr3, ⟨_, rfl, errAbs_security⟩, fg.trans fg3, fm.trans fm3⟩

omit [DecidableEq H] [Inhabited H] in
theorem hashString_envOf (h : H) : (envOf P E).hashString h = TlogNote.hashString (P.enc h) := rfl

theorem RepErr_not_isNone {g : Option String} {e : Client.Err} (h : RepErr g e) : (!g.isNone) = true := by
  rw [RepErr_isNone h]; rfl

/-- ★ `checkTrees` -/
theorem checkTrees_eq (S : TileSpecs P E) (w : World σ H) (cw : GW σ H) (older newer : Head H)
    (olderNote newerNote : Bytes) (fuel : Nat) (hr : RepRun P E w cw) (hok : CheckTreesOk P E w older newer)
    (hf : checkTreesFuel S w older newer ≤ fuel) :
    ∃ r' cw', Client_checkTrees (envOf P E) fuel (headG older) olderNote (headG newer) newerNote cw = .ok (r', cw') ∧
      RepRun P E (checkTrees P E w older olderNote newer newerNote).2 cw' ∧
      RepUnit r' (checkTrees P E w older olderNote newer newerNote).1 ∧
      FrameG cw cw' ∧ FrameM w (checkTrees P E w older olderNote newer newerNote).2 := by
  obtain ⟨ho, hn, hnorm, hprove⟩ := hok
  have hf1 : S.FT w older.n newer ≤ fuel := Nat.le_trans (Nat.le_max_left _ _) hf
  have hf2 : S.FP (treeHashVia P E w older.n newer).2 newer.n older.n newer ≤ fuel :=
    Nat.le_trans (Nat.le_trans (Nat.le_max_left _ _) (Nat.le_max_right _ _)) hf
  have hf3 : newer.n + 2 ≤ fuel :=
    Nat.le_trans (Nat.le_trans (Nat.le_max_right _ _) (Nat.le_max_right _ _)) hf
  obtain ⟨r1, cw1, e1, rr1, rs1, fg1, fm1⟩ := S.treeHash w cw older.n newer fuel hr hn (Nat.le_of_lt ho) hf1 hnorm
  obtain ⟨h1, err1⟩ := r1
  unfold Client_checkTrees
  simp only [tileHashReaderX]
  have hN : (headG older).N = (older.n : Int) := rfl
  rw [hN, e1]
  simp only [bind, Except.bind]
  cases hth : (treeHashVia P E w older.n newer).1 with
  | error e =>
    rw [hth] at rs1
    have hne : (!err1.isNone) = true := RepErr_not_isNone rs1
    have hm : checkTrees P E w older olderNote newer newerNote = (.error e, (treeHashVia P E w older.n newer).2) := by
      simp only [checkTrees, hth]
    rw [hm]
    simp only [hne, if_true]
    split
    · exact ⟨_, _, rfl, rr1, errAbs_wrap _ (by simp [passLits]) _ _ rs1, fg1, fm1⟩
    · exact ⟨_, _, rfl, rr1, errAbs_wrap _ (by simp [passLits]) _ _ rs1, fg1, fm1⟩
  | ok h =>
    rw [hth] at rs1
    obtain ⟨he1, hh1⟩ := rs1
    simp only at he1 hh1
    subst he1 hh1
    simp only [Option.isNone_none, Bool.not_true, Bool.false_eq_true, if_false]
    by_cases heq : h1 = older.hash
    · have hm : checkTrees P E w older olderNote newer newerNote = (.ok (), (treeHashVia P E w older.n newer).2) := by
        simp only [checkTrees, hth, heq, if_true]
      rw [hm]
      have : decide (h1 = (headG older).Hash) = true := decide_eq_true heq
      simp only [this, if_true, pure, Except.pure]
      exact ⟨_, _, rfl, rr1, rfl, fg1, fm1⟩
    · obtain ⟨p, hp⟩ := hprove h1 hth heq
      have hnp : Normal (proveTreeVia P E (treeHashVia P E w older.n newer).2 newer.n older.n newer).1 := by
        rw [hp]; exact Normal_ok p
      obtain ⟨r2, cw2, e2, rr2, rs2, fg2, fm2⟩ :=
        S.proveTree _ cw1 newer.n older.n newer fuel rr1 hn (Nat.le_of_lt hn) hf2 hnp
      rw [hp] at rs2
      obtain ⟨p2, err2⟩ := r2
      obtain ⟨he2, hp2⟩ := rs2
      simp only at he2 hp2
      subst he2 hp2
      have hd : decide (h1 = (headG older).Hash) = false := decide_eq_false heq
      simp only [hd, Bool.false_eq_true, if_false]
      have hN2 : (headG newer).N = (newer.n : Int) := rfl
      rw [securityHead_eq (envOf P E) P (fun _ => rfl), hN2, e2]
      simp only [Option.isNone_none, Bool.not_true, Bool.false_eq_true, if_false]
      have hplen : p2.length ≤ newer.n := proveTreeVia_length P E _ _ _ _ _ hp
      have hct : checkTreeX (envOf P E) fuel p2 (newer.n : Int) (headG newer).Hash (older.n : Int) h1 =
          .ok (Tie.FnTlogProof.encErr "tlog: invalid inputs in CheckTree"
            (Tlog.checkTree P.node p2 (newer.n : Int) newer.hash (older.n : Int) h1)) := by
        have h62 : (2 : Int) ^ 62 = 4611686018427387904 := by decide
        have h63 : (2 : Int) ^ 63 = 9223372036854775808 := by decide
        have h62n : (2 : Nat) ^ 62 = 4611686018427387904 := by decide
        exact Tie.FnTlogProof.CheckTree_tie P.node fuel p2 (newer.n : Int) newer.hash (older.n : Int) h1
          (by omega) (by omega) (by omega)
      rw [hct]
      have hm : checkTrees P E w older olderNote newer newerNote =
          (.error .security, securityError E (proveTreeVia P E (treeHashVia P E w older.n newer).2 newer.n older.n newer).2
            (securityHead P olderNote newerNote h1 ++
              match Tlog.checkTree P.node p2 (newer.n : Int) newer.hash (older.n : Int) h1 with
              | .error _ => B "\tinternal error: generated inconsistent proof\n"
              | .ok () => proofLines P p2)) := by
        simp only [checkTrees, hth, heq, if_false, hp]
        rfl
      rw [hm]
      cases hck : Tlog.checkTree P.node p2 (newer.n : Int) newer.hash (older.n : Int) h1 with
      | error ce =>
        simp only [Tie.FnTlogProof.encErr, Option.isNone_some, Bool.not_false, if_true]
        rw [lit_inconsistent]
        exact finish_security rr2 _ (fg1.trans fg2) (fm1.trans fm2)
      | ok u =>
        cases u
        simp only [Tie.FnTlogProof.encErr, Option.isNone_none, Bool.not_true, Bool.false_eq_true, if_false]
        rw [checkTrees_loop1_tie (envOf P E) P (fun _ => rfl) cw2 p2 fuel _ (by omega)]
        simp only []
        exact finish_security rr2 _ (fg1.trans fg2) (fm1.trans fm2)

/-- The branch EXCLUDED by `CheckTreesOk`: a fork is detected and `ProveTree` itself fails with the (normal) error `e`.
    Both sides return `ErrSecurity` after ONE `SecurityError` call in corresponding worlds, but with different texts: the
    code prints the error's own text (`errBytes`, some `txt` with `errAbs txt = e`), the model prints the canonical kind name
    `B e.name`; everything before it (`securityHead`) and after it (the newline) is equal byte for byte. -/
theorem checkTrees_proveErr (S : TileSpecs P E) (w : World σ H) (cw : GW σ H) (older newer : Head H)
    (olderNote newerNote : Bytes) (fuel : Nat) (hr : RepRun P E w cw) (ho : older.n < 2 ^ 62) (hn : newer.n < 2 ^ 62)
    (hnorm : Normal (treeHashVia P E w older.n newer).1) (h1 : H)
    (hth : (treeHashVia P E w older.n newer).1 = .ok h1) (hne : h1 ≠ older.hash) (e : Client.Err)
    (hpe : (proveTreeVia P E (treeHashVia P E w older.n newer).2 newer.n older.n newer).1 = .error e)
    (hab : ¬ Abnormal e) (hf : checkTreesFuel S w older newer ≤ fuel) :
    ∃ txt cw', Client_checkTrees (envOf P E) fuel (headG older) olderNote (headG newer) newerNote cw =
        .ok (some "ErrSecurity", cw') ∧ errAbs txt = e ∧
      cw'.s = (E.securityError (proveTreeVia P E (treeHashVia P E w older.n newer).2 newer.n older.n newer).2.s
          (securityHead P olderNote newerNote h1 ++ (B "\tinternal error: " ++ errBytes (some txt) ++ [10])),
        (proveTreeVia P E (treeHashVia P E w older.n newer).2 newer.n older.n newer).2.tr ++
          [Effect.securityError (securityHead P olderNote newerNote h1 ++ (B "\tinternal error: " ++ errBytes (some txt) ++ [10]))]) ∧
      (checkTrees P E w older olderNote newer newerNote).2.tr =
        (proveTreeVia P E (treeHashVia P E w older.n newer).2 newer.n older.n newer).2.tr ++
          [Effect.securityError (securityHead P olderNote newerNote h1 ++ (B "\tinternal error: " ++ B e.name ++ [10]))] := by
  have hf1 : S.FT w older.n newer ≤ fuel := Nat.le_trans (Nat.le_max_left _ _) hf
  have hf2 : S.FP (treeHashVia P E w older.n newer).2 newer.n older.n newer ≤ fuel :=
    Nat.le_trans (Nat.le_trans (Nat.le_max_left _ _) (Nat.le_max_right _ _)) hf
  obtain ⟨r1, cw1, e1, rr1, rs1, fg1, fm1⟩ := S.treeHash w cw older.n newer fuel hr hn (Nat.le_of_lt ho) hf1 hnorm
  obtain ⟨h1', err1⟩ := r1
  rw [hth] at rs1
  obtain ⟨he1, hh1⟩ := rs1
  simp only at he1 hh1
  subst he1 hh1
  have hnp : Normal (proveTreeVia P E (treeHashVia P E w older.n newer).2 newer.n older.n newer).1 := by
    intro e' he'; rw [hpe] at he'; cases he'; exact hab
  obtain ⟨r2, cw2, e2, rr2, rs2, fg2, fm2⟩ := S.proveTree _ cw1 newer.n older.n newer fuel rr1 hn (Nat.le_of_lt hn) hf2 hnp
  rw [hpe] at rs2
  obtain ⟨p2, err2⟩ := r2
  obtain ⟨txt, htxt, habs⟩ := rs2
  simp only at htxt
  subst htxt
  refine ⟨txt, withS cw2 (securityError E (proveTreeVia P E (treeHashVia P E w older.n newer).2 newer.n older.n newer).2
    (securityHead P olderNote newerNote h1' ++ (B "\tinternal error: " ++ errBytes (some txt) ++ [10]))), ?_, habs, rfl, ?_⟩
  · unfold Client_checkTrees
    simp only [tileHashReaderX]
    have hN : (headG older).N = (older.n : Int) := rfl
    have hN2 : (headG newer).N = (newer.n : Int) := rfl
    rw [hN, e1]
    simp only [bind, Except.bind]
    have hd : decide (h1' = (headG older).Hash) = false := decide_eq_false hne
    simp only [Option.isNone_none, Bool.not_true, Bool.false_eq_true, if_false, hd]
    rw [securityHead_eq (envOf P E) P (fun _ => rfl), hN2, e2, lit_internal]
    simp only [Option.isNone_some, Bool.not_false, if_true]
    have es := securityError_eq (P := P) (E := E) rr2.s
      (securityHead P olderNote newerNote h1' ++ (B "\tinternal error: " ++ errBytes (some txt) ++ [10]))
    show (pure ((some "ErrSecurity" : Option String), ((envOf P E).securityError _ cw2).2) : M _) = _
    rw [es]
    rfl
  · simp only [checkTrees, hth, hne, if_false, hpe]
    rfl

/-- `StoredHashIndex(0, id)` for a negative `id`: both loops do nothing -/
theorem storedHashIndex_neg (fuel : Nat) (id : Int) (hid : id < 0) (hf : 1 ≤ fuel) :
    storedHashIndexX fuel 0 id = .ok 0 := by
  cases fuel with
  | zero => omega
  | succ f =>
    have h1 : decide (id > 0) = false := by simp; omega
    simp [storedHashIndexX, Generated.Tlog.StoredHashIndex, Generated.Tlog.StoredHashIndex_loop1,
      Generated.Tlog.StoredHashIndex_loop2, h1, bind, Except.bind, pure, Except.pure, chk64]
    decide

/-- `StoredHashIndex(0, id)` for every `id` below a tree size in range -/
theorem storedHashIndex_record (fuel : Nat) (id : Int) (n : Nat) (hid : id < (n : Int)) (hn : n ≤ 2 ^ 62) (hf : 64 ≤ fuel) :
    storedHashIndexX fuel 0 id = .ok (Int.ofNat (recordIndex id)) := by
  unfold recordIndex
  by_cases hneg : id < 0
  · rw [storedHashIndex_neg fuel id hneg (by omega)]; simp [hneg]
  · simp only [hneg, if_false]
    have h62n : (2 : Nat) ^ 62 = 4611686018427387904 := by decide
    exact Tie.FnTlogInt.StoredHashIndex_tie_of_le fuel 0 id (by omega) (by omega) (by simp; omega) hf

/-- ★ `checkRecord` -/
theorem checkRecord_eq (S : TileSpecs P E) (w : World σ H) (cw : GW σ H) (id : Int) (data : Bytes) (fuel : Nat)
    (hr : RepRun P E w cw) (hok : CheckRecordOk P E w id data) (hf : checkRecordFuel S w id ≤ fuel) :
    ∃ r' cw', Client_checkRecord (envOf P E) fuel id data cw = .ok (r', cw') ∧
      RepRun P E (checkRecord P E w id data).2 cw' ∧ RepUnit r' (checkRecord P E w id data).1 ∧
      FrameG cw cw' ∧ FrameM w (checkRecord P E w id data).2 := by
  obtain ⟨hn, hnorm⟩ := hok
  have hf1 : 64 ≤ fuel := Nat.le_trans (Nat.le_max_left _ _) hf
  have hf2 : S.FR w w.c.latest [recordIndex id] ≤ fuel := Nat.le_trans (Nat.le_max_right _ _) hf
  unfold Client_checkRecord
  rw [hr.latest_eq]
  have hN : (headG w.c.latest).N = (w.c.latest.n : Int) := rfl
  simp only [hN]
  by_cases hge : id ≥ (w.c.latest.n : Int)
  · have hm : checkRecord P E w id data = (.error .recordId, w) := by
      simp only [checkRecord, hge, if_true]
    rw [hm]
    simp only [hge, decide_true, if_true, pure, Except.pure]
    exact ⟨_, _, rfl, hr, ⟨_, rfl, errAbs_recordId⟩, FrameG.refl _, FrameM.refl _⟩
  · have hd : decide (id ≥ (w.c.latest.n : Int)) = false := decide_eq_false hge
    simp only [hd, Bool.false_eq_true, if_false]
    rw [storedHashIndex_record fuel id w.c.latest.n (by omega) (Nat.le_of_lt hn) hf1]
    simp only [bind, Except.bind]
    have hmidx : (if id < 0 then 0 else Tlog.storedHashIndex 0 id.toNat) = recordIndex id := rfl
    have hm : checkRecord P E w id data =
        match (readHashes P E w w.c.latest [recordIndex id]).1 with
        | .error e => (.error e, (readHashes P E w w.c.latest [recordIndex id]).2)
        | .ok hs =>
          match hs with
          | [] => (.error .panic, (readHashes P E w w.c.latest [recordIndex id]).2)
          | h :: _ => if h = P.leaf data then (.ok (), (readHashes P E w w.c.latest [recordIndex id]).2)
              else (.error .recordHash, (readHashes P E w w.c.latest [recordIndex id]).2) := by
      simp only [checkRecord, hge, if_false, hmidx]
      cases (readHashes P E w w.c.latest [recordIndex id]).1 with
      | error e => rfl
      | ok hs => cases hs <;> rfl
    have hnr : Normal (readHashes P E w w.c.latest [recordIndex id]).1 := by
      intro e he
      apply hnorm e
      rw [hm, he]
    have hl : ([Int.ofNat (recordIndex id)] : List Int) = [recordIndex id].map Int.ofNat := rfl
    obtain ⟨r1, cw1, e1, rr1, rs1, fg1, fm1⟩ := S.readHashes w cw w.c.latest [recordIndex id] fuel hr hn (by simp) hf2 hnr
    rw [hl, e1]
    obtain ⟨hs1, err1⟩ := r1
    simp only []
    rw [hm] at hnorm ⊢
    cases hrh : (readHashes P E w w.c.latest [recordIndex id]).1 with
    | error e =>
      rw [hrh] at rs1
      simp only [RepErr_not_isNone rs1, if_true, pure, Except.pure]
      exact ⟨_, _, rfl, rr1, rs1, fg1, fm1⟩
    | ok hs =>
      rw [hrh] at rs1 hnorm
      obtain ⟨he1, hh1⟩ := rs1
      simp only at he1 hh1
      subst he1 hh1
      simp only [Option.isNone_none, Bool.not_true, Bool.false_eq_true, if_false]
      cases hs1 with
      | nil => exact absurd trivial (hnorm .panic rfl)
      | cons h rest =>
        have : idxL (h :: rest) (0 : Int) = .ok h := rfl
        rw [this]
        simp only []
        have hrec : (envOf P E).recordHash data = P.leaf data := rfl
        rw [hrec]
        by_cases heq : h = P.leaf data
        · simp only [heq, decide_true, if_true, pure, Except.pure]
          exact ⟨_, _, rfl, rr1, rfl, fg1, fm1⟩
        · simp only [heq, decide_false, Bool.false_eq_true, if_false, pure, Except.pure]
          exact ⟨_, _, rfl, rr1, ⟨_, rfl, errAbs_recordHash⟩, fg1, fm1⟩

end
end ModVerif.TieFnClientMerge
