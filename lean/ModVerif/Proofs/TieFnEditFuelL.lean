/-
  Closed fuel of the FnEdit session ties, part L (agent edit-fuel4): the loop of `File.SetRequireSeparateIndirect` over the
  existing requirements (`sepLoop_W`: the potential `treeW + Σ_{need, path not yet kept} wantW` does not increase, line ids stay
  pairwise different and below `next`), the fuel demand `sep_stepFuel_le`, the growth `sep_W`, and the session lemmas WITHOUT
  `NotSep`: `stepFuel_le_all`, `applyMod_W_all`, `fuelOK_of_W_all`, `run_W_all`, `finalFuel_of_W_all`.
-/
import ModVerif.Proofs.TieFnEditFuelK
set_option linter.unusedSimpArgs false
set_option linter.unusedVariables false
namespace ModVerif.Tie.FnEditFuelL
open ModVerif ModVerif.Modfile ModVerif.Tie.FnEditFuelA ModVerif.Tie.FnEditFuelB ModVerif.Tie.FnEditFuelC ModVerif.Tie.FnEditFuelD
open ModVerif.Tie.FnEditFuelE ModVerif.Tie.FnEditFuelK
open ModVerif.Tie.FnEditSessionA ModVerif.Tie.FnEditSessionB ModVerif.Tie.FnEditSessionC ModVerif.Tie.FnEditSessionE
open ModVerif.Tie.FnEditSortE (sortFuel goLen)
open ModVerif.Tie.FnEditReqE (modPath)
open ModVerif.Tie.FnEditSetF (withStmts)
open ModVerif.Tie.FnEditSetJ (mkE)
open ModVerif.Tie.FnEditSetL (addMissing fuel5 fuelTail tailM addMissing_eq)
open ModVerif.Tie.FnEditSetN (sepPlan model_factor)
open ModVerif.Tie.FnEditSetP (fuelSep)
open ModVerif.Modfile.Edit (EFile EditErr Want applyMod treeIds SepCtx sepLoop needMap)

/-- the request entries whose path is not among the kept ones -/
def notHave (hv : List Bytes) (a : Want) : Bool := !hv.contains a.path

theorem filter_notHave_cons (need : List Want) (hv : List Bytes) (p : Bytes) :
    need.filter (notHave (p :: hv)) = (need.filter (notHave hv)).filter (fun a => a.path != p) := by
  rw [List.filter_filter]
  congr 1
  funext a
  simp only [notHave, List.contains_cons, Bool.not_or, bne]

theorem wantsW_keep (need : List Want) (hv : List Bytes) (w : Want) (hm : w ∈ need) (hc : hv.contains w.path = false) :
    wantsW (need.filter (notHave (w.path :: hv))) + wantW w ≤ wantsW (need.filter (notHave hv)) := by
  rw [filter_notHave_cons]
  refine wantsW_filter_mem (fun a : Want => a.path != w.path) _ w ?_ (by simp)
  exact List.mem_filter.2 ⟨hm, by simp only [notHave, hc, Bool.not_false]⟩

theorem nodesE_le_treeW : ∀ ss : List Expr, FnEditSetE.nodes ss ≤ treeW ss
  | [] => by simp [FnEditSetE.nodes]
  | x :: ss => by
    have ih := nodesE_le_treeW ss
    cases x with
    | lineBlock b =>
      have := length_le_linesW b.lines
      simp only [FnEditSetE.nodes_block, treeW_cons, exprW]; omega
    | line l => simp only [FnEditSetE.nodes_line, treeW_cons, exprW, lineW]; omega
    | commentBlock c => simp only [FnEditSetE.nodes_cb, treeW_cons, exprW]; omega
    | lparen c =>
      have : FnEditSetE.nodes (Expr.lparen c :: ss) = 1 + FnEditSetE.nodes ss := rfl
      simp only [this, treeW_cons, exprW]; omega
    | rparen c =>
      have : FnEditSetE.nodes (Expr.rparen c :: ss) = 1 + FnEditSetE.nodes ss := rfl
      simp only [this, treeW_cons, exprW]; omega

/-- **the loop of SetRequireSeparateIndirect over the existing entries** -/
theorem sepLoop_W (ctx : SepCtx) (need : List Want) : ∀ (rs : List Require) (hv : List Bytes) (syn : FileSyntax) (next : Nat)
    (rq : List Require) (hv' : List Bytes) (syn' : FileSyntax) (next' : Nat), IdOK syn.stmts next →
    sepLoop ctx need rs hv syn next = .ok (rq, hv', syn', next') →
    rq.length = rs.length ∧
      treeW syn'.stmts + wantsW (need.filter (notHave hv')) ≤ treeW syn.stmts + wantsW (need.filter (notHave hv))
  | [], hv, syn, next, rq, hv', syn', next', hi, h => by
    simp only [sepLoop, Except.ok.injEq, Prod.mk.injEq] at h
    obtain ⟨rfl, rfl, rfl, rfl⟩ := h
    exact ⟨rfl, Nat.le_refl _⟩
  | r :: rs, hv, syn, next, rq, hv', syn', next', hi, h => by
    -- the removal step (two branches)
    have hrem : ∀ i, (sepLoop ctx need rs hv (Edit.markRemoved syn i) next).bind
          (fun v => (.ok (Edit.clearedRequire :: v.fst, v.2.fst, v.2.2.fst, v.2.2.snd) : Except EditErr _)) = .ok (rq, hv', syn', next') →
        rq.length = (r :: rs).length ∧
          treeW syn'.stmts + wantsW (need.filter (notHave hv')) ≤ treeW syn.stmts + wantsW (need.filter (notHave hv)) := by
      intro i hx
      have hi1 : IdOK (Edit.markRemoved syn i).stmts next := by
        unfold IdOK; rw [Edit.treeIds_markRemoved syn i hi.1]; exact hi
      have hw1 := markRemoved_treeW syn i
      cases hr : sepLoop ctx need rs hv (Edit.markRemoved syn i) next with
      | error err => rw [hr] at hx; cases hx
      | ok t =>
        obtain ⟨rs', h', sy, nx⟩ := t
        obtain ⟨i1, i2⟩ := sepLoop_W ctx need rs _ _ _ rs' h' sy nx hi1 hr
        rw [hr] at hx
        simp only [Except.bind, Except.ok.injEq, Prod.mk.injEq] at hx
        obtain ⟨rfl, rfl, rfl, rfl⟩ := hx
        refine ⟨by simp [i1], ?_⟩
        omega
    unfold sepLoop at h
    split at h
    · rename_i w hw
      split at h
      · cases hd : Edit.deref r.lineId with
        | error err => simp [hd, bind, Except.bind] at h
        | ok i =>
          simp only [hd, bind, Except.bind, pure, Except.pure] at h
          exact hrem i h
      · rename_i hc
        have hc' : hv.contains r.mod.path = false := by simpa using hc
        cases hd : Edit.deref r.lineId with
        | error err => simp [hd, bind, Except.bind] at h
        | ok i =>
          simp only [hd, bind, Except.bind, pure, Except.pure] at h
          have hg : ∀ l, (Edit.setIndirectLine w.indirect (Edit.setVersionLine w.vers l)).id = l.id := fun l => by
            rw [setIndirectLine_id, setVersionLine_id]
          have hi1 : IdOK (syn.updateLine i (fun l => Edit.setIndirectLine w.indirect (Edit.setVersionLine w.vers l))).stmts next := by
            unfold IdOK; rw [Edit.treeIds_updateLine syn i _ hi.1 hg]; exact hi
          have hw1 := updateLine_treeW syn i (fun l => Edit.setIndirectLine w.indirect (Edit.setVersionLine w.vers l)) (2 * w.vers.length)
            (keepLine_lineW w) hi.1
          have hmem := List.mem_of_find?_eq_some hw
          have hp0 := List.find?_some hw
          have hp : w.path = r.mod.path := eq_of_beq hp0
          have h3 := wantsW_keep need hv w hmem (by rw [hp]; exact hc')
          rw [hp] at h3
          have hvers : 2 * w.vers.length + 1 ≤ wantW w := by unfold wantW; omega
          -- the continuation, for any of the three outcomes of the move
          have key : ∀ (r1 : Require) (syn1 : FileSyntax) (next1 : Nat), r1.mod.path = r.mod.path →
              treeW syn1.stmts ≤ treeW (syn.updateLine i (fun l => Edit.setIndirectLine w.indirect (Edit.setVersionLine w.vers l))).stmts + 1 →
              IdOK syn1.stmts next1 →
              (sepLoop ctx need rs (r1.mod.path :: hv) syn1 next1).bind
                (fun v => (.ok (r1 :: v.fst, v.2.fst, v.2.2.fst, v.2.2.snd) : Except EditErr _)) = .ok (rq, hv', syn', next') →
              rq.length = (r :: rs).length ∧
                treeW syn'.stmts + wantsW (need.filter (notHave hv')) ≤ treeW syn.stmts + wantsW (need.filter (notHave hv)) := by
            intro r1 syn1 next1 hp1 hw2 hi2 hx
            cases hr : sepLoop ctx need rs (r1.mod.path :: hv) syn1 next1 with
            | error err => rw [hr] at hx; cases hx
            | ok t =>
              obtain ⟨rs', h', sy, nx⟩ := t
              obtain ⟨i1, i2⟩ := sepLoop_W ctx need rs _ _ _ rs' h' sy nx hi2 hr
              rw [hr] at hx
              simp only [Except.bind, Except.ok.injEq, Prod.mk.injEq] at hx
              obtain ⟨rfl, rfl, rfl, rfl⟩ := hx
              rw [hp1] at i2
              refine ⟨by simp [i1], ?_⟩
              omega
          by_cases c1 : (w.indirect && (ctx.oneFlat || Edit.inBlockOrig ctx i ctx.directOrig)) = true
          · simp only [c1, if_true] at h
            exact key { r with mod := { r.mod with version := w.vers }, indirect := w.indirect, lineId := next }
              (Edit.moveExisting (syn.updateLine i (fun l => Edit.setIndirectLine w.indirect (Edit.setVersionLine w.vers l))) i ctx.indirectIdx next)
              (next + 1) rfl (moveExisting_treeW _ _ _ _) (moveExisting_idOK _ _ _ _ hi1) h
          · by_cases c2 : (!w.indirect && (ctx.oneFlat || Edit.inBlockOrig ctx i ctx.indirectOrig)) = true
            · simp only [c1, c2, if_true, if_false, Bool.false_eq_true] at h
              exact key { r with mod := { r.mod with version := w.vers }, indirect := w.indirect, lineId := next }
                (Edit.moveExisting (syn.updateLine i (fun l => Edit.setIndirectLine w.indirect (Edit.setVersionLine w.vers l))) i ctx.directIdx next)
                (next + 1) rfl (moveExisting_treeW _ _ _ _) (moveExisting_idOK _ _ _ _ hi1) h
            · simp only [c1, c2, if_false, Bool.false_eq_true] at h
              exact key { r with mod := { r.mod with version := w.vers }, indirect := w.indirect }
                (syn.updateLine i (fun l => Edit.setIndirectLine w.indirect (Edit.setVersionLine w.vers l))) next rfl (Nat.le_succ _) hi1 h
    · cases hd : Edit.deref r.lineId with
      | error err => simp [hd, bind, Except.bind] at h
      | ok i =>
        simp only [hd, bind, Except.bind, pure, Except.pure] at h
        exact hrem i h

theorem W_mkE (e0 : EFile) (rq : List Require) (syn : FileSyntax) (next : Nat) (hl : rq.length = e0.f.require.length) :
    W (mkE e0 rq syn next) + treeW e0.f.syn.stmts = W e0 + treeW syn.stmts := by
  simp only [W, listsW, goLen, modPath, mkE, hl]; omega

theorem W_withStmts (e : EFile) (s : List Expr) : W (withStmts e s) + treeW e.f.syn.stmts = W e + treeW s := by
  simp only [W, listsW, goLen, modPath, withStmts]; omega

/-- the state before the final `SortBlocks`: everything the plan, the loop and the additions add -/
theorem sep_state_W (e : EFile) (req : List Want) (ctx : SepCtx) (s : List Expr) (rq : List Require) (hv : List Bytes)
    (syn : FileSyntax) (next : Nat) (hi : IdOK e.f.syn.stmts e.next) (hp : sepPlan e = .ok (ctx, s))
    (hr : sepLoop ctx req (withStmts e s).f.require [] (withStmts e s).f.syn (withStmts e s).next = .ok (rq, hv, syn, next)) :
    W (addMissing ctx hv (mkE (withStmts e s) rq syn next) req) ≤ W e + 32 + 2 * wantsW req := by
  have h1 := sepPlan_treeW e ctx s hp
  have hi1 : IdOK (withStmts e s).f.syn.stmts (withStmts e s).next := hi.of_perm (sepPlan_ids e ctx s hp)
  obtain ⟨i1, i2⟩ := sepLoop_W ctx req _ _ _ _ rq hv syn next hi1 hr
  have h3 := addMissing_W ctx hv req (mkE (withStmts e s) rq syn next)
  have h4 := W_mkE (withStmts e s) rq syn next i1
  have h5 := W_withStmts e s
  have h6 := wantsW_filter_le (notHave []) req
  simp only [FnEditSetF.withStmts_stmts] at h4 i2
  omega

/-- **fuel demand of `File.SetRequireSeparateIndirect`** (distinct request paths; line ids pairwise different, below `next`) -/
theorem sep_stepFuel_le (e : EFile) (l : List EditSpec.Req) (hi : IdOK e.f.syn.stmts e.next)
    (hg : Edit.GoodWant (l.map toWant)) :
    stepFuel e (.setRequireSeparateIndirect l) ≤ 3 * (W e + G (.setRequireSeparateIndirect l)) + 12 := by
  have hs := wantsW_toWant l
  have hl : e.f.require.length ≤ W e := by unfold W listsW; omega
  have hn := nodesE_le_treeW e.f.syn.stmts
  have hn' : treeW e.f.syn.stmts ≤ W e := by unfold W; omega
  simp only [stepFuel, fuelSep, G, opSize]
  cases hp : sepPlan e with
  | error err => (try simp only []); omega
  | ok t =>
    obtain ⟨ctx, s⟩ := t
    simp only [fuelTail, needMap_good hg, List.length_map, FnEditSetF.withStmts_require]
    cases hr : sepLoop ctx (l.map toWant) e.f.require [] (withStmts e s).f.syn (withStmts e s).next with
    | error err => (try simp only []); omega
    | ok t =>
      obtain ⟨rq, hv, syn, next⟩ := t
      have h1 := sep_state_W e _ ctx s rq hv syn next hi hp hr
      have h2 := sortFuel_le (addMissing ctx hv (mkE (withStmts e s) rq syn next) (l.map toWant))
      have h3 := fuel5_le (l.map toWant)
      (try simp only [])
      omega

/-- **growth of the potential under `File.SetRequireSeparateIndirect`** -/
theorem sep_W (e e' : EFile) (l : List EditSpec.Req) (hi : IdOK e.f.syn.stmts e.next)
    (hg : Edit.GoodWant (l.map toWant)) (h : Edit.setRequireSeparateIndirect e (l.map toWant) id = .ok e') :
    W e' ≤ W e + G (.setRequireSeparateIndirect l) := by
  have hs := wantsW_toWant l
  rw [model_factor] at h
  cases hp : sepPlan e with
  | error err => rw [hp] at h; cases h
  | ok t =>
    obtain ⟨ctx, s⟩ := t
    rw [hp] at h
    simp only [tailM, bind, Except.bind, needMap_good hg] at h
    cases hr : sepLoop ctx (l.map toWant) (withStmts e s).f.require [] (withStmts e s).f.syn (withStmts e s).next with
    | error err => rw [hr] at h; cases h
    | ok t =>
      obtain ⟨rq, hv, syn, next⟩ := t
      have h1 := sep_state_W e _ ctx s rq hv syn next hi hp hr
      rw [hr] at h
      simp only [pure, Except.pure, Except.ok.injEq, addMissing_eq] at h
      subst h
      have h6 := sortBlocks_W (addMissing ctx hv (mkE (withStmts e s) rq syn next) (l.map toWant))
      simp only [G, opSize, mkE] at *
      omega

/-! ### sessions with every operation -/

theorem op_cases (op : EditSpec.Op) : NotSep op ∨ ∃ l, op = .setRequireSeparateIndirect l := by
  cases op <;> first | exact Or.inl trivial | exact Or.inr ⟨_, rfl⟩

theorem idOK_of_inv {e : EFile} (hi : Edit.P.Inv e) : IdOK e.f.syn.stmts e.next := ⟨hi.tree.nodup, hi.tree.lt⟩

theorem stepFuel_le_all (e : EFile) (op : EditSpec.Op) (hi : Edit.P.Inv e)
    (hv : Edit.ValidArgsLive e (opM op)) : stepFuel e op ≤ 3 * (W e + G op) + 12 := by
  rcases op_cases op with h | ⟨l, rfl⟩
  · have := stepFuel_le' e op h hi.tree.nodup hv; omega
  · exact sep_stepFuel_le e l (idOK_of_inv hi) hv.1

theorem applyMod_W_all (e e' : EFile) (op : EditSpec.Op) (hi : Edit.P.Inv e)
    (hv : Edit.ValidArgsLive e (opM op)) (h : applyMod e (opM op) = some (.ok e')) : W e' ≤ W e + G op := by
  rcases op_cases op with h1 | ⟨l, rfl⟩
  · exact applyMod_W' e e' op h1 hi.tree.nodup hv h
  · simp only [opM, opR, applyMod, Option.some.injEq] at h
    exact sep_W e e' l (idOK_of_inv hi) hv.1 h

/-- **the fuel of every step of the model run from the initial potential and the operation sizes** (every operation) -/
theorem fuelOK_of_W_all (fuel : Nat) : ∀ (ops : List EditSpec.Op) (e : EFile), Edit.P.Inv e → Edit.RunValidLive e (ops.map opM) →
    3 * (W e + opsG ops) + 12 ≤ fuel → FuelOK fuel e ops
  | [], _, _, _, _ => trivial
  | op :: ops, e, hi, hv, hf => by
    obtain ⟨hargs, hvn, hvr⟩ := hv
    simp only [opsG_cons] at hf
    refine ⟨?_, ?_, ?_⟩
    · have := stepFuel_le_all e op hi hargs; omega
    · intro e' hx
      have hw := applyMod_W_all e e' op hi hargs hx
      exact fuelOK_of_W_all fuel ops e' (Edit.P.applyMod_inv_all e e' _ hargs hi hx) (hvn e' hx) (by omega)
    · intro err hx hr
      exact fuelOK_of_W_all fuel ops e hi (hvr err hx hr) (by omega)

theorem run_W_all : ∀ (ops : List EditSpec.Op) (e : EFile) (acc : List Bool) (i : Nat) (e' : EFile) (res : List Bool),
    Edit.P.Inv e → Edit.RunValidLive e (ops.map opM) →
    Edit.runOps applyMod e (ops.map opM) acc i = .done e' res → W e' ≤ W e + opsG ops
  | [], e, acc, i, e', res, _, _, h => by
    simp only [List.map_nil, Edit.runOps, Edit.SessionResult.done.injEq] at h
    rw [← h.1]; simp
  | op :: ops, e, acc, i, e', res, hi, hv, h => by
    obtain ⟨hargs, hvn, hvr⟩ := hv
    simp only [List.map_cons, Edit.runOps] at h
    simp only [opsG_cons]
    cases hx : applyMod e (opM op) with
    | none => rw [hx] at h; cases h
    | some x =>
      cases x with
      | ok e1 =>
        rw [hx] at h
        have hw := applyMod_W_all e e1 op hi hargs hx
        have := run_W_all ops e1 _ _ e' res (Edit.P.applyMod_inv_all e e1 _ hargs hi hx) (hvn e1 hx) h
        omega
      | error err =>
        rw [hx] at h
        simp only [] at h
        split at h
        · rename_i hr
          have := run_W_all ops e _ _ e' res hi (hvr err hx hr) h
          omega
        · cases h

theorem finalFuel_of_W_all (fuel : Nat) (ops : List EditSpec.Op) (e : EFile) (hi : Edit.P.Inv e)
    (hv : Edit.RunValidLive e (ops.map opM)) (hf : W e + opsG ops + 1 ≤ fuel) :
    FinalFuel fuel e ops := by
  intro e' res hx
  have h1 := run_W_all ops e [] 0 e' res hi hv hx
  have h2 := cleanupFuel_le e'
  omega

end ModVerif.Tie.FnEditFuelL
