/-
  C20, lexer level: when is a `//` comment delivered as a whole-line comment token (`TokKind.comment`)?

  `readComment` tests `strings.TrimSpace(<bytes before the comment on its source line>) == ""`.  With
  `trimSpace_prefix_ne_nil` (Proofs/EditMarkerFields.lean; `TrimSpace s = "" ↔ Fields s = []`, no backward decoding
  needed) the test fails as soon as the line has, after leading white space, a rune that is not white space — whatever
  bytes follow it, ill-formed UTF-8 included.  Hence: a token that follows such a rune on its source line is never a
  whole-line comment token (`readToken_not_comment`).
-/
import ModVerif.Proofs.EditMarkerFields
import ModVerif.Proofs.ModfileC20Lay
namespace ModVerif.Proofs.ModfileC20
open ModVerif ModVerif.Modfile ModVerif.Proofs.ModfileLex ModVerif.Proofs.ModfilePos
open ModVerif.Proofs.ModfileFmtTrim ModVerif.Proofs.ModfileFmtUtf8

/-- the kind of token `readComment` delivers is decided by `TrimSpace` of the bytes before the comment on its line -/
theorem readComment_kind {i i' : Input} (h : readComment i = .ok i') :
    i'.token.kind =
      if (GoStrings.trimSpace ((i.consumedRev.takeWhile (· != 10)).reverse)).isEmpty then TokKind.comment
      else TokKind.eolComment := by
  unfold readComment at h
  simp only [bind, Except.bind] at h
  cases h1 : readRune (startToken i) with
  | error e => simp [h1] at h
  | ok v1 =>
    simp only [h1] at h
    cases h2 : readRune v1.2 with
    | error e => simp [h2] at h
    | ok v2 =>
      simp only [h2] at h
      cases h3 : consumeLine (v2.2.remaining.length + 1) v2.2 with
      | error e => simp [h3] at h
      | ok v3 =>
        simp only [h3] at h
        have hc : (startToken i).consumedRev = i.consumedRev := rfl
        rw [hc] at h
        by_cases ht : (GoStrings.trimSpace ((i.consumedRev.takeWhile (· != 10)).reverse)).isEmpty = true
        · simp only [ht, Bool.not_true, Bool.not_false, if_true] at h ⊢
          simp only [Except.ok.injEq] at h
          rw [← h]; rfl
        · simp only [Bool.not_eq_true] at ht
          simp only [ht, Bool.not_false, Bool.not_true, Bool.false_eq_true, if_false] at h ⊢
          simp only [Except.ok.injEq] at h
          rw [← h]; rfl

/-- a whole-line comment token is delivered only by the `//` branch, and only when the bytes before it on its source line
    (the blanks `skipSpaces` skipped included) trim to nothing -/
theorem readToken_comment {i i' : Input} (h : readToken i = .ok i') (hk : i'.token.kind = .comment) :
    ∃ gap, WS gap ∧ GoStrings.trimSpace (((gap.reverse ++ i.consumedRev).takeWhile (· != 10)).reverse) = [] := by
  unfold readToken at h
  simp only [bind, Except.bind] at h
  cases h0 : skipSpaces (i.remaining.length + 1) i with
  | error e => simp [h0] at h
  | ok i0 =>
    obtain ⟨gap, hws, hc0, _, _, _⟩ := skipSpaces_gap _ _ _ h0
    simp only [h0] at h
    split at h
    · have hkind := readComment_kind h
      rw [hk] at hkind
      refine ⟨gap, hws, ?_⟩
      rw [← hc0]
      by_cases ht : (GoStrings.trimSpace ((i0.consumedRev.takeWhile (· != 10)).reverse)).isEmpty = true
      · exact List.isEmpty_iff.1 ht
      · simp only [ht, Bool.false_eq_true, if_false] at hkind
        cases hkind
    · split at h
      · cases h
      · split at h
        · simp only [Except.ok.injEq] at h
          rw [← h, endToken_kind] at hk; cases hk
        · split at h
          · cases hr : readRune (startToken i0) with
            | error e => simp [hr] at h
            | ok v =>
              simp only [hr, Except.ok.injEq] at h
              rw [← h, endToken_kind] at hk; cases hk
          · split at h
            · cases hr : readRune (startToken i0) with
              | error e => simp [hr] at h
              | ok v =>
                simp only [hr] at h
                cases hs : readString (startToken i0).peekRune (v.2.remaining.length + 1) v.2 with
                | error e => simp [hs] at h
                | ok w =>
                  simp only [hs, Except.ok.injEq] at h
                  rw [← h, endToken_kind] at hk; cases hk
            · split at h
              · cases h
              · cases hr : readIdent (i0.remaining.length + 1) (startToken i0) with
                | error e => simp [startToken_remaining, hr] at h
                | ok w =>
                  simp only [startToken_remaining, hr, Except.ok.injEq] at h
                  rw [← h, endToken_kind] at hk; cases hk

theorem takeWhile_ws_append (gap rest : Bytes) (hws : WS gap) :
    ((gap.reverse ++ rest).takeWhile (· != 10)) = gap.reverse ++ rest.takeWhile (· != 10) := by
  rw [List.takeWhile_append_of_pos]
  intro b hb
  exact ws_no_newline hws b (List.mem_reverse.1 hb)

theorem spaceSeq_of_ws {g : Bytes} (h : WS g) : SpaceSeq g := by
  apply spaceSeq_of_ascii
  intro b hb
  rcases h b hb with rfl | rfl | rfl <;> decide

/-- ★ **the lexer never delivers a whole-line comment token after a token**: if the consumed part of the current source
    line is `g ++ x` with `g` white space and `x` starting with a rune that is not white space (e.g. the first token of
    the line; anything may follow it in `x`, ill-formed UTF-8 included), the next token is not of kind `comment` — a `//`
    there is an end-of-line comment -/
theorem readToken_not_comment {i i' : Input} (h : readToken i = .ok i') (g x : Bytes)
    (hpre : (i.consumedRev.takeWhile (· != 10)).reverse = g ++ x) (hg : SpaceSeq g) (hx : x ≠ [])
    (hs : UnicodePrint.isSpace (Utf8.decodeRune x).1 = false) : i'.token.kind ≠ .comment := by
  intro hk
  obtain ⟨gap, hws, ht⟩ := readToken_comment h hk
  rw [takeWhile_ws_append gap _ hws, List.reverse_append, List.reverse_reverse, hpre, List.append_assoc] at ht
  refine Edit.trimSpace_prefix_ne_nil g (x ++ gap) hg (by simp [hx]) ?_ ht
  have hgs : AsciiStart gap := by
    intro b hb
    cases gap with
    | nil => simp at hb
    | cons c t =>
      simp only [List.head?_cons, Option.mem_def, Option.some.injEq] at hb
      subst hb
      rcases hws c (by simp) with rfl | rfl | rfl <;> decide
  rw [decodeRune_append x gap hx hgs]
  exact hs

/-- non-vacuity: after `x ` the comment is an end-of-line comment, at the start of a line it is a whole-line comment -/
example : (match readToken { consumedRev := [32, 120, 10], remaining := [47, 47, 99] } with
    | .ok i => i.token.kind == .eolComment
    | .error _ => false) = true ∧
    (match readToken { consumedRev := [32, 9, 10], remaining := [47, 47, 99] } with
    | .ok i => i.token.kind == .comment
    | .error _ => false) = true := by decide +kernel

end ModVerif.Proofs.ModfileC20
