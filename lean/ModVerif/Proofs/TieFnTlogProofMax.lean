/-
  Tie helpers (1): the generated `maxpow2` (Generated/FnTlog.lean, checked mode) computes the model's `Tlog.maxpow2`.
  Local version of the tie (the tie THEOREM of `maxpow2` belongs to Tie/FnTlogInt.lean); stated with the sharp fuel
  bound the Merkle recursions need: fuel 63 always suffices, and for `n ≥ 2` fuel `n - 1` suffices.
-/
import ModVerif.Generated.FnTlog
import ModVerif.Model.Tlog
import ModVerif.Proofs.TlogBasic
import ModVerif.Proofs.GoRtLemmasList
namespace ModVerif.Tie.FnTlogProof
open ModVerif ModVerif.GoRt ModVerif.GoRtList

theorem maxpow2_loop1_ok (n : Int) : ∀ (fuel l : Nat), l ≤ 62 → 1 ≤ fuel →
    (63 ≤ l + fuel ∨ (n.toNat ≤ l + fuel + 1 ∧ 2 ^ l < n.toNat)) →
    Generated.Tlog.maxpow2_loop1 n fuel (l : Int) = .ok ((Tlog.maxpow2Go (62 - l) n.toNat l : Nat) : Int) := by
  intro fuel
  induction fuel with
  | zero => intro l _ h; omega
  | succ fuel ih =>
    intro l hl _ hf
    unfold Generated.Tlog.maxpow2_loop1
    by_cases h62 : l < 62
    · have h1 : decide ((l : Int) < (62 : Int)) = true := by simp; omega
      have hp : 2 ^ (l + 1) ≤ 2 ^ 62 := Nat.pow_le_pow_right (by omega) (show l + 1 ≤ 62 by omega)
      have hsub : 62 - l = (62 - (l + 1)) + 1 := by omega
      have hpl : l + 2 ≤ 2 ^ (l + 1) := by
        have := @Nat.lt_two_pow_self (l + 1); omega
      have hpp : 2 ^ (l + 1) = 2 * 2 ^ l := by rw [Nat.pow_succ]; omega
      simp only [h1, if_true]
      rw [chk64_ok _ (by omega) (by omega)]
      simp only [ok_bind]
      rw [toU64_of_range _ (by omega) (by omega)]
      rw [show ((l : Int) + 1) = ((l + 1 : Nat) : Int) by omega, shl_one_natCast]
      simp only [ok_bind]
      rw [hsub, Tlog.maxpow2Go]
      have ih' := ih (l + 1) (by omega)
      generalize 2 ^ (l + 1) = K at *
      generalize 2 ^ l = K' at *
      rw [chk64_ok _ (by omega) (by omega)]
      simp only [ok_bind, pure_eq_ok]
      by_cases hlt : K < n.toNat
      · have hlt' : (K : Int) < n := by omega
        simp only [hlt, hlt', decide_true, if_true]
        exact ih' (by omega) (by omega)
      · have hlt' : ¬ (K : Int) < n := by omega
        simp only [hlt, hlt', decide_false, if_false]; rfl
    · have h1 : decide ((l : Int) < (62 : Int)) = false := by simp; omega
      have : 62 - l = 0 := by omega
      simp only [h1, this, Tlog.maxpow2Go]; rfl

theorem maxpow2Go_le (n : Nat) : ∀ f l, l + f ≤ 62 → Tlog.maxpow2Go f n l ≤ 62 := by
  intro f
  induction f with
  | zero => intro l h; simp [Tlog.maxpow2Go]; omega
  | succ f ih =>
    intro l h
    unfold Tlog.maxpow2Go
    split
    · exact ih (l + 1) (by omega)
    · omega

/-- local version of the `maxpow2` tie: for EVERY integer `n` (also `n ≤ 1` and negative `n`: `(1, 0)`), no overflow.
    Fuel 63 always suffices; for `n ≥ 2`, fuel `n - 1` suffices. -/
theorem maxpow2_ok (fuel : Nat) (n : Int) (h1 : 1 ≤ fuel) (hf : 63 ≤ fuel ∨ (2 ≤ n ∧ n ≤ fuel + 1)) :
    Generated.Tlog.maxpow2 fuel n =
      .ok (((Tlog.maxpow2 n.toNat).1 : Int), ((Tlog.maxpow2 n.toNat).2 : Int)) := by
  unfold Generated.Tlog.maxpow2
  simp only []
  have := maxpow2_loop1_ok n fuel 0 (by omega) h1 (by omega)
  simp only [Int.natCast_zero] at this
  rw [this]
  have hl : Tlog.maxpow2Go 62 n.toNat 0 ≤ 62 := maxpow2Go_le _ _ _ (by omega)
  simp only [ok_bind, Tlog.maxpow2]
  generalize Tlog.maxpow2Go 62 n.toNat 0 = L at *
  have hp : 2 ^ L ≤ 2 ^ 62 := Nat.pow_le_pow_right (by omega) hl
  rw [toU64_of_range _ (by omega) (by omega), shl_one_natCast]
  simp only [ok_bind]
  generalize 2 ^ L = K at *
  rw [chk64_ok _ (by omega) (by omega)]
  rfl

/-- the form used by the interval recursions: argument `hi - lo` of two natural numbers -/
theorem maxpow2_ok_sub (fuel : Nat) (lo hi : Nat) (h : lo + 2 ≤ hi) (hf : hi - lo ≤ fuel + 1) :
    Generated.Tlog.maxpow2 fuel ((hi : Int) - (lo : Int)) =
      .ok (((Tlog.maxpow2 (hi - lo)).1 : Int), ((Tlog.maxpow2 (hi - lo)).2 : Int)) := by
  have e : ((hi : Int) - (lo : Int)) = ((hi - lo : Nat) : Int) := by omega
  rw [e, maxpow2_ok fuel _ (by omega) (Or.inr ⟨by omega, by omega⟩)]
  simp

end ModVerif.Tie.FnTlogProof
