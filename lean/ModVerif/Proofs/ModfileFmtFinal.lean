/-
  C02 stage 4, part b: `format_parse_syntax` and `format_idempotent` for every accepted input in which
  the lexer records no end-of-line comment.
-/
import ModVerif.Proofs.ModfileFmtMain
import ModVerif.Proofs.ModfileFmtEmits2
namespace ModVerif.Proofs.ModfileFmtFinal
open ModVerif ModVerif.Modfile
open ModVerif.Proofs.ModfileFmtTree ModVerif.Proofs.ModfileFmtMain ModVerif.Proofs.ModfileFmtEmits

/-- an accepted input without end-of-line comments parses to its plain statement list, which is
    well-shaped -/
theorem parse_noeol {name x : Bytes} {t : FileSyntax} (h : parse name x = .ok t) (hno : eolComments x = []) :
    WFStmts t.stmts ∧ t.comments = {} ∧ t.name = name := by
  unfold parse at h
  cases hp : parseFile x with
  | error e => simp [hp, bind, Except.bind] at h
  | ok v =>
    obtain ⟨stmts, i⟩ := v
    simp only [hp, bind, Except.bind, Except.ok.injEq] at h
    have hc : i.commentsRev = [] := by simpa [eolComments, hp] using hno
    have hwf := parseFile_wf x stmts i hp
    rw [hc, List.reverse_nil, assignComments_nil name stmts (fun s hs => wf_noSuf (hwf s hs))] at h
    subst h
    exact ⟨hwf, rfl, rfl⟩

theorem normFile_plain (name : Bytes) (ss : List Expr) :
    normFile { name := name, stmts := ss } = { name := name, comments := {}, stmts := ss.map normExpr } := by
  simp [normFile, normCs]

/-- ★ `format_parse_syntax` for inputs without end-of-line comments: the formatted output of an accepted
    input parses again, to the same tree up to positions and line identities, with every comment text
    replaced by its `TrimSpace` (same statements, same tokens, same comments in the same places). -/
theorem format_parse_syntax_noeol (name x : Bytes) (t : FileSyntax) (h : parse name x = .ok t)
    (hno : eolComments x = []) : ∃ t', parse name (format t) = .ok t' ∧ eraseFile t' = normFile t := by
  obtain ⟨hwf, hc, hn⟩ := parse_noeol h hno
  obtain ⟨t', h1, h2, _, _⟩ := reparse_wf name t hwf (by rw [hc])
  refine ⟨t', h1, ?_⟩
  rw [h2]
  cases t
  simp only at hc hn
  subst hc hn
  exact (normFile_plain _ _).symm

/-- ★ `format_idempotent` for inputs without end-of-line comments. -/
theorem format_idempotent_noeol (name x : Bytes) (t t' : FileSyntax) (h : parse name x = .ok t)
    (hno : eolComments x = []) (h' : parse name (format t) = .ok t') : format t' = format t := by
  obtain ⟨hwf, hc, _⟩ := parse_noeol h hno
  exact format_idem_wf name t hwf (by rw [hc]) t' h'

/-- the formatted output contains no end-of-line comment either, so both theorems apply to it again -/
theorem format_noeol (name x : Bytes) (t : FileSyntax) (h : parse name x = .ok t) (hno : eolComments x = []) :
    eolComments (format t) = [] := by
  obtain ⟨hwf, hc, _⟩ := parse_noeol h hno
  obtain ⟨_, _, _, _, _, h5⟩ := reparse_wf name t hwf (by rw [hc])
  exact h5

end ModVerif.Proofs.ModfileFmtFinal
