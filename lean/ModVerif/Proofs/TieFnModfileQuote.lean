/-
  Helper lemmas for Tie/FnModfile.lean, part 1: isIdent, IsDirectoryPath, MustQuote (the range-over-string loop),
  AutoQuote, parseString.

  The generated functions are abstract in `unicode.IsPrint / IsSpace`, `strconv.Quote / Unquote`; they are instantiated
  exactly as the driver Drv/GenModfile.lean runs them: `isPrintI r = UnicodePrint.isPrint r.toNat`,
  `isSpaceI r = UnicodePrint.isSpace r.toNat`, `Quote.quote`, `unquoteI` (= `Quote.unquote` with Go's `(value, error)` shape).

  parseString calls AutoQuote on the UNQUOTED value, which can be longer than the token (an ill-formed byte ≥ 0x80 inside
  a `"…"` token is one byte in and U+FFFD = three bytes out): `unquote_length` bounds it by `4 * length`.
-/
import ModVerif.Generated.FnModfile
import ModVerif.Model.Modfile.Lex
import ModVerif.Model.Modfile.Rule
import ModVerif.Drv.GenModfile
import ModVerif.Proofs.GoRtLemmasStr
import ModVerif.Proofs.GoRtLemmasModfile
import ModVerif.Proofs.ModfileC20Unquote
namespace ModVerif.TieFnModfile
open ModVerif ModVerif.GoRt ModVerif.GoRtStr ModVerif.GoRtModfile ModVerif.Drv.GenModfile

theorem B_lits : B "." = [46] ∧ B "./" = [46, 47] ∧ B ".\\" = [46, 92] ∧ B ".." = [46, 46] ∧ B "../" = [46, 46, 47] ∧
    B "..\\" = [46, 46, 92] ∧ B "/" = [47] ∧ B "\\" = [92] := by decide +kernel

theorem B_module : B "module" = [109, 111, 100, 117, 108, 101] := by decide +kernel

/-! ### isIdent -/

theorem isIdent_eq (c : Int) (h0 : -2147483648 ≤ c) (h1 : c < 2147483648) :
    Generated.Modfile.isIdent isPrintI isSpaceI c = Modfile.isIdent c.toNat := by
  unfold Generated.Modfile.isIdent Modfile.isIdent Modfile.identExcluded
  simp only [toI32_id h0 h1, Id.run, isPrintI, isSpaceI]
  by_cases hc : 0 ≤ c
  · obtain ⟨n, rfl⟩ := Int.eq_ofNat_of_zero_le hc
    simp only [Int.toNat_natCast, List.contains_cons, List.contains_nil, Bool.or_false]
    simp only [show (32 : Int) = ((32 : Nat) : Int) from rfl, show (40 : Int) = ((40 : Nat) : Int) from rfl,
      show (41 : Int) = ((41 : Nat) : Int) from rfl, show (91 : Int) = ((91 : Nat) : Int) from rfl,
      show (93 : Int) = ((93 : Nat) : Int) from rfl, show (123 : Int) = ((123 : Nat) : Int) from rfl,
      show (125 : Int) = ((125 : Nat) : Int) from rfl, show (44 : Int) = ((44 : Nat) : Int) from rfl,
      natCast_eq_lit, Bool.or_assoc]
    split <;> rfl
  · -- a negative rune: no case label matches, and `IsSpace / IsPrint` see `toNat = 0` on both sides
    have e : c.toNat = 0 := by omega
    have hne : ∀ k : Int, 0 ≤ k → decide (c = k) = false := by intro k hk; simp; omega
    rw [e]
    simp only [hne 32 (by omega), hne 40 (by omega), hne 41 (by omega), hne 91 (by omega), hne 93 (by omega),
      hne 123 (by omega), hne 125 (by omega), hne 44 (by omega)]
    simp
    rfl

/-! ### IsDirectoryPath -/

theorem IsDirectoryPath_eq (ns : Bytes) :
    Generated.Modfile.IsDirectoryPath ns = .ok (Modfile.isDirectoryPath ns) := by
  unfold Generated.Modfile.IsDirectoryPath Modfile.isDirectoryPath
  obtain ⟨h1, h2, h3, h4, h5, h6, h7, h8⟩ := B_lits
  have e : ∀ l : Bytes, (ns == l) = decide (ns = l) := by intro l; rw [Bool.eq_iff_iff]; simp
  simp only [hasPrefix, h1, h2, h3, h4, h5, h6, h7, h8, e]
  apply ite_pure_or
  match ns with
  | [] => rfl
  | [c] => rfl
  | c0 :: c1 :: t =>
    have hl : decide (len (c0 :: c1 :: t) ≥ 2) = true := by simp [len_eq]; omega
    simp only [hl, if_true, idx_zero_cons, idx_one_cons, bind_ok, pure_eq_ok]
    simp only [show (65 : Int) = ((65 : Nat) : Int) from rfl, show (90 : Int) = ((90 : Nat) : Int) from rfl,
      show (97 : Int) = ((97 : Nat) : Int) from rfl, show (122 : Int) = ((122 : Nat) : Int) from rfl,
      show (58 : Int) = ((58 : Nat) : Int) from rfl,
      le_byte _ _ (by decide : 65 < 256), le_byte _ _ (by decide : 97 < 256), byte_le _ _ (by decide : 90 < 256),
      byte_le _ _ (by decide : 122 < 256), byte_eq _ _ (by decide : 58 < 256)]
    simp only [show UInt8.ofNat 65 = 65 from rfl, show UInt8.ofNat 90 = 90 from rfl, show UInt8.ofNat 97 = 97 from rfl,
      show UInt8.ofNat 122 = 122 from rfl, show UInt8.ofNat 58 = 58 from rfl]
    cases decide (65 ≤ c0) <;> cases decide (c0 ≤ 90) <;> cases decide (97 ≤ c0) <;> cases decide (c0 ≤ 122) <;>
      cases (c1 == 58) <;> rfl

/-! ### MustQuote -/

/-- the translated `for _, r := range s` loop of MustQuote from byte offset `k`: `return true` exactly when the
    model's rune scan of the remaining runes says so; otherwise the loop ends at offset `len(s)` -/
theorem MustQuote_loop1_spec (s : Bytes) : ∀ (fuel k : Nat), k ≤ s.length → s.length - k < fuel →
    Generated.Modfile.MustQuote_loop1 isPrintI s fuel (k : Int) =
      .ok (if Modfile.mustQuoteRunes s.length (Utf8.runes (s.drop k)) then Ctl.ret true
           else Ctl.next (s.length : Int)) := by
  intro fuel
  induction fuel with
  | zero => intro k _ h; omega
  | succ f ih =>
    intro k hk hf
    rw [Generated.Modfile.MustQuote_loop1]
    by_cases hlt : k < s.length
    · have h1 : decide ((k : Int) < len s) = true := by simp [len_eq]; omega
      obtain ⟨r, w, hd, hw1, hw2, hr, _⟩ := range_step s k hlt
      simp only [h1, if_true, hd, hr]
      have hih := ih (k + w) hw2 (by omega)
      rw [Int.natCast_add] at hih
      have hlen : decide (len s > 1) = decide (s.length > 1) := by
        rw [Bool.eq_iff_iff]; simp [len_eq]; omega
      simp only [hih, Modfile.mustQuoteRunes, Modfile.mustQuoteAlways, Modfile.mustQuoteIfLong, isPrintI,
        Int.toNat_natCast, List.contains_cons, List.contains_nil, Bool.or_false, hlen,
        show (32 : Int) = ((32 : Nat) : Int) from rfl, show (34 : Int) = ((34 : Nat) : Int) from rfl,
        show (39 : Int) = ((39 : Nat) : Int) from rfl, show (96 : Int) = ((96 : Nat) : Int) from rfl,
        show (40 : Int) = ((40 : Nat) : Int) from rfl,
        show (41 : Int) = ((41 : Nat) : Int) from rfl, show (91 : Int) = ((91 : Nat) : Int) from rfl,
        show (93 : Int) = ((93 : Nat) : Int) from rfl, show (123 : Int) = ((123 : Nat) : Int) from rfl,
        show (125 : Int) = ((125 : Nat) : Int) from rfl, show (44 : Int) = ((44 : Nat) : Int) from rfl,
        natCast_eq_lit, Bool.or_assoc, pure_eq_ok]
      split
      · rfl
      · split
        · by_cases hl1 : s.length > 1
          · simp [hl1]
          · simp [hl1]
        · split
          · rfl
          · rfl
    · have hk' : k = s.length := by omega
      subst hk'
      have h1 : decide (((s.length : Nat) : Int) < len s) = false := by simp [len_eq]
      simp [h1, Utf8.runes, Utf8.runesAux, Modfile.mustQuoteRunes]

theorem MustQuote_eq (s : Bytes) (fuel : Nat) (hf : s.length + 1 ≤ fuel) :
    Generated.Modfile.MustQuote isPrintI fuel s = .ok (Modfile.mustQuote s) := by
  unfold Generated.Modfile.MustQuote Modfile.mustQuote
  have h := MustQuote_loop1_spec s fuel 0 (by omega) (by omega)
  simp only [Int.natCast_zero, List.drop_zero] at h
  simp only [h, bind_ok, contains_eq]
  cases Modfile.mustQuoteRunes s.length (Utf8.runes s)
  · simp only [Bool.false_eq_true, if_false, Bool.false_or, pure_eq_ok]
    congr 2
    cases s <;> simp
  · rfl

/-! ### AutoQuote -/

theorem AutoQuote_eq (s : Bytes) (fuel : Nat) (hf : s.length + 1 ≤ fuel) :
    Generated.Modfile.AutoQuote isPrintI Quote.quote fuel s = .ok (Modfile.autoQuote s) := by
  unfold Generated.Modfile.AutoQuote Modfile.autoQuote
  rw [MustQuote_eq s fuel hf]
  cases Modfile.mustQuote s <;> rfl

/-! ### the unquoted value is at most four times as long as the token -/

theorem encode_length_le (r : Nat) : (Utf8.encode r).length ≤ 4 := by
  unfold Utf8.encode; split
  · simp
  · split
    · simp
    · split <;> simp

theorem charBytes_length_le (r : Nat) (mb : Bool) : (Quote.charBytes r mb).length ≤ 4 := by
  unfold Quote.charBytes; split
  · simp
  · exact encode_length_le r

theorem unquoteChar_tail_le (c : UInt8) (rest : Bytes) (r : Nat) (mb : Bool) (tail : Bytes)
    (h : Quote.unquoteChar (c :: rest) = some (r, mb, tail)) : tail.length ≤ rest.length := by
  rcases Proofs.ModfileC20.unquoteChar_chunk c rest r mb tail h with ⟨rfl, _⟩ | ⟨ch, hs, hne, _⟩
  · exact Nat.le_refl _
  · have := congrArg List.length hs
    have : 0 < ch.length := List.length_pos_iff.mpr hne
    simp at *; omega

theorem unquoteLoop_length : ∀ (fuel : Nat) (s acc out rem : Bytes),
    Quote.unquoteLoop fuel s acc = some (out, rem) →
    out.length + 4 * rem.length + 4 ≤ acc.length + 4 * s.length := by
  intro fuel
  induction fuel with
  | zero => intro s acc out rem h; simp [Quote.unquoteLoop] at h
  | succ n ih =>
    intro s acc out rem h
    unfold Quote.unquoteLoop at h
    cases s with
    | nil => simp at h
    | cons c rest =>
      simp only at h
      split at h
      · simp only [Option.some.injEq, Prod.mk.injEq] at h
        obtain ⟨rfl, rfl⟩ := h
        simp; omega
      · cases huc : Quote.unquoteChar (c :: rest) with
        | none => rw [huc] at h; cases h
        | some v =>
          obtain ⟨r, mb, tail⟩ := v
          rw [huc] at h
          simp only at h
          split at h
          · cases h
          · have h1 := ih _ _ _ _ h
            have h2 := unquoteChar_tail_le c rest r mb tail huc
            have h3 := charBytes_length_le r mb
            simp at h1 ⊢; omega

theorem unquote_length {s t : Bytes} (h : Quote.unquote s = some t) : t.length ≤ 4 * s.length := by
  unfold Quote.unquote at h
  match s, h with
  | [], h => cases h
  | [_], h => cases h
  | q :: r1 :: rest', h =>
    simp only at h
    split at h
    · cases h
    · split at h
      · split at h
        · simp only [Option.some.injEq] at h
          subst h
          have h1 := List.length_filter_le (fun x : UInt8 => x != 13) (List.takeWhile (fun x => x != 96) (r1 :: rest'))
          have h2 := GoRt.length_takeWhile_le (fun x : UInt8 => x != 96) (r1 :: rest')
          simp at h1 h2 ⊢; omega
        · cases h
      · split at h
        · split at h
          · rename_i out hl
            simp only [Option.some.injEq] at h
            subst h
            have := unquoteLoop_length _ _ _ _ _ hl
            simp at this ⊢; omega
          · cases h
        · cases h

/-! ### parseString -/

/-- the `error` value the translated parseString returns when the model says `none` -/
def parseStringErr (s : Bytes) : Option String :=
  some (if isPrefixOfB [34] s then "invalid syntax" else "unquoted string cannot contain quote")

theorem parseString_eq (s : Bytes) (fuel : Nat) (hf : 4 * s.length + 1 ≤ fuel) :
    Generated.Modfile.parseString isPrintI Quote.quote unquoteI fuel s =
      .ok (match Modfile.parseString s with
        | some (t, tok) => ((t, none), tok)
        | none => (([], parseStringErr s), s)) := by
  unfold Generated.Modfile.parseString Modfile.parseString parseStringErr
  simp only [hasPrefix, GoRt.containsAny]
  by_cases hp : isPrefixOfB [34] s = true
  · cases hu : Quote.unquote s with
    | none => simp only [hp, if_true, unquoteI, hu]; rfl
    | some t =>
      have := unquote_length hu
      simp only [hp, if_true, unquoteI, hu, Option.isNone_none, Bool.not_true, Bool.false_eq_true, if_false]
      rw [AutoQuote_eq t fuel (by omega)]
      rfl
  · by_cases hc : GoStrings.containsAny s [34, 39, 96] = true
    · simp only [hp, hc, Bool.false_eq_true, if_false, if_true]; rfl
    · simp only [hp, hc, Bool.false_eq_true, if_false]
      rw [AutoQuote_eq s fuel (by omega)]
      rfl

end ModVerif.TieFnModfile
