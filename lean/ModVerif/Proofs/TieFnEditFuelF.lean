/-
  Closed fuel of the FnEdit session ties, part F (agent edit-fuel2): `strconv.Quote` expands every input byte to at most
  FOUR output bytes (`\xNN` for a control / invalid byte; a 2-byte rune gives at most `\uNNNN` = 6 ≤ 8, a 3-byte rune 6 ≤ 12,
  a 4-byte rune `\UNNNNNNNN` = 10 ≤ 16), plus the two quotes:  `quote_length`, `autoQuote_length`, `qsz_le`.
-/
import ModVerif.Proofs.TieFnEditFuelD
import ModVerif.Proofs.GoRtLemmasStr
set_option linter.unusedSimpArgs false
set_option linter.unusedVariables false
namespace ModVerif.Tie.FnEditFuelF
open ModVerif ModVerif.Modfile ModVerif.Tie.FnEditFuelA ModVerif.Tie.FnEditFuelB ModVerif.Tie.FnEditFuelD

theorem hexDigits_length (r : Nat) : ∀ k, (Quote.hexDigits r k).length = k
  | 0 => rfl
  | k + 1 => by simp [Quote.hexDigits, hexDigits_length r k]

theorem encode_length (r : Nat) : (Utf8.encode r).length ≤ 4 ∧ (r < 0x800 → (Utf8.encode r).length ≤ 2) ∧
    (r < 0x80 → (Utf8.encode r).length = 1) := by
  unfold Utf8.encode
  split
  · simp
  · split
    · simp; omega
    · split <;> (simp; omega)

theorem ite_le' {c : Prop} [Decidable c] {a b n : Nat} (h1 : c → a ≤ n) (h2 : ¬ c → b ≤ n) : ite c a b ≤ n := by
  split
  · exact h1 ‹_›
  · exact h2 ‹_›

theorem appendEscapedRune_length (r : Nat) : (Quote.appendEscapedRune r).length ≤ 10 := by
  have he := encode_length r
  unfold Quote.appendEscapedRune
  simp only [apply_ite List.length, List.length_cons, List.length_nil, List.length_append, hexDigits_length]
  repeat' (first | (apply ite_le' <;> intro _) | omega)

theorem appendEscapedRune_length6 (r : Nat) (h : r < 0x800) : (Quote.appendEscapedRune r).length ≤ 6 := by
  have he := encode_length r
  unfold Quote.appendEscapedRune
  simp only [apply_ite List.length, List.length_cons, List.length_nil, List.length_append, hexDigits_length]
  repeat' (first | (apply ite_le' <;> intro _) | omega)

theorem isPrint_ascii : ∀ r, r < 128 → 32 ≤ r → r ≠ 127 → UnicodePrint.isPrint r = true := by decide +kernel

theorem appendEscapedRune_length4 (r : Nat) (h : r < 0x80) : (Quote.appendEscapedRune r).length ≤ 4 := by
  have he := encode_length r
  have hp := isPrint_ascii r h
  have hv : Quote.validRune r = true := by simp [Quote.validRune]; omega
  unfold Quote.appendEscapedRune
  simp only [apply_ite List.length, List.length_cons, List.length_nil, List.length_append, hexDigits_length]
  repeat' (first | (apply ite_le' <;> intro _) | omega | (exfalso; simp_all <;> omega))

/-- a decoded rune of width 2 is below 0x800, one of width 1 below 0x80 -/
theorem decode_small {s : Bytes} {r w : Nat} (h : Utf8.decode s = some (r, w)) :
    1 ≤ w ∧ w ≤ s.length ∧ (w = 1 → r < 0x80) ∧ (w = 2 → r < 0x800) := by
  unfold Utf8.decode at h
  split at h
  · simp at h
  · rename_i b0 rest
    simp only at h
    repeat' split at h
    all_goals (first | (simp at h; done) | (simp only [Option.some.injEq, Prod.mk.injEq] at h; obtain ⟨rfl, rfl⟩ := h; simp only [Utf8.isCont, Bool.and_eq_true, decide_eq_true_eq] at *; (try simp [List.length]); (try omega)))

theorem quoteLoop_length : ∀ (fuel : Nat) (s acc : Bytes),
    (Quote.quoteLoop fuel s acc).length ≤ 4 * s.length + acc.length
  | 0, s, acc => by simp [Quote.quoteLoop]
  | fuel + 1, [], acc => by simp [Quote.quoteLoop]
  | fuel + 1, c :: t, acc => by
    unfold Quote.quoteLoop
    simp only
    by_cases hc : c.toNat ≥ 0x80
    · simp only [hc, if_true]
      split
      · have ih := quoteLoop_length fuel ((c :: t).drop 1) (([92, 120, Quote.lowerhex (c.toNat / 16), Quote.lowerhex (c.toNat % 16)] : Bytes).reverse ++ acc)
        refine Nat.le_trans ih ?_
        simp; omega
      · rename_i hne
        cases hd : Utf8.decode (c :: t) with
        | none => simp [Utf8.decodeRune, hd] at hne
        | some rw =>
          obtain ⟨r, w⟩ := rw
          have hs := decode_small hd
          have hdr : Utf8.decodeRune (c :: t) = (r, w) := by simp [Utf8.decodeRune, hd]
          rw [hdr]
          simp only
          have ih := quoteLoop_length fuel ((c :: t).drop w) ((Quote.appendEscapedRune r).reverse ++ acc)
          refine Nat.le_trans ih ?_
          have ha := appendEscapedRune_length r
          have h1 : w ≠ 1 := by
            intro h1
            subst h1
            simp only [Utf8.decode] at hd
            split at hd
            · omega
            · repeat' split at hd
              all_goals simp at hd
          simp only [List.length_drop, List.length_append, List.length_reverse, List.length_cons] at hs ⊢
          by_cases h2 : w = 2
          · have := appendEscapedRune_length6 r (hs.2.2.2 h2); omega
          · omega
    · simp only [hc, if_false]
      split
      · have ih := quoteLoop_length fuel ((c :: t).drop 1) (([92, 120, Quote.lowerhex (c.toNat / 16), Quote.lowerhex (c.toNat % 16)] : Bytes).reverse ++ acc)
        refine Nat.le_trans ih ?_
        simp; omega
      · have ih := quoteLoop_length fuel ((c :: t).drop 1) ((Quote.appendEscapedRune c.toNat).reverse ++ acc)
        refine Nat.le_trans ih ?_
        have ha := appendEscapedRune_length4 c.toNat (by omega)
        simp; omega

/-- **`strconv.Quote` at most quadruples its input** (plus the two quotes); the constant 4 is attained (`\x00`) -/
theorem quote_length (s : Bytes) : (Quote.quote s).length ≤ 4 * s.length + 2 := by
  have := quoteLoop_length (s.length + 1) s []
  simp [Quote.quote]; simpa using this

example : (Quote.quote [0, 0, 0]).length = 4 * 3 + 2 := by decide +kernel

theorem autoQuote_length (s : Bytes) : (autoQuote s).length ≤ 4 * s.length + 2 := by
  unfold autoQuote
  split
  · exact quote_length s
  · omega

/-- the size of an `AutoQuote`d argument is linear in its byte length -/
theorem qsz_le (s : Bytes) : qsz s ≤ 5 * s.length + 2 := by
  have := autoQuote_length s; unfold qsz; omega

/-! ### the size of an operation from the BYTE LENGTHS of its arguments alone -/

def reqRaw (r : EditSpec.Req) : Nat := r.path.length + r.vers.length + 4

/-- **the raw size of an operation**: `|s| + 1` per byte-string argument, `|path| + |vers| + 4` per requested requirement -/
def rawSize : EditSpec.Op → Nat
  | .addModule p => p.length + 1
  | .addGo v => v.length + 1
  | .dropGo => 0
  | .addToolchain n => n.length + 1
  | .dropToolchain => 0
  | .addGodebug k v => k.length + v.length + 2
  | .dropGodebug k => k.length + 1
  | .addRequire p v => p.length + v.length + 2
  | .addNewRequire p v _ => p.length + v.length + 2
  | .dropRequire p => p.length + 1
  | .setRequire l => (l.map reqRaw).sum
  | .setRequireSeparateIndirect l => (l.map reqRaw).sum
  | .addExclude p v => p.length + v.length + 2
  | .dropExclude p v => p.length + v.length + 2
  | .addReplace a b c d => a.length + b.length + c.length + d.length + 4
  | .dropReplace a b => a.length + b.length + 2
  | .addRetract lo hi why => lo.length + hi.length + why.length + 3
  | .dropRetract lo hi => lo.length + hi.length + 2
  | .addTool p => p.length + 1
  | .dropTool p => p.length + 1
  | .sortBlocks => 0
  | .cleanup => 0
  | .addUse d m => d.length + m.length + 2
  | .addNewUse d m => d.length + m.length + 2
  | .dropUse d => d.length + 1
  | .setUse w => (w.map fun x => x.1.length + x.2.length + 1).sum

theorem reqSize_le (r : EditSpec.Req) : reqSize r ≤ 5 * reqRaw r := by
  have := qsz_le r.path; unfold reqSize reqRaw; omega

theorem reqSizes_le : ∀ l : List EditSpec.Req, (l.map reqSize).sum ≤ 5 * (l.map reqRaw).sum
  | [] => by simp
  | r :: l => by
    have := reqSize_le r; have := reqSizes_le l
    simp only [List.map_cons, List.sum_cons]; omega

/-- **`opSize` (which counts the `AutoQuote`d forms) is at most five times the raw size** -/
theorem opSize_le (op : EditSpec.Op) : opSize op ≤ 5 * rawSize op := by
  cases op <;> simp only [opSize, rawSize]
  case setRequire l => exact reqSizes_le l
  case setRequireSeparateIndirect l => exact reqSizes_le l
  case addModule p => have := qsz_le p; omega
  case addRequire p v => have := qsz_le p; omega
  case addNewRequire p v i => have := qsz_le p; omega
  case addExclude p v => have := qsz_le p; omega
  case addReplace a b c d => have := qsz_le a; have := qsz_le c; omega
  case addRetract lo hi why => have := qsz_le lo; have := qsz_le hi; omega
  all_goals omega

/-- the growth allowance from raw sizes: `Σ (20 · rawSize op + 32)` -/
def opsR (ops : List EditSpec.Op) : Nat := (ops.map fun op => 20 * rawSize op + 32).sum

theorem opsG_le : ∀ ops : List EditSpec.Op, opsG ops ≤ opsR ops
  | [] => by simp [opsR]
  | op :: ops => by
    have := opSize_le op; have := opsG_le ops
    simp only [opsG_cons, opsR, List.map_cons, List.sum_cons, G] at *; omega

end ModVerif.Tie.FnEditFuelF
