/-
  Helper lemmas for Tie/FnParse.lean, part F — MODEL ONLY: size bounds on what the model's `parseFile` returns, in terms
  of the input length.  `input.assignComments` of the regenerated parser runs on fuel proportional to the number of
  nodes of the tree and to the number of recorded comments; to give `parse_tie` an explicit fuel bound in `len(data)`:

      nodeCount stmts + len(comments) ≤ len(data) + 1          (`parseFile_size`)

  (`nodeCount` of Proofs/TieFnParseCommentsC.lean: 1 per comment block / line, 3 + lines per block).  Potential
  argument: `m2 i = len(remaining) + (1 if the pending token is not EOF) + len(recorded comments)` never increases along
  `lex`, decreases by ≥ 1 when the consumed token is not EOF (a recorded comment costs its two slashes), and every node
  is paid for by one consumed token.  Also: the statements `parseFile` returns carry no suffix comments (`parseFile_noSuffix`).
-/
import ModVerif.Proofs.TieFnParseCommentsC
import ModVerif.Proofs.ModfileParse
import ModVerif.Proofs.ModfileEolFirst
namespace ModVerif.TieFnParse
open ModVerif ModVerif.Modfile
open ModVerif.Proofs.ModfileLex ModVerif.Proofs.ModfilePos
open ModVerif.Proofs.ModfileParse (m)
open ModVerif.TieFnParseComments (nodeCount StmtP)

/-! ### the lexer: a recorded comment costs two bytes -/

theorem lineOf_slashes (t : Bytes) : 2 ≤ (Proofs.ModfileFmtLex.lineOf (47 :: 47 :: t)).length := by
  simp [Proofs.ModfileFmtLex.lineOf]

/-- readToken either leaves the recorded comments alone or records one and consumes at least two bytes -/
theorem readToken_cases2 (j i : Input) (h : readToken j = .ok i) :
    i.commentsRev = j.commentsRev ∨
      (i.commentsRev.length = j.commentsRev.length + 1 ∧ i.remaining.length + 2 ≤ j.remaining.length) := by
  have hR : ∀ (a : Input) (r : Nat) (a' : Input), a.commentsRev = j.commentsRev → readRune a = .ok (r, a') →
      a'.commentsRev = j.commentsRev := fun a r a' hp hr => by rw [(Proofs.ModfileC20.readRune_token hr).2.1]; exact hp
  unfold readToken at h
  obtain ⟨i0', h0', hle0, hc0', _⟩ := skipSpaces_spec (j.remaining.length + 1) j (by omega)
  cases h0 : skipSpaces (j.remaining.length + 1) j with
  | error e => simp [h0, bind, Except.bind] at h
  | ok i0 =>
    have hi0 : i0.commentsRev = j.commentsRev :=
      skipSpaces_pres (P := fun a => a.commentsRev = j.commentsRev) hR _ _ _ rfl h0
    have hle : i0.remaining.length ≤ j.remaining.length := by
      rw [h0] at h0'; cases h0'; exact hle0
    simp only [h0, bind, Except.bind] at h
    split at h
    · rename_i hc
      simp only [Bool.and_eq_true] at hc
      obtain ⟨i'', hr, hrem, _, _, _, _, hcomm⟩ := Proofs.ModfileFmtLex.readComment_char i0 hc.2
      rw [hr] at h
      have : i'' = i := by cases h; rfl
      subst this
      obtain ⟨t, ht⟩ := Proofs.ModfileFmtLex.peekPrefix_slashes hc.2
      have h2 := lineOf_slashes t
      rw [← ht] at h2
      have hlen := congrArg List.length hrem
      simp only [List.length_append] at hlen
      rw [hcomm, hi0]
      split
      · right
        refine ⟨by simp, by omega⟩
      · exact Or.inl rfl
    · left
      split at h
      · cases h
      · have hs : (startToken i0).commentsRev = j.commentsRev := hi0
        split at h
        · cases h; exact hs
        · split at h
          · cases h1 : readRune (startToken i0) with
            | error e => simp [h1] at h
            | ok v1 =>
              have hv1 := hR _ v1.1 v1.2 hs (by rw [h1])
              simp only [h1] at h
              cases h; exact hv1
          · split at h
            · cases h1 : readRune (startToken i0) with
              | error e => simp [h1] at h
              | ok v1 =>
                have hv1 := hR _ v1.1 v1.2 hs (by rw [h1])
                simp only [h1] at h
                cases h2 : readString (startToken i0).peekRune (v1.2.remaining.length + 1) v1.2 with
                | error e => simp [h2] at h
                | ok v2 =>
                  have hv2 := readString_pres (P := fun a => a.commentsRev = j.commentsRev) hR _ _ _ _ hv1 h2
                  simp only [h2] at h
                  cases h; exact hv2
            · split at h
              · cases h
              · split at h
                · cases h
                · rename_i v2 h2
                  have hv2 := readIdent_pres (P := fun a => a.commentsRev = j.commentsRev) hR _ _ _ hs h2
                  cases h; exact hv2

/-- the potential: bytes left + pending non-EOF token + recorded comments -/
def m2 (i : Input) : Nat := m i + i.commentsRev.length

@[simp] theorem m2_nextId (i : Input) (n : Nat) : m2 { i with nextId := n } = m2 i := rfl

theorem lex_m2 {i j : Input} {t : Token} (h : lex i = .ok (t, j)) :
    t = i.token ∧ m2 j ≤ m2 i ∧ (i.token.kind ≠ .eof → m2 j + 1 ≤ m2 i) := by
  unfold lex at h
  cases hr : readToken i with
  | error e => simp [hr, bind, Except.bind] at h
  | ok i1 =>
    simp only [hr, bind, Except.bind, Except.ok.injEq, Prod.mk.injEq] at h
    obtain ⟨rfl, rfl⟩ := h
    refine ⟨rfl, ?_⟩
    rcases readToken_spec i with ⟨i', h', hle, hlt, _⟩ | ⟨e, h', _⟩
    · rw [hr] at h'; cases h'
      unfold m2 m
      rcases readToken_cases2 i i1 hr with hc | ⟨hc, h2⟩
      · rw [hc]
        by_cases hk : i1.token.kind = .eof
        · simp only [hk, if_true]
          constructor
          · split <;> omega
          · intro hi; simp only [hi, if_false]; omega
        · have := hlt hk
          simp only [hk, if_false]
          constructor
          · split <;> omega
          · intro hi; simp only [hi, if_false]; omega
      · constructor
        · split <;> split <;> omega
        · intro hi; simp only [hi, if_false]; split <;> omega
    · rw [hr] at h'; cases h'

/-! ### the parser loops: every node is paid for by one consumed token -/

theorem lex_m2' {i : Input} {v : Token × Input} (h : lex i = .ok v) :
    v.1 = i.token ∧ m2 v.2 ≤ m2 i ∧ (i.token.kind ≠ .eof → m2 v.2 + 1 ≤ m2 i) :=
  lex_m2 (show lex i = .ok (v.1, v.2) from h)

theorem parseLineLoop_m2 : ∀ (fuel : Nat) (i : Input) (s e : Position) (ts : List Bytes) (l : Line) (i' : Input),
    parseLineLoop fuel i s e ts = .ok (l, i') → m2 i' ≤ m2 i := by
  intro fuel
  induction fuel with
  | zero => intro i s e ts l i' h; simp [parseLineLoop] at h
  | succ n ih =>
    intro i s e ts l i' h
    unfold parseLineLoop at h
    cases h1 : lex i with
    | error e1 => simp [h1, bind, Except.bind] at h
    | ok v =>
      obtain ⟨_, hle, _⟩ := lex_m2' h1
      simp only [h1, bind, Except.bind] at h
      split at h
      · simp only [Except.ok.injEq, Prod.mk.injEq] at h
        obtain ⟨_, rfl⟩ := h
        simpa using hle
      · have := ih _ _ _ _ _ _ h
        omega

theorem parseLine_m2 {fuel : Nat} {i : Input} {l : Line} {i' : Input} (h : parseLine fuel i = .ok (l, i')) :
    m2 i' + 1 ≤ m2 i := by
  unfold parseLine at h
  cases h1 : lex i with
  | error e1 => simp [h1, bind, Except.bind] at h
  | ok v =>
    obtain ⟨htok, hle, hlt⟩ := lex_m2' h1
    simp only [h1, bind, Except.bind] at h
    split at h
    · cases h
    · rename_i hk
      have hne : i.token.kind ≠ .eof := by
        intro he; apply hk; rw [htok, he]; rfl
      have := parseLineLoop_m2 _ _ _ _ _ _ _ h
      have := hlt hne
      omega

theorem parseLineBlockLoop_m2 : ∀ (fuel : Nat) (i : Input) (x : LineBlock) (ls : List Line) (cs : List Comment)
    (b : LineBlock) (i' : Input), parseLineBlockLoop fuel i x ls cs = .ok (b, i') →
    b.lines.length + m2 i' + 1 ≤ ls.length + m2 i := by
  intro fuel
  induction fuel with
  | zero => intro i x ls cs b i' h; simp [parseLineBlockLoop] at h
  | succ n ih =>
    intro i x ls cs b i' h
    unfold parseLineBlockLoop at h
    split at h
    · cases h1 : lex i with
      | error e1 => simp [h1, bind, Except.bind] at h
      | ok v =>
        obtain ⟨_, hle, _⟩ := lex_m2' h1
        simp only [h1, bind, Except.bind] at h
        have := ih _ _ _ _ _ _ h
        omega
    · cases h1 : lex i with
      | error e1 => simp [h1, bind, Except.bind] at h
      | ok v =>
        obtain ⟨_, hle, _⟩ := lex_m2' h1
        simp only [h1, bind, Except.bind] at h
        have := ih _ _ _ _ _ _ h
        omega
    · cases h1 : lex i with
      | error e1 => simp [h1, bind, Except.bind] at h
      | ok v =>
        obtain ⟨_, hle, _⟩ := lex_m2' h1
        simp only [h1, bind, Except.bind] at h
        have := ih _ _ _ _ _ _ h
        omega
    · cases h
    · rename_i hk
      have hne : i.token.kind ≠ .eof := by
        intro he; unfold Input.peek at hk; rw [he] at hk; cases hk
      cases h1 : lex i with
      | error e1 => simp [h1, bind, Except.bind] at h
      | ok v =>
        obtain ⟨_, hle, hlt⟩ := lex_m2' h1
        have hlt' := hlt hne
        simp only [h1, bind, Except.bind] at h
        split at h
        · cases h
        · cases h2 : lex v.2 with
          | error e2 => simp [h2] at h
          | ok w =>
            obtain ⟨_, hle2, _⟩ := lex_m2' h2
            simp only [h2, Except.ok.injEq, Prod.mk.injEq] at h
            obtain ⟨rfl, rfl⟩ := h
            simp only [List.length_reverse]
            omega
    · cases hp : parseLine (n + 1) i with
      | error e1 => simp [hp, bind, Except.bind] at h
      | ok v =>
        have hl := parseLine_m2 (show parseLine (n + 1) i = .ok (v.1, v.2) by rw [hp])
        simp only [hp, bind, Except.bind] at h
        have := ih _ _ _ _ _ _ h
        simp only [List.length_cons] at this
        omega

theorem nodeCount_single_line (l : Line) : nodeCount [.line l] = 1 := rfl
theorem nodeCount_single_block (b : LineBlock) : nodeCount [.lineBlock b] = 3 + b.lines.length := rfl
theorem nodeCount_single_cb (c : CommentBlock) : nodeCount [.commentBlock c] = 1 := rfl

theorem nodeCount_cons (x : Expr) (xs : List Expr) : nodeCount (x :: xs) = nodeCount [x] + nodeCount xs := by
  cases x <;> simp [nodeCount] <;> omega

theorem nodeCount_append (xs ys : List Expr) : nodeCount (xs ++ ys) = nodeCount xs + nodeCount ys := by
  induction xs with
  | nil => simp [nodeCount]
  | cons x t ih => rw [List.cons_append, nodeCount_cons, nodeCount_cons x t, ih]; omega

theorem nodeCount_setComments (x : Expr) (c : Comments) : nodeCount [x.setComments c] = nodeCount [x] := by
  cases x <;> rfl

theorem parseStmtLoop_m2 : ∀ (fuel : Nat) (i : Input) (s e : Position) (ts : List Bytes) (x : Expr) (i' : Input),
    parseStmtLoop fuel i s e ts = .ok (x, i') → nodeCount [x] + m2 i' ≤ m2 i + 1 := by
  intro fuel
  induction fuel with
  | zero => intro i s e ts x i' h; simp [parseStmtLoop] at h
  | succ n ih =>
    intro i s e ts x i' h
    unfold parseStmtLoop at h
    cases h1 : lex i with
    | error e1 => simp [h1, bind, Except.bind] at h
    | ok v =>
      obtain ⟨htok, hle, hlt⟩ := lex_m2' h1
      simp only [h1, bind, Except.bind] at h
      split at h
      · simp only [Except.ok.injEq, Prod.mk.injEq] at h
        obtain ⟨rfl, rfl⟩ := h
        simp only [nodeCount_single_line, m2_nextId]
        omega
      · rename_i hk
        have hne : i.token.kind ≠ .eof := by
          intro he; apply hk; rw [htok, he]; rfl
        have hlt' := hlt hne
        split at h
        · split at h
          · unfold parseLineBlock at h
            split at h
            · cases h
            · rename_i w hw
              simp only [Except.ok.injEq, Prod.mk.injEq] at h
              obtain ⟨rfl, rfl⟩ := h
              have := parseLineBlockLoop_m2 _ _ _ _ _ _ _ (show _ = Except.ok (w.1, w.2) from hw)
              simp only [List.length_nil] at this
              rw [nodeCount_single_block]
              omega
          · split at h
            · rename_i hnext
              have hne2 : v.2.token.kind ≠ .eof := by
                intro he
                have : v.2.peek = .eof := he
                rw [this] at hnext
                simp at hnext
              cases h2 : lex v.2 with
              | error e2 => simp [h2] at h
              | ok w =>
                obtain ⟨_, hle2, hlt2⟩ := lex_m2' h2
                have hlt2' := hlt2 hne2
                simp only [h2] at h
                split at h
                · cases h3 : lex w.2 with
                  | error e3 => simp [h3] at h
                  | ok u =>
                    obtain ⟨_, hle3, _⟩ := lex_m2' h3
                    simp only [h3, Except.ok.injEq, Prod.mk.injEq] at h
                    obtain ⟨rfl, rfl⟩ := h
                    rw [nodeCount_single_block]
                    simp only [List.length_nil]
                    omega
                · have := ih _ _ _ _ _ _ h
                  omega
            · have := ih _ _ _ _ _ _ h
              omega
        · have := ih _ _ _ _ _ _ h
          omega

theorem parseStmt_m2 {fuel : Nat} {i : Input} {x : Expr} {i' : Input} (h : parseStmt fuel i = .ok (x, i'))
    (hne : i.token.kind ≠ .eof) : nodeCount [x] + m2 i' ≤ m2 i := by
  unfold parseStmt at h
  cases h1 : lex i with
  | error e1 => simp [h1, bind, Except.bind] at h
  | ok v =>
    obtain ⟨_, hle, hlt⟩ := lex_m2' h1
    simp only [h1, bind, Except.bind] at h
    have := parseStmtLoop_m2 _ _ _ _ _ _ _ h
    have := hlt hne
    omega

theorem parseFileLoop_m2 : ∀ (fuel : Nat) (i : Input) (stmtsRev : List Expr) (cb : Option CommentBlock)
    (out : List Expr) (i' : Input), parseFileLoop fuel i stmtsRev cb = .ok (out, i') →
    nodeCount out + m2 i' ≤ nodeCount stmtsRev.reverse + (if cb.isSome then 1 else 0) + m2 i := by
  intro fuel
  induction fuel with
  | zero => intro i stmtsRev cb out i' h; simp [parseFileLoop] at h
  | succ n ih =>
    intro i stmtsRev cb out i' h
    unfold parseFileLoop at h
    split at h
    · cases h1 : lex i with
      | error e1 => simp [h1, bind, Except.bind] at h
      | ok v =>
        obtain ⟨_, hle, _⟩ := lex_m2' h1
        simp only [h1, bind, Except.bind] at h
        split at h
        · have := ih _ _ _ _ _ h
          simp only [List.reverse_cons, nodeCount_append, nodeCount_single_cb, Option.isSome_none, Bool.false_eq_true,
            if_false, Option.isSome_some, if_true] at this ⊢
          omega
        · have := ih _ _ _ _ _ h
          simp only [Option.isSome_none, Bool.false_eq_true, if_false] at this ⊢
          omega
    · rename_i hk
      have hne : i.token.kind ≠ .eof := by
        intro he; unfold Input.peek at hk; rw [he] at hk; cases hk
      cases h1 : lex i with
      | error e1 => simp [h1, bind, Except.bind] at h
      | ok v =>
        obtain ⟨_, hle, hlt⟩ := lex_m2' h1
        have := hlt hne
        simp only [h1, bind, Except.bind] at h
        have := ih _ _ _ _ _ h
        simp only [Option.isSome_some, if_true] at this
        split <;> omega
    · split at h
      · simp only [Except.ok.injEq, Prod.mk.injEq] at h
        obtain ⟨rfl, rfl⟩ := h
        simp only [List.reverse_cons, nodeCount_append, nodeCount_single_cb, Option.isSome_some, if_true]
        omega
      · simp only [Except.ok.injEq, Prod.mk.injEq] at h
        obtain ⟨rfl, rfl⟩ := h
        simp only [Option.isSome_none, Bool.false_eq_true, if_false]
        omega
    · rename_i hk1 hk2 hk3
      have hne : i.token.kind ≠ .eof := hk3
      cases hp : parseStmt (n + 1) i with
      | error e1 => simp [hp, bind, Except.bind] at h
      | ok v =>
        have hs := parseStmt_m2 (show parseStmt (n + 1) i = .ok (v.1, v.2) by rw [hp]) hne
        simp only [hp, bind, Except.bind] at h
        split at h
        · have := ih _ _ _ _ _ h
          simp only [List.reverse_cons, nodeCount_append, nodeCount_setComments, Option.isSome_none,
            Bool.false_eq_true, if_false, Option.isSome_some, if_true] at this ⊢
          omega
        · have := ih _ _ _ _ _ h
          simp only [List.reverse_cons, nodeCount_append, Option.isSome_none, Bool.false_eq_true, if_false] at this ⊢
          omega

/-- ★ the size of what `parseFile` returns: nodes + recorded comments ≤ len(data) + 1 -/
theorem parseFile_size {data : Bytes} {stmts : List Expr} {i : Input} (h : parseFile data = .ok (stmts, i)) :
    nodeCount stmts + i.commentsRev.length ≤ data.length + 1 := by
  unfold parseFile at h
  cases hr : readToken (newInput data) with
  | error err => simp [hr, bind, Except.bind] at h
  | ok i0 =>
    simp only [hr, bind, Except.bind] at h
    have hm := parseFileLoop_m2 _ _ _ _ _ _ h
    simp only [List.reverse_nil, nodeCount, Option.isSome_none, Bool.false_eq_true, if_false, Nat.zero_add] at hm
    have h0 : m2 i0 ≤ data.length + 1 := by
      rcases readToken_spec (newInput data) with ⟨i', h', hle, hlt, _⟩ | ⟨e, h', _⟩
      · rw [hr] at h'; cases h'
        have hd : (newInput data).remaining.length = data.length := rfl
        have hc : (newInput data).commentsRev.length = 0 := rfl
        unfold m2 m
        rcases readToken_cases2 _ _ hr with hcs | ⟨hcs, h2⟩
        · rw [hcs, hc]; split <;> omega
        · rw [hcs, hc]; split <;> omega
      · rw [hr] at h'; cases h'
    have : i.commentsRev.length ≤ m2 i := by unfold m2; omega
    omega

/-- the statements `parseFile` returns carry no suffix comments (the parser only fills `before`) -/
theorem parseFile_noSuffix {data : Bytes} {stmts : List Expr} {i : Input} (h : parseFile data = .ok (stmts, i)) :
    ∀ s ∈ stmts, StmtP (fun c => c.suffix.length ≤ 0) s := by
  intro s hs
  have hwf := Proofs.ModfileFmtEmits.parseFile_wf data stmts i h s hs
  have hn := Proofs.ModfileFmtMain.wf_noSuf hwf
  cases s with
  | commentBlock x => simp only [StmtP, Expr.comments]; rw [show x.comments.suffix = [] from hn]; simp
  | line l => simp only [StmtP, Expr.comments]; rw [show l.comments.suffix = [] from hn]; simp
  | lineBlock b =>
    obtain ⟨h1, h2, h3, h4⟩ := hn
    refine ⟨by simp [h1], by simp [h2], by simp [h4], fun l hl => by simp [h3 l hl]⟩
  | lparen x => exact absurd hwf (by simp [Proofs.ModfileFmtTree.WFStmt])
  | rparen x => exact absurd hwf (by simp [Proofs.ModfileFmtTree.WFStmt])

end ModVerif.TieFnParse
