/-
  C02 clause 3, leaf fixpoints, part 2: `module.CanonicalVersion` maps valid versions to valid versions and is
  idempotent; the token `parseVersion` writes back is a fixpoint of `parseVersion` (without a fixer: always;
  with a fixer: when the fixer is idempotent on its image and the fixed version is a plain token).
-/
import ModVerif.Proofs.ModfileFmtFixValid
namespace ModVerif.Proofs.ModfileFmtFix
open ModVerif ModVerif.Modfile ModVerif.SemverSpec
open ModVerif.Proofs.ModfileFmtQuote ModVerif.Proofs.ModfileFmtLex

/-! ### `CanonicalVersion` -/

theorem B_incompatible_ne_nil : B "+incompatible" ≠ [] := by decide +kernel

/-- the build suffix `CanonicalVersion` keeps -/
def keptBuild (p : Semver.Parsed) : Bytes := if p.build == B "+incompatible" then B "+incompatible" else []

theorem keptBuild_cases (p : Semver.Parsed) :
    (p.build = B "+incompatible" ∧ keptBuild p = p.build) ∨ (p.build ≠ B "+incompatible" ∧ keptBuild p = []) := by
  unfold keptBuild
  by_cases h : p.build = B "+incompatible"
  · left; simp [h]
  · right; simp [h]

theorem keptBuild_buildOpt {v : Bytes} {p : Semver.Parsed} (h : Semver.parse v = some p) : BuildOpt (keptBuild p) := by
  rcases keptBuild_cases p with ⟨_, e⟩ | ⟨_, e⟩
  · rw [e]; exact (Semver.decomp_fields (Semver.parse_decomp h)).2.2.2.2
  · rw [e]; exact Or.inl rfl

example : Semver.parse (B "v2.0.0+incompatible") ≠ none := by decide +kernel

theorem canonicalVersion_eq {v : Bytes} {p : Semver.Parsed} (h : Semver.parse v = some p) :
    Semver.canonicalVersion v = Semver.canonical v ++ keptBuild p := by
  simp only [Semver.canonicalVersion, Semver.build_spec h, keptBuild]
  split <;> simp

example : Semver.parse (B "v1.2") ≠ none := by decide +kernel

/-- the parts of `CanonicalVersion(v)`: those of `v`, with the build kept only when it is `+incompatible` -/
theorem canonicalVersion_parse {v : Bytes} {p : Semver.Parsed} (h : Semver.parse v = some p) :
    Semver.parse (Semver.canonicalVersion v) =
      some { major := p.major, minor := p.minor, patch := p.patch, prerelease := p.prerelease, build := keptBuild p } := by
  rw [canonicalVersion_eq h, Semver.canonical_spec h]
  obtain ⟨nmaj, nmin, npat, hpre, _⟩ := Semver.decomp_fields (Semver.parse_decomp h)
  exact Semver.decomp_parse (Semver.Decomp.full p.major p.minor p.patch p.prerelease (keptBuild p) nmaj nmin npat hpre
    (keptBuild_buildOpt h))

example : Semver.parse (B "v1.2.3+meta") ≠ none := by decide +kernel

theorem canonicalVersion_invalid {v : Bytes} (h : Semver.parse v = none) : Semver.canonicalVersion v = [] := by
  have hb : Semver.build v = [] := by unfold Semver.build; rw [h]
  have hne : ((([] : Bytes) == B "+incompatible")) = false := by decide +kernel
  simp [Semver.canonicalVersion, Semver.canonical_invalid h, hb, hne]

example : Semver.parse (B "1.2.3") = none := by decide +kernel

/-- ★ `CanonicalVersion` of a valid version is valid -/
theorem canonicalVersion_valid {t : Bytes} (h : Semver.isValid t = true) :
    Semver.isValid (Semver.canonicalVersion t) = true := by
  obtain ⟨p, hp⟩ := valid_decomp h
  simp [Semver.isValid, canonicalVersion_parse hp]

example : Semver.isValid (B "v1.2+") = false ∧ Semver.isValid (B "v1.2") = true := by decide +kernel

/-- `CanonicalVersion(t)` is non-empty exactly for valid `t` -/
theorem canonicalVersion_ne_nil_iff (t : Bytes) : Semver.canonicalVersion t ≠ [] ↔ Semver.isValid t = true := by
  cases hp : Semver.parse t with
  | none => simp [canonicalVersion_invalid hp, Semver.isValid, hp]
  | some p =>
    have hv : Semver.isValid t = true := by simp [Semver.isValid, hp]
    simp only [hv, iff_true]
    exact valid_ne_nil (canonicalVersion_valid hv)

/-- ★ `CanonicalVersion` is idempotent, on every string -/
theorem canonicalVersion_idem (t : Bytes) :
    Semver.canonicalVersion (Semver.canonicalVersion t) = Semver.canonicalVersion t := by
  cases hp : Semver.parse t with
  | none =>
    rw [canonicalVersion_invalid hp]
    exact canonicalVersion_invalid (by decide)
  | some p =>
    have h2 := canonicalVersion_parse hp
    rw [canonicalVersion_eq h2, Semver.canonical_spec h2, canonicalVersion_eq hp, Semver.canonical_spec hp]
    congr 1
    simp only [keptBuild]
    split <;> simp [*]

/-! ### `parseVersion` -/

/-- on success the token written back is the version returned -/
theorem parseVersion_ok_tok {p tok tok' v : Bytes} {fix : Option Fixer}
    (h : parseVersion p tok fix = (tok', .ok v)) : tok' = v := by
  unfold parseVersion at h
  split at h
  · cases h
  · split at h
    · split at h
      · cases h
      · cases h
      · simp only [Prod.mk.injEq, Except.ok.injEq] at h
        rw [← h.1, ← h.2]
    · simp only at h
      split at h
      · cases h
      · simp only [Prod.mk.injEq, Except.ok.injEq] at h
        rw [← h.1, ← h.2]

example : parseVersion [] (B "v1.2") none = (B "v1.2.0", .ok (B "v1.2.0")) := by decide +kernel

/-- ★ without a fixer: the version returned is valid, is the new token, and parses to itself -/
theorem parseVersion_none_fix {p tok tok' v : Bytes} (h : parseVersion p tok none = (tok', .ok v)) :
    tok' = v ∧ Semver.isValid v = true ∧ ∀ p', parseVersion p' v none = (v, .ok v) := by
  have htok := parseVersion_ok_tok h
  subst htok
  unfold parseVersion at h
  split at h
  · cases h
  · rename_i t tok1 hps
    simp only at h
    split at h
    · cases h
    · rename_i hne
      simp only [Prod.mk.injEq, Except.ok.injEq] at h
      have hv : tok' = Semver.canonicalVersion t := h.1.symm
      have hnil : Semver.canonicalVersion t ≠ [] := by
        intro e; rw [e] at hne; exact hne rfl
      have hvalid : Semver.isValid tok' = true := by
        rw [hv]; exact canonicalVersion_valid ((canonicalVersion_ne_nil_iff t).1 hnil)
      refine ⟨rfl, hvalid, ?_⟩
      intro p'
      have hcv : Semver.canonicalVersion tok' = tok' := by rw [hv]; exact canonicalVersion_idem t
      have hemp : (tok' : Bytes).isEmpty = false := by
        cases htk : tok' with
        | nil => exact absurd htk (valid_ne_nil hvalid)
        | cons _ _ => rfl
      simp only [parseVersion, valid_parseString hvalid, hcv, hemp]
      simp

example : parseVersion [] (B "\"v1\"") none = (B "v1.0.0", .ok (B "v1.0.0")) := by decide +kernel

/-- a fixer is idempotent on its image: fixing a fixed version again returns it -/
def FixIdem (fx : Fixer) : Prop := ∀ p' v0 w, fx p' v0 = .ok w → fx p' w = .ok w

theorem dontFixRetract_idem : FixIdem dontFixRetract := by
  intro p' v0 w _; rfl

/-- with a fixer, general form: it suffices that `parseString` reads the fixed version as itself
    (any string that `MustQuote` accepts unquoted does) -/
theorem parseVersion_some_fix_gen {p tok tok' v : Bytes} {fx : Fixer}
    (h : parseVersion p tok (some fx) = (tok', .ok v))
    (hps : ∃ k, parseString v = some (v, k))
    (hidem : FixIdem fx) :
    tok' = v ∧ parseVersion p v (some fx) = (v, .ok v) := by
  have htok := parseVersion_ok_tok h
  subst htok
  refine ⟨rfl, ?_⟩
  obtain ⟨k, hk⟩ := hps
  unfold parseVersion at h
  split at h
  · cases h
  · rename_i t tok1 hpt
    simp only at h
    split at h
    · cases h
    · cases h
    · rename_i fixed hfx
      simp only [Prod.mk.injEq, Except.ok.injEq] at h
      have e : fixed = tok' := h.1
      subst e
      have := hidem p t fixed hfx
      simp only [parseVersion, hk, this]

example : parseVersion [] (B "v1") (some dontFixRetract) = (B "v1", .ok (B "v1")) ∧
    (∃ k, parseString (B "v1") = some (B "v1", k)) := by
  exact ⟨by decide +kernel, B "v1", by decide +kernel⟩

/-- ★ with a fixer that is idempotent on its image, when the fixed version is valid -/
theorem parseVersion_some_fix {p tok tok' v : Bytes} {fx : Fixer}
    (h : parseVersion p tok (some fx) = (tok', .ok v))
    (hv : Semver.isValid v = true)
    (hidem : ∀ p' v0 w, fx p' v0 = .ok w → fx p' w = .ok w) :
    tok' = v ∧ parseVersion p v (some fx) = (v, .ok v) :=
  parseVersion_some_fix_gen h ⟨v, valid_parseString hv⟩ hidem

example : parseVersion [] (B "v1.2.3") (some dontFixRetract) = (B "v1.2.3", .ok (B "v1.2.3")) ∧
    Semver.isValid (B "v1.2.3") = true ∧ FixIdem dontFixRetract :=
  ⟨by decide +kernel, by decide +kernel, dontFixRetract_idem⟩

/-- with the fixer of `retract` lines in `File.add` (the identity) the path plays no role -/
theorem parseVersion_dontFix {p tok tok' v : Bytes}
    (h : parseVersion p tok (some dontFixRetract) = (tok', .ok v))
    (hps : ∃ k, parseString v = some (v, k)) :
    tok' = v ∧ ∀ p', parseVersion p' v (some dontFixRetract) = (v, .ok v) := by
  refine ⟨parseVersion_ok_tok h, ?_⟩
  intro p'
  obtain ⟨k, hk⟩ := hps
  simp only [parseVersion, hk, dontFixRetract]

example : parseVersion [] (B "v1.2.3") (some dontFixRetract) = (B "v1.2.3", .ok (B "v1.2.3")) ∧
    (∃ k, parseString (B "v1.2.3") = some (B "v1.2.3", k)) := by
  exact ⟨by decide +kernel, B "v1.2.3", by decide +kernel⟩

end ModVerif.Proofs.ModfileFmtFix
