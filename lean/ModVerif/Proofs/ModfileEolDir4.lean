/-
  C02, clause 3 with end-of-line comments, part e: `format_preserves_directives` for strict go.mod files whose
  syntax tree satisfies the counting condition `EolCount` — in particular files with `// indirect` markers:
  the `indirect` flags are among the values compared.
-/
import ModVerif.Proofs.ModfileEolDir3
namespace ModVerif.Proofs.ModfileEol
open ModVerif ModVerif.Modfile ModVerif.Proofs.ModfileFmtLex ModVerif.Proofs.ModfileFmtLine
open ModVerif.Proofs.ModfileFmtFix ModVerif.Proofs.ModfileFmtTree ModVerif.Proofs.ModfileFmtParse
open ModVerif.Proofs.ModfileFmtDir ModVerif.Proofs.ModfileFmtMain

/-! ### the directive layer rewrites tokens only -/

/-- the statement with its tokens removed: what `CountStmt` looks at -/
def noTokL (l : Line) : Line := { l with token := [] }

def noTok : Expr → Expr
  | .line l => .line (noTokL l)
  | .lineBlock b => .lineBlock { b with lines := b.lines.map noTokL }
  | s => s

theorem addBlockLines_noTok (block : Comments) (verb : Bytes) (fix : Option Fixer) (strict : Bool) :
    ∀ (ls : List Line) (st : AddState), (addBlockLines block verb fix strict st ls).2.map noTokL = ls.map noTokL := by
  intro ls
  induction ls with
  | nil => intro st; rfl
  | cons l ls ih =>
    intro st
    simp only [addBlockLines, List.map_cons, ih]
    rfl

theorem addStmts_noTok (fix : Option Fixer) (strict : Bool) :
    ∀ (ss : List Expr) (st : AddState), (addStmts fix strict st ss).2.map noTok = ss.map noTok := by
  intro ss
  induction ss with
  | nil => intro st; rfl
  | cons x xs ih =>
    intro st
    simp only [addStmts, List.map_cons, ih]
    congr 1
    cases x with
    | line l =>
      simp only
      split
      · rfl
      · rename_i h; simp [noTok, noTokL, h]
    | lineBlock b =>
      simp only
      split
      · split
        · simp only [noTok, addBlockLines_noTok]
        · rfl
      · rfl
    | commentBlock x => rfl
    | lparen x => rfl
    | rparen x => rfl

theorem countStmt_noTok (s : Expr) : CountStmt (noTok s) ↔ CountStmt s := by
  cases s with
  | line l => exact Iff.rfl
  | lineBlock b =>
    simp only [noTok, CountStmt, List.mem_map]
    constructor
    · intro ⟨h1, h2, h3⟩
      exact ⟨h1, fun l hl => h2 (noTokL l) ⟨l, hl, rfl⟩, h3⟩
    · intro ⟨h1, h2, h3⟩
      refine ⟨h1, ?_, h3⟩
      rintro l ⟨l0, hl0, rfl⟩
      exact h2 l0 hl0
  | commentBlock x => exact Iff.rfl
  | lparen x => exact Iff.rfl
  | rparen x => exact Iff.rfl

theorem count_of_noTok {ss ss1 : List Expr} (h : ss1.map noTok = ss.map noTok) (hc : ∀ s ∈ ss1, CountStmt s) :
    ∀ s ∈ ss, CountStmt s := by
  intro s hs
  have : noTok s ∈ ss1.map noTok := by rw [h]; exact List.mem_map_of_mem hs
  obtain ⟨s1, hs1, heq⟩ := List.mem_map.1 this
  rw [← countStmt_noTok, ← heq, countStmt_noTok]
  exact hc s1 hs1

/-! ### the main theorem -/

/-- ★ `format_preserves_directives` (strict go.mod) for inputs whose syntax tree satisfies `EolCount` — files
    with end-of-line comments, in particular `// indirect`: if the strict parser accepts `x` as the well-formed
    file `f`, then it accepts `Format(f.Syntax)` as a file with the same directive values (module path, go,
    toolchain, godebug, require WITH THE INDIRECT FLAG, exclude, replace, retract intervals, tool) — without a
    fixer, or with a fixer that is idempotent on its image and never returns the empty string, provided the
    file has no `retract` directive in that case. -/
theorem format_preserves_directives_eol (name x : Bytes) (fix : Option Fixer) (f : Modfile.File)
    (h : parseToFile name x fix true = .ok f) (hc : EolCount f.syn) (hwf : WellFormed f)
    (hfix : FixOK fix) (hne : FixNE fix) (hret : fix ≠ none → f.retract = []) :
    ∃ f', parseToFile name (format f.syn) fix true = .ok f' ∧ values f' = values f := by
  unfold parseToFile at h
  cases hp : parse name x with
  | error e => simp [hp] at h
  | ok fs =>
    simp only [hp] at h
    cases ha : addStmts fix true { file := { syn := fs } } fs.stmts with
    | mk st stmts =>
      simp only [ha] at h
      -- the state before `fixRetract`
      generalize hst2 : ({ st with file := { st.file with syn := { fs with stmts := stmts } } } : AddState) = st2 at h
      have hfr : fixRetract st2 fix = st2 := by
        rcases fixRetract_cases st2 fix with h0 | ⟨hfn, h1⟩
        · exact h0
        · exfalso
          split at h
          · rename_i hemp
            simp only [Except.ok.injEq] at h
            rcases h1 with h1 | h1
            · exact h1 (by simpa using hemp)
            · rw [h] at h1
              exact h1 (hret hfn)
          · cases h
      rw [hfr] at h
      split at h
      · rename_i hemp
        simp only [Except.ok.injEq] at h
        have he2 : st2.errsRev = [] := by simpa using hemp
        have hest : st.errsRev = [] := by rw [← hst2] at he2; exact he2
        have hf : f = { st.file with syn := { fs with stmts := stmts } } := by rw [← h, ← hst2]
        have hsyn : f.syn = { fs with stmts := stmts } := by rw [hf]
        -- the counting condition holds for the tree of the first parse as well (same comments)
        have hstm : stmts = (addStmts fix true { file := { syn := fs } } fs.stmts).2 := by rw [ha]
        have hcfs : EolCount fs := by
          refine ⟨by have := hc.header; rw [hsyn] at this; exact this, ?_⟩
          apply count_of_noTok (ss1 := stmts)
          · rw [hstm]; exact addStmts_noTok fix true fs.stmts _
          · have := hc.stmts; rw [hsyn] at this; exact this
        obtain ⟨hwfs, hnls, hcm, hn⟩ := parse_ewf hp (eolOK_of_count hp hcfs)
        have hwfst : WellFormed st.file := by
          rw [hf] at hwf
          exact wellFormed_syn _ hwf
        obtain ⟨hw1, hn1, _, _, hrep⟩ := addStmts_replayE fix hfix hne fs.stmts _ st stmts ha hest hwfst hwfs hnls
        -- the tree that is formatted
        have hsynw : EWFStmts f.syn.stmts := by rw [hsyn]; exact hw1
        have hsynn : ∀ s ∈ f.syn.stmts, NlOK s := by rw [hsyn]; exact hn1
        have hsync : f.syn.comments.before = [] := by rw [hsyn]; simp [hcm]
        obtain ⟨t', hp', het'⟩ := reparse_ewf name f.syn hsynw hsynn hsync
        have hrel : t'.stmts.map eraseExpr = stmts.map normExprE := by
          have := congrArg FileSyntax.stmts het'
          simpa [eraseFile, hsyn] using this
        have hsim0 : Sim ({ file := { syn := fs } } : AddState) ({ file := { syn := t' } } : AddState) :=
          ⟨rfl, rfl, rfl⟩
        obtain ⟨st1', ha', hsim'⟩ := hrep _ t'.stmts hsim0 hrel
        -- the second run
        have hret' : fix ≠ none → st1'.file.retract = [] := by
          intro hfn
          have h1 := hret hfn
          rw [hf] at h1
          have h2 := congrArg Values.retract hsim'.vals
          simp only [values] at h2
          have : st.file.retract = [] := h1
          rw [this] at h2
          simpa using h2.symm
        refine ⟨{ st1'.file with syn := { t' with stmts := t'.stmts } }, ?_, ?_⟩
        · unfold parseToFile
          simp only [hp', ha']
          have hfr' : fixRetract { st1' with file := { st1'.file with syn := { t' with stmts := t'.stmts } } } fix =
              { st1' with file := { st1'.file with syn := { t' with stmts := t'.stmts } } } := by
            rcases fixRetract_cases { st1' with file := { st1'.file with syn := { t' with stmts := t'.stmts } } } fix with
              h0 | ⟨hfn, _⟩
            · exact h0
            · cases fix with
              | none => exact absurd rfl hfn
              | some fx =>
                unfold fixRetract
                simp only [hret' hfn]
          rw [hfr']
          simp [hsim'.errs']
        · rw [values_syn, ← hsim'.vals, hf]
          rfl
      · cases h

end ModVerif.Proofs.ModfileEol
