/-
  C02 stage 4 for go.work files, part d: `format_preserves_directives_work` — directive values of a go.work
  file survive formatting (inputs without end-of-line comments), a decidable form of `WorkWellFormed`, and a
  kernel-evaluated non-vacuity instance.  (Port of ModfileFmtDir6.)
-/
import ModVerif.Proofs.ModfileFmtWork3
namespace ModVerif.Proofs.ModfileFmtWork
open ModVerif ModVerif.Modfile ModVerif.Proofs.ModfileFmtLex ModVerif.Proofs.ModfileFmtLine
open ModVerif.Proofs.ModfileFmtFix ModVerif.Proofs.ModfileFmtTree ModVerif.Proofs.ModfileFmtParse
open ModVerif.Proofs.ModfileFmtMain ModVerif.Proofs.ModfileFmtDir

theorem workValues_syn (f : WorkFile) (s : FileSyntax) : workValues { f with syn := s } = workValues f := rfl

theorem workWellFormed_syn {f : WorkFile} (s : FileSyntax) (h : WorkWellFormed { f with syn := s }) :
    WorkWellFormed f :=
  ⟨h.use, h.replace⟩

/-- ★ `format_preserves_directives` (go.work) for inputs without end-of-line comments: if `ParseWork` accepts
    `x` as the well-formed file `f`, then it accepts `Format(f.Syntax)` as a file with the same directive
    values — without a fixer, or with a fixer that is idempotent on its image and never returns the empty
    string. -/
theorem format_preserves_directives_work (name x : Bytes) (fix : Option Fixer) (f : WorkFile)
    (h : parseWork name x fix = .ok f) (hno : ModfileFmtMain.eolComments x = []) (hwf : WorkWellFormed f)
    (hfix : FixOK fix) (hne : FixNE fix) :
    ∃ f', parseWork name (format f.syn) fix = .ok f' ∧ workValues f' = workValues f := by
  unfold parseWork at h
  cases hp : parse name x with
  | error e => simp [hp] at h
  | ok fs =>
    simp only [hp] at h
    cases ha : workStmts fix { file := { syn := fs } } fs.stmts with
    | mk st stmts =>
      simp only [ha] at h
      split at h
      · rename_i hemp
        simp only [Except.ok.injEq] at h
        have hest : st.errsRev = [] := by simpa using hemp
        have hf : f = { st.file with syn := { fs with stmts := stmts } } := h.symm
        obtain ⟨hwfs, hc, hn⟩ := ModfileFmtFinal.parse_noeol hp hno
        have hwfst : WorkWellFormed st.file := by
          rw [hf] at hwf
          exact workWellFormed_syn _ hwf
        obtain ⟨hw1, _, _, hrep⟩ := workStmts_replay fix hfix hne fs.stmts _ st stmts ha hest hwfst hwfs
        -- the tree that is formatted
        have hsyn : f.syn = { fs with stmts := stmts } := by rw [hf]
        have hsynw : WFStmts f.syn.stmts := by rw [hsyn]; exact hw1
        have hsync : f.syn.comments.before = [] := by rw [hsyn]; simp [hc]
        obtain ⟨t', hp', het', _, hc', _⟩ := reparse_wf name f.syn hsynw hsync
        have hrel : t'.stmts.map eraseExpr = stmts.map normExpr := by
          have := congrArg FileSyntax.stmts het'
          simpa [eraseFile, hsyn] using this
        have hsim0 : WSim ({ file := { syn := fs } } : WorkState) ({ file := { syn := t' } } : WorkState) :=
          ⟨rfl, rfl, rfl⟩
        obtain ⟨st1', ha', hsim'⟩ := hrep _ t'.stmts hsim0 hrel
        -- the second run
        refine ⟨{ st1'.file with syn := { t' with stmts := t'.stmts } }, ?_, ?_⟩
        · unfold parseWork
          simp only [hp', ha']
          simp [hsim'.errs']
        · rw [workValues_syn, ← hsim'.vals, hf]
          rfl
      · cases h

/-! ### a decidable form of `WorkWellFormed` (for concrete instances) -/

def workWellFormedB (f : WorkFile) : Bool :=
  f.use.all (fun u => pathOKB u.path) &&
  f.replace.all (fun r => pathOKB r.old.path && (r.old.version.isEmpty || Semver.isValid r.old.version) &&
    pathOKB r.new.path && (r.new.version.isEmpty || Semver.isValid r.new.version))

theorem workWellFormedB_sound {f : WorkFile} (h : workWellFormedB f = true) : WorkWellFormed f := by
  simp only [workWellFormedB, Bool.and_eq_true, List.all_eq_true, Bool.or_eq_true] at h
  obtain ⟨h1, h2⟩ := h
  refine ⟨?_, ?_⟩
  · intro u hu; exact pathOKB_sound (h1 u hu)
  · intro r hr
    obtain ⟨⟨⟨a, b⟩, c⟩, d⟩ := h2 r hr
    refine ⟨pathOKB_sound a, ?_, pathOKB_sound c, ?_⟩
    · intro hne; rcases b with b | b
      · exact absurd (by simpa using b) hne
      · exact b
    · intro hne; rcases d with d | d
      · exact absurd (by simpa using d) hne
      · exact d

/-- non-vacuity (no fixer): a go.work text with `go`, `toolchain`, `godebug`, a `use` block with a quoted
    path and a `replace` with a non-canonical version is accepted as a well-formed file, and it has no
    end-of-line comments -/
example :
    let x := B "go 1.21\ntoolchain go1.21.0\ngodebug a=b\nuse (\n\t\"./x y\"\n\t\"./z\"\n\t./w\n)\nreplace a.b/c v1.2 => \"../c\"\n"
    (match parseWork (B "go.work") x none with
     | .ok f => workWellFormedB f
     | .error _ => false) = true ∧ ModfileFmtMain.eolComments x = [] := by decide +kernel

/-- the instance above, through the theorem: the conclusion holds for it -/
example :
    let x := B "go 1.21\nuse (\n\t\"./z\"\n)\nreplace a.b/c v1.2 => \"../c\"\n"
    ∀ f, parseWork (B "go.work") x none = .ok f →
      ∃ f', parseWork (B "go.work") (format f.syn) none = .ok f' ∧ workValues f' = workValues f := by
  intro x f hf
  have hx : (match parseWork (B "go.work") x none with
     | .ok f => workWellFormedB f
     | .error _ => false) = true ∧ ModfileFmtMain.eolComments x = [] := by decide +kernel
  rw [hf] at hx
  exact format_preserves_directives_work (B "go.work") x none f hf hx.2 (workWellFormedB_sound hx.1)
    (Or.inl rfl) (fun fx h => by cases h)

end ModVerif.Proofs.ModfileFmtWork
