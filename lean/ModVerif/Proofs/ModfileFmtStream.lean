/-
  C02 stage 3, part a: the token-stream view of the lexer.

  * `Stream S i` — from the lexer state `i` (whose pending token is the head of `S`) repeated `readToken`
    delivers exactly the (kind, text) sequence `S`, ending with the end-of-input token, without
    recording any end-of-line comment.  The parser only ever changes `nextId` between two `readToken`
    calls, so the definition quantifies over `nextId`.
  * `LexesTo bol B S` — the byte string `B` (at the beginning of a line if `bol`) lexes to the stream `S`;
    one composition lemma per kind of token: end of input, line token, newline, whole-line comment,
    printed token line.
-/
import ModVerif.Proofs.ModfileFmtLine
namespace ModVerif.Proofs.ModfileFmtStream
open ModVerif ModVerif.Modfile ModVerif.Proofs.ModfileLex ModVerif.Proofs.ModfileFmtUtf8
open ModVerif.Proofs.ModfileFmtTok ModVerif.Proofs.ModfileFmtLex ModVerif.Proofs.ModfileFmtLine

abbrev Tk := TokKind × Bytes

/-- the newline token -/
def nl : Tk := (.punct 10, [10])

/-- the end-of-input token -/
def eofTk : Tk := (.eof, [])

/-- `Stream S i`: the pending token of `i` is the head of `S`, and (whatever `nextId` is set to)
    `readToken` delivers the rest of `S` one by one, leaving `commentsRev` alone; `S` ends with the
    end-of-input token. -/
def Stream : List Tk → Input → Prop
  | [], _ => False
  | (k, t) :: s, i => i.token.kind = k ∧ i.token.text = t ∧ (k = .eof → s = []) ∧
      (k ≠ .eof → ∀ n : Nat, ∃ i', readToken { i with nextId := n } = .ok i' ∧ i'.nextId = n ∧
         i'.commentsRev = i.commentsRev ∧ Stream s i')

theorem Stream.setId {S : List Tk} {i : Input} (h : Stream S i) (m : Nat) : Stream S { i with nextId := m } := by
  cases S with
  | nil => exact h
  | cons a s =>
    obtain ⟨k, t⟩ := a
    exact h

theorem Stream.setComments_eq {S : List Tk} {i : Input} (h : Stream S i) : S ≠ [] := by
  intro hS; subst hS; exact h

/-- the parser's `lex` on a stream whose head is not the end of input -/
theorem Stream.lex {k : TokKind} {t : Bytes} {s : List Tk} {i : Input} (h : Stream ((k, t) :: s) i) (hk : k ≠ .eof) :
    ∃ i', lex i = .ok (i.token, i') ∧ i'.nextId = i.nextId ∧ i'.commentsRev = i.commentsRev ∧ Stream s i' := by
  obtain ⟨_, _, _, hnext⟩ := h
  obtain ⟨i', hr, hn, hc, hs⟩ := hnext hk i.nextId
  have : ({ i with nextId := i.nextId } : Input) = i := rfl
  rw [this] at hr
  exact ⟨i', by simp [Modfile.lex, hr, bind, Except.bind], hn, hc, hs⟩

theorem Stream.kind {k : TokKind} {t : Bytes} {s : List Tk} {i : Input} (h : Stream ((k, t) :: s) i) :
    i.token.kind = k := h.1

theorem Stream.text {k : TokKind} {t : Bytes} {s : List Tk} {i : Input} (h : Stream ((k, t) :: s) i) :
    i.token.text = t := h.2.1

/-- the length of a stream is bounded by the parser's termination measure -/
theorem Stream.length_le : ∀ (S : List Tk) (i : Input), Stream S i → S.length ≤ ModfileParse.m i + 1 := by
  intro S
  induction S with
  | nil => intro i h; exact absurd h id
  | cons a s ih =>
    intro i h
    obtain ⟨k, t⟩ := a
    obtain ⟨hk, _, heof, hnext⟩ := h
    by_cases hke : k = .eof
    · rw [heof hke]; simp
    · obtain ⟨i', hr, _, _, hs⟩ := hnext hke i.nextId
      have : ({ i with nextId := i.nextId } : Input) = i := rfl
      rw [this] at hr
      have hlen := ih i' hs
      rcases readToken_spec i with ⟨i2, h2, hle, hlt, _⟩ | ⟨e, h2, _⟩
      · rw [hr] at h2
        have : i' = i2 := by cases h2; rfl
        subst this
        have hmi : ModfileParse.m i = i.remaining.length + 1 := by
          unfold ModfileParse.m; rw [hk]; simp [hke]
        have hmi' : ModfileParse.m i' + 1 ≤ ModfileParse.m i := by
          unfold ModfileParse.m at hmi ⊢
          by_cases hk' : i'.token.kind = .eof
          · simp only [hk', if_true]; omega
          · have := hlt hk'
            simp only [hk', if_false]; omega
        simp only [List.length_cons]
        omega
      · rw [hr] at h2; cases h2

/-! ### byte strings that lex to a stream -/

/-- the lexer is at the beginning of a line: nothing has been consumed since the last newline -/
def LineStart (i : Input) : Prop := i.consumedRev.takeWhile (· != 10) = []

/-- `B` lexes to the stream `S`: from every lexer state whose remaining input is `B` (and which is at
    the beginning of a line if `bol`), `readToken` yields the head of `S` and then the rest. -/
def LexesTo (bol : Bool) (B : Bytes) (S : List Tk) : Prop :=
  ∀ i : Input, i.remaining = B → (bol = true → LineStart i) →
    ∃ i', readToken i = .ok i' ∧ i'.nextId = i.nextId ∧ i'.commentsRev = i.commentsRev ∧ Stream S i'

theorem LexesTo.weaken {B : Bytes} {S : List Tk} (h : LexesTo false B S) (b : Bool) : LexesTo b B S := by
  intro i hi _
  exact h i hi (by intro h; cases h)

/-- build `Stream (x :: S)` for a state whose pending token is `x` and whose remaining input lexes to `S` -/
theorem stream_cons {k : TokKind} {t : Bytes} {S : List Tk} {bol : Bool} {i : Input}
    (hk : i.token.kind = k) (ht : i.token.text = t) (hne : k ≠ .eof)
    (hS : LexesTo bol i.remaining S) (hbol : bol = true → LineStart i) : Stream ((k, t) :: S) i := by
  refine ⟨hk, ht, fun h => absurd h hne, fun _ n => ?_⟩
  obtain ⟨i', hr, hn, hc, hs⟩ := hS { i with nextId := n } rfl hbol
  exact ⟨i', hr, hn, hc, hs⟩

/-- the end of the input -/
theorem lexesTo_eof (b : Bool) : LexesTo b [] [eofTk] := by
  intro i hi _
  have he : i.eof = true := by simp [Input.eof, hi]
  have hs : skipSpaces (i.remaining.length + 1) i = .ok i := by
    simp [skipSpaces, he]
  refine ⟨endToken .eof (startToken i), ?_, rfl, rfl, ?_⟩
  · unfold readToken
    have : (startToken i).eof = true := he
    simp [hs, bind, Except.bind, he, this]
  · exact ⟨rfl, rfl, fun _ => rfl, fun h => absurd rfl h⟩

/-- a line token -/
theorem lexesTo_tok {k : TokKind} {t : Bytes} (hk : TokOK k t) (ws rest : Bytes)
    (hws : ∀ b ∈ ws, isBlank b = true) (hrest : DelimStart rest ∨ ∃ c, k = .punct c)
    {S : List Tk} (hS : LexesTo false rest S) (b : Bool) : LexesTo b (ws ++ (t ++ rest)) ((k, t) :: S) := by
  intro i hi _
  obtain ⟨i', hr, hk', ht', hrem, _, hc, hn⟩ := relex_one hk ws rest hws hrest i hi
  refine ⟨i', hr, hn, hc, ?_⟩
  have hne : k ≠ .eof := by
    intro h; subst h; cases hk
  exact stream_cons hk' ht' hne (by rw [hrem]; exact hS) (by intro h; cases h)

/-- `readToken` on a newline (after blanks) -/
theorem relex_newline (ws rest : Bytes) (hws : ∀ b ∈ ws, isBlank b = true) (i : Input)
    (hi : i.remaining = ws ++ 10 :: rest) :
    ∃ i', readToken i = .ok i' ∧ i'.token.kind = .punct 10 ∧ i'.token.text = [10] ∧ i'.remaining = rest ∧
      i'.consumedRev = (ws ++ [10]).reverse ++ i.consumedRev ∧
      i'.commentsRev = i.commentsRev ∧ i'.nextId = i.nextId := by
  obtain ⟨i0, hs0, hadv0⟩ := skipSpaces_relex ws (10 :: rest) hws (by intro b hb; simp at hb; subst hb; rfl)
    (i.remaining.length + 1) i hi (by rw [hi]; simp only [List.length_append]; omega)
  have hrem0 : i0.remaining = 10 :: rest := hadv0.rem_of hi
  have hne0 : i0.remaining ≠ [] := by rw [hrem0]; simp
  have heof0 : i0.eof = false := (eof_false_iff i0).2 hne0
  unfold readToken
  have hc1 : isPrefixOfB [47, 47] (10 :: rest) = false := by simp [isPrefixOfB]
  have hc2 : isPrefixOfB [47, 42] (10 :: rest) = false := by simp [isPrefixOfB]
  simp only [hs0, bind, Except.bind, heof0, Input.peekPrefix, hrem0, hc1, hc2, Bool.not_false, Bool.and_false,
    Bool.false_eq_true, if_false]
  have hj : (startToken i0).remaining = 10 :: rest := hrem0
  have hjeof : (startToken i0).eof = false := heof0
  simp only [hjeof, Bool.false_eq_true, if_false]
  have hne : (startToken i0).remaining ≠ [] := by rw [hj]; simp
  have hdec : Utf8.decodeRune (startToken i0).remaining = (10, 1) := by
    rw [hj]; exact decodeRune_ascii 10 _ (by decide)
  have hpk : (startToken i0).peekRune = 10 := by rw [peekRune_eq hne, hdec]
  obtain ⟨i1, hr1, hadv1, _⟩ := readRune_adv (startToken i0) hne
  rw [hdec] at hr1 hadv1
  have : (startToken i0).remaining.take 1 = [10] := by rw [hj]; rfl
  simp only [this] at hadv1
  have hpunct : isPunct 10 = true := by decide
  simp only [hpk, hpunct, if_true, hr1]
  refine ⟨_, rfl, rfl, ?_, ?_, ?_, ?_, ?_⟩
  · have := hadv1.tok
    simp only [endToken, TokKind.isComment, Bool.false_eq_true, if_false, this]
    simp [startToken]
  · exact hadv1.rem_of hj
  · show i1.consumedRev = _
    rw [hadv1.cons]
    show [10].reverse ++ i0.consumedRev = _
    rw [hadv0.cons]; simp
  · show i1.commentsRev = _
    rw [hadv1.comments]
    exact hadv0.comments
  · show i1.nextId = _
    rw [hadv1.nextId]
    exact hadv0.nextId

/-- a newline -/
theorem lexesTo_newline (ws rest : Bytes) (hws : ∀ b ∈ ws, isBlank b = true)
    {S : List Tk} (hS : LexesTo true rest S) (b : Bool) : LexesTo b (ws ++ 10 :: rest) (nl :: S) := by
  intro i hi _
  obtain ⟨i', hr, hk', ht', hrem, hcons, hc, hn⟩ := relex_newline ws rest hws i hi
  refine ⟨i', hr, hn, hc, ?_⟩
  refine stream_cons hk' ht' (by simp) (by rw [hrem]; exact hS) ?_
  intro _
  unfold LineStart
  rw [hcons]
  simp

theorem blank_ne_newline {ws : Bytes} (hws : ∀ b ∈ ws, isBlank b = true) : ∀ b ∈ ws, (b != 10) = true := by
  intro b hb
  rcases isBlank_cases (hws b hb) with h | h | h <;> subst h <;> rfl

/-- a whole-line comment: blanks, the comment text (not ending in CR), a newline -/
theorem lexesTo_comment (ws c rest : Bytes) (hws : ∀ b ∈ ws, isBlank b = true)
    (htrim : GoStrings.trimSpace ws = []) (hc : CommentOK c) (hlast : c.getLast? ≠ some 13)
    {S : List Tk} (hS : LexesTo true rest S) : LexesTo true (ws ++ (c ++ 10 :: rest)) ((.comment, c) :: S) := by
  intro i hi hbol
  have hls : LineStart i := hbol rfl
  obtain ⟨t, ht⟩ : ∃ t, c = 47 :: 47 :: t := by
    have := hc.1
    cases c with
    | nil => simp [isPrefixOfB] at this
    | cons a r1 =>
      cases r1 with
      | nil => simp [isPrefixOfB] at this
      | cons b r2 =>
        simp [isPrefixOfB] at this
        exact ⟨r2, by rw [← this.1, ← this.2]⟩
  obtain ⟨i0, hs0, hadv0⟩ := skipSpaces_relex ws (c ++ 10 :: rest) hws
    (by intro b hb; rw [ht] at hb; simp at hb; subst hb; rfl)
    (i.remaining.length + 1) i hi (by rw [hi]; simp only [List.length_append]; omega)
  have hrem0 : i0.remaining = c ++ 10 :: rest := hadv0.rem_of hi
  have hne0 : i0.remaining ≠ [] := by rw [hrem0, ht]; simp
  have heof0 : i0.eof = false := (eof_false_iff i0).2 hne0
  have hpp : i0.peekPrefix [47, 47] = true := by
    simp [Input.peekPrefix, hrem0, ht, isPrefixOfB]
  obtain ⟨i', hr, hrem', hcons', hn', htext', hkind', hcomm'⟩ := readComment_char i0 hpp
  -- the line prefix is the blanks
  have hprefix : (i0.consumedRev.takeWhile (· != 10)).reverse = ws := by
    rw [hadv0.cons]
    have h1 : ∀ b ∈ ws.reverse, (b != 10) = true := by
      intro b hb; exact blank_ne_newline hws b (by simpa using hb)
    rw [List.takeWhile_append_of_pos h1]
    have : i.consumedRev.takeWhile (· != 10) = [] := hls
    rw [this]; simp
  simp only [hprefix, htrim, List.isEmpty_nil, Bool.not_true, Bool.false_eq_true, if_false] at hkind' hcomm'
  have hline : lineOf i0.remaining = c ++ [10] := by
    rw [hrem0, lineOf_append _ _ hc.2]; simp [lineOf]
  have htext : i'.token.text = c := by
    rw [htext', hline]
    unfold stripEOL
    have hrev : (c ++ [10]).reverse = 10 :: c.reverse := by simp
    rw [hrev]
    have : stripRev (10 :: c.reverse) = c.reverse := by
      unfold stripRev
      split
      · rename_i r heq
        simp only [List.cons.injEq, true_and] at heq
        exfalso
        apply hlast
        have : c = r.reverse ++ [13] := by
          have := congrArg List.reverse heq
          simpa using this
        rw [this]; simp
      · rename_i r _ heq
        simp only [List.cons.injEq, true_and] at heq
        exact heq.symm
      · rename_i h1 h2; exact absurd rfl (h2 _)
    rw [this]; simp
  have hremf : i'.remaining = rest := by
    rw [hline, hrem0, List.append_assoc] at hrem'
    have := (List.append_cancel_left hrem').symm
    simpa using this
  refine ⟨i', ?_, by rw [hn']; exact hadv0.nextId, by rw [hcomm']; exact hadv0.comments, ?_⟩
  · unfold readToken
    simp only [hs0, bind, Except.bind, heof0, hpp, Bool.not_false, Bool.and_self, if_true, hr]
  · refine stream_cons hkind' htext (by simp) (by rw [hremf]; exact hS) ?_
    intro _
    unfold LineStart
    rw [hcons', hline]
    simp

/-- a printed token line -/
theorem lexesTo_tokStr (ts : List Bytes) (hts : ∀ t ∈ ts, TokText t) (hne : ts ≠ []) (sep : Bytes)
    (hsep : sep = [] ∨ sep = [32]) (ws : Bytes) (hws : ∀ b ∈ ws, isBlank b = true) (rest : Bytes)
    (hrest : DelimStart rest) {S : List Tk} (hS : LexesTo false rest S) (b : Bool) :
    LexesTo b (ws ++ (tokStr ts sep ++ rest)) (ts.map tk ++ S) := by
  induction ts generalizing sep ws b with
  | nil => exact absurd rfl hne
  | cons t ts ih =>
    have ht : TokText t := hts t (by simp)
    have hts' : ∀ t' ∈ ts, TokText t' := fun t' h => hts t' (by simp [h])
    have hws' : ∀ b ∈ ws ++ (if Printer.noSepBefore.contains t then [] else sep), isBlank b = true := by
      intro b hb
      rcases List.mem_append.1 hb with h | h
      · exact hws b h
      · exact sep_blank hsep t b h
    have hfollow := tokStr_follow ht ts hts' rest hrest
    have hcont : LexesTo false (tokStr ts (sepAfter t) ++ rest) (ts.map tk ++ S) := by
      cases hts0 : ts with
      | nil => simpa [tokStr] using hS
      | cons t' ts' =>
        rw [← hts0]
        have := ih hts' (by rw [hts0]; simp) (sepAfter t) (sepAfter_cases t) [] (by simp) false
        simpa using this
    have := lexesTo_tok ht _ (tokStr ts (sepAfter t) ++ rest) hws' hfollow hcont b
    simpa [tokStr, tk, List.append_assoc] using this

end ModVerif.Proofs.ModfileFmtStream
