/-
  Tie proof, zip/zip.go `listFilesInDir` (Generated/FnZip.lean): the closure passed to `filepath.Walk`
  (`listFilesInDir_walkFn1`) run by the assumed walk `GoRt.walkNode` / `GoRt.walkChildren` (Basic/GoRtWalk.lean) over the
  tree `toFs` of a model tree appends exactly the model's listing `Zip.walkNode` / `Zip.walkChildren` to the captured
  variables `omitted`, `files` — including both `SkipDir` cases and "a vendored directory is reported but still walked".
-/
import ModVerif.Generated.FnZip
import ModVerif.Model.Zip
import ModVerif.Drv.GenZip
import ModVerif.Drv.GenZipDir
import ModVerif.Tie.FnZip
import ModVerif.Proofs.TieFnZipCfBase
import ModVerif.Proofs.TieFnZipDirPath
import ModVerif.Proofs.TieFnZipDirSt
namespace ModVerif.TieFnZipDir
open ModVerif ModVerif.GoRt ModVerif.GoRtZip ModVerif.TieFnZip ModVerif.TieFnZipCf ModVerif.ZipSpec ModVerif.Proofs.ZipB
open ModVerif.Generated.Zip (File FileError FileInfo)
open ModVerif.Drv.GenZip (toGFile modeBits)
open ModVerif.Drv.GenZipDir (toFs toFsList dirInfo)

/-! ### representation -/

/-- the text of a reason in the `omitted` list of `listFilesInDir` (sentinel errors by their Go names); differs from
    `reasonText` (Proofs/TieFnZipCfBase.lean) on the two reasons only `listFilesInDir` gives -/
def reasonTextD : Zip.Reason → String
  | .vcs => "errVCS"
  | .submoduleDir => "errSubmoduleDir"
  | r => reasonText r

def embOm (e : Bytes × Zip.Reason) : FileError := { Path := e.1, Err := some (reasonTextD e.2) }

/-- the captured variables `(omitted, files)` after the model's listing `l` was appended -/
def addL (st : List FileError × List File) (l : Zip.Listing) : List FileError × List File :=
  (st.1 ++ l.omitted.map embOm, st.2 ++ l.files.map toGFile)

theorem addL_empty (st : List FileError × List File) : addL st {} = st := by
  simp [addL]

theorem addL_append (st : List FileError × List File) (a b : Zip.Listing) :
    addL st (a.append b) = addL (addL st a) b := by
  simp [addL, Zip.Listing.append, List.append_assoc]

/-! ### what the file-system parameters must answer -/

section
variable (osLstat : Bytes → (FileInfo × Option String)) (osOpenRead : Bytes → (Bytes × Option String)) (d : Bytes)

/-- `os.Lstat(filepath.Join(p, "go.mod"))` succeeded with a non-directory -/
def lstatGoMod (p : Bytes) : Bool :=
  (osLstat (GoRt.fpJoin p Zip.goModName)).2.isNone && !(osLstat (GoRt.fpJoin p Zip.goModName)).1.IsDir

mutual
/-- the node with slash path `rel` as the walk and the file-system parameters present it: names are ordinary path elements
    (as `ReadDir` returns them), `Lstat` succeeded for every file (no `Mode.lstatErr`), `os.Open` of a regular file yields its
    content, and `os.Lstat(<directory>/go.mod)` answers from the tree -/
def NodeOK : Bytes → Zip.Node → Prop
  | rel, .file mode _ content _ =>
    mode ≠ .lstatErr ∧ (mode = .regular → osOpenRead (fp d rel) = (content, none))
  | rel, .dir cs => lstatGoMod osLstat (fp d rel) = Zip.hasGoModFile cs ∧ ChildrenOK rel cs
def ChildrenOK : Bytes → List (Bytes × Zip.Node) → Prop
  | _, [] => True
  | rel, (name, n) :: rest => NormalElem name ∧ NodeOK (Zip.childPath rel name) n ∧ ChildrenOK rel rest
end

end

/-! ### the closure on one entry -/

section
variable (osLstat : Bytes → (FileInfo × Option String)) (osOpenRead : Bytes → (Bytes × Option String))
  (osReadFile : Bytes → (Bytes × Option String)) (pgv : Bytes → Bytes → Bytes) (vc : Bytes → Bytes → Int)
  (vl : Bytes → Bytes) (walkRoot : Bytes → FsTree FileInfo) (fuel0 : Nat) (d vers : Bytes)

/-- the function `listFilesInDir` hands to the walk -/
def cb : Bytes → FileInfo → Option String → (List FileError × List File) →
    M (Option String × List FileError × List File) :=
  fun wp wi we (omitted, files) =>
    Generated.Zip.listFilesInDir_walkFn1 osLstat osOpenRead osReadFile pgv vc vl walkRoot fuel0 d vers wp wi we omitted files

theorem isVendored_dot (g : Bool) : Zip.isVendoredPackage [46] g = false := by
  cases g <;> decide

/-- the closure on the root directory itself: nothing -/
theorem cb_root (ge124 : Bool) (hg : ge124 = decide (0 ≤ vc vers go124)) (st : List FileError × List File) :
    cb osLstat osOpenRead osReadFile pgv vc vl walkRoot fuel0 d vers d dirInfo none st = .ok (none, st) := by
  obtain ⟨om, fs⟩ := st
  simp only [cb, Generated.Zip.listFilesInDir_walkFn1, fpRel_self, id,
    Tie.FnZip.isVendoredPackage_tie vc [46] vers ge124 hg, isVendored_dot]
  simp [dirInfo]

theorem vcs_contains (name : Bytes) :
    (decide (name = ([46, 98, 122, 114] : Bytes)) || decide (name = ([46, 103, 105, 116] : Bytes)) ||
      decide (name = ([46, 104, 103] : Bytes)) || decide (name = ([46, 115, 118, 110] : Bytes))) =
    Zip.vcsDirs.contains name := by
  simp only [Zip.vcsDirs, List.contains_cons, List.contains_nil, Bool.beq_eq_decide_eq, Bool.or_false, Bool.or_assoc]

/-- the closure on a directory entry -/
theorem cb_dir (ge124 : Bool) (hg : ge124 = decide (0 ≤ vc vers go124)) {prel name : Bytes} (hr : RelOK prel)
    (hn : NormalElem name) (om : List FileError) (fs : List File) :
    cb osLstat osOpenRead osReadFile pgv vc vl walkRoot fuel0 d vers (fp d (Zip.childPath prel name)) dirInfo none (om, fs) =
      .ok (if Zip.isVendoredPackage (Zip.childPath prel name) ge124 then
             (none, om ++ [embOm (Zip.childPath prel name, .vendored)], fs)
           else if Zip.vcsDirs.contains name then
             (some "SkipDir", om ++ [embOm (Zip.childPath prel name, .vcs)], fs)
           else if lstatGoMod osLstat (fp d (Zip.childPath prel name)) then
             (some "SkipDir", om ++ [embOm (Zip.childPath prel name, .submoduleDir)], fs)
           else (none, om, fs)) := by
  have hc := normalName_child hr hn
  simp only [cb, Generated.Zip.listFilesInDir_walkFn1, fpRel_fp d hc, id,
    Tie.FnZip.isVendoredPackage_tie vc _ vers ge124 hg, pathBase_fp d hr hn, vcs_contains]
  have hne : decide (fp d (Zip.childPath prel name) = d) = false := by
    simpa using fp_ne d hc
  cases hv : Zip.isVendoredPackage (Zip.childPath prel name) ge124
  · cases hvc : Zip.vcsDirs.contains name
    · cases hl : lstatGoMod osLstat (fp d (Zip.childPath prel name))
      · have hl' : ((osLstat (fpJoin (fp d (Zip.childPath prel name)) [103, 111, 46, 109, 111, 100])).snd.isNone &&
            !(osLstat (fpJoin (fp d (Zip.childPath prel name)) [103, 111, 46, 109, 111, 100])).fst.IsDir) = false := hl
        simp [hl', hne, dirInfo, Bind.bind, Except.bind, pure, Except.pure]
      · have hl' : ((osLstat (fpJoin (fp d (Zip.childPath prel name)) [103, 111, 46, 109, 111, 100])).snd.isNone &&
            !(osLstat (fpJoin (fp d (Zip.childPath prel name)) [103, 111, 46, 109, 111, 100])).fst.IsDir) = true := hl
        simp [hl', hne, dirInfo, Bind.bind, Except.bind, pure, Except.pure, embOm, reasonTextD]
    · simp [dirInfo, hne, Bind.bind, Except.bind, pure, Except.pure, embOm, reasonTextD]
  · simp [Bind.bind, Except.bind, pure, Except.pure, embOm, reasonTextD, reasonText]

theorem modeIsRegular_bits (mode : Zip.Mode) (h : mode ≠ .lstatErr) :
    modeIsRegular (modeBits mode) = (mode == .regular) := by
  cases mode <;> first | exact absurd rfl h | decide

/-- the closure on a non-directory entry -/
theorem cb_file (ge124 : Bool) (hg : ge124 = decide (0 ≤ vc vers go124)) {prel name : Bytes} (hr : RelOK prel)
    (hn : NormalElem name) (mode : Zip.Mode) (size : Int) (content : Bytes) (g : Bool) (hm : mode ≠ .lstatErr)
    (hopen : mode = .regular → osOpenRead (fp d (Zip.childPath prel name)) = (content, none))
    (om : List FileError) (fs : List File) :
    cb osLstat osOpenRead osReadFile pgv vc vl walkRoot fuel0 d vers (fp d (Zip.childPath prel name))
        { Mode := modeBits mode, IsDir := false, Size := size } none (om, fs) =
      .ok (if Zip.isVendoredPackage (Zip.childPath prel name) ge124 then
             (none, om ++ [embOm (Zip.childPath prel name, .vendored)], fs)
           else if mode != .regular then
             (none, om ++ [embOm (Zip.childPath prel name, .notRegular)], fs)
           else (none, om, fs ++ [toGFile ⟨Zip.childPath prel name, mode, size, content, g⟩])) := by
  have hc := normalName_child hr hn
  simp only [cb, Generated.Zip.listFilesInDir_walkFn1, fpRel_fp d hc, id,
    Tie.FnZip.isVendoredPackage_tie vc _ vers ge124 hg, modeIsRegular_bits mode hm]
  cases hv : Zip.isVendoredPackage (Zip.childPath prel name) ge124
  · by_cases hreg : mode = .regular
    · subst hreg
      simp [Bind.bind, Except.bind, pure, Except.pure, Generated.Zip.dirFile_Lstat, Generated.Zip.dirFile_Open,
        Generated.Zip.dirFile_Path, hopen rfl, toGFile, modeBits]
    · have : (mode == Zip.Mode.regular) = false := by simpa using hreg
      simp [Bind.bind, Except.bind, pure, Except.pure, this, hreg, embOm, reasonTextD, reasonText]
  · simp [Bind.bind, Except.bind, pure, Except.pure, embOm, reasonTextD, reasonText]

/-! ### the simulation -/

theorem toFs_isDir (n : Zip.Node) : (toFs n).isDir = n.isDir := by
  cases n <;> simp [toFs, FsTree.isDir, Zip.Node.isDir]

mutual
/-- the walk of an entry: the closure on the entry and, unless it is skipped, its subtree.  The error returned is `SkipDir`
    exactly for a VCS or nested-module directory that is not vendored. -/
theorem walkNode_sim (ge124 : Bool) (hg : ge124 = decide (0 ≤ vc vers go124)) :
    ∀ (n : Zip.Node) (prel name : Bytes) (st : List FileError × List File) (fuel : Nat), RelOK prel → NormalElem name →
    NodeOK osLstat osOpenRead d (Zip.childPath prel name) n → nodeFuel n ≤ fuel →
    ∃ e, GoRt.walkNode (cb osLstat osOpenRead osReadFile pgv vc vl walkRoot fuel0 d vers) fuel
        (fp d (Zip.childPath prel name)) (toFs n) st =
      .ok (e, addL st (Zip.walkNode ge124 (Zip.childPath prel name) name n)) ∧
      (e = none ∨ (e = some "SkipDir" ∧ n.isDir = true))
  | .file mode size content g, prel, name, st, fuel, hr, hn, hok, hf => by
    obtain ⟨om, fs⟩ := st
    simp only [NodeOK] at hok
    obtain ⟨k, rfl⟩ : ∃ k, fuel = k + 1 := ⟨fuel - 1, by simp only [nodeFuel] at hf; omega⟩
    simp only [toFs, GoRt.walkNode, Zip.walkNode]
    rw [cb_file osLstat osOpenRead osReadFile pgv vc vl walkRoot fuel0 d vers ge124 hg hr hn mode size content g hok.1
      hok.2 om fs]
    refine ⟨none, ?_, Or.inl rfl⟩
    cases Zip.isVendoredPackage (Zip.childPath prel name) ge124
    · cases hmr : (mode != Zip.Mode.regular) <;> simp [addL]
    · simp [addL]
  | .dir cs, prel, name, st, fuel, hr, hn, hok, hf => by
    obtain ⟨om, fs⟩ := st
    simp only [NodeOK] at hok
    obtain ⟨k, rfl⟩ : ∃ k, fuel = k + 1 := ⟨fuel - 1, by simp only [nodeFuel] at hf; omega⟩
    have hk : listFuel cs ≤ k := by simp only [nodeFuel] at hf; omega
    have hc := normalName_child hr hn
    simp only [toFs, GoRt.walkNode, Zip.walkNode]
    rw [cb_dir osLstat osOpenRead osReadFile pgv vc vl walkRoot fuel0 d vers ge124 hg hr hn om fs, hok.1]
    cases hv : Zip.isVendoredPackage (Zip.childPath prel name) ge124
    · cases hvc : Zip.vcsDirs.contains name
      · cases hl : Zip.hasGoModFile cs
        · have ih := walkChildren_sim ge124 hg cs (Zip.childPath prel name) (om, fs) k (Or.inr hc) hok.2 hk
          simp only [Bool.false_eq_true, if_false, Bind.bind, Except.bind, Option.isSome_none]
          exact ⟨none, ih, Or.inl rfl⟩
        · refine ⟨some "SkipDir", ?_, Or.inr ⟨rfl, rfl⟩⟩
          simp [Bind.bind, Except.bind, pure, Except.pure, addL]
      · refine ⟨some "SkipDir", ?_, Or.inr ⟨rfl, rfl⟩⟩
        simp [Bind.bind, Except.bind, pure, Except.pure, addL]
    · have ih := walkChildren_sim ge124 hg cs (Zip.childPath prel name)
        (om ++ [embOm (Zip.childPath prel name, .vendored)], fs) k (Or.inr hc) hok.2 hk
      refine ⟨none, ?_, Or.inl rfl⟩
      simp only [if_true, Bind.bind, Except.bind, Option.isSome_none, Bool.false_eq_true, if_false]
      rw [ih, addL_append]
      simp [addL]
/-- the walk of the entries of a directory -/
theorem walkChildren_sim (ge124 : Bool) (hg : ge124 = decide (0 ≤ vc vers go124)) :
    ∀ (cs : List (Bytes × Zip.Node)) (rel : Bytes) (st : List FileError × List File) (fuel : Nat), RelOK rel →
    ChildrenOK osLstat osOpenRead d rel cs → listFuel cs ≤ fuel →
    GoRt.walkChildren (cb osLstat osOpenRead osReadFile pgv vc vl walkRoot fuel0 d vers) fuel (fp d rel) (toFsList cs) st =
      .ok (none, addL st (Zip.walkChildren ge124 rel cs))
  | [], rel, st, fuel, _, _, hf => by
    obtain ⟨k, rfl⟩ : ∃ k, fuel = k + 1 := ⟨fuel - 1, by simp only [listFuel] at hf; omega⟩
    simp only [toFsList, GoRt.walkChildren, Zip.walkChildren, addL_empty]
    rfl
  | (name, n) :: rest, rel, st, fuel, hr, hok, hf => by
    simp only [ChildrenOK] at hok
    obtain ⟨k, rfl⟩ : ∃ k, fuel = k + 1 := ⟨fuel - 1, by simp only [listFuel] at hf; omega⟩
    have hk1 : nodeFuel n ≤ k := by simp only [listFuel] at hf; omega
    have hk2 : listFuel rest ≤ k := by simp only [listFuel] at hf; omega
    obtain ⟨e, h1, he⟩ := walkNode_sim ge124 hg n rel name st k hr hok.1 hok.2.1 hk1
    have h2 := walkChildren_sim ge124 hg rest rel (addL st (Zip.walkNode ge124 (Zip.childPath rel name) name n)) k hr
      hok.2.2 hk2
    simp only [toFsList, GoRt.walkChildren, Zip.walkChildren, fp_child d hr hok.1, h1, Bind.bind, Except.bind,
      addL_append]
    rcases he with rfl | ⟨rfl, hd⟩
    · simpa using h2
    · simp only [toFs_isDir, hd]
      simpa using h2
end

/-! ### listFilesInDir -/

/-- the version string `listFilesInDir` extracts from the root go.mod ("" when `os.ReadFile` fails) -/
def versDir : Bytes :=
  if (osReadFile (GoRt.fpJoin d Zip.goModName)).2.isNone then
    vl (pgv Zip.goModName (osReadFile (GoRt.fpJoin d Zip.goModName)).1)
  else []

/-- `listFilesInDir(d)` on a directory whose entries are `children` -/
theorem listFilesInDir_eq (ge124 : Bool) (hg : ge124 = decide (0 ≤ vc (versDir osReadFile pgv vl d) go124))
    (children : List (Bytes × Zip.Node)) (hroot : walkRoot d = toFs (.dir children))
    (hok : ChildrenOK osLstat osOpenRead d [] children) (fuel : Nat) (hf : listFuel children + 1 ≤ fuel) :
    Generated.Zip.listFilesInDir osLstat osOpenRead osReadFile pgv vc vl walkRoot fuel d =
      .ok ((Zip.listFilesInDir ge124 children).files.map toGFile, (Zip.listFilesInDir ge124 children).omitted.map embOm,
        none) := by
  obtain ⟨k, rfl⟩ : ∃ k, fuel = k + 1 := ⟨fuel - 1, by omega⟩
  have hk : listFuel children ≤ k := by omega
  have key : ∀ vers, ge124 = decide (0 ≤ vc vers go124) →
      walkTree (cb osLstat osOpenRead osReadFile pgv vc vl walkRoot (k + 1) d vers) (k + 1) d (walkRoot d) ([], []) =
        .ok (none, (Zip.listFilesInDir ge124 children).omitted.map embOm,
          (Zip.listFilesInDir ge124 children).files.map toGFile) := by
    intro vers hv
    have h2 := walkChildren_sim osLstat osOpenRead osReadFile pgv vc vl walkRoot (k + 1) d vers ge124 hv children []
      ([], []) k (Or.inl rfl) hok hk
    rw [fp_nil] at h2
    unfold walkTree
    rw [hroot]
    simp only [toFs, GoRt.walkNode]
    rw [cb_root osLstat osOpenRead osReadFile pgv vc vl walkRoot (k + 1) d vers ge124 hv]
    simp only [Bind.bind, Except.bind, Option.isSome_none, Bool.false_eq_true, if_false, h2]
    simp [addL, Zip.listFilesInDir, pure, Except.pure]
  unfold versDir at hg
  unfold Generated.Zip.listFilesInDir
  cases hrd : osReadFile (GoRt.fpJoin d Zip.goModName) with
  | mk data err1 =>
    rw [hrd] at hg
    have hrd' : osReadFile (fpJoin d ([103, 111, 46, 109, 111, 100] : Bytes)) = (data, err1) := hrd
    simp only [hrd']
    cases err1 with
    | none =>
      have hfun : (fun wp wi we (x : List FileError × List File) =>
          Generated.Zip.listFilesInDir_walkFn1 osLstat osOpenRead osReadFile pgv vc vl walkRoot (k + 1) d
            (vl (pgv [103, 111, 46, 109, 111, 100] data)) wp wi we x.fst x.snd) =
          cb osLstat osOpenRead osReadFile pgv vc vl walkRoot (k + 1) d (vl (pgv Zip.goModName data)) := rfl
      simp only [Option.isNone_none, if_true]
      rw [hfun, key (vl (pgv Zip.goModName data)) (by simpa using hg)]
      rfl
    | some e =>
      have hfun : (fun wp wi we (x : List FileError × List File) =>
          Generated.Zip.listFilesInDir_walkFn1 osLstat osOpenRead osReadFile pgv vc vl walkRoot (k + 1) d
            [] wp wi we x.fst x.snd) =
          cb osLstat osOpenRead osReadFile pgv vc vl walkRoot (k + 1) d [] := rfl
      simp only [Option.isNone_some, Bool.false_eq_true, if_false]
      rw [hfun, key [] (by simpa using hg)]
      rfl

end

end ModVerif.TieFnZipDir
