/-
  EditMore, part 13 — for C16 `separate_blocks`: which statement a line is in (`InAt`, `SameStmt`), and the fact that
  Cleanup, removeDups and the sort of SortBlocks never merge lines of different statements (`StmtRefines`).
-/
import ModVerif.Proofs.EditMoreSepF
set_option linter.unusedSimpArgs false
namespace ModVerif.Modfile.Edit
open ModVerif ModVerif.Modfile

/-! ### which statement a line is in -/

/-- the line with id `x` is in the statement at index `k` -/
def InAt (stmts : List Expr) (k : Nat) (x : Nat) : Prop := ∃ st, stmts[k]? = some st ∧ x ∈ treeIds [st]

/-- two line ids are in the same statement -/
def SameStmt (stmts : List Expr) (i j : Nat) : Prop := ∃ st ∈ stmts, i ∈ treeIds [st] ∧ j ∈ treeIds [st]

theorem ids_subset_of_mem {stmts : List Expr} {st : Expr} (h : st ∈ stmts) : ∀ x ∈ treeIds [st], x ∈ treeIds stmts := by
  intro x hx
  induction stmts with
  | nil => cases h
  | cons y ys ih =>
    rw [treeIds_cons]
    rcases List.mem_cons.1 h with rfl | h
    · exact List.mem_append_left _ hx
    · exact List.mem_append_right _ (ih h)

theorem idx_unique : ∀ {stmts : List Expr}, (treeIds stmts).Nodup → ∀ {k k' : Nat} {st st' : Expr} {x : Nat},
    stmts[k]? = some st → stmts[k']? = some st' → x ∈ treeIds [st] → x ∈ treeIds [st'] → k = k' := by
  intro stmts
  induction stmts with
  | nil => intro _ k k' st st' x h; simp at h
  | cons y ys ih =>
    intro hnd k k' st st' x h h' hx hx'
    rw [treeIds_cons] at hnd
    rcases List.nodup_append.1 hnd with ⟨_, n2, n3⟩
    cases k with
    | zero =>
      cases k' with
      | zero => rfl
      | succ k' =>
        simp only [List.getElem?_cons_zero, Option.some.injEq] at h
        simp only [List.getElem?_cons_succ] at h'
        subst h
        exact absurd rfl (n3 x hx x (ids_subset_of_mem (List.mem_iff_getElem?.2 ⟨k', h'⟩) x hx'))
    | succ k =>
      cases k' with
      | zero =>
        simp only [List.getElem?_cons_zero, Option.some.injEq] at h'
        simp only [List.getElem?_cons_succ] at h
        subst h'
        exact absurd rfl (n3 x hx' x (ids_subset_of_mem (List.mem_iff_getElem?.2 ⟨k, h⟩) x hx))
      | succ k' =>
        simp only [List.getElem?_cons_succ] at h h'
        rw [ih n2 h h' hx hx']

theorem not_same_of_inAt {stmts : List Expr} (hnd : (treeIds stmts).Nodup) {a b i j : Nat} (hij : i ≠ j)
    (ha : InAt stmts i a) (hb : InAt stmts j b) : ¬SameStmt stmts a b := by
  rintro ⟨st, hst, h1, h2⟩
  rcases List.mem_iff_getElem?.1 hst with ⟨k, hk⟩
  rcases ha with ⟨sa, hsa, hxa⟩
  rcases hb with ⟨sb, hsb, hxb⟩
  have e1 := idx_unique hnd hk hsa h1 hxa
  have e2 := idx_unique hnd hk hsb h2 hxb
  exact hij (e1.symm.trans e2)

/-- every statement of `out` holds only lines of one statement of `inp` -/
def StmtRefines (out inp : List Expr) : Prop := ∀ st' ∈ out, ∃ st ∈ inp, ∀ x ∈ treeIds [st'], x ∈ treeIds [st]

theorem StmtRefines.same {out inp : List Expr} (h : StmtRefines out inp) {i j : Nat} (hs : SameStmt out i j) : SameStmt inp i j := by
  rcases hs with ⟨st', hst', h1, h2⟩
  rcases h st' hst' with ⟨st, hst, hsub⟩
  exact ⟨st, hst, hsub i h1, hsub j h2⟩

theorem StmtRefines.nil : StmtRefines [] [] := fun _ h => by cases h

theorem StmtRefines.cons {y x : Expr} {ys xs : List Expr} (hy : ∀ a ∈ treeIds [y], a ∈ treeIds [x]) (h : StmtRefines ys xs) :
    StmtRefines (y :: ys) (x :: xs) := by
  intro st' hst'
  rcases List.mem_cons.1 hst' with rfl | hst'
  · exact ⟨x, List.mem_cons_self, hy⟩
  · rcases h st' hst' with ⟨st, hst, r⟩
    exact ⟨st, List.mem_cons_of_mem _ hst, r⟩

theorem StmtRefines.skip {x : Expr} {ys xs : List Expr} (h : StmtRefines ys xs) : StmtRefines ys (x :: xs) := by
  intro st' hst'
  rcases h st' hst' with ⟨st, hst, r⟩
  exact ⟨st, List.mem_cons_of_mem _ hst, r⟩

theorem StmtRefines.trans {a b c : List Expr} (h1 : StmtRefines a b) (h2 : StmtRefines b c) : StmtRefines a c := by
  intro st hst
  rcases h1 st hst with ⟨st1, hst1, r1⟩
  rcases h2 st1 hst1 with ⟨st2, hst2, r2⟩
  exact ⟨st2, hst2, fun x hx => r2 x (r1 x hx)⟩

theorem cleanupStmts_refines : ∀ (stmts : List Expr), StmtRefines (cleanupStmts stmts) stmts := by
  intro stmts
  induction stmts with
  | nil => exact StmtRefines.nil
  | cons x xs ih =>
    cases x with
    | line l =>
      unfold cleanupStmts
      split
      · exact ih.skip
      · exact StmtRefines.cons (fun _ h => h) ih
    | lineBlock b =>
      unfold cleanupStmts
      have hsub : ∀ ls : List Line, (∀ l ∈ ls, l ∈ b.lines) → ∀ a ∈ treeIds [Expr.lineBlock { b with lines := ls }], a ∈ treeIds [Expr.lineBlock b] := by
        intro ls hls a ha
        rw [treeIds_block] at ha ⊢
        rcases List.mem_map.1 ha with ⟨l, hl, rfl⟩
        exact List.mem_map.2 ⟨l, hls l hl, rfl⟩
      have hfl : ∀ l ∈ b.lines.filter (fun l => !l.token.isEmpty), l ∈ b.lines := fun l hl => (List.mem_filter.1 hl).1
      cases hlive : b.lines.filter (fun l => !l.token.isEmpty) with
      | nil => simp only [hlive]; exact ih.skip
      | cons l ls =>
        cases ls with
        | nil =>
          simp only [hlive]
          split
          · refine StmtRefines.cons ?_ ih
            intro a ha
            simp only [treeIds, loc, List.flatMap_cons, List.flatMap_nil, List.append_nil, locStmt, List.map_cons, List.map_nil,
              List.mem_singleton] at ha
            rw [treeIds_block]
            exact List.mem_map.2 ⟨l, hfl l (by rw [hlive]; exact List.mem_cons_self), ha.symm⟩
          · refine StmtRefines.cons ?_ ih
            exact hsub _ (fun x hx => hfl x (by rw [hlive]; exact hx))
        | cons l2 ls2 =>
          simp only [hlive]
          refine StmtRefines.cons ?_ ih
          exact hsub _ (fun x hx => hfl x (by rw [hlive]; exact hx))
    | commentBlock c => unfold cleanupStmts; exact StmtRefines.cons (fun _ h => h) ih
    | lparen c => unfold cleanupStmts; exact StmtRefines.cons (fun _ h => h) ih
    | rparen c => unfold cleanupStmts; exact StmtRefines.cons (fun _ h => h) ih

theorem dropKilled_refines (kill : List Nat) : ∀ (stmts : List Expr), StmtRefines (dropKilled kill stmts) stmts := by
  intro stmts
  induction stmts with
  | nil => exact StmtRefines.nil
  | cons x xs ih =>
    cases x with
    | line l =>
      unfold dropKilled
      split
      · exact ih.skip
      · exact StmtRefines.cons (fun _ h => h) ih
    | lineBlock b =>
      unfold dropKilled
      dsimp only
      split
      · exact ih.skip
      · refine StmtRefines.cons ?_ ih
        intro a ha
        rw [treeIds_block] at ha ⊢
        rcases List.mem_map.1 ha with ⟨l, hl, rfl⟩
        exact List.mem_map.2 ⟨l, (List.mem_filter.1 hl).1, rfl⟩
    | commentBlock c => unfold dropKilled; exact StmtRefines.cons (fun _ h => h) ih
    | lparen c => unfold dropKilled; exact StmtRefines.cons (fun _ h => h) ih
    | rparen c => unfold dropKilled; exact StmtRefines.cons (fun _ h => h) ih

theorem sortStmts_refines (sem work : Bool) : ∀ (stmts : List Expr), StmtRefines (sortStmts sem work stmts) stmts := by
  intro stmts
  induction stmts with
  | nil => exact StmtRefines.nil
  | cons x xs ih =>
    have hcons : sortStmts sem work (x :: xs) = (sortStmts sem work [x]) ++ sortStmts sem work xs := by
      simp [sortStmts]
    rw [hcons]
    cases x with
    | lineBlock b =>
      simp only [sortStmts, List.map_cons, List.map_nil, List.singleton_append]
      refine StmtRefines.cons ?_ ih
      intro a ha
      rw [treeIds_block] at ha ⊢
      rcases List.mem_map.1 ha with ⟨l, hl, rfl⟩
      exact List.mem_map.2 ⟨l, (stableSort_perm _ b.lines).subset hl, rfl⟩
    | line l => simp only [sortStmts, List.map_cons, List.map_nil, List.singleton_append]; exact StmtRefines.cons (fun _ h => h) ih
    | commentBlock c => simp only [sortStmts, List.map_cons, List.map_nil, List.singleton_append]; exact StmtRefines.cons (fun _ h => h) ih
    | lparen c => simp only [sortStmts, List.map_cons, List.map_nil, List.singleton_append]; exact StmtRefines.cons (fun _ h => h) ih
    | rparen c => simp only [sortStmts, List.map_cons, List.map_nil, List.singleton_append]; exact StmtRefines.cons (fun _ h => h) ih

theorem cleanupStmts_block_live : ∀ (stmts : List Expr) (b : LineBlock), Expr.lineBlock b ∈ cleanupStmts stmts →
    ∀ l ∈ b.lines, l.token ≠ [] := by
  intro stmts
  induction stmts with
  | nil => intro b hb; simp [cleanupStmts] at hb
  | cons x xs ih =>
    intro b hb
    have hlive : ∀ (b0 : LineBlock) (l : Line), l ∈ b0.lines.filter (fun l => !l.token.isEmpty) → l.token ≠ [] := by
      intro b0 l hl e
      have := (List.mem_filter.1 hl).2
      simp [e] at this
    cases x with
    | line l =>
      unfold cleanupStmts at hb
      split at hb
      · exact ih b hb
      · rcases List.mem_cons.1 hb with h | h
        · cases h
        · exact ih b h
    | lineBlock b0 =>
      unfold cleanupStmts at hb
      cases hl : b0.lines.filter (fun l => !l.token.isEmpty) with
      | nil => simp only [hl] at hb; exact ih b hb
      | cons l ls =>
        cases ls with
        | nil =>
          simp only [hl] at hb
          split at hb
          · rcases List.mem_cons.1 hb with h | h
            · cases h
            · exact ih b h
          · rcases List.mem_cons.1 hb with h | h
            · simp only [Expr.lineBlock.injEq] at h; subst h
              intro l' hl'
              exact hlive b0 l' (by rw [hl]; exact hl')
            · exact ih b h
        | cons l2 ls2 =>
          simp only [hl] at hb
          rcases List.mem_cons.1 hb with h | h
          · simp only [Expr.lineBlock.injEq] at h; subst h
            intro l' hl'
            exact hlive b0 l' (by rw [hl]; exact hl')
          · exact ih b h
    | commentBlock c =>
      unfold cleanupStmts at hb
      rcases List.mem_cons.1 hb with h | h
      · cases h
      · exact ih b h
    | lparen c =>
      unfold cleanupStmts at hb
      rcases List.mem_cons.1 hb with h | h
      · cases h
      · exact ih b h
    | rparen c =>
      unfold cleanupStmts at hb
      rcases List.mem_cons.1 hb with h | h
      · cases h
      · exact ih b h

end ModVerif.Modfile.Edit
