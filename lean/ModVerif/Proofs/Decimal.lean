/-
  Helper lemmas on the decimal model: `parseDigits ∘ formatNat`, `parseInt64 ∘ formatInt`,
  the characters and the length of a formatted number, `pad3`.
-/
import ModVerif.Basic.Decimal
namespace ModVerif.Decimal
open ModVerif

theorem digitChar_toNat (d : Nat) (h : d < 10) : (digitChar d).toNat = 48 + d := by
  simp only [digitChar, UInt8.toNat_ofNat']
  omega

theorem isDigit_digitChar (d : Nat) (h : d < 10) : isDigit (digitChar d) = true := by
  simp only [isDigit, digitChar_toNat d h, Bool.and_eq_true, decide_eq_true_eq]
  omega

theorem isDigit_range (c : UInt8) (h : isDigit c = true) : 48 ≤ c.toNat ∧ c.toNat ≤ 57 := by
  simpa [isDigit] using h

theorem isDigit_ne (c : UInt8) (h : isDigit c = true) (d : UInt8) (hd : d.toNat < 48 ∨ 57 < d.toNat) :
    c ≠ d := by
  intro e; subst e
  have := isDigit_range c h
  omega

/-! ### digitsAux -/

theorem digitsAux_append : ∀ (f n : Nat) (acc : Bytes), digitsAux f n acc = digitsAux f n [] ++ acc := by
  intro f
  induction f with
  | zero => intro n acc; simp [digitsAux]
  | succ f ih =>
    intro n acc
    simp only [digitsAux]
    split
    · simp
    · rw [ih (n / 10) (digitChar (n % 10) :: acc), ih (n / 10) [digitChar (n % 10)]]
      simp

theorem digitsAux_succ_ne_nil (f n : Nat) (acc : Bytes) : digitsAux (f + 1) n acc ≠ [] := by
  simp only [digitsAux]
  split
  · simp
  · rw [digitsAux_append]; simp

theorem digitsAux_all (P : UInt8 → Prop) (hP : ∀ d, d < 10 → P (digitChar d)) :
    ∀ (f n : Nat) (acc : Bytes), (∀ c ∈ acc, P c) → ∀ c ∈ digitsAux f n acc, P c := by
  intro f
  induction f with
  | zero => intro n acc h; simpa [digitsAux] using h
  | succ f ih =>
    intro n acc h
    simp only [digitsAux]
    split
    · intro c hc
      rcases List.mem_cons.1 hc with rfl | hc
      · exact hP _ (by omega)
      · exact h c hc
    · apply ih
      intro c hc
      rcases List.mem_cons.1 hc with rfl | hc
      · exact hP _ (Nat.mod_lt _ (by omega))
      · exact h c hc

theorem parseDigitsAux_append : ∀ (l1 l2 : Bytes) (a : Nat),
    parseDigitsAux (l1 ++ l2) a = (parseDigitsAux l1 a).bind (parseDigitsAux l2) := by
  intro l1
  induction l1 with
  | nil => intro l2 a; simp [parseDigitsAux]
  | cons c l1 ih =>
    intro l2 a
    simp only [List.cons_append, parseDigitsAux]
    split
    · exact ih _ _
    · rfl

theorem parseDigitsAux_single (d a : Nat) (h : d < 10) :
    parseDigitsAux [digitChar d] a = some (a * 10 + d) := by
  simp [parseDigitsAux, isDigit_digitChar d h, digitChar_toNat d h]

theorem parseDigitsAux_digitsAux : ∀ (f n : Nat), n < f →
    parseDigitsAux (digitsAux f n []) 0 = some n := by
  intro f
  induction f with
  | zero => intro n h; omega
  | succ f ih =>
    intro n h
    simp only [digitsAux]
    split
    · rename_i h10
      rw [parseDigitsAux_single n 0 h10]; simp
    · rename_i h10
      rw [digitsAux_append, parseDigitsAux_append, ih (n / 10) (by omega)]
      simp only [Option.bind_some]
      rw [parseDigitsAux_single _ _ (Nat.mod_lt _ (by omega))]
      congr 1
      omega

/-! ### formatNat -/

theorem formatNat_ne_nil (n : Nat) : formatNat n ≠ [] := digitsAux_succ_ne_nil n n []

theorem formatNat_all_digits (n : Nat) : ∀ c ∈ formatNat n, isDigit c = true :=
  digitsAux_all (fun c => isDigit c = true) isDigit_digitChar (n + 1) n [] (by simp)

theorem parseDigits_formatNat (n : Nat) : parseDigits (formatNat n) = some n := by
  unfold parseDigits
  have hne := formatNat_ne_nil n
  cases h : formatNat n with
  | nil => exact absurd h hne
  | cons c rest =>
    rw [← h]
    simp only [h, List.isEmpty_cons, Bool.false_eq_true, if_false]
    rw [← h]
    exact parseDigitsAux_digitsAux (n + 1) n (by omega)

/-- a formatted natural number contains no byte outside '0'..'9' -/
theorem formatNat_not_mem (n : Nat) (d : UInt8) (hd : d.toNat < 48 ∨ 57 < d.toNat) :
    d ∉ formatNat n :=
  fun h => isDigit_ne d (formatNat_all_digits n d h) d hd rfl

theorem formatNat_no_newline (n : Nat) : (10 : UInt8) ∉ formatNat n :=
  formatNat_not_mem n 10 (by decide)

/-! ### formatInt / parseInt64 -/

theorem formatInt_no_newline (n : Int) : (10 : UInt8) ∉ formatInt n := by
  cases n with
  | ofNat k => exact formatNat_no_newline k
  | negSucc k =>
    simp only [formatInt, List.mem_cons, not_or]
    exact ⟨by decide, formatNat_no_newline (k + 1)⟩

theorem formatInt_ne_nil (n : Int) : formatInt n ≠ [] := by
  cases n with
  | ofNat k => exact formatNat_ne_nil k
  | negSucc k => simp [formatInt]

theorem parseInt64_of_digits (s : Bytes) (k : Nat) (hall : ∀ c ∈ s, isDigit c = true)
    (hp : parseDigits s = some k) (h : (k : Int) ≤ int64Max) : parseInt64 s = some (k : Int) := by
  cases s with
  | nil => simp [parseDigits] at hp
  | cons c rest =>
    have hc : isDigit c = true := hall c (by simp)
    have h43 : (c == 43) = false := by
      simpa using isDigit_ne c hc 43 (by decide)
    have h45 : (c == 45) = false := by
      simpa using isDigit_ne c hc 45 (by decide)
    simp only [parseInt64, h43, h45, hp, Bool.false_eq_true, if_false, h, if_true]

theorem parseInt64_formatNat (k : Nat) (h : (k : Int) ≤ int64Max) :
    parseInt64 (formatNat k) = some (k : Int) := by
  have hne := formatNat_ne_nil k
  have hp := parseDigits_formatNat k
  have hall := formatNat_all_digits k
  cases hf : formatNat k with
  | nil => exact absurd hf hne
  | cons c rest =>
    rw [hf] at hp hall
    have hc : isDigit c = true := hall c (by simp)
    have h43 : (c == 43) = false := by
      simpa using isDigit_ne c hc 43 (by decide)
    have h45 : (c == 45) = false := by
      simpa using isDigit_ne c hc 45 (by decide)
    simp only [parseInt64, h43, h45, hp, Bool.false_eq_true, if_false, h, if_true]

theorem parseInt64_formatInt (n : Int) (h1 : int64Min ≤ n) (h2 : n ≤ int64Max) :
    parseInt64 (formatInt n) = some n := by
  cases n with
  | ofNat k => exact parseInt64_formatNat k h2
  | negSucc k =>
    have hp := parseDigits_formatNat (k + 1)
    have hge : -((k + 1 : Nat) : Int) ≥ int64Min := by
      have : Int.negSucc k = -((k + 1 : Nat) : Int) := rfl
      rw [← this]; exact h1
    simp only [formatInt, parseInt64, hp]
    simp only [show ((45 : UInt8) == 43) = false by decide, Bool.false_eq_true, if_false,
      show ((45 : UInt8) == 45) = true by decide, if_true, hge]
    rfl

/-! ### lengths -/

theorem digitsAux_length_le : ∀ (f n k : Nat), n < f → 1 ≤ k → n < 10 ^ k →
    (digitsAux f n []).length ≤ k := by
  intro f
  induction f with
  | zero => intro n k h; omega
  | succ f ih =>
    intro n k h hk hn
    simp only [digitsAux]
    split
    · simpa using hk
    · rename_i h10
      rw [digitsAux_append]
      simp only [List.length_append, List.length_cons, List.length_nil]
      have hk2 : 2 ≤ k := by
        rcases Nat.lt_or_ge k 2 with h' | h'
        · have : k = 1 := by omega
          subst this; simp at hn; omega
        · exact h'
      have : n / 10 < 10 ^ (k - 1) := by
        rw [Nat.div_lt_iff_lt_mul (by omega)]
        have : 10 ^ k = 10 ^ (k - 1) * 10 := by
          rw [← Nat.pow_succ]; congr 1; omega
        omega
      have := ih (n / 10) (k - 1) (by omega) (by omega) this
      omega

theorem formatNat_length_le (n k : Nat) (hk : 1 ≤ k) (hn : n < 10 ^ k) : (formatNat n).length ≤ k :=
  digitsAux_length_le (n + 1) n k (by omega) hk hn

theorem formatNat_length_pos (n : Nat) : 1 ≤ (formatNat n).length := by
  have := formatNat_ne_nil n
  cases h : formatNat n with
  | nil => exact absurd h this
  | cons c r => simp

/-! ### pad3 -/

theorem pad3_length (n : Nat) (h : n < 1000) : (pad3 n).length = 3 := by
  have := formatNat_length_le n 3 (by omega) (by omega)
  simp only [pad3, List.length_append, List.length_replicate]
  omega

theorem pad3_all_digits (n : Nat) : ∀ c ∈ pad3 n, isDigit c = true := by
  intro c hc
  simp only [pad3, List.mem_append, List.mem_replicate] at hc
  rcases hc with ⟨_, rfl⟩ | hc
  · decide
  · exact formatNat_all_digits n c hc

theorem parseDigitsAux_replicate_zero : ∀ (m : Nat) (l : Bytes),
    parseDigitsAux (List.replicate m 48 ++ l) 0 = parseDigitsAux l 0 := by
  intro m
  induction m with
  | zero => intro l; simp
  | succ m ih =>
    intro l
    simp only [List.replicate_succ, List.cons_append, parseDigitsAux]
    rw [if_pos (by decide)]
    simpa using ih l

theorem parseDigits_pad3 (n : Nat) : parseDigits (pad3 n) = some n := by
  have hne := formatNat_ne_nil n
  have hp := parseDigits_formatNat n
  unfold parseDigits at hp ⊢
  have h1 : (formatNat n).isEmpty = false := by simpa using hne
  have h2 : (pad3 n).isEmpty = false := by
    simp [pad3, hne]
  rw [h1] at hp
  rw [h2]
  simp only [Bool.false_eq_true, if_false] at hp ⊢
  simp only [pad3]
  rw [parseDigitsAux_replicate_zero]
  exact hp

theorem parseInt64_pad3 (n : Nat) (h : n < 1000) : parseInt64 (pad3 n) = some (n : Int) :=
  parseInt64_of_digits (pad3 n) n (pad3_all_digits n) (parseDigits_pad3 n) (by
    simp only [int64Max]; omega)

theorem pad3_ne_nil (n : Nat) : pad3 n ≠ [] := by
  simp [pad3, formatNat_ne_nil]

theorem pad3_not_mem (n : Nat) (d : UInt8) (hd : d.toNat < 48 ∨ 57 < d.toNat) : d ∉ pad3 n :=
  fun h => isDigit_ne d (pad3_all_digits n d h) d hd rfl

end ModVerif.Decimal
