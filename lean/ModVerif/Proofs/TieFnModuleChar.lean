/-
  Tie proofs for the regenerated module.go functions (Generated/FnModule.lean), part 1:
  the vocabulary of the statements (path kinds as Go integers, `unicode.IsLetter` on `Int` runes, the message
  literal of every `fmt.Errorf` site as a function of the model's `PathErr`) and the character predicates
  firstPathOK / modPathOK / importPathOK / fileNameOK on runes that are images of natural numbers.
-/
import ModVerif.Generated.FnModule
import ModVerif.Model.Module
import ModVerif.Proofs.GoRtLemmasStr
namespace ModVerif.TieFnModule
open ModVerif ModVerif.GoRt ModVerif.GoRtStr

theorem firstPathOK_nat (n : Nat) : Generated.Module.firstPathOK (n : Int) = Module.firstPathOK n := by
  simp only [Generated.Module.firstPathOK, Module.firstPathOK]
  rw [Bool.eq_iff_iff]; simp; omega

theorem modPathOK_nat (n : Nat) : Generated.Module.modPathOK (n : Int) = Module.modPathOK n := by
  simp only [Generated.Module.modPathOK, Module.modPathOK, Id.run]
  by_cases h : n < 128
  · have h' : (n : Int) < 128 := by omega
    simp only [h, h', decide_true, if_true, pure]
    rw [Bool.eq_iff_iff]; simp; omega
  · have h' : ¬ (n : Int) < 128 := by omega
    simp [h, h', pure]

theorem importPathOK_nat (n : Nat) : Generated.Module.importPathOK (n : Int) = Module.importPathOK n := by
  simp only [Generated.Module.importPathOK, Module.importPathOK, modPathOK_nat]
  congr 1
  rw [Bool.eq_iff_iff]; simp; omega

theorem allowed_nat : ∀ n : Nat, n < 128 →
    containsRune ([33, 35, 36, 37, 38, 40, 41, 43, 44, 45, 46, 61, 64, 91, 93, 94, 95, 123, 125, 126, 32] : Bytes) (n : Int)
      = Module.fileNameAllowed.elem n := by
  decide +kernel


/-- the model's `isLetter : Nat → Bool` that corresponds to the generated code's `isLetter : Int → Bool`
    (runes delivered by `range` are never negative) -/
def natLetter (il : Int → Bool) : Nat → Bool := fun n => il (n : Int)

theorem fileNameOK_nat (il : Int → Bool) (n : Nat) :
    Generated.Module.fileNameOK il (n : Int) = Module.fileNameOK (natLetter il) n := by
  simp only [Generated.Module.fileNameOK, Module.fileNameOK, Id.run, natLetter]
  by_cases h : n < 128
  · have h' : (n : Int) < 128 := by omega
    simp only [h, h', decide_true, if_true, pure, allowed_nat n h]
    have e : (((decide ((48 : Int) ≤ (n : Int))) && (decide ((n : Int) ≤ (57 : Int)))) ||
        ((decide ((65 : Int) ≤ (n : Int))) && (decide ((n : Int) ≤ (90 : Int)))) ||
        ((decide ((97 : Int) ≤ (n : Int))) && (decide ((n : Int) ≤ (122 : Int)))))
        = ((48 ≤ n && n ≤ 57) || (65 ≤ n && n ≤ 90) || (97 ≤ n && n ≤ 122)) := by
      rw [Bool.eq_iff_iff]; simp; omega
    rw [e]
  · have h' : ¬ (n : Int) < 128 := by omega
    simp [h, h', pure]

/-! ### the same on arbitrary `Int` runes (negative values are rejected on both sides) -/

theorem firstPathOK_int (r : Int) : Generated.Module.firstPathOK r = Module.firstPathOK r.toNat := by
  by_cases h : 0 ≤ r
  · obtain ⟨n, rfl⟩ := Int.eq_ofNat_of_zero_le h
    simpa using firstPathOK_nat n
  · have h0 : r.toNat = 0 := by omega
    rw [h0]
    simp only [Generated.Module.firstPathOK, Module.firstPathOK]
    rw [Bool.eq_iff_iff]; simp; omega

theorem modPathOK_int (r : Int) : Generated.Module.modPathOK r = Module.modPathOK r.toNat := by
  by_cases h : 0 ≤ r
  · obtain ⟨n, rfl⟩ := Int.eq_ofNat_of_zero_le h
    simpa using modPathOK_nat n
  · have h0 : r.toNat = 0 := by omega
    rw [h0]
    have h' : r < 128 := by omega
    simp only [Generated.Module.modPathOK, Module.modPathOK, Id.run, h', decide_true, if_true, pure]
    rw [Bool.eq_iff_iff]; simp; omega

theorem importPathOK_int (r : Int) : Generated.Module.importPathOK r = Module.importPathOK r.toNat := by
  by_cases h : 0 ≤ r
  · obtain ⟨n, rfl⟩ := Int.eq_ofNat_of_zero_le h
    simpa using importPathOK_nat n
  · have h0 : r.toNat = 0 := by omega
    simp only [Generated.Module.importPathOK, Module.importPathOK, modPathOK_int, h0]
    have : ¬ r = 43 := by omega
    simp [this]

theorem fileNameOK_int (il : Int → Bool) (r : Int) :
    Generated.Module.fileNameOK il r = Module.fileNameOK (natLetter il) r.toNat := by
  by_cases h : 0 ≤ r
  · obtain ⟨n, rfl⟩ := Int.eq_ofNat_of_zero_le h
    simpa using fileNameOK_nat il n
  · have h0 : r.toNat = 0 := by omega
    have h' : r < 128 := by omega
    have hc : containsRune ([33, 35, 36, 37, 38, 40, 41, 43, 44, 45, 46, 61, 64, 91, 93, 94, 95, 123, 125, 126, 32] : Bytes) r = false := by
      simp only [containsRune, encodeRune, h0]; decide +kernel
    simp only [Generated.Module.fileNameOK, Module.fileNameOK, Id.run, h', decide_true, if_true, pure, h0, hc]
    have e : (((decide ((48 : Int) ≤ r)) && (decide (r ≤ (57 : Int)))) ||
        ((decide ((65 : Int) ≤ r)) && (decide (r ≤ (90 : Int)))) ||
        ((decide ((97 : Int) ≤ r)) && (decide (r ≤ (122 : Int))))) = false := by
      rw [Bool.eq_false_iff]; simp; omega
    rw [e]; simp [Module.fileNameAllowed]


/-- Go's `pathKind` constants (`modulePath = iota`, `importPath`, `filePath`) -/
def kindInt : Module.Kind → Int
  | .module => 0
  | .import_ => 1
  | .file => 2

/-- the message literal of the `fmt.Errorf` site behind each error kind of the model (module.go, source order) -/
def msg : Module.PathErr → String
  | .invalidUtf8 => "invalid UTF-8"
  | .emptyString => "empty string"
  | .leadingDash => "leading dash"
  | .doubleSlash => "double slash"
  | .trailingSlash => "trailing slash"
  | .emptyElem => "empty path element"
  | .allDots => "invalid path element %q"
  | .leadingDot => "leading dot in path element"
  | .trailingDot => "trailing dot in path element"
  | .invalidChar => "invalid char %q"
  | .windows => "%q disallowed as path element component on Windows"
  | .tildeDigits => "trailing tilde and digits in path element"
  | .leadingSlash => "leading slash"
  | .missingDot => "missing dot in first path element"
  | .leadingDashFirst => "leading dash in first path element"
  | .invalidCharFirst => "invalid char %q in first path element"
  | .invalidVersion => "invalid version"

/-- from the message literal back to the error kind (the same table as `Drv.GenModule.pathKind`) -/
def kindOfMsg (m : String) : Option Module.PathErr :=
  match m with
  | "invalid UTF-8" => some .invalidUtf8
  | "empty string" => some .emptyString
  | "leading dash" => some .leadingDash
  | "double slash" => some .doubleSlash
  | "trailing slash" => some .trailingSlash
  | "empty path element" => some .emptyElem
  | "invalid path element %q" => some .allDots
  | "leading dot in path element" => some .leadingDot
  | "trailing dot in path element" => some .trailingDot
  | "invalid char %q" => some .invalidChar
  | "%q disallowed as path element component on Windows" => some .windows
  | "trailing tilde and digits in path element" => some .tildeDigits
  | "leading slash" => some .leadingSlash
  | "missing dot in first path element" => some .missingDot
  | "leading dash in first path element" => some .leadingDashFirst
  | "invalid char %q in first path element" => some .invalidCharFirst
  | "invalid version" => some .invalidVersion
  | _ => none

theorem kindOfMsg_msg (e : Module.PathErr) : kindOfMsg (msg e) = some e := by
  cases e <;> rfl

theorem msg_injective {a b : Module.PathErr} (h : msg a = msg b) : a = b := by
  have := congrArg kindOfMsg h
  simpa [kindOfMsg_msg] using this

/-- a Go `error` result (nil or the message literal) from the model's result -/
def errOf : Except Module.PathErr Unit → Option String
  | .ok () => none
  | .error e => some (msg e)

/-- the same, wrapped by `&InvalidPathError{…, Err: err}` -/
def wrappedErrOf : Except Module.PathErr Unit → Option String
  | .ok () => none
  | .error e => some ("InvalidPathError|" ++ msg e)

theorem wrapErr_some (name m : String) : wrapErr name (some m) = some (name ++ "|" ++ m) := rfl

end ModVerif.TieFnModule
