/-
  Helper lemmas for Tie/FnEditSet.lean, `File.SetRequireSeparateIndirect`, part 11: the function factored into the scan,
  `oneFlatUncommentedBlock`, the two block stages and the tail (`main_factor`, by `rfl`); the model factored the same way
  (`sepPlan`: the context and the statement list after the two blocks were ensured; `model_factor`).
-/
import ModVerif.Proofs.TieFnEditSetM
set_option linter.unusedSimpArgs false
set_option linter.unusedVariables false
namespace ModVerif.Tie.FnEditSetN
open ModVerif ModVerif.GoRt ModVerif.Generated.Edit ModVerif.Tie.FnEditRep ModVerif.Tie.FnEditTreeA ModVerif.Tie.FnEditSetA
  ModVerif.Tie.FnEditSetB ModVerif.Tie.FnEditSetC ModVerif.Tie.FnEditSetD ModVerif.Tie.FnEditSetE ModVerif.Tie.FnEditSetF
  ModVerif.Tie.FnEditSetG ModVerif.Tie.FnEditSetH ModVerif.Tie.FnEditSetI ModVerif.Tie.FnEditSetJ ModVerif.Tie.FnEditSetK
  ModVerif.Tie.FnEditSetL ModVerif.Tie.FnEditSetM
open ModVerif.Modfile.Edit (EFile Want treeIds Scan scanStmts hasComments SepCtx insertAt emptyRequireBlock ensureBlock
  setRequireSeparateIndirect EditErr)

/-! ### the generated function, factored -/

/-- the continuation `k167`: the indirect block, then the tail -/
def indirectStageG (isPrint : Int → Bool) (quote : Bytes → Bytes) (fuel : Nat) (f : Int) (req : List Int) (lineToBlock : List (Int × Int))
    (oneFlatUncommentedBlock : Bool) (lastDirectIndex lastIndirectIndex lastDirectBlock : Int) (world : Heap) : M (Unit × Heap) :=
  if (decide (lastIndirectIndex < (0 : Int))) then (do
    let lastIndirectIndex := (lastDirectIndex + (1 : Int))
    let t163 ← (File_SetRequireSeparateIndirect_insertBlock isPrint quote fuel f lastIndirectIndex world)
    let (cr164, world) := t163
    let lastIndirectBlock := cr164
    tailG isPrint quote fuel f req lineToBlock oneFlatUncommentedBlock lastDirectBlock lastIndirectBlock world) else (do
    let t165 ← (File_SetRequireSeparateIndirect_ensureBlock isPrint quote fuel f lastIndirectIndex world)
    let (cr166, world) := t165
    let lastIndirectBlock := cr166
    tailG isPrint quote fuel f req lineToBlock oneFlatUncommentedBlock lastDirectBlock lastIndirectBlock world)

/-- the direct block, then `k167` -/
def phaseCG (isPrint : Int → Bool) (quote : Bytes → Bytes) (fuel : Nat) (f : Int) (req : List Int) (lineToBlock : List (Int × Int))
    (oneFlatUncommentedBlock : Bool) (lastDirectIndex lastIndirectIndex lastRequireIndex : Int) (world : Heap) : M (Unit × Heap) :=
  if (decide (lastDirectIndex < (0 : Int))) then (do
    let k170 := fun (lastDirectIndex : Int) (lastIndirectIndex : Int) => ((do
      let t168 ← (File_SetRequireSeparateIndirect_insertBlock isPrint quote fuel f lastDirectIndex world)
      let (cr169, world) := t168
      let lastDirectBlock := cr169
      indirectStageG isPrint quote fuel f req lineToBlock oneFlatUncommentedBlock lastDirectIndex lastIndirectIndex lastDirectBlock world) : M (Unit × Heap))
    if (decide (lastIndirectIndex ≥ (0 : Int))) then (do
      let lastDirectIndex := lastIndirectIndex
      let lastIndirectIndex := (lastIndirectIndex + (1 : Int))
      k170 lastDirectIndex lastIndirectIndex) else (if (decide (lastRequireIndex ≥ (0 : Int))) then (do
      let lastDirectIndex := (lastRequireIndex + (1 : Int))
      k170 lastDirectIndex lastIndirectIndex) else (do
      let t171 ← heapGet ((world).mods) f
      let t172 ← heapGet ((world).files) (t171.Syntax)
      let lastDirectIndex := (len (t172.Stmt))
      k170 lastDirectIndex lastIndirectIndex))) else (do
    let t173 ← (File_SetRequireSeparateIndirect_ensureBlock isPrint quote fuel f lastDirectIndex world)
    let (cr174, world) := t173
    let lastDirectBlock := cr174
    indirectStageG isPrint quote fuel f req lineToBlock oneFlatUncommentedBlock lastDirectIndex lastIndirectIndex lastDirectBlock world)

/-- `oneFlatUncommentedBlock` -/
def oneFlatG (isPrint : Int → Bool) (quote : Bytes → Bytes) (fuel : Nat) (f : Int) (requireLineOrBlockCount lastRequireIndex : Int)
    (world : Heap) : M Bool :=
  (if (decide (requireLineOrBlockCount = (1 : Int))) then (do
    let t75 ← heapGet ((world).mods) f
    let t76 ← heapGet ((world).files) (t75.Syntax)
    let t77 ← idxL (t76.Stmt) lastRequireIndex
    let t78 ← Expr_getComments t77 world
    let t79 ← (File_SetRequireSeparateIndirect_hasComments isPrint quote fuel t78)
    pure (!t79)) else pure false)

theorem main_factor (isPrint : Int → Bool) (quote : Bytes → Bytes) (fuel : Nat) (f : Int) (req : List Int) (world : Heap) :
    File_SetRequireSeparateIndirect isPrint quote fuel f req world = (do
      let t41 ← heapGet ((world).mods) f
      let t42 ← heapGet ((world).files) (t41.Syntax)
      let (ri44, lastRequireIndex, requireLineOrBlockCount, world, lastIndirectIndex, lastDirectIndex, lineToBlock) ←
        File_SetRequireSeparateIndirect_loop1 isPrint quote (t42.Stmt) f fuel 0 (-1) 0 world (-1) (-1) []
      let t80 ← oneFlatG isPrint quote fuel f requireLineOrBlockCount lastRequireIndex world
      phaseCG isPrint quote fuel f req lineToBlock t80 lastDirectIndex lastIndirectIndex lastRequireIndex world) := by
  rfl


/-! ### the model, factored -/

def isBlockAt (stmts : List Modfile.Expr) (j : Nat) : Bool :=
  match stmts[j]? with
  | some (.lineBlock _) => true
  | _ => false

/-- the indirect block: the context and the final statement list -/
def indirectPlan (oneFlat : Bool) (ml : List (Nat × Nat)) (stmts : List Modfile.Expr) (directIdx : Nat) (directOrig : Option Nat)
    (lastIndirect indirectShift : Option Nat) : Except EditErr (SepCtx × List Modfile.Expr) :=
  match lastIndirect with
  | none =>
    .ok ({ oneFlat := oneFlat, directIdx := directIdx, indirectIdx := directIdx + 1, directOrig := directOrig,
           indirectOrig := none, lineToBlock := ml }, insertAt stmts (directIdx + 1) emptyRequireBlock)
  | some j =>
    match ensureBlock stmts j with
    | .error err => .error err
    | .ok stmts' =>
      .ok ({ oneFlat := oneFlat, directIdx := directIdx, indirectIdx := j, directOrig := directOrig,
             indirectOrig := (if isBlockAt stmts j then indirectShift else none), lineToBlock := ml }, stmts')

def oneFlatM (stmts : List Modfile.Expr) (sc : Scan) : Bool :=
  sc.count == 1 &&
    (match sc.lastRequire with
     | some i => !hasComments ((stmts[i]?.map Modfile.Expr.comments).getD {})
     | none => false)

/-- the plan of SetRequireSeparateIndirect: the scan and the two blocks -/
def sepPlan (e : EFile) : Except EditErr (SepCtx × List Modfile.Expr) :=
  let stmts := e.f.syn.stmts
  let sc := scanStmts stmts 0 {}
  let oneFlat := oneFlatM stmts sc
  match sc.lastDirect with
  | none =>
    match sc.lastIndirect with
    | some j => indirectPlan oneFlat sc.lineToBlock (insertAt stmts j emptyRequireBlock) j none (some (j + 1)) (some j)
    | none =>
      match sc.lastRequire with
      | some k => indirectPlan oneFlat sc.lineToBlock (insertAt stmts (k + 1) emptyRequireBlock) (k + 1) none none none
      | none => indirectPlan oneFlat sc.lineToBlock (stmts ++ [emptyRequireBlock]) stmts.length none none none
  | some d =>
    match ensureBlock stmts d with
    | .error err => .error err
    | .ok stmts' =>
      indirectPlan oneFlat sc.lineToBlock stmts' d (if isBlockAt stmts d then some d else none) sc.lastIndirect sc.lastIndirect

theorem model_factor (e : EFile) (req : List Want) :
    setRequireSeparateIndirect e req id =
      (match sepPlan e with
       | .ok (ctx, stmts') => tailM ctx (withStmts e stmts') req
       | .error err => .error err) := by
  unfold setRequireSeparateIndirect sepPlan indirectPlan tailM oneFlatM isBlockAt
  simp only [bind, Except.bind, pure, Except.pure, id]
  cases (scanStmts e.f.syn.stmts 0 {}).lastDirect with
  | none =>
    cases (scanStmts e.f.syn.stmts 0 {}).lastIndirect with
    | some j =>
      simp only
      cases ensureBlock (insertAt e.f.syn.stmts j emptyRequireBlock) (j + 1) <;> rfl
    | none =>
      cases (scanStmts e.f.syn.stmts 0 {}).lastRequire <;> rfl
  | some d =>
    simp only
    cases ensureBlock e.f.syn.stmts d with
    | error err => rfl
    | ok stmts' =>
      simp only
      cases (scanStmts e.f.syn.stmts 0 {}).lastIndirect with
      | none => rfl
      | some j =>
        simp only
        cases ensureBlock stmts' j <;> rfl

end ModVerif.Tie.FnEditSetN
