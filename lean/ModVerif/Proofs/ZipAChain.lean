/-
  The collision checker seen through the chain of paths a check visits (the path, then `path.Dir` of it,
  … down to "."): a successful check registers its whole chain; a check whose chain is already part of a
  table with unique folded keys succeeds against every sub-table.  Used for `create_checkZip` (the zip
  check replays the valid files against a smaller table) and for `checkFiles_perm`.
-/
import ModVerif.Spec.ZipSpec
import ModVerif.Proofs.ZipCC
namespace ModVerif.Proofs.ZipA
open ModVerif ModVerif.PathClean ModVerif.Zip ModVerif.ZipSpec ModVerif.Proofs.Zip

/-- no two entries of the table have the same folded key -/
def Uniq (cc : CC) : Prop := ∀ a ∈ cc, ∀ b ∈ cc, a.fold = b.fold → a = b

def Sub (a b : CC) : Prop := ∀ e ∈ a, e ∈ b

theorem Sub.refl (a : CC) : Sub a a := fun _ h => h
theorem Sub.trans {a b c : CC} (h1 : Sub a b) (h2 : Sub b c) : Sub a c := fun e h => h2 e (h1 e h)

theorem uniq_nil : Uniq [] := fun a ha => by cases ha

/-- the entry `check` registers for a path -/
def entry (toFold : Bytes → Bytes) (p : Bytes) (d : Bool) : PathInfo := ⟨toFold p, p, d⟩

/-- the entries a check of `p` visits when nothing clashes (bounded like `ccCheck`) -/
def chainOf (toFold : Bytes → Bytes) : Nat → Bytes → Bool → List PathInfo
  | 0, _, _ => []
  | n + 1, p, d =>
    entry toFold p d :: (if pathDir p != [46] then chainOf toFold n (pathDir p) true else [])

/-- the bound is large enough for the recursion on `path.Dir` to reach "." -/
def fuelOK : Nat → Bytes → Prop
  | 0, _ => False
  | n + 1, p => (pathDir p != [46]) = true → fuelOK n (pathDir p)

theorem find_some {cc : CC} {k : Bytes} {e : PathInfo} (h : cc.find k = some e) : e ∈ cc ∧ e.fold = k := by
  unfold CC.find at h
  exact ⟨List.mem_of_find?_eq_some h, by simpa using List.find?_some h⟩

theorem find_none {cc : CC} {k : Bytes} (h : cc.find k = none) : ∀ e ∈ cc, e.fold ≠ k := by
  unfold CC.find at h
  intro e he
  have := List.find?_eq_none.mp h e he
  simpa using this

theorem find_none_of {cc : CC} {k : Bytes} (h : ∀ e ∈ cc, e.fold ≠ k) : cc.find k = none := by
  unfold CC.find
  apply List.find?_eq_none.mpr
  intro e he
  simpa using h e he

theorem uniq_snoc {cc : CC} (h : Uniq cc) (e : PathInfo) (hf : ∀ a ∈ cc, a.fold ≠ e.fold) : Uniq (cc ++ [e]) := by
  intro a ha b hb hab
  rcases List.mem_append.mp ha with ha | ha <;> rcases List.mem_append.mp hb with hb | hb
  · exact h a ha b hb hab
  · rw [List.mem_singleton.mp hb] at hab; exact absurd hab (hf a ha)
  · rw [List.mem_singleton.mp ha] at hab; exact absurd hab.symm (hf b hb)
  · rw [List.mem_singleton.mp ha, List.mem_singleton.mp hb]

/-- one step, whatever the outcome: the table only grows, by at most the entry of the path, and keeps
    unique keys. -/
theorem ccStep_any (toFold : Bytes → Bytes) (cc : CC) (p : Bytes) (d : Bool) (hu : Uniq cc) :
    Uniq (ccStep toFold cc p d).1 ∧ Sub cc (ccStep toFold cc p d).1 ∧
    ∀ e ∈ (ccStep toFold cc p d).1, e ∈ cc ∨ e = entry toFold p d := by
  unfold ccStep
  cases hf : cc.find (toFold p) with
  | none =>
    refine ⟨uniq_snoc hu _ (find_none hf), fun e he => List.mem_append_left _ he, ?_⟩
    intro e he
    rcases List.mem_append.mp he with he | he
    · exact Or.inl he
    · exact Or.inr (List.mem_singleton.mp he)
  | some other =>
    simp only
    repeat' split
    all_goals exact ⟨hu, Sub.refl _, fun e he => Or.inl he⟩

/-- a successful step: the entry of the path is in the table afterwards; a file was not there before. -/
theorem ccStep_ok (toFold : Bytes → Bytes) (cc cc' : CC) (p : Bytes) (d : Bool)
    (h : ccStep toFold cc p d = (cc', none)) :
    entry toFold p d ∈ cc' ∧ (d = false → ∀ e ∈ cc, e.fold ≠ toFold p) := by
  unfold ccStep at h
  cases hf : cc.find (toFold p) with
  | none =>
    rw [hf] at h
    simp only [Prod.mk.injEq, and_true] at h
    subst h
    exact ⟨List.mem_append_right _ (List.mem_singleton.mpr rfl), fun _ => find_none hf⟩
  | some other =>
    rw [hf] at h
    simp only at h
    by_cases h1 : (p != other.path) = true
    · rw [if_pos h1] at h; simp at h
    rw [if_neg h1] at h
    by_cases h2 : (d != other.isDir) = true
    · rw [if_pos h2] at h; simp at h
    rw [if_neg h2] at h
    by_cases h3 : (!d) = true
    · rw [if_pos h3] at h; simp at h
    rw [if_neg h3] at h
    simp only [Prod.mk.injEq, and_true] at h
    subst h
    obtain ⟨hm, hfold⟩ := find_some hf
    have e1 : p = other.path := by simpa using h1
    have e2 : d = other.isDir := by simpa using h2
    have e3 : d = true := by simpa using h3
    refine ⟨?_, fun hd => by rw [hd] at e3; cases e3⟩
    have : entry toFold p d = other := by
      cases other with
      | mk f q i => simp only at e1 e2 hfold; subst e1 e2 hfold; rfl
    rw [this]; exact hm

/-- a step against a sub-table of a table with unique keys that holds the entry of the path succeeds
    (for a file: provided the file itself is not in the sub-table yet). -/
theorem ccStep_sim (toFold : Bytes → Bytes) (small big : CC) (p : Bytes) (d : Bool)
    (hu : Uniq big) (hs : Sub small big) (hin : entry toFold p d ∈ big)
    (hfile : d = false → entry toFold p false ∉ small) :
    ∃ small', ccStep toFold small p d = (small', none) ∧ Sub small' big ∧
      ∀ e ∈ small', e ∈ small ∨ e = entry toFold p d := by
  unfold ccStep
  cases hf : small.find (toFold p) with
  | none =>
    refine ⟨_, rfl, ?_, ?_⟩
    · intro e he
      rcases List.mem_append.mp he with he | he
      · exact hs e he
      · rw [List.mem_singleton.mp he]; exact hin
    · intro e he
      rcases List.mem_append.mp he with he | he
      · exact Or.inl he
      · exact Or.inr (List.mem_singleton.mp he)
  | some other =>
    obtain ⟨hm, hfold⟩ := find_some hf
    have heq : other = entry toFold p d := hu other (hs other hm) _ hin (by rw [hfold]; rfl)
    have hd : d = true := by
      cases d with
      | true => rfl
      | false => exact absurd (heq ▸ hm) (hfile rfl)
    subst hd
    rw [heq]
    simp [entry]
    exact ⟨hs, fun e he => Or.inl he⟩

theorem ccCheck_any (toFold : Bytes → Bytes) : ∀ (fuel : Nat) (cc : CC) (p : Bytes) (d : Bool), Uniq cc →
    Uniq (ccCheck toFold fuel cc p d).1 ∧ Sub cc (ccCheck toFold fuel cc p d).1 ∧
    ∀ e ∈ (ccCheck toFold fuel cc p d).1, e ∈ cc ∨ e ∈ chainOf toFold fuel p d := by
  intro fuel
  induction fuel with
  | zero => intro cc p d hu; exact ⟨hu, Sub.refl _, fun e he => Or.inl he⟩
  | succ n ih =>
    intro cc p d hu
    obtain ⟨h1, h2, h3⟩ := ccStep_any toFold cc p d hu
    unfold ccCheck chainOf
    rcases hst : ccStep toFold cc p d with ⟨cc1, r1⟩
    rw [hst] at h1 h2 h3
    simp only at h1 h2 h3
    have h3' : ∀ e ∈ cc1, e ∈ cc ∨ e ∈ entry toFold p d :: (if (pathDir p != [46]) = true then chainOf toFold n (pathDir p) true else []) := by
      intro e he
      rcases h3 e he with h | h
      · exact Or.inl h
      · exact Or.inr (by rw [h]; exact List.mem_cons_self)
    cases r1 with
    | some e => exact ⟨h1, h2, h3'⟩
    | none =>
      simp only
      by_cases hd : (pathDir p != [46]) = true
      · rw [if_pos hd, if_pos hd]
        obtain ⟨g1, g2, g3⟩ := ih cc1 (pathDir p) true h1
        refine ⟨g1, Sub.trans h2 g2, ?_⟩
        intro e he
        rcases g3 e he with h | h
        · rcases h3 e h with h | h
          · exact Or.inl h
          · exact Or.inr (by rw [h]; exact List.mem_cons_self)
        · exact Or.inr (List.mem_cons_of_mem _ h)
      · rw [if_neg hd, if_neg hd]
        refine ⟨h1, h2, ?_⟩
        intro e he
        rcases h3 e he with h | h
        · exact Or.inl h
        · exact Or.inr (by rw [h]; exact List.mem_singleton.mpr rfl)

/-- a successful check: the whole chain is registered, the bound sufficed, and a file was new. -/
theorem ccCheck_ok (toFold : Bytes → Bytes) : ∀ (fuel : Nat) (cc cc' : CC) (p : Bytes) (d : Bool), Uniq cc →
    ccCheck toFold fuel cc p d = (cc', none) →
    (∀ e ∈ chainOf toFold fuel p d, e ∈ cc') ∧ fuelOK fuel p ∧ (d = false → ∀ e ∈ cc, e.fold ≠ toFold p) := by
  intro fuel
  induction fuel with
  | zero => intro cc cc' p d _ h; simp [ccCheck] at h
  | succ n ih =>
    intro cc cc' p d hu h
    unfold ccCheck at h
    rcases hst : ccStep toFold cc p d with ⟨cc1, r1⟩
    rw [hst] at h
    cases r1 with
    | some e => simp at h
    | none =>
      simp only at h
      obtain ⟨k1, k2⟩ := ccStep_ok toFold cc cc1 p d hst
      have hu1 : Uniq cc1 := by have := (ccStep_any toFold cc p d hu).1; rw [hst] at this; exact this
      unfold chainOf fuelOK
      by_cases hd : (pathDir p != [46]) = true
      · rw [if_pos hd] at h ⊢
        obtain ⟨g1, g2, _⟩ := ih cc1 cc' (pathDir p) true hu1 h
        have hsub : Sub cc1 cc' := by
          have := (ccCheck_any toFold n cc1 (pathDir p) true hu1).2.1; rw [h] at this; exact this
        refine ⟨?_, fun _ => g2, k2⟩
        intro e he
        rcases List.mem_cons.mp he with he | he
        · rw [he]; exact hsub _ k1
        · exact g1 e he
      · rw [if_neg hd] at h ⊢
        simp only [Prod.mk.injEq, and_true] at h
        subst h
        refine ⟨?_, fun hd' => absurd hd' hd, k2⟩
        intro e he
        rw [List.mem_singleton.mp he]; exact k1

/-- a check whose chain lies in a table with unique keys succeeds against every sub-table of it. -/
theorem ccCheck_sim (toFold : Bytes → Bytes) : ∀ (fuel : Nat) (small big : CC) (p : Bytes) (d : Bool),
    Uniq big → Sub small big → (∀ e ∈ chainOf toFold fuel p d, e ∈ big) → fuelOK fuel p →
    (d = false → entry toFold p false ∉ small) →
    ∃ small', ccCheck toFold fuel small p d = (small', none) ∧ Sub small' big ∧
      ∀ e ∈ small', e ∈ small ∨ e ∈ chainOf toFold fuel p d := by
  intro fuel
  induction fuel with
  | zero => intro small big p d _ _ _ hf; exact absurd hf (by simp [fuelOK])
  | succ n ih =>
    intro small big p d hu hs hch hf hfile
    unfold chainOf at hch
    obtain ⟨s1, e1, e2, e3⟩ := ccStep_sim toFold small big p d hu hs (hch _ List.mem_cons_self) hfile
    unfold ccCheck chainOf
    rw [e1]
    simp only
    by_cases hd : (pathDir p != [46]) = true
    · rw [if_pos hd, if_pos hd]
      rw [if_pos hd] at hch
      obtain ⟨s2, f1, f2, f3⟩ := ih s1 big (pathDir p) true hu e2
        (fun e he => hch e (List.mem_cons_of_mem _ he)) (hf hd) (fun h => by cases h)
      refine ⟨s2, f1, f2, ?_⟩
      intro e he
      rcases f3 e he with h | h
      · rcases e3 e h with h | h
        · exact Or.inl h
        · exact Or.inr (by rw [h]; exact List.mem_cons_self)
      · exact Or.inr (List.mem_cons_of_mem _ h)
    · rw [if_neg hd, if_neg hd]
      refine ⟨s1, rfl, e2, ?_⟩
      intro e he
      rcases e3 e he with h | h
      · exact Or.inl h
      · exact Or.inr (by rw [h]; exact List.mem_singleton.mpr rfl)

end ModVerif.Proofs.ZipA
