/-
  Helper lemmas for Tie/FnParseComments.lean, part F: the six loops of `input.assignComments` — the split of the
  recorded comments (loop 1), and the bodies of the three passes (loops 2/3, 4/5, 6) as instances of `StepSpec`.
-/
import ModVerif.Proofs.TieFnParseCommentsE
set_option linter.unusedSimpArgs false
set_option linter.unusedVariables false
namespace ModVerif.TieFnParseComments
open ModVerif ModVerif.GoRt ModVerif.Generated ModVerif.Generated.Parse ModVerif.Tie.FnParseHeap

/-! ### loop 1: whole-line comments / suffix comments -/

theorem split_loop (rx : List Comment) (in_ : input) (world : Heap) : ∀ (n fuel k : Nat) (suffix line : List Comment),
    k + n = rx.length → n + 1 ≤ fuel →
    input_assignComments_loop1 rx in_ world fuel (k : Int) suffix line =
      .ok (len rx, suffix ++ (rx.drop k).filter (·.Suffix), line ++ (rx.drop k).filter (fun c => !c.Suffix))
  | 0, fuel + 1, k, suffix, line, hk, _ => by
    rw [input_assignComments_loop1]
    have : ¬ ((k : Int) < len rx) := by simp [len_eq]; omega
    have hd : rx.drop k = [] := List.drop_eq_nil_of_le (by omega)
    have hk' : (k : Int) = len rx := by simp [len_eq]; omega
    simp [this, hd, hk']
  | n + 1, fuel + 1, k, suffix, line, hk, hf => by
    rw [input_assignComments_loop1]
    have hlt : (k : Int) < len rx := by simp [len_eq]; omega
    have hkl : k < rx.length := by omega
    have hd : rx.drop k = rx[k] :: rx.drop (k + 1) := (List.getElem_cons_drop hkl).symm
    simp only [hlt, decide_true, if_true, idxL_natCast hkl, bind_ok]
    rw [show ((k : Int) + 1) = ((k + 1 : Nat) : Int) by omega]
    by_cases hs : rx[k].Suffix = true
    · simp only [hs, if_true]
      rw [split_loop rx in_ world n fuel (k + 1) _ _ (by omega) (by omega), hd, List.filter_cons, List.filter_cons]
      simp [hs]
    · simp only [hs, Bool.false_eq_true, if_false]
      rw [split_loop rx in_ world n fuel (k + 1) _ _ (by omega) (by omega), hd, List.filter_cons, List.filter_cons]
      simp [hs]
  | _, 0, _, _, _, _, hf => by omega


/-! ### pass 1 (loops 2 and 3): whole-line comments to the node that follows -/

theorem comsG_before_append (c0 : Modfile.Comments) (t : List Modfile.Comment) :
    comsG { c0 with before := c0.before ++ t } = { comsG c0 with Before := (comsG c0).Before ++ t.map comG } := by
  simp [comsG]

theorem loop3_eq (sp1 : Modfile.Position) (x : Expr) : ∀ (st : List Modfile.Comment) (f : Nat) (h : Heap)
    (c0 : Modfile.Comments), st.length + 1 ≤ f → Expr_getComments x h = .ok (comsG c0) →
    input_assignComments_loop3 (posG sp1) x f h (st.map comG) =
      (Expr_setComments x (comsG (Modfile.assignBefore sp1 c0 st).1) h >>= fun h' =>
        pure (h', (Modfile.assignBefore sp1 c0 st).2.map comG))
  | [], f, h, c0, hf, hg => by
    obtain ⟨f', rfl⟩ : ∃ f', f = f' + 1 := ⟨f - 1, by simp at hf; omega⟩
    rw [input_assignComments_loop3]
    have e1 : comsG (Modfile.assignBefore sp1 c0 []).1 = comsG c0 := by
      simp [Modfile.assignBefore, Modfile.takeLine]
    rw [e1, setComments_self hg]
    simp [Modfile.assignBefore, Modfile.takeLine]
  | c :: rest, f, h, c0, hf, hg => by
    obtain ⟨f', rfl⟩ : ∃ f', f = f' + 1 := ⟨f - 1, by simp at hf; omega⟩
    rw [input_assignComments_loop3]
    have hpos : len (List.map comG (c :: rest)) > 0 := by simp [len_eq] <;> omega
    have hi0 : idxL (List.map comG (c :: rest)) 0 = .ok (comG c) := by
      have := idxL_natCast (v := List.map comG (c :: rest)) (k := 0) (by simp)
      simpa using this
    simp only [hpos, decide_true, if_true, hi0, bind_ok, pure_eq_ok, posG_Byte, comG_Start]
    by_cases hb : sp1.byte ≥ c.start.byte
    · have hb' : ((sp1.byte : Nat) : Int) ≥ ((c.start.byte : Nat) : Int) := by omega
      simp only [hb', decide_true, if_true, hg, bind_ok]
      obtain ⟨h1, hset⟩ := setComments_ok_of_get hg
        ({ comsG c0 with Before := (comsG c0).Before ++ [comG c] })
      rw [hset]
      simp only [bind_ok, List.map_cons, sliceFrom_one_cons]
      have hg1 : Expr_getComments x h1 = .ok (comsG { c0 with before := c0.before ++ [c] }) := by
        rw [getComments_setComments_same hset, comsG_before_append]; rfl
      rw [loop3_eq sp1 x rest f' h1 _ (by simp at hf; omega) hg1, setComments_twice hset]
      have e1 : Modfile.assignBefore sp1 c0 (c :: rest) =
          ({ c0 with before := c0.before ++ c :: (Modfile.takeLine sp1 rest).1 }, (Modfile.takeLine sp1 rest).2) := by
        simp [Modfile.assignBefore, Modfile.takeLine, hb]
      have e2 : Modfile.assignBefore sp1 { c0 with before := c0.before ++ [c] } rest =
          ({ c0 with before := c0.before ++ c :: (Modfile.takeLine sp1 rest).1 }, (Modfile.takeLine sp1 rest).2) := by
        simp [Modfile.assignBefore]
      rw [e1, e2]
      rfl
    · have hb' : ¬ (((sp1.byte : Nat) : Int) ≥ ((c.start.byte : Nat) : Int)) := by omega
      simp only [hb', decide_false, Bool.false_eq_true, if_false]
      have e1 : Modfile.assignBefore sp1 c0 (c :: rest) = ({ c0 with before := c0.before ++ [] }, c :: rest) := by
        simp [Modfile.assignBefore, Modfile.takeLine, hb]
      rw [e1]
      have e2 : comsG { c0 with before := c0.before ++ [] } = comsG c0 := by simp
      rw [e2, setComments_self hg]
      rfl

/-- the body of loop 2 -/
def step1 (f : Nat) (x : Expr) (s : PState) : M PState := do
  let (dr22, world) ← Expr_Span f x s.1
  let (start, _) := dr22
  let xcom := x
  input_assignComments_loop3 start xcom f world s.2

theorem step1_spec (N : Nat) : StepSpec F1 (List.map comG) N (fun _ => True) step1 where
  spec := by
    intro f x h st sp c0 _ hf hst _ hsp hg
    simp only [step1, hsp, bind_ok, spanG]
    exact loop3_eq sp.1 x st f h c0 (by omega) hg

theorem loop2_unfold (rx : List Expr) (in_ : input) (f : Nat) (k : Int) (h : Heap) (line : List Comment) :
    input_assignComments_loop2 rx in_ (f + 1) k h line =
      (if (decide (k < len rx)) then (do
        let x ← idxL rx k
        let (world, line) ← step1 f x (h, line)
        input_assignComments_loop2 rx in_ f (k + 1) world line) else (pure (k, h, line))) := by
  rw [input_assignComments_loop2]
  split
  · simp only [step1, Expr_Span, bind_assoc]
    rfl
  · rfl


theorem loop2_eq (rx : List Expr) (in_ : input) : ∀ (n fuel k : Nat) (h : Heap) (line : List Comment),
    k + n = rx.length → n + 1 ≤ fuel →
    input_assignComments_loop2 rx in_ fuel (k : Int) h line =
      (passF step1 fuel (rx.drop k) (h, line) >>= fun s => pure (len rx, s.1, s.2))
  | 0, fuel + 1, k, h, line, hk, _ => by
    rw [loop2_unfold]
    have : ¬ ((k : Int) < len rx) := by simp [len_eq]; omega
    have hd : rx.drop k = [] := List.drop_eq_nil_of_le (by omega)
    have hk' : (k : Int) = len rx := by simp [len_eq]; omega
    simp [this, hd, hk']
  | n + 1, fuel + 1, k, h, line, hk, hf => by
    rw [loop2_unfold]
    have hlt : (k : Int) < len rx := by simp [len_eq]; omega
    have hkl : k < rx.length := by omega
    have hd : rx.drop k = rx[k] :: rx.drop (k + 1) := (List.getElem_cons_drop hkl).symm
    simp only [hlt, decide_true, if_true, idxL_natCast hkl, bind_ok]
    rw [hd, passF_cons]
    cases hstep : step1 fuel rx[k] (h, line) with
    | error e => rfl
    | ok s1 =>
      simp only [bind_ok]
      rw [show ((k : Int) + 1) = ((k + 1 : Nat) : Int) by omega]
      exact loop2_eq rx in_ n fuel (k + 1) s1.1 s1.2 (by omega) (by omega)
  | _, 0, _, _, _, _, hf => by omega

/-! ### pass 2 (loops 4 and 5): suffix comments to the node that precedes, walking the postorder backwards -/

/-- the suffix list of the generated code is the model's reversed list, reversed -/
def emb2 (st : List Modfile.Comment) : List Comment := (st.map comG).reverse

theorem takeSuffix_acc (e : Modfile.Position) : ∀ (l acc : List Modfile.Comment),
    Modfile.takeSuffix e acc l = ((Modfile.takeSuffix e [] l).1 ++ acc, (Modfile.takeSuffix e [] l).2)
  | [], acc => by simp [Modfile.takeSuffix]
  | c :: rest, acc => by
    unfold Modfile.takeSuffix
    by_cases hc : e.byte ≤ c.start.byte
    · simp only [hc, if_true]
      rw [takeSuffix_acc e rest (c :: acc), takeSuffix_acc e rest [c]]
      simp
    · simp [hc]

theorem comsG_suffix_append (c0 : Modfile.Comments) (t : List Modfile.Comment) :
    comsG { c0 with suffix := c0.suffix ++ t } = { comsG c0 with Suffix := (comsG c0).Suffix ++ t.map comG } := by
  simp [comsG]

theorem loop5_eq (e : Modfile.Position) (x : Expr) : ∀ (st : List Modfile.Comment) (f : Nat) (h : Heap)
    (c0 : Modfile.Comments), st.length + 1 ≤ f → Expr_getComments x h = .ok (comsG c0) →
    input_assignComments_loop5 (posG e) x f h (emb2 st) =
      (Expr_setComments x (comsG { c0 with suffix := c0.suffix ++ (Modfile.takeSuffix e [] st).1.reverse }) h >>=
        fun h' => pure (h', emb2 (Modfile.takeSuffix e [] st).2))
  | [], f, h, c0, hf, hg => by
    obtain ⟨f', rfl⟩ : ∃ f', f = f' + 1 := ⟨f - 1, by simp at hf; omega⟩
    rw [input_assignComments_loop5]
    have e1 : comsG { c0 with suffix := c0.suffix ++ (Modfile.takeSuffix e [] []).1.reverse } = comsG c0 := by
      simp [Modfile.takeSuffix]
    rw [e1, setComments_self hg]
    simp [Modfile.takeSuffix, emb2]
  | c :: rest, f, h, c0, hf, hg => by
    obtain ⟨f', rfl⟩ : ∃ f', f = f' + 1 := ⟨f - 1, by simp at hf; omega⟩
    rw [input_assignComments_loop5]
    have hemb : emb2 (c :: rest) = emb2 rest ++ [comG c] := by simp [emb2]
    have hpos : len (emb2 (c :: rest)) > 0 := by simp [emb2, len_eq] <;> omega
    have hlast : idxL (emb2 (c :: rest)) (len (emb2 (c :: rest)) - 1) = .ok (comG c) := by
      rw [hemb]; exact idxL_append_mid _ _ _ (by simp [len_eq])
    have hslice : sliceTo (emb2 (c :: rest)) (len (emb2 (c :: rest)) - 1) = .ok (emb2 rest) := by
      rw [hemb]
      have : len (emb2 rest ++ [comG c]) - 1 = ((emb2 rest).length : Int) := by simp [len_eq]
      rw [this, sliceTo_natCast (by simp)]
      simp
    simp only [hpos, decide_true, if_true, hlast, bind_ok, pure_eq_ok, posG_Byte, comG_Start]
    by_cases hb : e.byte ≤ c.start.byte
    · have hb' : ((e.byte : Nat) : Int) ≤ ((c.start.byte : Nat) : Int) := by omega
      simp only [hb', decide_true, if_true, hg, bind_ok]
      obtain ⟨h1, hset⟩ := setComments_ok_of_get hg
        ({ comsG c0 with Suffix := (comsG c0).Suffix ++ [comG c] })
      rw [hset]
      simp only [bind_ok, hslice]
      have hg1 : Expr_getComments x h1 = .ok (comsG { c0 with suffix := c0.suffix ++ [c] }) := by
        rw [getComments_setComments_same hset, comsG_suffix_append]; rfl
      rw [loop5_eq e x rest f' h1 _ (by simp at hf; omega) hg1, setComments_twice hset]
      have e1 : Modfile.takeSuffix e [] (c :: rest) =
          ((Modfile.takeSuffix e [] rest).1 ++ [c], (Modfile.takeSuffix e [] rest).2) := by
        rw [Modfile.takeSuffix]; simp only [hb, if_true]; exact takeSuffix_acc e rest [c]
      rw [e1]
      simp
    · have hb' : ¬ (((e.byte : Nat) : Int) ≤ ((c.start.byte : Nat) : Int)) := by omega
      simp only [hb', decide_false, Bool.false_eq_true, if_false]
      have e1 : Modfile.takeSuffix e [] (c :: rest) = ([], c :: rest) := by
        rw [Modfile.takeSuffix]; simp [hb]
      rw [e1]
      have e2 : comsG { c0 with suffix := c0.suffix ++ ([] : List Modfile.Comment).reverse } = comsG c0 := by simp
      rw [e2, setComments_self hg]
      rfl


/-- the body of loop 4 -/
def step2 (f : Nat) (x : Expr) (s : PState) : M PState := do
  let (dr46, world) ← Expr_Span f x s.1
  let (start_1, end_) := dr46
  match x with
  | Expr.FileSyntax _ => pure (world, s.2)
  | _ => (if (!decide (((start_1).Line) = ((end_).Line))) then pure (world, s.2) else
      input_assignComments_loop5 end_ x f world s.2)

theorem step2_spec (N : Nat) : StepSpec F2 emb2 N (fun _ => True) step2 where
  spec := by
    intro f x h st sp c0 hx hf hst _ hsp hg
    have hm : step2 f x (h, emb2 st) =
        (if (!decide (((posG sp.1).Line) = ((posG sp.2).Line))) then pure (h, emb2 st) else
          input_assignComments_loop5 (posG sp.2) x f h (emb2 st)) := by
      cases x <;> simp only [step2, hsp, bind_ok, spanG]
      exact absurd rfl (hx _)
    rw [hm]
    by_cases hl : sp.1.line = sp.2.line
    · have hl' : ((sp.1.line : Nat) : Int) = ((sp.2.line : Nat) : Int) := by omega
      have hF : F2 sp c0 st = ({ c0 with suffix := c0.suffix ++ (Modfile.takeSuffix sp.2 [] st).1.reverse },
          (Modfile.takeSuffix sp.2 [] st).2) := by simp [F2, hl]
      simp only [posG_Line, hl', decide_true, Bool.not_true, Bool.false_eq_true, if_false, hF]
      exact loop5_eq sp.2 x st f h c0 (by omega) hg
    · have hl' : ¬ (((sp.1.line : Nat) : Int) = ((sp.2.line : Nat) : Int)) := by omega
      have hF : F2 sp c0 st = (c0, st) := by simp [F2, hl]
      simp only [posG_Line, hl', decide_false, Bool.not_false, if_true, hF, setComments_self hg]
      rfl

theorem loop4_unfold (in_ : input) (f : Nat) (h : Heap) (suffix : List Comment) (i : Int) :
    input_assignComments_loop4 in_ (f + 1) h suffix i =
      (if (decide (i ≥ (0 : Int))) then (do
        let x ← idxL in_.post i
        let (world, suffix) ← step2 f x (h, suffix)
        input_assignComments_loop4 in_ f world suffix (i - 1)) else (pure (h, suffix, i))) := by
  rw [input_assignComments_loop4]
  split
  · cases hx : idxL in_.post i with
    | error e => rfl
    | ok x =>
      simp only [bind_ok]
      cases x <;> simp only [step2, Expr_Span, bind_assoc] <;>
        (apply bind_congr; intro a; rcases a with ⟨⟨a1, a2⟩, w⟩; simp only [pure_bind] <;> (try split) <;> simp)
  · rfl


theorem loop4_eq (in_ : input) : ∀ (r pfx sfx : List Expr) (fuel : Nat) (h : Heap) (suffix : List Comment),
    pfx.reverse = r → in_.post = pfx ++ sfx → pfx.length + 1 ≤ fuel →
    input_assignComments_loop4 in_ fuel h suffix (len pfx - 1) =
      (passF step2 fuel r (h, suffix) >>= fun s => pure (s.1, s.2, (-1 : Int)))
  | [], pfx, sfx, fuel, h, suffix, hr, hp, hf => by
    have : pfx = [] := by simpa using hr
    subst this
    obtain ⟨f, rfl⟩ : ∃ f, fuel = f + 1 := ⟨fuel - 1, by omega⟩
    rw [loop4_unfold]
    simp
  | x :: r', pfx, sfx, fuel, h, suffix, hr, hp, hf => by
    have hpfx : pfx = r'.reverse ++ [x] := by
      have := congrArg List.reverse hr
      simpa using this
    subst hpfx
    obtain ⟨f, rfl⟩ : ∃ f, fuel = f + 1 := ⟨fuel - 1, by omega⟩
    rw [loop4_unfold]
    have hge : len (r'.reverse ++ [x]) - 1 ≥ 0 := by simp [len_eq]
    have hidx : idxL in_.post (len (r'.reverse ++ [x]) - 1) = .ok x := by
      rw [hp, List.append_assoc]
      exact idxL_append_mid _ _ _ (by simp [len_eq])
    simp only [hge, decide_true, if_true, hidx, bind_ok, passF_cons]
    cases hstep : step2 f x (h, suffix) with
    | error e => rfl
    | ok s1 =>
      simp only [bind_ok]
      have e1 : len (r'.reverse ++ [x]) - 1 - 1 = len r'.reverse - 1 := by simp [len_eq]
      rw [e1]
      exact loop4_eq in_ r' r'.reverse (x :: sfx) f s1.1 s1.2 (by simp) (by rw [hp]; simp)
        (by simp at hf ⊢; omega)

/-! ### pass 3 (loop 6): the suffix comments of every node were appended last-first; reverse them -/

/-- the body of loop 6 -/
def step3 (f : Nat) (x : Expr) (s : PState) : M PState := do
  let t57 ← Expr_getComments x s.1
  let ia58 := (t57.Suffix)
  let t59 ← (reverseComments f ia58)
  let (io60, ia58) := t59
  let t61 ← Expr_getComments x s.1
  let t62 ← Expr_setComments x { (t61) with Suffix := ia58 } s.1
  pure (t62, s.2)

theorem comsG_rev3C (c0 : Modfile.Comments) : comsG (rev3C c0) = { comsG c0 with Suffix := (comsG c0).Suffix.reverse } := by
  simp [comsG, rev3C]

theorem step3_eq {x : Expr} {h : Heap} {c0 : Modfile.Comments} {f : Nat} (s : List Comment)
    (hg : Expr_getComments x h = .ok (comsG c0)) (hf : c0.suffix.length + 1 ≤ f) :
    step3 f x (h, s) = (Expr_setComments x (comsG (rev3C c0)) h >>= fun h' => pure (h', s)) := by
  simp only [step3, hg, bind_ok, comsG_rev3C]
  rw [reverseComments_eq f _ (by simpa using hf)]
  rfl

theorem step3_spec (N : Nat) : StepSpec F3 (fun _ => []) N (fun c => c.suffix.length ≤ N) step3 where
  spec := by
    intro f x h st sp c0 _ hf hst hP hsp hg
    exact step3_eq [] hg (by omega)

theorem loop6_unfold (rx : List Expr) (in_ : input) (f : Nat) (k : Int) (h : Heap) :
    input_assignComments_loop6 rx in_ (f + 1) k h =
      (if (decide (k < len rx)) then (do
        let x ← idxL rx k
        let (world, _) ← step3 f x (h, [])
        input_assignComments_loop6 rx in_ f (k + 1) world) else (pure (k, h))) := by
  rw [input_assignComments_loop6]
  split
  · simp only [step3, bind_assoc]
    rfl
  · rfl

theorem loop6_eq (rx : List Expr) (in_ : input) : ∀ (n fuel k : Nat) (h : Heap),
    k + n = rx.length → n + 1 ≤ fuel →
    input_assignComments_loop6 rx in_ fuel (k : Int) h =
      (passF step3 fuel (rx.drop k) (h, []) >>= fun s => pure (len rx, s.1))
  | 0, fuel + 1, k, h, hk, _ => by
    rw [loop6_unfold]
    have : ¬ ((k : Int) < len rx) := by simp [len_eq]; omega
    have hd : rx.drop k = [] := List.drop_eq_nil_of_le (by omega)
    have hk' : (k : Int) = len rx := by simp [len_eq]; omega
    simp [this, hd, hk']
  | n + 1, fuel + 1, k, h, hk, hf => by
    rw [loop6_unfold]
    have hlt : (k : Int) < len rx := by simp [len_eq]; omega
    have hkl : k < rx.length := by omega
    have hd : rx.drop k = rx[k] :: rx.drop (k + 1) := (List.getElem_cons_drop hkl).symm
    simp only [hlt, decide_true, if_true, idxL_natCast hkl, bind_ok]
    rw [hd, passF_cons]
    cases hstep : step3 fuel rx[k] (h, []) with
    | error e => rfl
    | ok s1 =>
      simp only [bind_ok]
      rw [show ((k : Int) + 1) = ((k + 1 : Nat) : Int) by omega]
      have hs1 : s1.2 = [] := by
        simp only [step3] at hstep
        cases h1 : Expr_getComments rx[k] h with
        | error e => rw [h1] at hstep; cases hstep
        | ok c =>
          rw [h1] at hstep
          simp only [bind_ok] at hstep
          cases h2 : reverseComments fuel c.Suffix with
          | error e => rw [h2] at hstep; cases hstep
          | ok r =>
            rw [h2] at hstep
            simp only [bind_ok] at hstep
            cases h3 : Expr_setComments rx[k] { c with Suffix := r.2 } h with
            | error e => rw [h3] at hstep; cases hstep
            | ok w => rw [h3] at hstep; cases hstep; rfl
      have := loop6_eq rx in_ n fuel (k + 1) s1.1 (by omega) (by omega)
      rw [this]
      have : s1 = (s1.1, []) := by rw [← hs1]
      rw [← this]
  | _, 0, _, _, _, hf => by omega

end ModVerif.TieFnParseComments
