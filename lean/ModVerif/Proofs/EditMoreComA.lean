/-
  EditMore, part 22 — for C16 `comments_survive`: the line surgery of the bulk setters on one kept requirement, WITH its
  comments (`viewX_setReq`: `Before` comments kept except the blank-line placeholder dropped by `setVersion`, `Suffix`
  rewritten by `setIndirect` only; `viewX_moveExisting`: a moved line keeps all its comments).
-/
import ModVerif.Proofs.EditMoreKeepF
set_option linter.unusedSimpArgs false
namespace ModVerif.Modfile.Edit
open ModVerif ModVerif.Modfile

/-- the whole-line comments are kept, except blank-line placeholders -/
def BeforeKept (b b' : List Comment) : Prop := (b.filter fun c => !c.token.isEmpty).Sublist b'

theorem BeforeKept.refl (b : List Comment) : BeforeKept b b := List.filter_sublist

theorem BeforeKept.trans_sub {a b c : List Comment} (h1 : BeforeKept a b) (h2 : b.Sublist c) : BeforeKept a c := h1.trans h2

theorem dropBlank_before (l : Line) : BeforeKept l.comments.before (dropBlank l).comments.before := by
  unfold dropBlank
  split
  · rename_i c hc
    split
    · rename_i hce
      unfold BeforeKept
      rw [hc]
      simp [hce]
    · exact BeforeKept.refl _
  · exact BeforeKept.refl _

/-- `setVersion` drops at most the single blank-line placeholder (golang.org/issue/33779) -/
theorem setVersionLine_before (v' : Bytes) (l : Line) : BeforeKept l.comments.before (setVersionLine v' l).comments.before := by
  rw [setVersionLine_eq]
  split
  · exact BeforeKept.refl _
  · split
    · split
      · exact dropBlank_before l
      · exact dropBlank_before l
    · split <;> exact BeforeKept.refl _

theorem setIndirectLine_before (b : Bool) (l : Line) : (setIndirectLine b l).comments.before = l.comments.before := by
  unfold setIndirectLine
  split
  · rfl
  · split
    · split <;> rfl
    · split
      · rfl
      · dsimp only
        split <;> rfl

/-- exact version of `Keeps`: lines with other ids are literally unchanged -/
def KeepsEq (S : List Nat) (a b : List Expr) : Prop := ∀ x ∈ viewX a, x.id ∉ S → x ∈ viewX b

theorem KeepsEq.refl (S : List Nat) (a : List Expr) : KeepsEq S a a := fun _ hx _ => hx

theorem KeepsEq.trans {S1 S2 : List Nat} {a b c : List Expr} (h1 : KeepsEq S1 a b) (h2 : KeepsEq S2 b c) : KeepsEq (S1 ++ S2) a c := by
  intro x hx hs
  simp only [List.mem_append, not_or] at hs
  exact h2 x (h1 x hx hs.1) hs.2

theorem KeepsEq.mono {S S' : List Nat} {a b : List Expr} (h : KeepsEq S a b) (hs : ∀ i ∈ S, i ∈ S') : KeepsEq S' a b :=
  fun x hx hn => h x hx (fun hi => hn (hs _ hi))

theorem keepsEq_updateLine (fs : FileSyntax) (id : Nat) (g : Line → Line) (hnd : (treeIds fs.stmts).Nodup) :
    KeepsEq [id] fs.stmts (fs.updateLine id g).stmts := by
  intro x hx hs
  simp only [List.mem_singleton] at hs
  rcases mem_viewX.1 hx with ⟨p, hp, hl, rfl⟩
  refine mem_viewX.2 ⟨p, ?_, hl, rfl⟩
  rw [loc_updateLine fs id g hnd]
  refine List.mem_map.2 ⟨p, hp, ?_⟩
  have : (p.2.id == id) = false := by
    cases hb : p.2.id == id with
    | false => rfl
    | true => exact absurd (eq_of_beq hb) hs
  simp [this]

theorem keepsEq_appendToBlock (stmts : List Expr) (idx : Nat) (l : Line) : KeepsEq [] stmts (appendToBlock stmts idx l) := by
  unfold appendToBlock
  cases hx : stmts[idx]? with
  | none => exact KeepsEq.refl _ _
  | some x =>
    cases x with
    | lineBlock b =>
      simp only
      rw [set_split _ hx]
      intro v hv _
      rw [(split_at hx).1, viewX_append, viewX_cons] at hv
      rw [viewX_append, viewX_cons]
      rcases List.mem_append.1 hv with h | h
      · exact List.mem_append_left _ h
      · rcases List.mem_append.1 h with h | h
        · refine List.mem_append_right _ (List.mem_append_left _ ?_)
          rw [viewX_block] at h ⊢
          rcases List.mem_map.1 h with ⟨l', hl', rfl⟩
          rcases List.mem_filter.1 hl' with ⟨h1, h2⟩
          exact List.mem_map.2 ⟨l', List.mem_filter.2 ⟨List.mem_append_left _ h1, h2⟩, rfl⟩
        · exact List.mem_append_right _ (List.mem_append_right _ h)
    | line _ => exact KeepsEq.refl _ _
    | commentBlock _ => exact KeepsEq.refl _ _
    | lparen _ => exact KeepsEq.refl _ _
    | rparen _ => exact KeepsEq.refl _ _

/-- the appended line is in the block -/
theorem viewX_appendToBlock_new (stmts : List Expr) (idx : Nat) (l : Line) (hb : BlockAt stmts idx) (hl : l.token ≠ []) :
    (⟨l.id, B "require" :: l.token, l.comments.before, l.comments.suffix⟩ : XLine) ∈ viewX (appendToBlock stmts idx l) := by
  rcases hb with ⟨b, hb, ht⟩
  unfold appendToBlock
  simp only [hb]
  rw [set_split _ hb, viewX_append, viewX_cons]
  refine List.mem_append_right _ (List.mem_append_left _ ?_)
  rw [viewX_block]
  refine List.mem_map.2 ⟨l, List.mem_filter.2 ⟨List.mem_append_right _ (List.mem_singleton.2 rfl), ?_⟩, by simp [ht]⟩
  cases hlt : l.token with
  | nil => exact absurd hlt hl
  | cons _ _ => rfl

/-- the line surgery of the bulk setters on one kept requirement, with comments: new version token; `Before` comments
    kept except a blank-line placeholder; `Suffix` comments rewritten by `setIndirect` only -/
theorem viewX_setReq (fs : FileSyntax) (next i : Nat) (v' : Bytes) (b : Bool) (hw : TreeWF fs.stmts next)
    (x0 : XLine) (hx0 : x0 ∈ viewX fs.stmts) (hid0 : x0.id = i) (a ver : Bytes) (htoks : x0.toks = [B "require", a, ver]) :
    ∃ x1 ∈ viewX (fs.updateLine i fun l => setIndirectLine b (setVersionLine v' l)).stmts,
      x1.id = i ∧ x1.toks = [B "require", a, v'] ∧ BeforeKept x0.before x1.before ∧ x1.suffix = sfxAfter b x0.suffix := by
  rcases mem_viewX.1 hx0 with ⟨p0, hp0, hlive0, rfl⟩
  simp only [mkX] at hid0 htoks
  have hshape := hw.locShape p0 hp0
  have htok' := setVersionLine_token v' p0.1 p0.2 a ver hshape htoks
  rcases setIndirectLine_props b (setVersionLine v' p0.2) with ⟨e1, e2, _, e4⟩
  rcases setVersionLine_props v' p0.2 with ⟨f1, _, f3⟩
  refine ⟨mkX (p0.1, setIndirectLine b (setVersionLine v' p0.2)), ?_, ?_, ?_, ?_, ?_⟩
  · refine mem_viewX.2 ⟨_, ?_, ?_, rfl⟩
    · rw [loc_updateLine fs i _ hw.nodup]
      refine List.mem_map.2 ⟨p0, hp0, ?_⟩
      have : (p0.2.id == i) = true := by rw [hid0]; exact beq_self_eq_true _
      simp [this]
    · simp only [liveLoc, e2]
      cases hl : (setVersionLine v' p0.2).token with
      | nil =>
        rw [hl] at htok'
        rcases hshape with ⟨h1, _⟩ | ⟨w, h1, _⟩ <;> rw [h1] at htok' <;> simp at htok'
      | cons _ _ => rfl
  · simp only [mkX, e1, f1, hid0]
  · simp only [mkX, e2, htok']
  · simp only [mkX, setIndirectLine_before]
    exact setVersionLine_before v' p0.2
  · simp only [mkX, e4, f3]

/-- **moveExisting**, with comments: the moved line keeps its tokens and all its comments under the fresh id -/
theorem viewX_moveExisting (syn : FileSyntax) (next i idx : Nat) (hw : TreeWF syn.stmts next)
    (x0 : XLine) (hx0 : x0 ∈ viewX syn.stmts) (hid0 : x0.id = i) (a ver : Bytes) (htoks : x0.toks = [B "require", a, ver])
    (hb : BlockAt syn.stmts idx) :
    (⟨next, x0.toks, x0.before, x0.suffix⟩ : XLine) ∈ viewX (moveExisting syn i idx next).stmts := by
  rcases mem_viewX.1 hx0 with ⟨p0, hp0, hlive0, rfl⟩
  simp only [mkX] at hid0 htoks
  have hfind := findLine_of_loc syn hw.nodup p0 hp0
  rw [hid0] at hfind
  have htok : (if (!p0.2.inBlock && !p0.2.token.isEmpty && headIs p0.2.token (B "require")) = true then p0.2.token.drop 1 else p0.2.token)
      = [a, ver] := by
    rcases hw.locShape p0 hp0 with ⟨h1, h2⟩ | ⟨w, h1, h2⟩
    · rw [h1] at htoks
      simp only [List.nil_append] at htoks
      simp [h2, htoks, headIs]
    · rw [h1] at htoks
      simp only [List.singleton_append, List.cons.injEq] at htoks
      simp [h2, htoks.2]
  unfold moveExisting
  simp only [hfind]
  rw [htok]
  have := viewX_appendToBlock_new (syn.updateLine i fun l => { l with token := [] }).stmts idx
    { p0.2 with id := next, token := [a, ver], inBlock := true } (hb.updateLine hw.nodup _ _) (by simp)
  simpa [mkX, htoks] using this

end ModVerif.Modfile.Edit
