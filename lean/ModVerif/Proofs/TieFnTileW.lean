/-
  Helpers for Tie/FnTileW.lean, part 1: the loops of the WORLD-MODE regeneration of `tileHashReader.ReadHashes`
  (Generated/FnTileW.lean) are the loops of the pure regeneration (Generated/FnTile.lean) — the world is only carried
  into the early-return values, where the pure version carries its effect log.  Any world type, no hypothesis.
-/
import ModVerif.Generated.FnTileW
import ModVerif.Proofs.GoRtLemmasList
namespace ModVerif.TieFnTileW
open ModVerif ModVerif.GoRt ModVerif.GoRtList
open ModVerif.Generated.Tile (Tile Tree TileReader)

abbrev Log := List (List Tile × List Bytes)

/-- an early return of the pure loop (value, effect log) as an early return of the world-mode loop (value, world) -/
def reW {A E W S : Type} (w : W) : Ctl (A × E) S → Ctl (A × W) S
  | .ret (a, _) => .ret (a, w)
  | .next s => .next s

def mapRet {A E W S : Type} (w : W) (x : M (Ctl (A × E) S)) : M (Ctl (A × W) S) :=
  match x with
  | .ok c => .ok (reW w c)
  | .error e => .error e

@[simp] theorem mapRet_error {A E W S : Type} (w : W) (e : Err) :
    mapRet (A := A) (E := E) (S := S) w (.error e) = .error e := rfl
@[simp] theorem mapRet_ok_ret {A E W S : Type} (w : W) (a : A) (l : E) :
    mapRet (S := S) w (.ok (.ret (a, l))) = .ok (.ret (a, w)) := rfl
@[simp] theorem mapRet_ok_next {A E W S : Type} (w : W) (s : S) :
    mapRet (A := A) (E := E) w (.ok (.next s)) = .ok (.next s) := rfl

theorem mapRet_bind {A E W S β : Type} (w : W) (x : M β) (f : β → M (Ctl (A × E) S)) :
    mapRet w (x >>= f) = x >>= fun b => mapRet w (f b) := by
  cases x <;> rfl

theorem bind_mapRet {A E W S β : Type} (w : W) (x : M (Ctl (A × E) S)) (g : Ctl (A × W) S → M β) :
    (mapRet w x >>= g) = x >>= fun c => g (reW w c) := by
  cases x <;> rfl

theorem mapRet_ite {A E W S : Type} (w : W) (c : Prop) [Decidable c] (a b : M (Ctl (A × E) S)) :
    mapRet w (if c then a else b) = if c then mapRet w a else mapRet w b := by
  split <;> rfl

section
variable {H : Type} [DecidableEq H] [Inhabited H] {W : Type}
  (height : W → M (Int × W)) (node : H → H → H) (ofBytes : Bytes → H)
  (readTiles : List Tile → W → M ((List Bytes × Option String) × W))
  (saveTiles : List Tile → List Bytes → W → M (Unit × W))

theorem loop5_eq (tiles : List Tile) (data : List Bytes) (w : W) (eff : Log) : ∀ (fuel : Nat) (i : Int),
    Generated.TileW.tileHashReader_ReadHashes_loop5 height node ofBytes readTiles saveTiles tiles data w fuel i =
      mapRet w (Generated.Tile.tileHashReader_ReadHashes_loop5 node ofBytes tiles data eff fuel i) := by
  intro fuel
  induction fuel with
  | zero => intro i; rfl
  | succ f ih =>
    intro i
    simp only [Generated.TileW.tileHashReader_ReadHashes_loop5, Generated.Tile.tileHashReader_ReadHashes_loop5, ih,
      mapRet_ite, mapRet_bind, pure_eq_ok, mapRet_ok_ret, mapRet_ok_next]
theorem loop1_eq (r : Generated.TileW.tileHashReader H) (rp : Generated.Tile.tileHashReader H) (hr : r.tree = rp.tree)
    (h : Int) (stx : List Int) (w : W) (eff : Log) : ∀ (fuel : Nat) (i : Int) (a : List Int) (b : List (Tile × Int)) (c : List Tile),
    Generated.TileW.tileHashReader_ReadHashes_loop1 height node ofBytes readTiles saveTiles r h stx w fuel i a b c =
      Generated.Tile.tileHashReader_ReadHashes_loop1 node ofBytes rp h stx eff fuel i a b c := by
  intro fuel
  induction fuel with
  | zero => intros; rfl
  | succ f ih =>
    intro i a b c
    simp only [Generated.TileW.tileHashReader_ReadHashes_loop1, Generated.Tile.tileHashReader_ReadHashes_loop1, ih, hr]

theorem loop3_eq (r : Generated.TileW.tileHashReader H) (rp : Generated.Tile.tileHashReader H) (hr : r.tree = rp.tree)
    (order : List (Tile × Int)) (i1 : Int) (tile1 : Tile) (w : W) (eff : Log) : ∀ (fuel : Nat) (a : List Int) (k : Int),
    Generated.TileW.tileHashReader_ReadHashes_loop3 height node ofBytes readTiles saveTiles r order i1 tile1 w fuel a k =
      Generated.Tile.tileHashReader_ReadHashes_loop3 node ofBytes rp order i1 tile1 eff fuel a k := by
  intro fuel
  induction fuel with
  | zero => intros; rfl
  | succ f ih =>
    intro a k
    simp only [Generated.TileW.tileHashReader_ReadHashes_loop3, Generated.Tile.tileHashReader_ReadHashes_loop3, ih, hr]

theorem loop4_eq (r : Generated.TileW.tileHashReader H) (rp : Generated.Tile.tileHashReader H) (hr : r.tree = rp.tree)
    (i1 x1 : Int) (tile1 : Tile) (w : W) (eff : Log) :
    ∀ (fuel : Nat) (b : List (Tile × Int)) (a : List Int) (c : List Tile) (k : Int),
    Generated.TileW.tileHashReader_ReadHashes_loop4 height node ofBytes readTiles saveTiles r i1 x1 tile1 w fuel b a c k =
      mapRet w (Generated.Tile.tileHashReader_ReadHashes_loop4 node ofBytes rp i1 x1 tile1 eff fuel b a c k) := by
  intro fuel
  induction fuel with
  | zero => intros; rfl
  | succ f ih =>
    intro b a c k
    simp only [Generated.TileW.tileHashReader_ReadHashes_loop4, Generated.Tile.tileHashReader_ReadHashes_loop4, ih, hr,
      mapRet_ite, mapRet_bind, pure_eq_ok, mapRet_ok_ret, mapRet_ok_next]
theorem loop2_eq (r : Generated.TileW.tileHashReader H) (rp : Generated.Tile.tileHashReader H) (hr : r.tree = rp.tree)
    (indexes : List Int) (h : Int) (w : W) (eff : Log) :
    ∀ (fuel : Nat) (i : Int) (a : List Int) (b : List (Tile × Int)) (c : List Tile),
    Generated.TileW.tileHashReader_ReadHashes_loop2 height node ofBytes readTiles saveTiles r indexes h w fuel i a b c =
      mapRet w (Generated.Tile.tileHashReader_ReadHashes_loop2 node ofBytes rp indexes h eff fuel i a b c) := by
  intro fuel
  induction fuel with
  | zero => intros; rfl
  | succ f ih =>
    intro i a b c
    simp only [Generated.TileW.tileHashReader_ReadHashes_loop2, Generated.Tile.tileHashReader_ReadHashes_loop2, ih, hr,
      loop3_eq height node ofBytes readTiles saveTiles r rp hr _ _ _ w eff,
      loop4_eq height node ofBytes readTiles saveTiles r rp hr _ _ _ w eff,
      mapRet_ite, mapRet_bind, pure_eq_ok, mapRet_ok_ret, mapRet_ok_next]
    split
    · congr 1; funext x1
      congr 1; funext t12
      split
      · rfl
      · congr 1; funext t13
        congr 1; funext x4
        congr 1; funext t16
        rw [bind_mapRet]
        congr 1; funext c
        cases c with
        | ret rv => obtain ⟨v, e⟩ := rv; rfl
        | next s => obtain ⟨s1, s2, s3, s4⟩ := s; rfl
    · rfl
theorem loop6_eq (tiles : List Tile) (stx sto : List Int) (data : List Bytes) (w : W) (eff : Log) :
    ∀ (fuel : Nat) (th : H) (i : Int),
    Generated.TileW.tileHashReader_ReadHashes_loop6 height node ofBytes readTiles saveTiles tiles stx sto data w fuel th i =
      mapRet w (Generated.Tile.tileHashReader_ReadHashes_loop6 node ofBytes tiles stx sto data eff fuel th i) := by
  intro fuel
  induction fuel with
  | zero => intros; rfl
  | succ f ih =>
    intro th i
    simp only [Generated.TileW.tileHashReader_ReadHashes_loop6, Generated.Tile.tileHashReader_ReadHashes_loop6, ih,
      mapRet_ite, mapRet_bind, pure_eq_ok, mapRet_ok_ret, mapRet_ok_next]

theorem loop7_eq (r : Generated.TileW.tileHashReader H) (rp : Generated.Tile.tileHashReader H) (hr : r.tree = rp.tree)
    (indexes : List Int) (order : List (Tile × Int)) (tiles : List Tile) (data : List Bytes) (w : W) (eff : Log) :
    ∀ (fuel : Nat) (i : Int),
    Generated.TileW.tileHashReader_ReadHashes_loop7 height node ofBytes readTiles saveTiles r indexes order tiles data w fuel i =
      mapRet w (Generated.Tile.tileHashReader_ReadHashes_loop7 node ofBytes rp indexes order tiles data eff fuel i) := by
  intro fuel
  induction fuel with
  | zero => intros; rfl
  | succ f ih =>
    intro i
    simp only [Generated.TileW.tileHashReader_ReadHashes_loop7, Generated.Tile.tileHashReader_ReadHashes_loop7, ih, hr,
      mapRet_ite, mapRet_bind, pure_eq_ok, mapRet_ok_ret, mapRet_ok_next]

theorem loop8_eq (r : Generated.TileW.tileHashReader H) (rp : Generated.Tile.tileHashReader H)
    (indexes : List Int) (tiles : List Tile) (ito : List Int) (data : List Bytes) (w : W) (eff : Log) :
    ∀ (fuel : Nat) (i : Int) (hs : List H),
    Generated.TileW.tileHashReader_ReadHashes_loop8 height node ofBytes readTiles saveTiles r indexes tiles ito data w fuel i hs =
      mapRet w (Generated.Tile.tileHashReader_ReadHashes_loop8 node ofBytes rp indexes tiles ito data eff fuel i hs) := by
  intro fuel
  induction fuel with
  | zero => intros; rfl
  | succ f ih =>
    intro i hs
    simp only [Generated.TileW.tileHashReader_ReadHashes_loop8, Generated.Tile.tileHashReader_ReadHashes_loop8, ih,
      mapRet_ite, mapRet_bind, pure_eq_ok, mapRet_ok_ret, mapRet_ok_next]
end
end ModVerif.TieFnTileW
