/-
  Helper lemmas for Tie/FnLex.lean, part B: the hoisted loops of `input.readToken` against the model's loop functions.

    loop2 (`for len(in.remaining) > 0 && in.readRune() != '\n' {}`)   = consumeLine
    loop3 (the body of a quoted string)                               = readString
    loop4 (`for isIdent(in.peekRune()) { … }`)                        = readIdent
    loop1 (space skipping, `//` comment recognition, `/*` rejection)  = skipSpaces, then readComment / blockComment

  Every lemma is for an arbitrary model state `i` with `WF i`, for all fuel of the generated loop and of the model loop
  above `len(remaining)` plus a small constant; a model error corresponds to `Err.panic` (`in.Error` panics).
-/
import ModVerif.Proofs.TieFnLexA
set_option linter.unusedSimpArgs false
set_option linter.unusedVariables false
namespace ModVerif.TieFnLex
open ModVerif ModVerif.GoRt ModVerif.GoRtStr ModVerif.GoRtModfile ModVerif.GoRtLex ModVerif.Modfile
open ModVerif.Proofs.ModfileLex (eof_false_iff)
open ModVerif.Drv.LexOps.G (isPrintI isSpaceI)
open ModVerif.Drv.LexOps.M (kindCode)

@[simp] theorem embK_remaining (k : Int) (i : Input) : (embK k i).remaining = i.remaining := rfl

theorem eof_true_iff (i : Input) : i.eof = true ↔ i.remaining = [] := by
  unfold Input.eof; cases i.remaining <;> simp

theorem natCast_eq_natCast (a b : Nat) : decide ((a : Int) = (b : Int)) = (a == b) := by
  rw [Bool.eq_iff_iff]; simp only [decide_eq_true_eq, beq_iff_eq]; omega

theorem ebind_ok {ε α β : Type} (a : α) (f : α → Except ε β) : (Except.ok a >>= f) = f a := rfl
theorem ebind_error {ε α β : Type} (e : ε) (f : α → Except ε β) : ((Except.error e : Except ε α) >>= f) = .error e := rfl

/-! ### loop2 = consumeLine -/

theorem loop2_eq (k : Int) : ∀ (mf fuel : Nat) (i : Input), WF i → i.remaining.length < mf → i.remaining.length < fuel →
    ∃ i', consumeLine mf i = .ok i' ∧
      Generated.Lex.input_readToken_loop2 isPrintI isSpaceI fuel (embK k i) = .ok (embK k i') ∧
      WF i' ∧ i'.remaining.length ≤ i.remaining.length ∧ i'.token = i.token := by
  intro mf
  induction mf with
  | zero => intro fuel i _ h; omega
  | succ m ih =>
    intro fuel i hw hm hf
    cases fuel with
    | zero => omega
    | succ f =>
      unfold consumeLine Generated.Lex.input_readToken_loop2
      by_cases he : i.remaining = []
      · have h1 : i.eof = true := (eof_true_iff i).2 he
        refine ⟨i, by simp [h1], ?_, hw, Nat.le_refl _, rfl⟩
        simp [he, len_eq]
      · have h1 : i.eof = false := (eof_false_iff i).2 he
        obtain ⟨r, i1, hM, hG, hw1, hlt, htok, _⟩ := readRune_eq k i he hw
        have hpos : decide (len (embK k i).remaining > 0) = true := by
          have : 0 < i.remaining.length := List.length_pos_iff.2 he
          simp [len_eq]; omega
        simp only [h1, Bool.false_eq_true, if_false, hM, hpos, if_true, hG, bind_ok, pure_eq_ok,
          show (10 : Int) = ((10 : Nat) : Int) from rfl, natCast_eq_natCast]
        cases h10 : (r == 10)
        · obtain ⟨i2, h2, hG2, hw2, hle, htok2⟩ := ih f i1 hw1 (by omega) (by omega)
          have hr : r ≠ 10 := by simpa using h10
          refine ⟨i2, ?_, ?_, hw2, by omega, by rw [htok2, htok]⟩
          · simpa [bind, Except.bind, hr] using h2
          · simpa using hG2
        · have hr : r = 10 := by simpa using h10
          exact ⟨i1, by simp [bind, Except.bind, hr], by simp, hw1, by omega, htok⟩

/-! ### image of a model result on the generated side: `in.Error` panics -/

def simI (k : Int) : Except SynErr Input → M Generated.Lex.input
  | .ok i => .ok (embK k i)
  | .error _ => .error .panic

@[simp] theorem simI_ok (k : Int) (i : Input) : simI k (.ok i) = .ok (embK k i) := rfl
@[simp] theorem simI_error (k : Int) (e : SynErr) : simI k (.error e) = .error .panic := rfl

/-! ### loop3 = readString -/

theorem loop3_eq (k : Int) (q : Nat) : ∀ (mf fuel : Nat) (i : Input), WF i → i.remaining.length < mf →
    i.remaining.length < fuel →
    Generated.Lex.input_readToken_loop3 isPrintI isSpaceI (q : Int) fuel (embK k i) = simI k (readString q mf i) ∧
      ∀ i', readString q mf i = .ok i' → WF i' ∧ i'.token = i.token := by
  intro mf
  induction mf with
  | zero => intro fuel i _ h; omega
  | succ m ih =>
    intro fuel i hw hm hf
    cases fuel with
    | zero => omega
    | succ f =>
      unfold readString Generated.Lex.input_readToken_loop3
      simp only [eof_eq, peekRune_eq, show (10 : Int) = ((10 : Nat) : Int) from rfl,
        show (92 : Int) = ((92 : Nat) : Int) from rfl, show (96 : Int) = ((96 : Nat) : Int) from rfl, natCast_eq_natCast]
      by_cases he : i.remaining = []
      · have h1 : i.eof = true := (eof_true_iff i).2 he
        simp [h1]
      · have h1 : i.eof = false := (eof_false_iff i).2 he
        simp only [h1, Bool.false_eq_true, if_false]
        cases hnl : (i.peekRune == 10)
        · obtain ⟨r, i1, hM, hG, hw1, hlt, htok, _⟩ := readRune_eq k i he hw
          simp only [Bool.false_eq_true, if_false, hM, hG, ebind_ok, bne, show (92 : Int) = ((92 : Nat) : Int) from rfl,
            natCast_eq_natCast]
          cases hq : (r == q)
          · simp only [Bool.false_eq_true, if_false]
            cases hb : (r == 92 && !(q == 96))
            · simp only [Bool.false_eq_true, if_false]
              obtain ⟨hG2, hP2⟩ := ih f i1 hw1 (by omega) (by omega)
              refine ⟨hG2, ?_⟩
              intro i' h'
              obtain ⟨a, b⟩ := hP2 i' h'
              exact ⟨a, by rw [b, htok]⟩
            · simp only [if_true, eof_eq]
              by_cases he1 : i1.remaining = []
              · have h2 : i1.eof = true := (eof_true_iff i1).2 he1
                simp [h2]
              · have h2 : i1.eof = false := (eof_false_iff i1).2 he1
                obtain ⟨r2, i2, hM2, hG2, hw2, hlt2, htok2, _⟩ := readRune_eq k i1 he1 hw1
                simp only [h2, Bool.false_eq_true, if_false, hM2, hG2, ebind_ok]
                obtain ⟨hG3, hP3⟩ := ih f i2 hw2 (by omega) (by omega)
                refine ⟨hG3, ?_⟩
                intro i' h'
                obtain ⟨a, b⟩ := hP3 i' h'
                exact ⟨a, by rw [b, htok2, htok]⟩
          · simp only [if_true, pure_eq_ok, simI_ok, true_and]
            intro i' h'
            cases h'
            exact ⟨hw1, htok⟩
        · simp

/-! ### loop4 = readIdent -/

theorem isIdent_peekRune (k : Int) (i : Input) :
    Generated.Lex.isIdent isPrintI isSpaceI (Generated.Lex.input_peekRune (embK k i)) = isIdent i.peekRune := by
  rw [peekRune_eq]
  exact isIdent_eq _ (by have := peekRune_le i; omega)

theorem isIdent_ne_nil {i : Input} (h : isIdent i.peekRune = true) : i.remaining ≠ [] := by
  intro he
  rw [Proofs.ModfileLex.peekRune_nil he, Proofs.ModfileLex.isIdent_zero] at h
  cases h

theorem loop4_eq (k : Int) : ∀ (mf fuel : Nat) (i : Input), WF i → i.remaining.length < mf →
    i.remaining.length + 3 ≤ fuel →
    Generated.Lex.input_readToken_loop4 isPrintI isSpaceI fuel (embK k i) = simI k (readIdent mf i) ∧
      ∀ i', readIdent mf i = .ok i' → WF i' ∧ i'.token = i.token := by
  intro mf
  induction mf with
  | zero => intro fuel i _ h; omega
  | succ m ih =>
    intro fuel i hw hm hf
    cases fuel with
    | zero => omega
    | succ f =>
      unfold readIdent Generated.Lex.input_readToken_loop4
      simp only [isIdent_peekRune]
      cases hid : isIdent i.peekRune
      · simp only [Bool.false_eq_true, if_false, pure_eq_ok, simI_ok, true_and]
        intro i' h'; cases h'; exact ⟨hw, rfl⟩
      · have he := isIdent_ne_nil hid
        have hpos : 0 < i.remaining.length := List.length_pos_iff.2 he
        have hp1 := peekPrefix_eq k i [47, 47] f (by show 2 + 1 ≤ f; omega)
        have hp2 := peekPrefix_eq k i [47, 42] f (by show 2 + 1 ≤ f; omega)
        simp only [if_true, hp1, hp2, bind_ok]
        cases hs : i.peekPrefix [47, 47]
        · simp only [Bool.false_eq_true, if_false]
          cases hb : i.peekPrefix [47, 42]
          · obtain ⟨r, i1, hM, hG, hw1, hlt, htok, _⟩ := readRune_eq k i he hw
            simp only [Bool.false_eq_true, if_false, hM, hG, ebind_ok]
            obtain ⟨hG2, hP2⟩ := ih f i1 hw1 (by omega) (by omega)
            refine ⟨hG2, ?_⟩
            intro i' h'
            obtain ⟨a, b⟩ := hP2 i' h'
            exact ⟨a, by rw [b, htok]⟩
          · simp
        · simp only [if_true, pure_eq_ok, simI_ok, true_and]
          intro i' h'; cases h'; exact ⟨hw, rfl⟩

/-! ### the `//` branch of loop 1 = readComment -/

/-- result of loop 1 on the model side: `ret j` = a comment token was read (readToken returns), `next j` = spaces skipped -/
def simC (k : Int) (ts : Bytes) :
    Except SynErr (Ctl Input Input) → M (Ctl (Unit × Generated.Lex.input) Generated.Lex.input)
  | .ok (.ret j) => .ok (.ret ((), emb j))
  | .ok (.next j) => .ok (.next (embKT k ts j))
  | .error _ => .error .panic

def retM : Except SynErr Input → Except SynErr (Ctl Input Input)
  | .ok j => .ok (.ret j)
  | .error e => .error e

open ModVerif.Generated.Lex in
/-- the `//` branch of loop 1 from `in.startToken()` on — a verbatim copy of that part of the generated
    `input_readToken_loop1`; `loop1_unfold` below checks (by `rfl`) that it IS that part. -/
def commentG (isPrint : Int → Bool) (isSpace : Int → Bool) (fuel : Nat) (in_ : input) : M (Ctl (Unit × input) input) := do
  let (io4, in_) := (input_startToken in_)
  let t5 ← sliceTo (in_).complete ((in_).pos).Byte
  let i := (lastIndex t5 ([10] : Bytes))
  let t6 ← slice (in_).complete (i + (1 : Int)) ((in_).pos).Byte
  let suffix := (decide ((len (trimSpace t6)) > (0 : Int)))
  let t7 ← (input_readRune in_)
  let (io8, in_) := t7
  let t9 ← (input_readRune in_)
  let (io10, in_) := t9
  let in_ ← input_readToken_loop2 isPrint isSpace fuel in_
  if (!suffix) then (do
    let t14 ← (input_endToken in_ (-5 : Int))
    let (io15, in_) := t14
    pure (Ctl.ret ((), in_))) else (do
    let t16 ← (input_endToken in_ (-2 : Int))
    let (io17, in_) := t16
    let in_ := { (in_) with comments := ((in_).comments ++ [({ (default : Generated.Lex.Comment) with Start := ((in_).token).pos, Token := ((in_).token).text, Suffix := suffix } : Generated.Lex.Comment)]) }
    pure (Ctl.ret ((), in_)))

theorem linePrefix_eq (k : Int) (s : Input) (hw : WF s) :
    sliceTo (embK k s).complete (embK k s).pos.Byte = .ok s.consumedRev.reverse ∧
    slice (embK k s).complete (lastIndex s.consumedRev.reverse [10] + 1) (embK k s).pos.Byte =
      .ok ((s.consumedRev.takeWhile (· != 10)).reverse) := by
  have hb : (embK k s).pos.Byte = (s.consumedRev.reverse.length : Int) := by
    show ((s.pos.byte : Nat) : Int) = _
    rw [hw, List.length_reverse]
  constructor
  · rw [hb]
    show sliceTo (s.consumedRev.reverse ++ s.remaining) _ = _
    rw [sliceTo_natCast (by simp)]; simp
  · rw [hb]
    have := slice_after_lastIndex s.consumedRev.reverse s.remaining 10
    rw [List.reverse_reverse] at this
    exact this

theorem len_pos_eq (s : Bytes) : decide (len s > 0) = !s.isEmpty := by
  cases s with
  | nil => simp
  | cons a t => simp [len_eq]

theorem comment_eq (k : Int) (ts : Bytes) (i : Input) (hw : WF i) (fuel : Nat) (hf : i.remaining.length < fuel + 2) :
    commentG isPrintI isSpaceI fuel (embKT k ts i) = simC k ts (retM (readComment i)) ∧
      ∀ j, readComment i = .ok j → WF j := by
  unfold commentG readComment
  simp only [startToken_eqT]
  have hws : WF (startToken i) := startToken_wf hw
  have hrem : (startToken i).remaining.length < fuel + 2 := hf
  generalize startToken i = s at hws hrem
  obtain ⟨hl1, hl2⟩ := linePrefix_eq k s hws
  simp only [hl1, bind_ok, hl2, len_pos_eq]
  simp only [trimSpace]
  by_cases he : s.remaining = []
  · obtain ⟨e, hM⟩ := readRune_eof_model s he
    simp [readRune_eof k s he, hM, ebind_error, retM, simC]
  · obtain ⟨r1, i1, hM1, hG1, hw1, hlt1, htok1, _⟩ := readRune_eq k s he hws
    simp only [hM1, hG1, bind_ok, ebind_ok]
    by_cases he1 : i1.remaining = []
    · obtain ⟨e, hM⟩ := readRune_eof_model i1 he1
      simp [readRune_eof k i1 he1, hM, ebind_error, retM, simC]
    · obtain ⟨r2, i2, hM2, hG2, hw2, hlt2, htok2, _⟩ := readRune_eq k i1 he1 hw1
      simp only [hM2, hG2, bind_ok, ebind_ok]
      obtain ⟨i3, hM3, hG3, hw3, hle3, htok3⟩ := loop2_eq k (i2.remaining.length + 1) fuel i2 hw2 (by omega) (by omega)
      simp only [hM3, hG3, bind_ok, ebind_ok]
      rcases Bool.eq_false_or_eq_true (GoStrings.trimSpace (s.consumedRev.takeWhile (· != 10)).reverse).isEmpty
        with hsuf | hsuf
      · simp only [hsuf, Bool.not_true, Bool.not_false, if_true]
        have := endToken_eq k .comment i3
        rw [show kindCode .comment = (-5 : Int) from rfl] at this
        simp only [this, bind_ok, pure_eq_ok, retM, simC, true_and]
        intro j hj; cases hj; exact hw3
      · simp only [hsuf, Bool.not_false, Bool.not_true, Bool.false_eq_true, if_false]
        have := endToken_eq k .eolComment i3
        rw [show kindCode .eolComment = (-2 : Int) from rfl] at this
        simp only [this, bind_ok, pure_eq_ok, retM, simC]
        refine ⟨?_, ?_⟩
        · simp [emb, embK, embTokK, embComment, endToken]
        · intro j hj; cases hj; exact hw3

/-! ### loop1 = skipSpaces, then `//` comment / `/*` rejection -/

/-- after the spaces: the two prefix tests of the model's readToken -/
def tailM (i : Input) : Except SynErr (Ctl Input Input) :=
  if !i.eof && i.peekPrefix [47, 47] then retM (readComment i)
  else if !i.eof && i.peekPrefix [47, 42] then .error (i.error .blockComment)
  else .ok (.next i)

/-- the part of the model's readToken that loop 1 implements -/
def headM (mf : Nat) (i : Input) : Except SynErr (Ctl Input Input) :=
  match skipSpaces mf i with
  | .ok j => tailM j
  | .error e => .error e

open ModVerif.Generated.Lex in
/-- one iteration of the generated loop 1, with the `//` branch folded into `commentG` -/
theorem loop1_unfold (isPrint : Int → Bool) (isSpace : Int → Bool) (fuel : Nat) (in_ : input) :
    input_readToken_loop1 isPrint isSpace (fuel + 1) in_ =
      (if (!(input_eof in_)) then (do
        let c := (input_peekRune in_)
        if (((decide (c = (32 : Int))) || (decide (c = (9 : Int)))) || (decide (c = (13 : Int)))) then (do
          let t1 ← (input_readRune in_)
          let (io2, in_) := t1
          input_readToken_loop1 isPrint isSpace fuel in_) else (do
          let t3 ← (input_peekPrefix fuel in_ ([47, 47] : Bytes))
          if t3 then commentG isPrint isSpace fuel in_ else (do
            let t18 ← (input_peekPrefix fuel in_ ([47, 42] : Bytes))
            if t18 then (throw Err.panic) else (pure (Ctl.next in_))))) else (pure (Ctl.next in_))) := rfl

theorem loop1_eq (k : Int) (ts : Bytes) : ∀ (mf fuel : Nat) (i : Input), WF i → i.remaining.length < mf →
    i.remaining.length + 4 ≤ fuel →
    Generated.Lex.input_readToken_loop1 isPrintI isSpaceI fuel (embKT k ts i) = simC k ts (headM mf i) ∧
      (∀ j, headM mf i = .ok (.ret j) → WF j) ∧
      (∀ j, headM mf i = .ok (.next j) → WF j ∧ j.remaining.length ≤ i.remaining.length) := by
  intro mf
  induction mf with
  | zero => intro fuel i _ h; omega
  | succ m ih =>
    intro fuel i hw hm hf
    cases fuel with
    | zero => omega
    | succ f =>
      rw [loop1_unfold]
      unfold headM skipSpaces
      simp only [eof_eqT, peekRune_eqT, show (32 : Int) = ((32 : Nat) : Int) from rfl,
        show (9 : Int) = ((9 : Nat) : Int) from rfl, show (13 : Int) = ((13 : Nat) : Int) from rfl, natCast_eq_natCast]
      by_cases he : i.remaining = []
      · have h1 : i.eof = true := (eof_true_iff i).2 he
        simp only [h1, Bool.not_true, Bool.false_eq_true, if_false, if_true, pure_eq_ok, tailM, Bool.false_and, simC]
        refine ⟨trivial, ?_, ?_⟩
        · intro j hj; cases hj
        · intro j hj; cases hj; exact ⟨hw, Nat.le_refl _⟩
      · have h1 : i.eof = false := (eof_false_iff i).2 he
        simp only [h1, Bool.not_false, Bool.false_eq_true, if_false, if_true]
        rcases Bool.eq_false_or_eq_true (i.peekRune == 32 || i.peekRune == 9 || i.peekRune == 13) with hsp | hsp
        · obtain ⟨r, i1, hM, hG, hw1, hlt, htok, _⟩ := readRune_eqT k ts i he hw
          simp only [hsp, if_true, hM, hG, bind_ok, ebind_ok]
          obtain ⟨hG2, hP2, hP3⟩ := ih f i1 hw1 (by omega) (by omega)
          refine ⟨hG2, hP2, ?_⟩
          intro j hj
          obtain ⟨a, b⟩ := hP3 j hj
          exact ⟨a, by omega⟩
        · have hp1 := peekPrefix_eqT k ts i [47, 47] f (by show 2 + 1 ≤ f; omega)
          have hp2 := peekPrefix_eqT k ts i [47, 42] f (by show 2 + 1 ≤ f; omega)
          simp only [hsp, Bool.false_eq_true, if_false, hp1, hp2, bind_ok, tailM, h1, Bool.not_false, Bool.true_and]
          rcases Bool.eq_false_or_eq_true (i.peekPrefix [47, 47]) with hc | hc
          · simp only [hc, if_true]
            obtain ⟨hG2, hP2⟩ := comment_eq k ts i hw f (by omega)
            refine ⟨hG2, ?_, ?_⟩
            · intro j hj
              cases hr : readComment i with
              | error e => rw [hr] at hj; cases hj
              | ok j' =>
                rw [hr] at hj
                have : j' = j := by simpa [retM] using hj
                subst this; exact hP2 _ hr
            · intro j hj
              cases hr : readComment i with
              | error e => rw [hr] at hj; cases hj
              | ok j' => rw [hr] at hj; cases hj
          · simp only [hc, Bool.false_eq_true, if_false]
            rcases Bool.eq_false_or_eq_true (i.peekPrefix [47, 42]) with hb | hb
            · simp only [hb, if_true, throw_eq_error, simC]
              refine ⟨trivial, ?_, ?_⟩
              · intro j hj; cases hj
              · intro j hj; cases hj
            · simp only [hb, Bool.false_eq_true, if_false, pure_eq_ok, simC]
              refine ⟨trivial, ?_, ?_⟩
              · intro j hj; cases hj
              · intro j hj; cases hj; exact ⟨hw, Nat.le_refl _⟩

end ModVerif.TieFnLex
