/-
  Helper lemmas for C07: what accepted verifier / signer key strings say (key-hash binding).
-/
import ModVerif.Model.Note
namespace ModVerif.Note
open ModVerif ModVerif.B64

/-- what an accepted verifier key says -/
theorem NewVerifier_ok {sha : Bytes → Bytes} {ed : Bytes → Bytes → Bytes → Bool} {vkey : Bytes} {v : Verifier}
    (h : NewVerifier sha ed vkey = .ok v) :
    ∃ hash16 key64 pub,
      v.name = (chop vkey [43]).1 ∧ (hash16, key64) = chop (chop vkey [43]).2 [43] ∧
      isValidName v.name = true ∧ parseHash16 hash16 = some v.hash ∧
      b64dec key64 = some (1 :: pub) ∧ pub.length = 32 ∧
      keyHash sha v.name (1 :: pub) = some v.hash ∧ v.verify = ed pub := by
  unfold NewVerifier at h
  simp only at h
  split at h
  · rename_i hash key hh hk
    split at h
    · cases h
    · rename_i hc
      split at h
      · cases h
      · rename_i kh hkh
        split at h
        · cases h
        · rename_i hne
          split at h
          · cases h
          · rename_i alg pub
            split at h
            · cases h
            · rename_i halg
              split at h
              · cases h
              · rename_i hlen
                simp only [Except.ok.injEq] at h
                subst h
                simp only [Bool.or_eq_true, Bool.not_eq_eq_eq_not, Bool.not_true, not_or, Bool.not_eq_false] at hc
                have halg' : alg = 1 := by
                  simp only [algEd25519, bne_iff_ne, ne_eq, Decidable.not_not] at halg
                  exact UInt8.toNat_inj.mp (by simpa using halg)
                subst halg'
                have hkh' : hash = kh := by simpa using hne
                subst hkh'
                refine ⟨_, _, pub, rfl, rfl, hc.1, hh, hk, by simpa using hlen, hkh, rfl⟩
  · cases h

/-- what an accepted signer key says -/
theorem NewSigner_ok {sha : Bytes → Bytes} {edPub : Bytes → Bytes} {edSign : Bytes → Bytes → Bytes}
    {skey : Bytes} {s : Signer} (h : NewSigner sha edPub edSign skey = .ok s) :
    ∃ hash16 key64 seed,
      (chop skey [43]).1 = B "PRIVATE" ∧ (chop (chop skey [43]).2 [43]).1 = B "KEY" ∧
      s.name = (chop (chop (chop skey [43]).2 [43]).2 [43]).1 ∧
      (hash16, key64) = chop (chop (chop (chop skey [43]).2 [43]).2 [43]).2 [43] ∧
      isValidName s.name = true ∧ parseHash16 hash16 = some s.hash ∧
      b64dec key64 = some (1 :: seed) ∧ seed.length = 32 ∧
      keyHash sha s.name (1 :: edPub seed) = some s.hash ∧ s.sign = fun msg => some (edSign seed msg) := by
  unfold NewSigner at h
  simp only at h
  split at h
  · rename_i hash key hh hk
    split at h
    · cases h
    · rename_i hc
      split at h
      · cases h
      · rename_i alg seed
        split at h
        · cases h
        · rename_i halg
          split at h
          · cases h
          · rename_i hlen
            split at h
            · cases h
            · rename_i kh hkh
              split at h
              · cases h
              · rename_i hne
                simp only [Except.ok.injEq] at h
                subst h
                simp only [Bool.or_eq_true, Bool.not_eq_eq_eq_not, Bool.not_true, not_or, Bool.not_eq_false,
                  bne_iff_ne, ne_eq, Decidable.not_not] at hc
                have halg' : alg = 1 := by
                  simp only [algEd25519, bne_iff_ne, ne_eq, Decidable.not_not] at halg
                  exact UInt8.toNat_inj.mp (by simpa using halg)
                subst halg'
                have hkh' : hash = kh := by simpa using hne
                subst hkh'
                exact ⟨_, _, seed, hc.1.1.1, hc.1.1.2, rfl, rfl, hc.1.2, hh, hk, by simpa using hlen, hkh, rfl⟩
  · cases h

end ModVerif.Note
