/-
  Test harness of the non-vacuity examples of Tie/FnEditWork.lean: a parsed go.work (a comment block, `go`, a two-line `use`
  block, a `replace` line) is loaded into a heap with the driver's `Drv.GenEdit.loadWork`, an operation is run, the whole
  typed file is read back with the driver's `workM` and compared with the hand model applied to `Edit.loadWork` of the same
  file (kernel-evaluated, `decide +kernel`); `exR`: the loaded heap represents the loaded model (`FnEditRep.loadWork_rep`).
  Owner: edit-work.
-/
import ModVerif.Proofs.TieFnEditRep
namespace ModVerif.Tie.FnEditWorkEx
open ModVerif ModVerif.GoRt ModVerif.Generated.Edit ModVerif.Tie.FnEditRep

def exFile : Bytes := B "// c\n\ngo 1.21\n\nuse (\n\t./a\n\t./b\n)\n\nreplace x.y/z => ../z\n"

/-- the parsed example (`{}` if it did not parse — it does: `exParsed_ok`) -/
def exParsed : Modfile.WorkFile :=
  match Modfile.parseWork (B "go.work") exFile none with
  | .ok f => f
  | .error _ => {}

def exHeap : Heap := (Drv.GenEdit.loadWork exParsed).1
def exFp : Int := (Drv.GenEdit.loadWork exParsed).2
def exW : Modfile.Edit.EWork := Modfile.Edit.loadWork exParsed

/-- the typed entries without their line ids (`workM` does not read them back) -/
def strip (w : Modfile.WorkFile) : Modfile.WorkFile :=
  { w with go := w.go.map fun g => { g with lineId := 0 },
           toolchain := w.toolchain.map fun t => { t with lineId := 0 },
           godebug := w.godebug.map fun g => { g with lineId := 0 },
           use := w.use.map fun u => { u with lineId := 0 },
           replace := w.replace.map fun r => { r with lineId := 0 } }

/-- run `op fp h` on the loaded heap and read the file back: `none` = panic, `some none` = unreadable heap -/
def runW {β : Type} (op : Int → Heap → M (β × Heap)) : Option (Option Modfile.WorkFile) :=
  match op exFp exHeap with
  | .ok (_, h') => some (Drv.GenEdit.workM h' exFp)
  | .error _ => none

/-- the model side -/
def modelW (g : Modfile.Edit.EWork → Except Modfile.Edit.EditErr Modfile.Edit.EWork) : Option (Option Modfile.WorkFile) :=
  match g exW with
  | .ok e => some (some (strip e.f))
  | .error _ => none

theorem exParsed_ok : (Modfile.parseWork (B "go.work") exFile none).toOption = some exParsed := by decide +kernel

/-- the loaded heap represents the loaded model -/
theorem exR : RepW exHeap exFp exW := loadWork_rep exParsed (loadWorkOKB_sound (by decide +kernel))

/-- from a tie in `match` form and the model's success: the generated side of the `ok` branch -/
theorem tie_ok {ε α : Type} {x : Except ε α} {P : α → Prop} {Q : Prop}
    (h : match x with | .ok a => P a | .error _ => Q) (hx : x.toOption.isSome = true) : ∃ a, x = .ok a ∧ P a := by
  cases x with
  | ok a => exact ⟨a, rfl, h⟩
  | error e => cases hx

end ModVerif.Tie.FnEditWorkEx
