/-
  Helpers for Tie/FnTlogW.lean: the WORLD-MODE regenerations of `TreeHash`, `ProveTree`, `ProveRecord`
  (Generated/FnTlogW.lean: the hash reader is a world function `List Int → W → M ((hashes, err) × W)`, the world is
  threaded) reduced to the pure regenerations (Generated/FnTlog.lean) — for ANY world type and ANY reader, no hypothesis.
-/
import ModVerif.Generated.FnTlogW
import ModVerif.Proofs.GoRtLemmasList
namespace ModVerif.TieFnTlogW
open ModVerif ModVerif.GoRt ModVerif.GoRtList

section
variable {H : Type} [DecidableEq H] [Inhabited H] {W : Type}

/-- ONE call of the world reader `rh` on `idx` in world `w`, then the pure continuation `k` over the constant reader that
    answers what `rh` answered, paired with the world after the call (an `M`-error of `rh` propagates). -/
def viaRead {α : Type} (rh : List Int → W → M ((List H × Option String) × W)) (idx : List Int) (w : W)
    (k : (List Int → List H × Option String) → M α) : M (α × W) :=
  match rh idx w with
  | .error e => .error e
  | .ok ((hs, err), w') =>
    match k (fun _ => (hs, err)) with
    | .error e => .error e
    | .ok a => .ok (a, w')

theorem TreeHash_eq (empty : H) (node : H → H → H) (rh : List Int → W → M ((List H × Option String) × W))
    (fuel : Nat) (n : Int) (w : W) :
    Generated.TlogW.TreeHash empty node rh fuel n () w =
      if n = 0 then .ok ((empty, none), w) else
      match Generated.Tlog.subTreeIndex fuel 0 n [] with
      | .error e => .error e
      | .ok idx => viaRead rh idx w (Generated.Tlog.TreeHash empty node fuel n) := by
  unfold Generated.TlogW.TreeHash
  by_cases hn : n = 0
  · simp [hn]
  · simp only [hn, decide_false, Bool.false_eq_true, if_false]
    cases hs : Generated.Tlog.subTreeIndex fuel 0 n [] with
    | error e => rfl
    | ok idx =>
      simp only [ok_bind, viaRead]
      cases hr : rh idx w with
      | error e => rfl
      | ok v =>
        obtain ⟨⟨hs', err⟩, w'⟩ := v
        simp only [ok_bind, Generated.Tlog.TreeHash, hn, decide_false, Bool.false_eq_true, if_false, hs]
        cases err with
        | some e => simp
        | none =>
          simp only [Option.isNone_none, Bool.not_true, Bool.false_eq_true, if_false]
          by_cases hl : len hs' = len idx
          · simp only [hl, decide_true, Bool.not_true, Bool.false_eq_true, if_false]
            cases Generated.Tlog.subTreeHash node fuel 0 n hs' with
            | error e => rfl
            | ok v =>
              obtain ⟨a, b⟩ := v
              simp only [ok_bind]
              split <;> rfl
          · simp [hl]
theorem ProveTree_eq (node : H → H → H) (rh : List Int → W → M ((List H × Option String) × W))
    (fuel : Nat) (t n : Int) (w : W) :
    Generated.TlogW.ProveTree node rh fuel t n () w =
      if t < 1 ∨ n < 1 ∨ n > t then .ok (([], some "tlog: invalid inputs in ProveTree"), w) else
      match Generated.Tlog.treeProofIndex fuel 0 t n [] with
      | .error e => .error e
      | .ok idx =>
        if idx = [] then .ok (([], none), w) else viaRead rh idx w (Generated.Tlog.ProveTree node fuel t n) := by
  unfold Generated.TlogW.ProveTree
  by_cases hg : t < 1 ∨ n < 1 ∨ n > t
  · have : (decide (t < 1) || decide (n < 1) || decide (n > t)) = true := by
      rcases hg with h | h | h <;> simp [h]
    simp only [this, if_true, hg, pure_eq_ok]
  · have hb : (decide (t < 1) || decide (n < 1) || decide (n > t)) = false := by
      simp; omega
    simp only [hb, Bool.false_eq_true, if_false, hg]
    cases hs : Generated.Tlog.treeProofIndex fuel 0 t n [] with
    | error e => rfl
    | ok idx =>
      simp only [ok_bind, viaRead]
      by_cases hi : idx = []
      · subst hi
        have : len ([] : List Int) = 0 := rfl
        simp [this]
      · have hl0 : ¬ len idx = 0 := fun h => hi ((len_eq_zero_iff idx).1 h)
        simp only [hl0, decide_false, Bool.false_eq_true, if_false, hi]
        cases hr : rh idx w with
        | error e => rfl
        | ok v =>
          obtain ⟨⟨hs', err⟩, w'⟩ := v
          simp only [ok_bind, Generated.Tlog.ProveTree, hb, Bool.false_eq_true, if_false, hs, hl0, decide_false]
          cases err with
          | some e => simp
          | none =>
            simp only [Option.isNone_none, Bool.not_true, Bool.false_eq_true, if_false]
            by_cases hl : len hs' = len idx
            · simp only [hl, decide_true, Bool.not_true, Bool.false_eq_true, if_false]
              cases Generated.Tlog.treeProof node fuel 0 t n hs' with
              | error e => rfl
              | ok v =>
                obtain ⟨a, b⟩ := v
                simp only [ok_bind]
                split <;> rfl
            · simp [hl]

theorem ProveRecord_eq (node : H → H → H) (rh : List Int → W → M ((List H × Option String) × W))
    (fuel : Nat) (t n : Int) (w : W) :
    Generated.TlogW.ProveRecord node rh fuel t n () w =
      if t < 0 ∨ n < 0 ∨ n ≥ t then .ok (([], some "tlog: invalid inputs in ProveRecord"), w) else
      match Generated.Tlog.leafProofIndex fuel 0 t n [] with
      | .error e => .error e
      | .ok idx =>
        if idx = [] then .ok (([], none), w) else viaRead rh idx w (Generated.Tlog.ProveRecord node fuel t n) := by
  unfold Generated.TlogW.ProveRecord
  by_cases hg : t < 0 ∨ n < 0 ∨ n ≥ t
  · have : (decide (t < 0) || decide (n < 0) || decide (n ≥ t)) = true := by
      rcases hg with h | h | h <;> simp [h]
    simp only [this, if_true, hg, pure_eq_ok]
  · have hb : (decide (t < 0) || decide (n < 0) || decide (n ≥ t)) = false := by
      simp; omega
    simp only [hb, Bool.false_eq_true, if_false, hg]
    cases hs : Generated.Tlog.leafProofIndex fuel 0 t n [] with
    | error e => rfl
    | ok idx =>
      simp only [ok_bind, viaRead]
      by_cases hi : idx = []
      · subst hi
        have : len ([] : List Int) = 0 := rfl
        simp [this]
      · have hl0 : ¬ len idx = 0 := fun h => hi ((len_eq_zero_iff idx).1 h)
        simp only [hl0, decide_false, Bool.false_eq_true, if_false, hi]
        cases hr : rh idx w with
        | error e => rfl
        | ok v =>
          obtain ⟨⟨hs', err⟩, w'⟩ := v
          simp only [ok_bind, Generated.Tlog.ProveRecord, hb, Bool.false_eq_true, if_false, hs, hl0, decide_false]
          cases err with
          | some e => simp
          | none =>
            simp only [Option.isNone_none, Bool.not_true, Bool.false_eq_true, if_false]
            by_cases hl : len hs' = len idx
            · simp only [hl, decide_true, Bool.not_true, Bool.false_eq_true, if_false]
              cases Generated.Tlog.leafProof node fuel 0 t n hs' with
              | error e => rfl
              | ok v =>
                obtain ⟨a, b⟩ := v
                simp only [ok_bind]
                split <;> rfl
            · simp [hl]
end
end ModVerif.TieFnTlogW
