/-
  EditMore, part 10 — the loop of SetRequireSeparateIndirect preserves tree well-formedness, the `Match` between the typed
  entries and the live lines, and the two `require` blocks (`sepLoop_inv`); the three kinds of step (keep / remove / move).
-/
import ModVerif.Proofs.EditMoreSepD
set_option linter.unusedSimpArgs false
namespace ModVerif.Modfile.Edit
open ModVerif ModVerif.Modfile

/-! ### the three steps of the loops of the bulk requirement setters, on `Match` -/

/-- a kept requirement: its line gets the new version and the requested marker -/
theorem Match.setReqStep {A C : List Ent} {done rs : List Require} {r : Require} {syn : FileSyntax} {next : Nat}
    (vers : Bytes) (ind : Bool) (hw : TreeWF syn.stmts next) (hlr : liveRq r = true)
    (hm : Match (A ++ (entsOf liveRq entRq (done ++ r :: rs) ++ C)) (view syn.stmts))
    (hset : ∀ v ∈ view syn.stmts, v.id = r.lineId → MarkerSettable v.suffix) :
    Match (A ++ (entsOf liveRq entRq (done ++ { r with mod := { r.mod with version := vers }, indirect := ind } :: rs) ++ C))
      (view (syn.updateLine r.lineId (fun l => setIndirectLine ind (setVersionLine vers l))).stmts) ∧
    ∃ v0 ∈ view syn.stmts, v0.id = r.lineId ∧
      (∀ v, v ∈ view (syn.updateLine r.lineId (fun l => setIndirectLine ind (setVersionLine vers l))).stmts ↔
        (v.id ≠ r.lineId ∧ v ∈ view syn.stmts) ∨ v = ⟨r.lineId, [B "require", autoQuote r.mod.path, vers], sfxAfter ind v0.suffix⟩) ∧
      isIndirectS (sfxAfter ind v0.suffix) = ind := by
  have hndK : (liveIds liveRq (·.lineId) (done ++ r :: rs)).Nodup := by
    rw [← entsOf_ids (·.lineId) liveRq entRq (fun _ => rfl)]; exact seg_nodup hm
  have hne := mid_id_ne liveRq (·.lineId) done rs r hndK hlr
  rcases hm.cover (entRq r) (List.mem_append_right _ (List.mem_append_left _
    ((mem_entsOf_mid liveRq entRq done rs r _).2 (Or.inr ⟨hlr, rfl⟩)))) with ⟨v0, hv0, hv0id, hacc0⟩
  simp only [entRq] at hv0id hacc0
  have hview := mem_view_setReq syn next r.lineId vers ind hw v0 hv0 hv0id _ _ hacc0.1
  have hlr' : liveRq { r with mod := { r.mod with version := vers }, indirect := ind } = true := hlr
  refine ⟨?_, v0, hv0, hv0id, hview, hset v0 hv0 hv0id ind⟩
  refine Match.frame [r.lineId] hm ?_ ?_ ?_ ?_ ?_ ?_ ?_
  · intro v hv
    simp only [List.mem_singleton] at hv
    rw [hview v]
    constructor
    · rintro (⟨_, a⟩ | rfl)
      · exact a
      · exact absurd rfl hv
    · intro a; exact Or.inl ⟨hv, a⟩
  · intro j hj
    rw [List.mem_singleton.1 hj]
    left
    rw [entsOf_ids (·.lineId) liveRq entRq (fun _ => rfl)]
    exact (mem_liveIds liveRq (·.lineId)).2 ⟨r, List.mem_append_right _ List.mem_cons_self, hlr, rfl⟩
  · rw [entsOf_ids (·.lineId) liveRq entRq (fun _ => rfl)]
    have : liveIds liveRq (·.lineId) (done ++ { r with mod := { r.mod with version := vers }, indirect := ind } :: rs)
        = liveIds liveRq (·.lineId) (done ++ r :: rs) := by
      simp only [liveIds_append, liveIds_cons, hlr, hlr', if_true]
    rw [this]; exact hndK
  · intro en' hen'
    left
    rcases (mem_entsOf_mid liveRq entRq done rs _ en').1 hen' with ⟨y, hy, hly, rfl⟩ | ⟨_, rfl⟩
    · exact List.mem_map.2 ⟨entRq y, (mem_entsOf_mid liveRq entRq done rs r _).2 (Or.inl ⟨y, hy, hly, rfl⟩), rfl⟩
    · exact List.mem_map.2 ⟨entRq r, (mem_entsOf_mid liveRq entRq done rs r _).2 (Or.inr ⟨hlr, rfl⟩), rfl⟩
  · intro en' hen'
    rcases (mem_entsOf_mid liveRq entRq done rs _ en').1 hen' with ⟨y, hy, hly, rfl⟩ | ⟨_, rfl⟩
    · rcases hm.cover (entRq y) (List.mem_append_right _ (List.mem_append_left _
        ((mem_entsOf_mid liveRq entRq done rs r _).2 (Or.inl ⟨y, hy, hly, rfl⟩)))) with ⟨v, hv, hvid, hacc⟩
      refine ⟨v, (hview v).2 (Or.inl ⟨?_, hv⟩), hvid, hacc⟩
      rw [hvid]; exact hne y hy hly
    · refine ⟨⟨r.lineId, [B "require", autoQuote r.mod.path, vers], sfxAfter ind v0.suffix⟩,
        (hview _).2 (Or.inr rfl), rfl, ?_⟩
      exact ⟨rfl, hset v0 hv0 hv0id ind⟩
  · intro v _ hs
    refine ⟨entRq { r with mod := { r.mod with version := vers }, indirect := ind },
      (mem_entsOf_mid liveRq entRq done rs _ _).2 (Or.inr ⟨hlr', rfl⟩), ?_⟩
    rw [List.mem_singleton.1 hs]; rfl
  · intro en hen hs
    simp only [List.mem_singleton] at hs
    rcases (mem_entsOf_mid liveRq entRq done rs r en).1 hen with ⟨y, hy, hly, rfl⟩ | ⟨_, rfl⟩
    · exact ⟨entRq y, (mem_entsOf_mid liveRq entRq done rs _ _).2 (Or.inl ⟨y, hy, hly, rfl⟩), rfl⟩
    · exact absurd rfl hs

/-- a removed requirement: its line is marked removed, the entry cleared -/
theorem Match.removeStep {A C : List Ent} {done rs : List Require} {r : Require} {syn : FileSyntax} {next : Nat}
    (hw : TreeWF syn.stmts next) (hlr : liveRq r = true)
    (hm : Match (A ++ (entsOf liveRq entRq (done ++ r :: rs) ++ C)) (view syn.stmts)) :
    Match (A ++ (entsOf liveRq entRq (done ++ clearedRequire :: rs) ++ C)) (view (markRemoved syn r.lineId).stmts) := by
  have hndK : (liveIds liveRq (·.lineId) (done ++ r :: rs)).Nodup := by
    rw [← entsOf_ids (·.lineId) liveRq entRq (fun _ => rfl)]; exact seg_nodup hm
  have hne := mid_id_ne liveRq (·.lineId) done rs r hndK hlr
  have hview := mem_view_markRemoved syn r.lineId hw.nodup
  refine Match.frame [r.lineId] hm ?_ ?_ ?_ ?_ ?_ ?_ ?_
  · intro v hv
    simp only [List.mem_singleton] at hv
    rw [hview v]
    exact ⟨fun a => a.1, fun a => ⟨a, hv⟩⟩
  · intro j hj
    rw [List.mem_singleton.1 hj]
    left
    rw [entsOf_ids (·.lineId) liveRq entRq (fun _ => rfl)]
    exact (mem_liveIds liveRq (·.lineId)).2 ⟨r, List.mem_append_right _ List.mem_cons_self, hlr, rfl⟩
  · rw [entsOf_ids (·.lineId) liveRq entRq (fun _ => rfl)]
    have hsl : (liveIds liveRq (·.lineId) (done ++ clearedRequire :: rs)).Sublist (liveIds liveRq (·.lineId) (done ++ r :: rs)) := by
      simp only [liveIds_append, liveIds_cons, hlr, if_true]
      refine List.Sublist.append (List.Sublist.refl _) ?_
      have : liveRq clearedRequire = false := rfl
      simp only [this, Bool.false_eq_true, if_false]
      exact List.Sublist.cons _ (List.Sublist.refl _)
    exact List.Nodup.sublist hsl hndK
  · intro en' hen'
    left
    rcases (mem_entsOf_mid liveRq entRq done rs _ en').1 hen' with ⟨y, hy, hly, rfl⟩ | ⟨hc, _⟩
    · exact List.mem_map.2 ⟨entRq y, (mem_entsOf_mid liveRq entRq done rs r _).2 (Or.inl ⟨y, hy, hly, rfl⟩), rfl⟩
    · exact absurd hc (by decide)
  · intro en' hen'
    rcases (mem_entsOf_mid liveRq entRq done rs _ en').1 hen' with ⟨y, hy, hly, rfl⟩ | ⟨hc, _⟩
    · rcases hm.cover (entRq y) (List.mem_append_right _ (List.mem_append_left _
        ((mem_entsOf_mid liveRq entRq done rs r _).2 (Or.inl ⟨y, hy, hly, rfl⟩)))) with ⟨v, hv, hvid, hacc⟩
      refine ⟨v, (hview v).2 ⟨hv, ?_⟩, hvid, hacc⟩
      rw [hvid]; exact hne y hy hly
    · exact absurd hc (by decide)
  · intro v hv hs
    exact absurd (List.mem_singleton.1 hs) ((hview v).1 hv).2
  · intro en hen hs
    simp only [List.mem_singleton] at hs
    rcases (mem_entsOf_mid liveRq entRq done rs r en).1 hen with ⟨y, hy, hly, rfl⟩ | ⟨_, rfl⟩
    · exact ⟨entRq y, (mem_entsOf_mid liveRq entRq done rs _ _).2 (Or.inl ⟨y, hy, hly, rfl⟩), rfl⟩
    · exact absurd rfl hs

/-- a moved requirement: the line `r.lineId` is replaced by the same line under the fresh id `next` -/
theorem Match.moveStep {A C : List Ent} {done rs : List Require} {r : Require} {vs vs' : List VLine} {next : Nat}
    (hlr : liveRq r = true) (hm : Match (A ++ (entsOf liveRq entRq (done ++ r :: rs) ++ C)) vs)
    (hlt : ∀ en ∈ A ++ (entsOf liveRq entRq (done ++ r :: rs) ++ C), en.id < next)
    (v0 : VLine) (hacc0 : (entRq r).acc v0.toks v0.suffix)
    (hview : ∀ v, v ∈ vs' ↔ (v.id ≠ r.lineId ∧ v ∈ vs) ∨ v = ⟨next, v0.toks, v0.suffix⟩) :
    Match (A ++ (entsOf liveRq entRq (done ++ { r with lineId := next } :: rs) ++ C)) vs' := by
  have hndK : (liveIds liveRq (·.lineId) (done ++ r :: rs)).Nodup := by
    rw [← entsOf_ids (·.lineId) liveRq entRq (fun _ => rfl)]; exact seg_nodup hm
  have hne := mid_id_ne liveRq (·.lineId) done rs r hndK hlr
  have hrK : entRq r ∈ entsOf liveRq entRq (done ++ r :: rs) := (mem_entsOf_mid liveRq entRq done rs r _).2 (Or.inr ⟨hlr, rfl⟩)
  have hrlt : r.lineId < next := hlt (entRq r) (List.mem_append_right _ (List.mem_append_left _ hrK))
  have hlr' : liveRq { r with lineId := next } = true := hlr
  refine Match.frame [r.lineId, next] hm ?_ ?_ ?_ ?_ ?_ ?_ ?_
  · intro v hv
    simp only [List.mem_cons, List.mem_nil_iff, or_false, not_or] at hv
    rw [hview v]
    constructor
    · rintro (⟨_, a⟩ | rfl)
      · exact a
      · exact absurd rfl hv.2
    · intro a; exact Or.inl ⟨hv.1, a⟩
  · intro j hj
    simp only [List.mem_cons, List.mem_nil_iff, or_false] at hj
    rcases hj with rfl | rfl
    · left
      rw [entsOf_ids (·.lineId) liveRq entRq (fun _ => rfl)]
      exact (mem_liveIds liveRq (·.lineId)).2 ⟨r, List.mem_append_right _ List.mem_cons_self, hlr, rfl⟩
    · right
      intro en hen; exact Nat.ne_of_lt (hlt en hen)
  · rw [entsOf_ids (·.lineId) liveRq entRq (fun _ => rfl)]
    simp only [liveIds_append, liveIds_cons, hlr, hlr', if_true] at hndK ⊢
    rcases List.nodup_append.1 hndK with ⟨n1, n2, n3⟩
    rcases List.nodup_cons.1 n2 with ⟨_, n4⟩
    have hfresh : ∀ y, (y ∈ done ∨ y ∈ rs) → liveRq y = true → y.lineId ≠ next := by
      intro y hy hly
      exact Nat.ne_of_lt (hlt (entRq y) (List.mem_append_right _ (List.mem_append_left _
        ((mem_entsOf_mid liveRq entRq done rs r _).2 (Or.inl ⟨y, hy, hly, rfl⟩)))))
    refine List.nodup_append.2 ⟨n1, List.nodup_cons.2 ⟨?_, n4⟩, ?_⟩
    · intro hmem
      rcases (mem_liveIds liveRq (·.lineId)).1 hmem with ⟨y, hy, hly, hyid⟩
      exact hfresh y (Or.inr hy) hly hyid
    · intro a ha b hb
      rcases List.mem_cons.1 hb with rfl | hb
      · rcases (mem_liveIds liveRq (·.lineId)).1 ha with ⟨y, hy, hly, hyid⟩
        rw [← hyid]; exact hfresh y (Or.inl hy) hly
      · exact n3 a ha b (List.mem_cons_of_mem _ hb)
  · intro en' hen'
    rcases (mem_entsOf_mid liveRq entRq done rs _ en').1 hen' with ⟨y, hy, hly, rfl⟩ | ⟨_, rfl⟩
    · left
      exact List.mem_map.2 ⟨entRq y, (mem_entsOf_mid liveRq entRq done rs r _).2 (Or.inl ⟨y, hy, hly, rfl⟩), rfl⟩
    · right
      intro en hen; exact Nat.ne_of_lt (hlt en hen)
  · intro en' hen'
    rcases (mem_entsOf_mid liveRq entRq done rs _ en').1 hen' with ⟨y, hy, hly, rfl⟩ | ⟨_, rfl⟩
    · rcases hm.cover (entRq y) (List.mem_append_right _ (List.mem_append_left _
        ((mem_entsOf_mid liveRq entRq done rs r _).2 (Or.inl ⟨y, hy, hly, rfl⟩)))) with ⟨v, hv, hvid, hacc⟩
      refine ⟨v, (hview v).2 (Or.inl ⟨?_, hv⟩), hvid, hacc⟩
      rw [hvid]; exact hne y hy hly
    · exact ⟨⟨next, v0.toks, v0.suffix⟩, (hview _).2 (Or.inr rfl), rfl, hacc0⟩
  · intro v hv hs
    simp only [List.mem_cons, List.mem_nil_iff, or_false] at hs
    rcases (hview v).1 hv with ⟨h1, h2⟩ | rfl
    · rcases hs with h | h
      · exact absurd h h1
      · rcases hm.surj v h2 with ⟨en, hen, henid⟩
        exact absurd (henid.trans h) (Nat.ne_of_lt (hlt en hen))
    · exact ⟨entRq { r with lineId := next }, (mem_entsOf_mid liveRq entRq done rs _ _).2 (Or.inr ⟨hlr', rfl⟩), rfl⟩
  · intro en hen hs
    simp only [List.mem_cons, List.mem_nil_iff, or_false, not_or] at hs
    rcases (mem_entsOf_mid liveRq entRq done rs r en).1 hen with ⟨y, hy, hly, rfl⟩ | ⟨_, rfl⟩
    · exact ⟨entRq y, (mem_entsOf_mid liveRq entRq done rs _ _).2 (Or.inl ⟨y, hy, hly, rfl⟩), rfl⟩
    · exact absurd rfl hs.1


theorem BlockAt.updateLine {fs : FileSyntax} {k : Nat} (h : BlockAt fs.stmts k) (hnd : (treeIds fs.stmts).Nodup) (id : Nat)
    (g : Line → Line) : BlockAt (fs.updateLine id g).stmts k := by
  rw [updateLine_stmts fs id g hnd]; exact h.mapLines _

/-- **the loop of SetRequireSeparateIndirect on the tree invariant** -/
theorem sepLoop_inv {A C : List Ent} (ctx : SepCtx) (need : List Want) (rs : List Require) :
    ∀ (done : List Require) (have_ : List Bytes) (syn : FileSyntax) (next : Nat) (rs' : List Require) (have' : List Bytes)
      (syn' : FileSyntax) (next' : Nat),
      (∀ r ∈ rs, liveRq r = true) → TreeWF syn.stmts next → 0 < next →
      Match (A ++ (entsOf liveRq entRq (done ++ rs) ++ C)) (view syn.stmts) →
      BlockAt syn.stmts ctx.directIdx → BlockAt syn.stmts ctx.indirectIdx →
      (∀ r ∈ rs, ∀ v ∈ view syn.stmts, v.id = r.lineId → MarkerSettable v.suffix) →
      sepLoop ctx need rs have_ syn next = .ok (rs', have', syn', next') →
      TreeWF syn'.stmts next' ∧ next ≤ next' ∧ Match (A ++ (entsOf liveRq entRq (done ++ rs') ++ C)) (view syn'.stmts) ∧
      BlockAt syn'.stmts ctx.directIdx ∧ BlockAt syn'.stmts ctx.indirectIdx := by
  induction rs with
  | nil =>
    intro done have_ syn next rs' have' syn' next' _ hw _ hm hbd hbi _ h
    simp only [sepLoop, Except.ok.injEq, Prod.mk.injEq] at h
    rcases h with ⟨rfl, _, rfl, rfl⟩
    exact ⟨hw, Nat.le_refl _, hm, hbd, hbi⟩
  | cons r rs ih =>
    intro done have_ syn next rs' have' syn' next' hlive hw hnext hm hbd hbi hset h
    have hlr := hlive r List.mem_cons_self
    have hlive' : ∀ r2 ∈ rs, liveRq r2 = true := fun r2 hr2 => hlive r2 (List.mem_cons_of_mem _ hr2)
    have hndK : (liveIds liveRq (·.lineId) (done ++ r :: rs)).Nodup := by
      rw [← entsOf_ids (·.lineId) liveRq entRq (fun _ => rfl)]; exact seg_nodup hm
    have hne := mid_id_ne liveRq (·.lineId) done rs r hndK hlr
    -- the removal branches
    have remove : ∀ (res : List Require × List Bytes × FileSyntax × Nat),
        sepLoop ctx need rs have_ (markRemoved syn r.lineId) next = .ok res →
        TreeWF res.2.2.1.stmts res.2.2.2 ∧ next ≤ res.2.2.2 ∧
          Match (A ++ (entsOf liveRq entRq (done ++ clearedRequire :: res.1) ++ C)) (view res.2.2.1.stmts) ∧
          BlockAt res.2.2.1.stmts ctx.directIdx ∧ BlockAt res.2.2.1.stmts ctx.indirectIdx := by
      intro res hr
      rcases res with ⟨rs'', h'', syn'', next''⟩
      have hview := mem_view_markRemoved syn r.lineId hw.nodup
      have hm1 : Match (A ++ (entsOf liveRq entRq ((done ++ [clearedRequire]) ++ rs) ++ C)) (view (markRemoved syn r.lineId).stmts) := by
        rw [List.append_assoc]; exact Match.removeStep hw hlr hm
      have hset1 : ∀ r2 ∈ rs, ∀ v ∈ view (markRemoved syn r.lineId).stmts, v.id = r2.lineId → MarkerSettable v.suffix := by
        intro r2 hr2 v hv hvid
        exact hset r2 (List.mem_cons_of_mem _ hr2) v ((hview v).1 hv).1 hvid
      have := ih (done ++ [clearedRequire]) have_ (markRemoved syn r.lineId) next rs'' h'' syn'' next'' hlive' (hw.markRemoved r.lineId)
        hnext hm1 (hbd.updateLine hw.nodup _ _) (hbi.updateLine hw.nodup _ _) hset1 hr
      rw [List.append_assoc] at this
      exact this
    unfold sepLoop at h
    cases hf : need.find? (fun a => a.path == r.mod.path) with
    | some w =>
      simp only [hf] at h
      by_cases hc : have_.contains r.mod.path = true
      · simp only [hc, if_true, bind, Except.bind] at h
        cases hd : deref r.lineId with
        | error err => simp [hd] at h
        | ok i =>
          have hi : i = r.lineId := by unfold deref at hd; split at hd <;> simp at hd; exact hd.symm
          subst hi
          simp only [hd] at h
          cases hr : sepLoop ctx need rs have_ (markRemoved syn r.lineId) next with
          | error err => simp [hr] at h
          | ok res =>
            have := remove res hr
            rcases res with ⟨rs'', h'', syn'', next''⟩
            simp only [hr, pure, Except.pure, Except.ok.injEq, Prod.mk.injEq] at h
            rcases h with ⟨rfl, _, rfl, rfl⟩
            exact this
      · simp only [Bool.not_eq_true] at hc
        simp only [hc, Bool.false_eq_true, if_false, bind, Except.bind] at h
        cases hd : deref r.lineId with
        | error err => simp [hd] at h
        | ok i =>
          have hi : i = r.lineId := by unfold deref at hd; split at hd <;> simp at hd; exact hd.symm
          subst hi
          simp only [hd] at h
          -- the updated line
          rcases Match.setReqStep (A := A) (C := C) w.vers w.indirect hw hlr hm (hset r List.mem_cons_self)
            with ⟨hm1, v0, hv0, hv0id, hview1, hind⟩
          have hw1 := hw.setReq r.lineId w.vers w.indirect
          have hbd1 : BlockAt (syn.updateLine r.lineId fun l => setIndirectLine w.indirect (setVersionLine w.vers l)).stmts ctx.directIdx :=
            hbd.updateLine hw.nodup _ _
          have hbi1 : BlockAt (syn.updateLine r.lineId fun l => setIndirectLine w.indirect (setVersionLine w.vers l)).stmts ctx.indirectIdx :=
            hbi.updateLine hw.nodup _ _
          have hlt1 := hm1.ids_lt hw1
          have hset1 : ∀ r2 ∈ rs, ∀ v ∈ view (syn.updateLine r.lineId fun l => setIndirectLine w.indirect (setVersionLine w.vers l)).stmts,
              v.id = r2.lineId → MarkerSettable v.suffix := by
            intro r2 hr2 v hv hvid
            rcases (hview1 v).1 hv with ⟨_, hvv⟩ | rfl
            · exact hset r2 (List.mem_cons_of_mem _ hr2) v hvv hvid
            · exact absurd hvid.symm (hne r2 (Or.inr hr2) (hlive' r2 hr2))
          have hlr1 : liveRq { r with mod := { r.mod with version := w.vers }, indirect := w.indirect } = true := hlr
          -- what a move does
          have moved : ∀ idx, BlockAt (syn.updateLine r.lineId fun l => setIndirectLine w.indirect (setVersionLine w.vers l)).stmts idx →
              TreeWF (moveExisting (syn.updateLine r.lineId fun l => setIndirectLine w.indirect (setVersionLine w.vers l)) r.lineId idx next).stmts (next + 1) ∧
              Match (A ++ (entsOf liveRq entRq (done ++
                ({ r with mod := { r.mod with version := w.vers }, indirect := w.indirect, lineId := next } : Require) :: rs) ++ C))
                (view (moveExisting (syn.updateLine r.lineId fun l => setIndirectLine w.indirect (setVersionLine w.vers l)) r.lineId idx next).stmts) ∧
              BlockAt (moveExisting (syn.updateLine r.lineId fun l => setIndirectLine w.indirect (setVersionLine w.vers l)) r.lineId idx next).stmts ctx.directIdx ∧
              BlockAt (moveExisting (syn.updateLine r.lineId fun l => setIndirectLine w.indirect (setVersionLine w.vers l)) r.lineId idx next).stmts ctx.indirectIdx ∧
              (∀ r2 ∈ rs, ∀ v ∈ view (moveExisting (syn.updateLine r.lineId fun l => setIndirectLine w.indirect (setVersionLine w.vers l)) r.lineId idx next).stmts,
                v.id = r2.lineId → MarkerSettable v.suffix) := by
            intro idx hidx
            rcases moveExisting_spec _ next r.lineId idx hw1 hnext
              ⟨r.lineId, [B "require", autoQuote r.mod.path, w.vers], sfxAfter w.indirect v0.suffix⟩
              ((hview1 _).2 (Or.inr rfl)) rfl _ _ rfl hidx with ⟨m1, m2, m3⟩
            refine ⟨m1, ?_, m3 _ hbd1, m3 _ hbi1, ?_⟩
            · exact Match.moveStep (r := { r with mod := { r.mod with version := w.vers }, indirect := w.indirect })
                hlr1 hm1 hlt1 _ ⟨rfl, hind⟩ m2
            · intro r2 hr2 v hv hvid
              rcases (m2 v).1 hv with ⟨_, hvv⟩ | rfl
              · exact hset1 r2 hr2 v hvv hvid
              · have := hlt1 (entRq r2) (List.mem_append_right _ (List.mem_append_left _
                  ((mem_entsOf_mid liveRq entRq done rs _ _).2 (Or.inl ⟨r2, Or.inr hr2, hlive' r2 hr2, rfl⟩))))
                simp only [entRq] at this hvid
                omega
          generalize ht : (if (w.indirect && (ctx.oneFlat || inBlockOrig ctx r.lineId ctx.directOrig)) = true then
              (({ r with mod := { r.mod with version := w.vers }, indirect := w.indirect, lineId := next } : Require),
                moveExisting (syn.updateLine r.lineId fun l => setIndirectLine w.indirect (setVersionLine w.vers l)) r.lineId ctx.indirectIdx next, next + 1)
            else if (!w.indirect && (ctx.oneFlat || inBlockOrig ctx r.lineId ctx.indirectOrig)) = true then
              (({ r with mod := { r.mod with version := w.vers }, indirect := w.indirect, lineId := next } : Require),
                moveExisting (syn.updateLine r.lineId fun l => setIndirectLine w.indirect (setVersionLine w.vers l)) r.lineId ctx.directIdx next, next + 1)
            else (({ r with mod := { r.mod with version := w.vers }, indirect := w.indirect } : Require),
                syn.updateLine r.lineId fun l => setIndirectLine w.indirect (setVersionLine w.vers l), next)) = t at h
          have htp : TreeWF t.2.1.stmts t.2.2 ∧ next ≤ t.2.2 ∧
              Match (A ++ (entsOf liveRq entRq (done ++ t.1 :: rs) ++ C)) (view t.2.1.stmts) ∧
              BlockAt t.2.1.stmts ctx.directIdx ∧ BlockAt t.2.1.stmts ctx.indirectIdx ∧
              (∀ r2 ∈ rs, ∀ v ∈ view t.2.1.stmts, v.id = r2.lineId → MarkerSettable v.suffix) := by
            rw [← ht]; split
            · rcases moved ctx.indirectIdx hbi1 with ⟨q1, q2, q3, q4, q5⟩
              exact ⟨q1, Nat.le_succ _, q2, q3, q4, q5⟩
            · split
              · rcases moved ctx.directIdx hbd1 with ⟨q1, q2, q3, q4, q5⟩
                exact ⟨q1, Nat.le_succ _, q2, q3, q4, q5⟩
              · exact ⟨hw1, Nat.le_refl _, hm1, hbd1, hbi1, hset1⟩
          rcases t with ⟨r2, syn2, next2⟩
          simp only at htp h
          cases hr : sepLoop ctx need rs (r2.mod.path :: have_) syn2 next2 with
          | error err => simp [hr] at h
          | ok res =>
            rcases res with ⟨rs'', h'', syn'', next''⟩
            simp only [hr, pure, Except.pure, Except.ok.injEq, Prod.mk.injEq] at h
            rcases h with ⟨rfl, _, rfl, rfl⟩
            rcases htp with ⟨p1, p2, p3, p4, p5, p6⟩
            have p3' : Match (A ++ (entsOf liveRq entRq ((done ++ [r2]) ++ rs) ++ C)) (view syn2.stmts) := by
              rw [List.append_assoc]; exact p3
            have := ih (done ++ [r2]) _ syn2 next2 rs'' h'' syn'' next'' hlive' p1 (Nat.lt_of_lt_of_le hnext p2) p3' p4 p5 p6 hr
            rw [List.append_assoc] at this
            exact ⟨this.1, Nat.le_trans p2 this.2.1, this.2.2⟩
    | none =>
      simp only [hf, bind, Except.bind] at h
      cases hd : deref r.lineId with
      | error err => simp [hd] at h
      | ok i =>
        have hi : i = r.lineId := by unfold deref at hd; split at hd <;> simp at hd; exact hd.symm
        subst hi
        simp only [hd] at h
        cases hr : sepLoop ctx need rs have_ (markRemoved syn r.lineId) next with
        | error err => simp [hr] at h
        | ok res =>
          have := remove res hr
          rcases res with ⟨rs'', h'', syn'', next''⟩
          simp only [hr, pure, Except.pure, Except.ok.injEq, Prod.mk.injEq] at h
          rcases h with ⟨rfl, _, rfl, rfl⟩
          exact this

end ModVerif.Modfile.Edit
