/-
  Helper lemmas for Tie/FnEditSort.lean (part B): the statement loop of the inlined generic `removeDups`
  (`File_removeDups_loop7` / `_loop8`, `WorkFile_removeDups_loop3` / `_loop4`) against the model's `dropKilled`,
  on a represented statement list (`FnEditRep.RStmts`).  The loop overwrites the `Line` list of every block
  (also of the blocks it drops, which become garbage); everything else of the heap is kept.
-/
import ModVerif.Proofs.TieFnEditSortA
set_option linter.unusedSimpArgs false
set_option linter.unusedVariables false
namespace ModVerif.Tie.FnEditSortB
open ModVerif ModVerif.GoRt ModVerif.Generated.Edit ModVerif.Tie.FnEditRep ModVerif.Tie.FnEditSortA
open ModVerif.Modfile.Edit (treeIds dropKilled)

/-- fuel measure of a statement list: statements plus lines inside blocks -/
def nodes : List Modfile.Expr → Nat
  | [] => 0
  | .lineBlock b :: xs => b.lines.length + 1 + nodes xs
  | _ :: xs => 1 + nodes xs

theorem length_le_nodes : ∀ ss : List Modfile.Expr, ss.length ≤ nodes ss
  | [] => Nat.le_refl _
  | s :: ss => by
    have := length_le_nodes ss
    cases s <;> simp only [nodes, List.length_cons] <;> omega

/-! ### frame lemmas -/

theorem RLines.blocks {h : Heap} (bl : List LineBlock) : ∀ {ps : List Int} {ls : List Modfile.Line},
    RLines h ps ls → RLines { h with blocks := bl } ps ls :=
  RLines.mono (h := h) (h' := { h with blocks := bl }) (fun _ _ x => x)

theorem RLines.ofBlocks {h : Heap} {bl : List LineBlock} : ∀ {ps : List Int} {ls : List Modfile.Line},
    RLines { h with blocks := bl } ps ls → RLines h ps ls :=
  RLines.mono (h := { h with blocks := bl }) (h' := h) (fun _ _ x => x)

/-- a statement list only reads the block objects of its own block pointers -/
theorem RStmts.blocksFrame {h : Heap} {bl : List LineBlock} : ∀ {es : List Expr} {ss : List Modfile.Expr},
    RStmts h es ss → (∀ p ∈ blockPtrs es, heapGet bl p = heapGet h.blocks p) → RStmts { h with blocks := bl } es ss
  | [], [], _, _ => trivial
  | e :: es, s :: ss, r, hb => by
    have r1 := r.1
    cases e <;> cases s <;> simp only [RExpr] at r1 <;> try exact r1.elim
    · exact ⟨r1, RStmts.blocksFrame r.2 (fun p hp => hb p (by simpa [blockPtrs] using hp))⟩
    · exact ⟨r1, RStmts.blocksFrame r.2 (fun p hp => hb p (by simpa [blockPtrs] using hp))⟩
    · obtain ⟨ps, r2, r3⟩ := r1
      refine ⟨⟨ps, ?_, RLines.blocks bl r3⟩, RStmts.blocksFrame r.2 (fun p hp => hb p (by simp [blockPtrs, hp]))⟩
      show heapGet bl _ = _
      rw [hb _ (by simp [blockPtrs])]; exact r2
  | [], _ :: _, r, _ => r.elim
  | _ :: _, [], r, _ => r.elim

theorem RLines_forall {h : Heap} : ∀ {ps : List Int} {ls : List Modfile.Line}, RLines h ps ls →
    ∀ l ∈ ls, RLine h (l.id : Int) l
  | [], [], _, l, hl => by cases hl
  | _ :: _, _ :: _, r, l, hl => by
    rcases List.mem_cons.1 hl with rfl | hl'
    · have := r.1; rw [this.2] at this; exact this
    · exact RLines_forall r.2 l hl'
  | [], _ :: _, r, _, _ => r.elim
  | _ :: _, [], r, _, _ => r.elim

theorem RLines_ofForall {h : Heap} : ∀ {ls : List Modfile.Line}, (∀ l ∈ ls, RLine h (l.id : Int) l) →
    RLines h (ls.map fun l => (l.id : Int)) ls
  | [], _ => trivial
  | l :: ls, hl => ⟨hl l List.mem_cons_self, RLines_ofForall (fun m hm => hl m (List.mem_cons_of_mem _ hm))⟩

/-- the pointers of a filtered block are the filtered pointers -/
theorem RLines_filter {h : Heap} {ps : List Int} {ls : List Modfile.Line} (r : RLines h ps ls) (q : Modfile.Line → Bool) :
    RLines h ((ls.filter q).map fun l => (l.id : Int)) (ls.filter q) :=
  RLines_ofForall (fun l hl => RLines_forall r l (List.mem_filter.1 hl).1)

theorem filter_ptrs (km : List (Int × Bool)) (kl : List Nat) (hK : KillRel km kl) (ls : List Modfile.Line) :
    (ls.map fun l => (l.id : Int)).filter (fun x => !(mapGet km x false).1) =
      (ls.filter fun l => !kl.contains l.id).map fun l => (l.id : Int) := by
  induction ls with
  | nil => rfl
  | cons l ls ih =>
    simp only [List.map_cons, List.filter_cons, hK l.id, ih]
    split <;> rfl

theorem blockG_setLine (b : Modfile.LineBlock) (ps qs : List Int) (ls : List Modfile.Line) :
    ({ (blockG b ps) with Line := qs } : LineBlock) = blockG { b with lines := ls } qs := rfl

theorem heapGet_set_other' {α : Type} {l : List α} {p q : Int} {w : α} (v : α) (h : heapGet l p = .ok w) (hq : q ≠ p) :
    heapGet (l.set (p.toNat - 1) v) q = heapGet l q := heapGet_listSet_other v h hq

theorem blockPtrs_cons_block (p : Int) (es : List Expr) : blockPtrs (Expr.LineBlock p :: es) = p :: blockPtrs es := rfl
theorem blockPtrs_cons_line (p : Int) (es : List Expr) : blockPtrs (Expr.Line p :: es) = blockPtrs es := rfl
theorem blockPtrs_cons_cb (p : Int) (es : List Expr) : blockPtrs (Expr.CommentBlock p :: es) = blockPtrs es := rfl
theorem blockPtrs_nil : blockPtrs [] = [] := rfl

/-! ### the statement loop -/

/-- **loop 7 (with loop 8) of `File.removeDups` is `dropKilled`** -/
theorem loop7_spec (syn : Int) (km : List (Int × Bool)) (kl : List Nat) (hK : KillRel km kl) :
    ∀ (rest : List Expr) (ss : List Modfile.Expr) (pre rx : List Expr) (ri : Int) (fuel : Nat) (h : Heap) (acc : List Expr),
      rx = pre ++ rest → ri = (pre.length : Int) → nodes ss < fuel → RStmts h rest ss → (blockPtrs rest).Nodup →
      ∃ bl' es', File_removeDups_loop7 rx syn km fuel ri h acc = .ok (len rx, { h with blocks := bl' }, acc ++ es') ∧
        bl'.length = h.blocks.length ∧ (∀ p, p ∉ blockPtrs rest → heapGet bl' p = heapGet h.blocks p) ∧
        RStmts { h with blocks := bl' } es' (dropKilled kl ss) ∧ (blockPtrs es').Sublist (blockPtrs rest)
  | [], [], pre, rx, ri, fuel + 1, h, acc, hrx, hri, _, _, _ => by
    subst hrx hri
    have := not_lt_len_end pre
    refine ⟨h.blocks, [], ?_, rfl, fun _ _ => rfl, trivial, List.Sublist.refl _⟩
    simp [File_removeDups_loop7, this, pure, Except.pure, len_eq]
  | e :: rest, s :: ss, pre, rx, ri, fuel + 1, h, acc, hrx, hri, hf, r, hnd => by
    have ih := loop7_spec syn km kl hK rest ss (pre ++ [e]) rx (ri + 1) fuel
    subst hrx hri
    have hrx' : pre ++ e :: rest = pre ++ [e] ++ rest := by simp
    have hri' : (pre.length : Int) + 1 = ((pre ++ [e]).length : Int) := by simp
    have r1 := r.1
    cases e <;> cases s <;> simp only [RExpr] at r1 <;> try exact r1.elim
    · -- comment block
      rename_i p c
      have hf' : nodes ss < fuel := by simp only [nodes] at hf; omega
      obtain ⟨bl', es', e1, e2, e3, e4, e5⟩ := ih h (acc ++ [Expr.CommentBlock p]) hrx' hri' hf' r.2 hnd
      refine ⟨bl', Expr.CommentBlock p :: es', ?_, e2, e3, ⟨r1, e4⟩, e5⟩
      simp only [File_removeDups_loop7, lt_len_cursor, decide_true, if_true, idxL_cursor, bind, Except.bind, e1]
      simp
    · -- line
      rename_i p l
      have hf' : nodes ss < fuel := by simp only [nodes] at hf; omega
      have hk : (mapGet km p false).1 = kl.contains l.id := by rw [r1.2]; exact hK l.id
      simp only [File_removeDups_loop7, lt_len_cursor, decide_true, if_true, idxL_cursor, bind, Except.bind, hk]
      cases hc : kl.contains l.id
      · obtain ⟨bl', es', e1, e2, e3, e4, e5⟩ := ih h (acc ++ [Expr.Line p]) hrx' hri' hf' r.2 hnd
        refine ⟨bl', Expr.Line p :: es', ?_, e2, e3, ?_, e5⟩
        · simp only [Bool.false_eq_true, if_false, e1]; simp
        · simp only [dropKilled, hc, Bool.false_eq_true, if_false]
          exact ⟨RLine.mono (h := h) (h' := { h with blocks := bl' }) (fun _ _ x => x) r1, e4⟩
      · obtain ⟨bl', es', e1, e2, e3, e4, e5⟩ := ih h acc hrx' hri' hf' r.2 hnd
        refine ⟨bl', es', ?_, e2, e3, ?_, e5⟩
        · simp only [if_true, e1]
        · simp only [dropKilled, hc, if_true]; exact e4
    · -- block
      rename_i p b
      obtain ⟨ps, r2, r3⟩ := r1
      have hf' : nodes ss < fuel := by simp only [nodes] at hf; omega
      have hfl : b.lines.length < fuel := by simp only [nodes] at hf; omega
      rw [blockPtrs_cons_block, List.nodup_cons] at hnd
      have hps := r3.ptrs
      -- the inner filter loop
      have hin : File_removeDups_loop8 ps km p h fuel 0 [] =
          .ok (len ps, (b.lines.filter fun l => !kl.contains l.id).map fun l => (l.id : Int)) := by
        rw [loop8_eq]
        have := filterLoopG_spec (fun x => pure (!(mapGet km x false).1)) (fun x => !(mapGet km x false).1)
          ps [] ps 0 fuel [] rfl rfl (by rw [← r3.length] at hfl; exact hfl) (fun _ _ => rfl)
        rw [this, hps, filter_ptrs km kl hK]; rfl
      obtain ⟨lines', hl'⟩ : ∃ x, x = b.lines.filter fun l => !kl.contains l.id := ⟨_, rfl⟩
      obtain ⟨ps', hp'⟩ : ∃ x, x = lines'.map fun l => (l.id : Int) := ⟨_, rfl⟩
      rw [← hl', ← hp'] at hin
      obtain ⟨bl1, hb1⟩ : ∃ x, x = h.blocks.set (p.toNat - 1) (blockG { b with lines := lines' } ps') := ⟨_, rfl⟩
      have hset : heapSet h.blocks p ({ (blockG b ps) with Line := ps' } : LineBlock) = .ok bl1 := by
        rw [hb1]; exact heapSet_of_get _ r2
      have hg1 : heapGet bl1 p = .ok (blockG { b with lines := lines' } ps') := by
        rw [hb1]; exact heapGet_listSet_same _ r2
      have rrest : RStmts { h with blocks := bl1 } rest ss := by
        refine RStmts.blocksFrame r.2 (fun q hq => ?_)
        rw [hb1]
        exact heapGet_listSet_other _ r2 (fun e => hnd.1 (e ▸ hq))
      obtain ⟨bl', es', e1, e2, e3, e4, e5⟩ := ih { h with blocks := bl1 }
        (if lines'.isEmpty then acc else acc ++ [Expr.LineBlock p]) hrx' hri' hf' rrest hnd.2
      have hlen : (decide (len ps' = 0)) = lines'.isEmpty := by
        rw [hp']
        cases lines' with
        | nil => rfl
        | cons a t => simp [len_eq, -len_cons]; omega
      have hgp : heapGet bl' p = .ok (blockG { b with lines := lines' } ps') := by rw [e3 p hnd.1]; exact hg1
      have hlr : RLines h ps' lines' := by rw [hp', hl']; exact RLines_filter r3 _
      refine ⟨bl', if lines'.isEmpty then es' else Expr.LineBlock p :: es', ?_, by rw [e2, hb1]; simp, ?_, ?_, ?_⟩
      · simp only [File_removeDups_loop7, lt_len_cursor, decide_true, if_true, idxL_cursor, bind, Except.bind, r2, blockG_Line,
          hin, hset, hlen]
        cases hE : lines'.isEmpty
        · simp only [hE, Bool.false_eq_true, if_false] at e1 ⊢
          rw [e1]; simp
        · simp only [hE, if_true] at e1 ⊢
          rw [e1]
      · intro q hq
        rw [blockPtrs_cons_block, List.mem_cons, not_or] at hq
        rw [e3 q hq.2]
        show heapGet bl1 q = _
        rw [hb1]
        exact heapGet_listSet_other _ r2 hq.1
      · show RStmts _ _ (dropKilled kl (Modfile.Expr.lineBlock b :: ss))
        simp only [dropKilled, ← hl']
        cases hE : lines'.isEmpty
        · simp only [Bool.false_eq_true, if_false]
          exact ⟨⟨ps', hgp, RLines.blocks bl' hlr⟩, e4⟩
        · simp only [if_true]; exact e4
      · rw [blockPtrs_cons_block]
        cases hE : lines'.isEmpty
        · simp only [Bool.false_eq_true, if_false, blockPtrs_cons_block]
          exact List.Sublist.cons_cons _ e5
        · simp only [if_true]; exact List.Sublist.cons _ e5
  | [], _ :: _, _, _, _, _, _, _, _, _, _, r, _ => r.elim
  | _ :: _, [], _, _, _, _, _, _, _, _, _, r, _ => r.elim
  | _, _, _, _, _, 0, _, _, _, _, hf, _, _ => by cases hf

end ModVerif.Tie.FnEditSortB
