/-
  Tie proof, zip/zip.go `checkFiles`: the first loop (`checkFiles_loop1`, the go.mod pre-pass) is the model's `prePass`
  (fold of `preStep`).  The generated loop also computes the version string `vers` of the root go.mod (`versStep`); the
  model carries the flag `Pre.ge124` instead.
-/
import ModVerif.Proofs.TieFnZipCfBase
namespace ModVerif.TieFnZipCf
open ModVerif ModVerif.GoRt ModVerif.GoRtZip ModVerif.TieFnZip
open ModVerif.Generated.Zip (pathInfo File FileError CheckedFiles)
open ModVerif.Drv.GenZip (toGFile modeBits)

/-! ### the files as the generated code sees them -/

@[simp] theorem toGFile_Path (f : Zip.FileInfo) : (toGFile f).Path = f.path := rfl
@[simp] theorem toGFile_Open (f : Zip.FileInfo) : (toGFile f).Open = (f.content, none) := rfl

theorem toGFile_Lstat_err (f : Zip.FileInfo) (h : f.mode = .lstatErr) : (toGFile f).Lstat = (default, some "lstat") := by
  simp [toGFile, h]

theorem toGFile_Lstat_ok (f : Zip.FileInfo) (h : f.mode ≠ .lstatErr) :
    (toGFile f).Lstat = ({ Mode := modeBits f.mode, IsDir := f.mode == .dir, Size := f.size }, none) := by
  have : (f.mode == Zip.Mode.lstatErr) = false := by simpa using h
  simp [toGFile, this]

theorem modeIsRegular_modeBits (m : Zip.Mode) (h : m ≠ .lstatErr) : modeIsRegular (modeBits m) = (m == .regular) := by
  cases m <;> first | (exact absurd rfl h) | decide +kernel

theorem isSymlink_modeBits (m : Zip.Mode) (h : m ≠ .lstatErr) :
    decide (band (modeBits m) 2401763328 = 134217728) = (m == .symlink) := by
  cases m <;> first | (exact absurd rfl h) | decide +kernel

/-- the `i`-th element of the translated list -/
theorem idxL_map_toGFile (done : List Zip.FileInfo) (f : Zip.FileInfo) (rest : List Zip.FileInfo) :
    idxL ((done ++ f :: rest).map toGFile) (done.length : Int) = .ok (toGFile f) := by
  rw [idxL_natCast (by simp)]
  simp

theorem lt_len_map_toGFile (done : List Zip.FileInfo) (f : Zip.FileInfo) (rest : List Zip.FileInfo) :
    decide ((done.length : Int) < len ((done ++ f :: rest).map toGFile)) = true := by
  simp [len_eq]; omega

theorem not_lt_len_map_toGFile (files : List Zip.FileInfo) :
    decide ((files.length : Int) < len (files.map toGFile)) = false := by
  simp [len_eq]

/-! ### the version string of the root go.mod -/

/-- what one iteration of the first loop does to `vers`: a regular file `go.mod` at the root sets it -/
def versStep (pgv : Bytes → Bytes → Bytes) (vl : Bytes → Bytes) (v : Bytes) (f : Zip.FileInfo) : Bytes :=
  if Zip.equalFoldGoMod (PathClean.pathSplit f.path).2 && f.mode == .regular &&
      ((PathClean.pathSplit f.path).2 == Zip.goModName && (PathClean.pathSplit f.path).1 == []) then
    vl (pgv Zip.goModName f.content)
  else v

/-- `vers` after the first loop -/
def versOf (pgv : Bytes → Bytes → Bytes) (vl : Bytes → Bytes) (files : List Zip.FileInfo) : Bytes :=
  files.foldl (versStep pgv vl) []

section
variable (cfp : Bytes → Option String) (ef : Bytes → Bytes → Bool) (pgv : Bytes → Bytes → Bytes) (sf : Int → Int)
  (tl : Bytes → Bytes) (vc : Bytes → Bytes → Int) (vl : Bytes → Bytes)

/-- one iteration of loop 1 -/
theorem loop1_step (hef : ∀ s, ef s Zip.goModName = Zip.equalFoldGoMod s) (vf : List File) (vs : List Int)
    (done : List Zip.FileInfo) (f : Zip.FileInfo) (rest : List Zip.FileInfo) (fuel : Nat) (a : Zip.Pre) (v : Bytes) :
    Generated.Zip.checkFiles_loop1 cfp ef pgv sf tl vc vl ((done ++ f :: rest).map toGFile) vf vs (fuel + 1)
        (done.length : Int) (epOf a.st.errPaths) (embCF a.st.cf) (hgOf a.haveGoMod) v =
      Generated.Zip.checkFiles_loop1 cfp ef pgv sf tl vc vl ((done ++ f :: rest).map toGFile) vf vs fuel
        ((done.length + 1 : Nat) : Int) (epOf (Zip.preStep a f).st.errPaths) (embCF (Zip.preStep a f).st.cf)
        (hgOf (Zip.preStep a f).haveGoMod) (versStep pgv vl v f) := by
  rw [Generated.Zip.checkFiles_loop1]
  simp only [lt_len_map_toGFile, if_true, idxL_map_toGFile, bind_ok, toGFile_Path]
  generalize (done ++ f :: rest).map toGFile = G
  have hef' : ∀ s, ef s ([103, 111, 46, 109, 111, 100] : Bytes) = Zip.equalFoldGoMod s := hef
  have hps : GoRt.pathSplit f.path = PathClean.pathSplit f.path := rfl
  have hi : ((done.length + 1 : Nat) : Int) = (done.length : Int) + 1 := by omega
  simp only [hef', hps, hi]
  clear hps
  unfold Zip.preStep versStep
  simp only []
  by_cases hb : Zip.equalFoldGoMod (PathClean.pathSplit f.path).2 = true
  · simp only [hb, if_true, Bool.true_and]
    have hae := addError_eq cfp ef pgv sf tl vc vl fuel vf vs a.st f.path false .lstat
    rw [show reasonText .lstat = "lstat" from rfl] at hae
    obtain ⟨path, mode, size, content, g⟩ := f
    cases mode
    · -- regular
      simp only [toGFile, readAll, Zip.goModName]
      by_cases hc : (PathClean.pathSplit path).snd = [103, 111, 46, 109, 111, 100] ∧ (PathClean.pathSplit path).fst = []
      · simp [hc, hgOf_append, modeIsRegular_modeBits]
      · simp [hc, hgOf_append, modeIsRegular_modeBits]
    · simp [toGFile, modeIsRegular_modeBits]
    · simp [toGFile, modeIsRegular_modeBits]
    · simp [toGFile, modeIsRegular_modeBits]
    · simp [toGFile, hae]
  · simp only [hb, Bool.false_eq_true, if_false, Bool.false_and]

/-- loop 1 from position `done.length` on -/
theorem loop1_from (hef : ∀ s, ef s Zip.goModName = Zip.equalFoldGoMod s) (vf : List File) (vs : List Int) :
    ∀ (rest done : List Zip.FileInfo) (fuel : Nat) (a : Zip.Pre) (v : Bytes), rest.length + 1 ≤ fuel →
    Generated.Zip.checkFiles_loop1 cfp ef pgv sf tl vc vl ((done ++ rest).map toGFile) vf vs fuel
        (done.length : Int) (epOf a.st.errPaths) (embCF a.st.cf) (hgOf a.haveGoMod) v =
      .ok (((done ++ rest).length : Int), epOf (rest.foldl Zip.preStep a).st.errPaths,
        embCF (rest.foldl Zip.preStep a).st.cf, hgOf (rest.foldl Zip.preStep a).haveGoMod,
        rest.foldl (versStep pgv vl) v) := by
  intro rest
  induction rest with
  | nil =>
    intro done fuel a v hf
    obtain ⟨fuel, rfl⟩ : ∃ k, fuel = k + 1 := ⟨fuel - 1, by omega⟩
    rw [Generated.Zip.checkFiles_loop1]
    simp only [List.append_nil, not_lt_len_map_toGFile, Bool.false_eq_true, if_false, List.foldl_nil]
    rfl
  | cons f rest ih =>
    intro done fuel a v hf
    obtain ⟨fuel, rfl⟩ : ∃ k, fuel = k + 1 := ⟨fuel - 1, by omega⟩
    rw [loop1_step cfp ef pgv sf tl vc vl hef vf vs done f rest fuel a v]
    have e : done ++ f :: rest = (done ++ [f]) ++ rest := by simp
    have hl : ((done.length + 1 : Nat) : Int) = ((done ++ [f]).length : Int) := by simp
    rw [e, hl, ih (done ++ [f]) fuel (Zip.preStep a f) (versStep pgv vl v f) (by simp at hf; omega)]
    rfl

/-- the first loop of `checkFiles` is the model's `prePass`; it also leaves the version string `versOf` -/
theorem loop1_eq (hef : ∀ s, ef s Zip.goModName = Zip.equalFoldGoMod s) (files : List Zip.FileInfo) (fuel : Nat)
    (hf : files.length + 1 ≤ fuel) :
    Generated.Zip.checkFiles_loop1 cfp ef pgv sf tl vc vl (files.map toGFile) [] [] fuel 0 [] default [] [] =
      .ok ((files.length : Int), epOf (Zip.prePass files).st.errPaths, embCF (Zip.prePass files).st.cf,
        hgOf (Zip.prePass files).haveGoMod, versOf pgv vl files) := by
  have := loop1_from cfp ef pgv sf tl vc vl hef [] [] files [] fuel {} [] hf
  simp only [List.nil_append, List.length_nil] at this
  exact this

end

end ModVerif.TieFnZipCf
