/-
  EditStartFix, part B — `fixRetract` (runs only with a fixer): `fixRetractLoop` re-parses the interval of every retract
  entry with the fixer, writes the fixed versions into the line by `FileSyntax.updateLine` and into the typed entry.
  One `updateLine` per entry: `Match.frame` with K = the retract segment, S = the id of the line.  The line keeps its id,
  its `inBlock` flag and its comments, so everything else of `ParsedOK` is carried by `SynOK.updateLine`.
  No hypothesis on the fixer is needed here: the token written is the raw fixed version, which is what `entRt` reads
  (`tokIs`), also when it is empty.
-/
import ModVerif.Proofs.EditStartFixA
import ModVerif.Proofs.ModfileC20Lax
set_option linter.unusedSimpArgs false
namespace ModVerif.Modfile.Edit.SFix
open ModVerif ModVerif.Modfile ModVerif.Modfile.Edit ModVerif.Proofs.ModfileC20 ModVerif.Proofs.EditMore

theorem parseVersion_some (fx : Fixer) (p tok tok' v : Bytes) (h : parseVersion p tok (some fx) = (tok', .ok v)) :
    tok' = v := by
  unfold parseVersion at h
  split at h
  · simp at h
  · simp only at h
    split at h
    · simp at h
    · simp at h
    · simp only [Prod.mk.injEq, Except.ok.injEq] at h
      rw [← h.1, ← h.2]

/-- the single-version form: the token becomes the fixed version, which is both ends of the interval -/
theorem pvi_one (fx : Fixer) (p x : Bytes) (args' : List Bytes) (vi : VersionInterval) (rest : List Bytes)
    (h : parseVersionInterval p [x] (some fx) = (args', .ok (vi, rest))) : args' = [vi.low] ∧ vi.low = vi.high := by
  unfold parseVersionInterval at h
  simp only at h
  split at h
  · simp at h
  · split at h
    · split at h
      · simp at h
      · rename_i t0' v hv
        simp only [Prod.mk.injEq, Except.ok.injEq] at h
        obtain ⟨rfl, rfl, _⟩ := h
        have := parseVersion_some _ _ _ _ _ hv
        subst this
        exact ⟨rfl, rfl⟩
    · simp at h

theorem pvi_nil (fx : Fixer) (p : Bytes) (args' : List Bytes) (vi : VersionInterval) (rest : List Bytes)
    (h : parseVersionInterval p [] (some fx) = (args', .ok (vi, rest))) : False := by
  unfold parseVersionInterval at h
  simp at h

/-- the bracket form -/
theorem pvi_two (fx : Fixer) (p x y : Bytes) (args' : List Bytes) (vi : VersionInterval) (rest : List Bytes)
    (h : parseVersionInterval p [[91], x, [44], y, [93]] (some fx) = (args', .ok (vi, rest))) :
    args' = [[91], vi.low, [44], vi.high, [93]] := by
  cases hlow : parseVersion p x (some fx) with
  | mk t1' r1 =>
    cases r1 with
    | error k => simp [parseVersionInterval, hlow] at h
    | ok low =>
      cases hhigh : parseVersion p y (some fx) with
      | mk t2' r2 =>
        cases r2 with
        | error k => simp [parseVersionInterval, hlow, hhigh] at h
        | ok high =>
          simp [parseVersionInterval, hlow, hhigh] at h
          obtain ⟨rfl, rfl, _⟩ := h
          have e1 := parseVersion_some _ _ _ _ _ hlow
          have e2 := parseVersion_some _ _ _ _ _ hhigh
          subst e1 e2
          rfl

/-- **the token step of `fixRetractLoop`**: on a live line (block verb `pre` in front) that renders the retract entry `r`,
    a successful re-parse with the fixer writes tokens that render the entry with the fixed interval -/
theorem fr_tokens (fx : Fixer) (path : Bytes) (r : Retract) (pre : List Bytes) (l : Line) (s : List Comment)
    (hpre : pre = [] ∨ ∃ v, pre = [v]) (_hlive : l.token ≠ [])
    (hacc : (entRt r).acc (pre ++ l.token) s)
    (args' : List Bytes) (vi : VersionInterval) (rest : List Bytes)
    (hp : parseVersionInterval path (frArgs l).2 (some fx) = (args', .ok (vi, rest))) :
    (entRt { r with interval := vi }).acc (pre ++ ((frArgs l).1 ++ args')) s ∧ (frArgs l).1 ++ args' ≠ [] := by
  simp only [entRt] at hacc ⊢
  rcases hacc with ⟨x, ht, _, _⟩ | ⟨x, y, ht, _, _⟩
  · rcases hpre with rfl | ⟨v, rfl⟩
    · simp only [List.nil_append] at ht ⊢
      have hfa : frArgs l = ([B "retract"], [x]) := by simp [frArgs, ht]
      rw [hfa] at hp ⊢
      obtain ⟨e1, e2⟩ := pvi_one _ _ _ _ _ _ hp
      subst e1
      exact ⟨Or.inl ⟨vi.low, rfl, Or.inl rfl, e2⟩, by simp⟩
    · simp only [List.cons_append, List.nil_append, List.cons.injEq] at ht
      obtain ⟨rfl, ht⟩ := ht
      by_cases hx : x = B "retract"
      · have hfa : frArgs l = ([x], []) := by simp [frArgs, ht, hx]
        rw [hfa] at hp
        exact (pvi_nil _ _ _ _ _ hp).elim
      · have hfa : frArgs l = ([], [x]) := by simp [frArgs, ht, hx]
        rw [hfa] at hp ⊢
        obtain ⟨e1, e2⟩ := pvi_one _ _ _ _ _ _ hp
        subst e1
        exact ⟨Or.inl ⟨vi.low, rfl, Or.inl rfl, e2⟩, by simp⟩
  · rcases hpre with rfl | ⟨v, rfl⟩
    · simp only [List.nil_append] at ht ⊢
      have hfa : frArgs l = ([B "retract"], [[91], x, [44], y, [93]]) := by simp [frArgs, ht]
      rw [hfa] at hp ⊢
      have e1 := pvi_two _ _ _ _ _ _ _ hp
      subst e1
      exact ⟨Or.inr ⟨vi.low, vi.high, rfl, Or.inl rfl, Or.inl rfl⟩, by simp⟩
    · simp only [List.cons_append, List.nil_append, List.cons.injEq] at ht
      obtain ⟨rfl, ht⟩ := ht
      have hfa : frArgs l = ([], [[91], x, [44], y, [93]]) := by
        have : ([91] : Bytes) ≠ B "retract" := by decide +kernel
        simp [frArgs, ht, this]
      rw [hfa] at hp ⊢
      have e1 := pvi_two _ _ _ _ _ _ _ hp
      subst e1
      exact ⟨Or.inr ⟨vi.low, vi.high, rfl, Or.inl rfl, Or.inl rfl⟩, by simp⟩

/-! ### the syntax-layer part of `ParsedOK` -/

structure SynOK (stmts : List Expr) : Prop where
  nodup : (treeIds stmts).Nodup
  blockTok : ∀ b, Expr.lineBlock b ∈ stmts → ∃ v, b.token = [v]
  flags : ∀ x ∈ stmts, FlagOK x

theorem SynOK.updateLine {fs : FileSyntax} (h : SynOK fs.stmts) (id : Nat) (g : Line → Line)
    (hid : ∀ l, (g l).id = l.id) (hfl : ∀ l, (g l).inBlock = l.inBlock) : SynOK (fs.updateLine id g).stmts := by
  refine ⟨?_, ?_, ?_⟩
  · rw [treeIds_updateLine fs id g h.nodup hid]; exact h.nodup
  · rw [updateLine_stmts fs id g h.nodup]
    intro b hb
    rcases mem_mapLines_block hb with ⟨b0, hb0, rfl⟩
    exact h.blockTok b0 hb0
  · rw [updateLine_stmts fs id g h.nodup]
    intro x hx
    rcases List.mem_map.1 hx with ⟨x0, hx0, rfl⟩
    have h0 := h.flags x0 hx0
    cases x0 with
    | line l =>
      simp only [mapLinesStmt, FlagOK] at h0 ⊢
      split
      · rw [hfl]; exact h0
      · exact h0
    | lineBlock b =>
      simp only [mapLinesStmt, FlagOK] at h0 ⊢
      intro l hl
      rcases List.mem_map.1 hl with ⟨l0, hl0, rfl⟩
      split
      · rw [hfl]; exact h0 l0 hl0
      · exact h0 l0 hl0
    | commentBlock _ => trivial
    | lparen _ => trivial
    | rparen _ => trivial

theorem SynOK.locShape {stmts : List Expr} (h : SynOK stmts) : ∀ p ∈ loc stmts, p.1 = [] ∨ ∃ v, p.1 = [v] := by
  intro p hp
  unfold loc at hp
  rcases List.mem_flatMap.1 hp with ⟨x, hx, hpx⟩
  cases x with
  | line l =>
    simp only [locStmt, List.mem_singleton] at hpx
    subst hpx
    exact Or.inl rfl
  | lineBlock b =>
    simp only [locStmt, List.mem_map] at hpx
    rcases hpx with ⟨l, _, rfl⟩
    exact Or.inr (h.blockTok b hx)
  | commentBlock _ => simp [locStmt] at hpx
  | lparen _ => simp [locStmt] at hpx
  | rparen _ => simp [locStmt] at hpx

theorem nodupIds_of {stmts : List Expr} (h : (treeIds stmts).Nodup) : NodupIds stmts := by
  unfold NodupIds; rw [← treeIds_eq_linesOf]; exact h

/-- a reported error is never taken back -/
theorem fixRetractLoop_noerr (path : Bytes) (fx : Fixer) : ∀ (rs : List Retract) (fs : FileSyntax) (e : List RuleErr),
    (fixRetractLoop path fx rs fs e).2.2 = [] → e = [] := by
  intro rs
  induction rs with
  | nil => intro fs e h; exact h
  | cons r rest ih =>
    intro fs e h
    rw [fixRetractLoop_cons] at h
    cases hf : fs.findLine r.lineId with
    | none => rw [hf] at h; exact ih _ _ h
    | some l =>
      rw [hf] at h
      simp only at h
      have := ih _ _ h
      simp only [frStep] at this
      split at this
      · cases this
      · exact this

/-- **one iteration** (`Match.frame` with K = the retract segment, S = the line of the entry) -/
theorem fr_step (fx : Fixer) (path : Bytes) (A C : List Ent) (done todo : List Retract) (r : Retract) (fs : FileSyntax)
    (hs : SynOK fs.stmts) (hm : Match (A ++ ((done ++ r :: todo).map entRt ++ C)) (view fs.stmts)) :
    ∃ l, fs.findLine r.lineId = some l ∧
      ∀ (args' : List Bytes) (vi : VersionInterval) (rest : List Bytes),
        parseVersionInterval path (frArgs l).2 (some fx) = (args', .ok (vi, rest)) →
        Match (A ++ ((done ++ { r with interval := vi } :: todo).map entRt ++ C))
          (view (fs.updateLine r.lineId (fun l' => { l' with token := (frArgs l).1 ++ args' })).stmts) := by
  have hrK : entRt r ∈ A ++ ((done ++ r :: todo).map entRt ++ C) :=
    List.mem_append_right _ (List.mem_append_left _ (List.mem_map.2 ⟨r, by simp, rfl⟩))
  rcases hm.cover _ hrK with ⟨v, hv, hvid, hacc⟩
  rcases mem_view.1 hv with ⟨p, hp, hlive, rfl⟩
  have hpid : p.2.id = r.lineId := hvid
  have hmemL : p.2 ∈ linesOf fs.stmts := by
    have := allLines_eq_loc fs
    unfold linesOf
    rw [show ({ stmts := fs.stmts } : FileSyntax).allLines = (loc fs.stmts).map (·.2) from allLines_eq_loc { stmts := fs.stmts }]
    exact List.mem_map.2 ⟨p, hp, rfl⟩
  have hfind : fs.findLine r.lineId = some p.2 := by
    rw [← hpid]; exact findLine_of_mem (nodupIds_of hs.nodup) hmemL
  refine ⟨p.2, hfind, ?_⟩
  intro args' vi rest hpv
  have hlive' : p.2.token ≠ [] := by
    intro e; simp [liveLoc, e] at hlive
  obtain ⟨hacc', hne⟩ := fr_tokens fx path r p.1 p.2 p.2.comments.suffix (hs.locShape p hp) hlive' hacc args' vi rest hpv
  let g : Line → Line := fun l' => { l' with token := (frArgs p.2).1 ++ args' }
  have hview := mem_view_updateLine fs r.lineId g hs.nodup (fun _ => rfl)
  have hKids : ((done ++ { r with interval := vi } :: todo).map entRt).map (·.id) = ((done ++ r :: todo).map entRt).map (·.id) := by
    simp [List.map_append, entRt]
  have hnd := hm.nodup
  simp only [List.map_append] at hnd
  have ndK : (((done ++ r :: todo).map entRt).map (·.id)).Nodup := by
    have := (List.nodup_append.1 (List.nodup_append.1 hnd).2.1).1
    simpa [List.map_append] using this
  have hrin : r.lineId ∈ ((done ++ r :: todo).map entRt).map (·.id) :=
    List.mem_map.2 ⟨entRt r, List.mem_map.2 ⟨r, by simp, rfl⟩, rfl⟩
  -- the new line
  have hnew : mkV (p.1, g p.2) ∈ view (fs.updateLine r.lineId g).stmts :=
    (hview _).2 (Or.inr ⟨p, hp, hpid, by
      simp only [liveLoc, g]
      cases hx : (frArgs p.2).1 ++ args' with
      | nil => exact absurd hx hne
      | cons _ _ => rfl, rfl⟩)
  refine Match.frame [r.lineId] hm ?_ ?_ ?_ ?_ ?_ ?_ ?_
  · intro v hv
    have hv' : v.id ≠ r.lineId := by simpa using hv
    rw [hview v]
    constructor
    · rintro (⟨_, h2⟩ | ⟨q, _, hq, _, rfl⟩)
      · exact h2
      · exact absurd hq hv'
    · intro h2; exact Or.inl ⟨hv', h2⟩
  · intro i hi
    have : i = r.lineId := by simpa using hi
    subst this
    exact Or.inl hrin
  · rw [hKids]; exact ndK
  · intro en' hen'
    left
    rw [← hKids]
    exact List.mem_map.2 ⟨en', hen', rfl⟩
  · intro en' hen'
    rcases List.mem_map.1 hen' with ⟨x, hx, rfl⟩
    simp only [List.mem_append, List.mem_cons] at hx
    have other : ∀ x, (x ∈ done ∨ x ∈ todo) → ∃ v ∈ view (fs.updateLine r.lineId g).stmts,
        v.id = (entRt x).id ∧ (entRt x).acc v.toks v.suffix := by
      intro x hx
      have hxK : entRt x ∈ A ++ ((done ++ r :: todo).map entRt ++ C) := by
        refine List.mem_append_right _ (List.mem_append_left _ (List.mem_map.2 ⟨x, ?_, rfl⟩))
        rcases hx with h1 | h1
        · exact List.mem_append_left _ h1
        · exact List.mem_append_right _ (List.mem_cons_of_mem _ h1)
      rcases hm.cover _ hxK with ⟨v, hv, hvid, hacc⟩
      refine ⟨v, (hview v).2 (Or.inl ⟨?_, hv⟩), hvid, hacc⟩
      rw [hvid]
      -- x.lineId ≠ r.lineId: the retract segment has pairwise different ids
      intro e
      have hndl : ((done ++ r :: todo).map (·.lineId)).Nodup := by
        have : ((done ++ r :: todo).map entRt).map (·.id) = (done ++ r :: todo).map (·.lineId) := by
          simp [List.map_map, entRt, Function.comp_def]
        rw [this] at ndK; exact ndK
      rw [List.map_append, List.map_cons] at hndl
      rcases List.nodup_append.1 hndl with ⟨_, h2, h3⟩
      rcases hx with h1 | h1
      · exact h3 _ (List.mem_map.2 ⟨x, h1, rfl⟩) _ List.mem_cons_self e
      · exact (List.nodup_cons.1 h2).1 (List.mem_map.2 ⟨x, h1, e⟩)
    rcases hx with h1 | rfl | h1
    · exact other x (Or.inl h1)
    · exact ⟨_, hnew, hpid, hacc'⟩
    · exact other x (Or.inr h1)
  · intro v _ hvS
    have : v.id = r.lineId := by simpa using hvS
    exact ⟨entRt { r with interval := vi }, List.mem_map.2 ⟨_, by simp, rfl⟩, this.symm⟩
  · intro en hen hnS
    rcases List.mem_map.1 hen with ⟨x, hx, rfl⟩
    simp only [List.mem_append, List.mem_cons] at hx
    rcases hx with h1 | rfl | h1
    · exact ⟨entRt x, List.mem_map.2 ⟨x, by simp [h1], rfl⟩, rfl⟩
    · exact absurd (by simp [entRt]) hnS
    · exact ⟨entRt x, List.mem_map.2 ⟨x, by simp [h1], rfl⟩, rfl⟩

/-- **`fixRetractLoop` without error keeps `Match` and `SynOK`** -/
theorem fixRetractLoop_match (fx : Fixer) (path : Bytes) (A C : List Ent) :
    ∀ (todo done : List Retract) (fs : FileSyntax) (e : List RuleErr),
      SynOK fs.stmts → Match (A ++ ((done ++ todo).map entRt ++ C)) (view fs.stmts) →
      (fixRetractLoop path fx todo fs e).2.2 = [] →
      SynOK (fixRetractLoop path fx todo fs e).2.1.stmts ∧
      Match (A ++ ((done ++ (fixRetractLoop path fx todo fs e).1).map entRt ++ C))
        (view (fixRetractLoop path fx todo fs e).2.1.stmts) := by
  intro todo
  induction todo with
  | nil => intro done fs e hs hm _; exact ⟨hs, hm⟩
  | cons r rest ih =>
    intro done fs e hs hm he
    rcases fr_step fx path A C done rest r fs hs hm with ⟨l, hfind, hstep⟩
    rw [fixRetractLoop_cons] at he ⊢
    rw [hfind] at he ⊢
    simp only at he ⊢
    have he1 := fixRetractLoop_noerr _ _ _ _ _ he
    cases hpv : parseVersionInterval path (frArgs l).2 (some fx) with
    | mk args' res =>
      cases res with
      | error k => simp [frStep, hpv] at he1
      | ok vr =>
        obtain ⟨vi, rst⟩ := vr
        have hm1 := hstep args' vi rst hpv
        have e1 : (frStep path fx fs r l e).1 = vi := by simp [frStep, hpv]
        have e2 : (frStep path fx fs r l e).2.1 = fs.updateLine r.lineId (fun l' => { l' with token := (frArgs l).1 ++ args' }) := by
          simp [frStep, hpv]
        have e3 : (frStep path fx fs r l e).2.2 = e := by simp [frStep, hpv]
        rw [e2, e3] at he
        rw [e1, e2, e3]
        have hs1 : SynOK (fs.updateLine r.lineId (fun l' => { l' with token := (frArgs l).1 ++ args' })).stmts :=
          hs.updateLine _ _ (fun _ => rfl) (fun _ => rfl)
        have hm1' : Match (A ++ (((done ++ [{ r with interval := vi }]) ++ rest).map entRt ++ C))
            (view (fs.updateLine r.lineId (fun l' => { l' with token := (frArgs l).1 ++ args' })).stmts) := by
          simpa [List.append_assoc] using hm1
        have := ih (done ++ [{ r with interval := vi }]) _ _ hs1 hm1' he
        simpa [List.append_assoc] using this

end ModVerif.Modfile.Edit.SFix
