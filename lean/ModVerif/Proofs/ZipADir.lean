/-
  C17 `dir_vs_list`: for a directory tree of regular files and directories, with ordinary names and no VCS
  metadata directories, the files `listFilesInDir` lists are the files of the tree minus files that the
  list check omits anyway; the directory check / creation and the list check / creation over all files
  of the tree agree.
-/
import ModVerif.Spec.ZipSpec
import ModVerif.Proofs.ZipASpec
import ModVerif.Proofs.ZipAClassify
import ModVerif.Proofs.ZipAPerm
import ModVerif.Proofs.ZipAVendor
import ModVerif.Proofs.ZipBPath
import ModVerif.Proofs.ZipCreate
namespace ModVerif.ZipSpec
open ModVerif ModVerif.PathClean ModVerif.Zip

mutual
/-- every file below a node, in walk order (`slashPath` = path of the node) -/
def allFilesNode (slashPath : Bytes) : Node → List FileInfo
  | .file mode size content g => [⟨slashPath, mode, size, content, g⟩]
  | .dir children => allFilesChildren slashPath children

def allFilesChildren (rel : Bytes) : List (Bytes × Node) → List FileInfo
  | [] => []
  | (name, n) :: rest => allFilesNode (childPath rel name) n ++ allFilesChildren rel rest
end

/-- every file of a directory tree, in walk order, with its slash-separated path -/
def allFiles (children : List (Bytes × Node)) : List FileInfo := allFilesChildren [] children

mutual
/-- a tree as a real directory presents it to the walk: regular files and directories only; names are
    ordinary path elements (not empty, not `.` or `..`, no slash), pairwise distinct among siblings; no
    directory is a VCS metadata directory -/
def WFNode : Node → Prop
  | .file mode _ _ _ => mode = .regular
  | .dir children => WFChildren children

def WFChildren : List (Bytes × Node) → Prop
  | [] => True
  | (name, n) :: rest =>
    NormalElem name ∧ (n.isDir = true → vcsDirs.contains name = false) ∧ (∀ x ∈ rest, x.1 ≠ name) ∧
      WFNode n ∧ WFChildren rest
end

end ModVerif.ZipSpec

namespace ModVerif.Proofs.ZipA
open ModVerif ModVerif.PathClean ModVerif.Zip ModVerif.ZipSpec ModVerif.Proofs.Zip

/-! ### paths of the files of a tree -/

/-- `q` lies strictly below `P` -/
def Below (P q : Bytes) : Prop := ∃ r, q = P ++ 47 :: r

/-- `q` is `P` or lies below `P` -/
def AtOrBelow (P q : Bytes) : Prop := q = P ∨ Below P q

theorem childPath_nil (name : Bytes) : childPath [] name = name := rfl

theorem childPath_ne (rel name : Bytes) (h : rel ≠ []) : childPath rel name = rel ++ 47 :: name := by
  unfold childPath
  have : (rel == []) = false := by simpa using h
  rw [this]; simp

theorem childPath_ne_nil (rel name : Bytes) (h : name ≠ []) : childPath rel name ≠ [] := by
  by_cases hr : rel = []
  · subst hr; rw [childPath_nil]; exact h
  · rw [childPath_ne rel name hr]; simp

theorem below_child (rel name q : Bytes) (hrel : rel ≠ []) (h : AtOrBelow (childPath rel name) q) : Below rel q := by
  rw [childPath_ne rel name hrel] at h
  rcases h with h | ⟨r, h⟩
  · exact ⟨name, h⟩
  · exact ⟨name ++ 47 :: r, by rw [h]; simp⟩

theorem first_slash_unique : ∀ (a b x y : Bytes), a ++ 47 :: x = b ++ 47 :: y → (47 : UInt8) ∉ a → (47 : UInt8) ∉ b →
    a = b ∧ x = y := by
  intro a
  induction a with
  | nil =>
    intro b x y h _ hb
    cases b with
    | nil => simp at h; exact ⟨rfl, h⟩
    | cons c t =>
      simp only [List.nil_append, List.cons_append, List.cons.injEq] at h
      exact absurd (by rw [← h.1]; exact List.mem_cons_self) hb
  | cons c t ih =>
    intro b x y h ha hb
    cases b with
    | nil =>
      simp only [List.nil_append, List.cons_append, List.cons.injEq] at h
      exact absurd (by rw [h.1]; exact List.mem_cons_self) ha
    | cons c' t' =>
      simp only [List.cons_append, List.cons.injEq] at h
      obtain ⟨h1, h2⟩ := ih t' x y h.2 (fun hm => ha (List.mem_cons_of_mem _ hm)) (fun hm => hb (List.mem_cons_of_mem _ hm))
      exact ⟨by rw [h.1, h1], h2⟩

/-- two siblings with slash-free names: nothing is at or below both -/
theorem sibling_disjoint (rel n1 n2 q : Bytes) (h1 : AtOrBelow (childPath rel n1) q) (h2 : AtOrBelow (childPath rel n2) q)
    (s1 : (47 : UInt8) ∉ n1) (s2 : (47 : UInt8) ∉ n2) : n1 = n2 := by
  have key : ∀ q', AtOrBelow n1 q' → AtOrBelow n2 q' → n1 = n2 := by
    intro q' a1 a2
    rcases a1 with a1 | ⟨r1, a1⟩ <;> rcases a2 with a2 | ⟨r2, a2⟩
    · rw [← a1, ← a2]
    · exfalso; apply s1; rw [← a1, a2]; simp
    · exfalso; apply s2; rw [← a2, a1]; simp
    · exact (first_slash_unique n1 n2 r1 r2 (by rw [← a1, ← a2]) s1 s2).1
  by_cases hr : rel = []
  · subst hr; rw [childPath_nil] at h1 h2; exact key q h1 h2
  · rw [childPath_ne rel _ hr] at h1 h2
    -- strip `rel/`
    have strip : ∀ n, AtOrBelow (rel ++ 47 :: n) q → ∃ q', q = rel ++ 47 :: q' ∧ AtOrBelow n q' := by
      intro n h
      rcases h with h | ⟨r, h⟩
      · exact ⟨n, h, Or.inl rfl⟩
      · exact ⟨n ++ 47 :: r, by rw [h]; simp, Or.inr ⟨r, rfl⟩⟩
    obtain ⟨q1, e1, a1⟩ := strip n1 h1
    obtain ⟨q2, e2, a2⟩ := strip n2 h2
    have : q1 = q2 := by
      have := e1.symm.trans e2
      simpa using this
    subst this
    exact key q1 a1 a2

theorem normalElem_facts {c : Bytes} (h : NormalElem c) : c ≠ [] ∧ (47 : UInt8) ∉ c := ⟨h.1, h.2.2.2⟩

mutual
/-- where the files of a node are: a file node yields its own path, a directory only paths strictly below -/
theorem allFilesNode_path : ∀ (n : Node) (P : Bytes), WFNode n → P ≠ [] → ∀ f ∈ allFilesNode P n,
    f.mode = .regular ∧ (n.isDir = false → f.path = P) ∧ (n.isDir = true → Below P f.path)
  | .file mode size content g, P => by
    intro hw _ f hf
    simp only [allFilesNode, List.mem_singleton] at hf
    simp only [WFNode] at hw
    rw [hf]
    exact ⟨hw, fun _ => rfl, fun h => by simp [Node.isDir] at h⟩
  | .dir cs, P => by
    intro hw hP f hf
    simp only [allFilesNode] at hf
    simp only [WFNode] at hw
    obtain ⟨name, n, _, _, hreg, hat, _⟩ := allFilesChildren_path cs P hw f hf
    exact ⟨hreg, fun h => by simp [Node.isDir] at h, fun _ => below_child P name f.path hP hat⟩
theorem allFilesChildren_path : ∀ (cs : List (Bytes × Node)) (rel : Bytes), WFChildren cs →
    ∀ f ∈ allFilesChildren rel cs,
    ∃ name n, (name, n) ∈ cs ∧ f ∈ allFilesNode (childPath rel name) n ∧ f.mode = .regular ∧
      AtOrBelow (childPath rel name) f.path ∧ (n.isDir = false → f.path = childPath rel name)
  | [], rel => by intro _ f hf; simp [allFilesChildren] at hf
  | (name, n) :: rest, rel => by
    intro hw f hf
    simp only [allFilesChildren, List.mem_append] at hf
    simp only [WFChildren] at hw
    obtain ⟨hname, _, _, hwn, hwr⟩ := hw
    rcases hf with hf | hf
    · obtain ⟨h1, h2, h3⟩ := allFilesNode_path n (childPath rel name) hwn
        (childPath_ne_nil rel name (normalElem_facts hname).1) f hf
      refine ⟨name, n, List.mem_cons_self, hf, h1, ?_, h2⟩
      cases hd : n.isDir with
      | false => exact Or.inl (h2 hd)
      | true => exact Or.inr (h3 hd)
    · obtain ⟨name', n', m1, m2, m3, m4, m5⟩ := allFilesChildren_path rest rel hwr f hf
      exact ⟨name', n', List.mem_cons_of_mem _ m1, m2, m3, m4, m5⟩
end

theorem wf_mem : ∀ (cs : List (Bytes × Node)), WFChildren cs → ∀ x ∈ cs,
    NormalElem x.1 ∧ (x.2.isDir = true → vcsDirs.contains x.1 = false) ∧ WFNode x.2 := by
  intro cs
  induction cs with
  | nil => intro _ x hx; cases hx
  | cons c t ih =>
    intro hw x hx
    obtain ⟨name, n⟩ := c
    simp only [WFChildren] at hw
    rcases List.mem_cons.mp hx with rfl | hx
    · exact ⟨hw.1, hw.2.1, hw.2.2.2.1⟩
    · exact ih hw.2.2.2.2 x hx

theorem allFilesNode_sub_children : ∀ (cs : List (Bytes × Node)) (rel : Bytes) (name : Bytes) (n : Node),
    (name, n) ∈ cs → ∀ f ∈ allFilesNode (childPath rel name) n, f ∈ allFilesChildren rel cs := by
  intro cs
  induction cs with
  | nil => intro _ _ _ h; cases h
  | cons c t ih =>
    intro rel name n h f hf
    obtain ⟨name', n'⟩ := c
    simp only [allFilesChildren, List.mem_append]
    rcases List.mem_cons.mp h with h | h
    · simp only [Prod.mk.injEq] at h
      left; rw [← h.1, ← h.2]; exact hf
    · right; exact ih rel name n h f hf


/-! ### the walk lists a sublist of the files, none of them vendored -/

theorem append_files (a b : Listing) : (a.append b).files = a.files ++ b.files := rfl

theorem walkNode_file (g : Bool) (P base : Bytes) (mode : Mode) (size : Int) (content : Bytes) (gg : Bool) :
    (walkNode g P base (.file mode size content gg)).files =
      if isVendoredPackage P g then [] else if mode != .regular then [] else [⟨P, mode, size, content, gg⟩] := by
  simp only [walkNode]
  split
  · rfl
  · split <;> rfl

theorem walkNode_dir (g : Bool) (P base : Bytes) (cs : List (Bytes × Node)) :
    (walkNode g P base (.dir cs)).files =
      if isVendoredPackage P g then (walkChildren g P cs).files
      else if vcsDirs.contains base then []
      else if hasGoModFile cs then []
      else (walkChildren g P cs).files := by
  simp only [walkNode]
  split
  · rfl
  · split
    · rfl
    · split <;> rfl

theorem walkChildren_cons (g : Bool) (rel name : Bytes) (n : Node) (rest : List (Bytes × Node)) :
    (walkChildren g rel ((name, n) :: rest)).files =
      (walkNode g (childPath rel name) name n).files ++ (walkChildren g rel rest).files := by
  simp only [walkChildren]; rfl

theorem walkChildren_nil (g : Bool) (rel : Bytes) : (walkChildren g rel []).files = [] := by
  simp only [walkChildren]

mutual
theorem walkNode_sub (g : Bool) : ∀ (n : Node) (P base : Bytes),
    (walkNode g P base n).files.Sublist (allFilesNode P n) ∧
    ∀ f ∈ (walkNode g P base n).files, isVendoredPackage f.path g = false
  | .file mode size content gg, P, base => by
    rw [walkNode_file]
    simp only [allFilesNode]
    by_cases hv : isVendoredPackage P g = true
    · rw [if_pos hv]; exact ⟨List.nil_sublist _, fun f hf => by cases hf⟩
    · rw [if_neg hv]
      split
      · exact ⟨List.nil_sublist _, fun f hf => by cases hf⟩
      · refine ⟨List.Sublist.refl _, ?_⟩
        intro f hf; rw [List.mem_singleton.mp hf]; simpa using hv
  | .dir cs, P, base => by
    rw [walkNode_dir]
    simp only [allFilesNode]
    have ih := walkChildren_sub g cs P
    repeat' split
    all_goals first
      | exact ih
      | exact ⟨List.nil_sublist _, fun f hf => by cases hf⟩
theorem walkChildren_sub (g : Bool) : ∀ (cs : List (Bytes × Node)) (rel : Bytes),
    (walkChildren g rel cs).files.Sublist (allFilesChildren rel cs) ∧
    ∀ f ∈ (walkChildren g rel cs).files, isVendoredPackage f.path g = false
  | [], rel => by
    rw [walkChildren_nil]; exact ⟨List.nil_sublist _, fun f hf => by cases hf⟩
  | (name, n) :: rest, rel => by
    rw [walkChildren_cons]
    simp only [allFilesChildren]
    obtain ⟨a1, a2⟩ := walkNode_sub g n (childPath rel name) name
    obtain ⟨b1, b2⟩ := walkChildren_sub g rest rel
    refine ⟨a1.append b1, ?_⟩
    intro f hf
    rcases List.mem_append.mp hf with hf | hf
    · exact a2 f hf
    · exact b2 f hf
end


/-! ### the files the walk leaves out are omitted by the list check anyway -/

theorem hasGoModFile_child (cs : List (Bytes × Node)) (h : hasGoModFile cs = true) :
    ∃ mode size content gg, (goModName, Node.file mode size content gg) ∈ cs := by
  unfold hasGoModFile at h
  rw [List.any_eq_true] at h
  obtain ⟨c, hc, h2⟩ := h
  obtain ⟨name, n⟩ := c
  simp only [Bool.and_eq_true, beq_iff_eq, Bool.not_eq_true'] at h2
  cases n with
  | file mode size content gg => exact ⟨mode, size, content, gg, by rw [← h2.1]; exact hc⟩
  | dir cs' => simp [Node.isDir] at h2

/-- what makes the list check omit a file: vendored, or a directory prefix holding a regular `go.mod` -/
def OmittedIn (g : Bool) (files : List FileInfo) (f : FileInfo) : Prop :=
  isVendoredPackage f.path g = true ∨
    ∃ d ∈ dirPrefixes f.path, ∃ g1 ∈ files, g1.mode = .regular ∧ pathSplit g1.path = (d, goModName)

theorem omittedIn_mono (g : Bool) (l1 l2 : List FileInfo) (f : FileInfo) (h : ∀ x ∈ l1, x ∈ l2)
    (ho : OmittedIn g l1 f) : OmittedIn g l2 f := by
  rcases ho with ho | ⟨d, hd, g1, hg1, r⟩
  · exact Or.inl ho
  · exact Or.inr ⟨d, hd, g1, h g1 hg1, r⟩

mutual
theorem walkNode_left_out (g : Bool) : ∀ (n : Node) (P base : Bytes), WFNode n → P ≠ [] →
    (n.isDir = true → vcsDirs.contains base = false) →
    ∀ f ∈ allFilesNode P n, f ∉ (walkNode g P base n).files → OmittedIn g (allFilesNode P n) f
  | .file mode size content gg, P, base => by
    intro hw _ _ f hf hnot
    simp only [allFilesNode, List.mem_singleton] at hf
    simp only [WFNode] at hw
    rw [walkNode_file] at hnot
    by_cases hv : isVendoredPackage P g = true
    · left; rw [hf]; exact hv
    · subst hw
      rw [if_neg hv] at hnot
      simp at hnot
      exact absurd hf hnot
  | .dir cs, P, base => by
    intro hw hP hvcs f hf hnot
    simp only [allFilesNode] at hf ⊢
    simp only [WFNode] at hw
    rw [walkNode_dir] at hnot
    by_cases hv : isVendoredPackage P g = true
    · rw [if_pos hv] at hnot
      exact walkChildren_left_out g cs P hw f hf hnot
    rw [if_neg hv] at hnot
    have hvcs' : vcsDirs.contains base = false := hvcs rfl
    rw [hvcs'] at hnot
    simp only [Bool.false_eq_true, if_false] at hnot
    by_cases hgm : hasGoModFile cs = true
    · obtain ⟨mode, size, content, gg, hmem⟩ := hasGoModFile_child cs hgm
      obtain ⟨_, _, hbelow⟩ := allFilesNode_path (.dir cs) P (by simpa [WFNode] using hw) hP f (by simpa [allFilesNode] using hf)
      obtain ⟨r, hr⟩ := hbelow rfl
      right
      refine ⟨P ++ [47], ?_, ⟨childPath P goModName, mode, size, content, gg⟩, ?_, ?_, ?_⟩
      · rw [hr]; exact mem_dirPrefixes P r
      · exact allFilesNode_sub_children cs P goModName _ hmem _ (by simp [allFilesNode])
      · have := (wf_mem cs hw _ hmem).2.2
        simpa [WFNode] using this
      · show pathSplit (childPath P goModName) = _
        rw [childPath_ne P _ hP]
        exact pathSplit_split P goModName (by decide)
    · rw [if_neg hgm] at hnot
      exact walkChildren_left_out g cs P hw f hf hnot
theorem walkChildren_left_out (g : Bool) : ∀ (cs : List (Bytes × Node)) (rel : Bytes), WFChildren cs →
    ∀ f ∈ allFilesChildren rel cs, f ∉ (walkChildren g rel cs).files → OmittedIn g (allFilesChildren rel cs) f
  | [], rel => by intro _ f hf; simp [allFilesChildren] at hf
  | (name, n) :: rest, rel => by
    intro hw f hf hnot
    rw [walkChildren_cons] at hnot
    simp only [allFilesChildren, List.mem_append] at hf ⊢
    simp only [WFChildren] at hw
    obtain ⟨hname, hvcs, _, hwn, hwr⟩ := hw
    have hn1 : f ∉ (walkNode g (childPath rel name) name n).files := fun h => hnot (List.mem_append_left _ h)
    have hn2 : f ∉ (walkChildren g rel rest).files := fun h => hnot (List.mem_append_right _ h)
    rcases hf with hf | hf
    · have := walkNode_left_out g n (childPath rel name) name hwn
        (childPath_ne_nil rel name (normalElem_facts hname).1) hvcs f hf hn1
      exact omittedIn_mono g _ _ f (fun x hx => List.mem_append_left _ hx) this
    · have := walkChildren_left_out g rest rel hwr f hf hn2
      exact omittedIn_mono g _ _ f (fun x hx => List.mem_append_right _ hx) this
end


/-! ### files in the directories above a listed file are listed, unless vendored -/

theorem last_slash_unique (a b a' b' : Bytes) (h : a ++ 47 :: b = a' ++ 47 :: b') (hb : (47 : UInt8) ∉ b)
    (hb' : (47 : UInt8) ∉ b') : a = a' ∧ b = b' := by
  have hr := congrArg List.reverse h
  simp only [List.reverse_append, List.reverse_cons, List.append_assoc, List.singleton_append] at hr
  obtain ⟨h1, h2⟩ := first_slash_unique b.reverse b'.reverse a.reverse a'.reverse hr
    (fun hm => hb (List.mem_reverse.mp hm)) (fun hm => hb' (List.mem_reverse.mp hm))
  exact ⟨List.reverse_inj.mp h2, List.reverse_inj.mp h1⟩

/-- the directory part of a path strictly below `P` starts with `P/` -/
theorem dir_of_below (P p : Bytes) (h : Below P p) : ∃ x, (pathSplit p).1 = P ++ 47 :: x := by
  obtain ⟨r, hr⟩ := h
  rcases last_slash r with hns | ⟨a2, b2, rfl, hb2⟩
  · rw [hr, pathSplit_split P r hns]; exact ⟨[], rfl⟩
  · have : p = (P ++ 47 :: a2) ++ 47 :: b2 := by rw [hr]; simp
    rw [this, pathSplit_split _ b2 hb2]
    exact ⟨a2 ++ [47], by simp⟩

/-- a directory prefix of `q` that starts with `P/` puts `q` strictly below `P` -/
theorem below_of_dirPrefix (P q x : Bytes) (h : P ++ 47 :: x ∈ dirPrefixes q) : Below P q := by
  obtain ⟨a, b, h1, h2⟩ := (mem_dirPrefixes_iff q _).mp h
  refine ⟨x ++ b, ?_⟩
  have : q = (a ++ [47]) ++ b := by rw [h1]; simp
  rw [this, ← h2]; simp

theorem file_listed (g : Bool) : ∀ (cs : List (Bytes × Node)) (rel name : Bytes) (mode : Mode) (size : Int)
    (content : Bytes) (gg : Bool), WFChildren cs → (name, Node.file mode size content gg) ∈ cs →
    isVendoredPackage (childPath rel name) g = false →
    (⟨childPath rel name, mode, size, content, gg⟩ : FileInfo) ∈ (walkChildren g rel cs).files := by
  intro cs
  induction cs with
  | nil => intro _ _ _ _ _ _ _ h; cases h
  | cons c t ih =>
    intro rel name mode size content gg hw hm hv
    obtain ⟨name', n'⟩ := c
    rw [walkChildren_cons]
    simp only [WFChildren] at hw
    rcases List.mem_cons.mp hm with hm | hm
    · simp only [Prod.mk.injEq] at hm
      obtain ⟨rfl, rfl⟩ := hm
      have hreg : mode = .regular := by simpa [WFNode] using hw.2.2.2.1
      subst hreg
      apply List.mem_append_left
      rw [walkNode_file, hv]
      simp
    · exact List.mem_append_right _ (ih rel name mode size content gg hw.2.2.2.2 hm hv)

mutual
theorem walkNode_ancestors (g : Bool) : ∀ (n : Node) (P base : Bytes), WFNode n → P ≠ [] →
    ∀ f ∈ (walkNode g P base n).files, ∀ g0 ∈ allFilesNode P n, isVendoredPackage g0.path g = false →
    (pathSplit g0.path).1 ∈ dirPrefixes f.path → g0 ∈ (walkNode g P base n).files
  | .file mode size content gg, P, base => by
    intro _ _ f hf g0 hg0 _ _
    simp only [allFilesNode, List.mem_singleton] at hg0
    rw [walkNode_file] at hf ⊢
    by_cases h1 : isVendoredPackage P g = true
    · rw [if_pos h1] at hf; cases hf
    rw [if_neg h1] at hf ⊢
    by_cases h2 : (mode != Mode.regular) = true
    · rw [if_pos h2] at hf; cases hf
    rw [if_neg h2, hg0]; exact List.mem_singleton.mpr rfl
  | .dir cs, P, base => by
    intro hw hP f hf g0 hg0 hv hd
    simp only [allFilesNode] at hg0
    simp only [WFNode] at hw
    rw [walkNode_dir] at hf ⊢
    by_cases h1 : isVendoredPackage P g = true
    · rw [if_pos h1] at hf ⊢
      exact walkChildren_ancestors g cs P hw f hf g0 hg0 hv hd
    rw [if_neg h1] at hf ⊢
    by_cases h2 : vcsDirs.contains base = true
    · rw [if_pos h2] at hf; cases hf
    rw [if_neg h2] at hf ⊢
    by_cases h3 : hasGoModFile cs = true
    · rw [if_pos h3] at hf; cases hf
    rw [if_neg h3] at hf ⊢
    exact walkChildren_ancestors g cs P hw f hf g0 hg0 hv hd
theorem walkChildren_ancestors (g : Bool) : ∀ (cs : List (Bytes × Node)) (rel : Bytes), WFChildren cs →
    ∀ f ∈ (walkChildren g rel cs).files, ∀ g0 ∈ allFilesChildren rel cs, isVendoredPackage g0.path g = false →
    (pathSplit g0.path).1 ∈ dirPrefixes f.path → g0 ∈ (walkChildren g rel cs).files
  | [], rel => by intro _ f hf; rw [walkChildren_nil] at hf; cases hf
  | (name, n) :: rest, rel => by
    intro hw f hf g0 hg0 hv hd
    have hw' := hw
    simp only [WFChildren] at hw
    obtain ⟨hname, _, hdist, hwn, hwr⟩ := hw
    have hP : childPath rel name ≠ [] := childPath_ne_nil rel name (normalElem_facts hname).1
    rw [walkChildren_cons] at hf ⊢
    simp only [allFilesChildren, List.mem_append] at hg0
    rcases List.mem_append.mp hf with hf | hf <;> rcases hg0 with hg0 | hg0
    · exact List.mem_append_left _ (walkNode_ancestors g n (childPath rel name) name hwn hP f hf g0 hg0 hv hd)
    · -- f below the first child, g0 in a later sibling
      apply List.mem_append_right
      have hfa := (walkNode_sub g n (childPath rel name) name).1.subset hf
      obtain ⟨_, f1, f2⟩ := allFilesNode_path n (childPath rel name) hwn hP f hfa
      have hfat : AtOrBelow (childPath rel name) f.path := by
        cases hdn : n.isDir with
        | false => exact Or.inl (f1 hdn)
        | true => exact Or.inr (f2 hdn)
      obtain ⟨name2, n2, m1, m2, _, m4, _⟩ := allFilesChildren_path rest rel hwr g0 hg0
      have hne : name2 ≠ name := hdist (name2, n2) m1
      have hwf2 := wf_mem rest hwr _ m1
      rcases m4 with m4 | m4
      · -- g0 is the sibling node itself, so a file
        cases n2 with
        | dir cs2 =>
          obtain ⟨_, _, b⟩ := allFilesNode_path (.dir cs2) (childPath rel name2) hwf2.2.2
            (childPath_ne_nil rel name2 (normalElem_facts hwf2.1).1) g0 m2
          obtain ⟨r, hr⟩ := b rfl
          rw [m4] at hr
          have := congrArg List.length hr
          simp at this
        | file mode size content gg =>
          simp only [allFilesNode, List.mem_singleton] at m2
          rw [m2]
          exact file_listed g rest rel name2 mode size content gg hwr m1 (by rw [m2] at hv; exact hv)
      · exfalso
        obtain ⟨x, hx⟩ := dir_of_below _ _ m4
        rw [hx] at hd
        have := below_of_dirPrefix _ _ _ hd
        exact hne (sibling_disjoint rel name2 name f.path (Or.inr this) hfat
          (normalElem_facts hwf2.1).2 (normalElem_facts hname).2)
    · -- f below a later sibling, g0 below the first child
      apply List.mem_append_left
      have hfa := (walkChildren_sub g rest rel).1.subset hf
      obtain ⟨name1, n1, k1, _, _, k4, _⟩ := allFilesChildren_path rest rel hwr f hfa
      have hne : name1 ≠ name := hdist (name1, n1) k1
      have hwf1 := wf_mem rest hwr _ k1
      obtain ⟨_, g1, g2⟩ := allFilesNode_path n (childPath rel name) hwn hP g0 hg0
      cases n with
      | dir cs0 =>
        exfalso
        obtain ⟨x, hx⟩ := dir_of_below _ _ (g2 rfl)
        rw [hx] at hd
        have := below_of_dirPrefix _ _ _ hd
        exact hne (sibling_disjoint rel name1 name f.path k4 (Or.inr this)
          (normalElem_facts hwf1.1).2 (normalElem_facts hname).2)
      | file mode size content gg =>
        simp only [allFilesNode, List.mem_singleton] at hg0
        have hreg : mode = .regular := by simpa [WFNode] using hwn
        subst hreg
        rw [walkNode_file]
        have : isVendoredPackage (childPath rel name) g = false := by rw [hg0] at hv; exact hv
        rw [this, hg0]; simp
    · exact List.mem_append_right _ (walkChildren_ancestors g rest rel hwr f hf g0 hg0 hv hd)
end


/-! ### the paths of a well-formed tree are clean, relative and pairwise distinct -/

theorem normalName_child (rel name : Bytes) (hn : NormalElem name) (hr : rel = [] ∨ ZipB.NormalName rel) :
    ZipB.NormalName (childPath rel name) := by
  have hs := splitOn_noSep 47 name (normalElem_facts hn).2
  by_cases h0 : rel = []
  · subst h0
    rw [childPath_nil]
    intro c hc; rw [hs] at hc; rw [List.mem_singleton.mp hc]; exact hn
  · rcases hr with hr | hr
    · exact absurd hr h0
    · rw [childPath_ne rel name h0]
      intro c hc
      rw [splitOn_append_sep, hs] at hc
      rcases List.mem_append.mp hc with hc | hc
      · exact hr c hc
      · rw [List.mem_singleton.mp hc]; exact hn

mutual
theorem allFilesNode_normal : ∀ (n : Node) (P : Bytes), WFNode n → ZipB.NormalName P →
    ∀ f ∈ allFilesNode P n, ZipB.NormalName f.path
  | .file mode size content gg, P => by
    intro _ hP f hf
    simp only [allFilesNode, List.mem_singleton] at hf
    rw [hf]; exact hP
  | .dir cs, P => by
    intro hw hP f hf
    simp only [allFilesNode] at hf
    simp only [WFNode] at hw
    exact allFilesChildren_normal cs P hw (Or.inr hP) f hf
theorem allFilesChildren_normal : ∀ (cs : List (Bytes × Node)) (rel : Bytes), WFChildren cs →
    (rel = [] ∨ ZipB.NormalName rel) → ∀ f ∈ allFilesChildren rel cs, ZipB.NormalName f.path
  | [], rel => by intro _ _ f hf; simp [allFilesChildren] at hf
  | (name, n) :: rest, rel => by
    intro hw hr f hf
    simp only [allFilesChildren, List.mem_append] at hf
    simp only [WFChildren] at hw
    rcases hf with hf | hf
    · exact allFilesNode_normal n (childPath rel name) hw.2.2.2.1 (normalName_child rel name hw.1 hr) f hf
    · exact allFilesChildren_normal rest rel hw.2.2.2.2 hr f hf
end

mutual
theorem allFilesNode_nodup : ∀ (n : Node) (P : Bytes), WFNode n → P ≠ [] →
    ((allFilesNode P n).map (·.path)).Nodup
  | .file mode size content gg, P => by
    intro _ _; simp [allFilesNode]
  | .dir cs, P => by
    intro hw _
    simp only [allFilesNode]
    simp only [WFNode] at hw
    exact allFilesChildren_nodup cs P hw
theorem allFilesChildren_nodup : ∀ (cs : List (Bytes × Node)) (rel : Bytes), WFChildren cs →
    ((allFilesChildren rel cs).map (·.path)).Nodup
  | [], rel => by intro _; simp [allFilesChildren]
  | (name, n) :: rest, rel => by
    intro hw
    have hw' := hw
    simp only [WFChildren] at hw
    obtain ⟨hname, _, hdist, hwn, hwr⟩ := hw
    have hP : childPath rel name ≠ [] := childPath_ne_nil rel name (normalElem_facts hname).1
    simp only [allFilesChildren, List.map_append]
    refine List.nodup_append.mpr ⟨allFilesNode_nodup n (childPath rel name) hwn hP,
      allFilesChildren_nodup rest rel hwr, ?_⟩
    intro a ha b hb hab
    obtain ⟨f1, hf1, rfl⟩ := List.mem_map.mp ha
    obtain ⟨f2, hf2, e2⟩ := List.mem_map.mp hb
    obtain ⟨_, x1, x2⟩ := allFilesNode_path n (childPath rel name) hwn hP f1 hf1
    have hat1 : AtOrBelow (childPath rel name) f1.path := by
      cases hdn : n.isDir with
      | false => exact Or.inl (x1 hdn)
      | true => exact Or.inr (x2 hdn)
    obtain ⟨name2, n2, m1, _, _, m4, _⟩ := allFilesChildren_path rest rel hwr f2 hf2
    have hwf2 := wf_mem rest hwr _ m1
    have hat2 : AtOrBelow (childPath rel name2) f1.path := by rw [hab, ← e2]; exact m4
    exact hdist (name2, n2) m1 (sibling_disjoint rel name2 name f1.path hat2 hat1
      (normalElem_facts hwf2.1).2 (normalElem_facts hname).2)
end

/-- the files of a well-formed tree: regular, with clean relative pairwise distinct paths -/
theorem allFiles_facts (t : List (Bytes × Node)) (hw : WFChildren t) :
    ((allFiles t).map (·.path)).Nodup ∧
    ∀ f ∈ allFiles t, f.mode = .regular ∧ pathClean f.path = f.path ∧ isAbs f.path = false := by
  refine ⟨allFilesChildren_nodup t [] hw, ?_⟩
  intro f hf
  obtain ⟨_, _, _, _, hreg, _, _⟩ := allFilesChildren_path t [] hw f hf
  have hn := allFilesChildren_normal t [] hw (Or.inl rfl) f hf
  exact ⟨hreg, ZipB.pathClean_normalName hn, ZipB.normalName_not_rooted hn⟩


/-! ### vendoring does not depend on the last path element -/

theorem mem_drop_append_left (d base : Bytes) (n : Nat) (hb : (47 : UInt8) ∉ base)
    (h : (47 : UInt8) ∈ (d ++ base).drop n) : (47 : UInt8) ∈ d.drop n := by
  rw [List.drop_append] at h
  rcases List.mem_append.mp h with h | h
  · exact h
  · exact absurd (List.mem_of_mem_drop h) hb

theorem mem_drop_append_right (d rest : Bytes) (n : Nat) (h : (47 : UInt8) ∈ d.drop n) :
    (47 : UInt8) ∈ (d ++ rest).drop n := by
  rw [List.drop_append]; exact List.mem_append_left _ h

theorem prefix_append_iff (v d x : Bytes) (h : v.length ≤ d.length) : v <+: d ++ x ↔ v <+: d := by
  rw [List.prefix_iff_eq_take, List.prefix_iff_eq_take, List.take_append_of_le_length h]

/-- a file in a vendored position stays vendored whatever follows its directory: if `d ++ base` (with a
    slash-free `base`, not `vendor/modules.txt`) is vendored then so is `d ++ rest` -/
theorem vendored_extend (g : Bool) (d base rest : Bytes) (hb : (47 : UInt8) ∉ base)
    (hne : d ++ base ≠ vendorModulesTxt) (hv : isVendoredPackage (d ++ base) g = true) :
    isVendoredPackage (d ++ rest) g = true := by
  cases g with
  | true =>
    rw [vendor_rule_ge124] at hv ⊢
    rcases hv with hv | ⟨pre, r, h1, h2, h3⟩
    · exact absurd hv hne
    · right
      have h1' : d ++ base = (pre ++ vendorSlash) ++ r := by rw [h1]
      rcases List.append_eq_append_iff.mp h1' with ⟨a', _, e2⟩ | ⟨c', e1, e2⟩
      · exfalso; apply hb; rw [e2]; exact List.mem_append_right _ h3
      · have hc : (47 : UInt8) ∈ c' := by
          rw [e2] at h3
          rcases List.mem_append.mp h3 with h | h
          · exact h
          · exact absurd h hb
        exact ⟨pre, c' ++ rest, by rw [e1]; simp, h2, List.mem_append_left _ hc⟩
  | false =>
    rw [vendor_rule_pre124] at hv ⊢
    rcases hv with ⟨p1, p2⟩ | ⟨p1, ⟨pre, r, p2⟩, p3⟩
    · have hd := mem_drop_append_left d base 7 hb p2
      have hlen : vendorSlash.length ≤ d.length := by
        have : 7 < d.length := by
          by_cases hl : 7 < d.length
          · exact hl
          · rw [List.drop_eq_nil_of_le (by omega)] at hd; cases hd
        rw [vendorSlash_length]; omega
      left
      exact ⟨(prefix_append_iff _ d rest hlen).mpr ((prefix_append_iff _ d base hlen).mp p1),
        mem_drop_append_right d rest 7 hd⟩
    · have hd := mem_drop_append_left d base 8 hb p3
      have hlen : vendorSlash.length ≤ d.length := by
        have : 8 < d.length := by
          by_cases hl : 8 < d.length
          · exact hl
          · rw [List.drop_eq_nil_of_le (by omega)] at hd; cases hd
        rw [vendorSlash_length]; omega
      right
      refine ⟨fun hp => p1 ((prefix_append_iff _ d base hlen).mpr ((prefix_append_iff _ d rest hlen).mp hp)), ?_,
        mem_drop_append_right d rest 8 hd⟩
      have p2' : d ++ base = (pre ++ slashVendorSlash) ++ r := by rw [p2]
      rcases List.append_eq_append_iff.mp p2' with ⟨a', e1, e2⟩ | ⟨c', e1, _⟩
      · cases a' with
        | nil => exact ⟨pre, rest, by rw [← List.append_nil d, ← e1]⟩
        | cons x t =>
          exfalso
          -- the last byte of `pre ++ "/vendor/"` is a slash, and it would lie in `base`
          have hl : (pre ++ slashVendorSlash).getLast? = some 47 := by
            rw [List.getLast?_append]; simp [slashVendorSlash, vendorSlash]
          rw [e1, List.getLast?_append] at hl
          have hx : (x :: t).getLast? = some 47 := by
            cases hxt : (x :: t).getLast? with
            | none => simp at hxt
            | some y => rw [hxt] at hl; simpa using hl
          apply hb
          rw [e2]
          exact List.mem_append_left _ (List.mem_of_getLast? hx)
      · exact ⟨pre, c' ++ rest, by rw [e1]; simp⟩


/-! ### the list check over all files and over the listed files -/

theorem lastElem_slashFree (p : Bytes) : (47 : UInt8) ∉ lastElem p := by
  unfold lastElem
  intro hm
  rw [List.mem_reverse] at hm
  have := mem_takeWhile _ _ _ hm
  simp at this

/-- a file the walk leaves out is omitted by an early rule of the list check over all files -/
theorem earlyRule_of_omittedIn (E : Env) (g : Bool) (A : List FileInfo) (f : FileInfo) (hreg : f.mode = .regular)
    (hcl : pathClean f.path = f.path) (hrel : isAbs f.path = false) (ho : OmittedIn g A f) :
    ∃ r, earlyRule E g A f = some (.omitted r) := by
  have hu : goModUnreadable f = false := by simp [goModUnreadable, hreg]
  unfold earlyRule
  by_cases hv : isVendoredPackage f.path g = true
  · exact ⟨.vendored, by simp [hu, hcl, hrel, hv]⟩
  · rcases ho with ho | ⟨d, hd, g1, hg1, hr1, hs1⟩
    · exact absurd ho hv
    · have hb : BelowModuleRoot A f.path :=
        ⟨d, hd, g1, hg1, hr1, by rw [hs1]; show equalFoldGoMod goModName = true; decide, by rw [hs1]⟩
      exact ⟨.submoduleFile, by simp [hu, hcl, hrel, hv, hb]⟩

theorem pathSplit_vmt : (pathSplit vendorModulesTxt).2 = [109, 111, 100, 117, 108, 101, 115, 46, 116, 120, 116] := by
  decide

/-- a listed file sees the same module roots in the list of all files and in the list of listed files -/
theorem belowModuleRoot_listed (g : Bool) (A L : List FileInfo) (hsub : ∀ x ∈ L, x ∈ A)
    (hLnv : ∀ f ∈ L, isVendoredPackage f.path g = false)
    (hanc : ∀ f ∈ L, ∀ g0 ∈ A, isVendoredPackage g0.path g = false →
      (pathSplit g0.path).1 ∈ dirPrefixes f.path → g0 ∈ L)
    (f : FileInfo) (hf : f ∈ L) : BelowModuleRoot A f.path ↔ BelowModuleRoot L f.path := by
  constructor
  · rintro ⟨d, hd, g0, hg0, hr0, he0, hs0⟩
    refine ⟨d, hd, g0, ?_, hr0, he0, hs0⟩
    apply hanc f hf g0 hg0 ?_ (by rw [hs0]; exact hd)
    -- g0 is not vendored, because `f` is not
    cases hv : isVendoredPackage g0.path g with
    | false => rfl
    | true =>
      exfalso
      obtain ⟨a, b, h1, h2⟩ := (mem_dirPrefixes_iff f.path d).mp hd
      obtain ⟨s1, s2, _⟩ := pathSplit_spec g0.path
      have hne : (pathSplit g0.path).1 ++ (pathSplit g0.path).2 ≠ vendorModulesTxt := by
        intro e
        rw [← s1] at e
        rw [e, pathSplit_vmt] at he0
        revert he0; decide
      have hb : (47 : UInt8) ∉ (pathSplit g0.path).2 := by rw [s2]; exact lastElem_slashFree _
      rw [s1] at hv
      have := vendored_extend g (pathSplit g0.path).1 (pathSplit g0.path).2 b hb hne hv
      rw [hs0, h2] at this
      have hfp : f.path = a ++ [47] ++ b := by rw [h1]; simp
      rw [← hfp, hLnv f hf] at this
      cases this
  · rintro ⟨d, hd, g0, hg0, r⟩
    exact ⟨d, hd, g0, hsub g0 hg0, r⟩

theorem earlyRule_listed (E : Env) (g : Bool) (A L : List FileInfo) (f : FileInfo)
    (hb : BelowModuleRoot A f.path ↔ BelowModuleRoot L f.path) : earlyRule E g A f = earlyRule E g L f := by
  unfold earlyRule
  simp only [hb]

/-- classification over a list and over a sublist of it, when the files left out are omitted by an
    early rule and the others see the same module roots: same valid and invalid files, same sizes -/
theorem classifyFrom_sublist (E : Env) (g : Bool) (A L : List FileInfo) : ∀ (l' l : List FileInfo),
    l'.Sublist l → (l.map (·.path)).Nodup →
    (∀ f ∈ l, f ∉ l' → ∃ r, earlyRule E g A f = some (.omitted r)) →
    (∀ f ∈ l', earlyRule E g A f = earlyRule E g L f) →
    ∀ reg, (classifyFrom E g A reg l).filterMap vOf = (classifyFrom E g L reg l').filterMap vOf ∧
      (classifyFrom E g A reg l).filterMap iOf = (classifyFrom E g L reg l').filterMap iOf ∧
      ∀ b, (classifyFrom E g A reg l).foldl bOf b = (classifyFrom E g L reg l').foldl bOf b := by
  intro l' l h
  induction h with
  | slnil => intro _ _ _ reg; exact ⟨rfl, rfl, fun _ => rfl⟩
  | @cons l1 l2 a h ih =>
    intro hnd hout hsame reg
    rw [List.map_cons, List.nodup_cons] at hnd
    have ha : a ∉ l1 := fun hm => hnd.1 (List.mem_map_of_mem (f := fun x : FileInfo => x.path) (h.subset hm))
    obtain ⟨r, hr⟩ := hout a List.mem_cons_self ha
    obtain ⟨i1, i2, i3⟩ := ih hnd.2 (fun f hf hn => hout f (List.mem_cons_of_mem _ hf) hn) hsame reg
    rw [classifyFrom_cons, classifyStep_some E g A reg a _ hr]
    refine ⟨?_, ?_, ?_⟩
    · rw [filterMap_cons_toList, i1]; simp [vOf]
    · rw [filterMap_cons_toList, i2]; simp [iOf]
    · intro b; rw [List.foldl_cons, i3]; simp [bOf, Class.sized]
  | @cons_cons l1 l2 a h ih =>
    intro hnd hout hsame reg
    rw [List.map_cons, List.nodup_cons] at hnd
    have ha2 : a ∉ l2 := fun hm => hnd.1 (List.mem_map_of_mem (f := fun x : FileInfo => x.path) hm)
    have hstep : classifyStep E g A reg a = classifyStep E g L reg a := by
      unfold classifyStep; rw [hsame a List.mem_cons_self]
    obtain ⟨i1, i2, i3⟩ := ih hnd.2 (by
        intro f hf hn
        apply hout f (List.mem_cons_of_mem _ hf)
        intro hm
        rcases List.mem_cons.mp hm with rfl | hm
        · exact ha2 hf
        · exact hn hm)
      (fun f hf => hsame f (List.mem_cons_of_mem _ hf)) (classifyStep E g L reg a).1
    rw [classifyFrom_cons, classifyFrom_cons, hstep]
    refine ⟨?_, ?_, ?_⟩
    · rw [filterMap_cons_toList, filterMap_cons_toList, i1]
    · rw [filterMap_cons_toList, filterMap_cons_toList, i2]
    · intro b; rw [List.foldl_cons, List.foldl_cons, i3]


/-! ### assembling `dir_vs_list` -/

theorem filter_unreadable_regular (l : List FileInfo) (h : ∀ f ∈ l, f.mode = .regular) :
    l.filter goModUnreadable = [] := by
  apply List.filter_eq_nil_iff.mpr
  intro f hf
  simp [goModUnreadable, h f hf]

theorem notVendored_goModName (g : Bool) : isVendoredPackage goModName g = false := by
  cases g <;> decide

/-- the go version flag the list check derives is the same for all files and for the listed files -/
theorem goVers_listed (g : Bool) (A L : List FileInfo) (hnd : (A.map (·.path)).Nodup) (hsl : L.Sublist A)
    (hout : ∀ f ∈ A, f ∉ L → OmittedIn g A f) : goVers L = goVers A := by
  have hndL : (L.map (·.path)).Nodup := hnd.sublist (hsl.map _)
  unfold goVers prePass
  rw [prePass_ge124 A {} hnd, prePass_ge124 L {} hndL]
  have : L.find? isRootGoMod = A.find? isRootGoMod := by
    cases hA : A.find? isRootGoMod with
    | none =>
      have := List.find?_eq_none.mp hA
      exact List.find?_eq_none.mpr (fun x hx => this x (hsl.subset hx))
    | some f0 =>
      have h0 := List.mem_of_find?_eq_some hA
      have hr0 := List.find?_some hA
      have hp0 := isRootGoMod_path f0 hr0
      have hin : f0 ∈ L := by
        apply Classical.byContradiction
        intro hn
        rcases hout f0 h0 hn with hv | ⟨d, hd, _⟩
        · rw [hp0, notVendored_goModName] at hv; cases hv
        · rw [hp0] at hd
          have : dirPrefixes goModName = [] := by decide
          rw [this] at hd; cases hd
      cases hL : L.find? isRootGoMod with
      | none => exact absurd hr0 (List.find?_eq_none.mp hL f0 hin)
      | some y =>
        have hy := List.mem_of_find?_eq_some hL
        have hry := List.find?_some hL
        rw [eq_of_nodup_map_path A hnd y (hsl.subset hy) f0 h0 (by rw [isRootGoMod_path y hry, hp0])]
  rw [this]

/-- C17 `dir_vs_list`, the state of the list check: over the files `listFilesInDir` lists and over all files
    of the tree it ends with the same valid files, the same invalid list and the same size error. -/
theorem dir_vs_list_state (E : Env) (g : Bool) (t : List (Bytes × Node)) (hw : WFChildren t)
    (hg : g = goVers (allFiles t)) :
    (checkFilesSt E (listFilesInDir g t).files (goVers (listFilesInDir g t).files)).validFiles =
      (checkFilesSt E (allFiles t) (goVers (allFiles t))).validFiles ∧
    (checkFilesSt E (listFilesInDir g t).files (goVers (listFilesInDir g t).files)).cf.valid =
      (checkFilesSt E (allFiles t) (goVers (allFiles t))).cf.valid ∧
    (checkFilesSt E (listFilesInDir g t).files (goVers (listFilesInDir g t).files)).cf.invalid =
      (checkFilesSt E (allFiles t) (goVers (allFiles t))).cf.invalid ∧
    (checkFilesSt E (listFilesInDir g t).files (goVers (listFilesInDir g t).files)).cf.sizeError =
      (checkFilesSt E (allFiles t) (goVers (allFiles t))).cf.sizeError := by
  obtain ⟨hnd, hfacts⟩ := allFiles_facts t hw
  obtain ⟨hsl, hLnv⟩ := walkChildren_sub g t []
  have hout : ∀ f ∈ allFiles t, f ∉ (listFilesInDir g t).files → OmittedIn g (allFiles t) f :=
    walkChildren_left_out g t [] hw
  have hanc : ∀ f ∈ (listFilesInDir g t).files, ∀ g0 ∈ allFiles t, isVendoredPackage g0.path g = false →
      (pathSplit g0.path).1 ∈ dirPrefixes f.path → g0 ∈ (listFilesInDir g t).files :=
    walkChildren_ancestors g t [] hw
  change (listFilesInDir g t).files.Sublist (allFiles t) at hsl
  change ∀ f ∈ (listFilesInDir g t).files, isVendoredPackage f.path g = false at hLnv
  have hgv := goVers_listed g _ _ hnd hsl hout
  rw [hgv, ← hg]
  generalize hA : allFiles t = A at *
  generalize hL : (listFilesInDir g t).files = L at *
  have hndL : (L.map (·.path)).Nodup := hnd.sublist (hsl.map _)
  have hsame : ∀ f ∈ L, earlyRule E g A f = earlyRule E g L f := fun f hf =>
    earlyRule_listed E g A L f (belowModuleRoot_listed g A L (fun x hx => hsl.subset hx) hLnv hanc f hf)
  have hearly : ∀ f ∈ A, f ∉ L → ∃ r, earlyRule E g A f = some (.omitted r) := fun f hf hn =>
    earlyRule_of_omittedIn E g A f (hfacts f hf).1 (hfacts f hf).2.1 (hfacts f hf).2.2 (hout f hf hn)
  obtain ⟨c1, c2, c3⟩ := classifyFrom_sublist E g A L L A hsl hnd hearly hsame []
  obtain ⟨a1, a2, _, a4, a5⟩ := checkFilesSt_spec E A g hnd
  obtain ⟨b1, b2, _, b4, b5⟩ := checkFilesSt_spec E L g hndL
  have hfA := filter_unreadable_regular A (fun f hf => (hfacts f hf).1)
  have hfL := filter_unreadable_regular L (fun f hf => (hfacts f (hsl.subset hf)).1)
  unfold classifyAll at a1 a2 a4 a5 b1 b2 b4 b5
  refine ⟨by rw [a1, b1, c1], by rw [a2, b2, c1], by rw [a4, b4, c2, hfA, hfL], ?_⟩
  have := c3 ((MaxZipFile : Int), false)
  rw [← a5, ← b5] at this
  exact (congrArg Prod.snd this).symm


/-- C17 `dir_vs_list` -/
theorem dir_vs_list (E : Env) (mpath mvers : Bytes) (g : Bool) (t : List (Bytes × Node)) (hw : WFChildren t)
    (hg : g = goVers (allFiles t)) :
    (checkDir E g t).valid = (checkFilesV E (allFiles t)).valid ∧
    (checkDir E g t).invalid = (checkFilesV E (allFiles t)).invalid ∧
    (checkDir E g t).sizeError = (checkFilesV E (allFiles t)).sizeError ∧
    (checkDir E g t).err = (checkFilesV E (allFiles t)).err ∧
    createFromDir E mpath mvers g t = create E mpath mvers (allFiles t) := by
  obtain ⟨s1, s2, s3, s4⟩ := dir_vs_list_state E g t hw hg
  have herr : (checkFilesSt E (listFilesInDir g t).files (goVers (listFilesInDir g t).files)).cf.err =
      (checkFilesSt E (allFiles t) (goVers (allFiles t))).cf.err := by
    unfold CheckedFiles.err; rw [s3, s4]
  refine ⟨s2, s3, s4, ?_, ?_⟩
  · show CheckedFiles.err { (checkFilesSt E (listFilesInDir g t).files (goVers (listFilesInDir g t).files)).cf with
        omitted := _ } = _
    unfold CheckedFiles.err
    show (if (checkFilesSt E (listFilesInDir g t).files (goVers (listFilesInDir g t).files)).cf.sizeError = true then _
      else if (!(checkFilesSt E (listFilesInDir g t).files (goVers (listFilesInDir g t).files)).cf.invalid.isEmpty) = true
        then _ else _) = _
    rw [s3, s4]; rfl
  · unfold createFromDir
    rw [create_eq, create_eq, herr, s1]

end ModVerif.Proofs.ZipA
