/-
  EditMore, part 8 — the scan of SetRequireSeparateIndirect: every index it reports is a live `require` line or a
  `require` block of the statement list, and the last direct-only and the last indirect-only statement are different.
-/
import ModVerif.Proofs.EditMoreSepB
set_option linter.unusedSimpArgs false
namespace ModVerif.Modfile.Edit
open ModVerif ModVerif.Modfile

/-! ### the scan -/

structure ScanInv (all : List Expr) (i : Nat) (s : Scan) : Prop where
  direct : ∀ d, s.lastDirect = some d → d < i ∧ ReqAt all d
  indirect : ∀ j, s.lastIndirect = some j → j < i ∧ ReqAt all j
  require : ∀ k, s.lastRequire = some k → k < i ∧ ReqAt all k
  ne : ∀ d j, s.lastDirect = some d → s.lastIndirect = some j → d ≠ j

theorem ScanInv.mono {all : List Expr} {i : Nat} {s : Scan} (h : ScanInv all i s) : ScanInv all (i + 1) s :=
  ⟨fun d hd => ⟨Nat.lt_succ_of_lt (h.direct d hd).1, (h.direct d hd).2⟩,
   fun d hd => ⟨Nat.lt_succ_of_lt (h.indirect d hd).1, (h.indirect d hd).2⟩,
   fun d hd => ⟨Nat.lt_succ_of_lt (h.require d hd).1, (h.require d hd).2⟩, h.ne⟩

theorem ScanInv.step {all : List Expr} {i : Nat} {s s' : Scan} (h : ScanInv all i s) (hx : ReqAt all i)
    (h1 : s'.lastDirect = s.lastDirect ∨ s'.lastDirect = some i) (h2 : s'.lastIndirect = s.lastIndirect ∨ s'.lastIndirect = some i)
    (h3 : s'.lastRequire = s.lastRequire ∨ s'.lastRequire = some i)
    (h4 : ¬(s'.lastDirect = some i ∧ s'.lastIndirect = some i)) : ScanInv all (i + 1) s' := by
  refine ⟨?_, ?_, ?_, ?_⟩
  · intro d hd
    rcases h1 with e | e
    · rw [e] at hd; exact ⟨Nat.lt_succ_of_lt (h.direct d hd).1, (h.direct d hd).2⟩
    · rw [e] at hd; cases hd; exact ⟨Nat.lt_succ_self _, hx⟩
  · intro d hd
    rcases h2 with e | e
    · rw [e] at hd; exact ⟨Nat.lt_succ_of_lt (h.indirect d hd).1, (h.indirect d hd).2⟩
    · rw [e] at hd; cases hd; exact ⟨Nat.lt_succ_self _, hx⟩
  · intro d hd
    rcases h3 with e | e
    · rw [e] at hd; exact ⟨Nat.lt_succ_of_lt (h.require d hd).1, (h.require d hd).2⟩
    · rw [e] at hd; cases hd; exact ⟨Nat.lt_succ_self _, hx⟩
  · intro d j hd hj
    rcases h1 with e1 | e1 <;> rcases h2 with e2 | e2
    · rw [e1] at hd; rw [e2] at hj; exact h.ne d j hd hj
    · rw [e1] at hd; rw [e2] at hj; cases hj
      exact Nat.ne_of_lt (h.direct d hd).1
    · rw [e1] at hd; rw [e2] at hj; cases hd
      exact Nat.ne_of_gt (h.indirect j hj).1
    · exact absurd ⟨e1, e2⟩ h4

theorem sbl_false_left : ∀ (ls : List Line) (i : Bool), (scanBlockLines ls false i).1 = false := by
  intro ls
  induction ls with
  | nil => intro i; rfl
  | cons l ls ih =>
    intro i
    unfold scanBlockLines
    split
    · exact ih _
    · split
      · exact ih _
      · exact ih _

theorem sbl_false_right : ∀ (ls : List Line) (d : Bool), (scanBlockLines ls d false).2 = false := by
  intro ls
  induction ls with
  | nil => intro i; rfl
  | cons l ls ih =>
    intro d
    unfold scanBlockLines
    split
    · exact ih _
    · split
      · exact ih _
      · exact ih _

theorem sbl_not_both (ls : List Line) (init : Bool) (hinit : init = true → ls ≠ []) :
    ¬((scanBlockLines ls init init).1 = true ∧ (scanBlockLines ls init init).2 = true) := by
  rintro ⟨h1, h2⟩
  cases ls with
  | nil =>
    simp only [scanBlockLines] at h1
    exact hinit h1 rfl
  | cons l ls =>
    unfold scanBlockLines at h1 h2
    by_cases hc : hasComments l.comments = true
    · rw [if_pos hc] at h1; rw [sbl_false_left] at h1; cases h1
    · rw [if_neg hc] at h1 h2
      by_cases hi : isIndirect l = true
      · rw [if_pos hi] at h1; rw [sbl_false_left] at h1; cases h1
      · rw [if_neg hi] at h2; rw [sbl_false_right] at h2; cases h2

theorem ScanInv.step2 {all : List Expr} {i : Nat} {s : Scan} (h : ScanInv all i s) (hx : ReqAt all i) (nd ni : Bool)
    (hnb : ¬(nd = true ∧ ni = true)) (s' : Scan) (h1 : s'.lastDirect = if nd then some i else s.lastDirect)
    (h2 : s'.lastIndirect = if ni then some i else s.lastIndirect) (h3 : s'.lastRequire = some i) : ScanInv all (i + 1) s' := by
  refine h.step hx ?_ ?_ (Or.inr h3) ?_
  · rw [h1]; cases nd
    · exact Or.inl rfl
    · exact Or.inr rfl
  · rw [h2]; cases ni
    · exact Or.inl rfl
    · exact Or.inr rfl
  · rintro ⟨e1, e2⟩
    rw [h1] at e1; rw [h2] at e2
    cases nd with
    | false =>
      simp only [Bool.false_eq_true, if_false] at e1
      have := (h.direct _ e1).1; omega
    | true =>
      cases ni with
      | false =>
        simp only [Bool.false_eq_true, if_false] at e2
        have := (h.indirect _ e2).1; omega
      | true => exact hnb ⟨rfl, rfl⟩

theorem scanStmts_inv (all : List Expr) : ∀ (xs pre : List Expr) (s : Scan), all = pre ++ xs → ScanInv all pre.length s →
    ScanInv all all.length (scanStmts xs pre.length s) := by
  intro xs
  induction xs with
  | nil =>
    intro pre s hall h
    simp only [scanStmts]
    have : all.length = pre.length := by rw [hall]; simp
    rw [this]; exact h
  | cons x xs ih =>
    intro pre s hall h
    have hall' : all = (pre ++ [x]) ++ xs := by rw [hall]; simp
    have hlen : (pre ++ [x]).length = pre.length + 1 := by simp
    have hget : all[pre.length]? = some x := by
      rw [hall, List.getElem?_append_right (Nat.le_refl _)]; simp
    have next : ∀ s', ScanInv all (pre.length + 1) s' → ScanInv all all.length (scanStmts xs (pre.length + 1) s') := by
      intro s' hs'
      have := ih (pre ++ [x]) s' hall' (by rw [hlen]; exact hs')
      rw [hlen] at this; exact this
    cases x with
    | line l =>
      unfold scanStmts
      by_cases hc : (l.token.isEmpty || !headIs l.token (B "require")) = true
      · rw [if_pos hc]; exact next _ h.mono
      · rw [if_neg hc]
        simp only [Bool.or_eq_true, not_or, Bool.not_eq_true, Bool.not_eq_false', Bool.not_eq_true'] at hc
        have hreq : ReqAt all pre.length := ⟨_, hget, by
          refine ⟨?_, by simpa using hc.2⟩
          intro e; rw [e] at hc; simp at hc⟩
        apply next
        dsimp only
        refine h.step2 hreq (!hasComments l.comments && !isIndirect l) (!hasComments l.comments && isIndirect l) ?_ _ ?_ ?_ ?_
        · cases hasComments l.comments <;> cases isIndirect l <;> simp
        · cases hasComments l.comments <;> cases isIndirect l <;> simp
        · cases hasComments l.comments <;> cases isIndirect l <;> simp
        · cases hasComments l.comments <;> cases isIndirect l <;> simp
    | lineBlock b =>
      unfold scanStmts
      by_cases hc : (b.token.isEmpty || !headIs b.token (B "require")) = true
      · rw [if_pos hc]; exact next _ h.mono
      · rw [if_neg hc]
        simp only [Bool.or_eq_true, not_or, Bool.not_eq_true, Bool.not_eq_false', Bool.not_eq_true'] at hc
        have hreq : ReqAt all pre.length := ⟨_, hget, by simpa [ReqStmt] using hc.2⟩
        have hnb := sbl_not_both b.lines (!b.lines.isEmpty && !hasComments b.comments) (by
          intro hi e; rw [e] at hi; simp at hi)
        apply next
        dsimp only
        generalize scanBlockLines b.lines (!b.lines.isEmpty && !hasComments b.comments) (!b.lines.isEmpty && !hasComments b.comments) = r at hnb ⊢
        rcases r with ⟨ad, ai⟩
        refine h.step2 hreq ad ai hnb _ ?_ ?_ ?_
        · cases ad <;> cases ai <;> simp
        · cases ad <;> cases ai <;> simp
        · cases ad <;> cases ai <;> simp
    | commentBlock c => unfold scanStmts; exact next _ h.mono
    | lparen c => unfold scanStmts; exact next _ h.mono
    | rparen c => unfold scanStmts; exact next _ h.mono

theorem scan_inv (stmts : List Expr) : ScanInv stmts stmts.length (scanStmts stmts 0 {}) := by
  have h0 : ScanInv stmts ([] : List Expr).length {} := by
    refine ⟨fun _ h => ?_, fun _ h => ?_, fun _ h => ?_, fun _ _ h => ?_⟩ <;> cases h
  exact scanStmts_inv stmts stmts [] {} (by simp) h0

end ModVerif.Modfile.Edit
