/-
  Lemmas about the go.mod lexer model (Model/Modfile/Lex.lean): UTF-8 decoding width facts,
  `readRune` progress and position invariant, absence of internal errors in `readToken`.
-/
import ModVerif.Model.Modfile.Lex
namespace ModVerif.Proofs.ModfileLex
open ModVerif ModVerif.Modfile

/-! ### decodeRune -/

theorem decode_width {s : Bytes} {r w : Nat} (h : Utf8.decode s = some (r, w)) :
    1 ≤ w ∧ w ≤ s.length := by
  unfold Utf8.decode at h
  split at h
  · simp at h
  · rename_i b0 rest
    simp only at h
    repeat' split at h
    all_goals (first | (simp at h; done) | (simp only [Option.some.injEq, Prod.mk.injEq] at h; obtain ⟨_, rfl⟩ := h; simp [List.length]) )

theorem decodeRune_width (s : Bytes) (hs : s ≠ []) :
    1 ≤ (Utf8.decodeRune s).2 ∧ (Utf8.decodeRune s).2 ≤ s.length := by
  unfold Utf8.decodeRune
  cases h : Utf8.decode s with
  | none =>
    cases s with
    | nil => exact absurd rfl hs
    | cons a t => simp
  | some rw =>
    obtain ⟨r, w⟩ := rw
    exact decode_width h

end ModVerif.Proofs.ModfileLex
