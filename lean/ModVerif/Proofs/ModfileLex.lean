/-
  Lemmas about the go.mod lexer model (Model/Modfile/Lex.lean): UTF-8 decoding width facts,
  `readRune` progress and position invariant, absence of internal errors in `readToken`.
-/
import ModVerif.Model.Modfile.Lex
namespace ModVerif.Proofs.ModfileLex
open ModVerif ModVerif.Modfile

/-! ### decodeRune -/

theorem decode_width {s : Bytes} {r w : Nat} (h : Utf8.decode s = some (r, w)) :
    1 ≤ w ∧ w ≤ s.length := by
  unfold Utf8.decode at h
  split at h
  · simp at h
  · rename_i b0 rest
    simp only at h
    repeat' split at h
    all_goals (first | (simp at h; done) | (simp only [Option.some.injEq, Prod.mk.injEq] at h; obtain ⟨_, rfl⟩ := h; simp [List.length]) )

theorem decodeRune_width (s : Bytes) (hs : s ≠ []) :
    1 ≤ (Utf8.decodeRune s).2 ∧ (Utf8.decodeRune s).2 ≤ s.length := by
  unfold Utf8.decodeRune
  cases h : Utf8.decode s with
  | none =>
    cases s with
    | nil => exact absurd rfl hs
    | cons a t => simp
  | some rw =>
    obtain ⟨r, w⟩ := rw
    exact decode_width h

end ModVerif.Proofs.ModfileLex

namespace ModVerif.Proofs.ModfileLex
open ModVerif ModVerif.Modfile

/-! ### readRune -/

/-- the error is not one of the "internal error" kinds -/
def NotInternal (e : SynErr) : Prop := ∀ t, e.kind ≠ .internal t

/-- a result that is not an internal error -/
def NoInternal {α : Type} (r : Except SynErr α) : Prop := ∀ e, r = .error e → NotInternal e

theorem noInternal_ok {α : Type} (a : α) : NoInternal (Except.ok a : Except SynErr α) := by
  intro e h; cases h

theorem readRune_ok (i : Input) (h : i.remaining ≠ []) :
    ∃ r i', readRune i = .ok (r, i') ∧ i'.remaining.length < i.remaining.length ∧
      i'.token = i.token ∧ i'.commentsRev = i.commentsRev ∧ i'.nextId = i.nextId := by
  have hw := decodeRune_width i.remaining h
  unfold readRune
  cases hr : i.remaining with
  | nil => exact absurd hr h
  | cons a t =>
    rw [hr] at hw
    refine ⟨_, _, rfl, ?_, rfl, rfl, rfl⟩
    simp only [List.length_drop, List.length_cons] at *
    omega

theorem eof_false_iff (i : Input) : i.eof = false ↔ i.remaining ≠ [] := by
  unfold Input.eof; cases i.remaining <;> simp

/-! ### the lexer loops never run out of fuel and never read past the end -/

theorem skipSpaces_spec : ∀ (fuel : Nat) (i : Input), i.remaining.length < fuel →
    ∃ i', skipSpaces fuel i = .ok i' ∧ i'.remaining.length ≤ i.remaining.length ∧
      i'.commentsRev = i.commentsRev ∧ i'.nextId = i.nextId := by
  intro fuel
  induction fuel with
  | zero => intro i h; omega
  | succ n ih =>
    intro i h
    unfold skipSpaces
    cases he : i.eof with
    | true => exact ⟨i, by simp, Nat.le_refl _, rfl, rfl⟩
    | false =>
      simp only [Bool.false_eq_true, if_false]
      split
      · obtain ⟨r, i1, h1, hlt, _, hc, hn⟩ := readRune_ok i ((eof_false_iff i).1 he)
        obtain ⟨i2, h2, hle, hc2, hn2⟩ := ih i1 (by omega)
        refine ⟨i2, ?_, by omega, by rw [hc2, hc], by rw [hn2, hn]⟩
        simp [h1, bind, Except.bind, h2]
      · exact ⟨i, rfl, Nat.le_refl _, rfl, rfl⟩

theorem consumeLine_spec : ∀ (fuel : Nat) (i : Input), i.remaining.length < fuel →
    ∃ i', consumeLine fuel i = .ok i' ∧ i'.remaining.length ≤ i.remaining.length ∧
      i'.commentsRev = i.commentsRev ∧ i'.nextId = i.nextId ∧ i'.token = i.token := by
  intro fuel
  induction fuel with
  | zero => intro i h; omega
  | succ n ih =>
    intro i h
    unfold consumeLine
    cases he : i.eof with
    | true => exact ⟨i, by simp, Nat.le_refl _, rfl, rfl, rfl⟩
    | false =>
      simp only [Bool.false_eq_true, if_false]
      obtain ⟨r, i1, h1, hlt, ht, hc, hn⟩ := readRune_ok i ((eof_false_iff i).1 he)
      by_cases hr : r = 10
      · refine ⟨i1, ?_, by omega, hc, hn, ht⟩
        simp [h1, bind, Except.bind, hr]
      · obtain ⟨i2, h2, hle, hc2, hn2, ht2⟩ := ih i1 (by omega)
        refine ⟨i2, ?_, by omega, by rw [hc2, hc], by rw [hn2, hn], by rw [ht2, ht]⟩
        simp [h1, bind, Except.bind, hr, h2]

theorem readString_spec (q : Nat) : ∀ (fuel : Nat) (i : Input), i.remaining.length < fuel →
    (∃ i', readString q fuel i = .ok i' ∧ i'.remaining.length ≤ i.remaining.length ∧
        i'.commentsRev = i.commentsRev ∧ i'.nextId = i.nextId) ∨
    (∃ e, readString q fuel i = .error e ∧ NotInternal e) := by
  intro fuel
  induction fuel with
  | zero => intro i h; omega
  | succ n ih =>
    intro i h
    unfold readString
    cases he : i.eof with
    | true => exact Or.inr ⟨⟨i.token.pos, .eofInString⟩, by simp, by intro t; simp⟩
    | false =>
      simp only [Bool.false_eq_true, if_false]
      split
      · exact Or.inr ⟨_, rfl, by intro t; simp [Input.error]⟩
      · obtain ⟨r, i1, h1, hlt, ht, hc, hn⟩ := readRune_ok i ((eof_false_iff i).1 he)
        simp only [h1, bind, Except.bind]
        split
        · exact Or.inl ⟨i1, rfl, by omega, hc, hn⟩
        · split
          · cases he1 : i1.eof with
            | true => exact Or.inr ⟨⟨i1.token.pos, .eofInString⟩, by simp, by intro t; simp⟩
            | false =>
              simp only [Bool.false_eq_true, if_false]
              obtain ⟨r2, i2, h2, hlt2, ht2, hc2, hn2⟩ := readRune_ok i1 ((eof_false_iff i1).1 he1)
              simp only [h2]
              rcases ih i2 (by omega) with ⟨i3, h3, hle, hc3, hn3⟩ | ⟨e, h3, hne⟩
              · exact Or.inl ⟨i3, h3, by omega, by rw [hc3, hc2, hc], by rw [hn3, hn2, hn]⟩
              · exact Or.inr ⟨e, h3, hne⟩
          · rcases ih i1 (by omega) with ⟨i3, h3, hle, hc3, hn3⟩ | ⟨e, h3, hne⟩
            · exact Or.inl ⟨i3, h3, by omega, by rw [hc3, hc], by rw [hn3, hn]⟩
            · exact Or.inr ⟨e, h3, hne⟩

end ModVerif.Proofs.ModfileLex

namespace ModVerif.Proofs.ModfileLex
open ModVerif ModVerif.Modfile

theorem peekRune_nil {i : Input} (h : i.remaining = []) : i.peekRune = 0 := by
  unfold Input.peekRune; rw [h]

theorem isIdent_zero : isIdent 0 = false := by decide

theorem remaining_ne_of_isIdent {i : Input} (h : isIdent i.peekRune = true) : i.remaining ≠ [] := by
  intro hn
  rw [peekRune_nil hn, isIdent_zero] at h
  cases h

theorem readIdent_spec : ∀ (fuel : Nat) (i : Input), i.remaining.length < fuel →
    (∃ i', readIdent fuel i = .ok i' ∧ i'.remaining.length ≤ i.remaining.length ∧
        i'.commentsRev = i.commentsRev ∧ i'.nextId = i.nextId ∧
        ((isIdent i.peekRune = true ∧ i.peekPrefix [47, 47] = false ∧ i.peekPrefix [47, 42] = false) →
          i'.remaining.length < i.remaining.length)) ∨
    (∃ e, readIdent fuel i = .error e ∧ NotInternal e) := by
  intro fuel
  induction fuel with
  | zero => intro i h; omega
  | succ n ih =>
    intro i h
    unfold readIdent
    cases hid : isIdent i.peekRune with
    | false => exact Or.inl ⟨i, by simp, Nat.le_refl _, rfl, rfl, by intro h; simp at h⟩
    | true =>
      simp only [if_true]
      cases hp1 : i.peekPrefix [47, 47] with
      | true => exact Or.inl ⟨i, by simp, Nat.le_refl _, rfl, rfl, by intro h; simp at h⟩
      | false =>
        simp only [Bool.false_eq_true, if_false]
        cases hp2 : i.peekPrefix [47, 42] with
        | true => exact Or.inr ⟨i.error .blockComment, by simp, by intro t; simp [Input.error]⟩
        | false =>
          simp only [Bool.false_eq_true, if_false]
          obtain ⟨r, i1, h1, hlt, ht, hc, hn⟩ := readRune_ok i (remaining_ne_of_isIdent hid)
          simp only [h1, bind, Except.bind]
          rcases ih i1 (by omega) with ⟨i2, h2, hle, hc2, hn2, _⟩ | ⟨e, h2, hne⟩
          · exact Or.inl ⟨i2, h2, by omega, by rw [hc2, hc], by rw [hn2, hn], by intro _; omega⟩
          · exact Or.inr ⟨e, h2, hne⟩

theorem decodeRune_ascii (b : UInt8) (rest : Bytes) (h : b.toNat < 0x80) :
    Utf8.decodeRune (b :: rest) = (b.toNat, 1) := by
  unfold Utf8.decodeRune Utf8.decode
  simp [h]

theorem readRune_remaining {i : Input} {r : Nat} {i' : Input} (h : readRune i = .ok (r, i')) :
    i'.remaining = i.remaining.drop (Utf8.decodeRune i.remaining).2 := by
  unfold readRune at h
  split at h
  · cases h
  · simp only [Except.ok.injEq, Prod.mk.injEq] at h
    obtain ⟨_, rfl⟩ := h
    rfl

@[simp] theorem startToken_remaining (i : Input) : (startToken i).remaining = i.remaining := rfl
@[simp] theorem startToken_commentsRev (i : Input) : (startToken i).commentsRev = i.commentsRev := rfl
@[simp] theorem startToken_nextId (i : Input) : (startToken i).nextId = i.nextId := rfl
@[simp] theorem endToken_remaining (k : TokKind) (i : Input) : (endToken k i).remaining = i.remaining := rfl
@[simp] theorem endToken_nextId (k : TokKind) (i : Input) : (endToken k i).nextId = i.nextId := rfl
@[simp] theorem endToken_kind (k : TokKind) (i : Input) : (endToken k i).token.kind = k := rfl

theorem isPrefix_cons_ne_nil {p : UInt8} {ps s : Bytes} (h : isPrefixOfB (p :: ps) s = true) : s ≠ [] := by
  intro hs; rw [hs] at h; simp [isPrefixOfB] at h

/-- readComment (entered when the input starts with `//`): no internal error, strict progress. -/
theorem readComment_spec (i : Input) (hp : i.peekPrefix [47, 47] = true) :
    ∃ i', readComment i = .ok i' ∧ i'.remaining.length < i.remaining.length ∧ i'.nextId = i.nextId := by
  unfold Input.peekPrefix at hp
  have hne : i.remaining ≠ [] := isPrefix_cons_ne_nil hp
  -- the input is '/' '/' …
  obtain ⟨t, ht⟩ : ∃ t, i.remaining = 47 :: 47 :: t := by
    cases hr : i.remaining with
    | nil => exact absurd hr hne
    | cons a r1 =>
      rw [hr] at hp
      cases r1 with
      | nil => simp [isPrefixOfB] at hp
      | cons b r2 =>
        simp [isPrefixOfB] at hp
        exact ⟨r2, by rw [← hp.1, ← hp.2]⟩
  unfold readComment
  obtain ⟨r1, i1, h1, hlt1, _, _, hn1⟩ := readRune_ok (startToken i) (by simpa using hne)
  have hrem1 : i1.remaining = 47 :: t := by
    rw [readRune_remaining h1, startToken_remaining, ht, decodeRune_ascii 47 _ (by decide)]
    rfl
  obtain ⟨r2, i2, h2, hlt2, _, _, hn2⟩ := readRune_ok i1 (by rw [hrem1]; simp)
  obtain ⟨i3, h3, hle3, _, hn3, _⟩ := consumeLine_spec (i2.remaining.length + 1) i2 (by omega)
  simp only [h1, h2, h3, bind, Except.bind]
  simp only [startToken_remaining] at hlt1
  split
  · exact ⟨_, rfl, by simp; omega, by simp [hn3, hn2, hn1]⟩
  · exact ⟨_, rfl, by simp; omega, by simp [hn3, hn2, hn1]⟩

/-- readToken never reports an internal error; the input never grows; a token other than EOF
    consumes at least one byte; the line-identity counter is untouched. -/
theorem readToken_spec (i : Input) :
    (∃ i', readToken i = .ok i' ∧ i'.remaining.length ≤ i.remaining.length ∧
        (i'.token.kind ≠ .eof → i'.remaining.length < i.remaining.length) ∧ i'.nextId = i.nextId) ∨
    (∃ e, readToken i = .error e ∧ NotInternal e) := by
  unfold readToken
  obtain ⟨i0, h0, hle0, _, hn0⟩ := skipSpaces_spec (i.remaining.length + 1) i (by omega)
  simp only [h0, bind, Except.bind]
  cases he : i0.eof with
  | true =>
    simp only [Bool.not_true, Bool.false_and, Bool.false_eq_true, if_false]
    have : (startToken i0).eof = true := he
    simp only [this, if_true]
    exact Or.inl ⟨_, rfl, by simpa using hle0, by intro h; simp at h, by simp [hn0]⟩
  | false =>
    have hne0 : i0.remaining ≠ [] := (eof_false_iff i0).1 he
    simp only [Bool.not_false, Bool.true_and]
    cases hp1 : i0.peekPrefix [47, 47] with
    | true =>
      simp only [if_true]
      obtain ⟨i1, h1, hlt, hn1⟩ := readComment_spec i0 hp1
      exact Or.inl ⟨i1, h1, by omega, by intro _; omega, by rw [hn1, hn0]⟩
    | false =>
      simp only [Bool.false_eq_true, if_false]
      cases hp2 : i0.peekPrefix [47, 42] with
      | true => exact Or.inr ⟨i0.error .blockComment, by simp, by intro t; simp [Input.error]⟩
      | false =>
        simp only [Bool.false_eq_true, if_false]
        have hse : (startToken i0).eof = false := he
        simp only [hse, Bool.false_eq_true, if_false]
        have hpk : (startToken i0).peekRune = i0.peekRune := rfl
        obtain ⟨r1, i1, h1, hlt1, _, _, hn1⟩ := readRune_ok (startToken i0) (by simpa using hne0)
        simp only [startToken_remaining] at hlt1
        simp only [startToken_nextId] at hn1
        split
        · -- punctuation
          simp only [h1]
          exact Or.inl ⟨_, rfl, by simp; omega, by intro _; simp; omega, by simp [hn1, hn0]⟩
        · split
          · -- quoted string
            simp only [h1]
            rcases readString_spec (startToken i0).peekRune (i1.remaining.length + 1) i1 (by omega) with ⟨i2, h2, hle2, _, hn2⟩ | ⟨e, h2, hne⟩
            · simp only [h2]
              exact Or.inl ⟨_, rfl, by simp; omega, by intro _; simp; omega, by simp [hn2, hn1, hn0]⟩
            · simp only [h2]
              exact Or.inr ⟨e, rfl, hne⟩
          · split
            · exact Or.inr ⟨_, rfl, by intro t; simp [Input.error]⟩
            · rename_i hid
              rcases readIdent_spec ((startToken i0).remaining.length + 1) (startToken i0) (by omega) with
                ⟨i2, h2, hle2, _, hn2, hprog⟩ | ⟨e, h2, hne⟩
              · simp only [h2]
                have hp := hprog ⟨by simpa [hpk] using hid, hp1, hp2⟩
                simp only [startToken_remaining] at hp hle2
                exact Or.inl ⟨_, rfl, by simp; omega, by intro _; simp; omega, by simp [hn2, hn0]⟩
              · simp only [h2]
                exact Or.inr ⟨e, rfl, hne⟩

/-- The lexer half of `parse_no_internal_error`: no call of `readToken` yields an internal error
    ("readRune at EOF", or the model's out-of-fuel marker). -/
theorem readToken_noInternal (i : Input) : NoInternal (readToken i) := by
  intro e h
  rcases readToken_spec i with ⟨i', h', _⟩ | ⟨e', h', hne⟩
  · rw [h'] at h; cases h
  · rw [h'] at h; cases h; exact hne

end ModVerif.Proofs.ModfileLex
