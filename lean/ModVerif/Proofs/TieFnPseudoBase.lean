/-
  Tie helper for PseudoVersionBase of module/pseudo.go: the regenerated definition computes the hand model's
  `Pseudo.pseudoVersionBase`, including its two explicit `panic(...)` sites and the two error returns.
-/
import ModVerif.Generated.FnModule
import ModVerif.Model.Pseudo
import ModVerif.Proofs.GoRtLemmas
import ModVerif.Proofs.GoRtLemmasPseudo
import ModVerif.Proofs.TieFnPseudoDec
import ModVerif.Proofs.TieFnPseudoParse
import ModVerif.Tie.FnSemver
namespace ModVerif.TieFnPseudo
open ModVerif ModVerif.GoRt ModVerif.GoRtPseudo

/-- strings.LastIndexByte(s, 'c') = strings.LastIndex(s, "c") -/
theorem lastIndexByteAux_eq (c : UInt8) : ∀ (s : Bytes) (k : Nat) (acc : Int),
    lastIndexByteAux c s k acc = lastIndexAux [c] s k acc
  | [], _, _ => by simp [lastIndexByteAux, lastIndexAux]
  | x :: xs, k, acc => by
    have : (x == c) = (c == x) := by
      by_cases h : x = c
      · simp [h]
      · have h1 : (x == c) = false := by simpa using h
        have h2 : (c == x) = false := by simpa using fun e : c = x => h e.symm
        rw [h1, h2]
    simp only [lastIndexByteAux, lastIndexAux, isPrefixOfB_single, this]
    exact lastIndexByteAux_eq c xs (k + 1) _

theorem lastIndexByte_lit (n : Int) (c : UInt8) (hn : mkByte n = c) (s : Bytes) :
    lastIndexByte s n = lastIndex s [c] := by
  unfold lastIndexByte lastIndex; rw [hn]; exact lastIndexByteAux_eq c s 0 _

theorem trimSuffix_length_le (s p : Bytes) : (Pseudo.trimSuffix s p).length ≤ s.length := by
  unfold Pseudo.trimSuffix; split <;> simp

/-- the base found by parsePseudoVersion is a proper prefix of v; build is passed through -/
theorem parseRestModel_inv (v build : Bytes) (p : Pseudo.PseudoParts) (h : parseRestModel v build = .ok p) :
    p.base.length + 1 ≤ v.length ∧ p.build = build := by
  unfold parseRestModel at h
  have hw := trimSuffix_length_le v build
  generalize Pseudo.trimSuffix v build = w at h hw
  rcases last_cases 45 w with ⟨_, _, hs⟩ | ⟨a, rev, e, _, _, hs, _, _⟩
  · simp [hs] at h
  · have hal : a.length + 1 ≤ v.length := by
      have : w.length = a.length + 1 + rev.length := by rw [e]; simp; omega
      omega
    simp only [hs] at h
    rcases last_cases 45 a with ⟨_, _, hs1⟩ | ⟨a1, a2, e1, _, _, hs1, _, _⟩
    · rcases last_cases 46 a with ⟨_, _, ht⟩ | ⟨q1, q2, e2, _, _, ht, _, _⟩
      · simp [hs1, ht] at h
      · have hq : q1.length ≤ a.length := by rw [e2]; simp
        have hgt : ((q1.length : Int) > -1) := by omega
        simp only [hs1, ht, hgt, if_true] at h
        injection h with h; subst h
        exact ⟨by simp only []; omega, rfl⟩
    · have ha1 : a1.length ≤ a.length := by rw [e1]; simp
      rcases last_cases 46 a with ⟨_, _, ht⟩ | ⟨q1, q2, e2, _, _, ht, _, _⟩
      · simp only [hs1, ht] at h
        injection h with h; subst h
        exact ⟨by simp only []; omega, rfl⟩
      · have hq : q1.length ≤ a.length := by rw [e2]; simp
        simp only [hs1, ht] at h
        split at h
        · injection h with h; subst h
          exact ⟨by simp only []; omega, rfl⟩
        · injection h with h; subst h
          exact ⟨by simp only []; omega, rfl⟩

theorem parsePseudoVersion_inv (v : Bytes) (p : Pseudo.PseudoParts) (h : Pseudo.parsePseudoVersion v = .ok p) :
    p.base.length + 1 ≤ v.length := by
  rw [parsePseudoVersion_model_unfold] at h
  split at h
  · cases h
  · exact (parseRestModel_inv v _ p h).1

/-- PseudoVersionBase after the `err != nil` test -/
def baseRest (fuel : Nat) (base build : Bytes) : M (Bytes × (Option String)) := do
    let t2 ← (ModVerif.Generated.Semver.Prerelease fuel base)
    let pre := t2
    if decide (pre = ([] : Bytes)) then (if (!decide (build = ([] : Bytes))) then (pure (([] : Bytes), (wrapErr "InvalidVersionError" (some "lacks base version, but has build metadata %q")))) else (pure (([] : Bytes), (none : Option String)))) else (if decide (pre = ([45, 48] : Bytes)) then (do
      let base := (trimSuffix base pre)
      let i := (lastIndexByte base (46 : Int))
      if (decide (i < (0 : Int))) then (throw Err.panic) else (do
        let t3 ← sliceFrom base (i + (1 : Int))
        let t4 ← (Generated.Module.decDecimal fuel t3)
        let patch := t4
        if (decide (patch = ([] : Bytes))) then (pure (([] : Bytes), (wrapErr "InvalidVersionError" (some "version before %s would have negative patch number")))) else (do
          let t5 ← sliceTo base (i + (1 : Int))
          pure (((t5 ++ patch) ++ build), (none : Option String))))) else (if (!(hasSuffix base ([46, 48] : Bytes))) then (throw Err.panic) else (pure (((trimSuffix base ([46, 48] : Bytes)) ++ build), (none : Option String)))))

theorem PseudoVersionBase_unfold (re : Bytes → Bool) (fuel : Nat) (v : Bytes) :
    Generated.Module.PseudoVersionBase re fuel v =
      (Generated.Module.parsePseudoVersion re fuel v >>= fun t1 =>
        if (!(t1.2.2.2.2).isNone) then (pure (([] : Bytes), t1.2.2.2.2)) else baseRest fuel t1.1 t1.2.2.2.1) := by
  unfold Generated.Module.PseudoVersionBase baseRest
  rfl

/-- the model's pseudoVersionBase after a successful parse -/
def baseRestModel (p : Pseudo.PseudoParts) : Except Pseudo.Err Bytes :=
    let pre := Semver.prerelease p.base
    if pre.isEmpty then
      (if !p.build.isEmpty then .error .build else .ok [])
    else if pre == ([45, 48] : Bytes) then
      let base := Pseudo.trimSuffix p.base pre
      match Pseudo.splitLast 46 base with
      | none => .error .panic
      | some (a, b) =>
        let patch := Pseudo.decDecimal b
        if patch.isEmpty then .error .negative
        else .ok (a ++ [46] ++ patch ++ p.build)
    else
      if !hasSuffixB p.base (([46, 48] : Bytes)) then .error .panic
      else .ok (Pseudo.trimSuffix p.base (([46, 48] : Bytes)) ++ p.build)

theorem pseudoVersionBase_model_unfold (v : Bytes) :
    Pseudo.pseudoVersionBase v =
      match Pseudo.parsePseudoVersion v with
      | .error e => .error e
      | .ok p => baseRestModel p := rfl

theorem baseRest_ok (p : Pseudo.PseudoParts) (fuel : Nat) (hf : 2 * p.base.length ≤ fuel) :
    baseRest fuel p.base p.build = strErrOut (baseRestModel p) := by
  unfold baseRest baseRestModel
  rw [Tie.FnSemver.Prerelease_tie p.base fuel hf, bind_ok]
  generalize Semver.prerelease p.base = pre
  by_cases hpe : pre = []
  · subst hpe
    by_cases hbe : p.build = []
    · simp [hbe, strErrOut]
    · have hbe' : p.build.isEmpty = false := by simpa using hbe
      simp [hbe, hbe', strErrOut, errOf]
  · have hpe' : pre.isEmpty = false := by simpa using hpe
    simp only [hpe, decide_false, Bool.false_eq_true, if_false, hpe']
    by_cases hp0 : pre = [45, 48]
    · subst hp0
      have hbeq : (([45, 48] : Bytes) == [45, 48]) = true := by decide
      simp only [decide_true, if_true, hbeq]
      have htrim : trimSuffix p.base [45, 48] = Pseudo.trimSuffix p.base [45, 48] := rfl
      have htl := trimSuffix_length_le p.base [45, 48]
      rw [htrim]
      generalize Pseudo.trimSuffix p.base [45, 48] = w at htl
      rw [lastIndexByte_lit 46 46 (by decide) w]
      rcases last_cases 46 w with ⟨_, hi, hs⟩ | ⟨a, b, e, _, hi, hs, _, _⟩
      · simp [hi, hs, strErrOut]
      · have hlt : ¬ ((a.length : Int) < 0) := by omega
        have hb : b.length + 1 ≤ fuel := by
          have : w.length = a.length + 1 + b.length := by rw [e]; simp; omega
          omega
        simp only [hi, hs, hlt, decide_false, Bool.false_eq_true, if_false]
        rw [e, sliceFrom_split_succ, sliceTo_split_succ, bind_ok, decDecimal_ok b fuel hb, bind_ok]
        by_cases hpz : Pseudo.decDecimal b = []
        · simp [hpz, strErrOut, errOf]
        · have hpz' : (Pseudo.decDecimal b).isEmpty = false := by simpa using hpz
          simp [hpz, hpz', strErrOut]
    · have hbeq : (pre == ([45, 48] : Bytes)) = false := by simpa using hp0
      simp only [hp0, decide_false, Bool.false_eq_true, if_false, hbeq]
      have hsuf : hasSuffix p.base [46, 48] = hasSuffixB p.base [46, 48] := rfl
      have htrim : trimSuffix p.base [46, 48] = Pseudo.trimSuffix p.base [46, 48] := rfl
      rw [hsuf, htrim]
      cases hasSuffixB p.base [46, 48] <;> simp [strErrOut]

theorem PseudoVersionBase_ok (v : Bytes) (fuel : Nat) (hf : 2 * v.length ≤ fuel) :
    Generated.Module.PseudoVersionBase Pseudo.matchPseudoVersionRE fuel v =
      strErrOut (Pseudo.pseudoVersionBase v) := by
  rw [PseudoVersionBase_unfold, parsePseudoVersion_ok v fuel hf, pseudoVersionBase_model_unfold]
  cases h : Pseudo.parsePseudoVersion v with
  | error e => cases e <;> simp [parseOut, strErrOut, errOf, wrapErr]
  | ok p =>
    have hl := parsePseudoVersion_inv v p h
    simp only [parseOut, bind_ok, Option.isNone_none, Bool.not_true, Bool.false_eq_true, if_false]
    exact baseRest_ok p fuel (by omega)

/-! ### concrete inputs of the non-vacuity examples in Tie/FnPseudo.lean -/

/-- "v1.2.4-0.20060102150405-abcdefabcdef" -/
def exRelease : Bytes := [118, 49, 46, 50, 46, 52, 45, 48, 46, 50, 48, 48, 54, 48, 49, 48, 50, 49, 53, 48, 52, 48, 53, 45, 97, 98, 99,
  100, 101, 102, 97, 98, 99, 100, 101, 102]
/-- "v1.0.0-20060102150405-abcdefabcdef+incompatible" -/
def exNoBaseBuild : Bytes := [118, 49, 46, 48, 46, 48, 45, 50, 48, 48, 54, 48, 49, 48, 50, 49, 53, 48, 52, 48, 53, 45, 97, 98, 99, 100,
  101, 102, 97, 98, 99, 100, 101, 102, 43, 105, 110, 99, 111, 109, 112, 97, 116, 105, 98, 108, 101]
/-- "v1.2.3-pre.0.20060102150405-abcdefabcdef" -/
def exPre : Bytes := [118, 49, 46, 50, 46, 51, 45, 112, 114, 101, 46, 48, 46, 50, 48, 48, 54, 48, 49, 48, 50, 49, 53, 48, 52, 48, 53,
  45, 97, 98, 99, 100, 101, 102, 97, 98, 99, 100, 101, 102]
/-- "v1.0.0-0.20060102150405-abcdefabcdef" -/
def exNegative : Bytes := [118, 49, 46, 48, 46, 48, 45, 48, 46, 50, 48, 48, 54, 48, 49, 48, 50, 49, 53, 48, 52, 48, 53, 45, 97, 98, 99,
  100, 101, 102, 97, 98, 99, 100, 101, 102]
/-- "20060102150405" -/
def exStamp : Bytes := [50, 48, 48, 54, 48, 49, 48, 50, 49, 53, 48, 52, 48, 53]
/-- "abcdefabcdef" -/
def exRev : Bytes := [97, 98, 99, 100, 101, 102, 97, 98, 99, 100, 101, 102]

end ModVerif.TieFnPseudo
