/-
  Helper lemmas for Tie/FnDirhashC19.lean (the C19 theorems restated about the regenerated `dirhash.Hash1`).
  Core Lean only.
-/
import ModVerif.Proofs.TieFnDirhash
import ModVerif.Proofs.Base64
namespace ModVerif.TieFnDirhash
open ModVerif ModVerif.Dirhash

/-- `hash1` looks at `open` only on the listed names -/
theorem hash1_congr (sha : Bytes → Bytes) (files : List Bytes) (o₁ o₂ : Bytes → Option Bytes)
    (h : ∀ n ∈ files, o₁ n = o₂ n) : hash1 sha files o₁ = hash1 sha files o₂ := by
  unfold hash1 summary
  rw [summaryLoop_congr sha o₁ o₂ _ (fun n hn => h n ((sortStrings_perm files).subset hn))]

theorem summary_congr (sha : Bytes → Bytes) (files : List Bytes) (o₁ o₂ : Bytes → Option Bytes)
    (h : ∀ n ∈ files, o₁ n = o₂ n) : summary sha files o₁ = summary sha files o₂ := by
  unfold summary
  rw [summaryLoop_congr sha o₁ o₂ _ (fun n hn => h n ((sortStrings_perm files).subset hn))]

theorem openFOf_of_ok {open_ : Bytes → Bytes × Option String} {n c : Bytes} (h : open_ n = (c, none)) :
    openFOf open_ n = some c := by
  simp [openFOf, h]

theorem openFOf_eq_some {open_ : Bytes → Bytes × Option String} {n c : Bytes} (h : openFOf open_ n = some c) :
    open_ n = (c, none) := by
  unfold openFOf at h
  cases hop : open_ n with
  | mk r err =>
    rw [hop] at h
    cases err with
    | none => simp at h; rw [h]
    | some e => simp at h

/-- a callback that reads the pairs of `l` (distinct names) is, on the names of `l`, the model's `openPairs l` -/
theorem openFOf_eq_openPairs {open_ : Bytes → Bytes × Option String} {l : List (Bytes × Bytes)}
    (hnd : (l.map (·.1)).Nodup) (hopen : ∀ p ∈ l, open_ p.1 = (p.2, none)) :
    ∀ n ∈ l.map (·.1), openFOf open_ n = openPairs l n := by
  intro n hn
  obtain ⟨p, hp, rfl⟩ := List.mem_map.1 hn
  rw [openFOf_of_ok (hopen p hp)]
  exact (lookup_of_mem_nodup l p.1 p.2 hnd hp).symm

/-- when every listed file opens, the first error on a list with a newline name is the newline error -/
theorem firstErr_newline (open_ : Bytes → Bytes × Option String) : ∀ (l : List Bytes) (n : Bytes),
    n ∈ l → hasNewline n = true → (∀ m ∈ l, (open_ m).2 = none) → firstErr open_ l = some newlineMsg
  | [], _, hm, _, _ => by simp at hm
  | m :: l, n, hm, hn, ho => by
    rw [firstErr]
    cases hml : hasNewline m with
    | true => simp
    | false =>
      have hm' : n ∈ l := by
        rcases List.mem_cons.1 hm with rfl | hm'
        · rw [hn] at hml; exact absurd hml (by decide)
        · exact hm'
      simp only [Bool.false_eq_true, if_false, ho m List.mem_cons_self]
      exact firstErr_newline open_ l n hm' hn (fun q hq => ho q (List.mem_cons_of_mem _ hq))

/-- a list with a newline name always has a first error -/
theorem firstErr_isSome_of_newline (open_ : Bytes → Bytes × Option String) : ∀ (l : List Bytes) (n : Bytes),
    n ∈ l → hasNewline n = true → (firstErr open_ l).isSome = true
  | [], _, hm, _ => by simp at hm
  | m :: l, n, hm, hn => by
    rw [firstErr]
    cases hml : hasNewline m with
    | true => simp
    | false =>
      have hm' : n ∈ l := by
        rcases List.mem_cons.1 hm with rfl | hm'
        · rw [hn] at hml; exact absurd hml (by decide)
        · exact hm'
      simp only [Bool.false_eq_true, if_false]
      cases (open_ m).2 with
      | none => exact firstErr_isSome_of_newline open_ l n hm' hn
      | some e => simp

theorem hasNewline_of_mem {n : Bytes} (hn : (10 : UInt8) ∈ n) : hasNewline n = true := by
  cases e : hasNewline n with
  | true => rfl
  | false => exact absurd hn ((hasNewline_false_iff n).1 e)

theorem encodeStd_injective {x y : Bytes} (h : Base64.encodeStd x = Base64.encodeStd y) : x = y := by
  have hx := Base64.decodeStd_encodeStd x
  rw [h, Base64.decodeStd_encodeStd y] at hx
  exact (Option.some.inj hx).symm

/-- the value `Hash1_tie_anyOpen` assigns to the regenerated Hash1 is `(r, nil)` exactly when the model returns `r` -/
theorem result_ok_iff (sha : Bytes → Bytes) (files : List Bytes) (open_ : Bytes → Bytes × Option String) (r : Bytes) :
    (match hash1 sha files (openFOf open_) with
      | .ok h => (h, (none : Option String))
      | .error _ => ([], firstErr open_ (sortStrings files))) = (r, none)
    ↔ hash1 sha files (openFOf open_) = .ok r := by
  cases hh : hash1 sha files (openFOf open_) with
  | ok h => simp
  | error er =>
    have hsome : (firstErr open_ (sortStrings files)).isSome = true := by
      rw [← summaryLoop_error_iff sha open_]
      unfold hash1 summary at hh
      cases hs : summaryLoop sha (openFOf open_) (sortStrings files) with
      | error er' => exact ⟨er', rfl⟩
      | ok s => rw [hs] at hh; cases hh
    constructor
    · intro h
      have h2 := congrArg Prod.snd h
      simp only at h2
      rw [h2] at hsome
      cases hsome
    · intro h; cases h

/-- with an injective `sha`, the returned hash determines the summary -/
theorem summary_of_hash1_eq (sha : Bytes → Bytes) (hsha : Function.Injective sha) {files₁ files₂ : List Bytes}
    {o₁ o₂ : Bytes → Option Bytes} {r : Bytes} (h₁ : hash1 sha files₁ o₁ = .ok r) (h₂ : hash1 sha files₂ o₂ = .ok r) :
    ∃ s, summary sha files₁ o₁ = .ok s ∧ summary sha files₂ o₂ = .ok s := by
  unfold hash1 at h₁ h₂
  cases hs₁ : summary sha files₁ o₁ with
  | error e => rw [hs₁] at h₁; cases h₁
  | ok s₁ =>
    cases hs₂ : summary sha files₂ o₂ with
    | error e => rw [hs₂] at h₂; cases h₂
    | ok s₂ =>
      rw [hs₁] at h₁; rw [hs₂] at h₂
      have h := (Except.ok.inj h₁).trans (Except.ok.inj h₂).symm
      have hs : s₁ = s₂ := hsha (encodeStd_injective (List.append_cancel_left h))
      exact ⟨s₁, rfl, by rw [hs]⟩

end ModVerif.TieFnDirhash
