/-
  C02, end-of-line comments, stage (iii), part d: the parser on a stream of token records — block bodies and
  statements.  Same structure as Proofs/ModfileFmtParse2.lean; the lines and parentheses built carry the
  positions of the records (`eLines`), `(` and `)` may be followed by an end-of-line comment token.
-/
import ModVerif.Proofs.ModfileEolParse
namespace ModVerif.Proofs.ModfileEol
open ModVerif ModVerif.Modfile
open ModVerif.Proofs.ModfileFmtLex ModVerif.Proofs.ModfileFmtLine ModVerif.Proofs.ModfileFmtStream
open ModVerif.Proofs.ModfileFmtTree ModVerif.Proofs.ModfileFmtParse ModVerif.Proofs.ModfileFmtRender

variable {D : Bytes}

/-! ### single steps of the block loop -/

theorem blk_step_eolc (i i1 : Input) (x : LineBlock) (linesRev : List Line) (crev : List Comment) (m : Nat)
    (hk : i.token.kind = .eolComment) (hl : lex i = .ok (i.token, i1)) :
    parseLineBlockLoop (m + 1) i x linesRev crev = parseLineBlockLoop m i1 x linesRev crev := by
  conv => lhs; unfold parseLineBlockLoop
  simp only [Input.peek, hk, hl, bind, Except.bind]

theorem EStream.lex' {tok : Token} {s : List Token} {i : Input} (h : EStream D (tok :: s) i)
    (hk : tok.kind ≠ .eof) :
    ∃ i', Modfile.lex i = .ok (i.token, i') ∧ i'.nextId = i.nextId ∧ EStream D s i' ∧ fut s i' = fut (tok :: s) i := by
  obtain ⟨i', h1, h2, h3, h4⟩ := EStream.lex h hk
  exact ⟨i', by rw [h.tok]; exact h1, h2, h3, h4⟩

/-! ### comments and blank lines inside a block -/

theorem befT_length (m : Nat) (cs : List Comment) (R : Bytes) : (befT D m cs R).length = cs.length := by
  induction cs with
  | nil => rfl
  | cons c cs ih => simp [befT, ih]

theorem blk_commentsE (m : Nat) : ∀ (cs : List Comment) (crev : List Comment) (i : Input) (x : LineBlock)
    (linesRev : List Line) (fuel : Nat) (R : Bytes) (U : List Token),
    BlkBeforeOK (allowOf linesRev crev) cs → EStream D (befT D m cs R ++ U) i → cs.length + 1 ≤ fuel →
    ∃ crev' i' fuel', parseLineBlockLoop fuel i x linesRev crev = parseLineBlockLoop fuel' i' x linesRev crev' ∧
      crev'.reverse = crev.reverse ++ befC D m cs R ∧ EStream D U i' ∧
      fut U i' = fut (befT D m cs R ++ U) i ∧ fuel ≤ fuel' + cs.length := by
  intro cs
  induction cs with
  | nil =>
    intro crev i x linesRev fuel R U _ hS _
    exact ⟨crev, i, fuel, rfl, by simp [befC], by simpa [befT] using hS, by simp [befT], by simp⟩
  | cons c cs ih =>
    intro crev i x linesRev fuel R U hok hS hf
    obtain ⟨n, rfl⟩ : ∃ n, fuel = n + 1 := ⟨fuel - 1, by omega⟩
    simp only [List.length_cons] at hf
    unfold BlkBeforeOK at hok
    by_cases hemp : c.token.isEmpty = true
    · -- a blank line that is kept
      simp only [hemp, if_true] at hok
      obtain ⟨hallow, hsuf, hok'⟩ := hok
      have hemp' : c.token = [] := by simpa using hemp
      have htrim : (GoStrings.trimSpace c.token).isEmpty = true := by
        rw [hemp', ModfileFmtTrim.trimSpace_nil]; rfl
      have hS0 : EStream D (nlT D (rBefore m cs ++ R) :: (befT D m cs R ++ U)) i := by
        simpa [befT, htrim] using hS
      obtain ⟨i1, hl, hn, hS1, hf1⟩ := EStream.lex' hS0 (by simp [nlT])
      have hk : i.token.kind = .punct 10 := by rw [hS0.tok]; rfl
      have hallow1 : allowOf linesRev (({} : Comment) :: crev) = false := rfl
      obtain ⟨crev', i', fuel', heq, hcs, hS', hf', hfu⟩ := ih (({} : Comment) :: crev) i1 x linesRev n R U
        (by rw [hallow1]; exact hok') hS1 (by omega)
      refine ⟨crev', i', fuel', ?_, ?_, hS', ?_, by simp only [List.length_cons]; omega⟩
      · rw [← heq, blk_step_blank i i1 x linesRev crev n hk hl, hallow]
        rfl
      · rw [hcs]
        simp [befC, htrim]
      · rw [hf', hf1]
        simp [befT, htrim]
    · -- a whole-line comment
      simp only [hemp, Bool.false_eq_true, if_false] at hok
      obtain ⟨hsuf, hcok, hok'⟩ := hok
      obtain ⟨hne, _⟩ := commentOK_lastOK hcok
      have hS0 : EStream D (comT D (GoStrings.trimSpace c.token) (rBefore m cs ++ R) :: (befT D m cs R ++ U)) i := by
        simpa [befT, hne] using hS
      obtain ⟨i1, hl, hn, hS1, hf1⟩ := EStream.lex' hS0 (by simp [comT])
      have hk : i.token.kind = .comment := by rw [hS0.tok]; rfl
      have htx : i.token.text = GoStrings.trimSpace c.token := by rw [hS0.tok]; rfl
      have hps : i.token.pos = pa D (GoStrings.trimSpace c.token ++ 10 :: (rBefore m cs ++ R)) := by rw [hS0.tok]; rfl
      have hallow1 : allowOf linesRev (({ start := i.token.pos, token := i.token.text } : Comment) :: crev) = true := by
        simp only [allowOf, htx]
        simpa using hne
      obtain ⟨crev', i', fuel', heq, hcs, hS', hf', hfu⟩ := ih
        (({ start := i.token.pos, token := i.token.text } : Comment) :: crev) i1 x linesRev n R U
        (by rw [hallow1]; exact hok') hS1 (by omega)
      refine ⟨crev', i', fuel', ?_, ?_, hS', ?_, by simp only [List.length_cons]; omega⟩
      · rw [← heq, blk_step_comment i i1 x linesRev crev n hk hl]
      · rw [hcs]
        simp [befC, hne, htx, hps]
      · rw [hf', hf1]
        simp [befT, hne]

/-! ### the lines of a block and its closing parenthesis -/

theorem line_ext {a b : Line} (h1 : a.id = b.id) (h2 : a.comments = b.comments) (h3 : a.start = b.start)
    (h4 : a.token = b.token) (h5 : a.inBlock = b.inBlock) (h6 : a.«end» = b.«end») : a = b := by
  cases a; cases b; simp_all

theorem blk_linesE : ∀ (ls : List Line) (linesRev : List Line) (i : Input) (x : LineBlock) (fuel : Nat)
    (rb : List Comment) (RR Z : Bytes) (rpT eol : Token) (T : List Token), Z = rBefore 0 rb ++ RR →
    EWFBlkLines (!linesRev.isEmpty) ls → BlkBeforeOK (!(linesRev.isEmpty && ls.isEmpty)) rb →
    rpT.kind = .punct 41 → eol.kind.isEOL = true → eol.kind ≠ .eof →
    EStream D (linesT D ls Z ++ (befT D 0 rb RR ++ rpT :: eol :: T)) i →
    (linesT D ls Z ++ (befT D 0 rb RR ++ rpT :: eol :: T)).length ≤ fuel →
    ∃ b i', parseLineBlockLoop fuel i x linesRev [] = .ok (b, i') ∧
      b.lines.map zidL = linesRev.reverse.map zidL ++ eLines D ls Z ∧
      b.rparen = { comments := { before := befC D 0 rb RR }, pos := rpT.pos } ∧
      b.token = x.token ∧ b.comments = x.comments ∧ b.lparen = x.lparen ∧ b.start = x.start ∧
      EStream D T i' ∧ fut T i' = fut (linesT D ls Z ++ (befT D 0 rb RR ++ rpT :: eol :: T)) i := by
  intro ls
  induction ls with
  | nil =>
    intro linesRev i x fuel rb RR Z rpT eol T _ _ hrb hrk heol hne hS hf
    simp only [linesT, List.nil_append, List.length_append, List.length_cons] at hS hf
    have hallow : allowOf linesRev [] = !(linesRev.isEmpty && ([] : List Line).isEmpty) := by
      simp [allowOf]
    have hlen : (befT D 0 rb RR).length = rb.length := befT_length 0 rb RR
    obtain ⟨crev', i1, fuel1, heq, hcs, hS1, hf1, hfu⟩ := blk_commentsE 0 rb [] i x linesRev fuel RR (rpT :: eol :: T)
      (by rw [hallow]; exact hrb) hS (by omega)
    obtain ⟨m, rfl⟩ : ∃ m, fuel1 = m + 1 := ⟨fuel1 - 1, by omega⟩
    obtain ⟨i2, hl2, hn2, hS2, hf2⟩ := EStream.lex hS1 (by rw [hrk]; simp)
    have hk1 : i1.token = rpT := hS1.tok
    obtain ⟨i3, hl3, hn3, hS3, hf3⟩ := EStream.lex hS2 hne
    have hk2 : i2.token = eol := hS2.tok
    rw [heq]
    unfold parseLineBlockLoop
    simp only [Input.peek, hk1, hrk, hl2, bind, Except.bind, hk2, heol, Bool.not_true,
      Bool.false_eq_true, if_false, hl3]
    refine ⟨_, i3, rfl, by simp [eLines], ?_, rfl, rfl, rfl, rfl, hS3, ?_⟩
    · simp only [List.reverse_nil, List.nil_append] at hcs
      rw [← hcs]
    · rw [hf3, hf2, hf1]; simp [linesT]
  | cons l ls ih =>
    intro linesRev i x fuel rb RR Z rpT eol T hZ hls hrb hrk heol hne hS hf
    obtain ⟨hl, hls'⟩ := hls
    have hallow : allowOf linesRev [] = !linesRev.isEmpty := rfl
    obtain ⟨t0, ts, htok⟩ : ∃ t0 ts, l.token = t0 :: ts := by
      cases h : l.token with
      | nil => exact absurd h hl.ne
      | cons a b => exact ⟨a, b, rfl⟩
    -- names for the pieces of the stream
    obtain ⟨rest', hrest'⟩ : ∃ r, r = sufB l.comments.suffix (linesB ls Z) := ⟨_, rfl⟩
    obtain ⟨Tl, hTl⟩ : ∃ r, r = linesT D ls Z ++ (befT D 0 rb RR ++ rpT :: eol :: T) := ⟨_, rfl⟩
    obtain ⟨eolL, heolL⟩ : ∃ r, r = sufT D l.comments.suffix (linesB ls Z) := ⟨_, rfl⟩
    have hSeq : linesT D (l :: ls) Z ++ (befT D 0 rb RR ++ rpT :: eol :: T) =
        befT D 1 l.comments.before (9 :: (tokStr l.token [] ++ rest')) ++ (tokStrT D l.token rest' ++ eolL :: Tl) := by
      simp [linesT, List.append_assoc, hrest', hTl, heolL]
    rw [hSeq] at hS hf
    have hlenb : (befT D 1 l.comments.before (9 :: (tokStr l.token [] ++ rest'))).length = l.comments.before.length :=
      befT_length 1 _ _
    have hlent : (tokStrT D l.token rest').length = ts.length + 1 := by
      have := congrArg List.length (tokStrT_texts (D := D) l.token rest')
      simp only [List.length_map] at this
      rw [this, htok]; rfl
    have hf0 : l.comments.before.length + (ts.length + 1) + 1 + Tl.length ≤ fuel := by
      simp only [List.length_append, List.length_cons, hlenb, hlent] at hf
      omega
    obtain ⟨crev', i1, fuel1, heq, hcs, hS1, hf1, hfu⟩ := blk_commentsE 1 l.comments.before [] i x linesRev fuel _ _
      (by rw [hallow]; exact hl.before) hS (by omega)
    obtain ⟨m, rfl⟩ : ∃ m, fuel1 = m + 1 := ⟨fuel1 - 1, by omega⟩
    have htt : ∀ t ∈ l.token, TokText t := hl.tok
    have hlt : LT (tokStrT D l.token rest') := tokStrT_LT l.token htt rest'
    rw [htok, tokStrT_head] at hS1 hlt hlent
    have ht0 : TokText t0 := htt t0 (by rw [htok]; simp)
    have h41 : t0 ≠ [41] := by
      intro h
      apply hl.first
      rw [htok, h]; rfl
    have hk1 : i1.token.kind = kindOf t0 := by
      rw [hS1.tok]; rfl
    obtain ⟨d1, d2, d3, d4, d5⟩ := tokText_blk_default ht0 h41
    have heolk : eolL.kind.isEOL = true ∧ eolL.kind ≠ .eof := by
      rw [heolL]; unfold sufT; split <;> simp [eolT, nlT, TokKind.isEOL]
    obtain ⟨l0, i2, hpl, hl0tok, hl0c, hl0b, hl0s, hl0e, hS2, hf2⟩ := parseLine_E _ (tokStrT D ts rest') i1 (m + 1) eolL Tl
      hlt heolk.1 heolk.2 hS1 (by simp at hlent; omega)
    -- the line with its comments attached
    have hl1 : zidL { l0 with comments := { l0.comments with before := crev'.reverse } } =
        { id := 0,
          comments := { before := befC D 1 l.comments.before (9 :: (tokStr l.token [] ++ rest')) },
          start := pa D (tokStr l.token [] ++ rest'),
          token := l.token, inBlock := true, «end» := pa D rest' } := by
      apply line_ext
      · rfl
      · show ({ l0.comments with before := crev'.reverse } : Comments) = _
        rw [hl0c, hcs]; simp
      · show l0.start = _
        rw [hl0s]
        simp only [tokT, htok, tokStr_cons_nil, List.append_assoc]
      · show l0.token = _
        rw [hl0tok, ← tokStrT_head, tokStrT_texts, htok]
      · exact hl0b
      · show l0.«end» = _
        rw [hl0e]
        have := tokStrT_lastEnd (D := D) (t0 :: ts) rest' (tokT D t0 (tokStr ts (sepAfter t0) ++ rest')).endPos (by simp)
        rw [tokStrT_head] at this
        exact this
    obtain ⟨b, i3, hres, hlines, hrp, hbt, hbc, hbl, hbs, hS3, hf3⟩ := ih
      ({ l0 with comments := { l0.comments with before := crev'.reverse } } :: linesRev) i2 x m rb RR Z rpT eol T hZ
      (by simpa using hls') (by simpa using hrb) hrk heol hne (by rw [← hTl]; exact hS2) (by
        rw [← hTl]; simp at hlent; omega)
    refine ⟨b, i3, ?_, ?_, hrp, hbt, hbc, hbl, hbs, hS3, ?_⟩
    · rw [heq]
      unfold parseLineBlockLoop
      simp only [Input.peek]
      split
      · rename_i h; exact absurd (hk1 ▸ h) d1
      · rename_i h; exact absurd (hk1 ▸ h) d2
      · rename_i h; exact absurd (hk1 ▸ h) d3
      · rename_i h; exact absurd (hk1 ▸ h) d4
      · rename_i h; exact absurd (hk1 ▸ h) d5
      · simp only [hpl, bind, Except.bind]
        exact hres
    · rw [hlines]
      simp only [List.reverse_cons, List.map_append, List.map_cons, List.map_nil, List.append_assoc,
        List.singleton_append, hl1, eLines, hrest']
    · have e1 : fut T i3 = fut Tl i2 := by rw [hf3, hTl]
      have e2 : fut Tl i2 = fut (tokStrT D l.token rest' ++ eolL :: Tl) i1 := by rw [htok]; exact hf2
      rw [hSeq]
      exact e1.trans (e2.trans hf1)

/-! ### statements -/

/-- a block statement -/
theorem parseStmt_blockE (h0 : Token) (hs : List Token) (lpT lpEol : Token) (ls : List Line) (rb : List Comment)
    (RR : Bytes) (rpT eol : Token) (i : Input) (fuel : Nat) (T : List Token)
    (hlt : LT (h0 :: hs)) (hlk : lpT.kind = .punct 40) (hlt' : lpT.text = [40])
    (hlpe : lpEol.kind = .punct 10 ∨ lpEol.kind = .eolComment)
    (hls : EWFBlkLines false ls) (hrb : BlkBeforeOK (!ls.isEmpty) rb)
    (hrk : rpT.kind = .punct 41) (heol : eol.kind.isEOL = true) (hne : eol.kind ≠ .eof)
    (Z : Bytes) (hZ : Z = rBefore 0 rb ++ RR)
    (hS : EStream D ((h0 :: hs) ++ lpT :: lpEol :: (linesT D ls Z ++
      (befT D 0 rb RR ++ rpT :: eol :: T))) i)
    (hf : ((h0 :: hs) ++ lpT :: lpEol :: (linesT D ls Z ++
      (befT D 0 rb RR ++ rpT :: eol :: T))).length ≤ fuel) :
    ∃ b i', parseStmt fuel i = .ok (.lineBlock b, i') ∧ b.token = (h0 :: hs).map (·.text) ∧ b.comments = {} ∧
      b.lparen = { pos := lpT.pos } ∧ b.start = h0.pos ∧
      b.lines.map zidL = eLines D ls Z ∧
      b.rparen = { comments := { before := befC D 0 rb RR }, pos := rpT.pos } ∧
      EStream D T i' ∧
      fut T i' = fut ((h0 :: hs) ++ lpT :: lpEol :: (linesT D ls Z ++
        (befT D 0 rb RR ++ rpT :: eol :: T))) i := by
  have ht0 := hlt.head
  simp only [List.cons_append] at hS
  obtain ⟨i1, hl, hn, hS1, hf1⟩ := EStream.lex hS (lt_ne_eof ht0)
  simp only [List.cons_append, List.length_cons, List.length_append] at hf
  have hlpeol : lpEol.kind.isEOL = true := by
    rcases hlpe with h | h <;> rw [h] <;> rfl
  have hlpne : lpEol.kind ≠ .eof := by
    rcases hlpe with h | h <;> rw [h] <;> simp
  obtain ⟨i2, fuel1, hS2, hf2, hfu, hres⟩ := parseStmtLoop_hdrE hs.length hs (Nat.le_refl _) [h0.text] i1
    h0.pos h0.endPos fuel lpT lpEol _ hlt.tail hlk hlt' hlpeol hS1 (by omega)
  -- the end of the `(` line is dropped, then the body
  obtain ⟨i3, hl3, hn3, hS3, hf3⟩ := EStream.lex' hS2 hlpne
  have hk2 : i2.token = lpEol := hS2.tok
  obtain ⟨b, i4, hb, hlines, hrp, hbt, hbc, hbl, hbs, hS4, hf4⟩ := blk_linesE ls [] i3
    { start := h0.pos, token := [h0.text].reverse ++ hs.map (·.text), lparen := { pos := lpT.pos } } fuel1 rb RR Z rpT eol T hZ
    (by simpa using hls) (by simpa using hrb) hrk heol hne hS3 (by
      simp only [List.length_append, List.length_cons] at hf ⊢; omega)
  refine ⟨b, i4, ?_, by rw [hbt]; simp, hbc, by rw [hbl], by rw [hbs], by simpa using hlines, hrp, hS4,
    hf4.trans (hf3.trans (hf2.trans hf1))⟩
  unfold parseStmt
  simp only [hl, bind, Except.bind]
  apply hres
  unfold parseLineBlock
  rcases hlpe with h | h
  · rw [blk_step_blank i2 i3 _ [] [] fuel1 (by rw [hk2]; exact h) hl3]
    exact hb
  · rw [blk_step_eolc i2 i3 _ [] [] fuel1 (by rw [hk2]; exact h) hl3]
    exact hb

/-- a top-level line statement -/
theorem parseStmt_lineE (t0 : Token) (toks : List Token) (i : Input) (fuel : Nat) (eol : Token) (T : List Token)
    (hlt : LT (t0 :: toks)) (hok : lineTailOK (toks.map (·.text)) = true)
    (heol : eol.kind.isEOL = true) (hne : eol.kind ≠ .eof)
    (hS : EStream D ((t0 :: toks) ++ eol :: T) i) (hf : toks.length + 1 ≤ fuel) :
    ∃ l i', parseStmt fuel i = .ok (.line l, i') ∧ l.token = (t0 :: toks).map (·.text) ∧ l.comments = {} ∧
      l.inBlock = false ∧ l.start = t0.pos ∧ l.«end» = lastEnd t0.endPos toks ∧
      EStream D T i' ∧ fut T i' = fut ((t0 :: toks) ++ eol :: T) i := by
  have ht0 := hlt.head
  simp only [List.cons_append] at hS
  obtain ⟨i1, hl, hn, hS1, hf1⟩ := EStream.lex hS (lt_ne_eof ht0)
  obtain ⟨l, i', hr, htok, hcm, hib, hst, hen, hS', hf'⟩ := parseStmtLoop_lineE toks.length toks (Nat.le_refl _) [t0.text] i1
    t0.pos t0.endPos fuel eol T hlt.tail hok heol hne hS1 hf
  unfold parseStmt
  simp only [hl, bind, Except.bind]
  exact ⟨l, i', hr, by rw [htok]; simp, hcm, hib, hst, hen, hS', hf'.trans hf1⟩

end ModVerif.Proofs.ModfileEol
