/-
  EditRefine, part 1 — the shared loops of the edit model (`firstRest`, `clearAll`) against the list algebra of
  the specification (`updFirstDropRest`, `dropAll`, `setKeyed`), through an abstraction `a : α → β` and after
  dropping the cleared placeholders (`live`).
-/
import ModVerif.Model.Modfile.EditAbs
import ModVerif.Proofs.EditSpecLists
namespace ModVerif.Modfile.Edit
open ModVerif ModVerif.Modfile ModVerif.EditSpec

section loops
variable {α β : Type} (m : α → Bool) (id : α → Nat) (upd : α → α) (cleared : α)
  (live : α → Bool) (a : α → β) (m' : β → Bool) (u : β → β)

/-- the live part of a typed list, abstracted -/
def liveAbs (l : List α) : List β := (l.filter live).map a

theorem liveAbs_cons (x : α) (xs : List α) :
    liveAbs live a (x :: xs) = if live x then a x :: liveAbs live a xs else liveAbs live a xs := by
  unfold liveAbs; by_cases h : live x = true <;> simp [List.filter, h]

theorem liveAbs_append (l1 l2 : List α) : liveAbs live a (l1 ++ l2) = liveAbs live a l1 ++ liveAbs live a l2 := by
  simp [liveAbs, List.filter_append]

theorem liveAbs_any (hm : ∀ x, live x = true → m' (a x) = m x) (hml : ∀ x, m x = true → live x = true) (l : List α) :
    (liveAbs live a l).any m' = l.any m := by
  induction l with
  | nil => rfl
  | cons x xs ih =>
    rw [liveAbs_cons]
    by_cases h : live x = true
    · simp [h, ih, hm x h]
    · have : m x = false := by
        cases hmx : m x with
        | false => rfl
        | true => exact absurd (hml x hmx) h
      simp [h, ih, this]

theorem clearAll_abs (hc : live cleared = false) (hm : ∀ x, live x = true → m' (a x) = m x)
    (l : List α) : ∀ (l' : List α) (dead : List Nat), clearAll m id cleared l = .ok (l', dead) →
      liveAbs live a l' = dropAll m' (liveAbs live a l) := by
  induction l with
  | nil => intro l' dead h; simp [clearAll] at h; rcases h with ⟨rfl, _⟩; rfl
  | cons x xs ih =>
    intro l' dead h
    unfold clearAll at h
    by_cases hmx : m x = true
    · simp only [hmx, if_true, bind, Except.bind] at h
      cases hd : deref (id x) with
      | error e => simp [hd] at h
      | ok i =>
        cases hr : clearAll m id cleared xs with
        | error e => simp [hd, hr] at h
        | ok r =>
          rcases r with ⟨rest, dead'⟩
          simp [hd, hr, pure, Except.pure] at h
          rcases h with ⟨rfl, _⟩
          rw [liveAbs_cons, liveAbs_cons, ih rest dead' hr]
          by_cases hl : live x = true
          · simp [hc, hl, dropAll, hm x hl, hmx]
          · simp [hc, hl]
    · simp only [hmx, bind, Except.bind] at h
      cases hr : clearAll m id cleared xs with
      | error e => simp [hr] at h
      | ok r =>
        rcases r with ⟨rest, dead'⟩
        simp [hr, pure, Except.pure] at h
        rcases h with ⟨rfl, _⟩
        rw [liveAbs_cons, liveAbs_cons, ih rest dead' hr]
        by_cases hl : live x = true
        · simp only [Bool.not_eq_true] at hmx
          simp [hl, dropAll, hm x hl, hmx]
        · simp [hl]

/-- `firstRest` against `updFirstDropRest` (while the first match is still to come) / `dropAll` (after it) -/
theorem firstRest_abs (hc : live cleared = false) (hm : ∀ x, live x = true → m' (a x) = m x)
    (hml : ∀ x, m x = true → live x = true) (hlu : ∀ x, m x = true → live (upd x) = true)
    (hau : ∀ x, m x = true → a (upd x) = u (a x))
    (l : List α) : ∀ (need : Bool) (l' : List α) (first : Option Nat) (dead : List Nat),
      firstRest m id upd cleared l need = .ok (l', first, dead) →
      liveAbs live a l' = (if need then updFirstDropRest m' u (liveAbs live a l) else dropAll m' (liveAbs live a l)) ∧
      first.isSome = (need && l.any m) := by
  induction l with
  | nil =>
    intro need l' first dead h
    simp [firstRest] at h; rcases h with ⟨rfl, rfl, _⟩
    cases need <;> simp [liveAbs, updFirstDropRest, dropAll]
  | cons x xs ih =>
    intro need l' first dead h
    unfold firstRest at h
    by_cases hmx : m x = true
    · simp only [hmx, if_true, bind, Except.bind] at h
      cases hd : deref (id x) with
      | error e => simp [hd] at h
      | ok i =>
        cases hr : firstRest m id upd cleared xs false with
        | error e => simp [hd, hr] at h
        | ok r =>
          rcases r with ⟨rest, first', dead'⟩
          have hx := ih false rest first' dead' hr
          have hl := hml x hmx
          cases need with
          | true =>
            simp [hd, hr, pure, Except.pure] at h
            rcases h with ⟨rfl, rfl, _⟩
            rw [liveAbs_cons, liveAbs_cons]
            simp [hlu x hmx, hl, updFirstDropRest, hm x hl, hmx, hau x hmx]
            have := hx.1; simp [dropAll] at this; exact this
          | false =>
            simp [hd, hr, pure, Except.pure] at h
            rcases h with ⟨rfl, rfl, _⟩
            rw [liveAbs_cons, liveAbs_cons]
            simp [hc, hl, dropAll, hm x hl, hmx] at hx ⊢
            exact hx
    · simp only [hmx, bind, Except.bind] at h
      cases hr : firstRest m id upd cleared xs need with
      | error e => simp [hr] at h
      | ok r =>
        rcases r with ⟨rest, first', dead'⟩
        simp [hr, pure, Except.pure] at h
        rcases h with ⟨rfl, rfl, _⟩
        have hx := ih need rest first' dead' hr
        simp only [Bool.not_eq_true] at hmx
        rw [liveAbs_cons, liveAbs_cons]
        by_cases hl : live x = true
        · cases need <;> simp [hl, dropAll, updFirstDropRest, hm x hl, hmx] at hx ⊢ <;> exact hx
        · cases need <;> simp [hl, hmx] at hx ⊢ <;> exact hx

/-- "set the first, remove the others; none ⇒ append" on the live abstraction -/
theorem firstRest_setKeyed (hc : live cleared = false) (hm : ∀ x, live x = true → m' (a x) = m x)
    (hml : ∀ x, m x = true → live x = true) (hlu : ∀ x, m x = true → live (upd x) = true)
    (hau : ∀ x, m x = true → a (upd x) = u (a x))
    (l l' : List α) (first : Option Nat) (dead : List Nat) (new : α) (hnew : live new = true)
    (h : firstRest m id upd cleared l true = .ok (l', first, dead)) :
    liveAbs live a (if first.isSome then l' else l' ++ [new]) = setKeyed m' u (a new) (liveAbs live a l) := by
  rcases firstRest_abs m id upd cleared live a m' u hc hm hml hlu hau l true l' first dead h with ⟨h1, h2⟩
  simp only [if_true] at h1
  unfold setKeyed
  rw [liveAbs_any m live a m' hm hml]
  simp only [Bool.true_and] at h2
  by_cases hany : l.any m = true
  · simp [h2, hany, h1]
  · simp only [Bool.not_eq_true] at hany
    rw [hany] at h2
    simp only [h2, hany, Bool.false_eq_true, if_false, liveAbs_append, h1]
    rw [updFirstDropRest_unmatched]
    · simp [liveAbs, hnew]
    · rw [liveAbs_any m live a m' hm hml]; exact hany

/-- nothing matches: the list is returned as it is -/
theorem firstRest_unmatched (l : List α) (need : Bool) (h : l.any m = false) :
    firstRest m id upd cleared l need = .ok (l, none, []) := by
  induction l with
  | nil => rfl
  | cons x xs ih =>
    simp only [List.any_cons, Bool.or_eq_false_iff] at h
    unfold firstRest
    simp only [h.1, Bool.false_eq_true, if_false, ih h.2, bind, Except.bind, pure, Except.pure]

end loops
end ModVerif.Modfile.Edit
