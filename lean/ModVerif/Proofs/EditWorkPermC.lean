/-
  EditWork, part 8 — C16 `perm_independent` on the syntax tree for SetRequire and SetUse: two runs that differ only in the
  map-iteration order leave trees that are equal up to the line ids handed out by the call (`normStmt e.next`).
-/
import ModVerif.Proofs.EditWorkPermB
import ModVerif.Proofs.EditWorkSorted
import ModVerif.Proofs.EditMoreComD
import ModVerif.Proofs.ModfileFmtQuoteUnquote
set_option linter.unusedSimpArgs false
namespace ModVerif.Modfile.Edit
open ModVerif ModVerif.Modfile ModVerif.EditSpec

theorem autoQuote_injective {a b : Bytes} (h : autoQuote a = autoQuote b) : a = b := by
  have h1 := ModVerif.Proofs.ModfileFmtQuote.parseString_autoQuote a
  have h2 := ModVerif.Proofs.ModfileFmtQuote.parseString_autoQuote b
  rw [h] at h1
  rw [h1] at h2
  simp only [Option.some.injEq, Prod.mk.injEq] at h2
  exact h2.1

/-! ### `setIndirectLine` only rewrites the end-of-line comments -/

theorem setIndirectLine_shape (b : Bool) (l : Line) :
    ∃ s, setIndirectLine b l = { l with comments := { l.comments with suffix := s } } := by
  unfold setIndirectLine
  split
  · exact ⟨l.comments.suffix, rfl⟩
  · split
    · split
      · exact ⟨_, rfl⟩
      · exact ⟨_, rfl⟩
    · split
      · exact ⟨l.comments.suffix, rfl⟩
      · dsimp only
        split
        · exact ⟨_, rfl⟩
        · exact ⟨_, rfl⟩

theorem setIndirectLine_eq (b : Bool) (l : Line) :
    setIndirectLine b l = { l with comments := { l.comments with suffix := sfxAfter b l.comments.suffix } } := by
  rcases setIndirectLine_shape b l with ⟨s, hs⟩
  have := (setIndirectLine_props b l).2.2.2
  rw [hs] at this
  simp only at this
  rw [hs, this]

theorem goodG_setIndirect (b : Bool) : GoodG (setIndirectLine b) :=
  ⟨fun l => (setIndirectLine_props b l).2.1, fun l => (setIndirectLine_props b l).1,
   fun l tok => by rw [setIndirectLine_eq, setIndirectLine_eq]⟩

theorem setIndirectLine_setId (b : Bool) (l : Line) (k : Nat) :
    { setIndirectLine b l with id := k } = setIndirectLine b { l with id := k } := by
  rw [setIndirectLine_eq, setIndirectLine_eq]

theorem goodG_id : GoodG (fun l : Line => l) := ⟨fun _ => rfl, fun _ => rfl, fun _ _ => rfl⟩

/-! ### SetRequire -/

/-- the additions `SetRequire` makes for the entries still needed, in the order given -/
def reqAdds (n : Nat) : List Want → List (List Bytes × Nat × (Line → Line))
  | [] => []
  | w :: ws => ([B "require", autoQuote w.path, w.vers], n, setIndirectLine w.indirect) :: reqAdds (n + 1) ws

theorem foldl_addNewRequire_syn (ws : List Want) : ∀ e : EFile,
    (ws.foldl (fun e w => addNewRequire e w.path w.vers w.indirect) e).f.syn = (reqAdds e.next ws).foldl addStep e.f.syn := by
  induction ws with
  | nil => intro e; rfl
  | cons w ws ih =>
    intro e
    simp only [List.foldl_cons, reqAdds]
    rw [ih]
    rfl

theorem reqAdds_length (ws : List Want) : ∀ n, (reqAdds n ws).length = ws.length := by
  induction ws with
  | nil => intro n; rfl
  | cons w ws ih => intro n; simp [reqAdds, ih]

theorem reqAdds_ids_ge (ws : List Want) : ∀ m, ∀ p ∈ reqAdds m ws, m ≤ p.2.1 := by
  induction ws with
  | nil => intro m p hp; cases hp
  | cons w ws ih =>
    intro m p hp
    simp only [reqAdds, List.mem_cons] at hp
    rcases hp with rfl | hp
    · exact Nat.le_refl _
    · exact Nat.le_trans (Nat.le_succ m) (ih (m + 1) p hp)

theorem reqAdds_good (n : Nat) (ws : List Want) : ∀ m, n ≤ m → GoodAdds (B "require") n (reqAdds m ws) := by
  induction ws with
  | nil =>
    intro m _
    exact ⟨fun p hp => (by cases hp), fun p hp => (by cases hp), fun p hp => (by cases hp), List.nodup_nil,
      fun p hp => (by cases hp)⟩
  | cons w ws ih =>
    intro m hm
    have h := ih (m + 1) (Nat.le_succ_of_le hm)
    refine ⟨?_, ?_, ?_, ?_, ?_⟩
    · intro p hp
      simp only [reqAdds, List.mem_cons] at hp
      rcases hp with rfl | hp
      · rfl
      · exact h.verb p hp
    · intro p hp
      simp only [reqAdds, List.mem_cons] at hp
      rcases hp with rfl | hp
      · simp
      · exact h.ne p hp
    · intro p hp
      simp only [reqAdds, List.mem_cons] at hp
      rcases hp with rfl | hp
      · exact goodG_setIndirect _
      · exact h.good p hp
    · simp only [reqAdds, List.map_cons, List.nodup_cons]
      refine ⟨?_, h.nodup⟩
      intro hmem
      rcases List.mem_map.1 hmem with ⟨p, hp, e⟩
      have := reqAdds_ids_ge ws (m + 1) p hp
      omega
    · intro p hp
      simp only [reqAdds, List.mem_cons] at hp
      rcases hp with rfl | hp
      · exact hm
      · exact h.ge p hp

/-- the new requirement line with its fresh id erased: a function of the requested entry alone -/
def reqLine (n : Nat) (w : Want) : Line := setIndirectLine w.indirect (mkLine n [autoQuote w.path, w.vers] true)

theorem reqAdds_norm (n : Nat) (ws : List Want) : ∀ m, n ≤ m →
    ((reqAdds m ws).map mkG).map (normLine n) = ws.map (reqLine n) := by
  induction ws with
  | nil => intro m _; rfl
  | cons w ws ih =>
    intro m hm
    simp only [reqAdds, List.map_cons, ih (m + 1) (Nat.le_succ_of_le hm)]
    congr 1
    simp only [mkG, reqLine, normLine, (setIndirectLine_props _ _).1, mkLine, hm, if_true, List.drop_succ_cons, List.drop_zero]
    rw [setIndirectLine_setId]

theorem reqAdds_tokens (ws : List Want) : ∀ m,
    ((reqAdds m ws).map mkG).map (·.token) = ws.map (fun w => [autoQuote w.path, w.vers]) := by
  induction ws with
  | nil => intro m; rfl
  | cons w ws ih =>
    intro m
    simp only [reqAdds, List.map_cons, ih (m + 1)]
    congr 1
    simp [mkG, (setIndirectLine_props _ _).2.1, mkLine]

theorem headIs_other {tok : List Bytes} {v w : Bytes} (h : headIs tok v = true) (hne : v ≠ w) : headIs tok w = false := by
  cases tok with
  | nil => simp [headIs] at h
  | cons a as =>
    simp only [headIs, List.head?_cons, beq_iff_eq, Option.some.injEq] at h
    subst h
    simp [headIs, hne]

theorem lessFor_require (sem : Bool) (tok : List Bytes) (h : headIs tok (B "require") = true) :
    lessFor sem false tok = lineLess := by
  have h1 : headIs tok (B "exclude") = false := headIs_other h (by decide +kernel)
  have h2 : headIs tok (B "retract") = false := headIs_other h (by decide +kernel)
  simp [lessFor, h1, h2]

theorem sortBlocks_stmts (e : EFile) :
    (sortBlocks e).f.syn.stmts = sortStmts (semOf e.f) false (dropKilled (kill3 e.f) e.f.syn.stmts) := by
  rw [sortBlocks_eq_sem]

/-- **C16 `perm_independent`, SetRequire, on the tree.**  Two runs of `SetRequire want` from the same state that differ only
    in the map-iteration order leave the same syntax tree up to the line ids the call handed out (ids `≥ e.next`): same
    statements, same blocks, same lines in the same order with the same tokens and comments. -/
theorem setRequire_tree_perm_independent (e e1 e2 : EFile) (want : List Want) (p1 p2 : List Want → List Want)
    (hp1 : ∀ l, (p1 l).Perm l) (hp2 : ∀ l, (p2 l).Perm l) (hg : GoodWant want) (hi : Inv e)
    (hlive : ∀ r ∈ e.f.require, liveRq r = true) (hset : NoNestedIndirectMarker e)
    (h1 : setRequire e want p1 = .ok e1) (h2 : setRequire e want p2 = .ok e2) :
    e1.f.syn.stmts.map (normStmt e.next) = e2.f.syn.stmts.map (normStmt e.next) := by
  unfold setRequire at h1 h2
  rw [needMap_distinct true want [] (by simpa using hg.1)] at h1 h2
  simp only [bind, Except.bind, List.nil_append] at h1 h2
  cases hr : setRequireLoop e.f.require want e.f.syn with
  | error err => simp [hr] at h1
  | ok res =>
    rcases res with ⟨rq, need', syn'⟩
    simp only [hr, pure, Except.pure, Except.ok.injEq] at h1 h2
    subst h1; subst h2
    rcases setRequireLoop_abs _ _ _ _ _ _ hg hr with ⟨_, hsub⟩
    rcases setRequireLoop_inv (A := segA_require e.f) (C := segC_require e.f) e.next e.f.require [] want e.f.syn rq need' syn'
      hg hlive hi.tree (by simp only [List.nil_append]; rw [← entries_require]; exact hi.mtch) hset hr with ⟨hw', hm'⟩
    have hi1 : Inv (⟨{ e.f with require := rq, syn := syn' }, e.next⟩ : EFile) := by
      refine ⟨hw', ?_, hi.tinv.of_same rfl rfl rfl (Nat.le_refl _)⟩
      simp only [List.nil_append] at hm'
      rw [entries_require]; exact hm'
    generalize hE : (⟨{ e.f with require := rq, syn := syn' }, e.next⟩ : EFile) = E0 at hi1
    have hnext : E0.next = e.next := by rw [← hE]
    rw [← hnext]
    -- the state SortBlocks runs in, for a list of additions
    have hsort : ∀ ws : List Want,
        (sortBlocks (ws.foldl (fun e w => addNewRequire e w.path w.vers w.indirect) E0)).f.syn.stmts
          = sortStmts (semOf E0.f) false (dropKilled (kill3 E0.f) ((reqAdds E0.next ws).foldl addStep E0.f.syn).stmts) := by
      intro ws
      rw [sortBlocks_stmts, foldl_addNewRequire_syn]
      rcases foldl_addNewRequire_fields ws E0 with ⟨f1, f2, f3⟩
      rw [kill3_congr (g := E0.f) f1 f2 f3]
      unfold semOf
      rw [foldl_addNewRequire_go]
    rw [hsort, hsort]
    by_cases hlen : need'.length ≤ 1
    · rw [← perm_short_eq need' (p1 need') (hp1 need').symm hlen, ← perm_short_eq need' (p2 need') (hp2 need').symm hlen]
    · have hl : 2 ≤ need'.length := by omega
      have hgn : need'.Pairwise (fun a b => a.path ≠ b.path) := hg.1.sublist hsub
      refine landing_perm_invariant E0.f.syn (B "require") E0.next hi1.tree.lt (kill3 E0.f) hi1.kill3_lt (semOf E0.f) false
        (fun tok h => lessFor_require _ tok h) _ _ (reqAdds_good _ _ _ (Nat.le_refl _)) (reqAdds_good _ _ _ (Nat.le_refl _))
        (by rw [reqAdds_length, (hp1 need').length_eq]; exact hl) (by rw [reqAdds_length, (hp2 need').length_eq]; exact hl) ?_ ?_
      · rw [reqAdds_norm _ _ _ (Nat.le_refl _), reqAdds_norm _ _ _ (Nat.le_refl _)]
        exact ((hp1 need').trans (hp2 need').symm).map _
      · have : ((reqAdds E0.next (p1 need')).map mkG).Pairwise (fun a b => (fun l : Line => l.token) a ≠ (fun l : Line => l.token) b) := by
          rw [← List.pairwise_map, reqAdds_tokens, List.pairwise_map]
          have hpw : (p1 need').Pairwise (fun a b => a.path ≠ b.path) :=
            ((hp1 need').pairwise_iff (fun {a b} h => Ne.symm h)).2 hgn
          refine hpw.imp ?_
          intro a b hab heq
          simp only [List.cons.injEq, and_true] at heq
          exact hab (autoQuote_injective heq.1)
        exact this

/-! ### SetUse -/

theorem updateLineIn_id (id : Nat) : ∀ ls : List Line, updateLineIn id (fun l => l) ls = ls := by
  intro ls
  induction ls with
  | nil => rfl
  | cons l ls ih => unfold updateLineIn; split <;> simp [ih]

theorem updateLine_id (fs : FileSyntax) (k : Nat) : fs.updateLine k (fun l => l) = fs := by
  have h : (fs.updateLine k (fun l => l)).stmts = fs.stmts := by
    rw [updateLine_stmts_map]
    conv => rhs; rw [← List.map_id fs.stmts]
    apply List.map_congr_left
    intro x _
    cases x with
    | line l => simp only [updStmt]; split <;> rfl
    | lineBlock b => simp [updStmt, updateLineIn_id]
    | commentBlock c => rfl
    | lparen c => rfl
    | rparen c => rfl
  cases fs
  simp only [FileSyntax.updateLine] at h ⊢
  rw [h]

def useAdds (n : Nat) : List (Bytes × Bytes) → List (List Bytes × Nat × (Line → Line))
  | [] => []
  | w :: ws => ([B "use", autoQuote w.1], n, fun l => l) :: useAdds (n + 1) ws

theorem foldl_addNewUse_syn (ws : List (Bytes × Bytes)) : ∀ e : EWork,
    (ws.foldl (fun e w => addNewUse e w.1 w.2) e).f.syn = (useAdds e.next ws).foldl addStep e.f.syn := by
  induction ws with
  | nil => intro e; rfl
  | cons w ws ih =>
    intro e
    simp only [List.foldl_cons, useAdds]
    rw [ih]
    congr 1
    simp only [addNewUse, addStep, updateLine_id]

theorem useAdds_length (ws : List (Bytes × Bytes)) : ∀ n, (useAdds n ws).length = ws.length := by
  induction ws with
  | nil => intro n; rfl
  | cons w ws ih => intro n; simp [useAdds, ih]

theorem useAdds_ids_ge (ws : List (Bytes × Bytes)) : ∀ m, ∀ p ∈ useAdds m ws, m ≤ p.2.1 := by
  induction ws with
  | nil => intro m p hp; cases hp
  | cons w ws ih =>
    intro m p hp
    simp only [useAdds, List.mem_cons] at hp
    rcases hp with rfl | hp
    · exact Nat.le_refl _
    · exact Nat.le_trans (Nat.le_succ m) (ih (m + 1) p hp)

theorem useAdds_good (n : Nat) (ws : List (Bytes × Bytes)) : ∀ m, n ≤ m → GoodAdds (B "use") n (useAdds m ws) := by
  induction ws with
  | nil =>
    intro m _
    exact ⟨fun p hp => (by cases hp), fun p hp => (by cases hp), fun p hp => (by cases hp), List.nodup_nil,
      fun p hp => (by cases hp)⟩
  | cons w ws ih =>
    intro m hm
    have h := ih (m + 1) (Nat.le_succ_of_le hm)
    refine ⟨?_, ?_, ?_, ?_, ?_⟩
    · intro p hp
      simp only [useAdds, List.mem_cons] at hp
      rcases hp with rfl | hp
      · rfl
      · exact h.verb p hp
    · intro p hp
      simp only [useAdds, List.mem_cons] at hp
      rcases hp with rfl | hp
      · simp
      · exact h.ne p hp
    · intro p hp
      simp only [useAdds, List.mem_cons] at hp
      rcases hp with rfl | hp
      · exact goodG_id
      · exact h.good p hp
    · simp only [useAdds, List.map_cons, List.nodup_cons]
      refine ⟨?_, h.nodup⟩
      intro hmem
      rcases List.mem_map.1 hmem with ⟨p, hp, e⟩
      have := useAdds_ids_ge ws (m + 1) p hp
      omega
    · intro p hp
      simp only [useAdds, List.mem_cons] at hp
      rcases hp with rfl | hp
      · exact hm
      · exact h.ge p hp

theorem useAdds_norm (n : Nat) (ws : List (Bytes × Bytes)) : ∀ m, n ≤ m →
    ((useAdds m ws).map mkG).map (normLine n) = ws.map (fun w => mkLine n [autoQuote w.1] true) := by
  induction ws with
  | nil => intro m _; rfl
  | cons w ws ih =>
    intro m hm
    simp only [useAdds, List.map_cons, ih (m + 1) (Nat.le_succ_of_le hm)]
    congr 1
    simp [mkG, normLine, mkLine, hm]

theorem useAdds_tokens (ws : List (Bytes × Bytes)) : ∀ m,
    ((useAdds m ws).map mkG).map (·.token) = ws.map (fun w => [autoQuote w.1]) := by
  induction ws with
  | nil => intro m; rfl
  | cons w ws ih =>
    intro m
    simp only [useAdds, List.map_cons, ih (m + 1)]
    congr 1

theorem InvW.killEarlier_lt {e : EWork} (hi : InvW e) : ∀ i ∈ killEarlier e.f.replace, i < e.next := by
  intro i hk
  rcases killEarlier_subset _ _ hk with ⟨z, hz, hzid⟩
  cases hzl : liveRp z with
  | true => rw [← hzid]; exact hi.mtch.ids_lt hi.tree (entRp z) (mem_entriesW_replace hz hzl)
  | false =>
    have : z.lineId = 0 := (hi.winv.wfR z hz).2 hzl
    rw [← hzid, this]; exact hi.winv.pos

/-- **C16 `perm_independent`, SetUse, on the tree**: the two trees are equal up to the line ids the call handed out -/
theorem setUse_tree_perm_independent (e e1 e2 : EWork) (dirs : List (Bytes × Bytes))
    (q1 q2 : List (Bytes × Bytes) → List (Bytes × Bytes)) (hq1 : ∀ l, (q1 l).Perm l) (hq2 : ∀ l, (q2 l).Perm l)
    (hg : GoodUse dirs) (hi : InvW e) (hlive : ∀ u ∈ e.f.use, liveU u = true)
    (h1 : setUse e dirs q1 = .ok e1) (h2 : setUse e dirs q2 = .ok e2) :
    e1.f.syn.stmts.map (normStmt e.next) = e2.f.syn.stmts.map (normStmt e.next) := by
  unfold setUse at h1 h2
  rw [useNeedMap_distinct dirs [] (by simpa using hg.1)] at h1 h2
  simp only [bind, Except.bind, List.nil_append] at h1 h2
  cases hr : setUseLoop e.f.use dirs e.f.syn with
  | error err => simp [hr] at h1
  | ok res =>
    rcases res with ⟨us, need', syn'⟩
    simp only [hr, pure, Except.pure, Except.ok.injEq] at h1 h2
    subst h1; subst h2
    rcases setUseLoop_abs _ _ _ _ _ _ hg hr with ⟨_, hsub⟩
    rcases setUseLoop_inv (A := wA_use e.f) (C := wC_use e.f) e.next e.f.use [] dirs e.f.syn us need' syn'
      hlive hi.tree (by simp only [List.nil_append]; rw [← entriesW_use]; exact hi.mtch) hr with ⟨hw', hm'⟩
    have hi1 : InvW (⟨{ e.f with use := us, syn := syn' }, e.next⟩ : EWork) := by
      refine ⟨hw', ?_, hi.winv.of_same rfl (Nat.le_refl _)⟩
      simp only [List.nil_append] at hm'
      rw [entriesW_use]; exact hm'
    generalize hE : (⟨{ e.f with use := us, syn := syn' }, e.next⟩ : EWork) = E0 at hi1
    have hnext : E0.next = e.next := by rw [← hE]
    rw [← hnext]
    have hsort : ∀ ws : List (Bytes × Bytes),
        (workSortBlocks (ws.foldl (fun e w => addNewUse e w.1 w.2) E0)).f.syn.stmts
          = sortStmts false true (dropKilled (killEarlier E0.f.replace) ((useAdds E0.next ws).foldl addStep E0.f.syn).stmts) := by
      intro ws
      rw [workSortBlocks_syn, foldl_addNewUse_syn, foldl_addNewUse_replace]
    rw [hsort, hsort]
    by_cases hlen : need'.length ≤ 1
    · rw [← perm_short_eq need' (q1 need') (hq1 need').symm hlen, ← perm_short_eq need' (q2 need') (hq2 need').symm hlen]
    · have hl : 2 ≤ need'.length := by omega
      have hgn : need'.Pairwise (fun a b => a.1 ≠ b.1) := hg.1.sublist hsub
      refine landing_perm_invariant E0.f.syn (B "use") E0.next hi1.tree.lt (killEarlier E0.f.replace) hi1.killEarlier_lt false true
        (fun tok _ => lessFor_work _ tok) _ _ (useAdds_good _ _ _ (Nat.le_refl _)) (useAdds_good _ _ _ (Nat.le_refl _))
        (by rw [useAdds_length, (hq1 need').length_eq]; exact hl) (by rw [useAdds_length, (hq2 need').length_eq]; exact hl) ?_ ?_
      · rw [useAdds_norm _ _ _ (Nat.le_refl _), useAdds_norm _ _ _ (Nat.le_refl _)]
        exact ((hq1 need').trans (hq2 need').symm).map _
      · have : ((useAdds E0.next (q1 need')).map mkG).Pairwise (fun a b => (fun l : Line => l.token) a ≠ (fun l : Line => l.token) b) := by
          rw [← List.pairwise_map, useAdds_tokens, List.pairwise_map]
          have hpw : (q1 need').Pairwise (fun a b => a.1 ≠ b.1) :=
            ((hq1 need').pairwise_iff (fun {a b} h => Ne.symm h)).2 hgn
          refine hpw.imp ?_
          intro a b hab heq
          simp only [List.cons.injEq, and_true] at heq
          exact hab (autoQuote_injective heq)
        exact this

end ModVerif.Modfile.Edit
