/-
  C02 stage 3, part b: trees modulo positions, the shape of the trees the parser produces, and the
  token stream of a tree.

  * `eraseFile` & co. — forget positions and line identities (the `≈` of DESIGN §6 C02 compares erased trees);
    `normFile` additionally replaces every comment text by its `TrimSpace` (what the printer writes).
  * `WFStmts` — the shape invariant of the statement list `parseFile` returns for an input without
    end-of-line comments: token texts are `TokOK`, a top-level line does not end in `(` or `( )` in a
    scanning position, an in-block line does not start with `)`, blank-line placeholders inside blocks
    obey the parser's rule (none at the start of a block, no two in a row), whole-line comments are
    `//` texts, and no `suffix`/`after` list is populated.
  * `fileToks` — the token stream the formatted text of such a tree lexes to.
-/
import ModVerif.Model.Modfile.Comments
import ModVerif.Proofs.ModfileFmtStream
namespace ModVerif.Proofs.ModfileFmtTree
open ModVerif ModVerif.Modfile
open ModVerif.Proofs.ModfileFmtLex ModVerif.Proofs.ModfileFmtLine ModVerif.Proofs.ModfileFmtStream

/-! ### erasing positions and identities -/

def eraseC (c : Comment) : Comment := { c with start := {} }

def eraseCs (cs : Comments) : Comments :=
  { before := cs.before.map eraseC, suffix := cs.suffix.map eraseC, after := cs.after.map eraseC }

def eraseLine (l : Line) : Line :=
  { id := 0, comments := eraseCs l.comments, start := {}, token := l.token, inBlock := l.inBlock, «end» := {} }

def eraseBlock (b : LineBlock) : LineBlock :=
  { comments := eraseCs b.comments, start := {}, lparen := { comments := eraseCs b.lparen.comments, pos := {} },
    token := b.token, lines := b.lines.map eraseLine,
    rparen := { comments := eraseCs b.rparen.comments, pos := {} } }

def eraseExpr : Expr → Expr
  | .commentBlock x => .commentBlock { comments := eraseCs x.comments, start := {} }
  | .line l => .line (eraseLine l)
  | .lineBlock b => .lineBlock (eraseBlock b)
  | .lparen x => .lparen { comments := eraseCs x.comments, pos := {} }
  | .rparen x => .rparen { comments := eraseCs x.comments, pos := {} }

def eraseFile (f : FileSyntax) : FileSyntax :=
  { name := f.name, comments := eraseCs f.comments, stmts := f.stmts.map eraseExpr }

/-! ### normalising: erase, and trim every comment text as the printer does -/

def normC (c : Comment) : Comment := { start := {}, token := GoStrings.trimSpace c.token, suffix := c.suffix }

def normCs (cs : Comments) : Comments :=
  { before := cs.before.map normC, suffix := cs.suffix.map normC, after := cs.after.map normC }

def normLine (l : Line) : Line :=
  { id := 0, comments := normCs l.comments, start := {}, token := l.token, inBlock := l.inBlock, «end» := {} }

def normBlock (b : LineBlock) : LineBlock :=
  { comments := normCs b.comments, start := {}, lparen := { comments := normCs b.lparen.comments, pos := {} },
    token := b.token, lines := b.lines.map normLine,
    rparen := { comments := normCs b.rparen.comments, pos := {} } }

def normExpr : Expr → Expr
  | .commentBlock x => .commentBlock { comments := normCs x.comments, start := {} }
  | .line l => .line (normLine l)
  | .lineBlock b => .lineBlock (normBlock b)
  | .lparen x => .lparen { comments := normCs x.comments, pos := {} }
  | .rparen x => .rparen { comments := normCs x.comments, pos := {} }

def normFile (f : FileSyntax) : FileSyntax :=
  { name := f.name, comments := normCs f.comments, stmts := f.stmts.map normExpr }

/-! ### the shape of parsed trees (inputs without end-of-line comments) -/

/-- the tokens of a top-level line after the first one never make `parseStmt` start a block: no `(`
    and no `( )` at the end, seen in scanning order -/
def lineTailOK : List Bytes → Bool
  | [] => true
  | t :: r =>
    if t == [40] then
      match r with
      | [] => false
      | t2 :: r2 => if t2 == [41] then !r2.isEmpty && lineTailOK r2 else lineTailOK (t2 :: r2)
    else lineTailOK r

/-- whole-line comments in front of a top-level statement -/
def TopBeforeOK (cs : List Comment) : Prop := ∀ c ∈ cs, c.suffix = false ∧ CommentOK c.token

/-- comments and blank-line placeholders in front of a block line or `)`; `allow` = a placeholder may
    come next (the parser drops a blank line at the start of a block and after another blank line) -/
def BlkBeforeOK : Bool → List Comment → Prop
  | _, [] => True
  | allow, c :: cs =>
    if c.token.isEmpty then allow = true ∧ c.suffix = false ∧ BlkBeforeOK false cs
    else c.suffix = false ∧ CommentOK c.token ∧ BlkBeforeOK true cs

structure WFLine (l : Line) : Prop where
  ne : l.token ≠ []
  tok : ∀ t ∈ l.token, TokText t
  tail : lineTailOK l.token.tail = true
  before : TopBeforeOK l.comments.before
  suffix : l.comments.suffix = []
  after : l.comments.after = []
  inBlock : l.inBlock = false

structure WFBlkLine (allow : Bool) (l : Line) : Prop where
  ne : l.token ≠ []
  tok : ∀ t ∈ l.token, TokText t
  first : l.token.head? ≠ some [41]
  before : BlkBeforeOK allow l.comments.before
  suffix : l.comments.suffix = []
  after : l.comments.after = []
  inBlock : l.inBlock = true

def WFBlkLines : Bool → List Line → Prop
  | _, [] => True
  | allow, l :: ls => WFBlkLine allow l ∧ WFBlkLines true ls

structure WFBlock (b : LineBlock) : Prop where
  ne : b.token ≠ []
  tok : ∀ t ∈ b.token, TokText t
  before : TopBeforeOK b.comments.before
  suffix : b.comments.suffix = []
  after : b.comments.after = []
  lparen : b.lparen.comments = {}
  lines : WFBlkLines false b.lines
  rbefore : BlkBeforeOK (!b.lines.isEmpty) b.rparen.comments.before
  rsuffix : b.rparen.comments.suffix = []
  rafter : b.rparen.comments.after = []

def WFStmt : Expr → Prop
  | .commentBlock x => x.comments.before ≠ [] ∧ TopBeforeOK x.comments.before ∧
      x.comments.suffix = [] ∧ x.comments.after = []
  | .line l => WFLine l
  | .lineBlock b => WFBlock b
  | _ => False

def WFStmts (stmts : List Expr) : Prop := ∀ s ∈ stmts, WFStmt s

/-! ### the token stream of a tree -/

def lp : Tk := (.punct 40, [40])
def rp : Tk := (.punct 41, [41])

def topBeforeToks (cs : List Comment) : List Tk := cs.map fun c => (TokKind.comment, c.token)

def blkBeforeToks (cs : List Comment) : List Tk :=
  cs.map fun c => if c.token.isEmpty then nl else (TokKind.comment, c.token)

def blkLineToks (l : Line) : List Tk := blkBeforeToks l.comments.before ++ l.token.map tk ++ [nl]

def stmtToks : Expr → List Tk
  | .commentBlock x => topBeforeToks x.comments.before
  | .line l => topBeforeToks l.comments.before ++ l.token.map tk ++ [nl]
  | .lineBlock b => topBeforeToks b.comments.before ++ b.token.map tk ++ [lp, nl] ++
      b.lines.flatMap blkLineToks ++ blkBeforeToks b.rparen.comments.before ++ [rp, nl]
  | _ => []

def stmtsToks : List Expr → List Tk
  | [] => []
  | [s] => stmtToks s
  | s :: rest => stmtToks s ++ nl :: stmtsToks rest

def fileToks (stmts : List Expr) : List Tk := stmtsToks stmts ++ [eofTk]

end ModVerif.Proofs.ModfileFmtTree
