/-
  Tie proofs for the integer kernels of sumdb/tlog: the loops of the regenerated (go2lean, checked mode)
  definitions in `Generated/FnTlog.lean` compute what the hand model `Model/Tlog.lean` says.
  The tie theorems themselves are in `Tie/FnTlogInt.lean`.
-/
import ModVerif.Generated.FnTlog
import ModVerif.Model.Tlog
import ModVerif.Proofs.GoRtLemmasInt
import ModVerif.Proofs.TlogIndex
import ModVerif.Proofs.TlogBasic
import ModVerif.Proofs.TlogStoreSplit
namespace ModVerif.TieFnTlogInt
open ModVerif ModVerif.GoRt

/-! ### readers

  The translated code takes a `HashReader` as a function `List Int → List H × Option String` (hashes, error);
  the model's reader is `List Nat → Option (List H)` (`none` = ReadHashes returned an error). -/

/-- the model reader seen through a reader of the translated code -/
def readerOf {H : Type} (r : List Int → List H × Option String) : Tlog.HashReader H :=
  fun idx => match r (idx.map Int.ofNat) with
    | (hs, none) => some hs
    | (_, some _) => none

/-- the error value the translated functions return for the indexes `idx` when the read fails: the reader's own error,
    or the "wrong number of hashes" message -/
def readErrOf {H : Type} (r : List Int → List H × Option String) (idx : List Nat) : Option String :=
  match (r (idx.map Int.ofNat)).2 with
    | some e => some e
    | none => some "tlog: ReadHashes(%d indexes) = %d hashes"

/-! ### maxpow2 -/

theorem maxpow2Go_le (n : Nat) : ∀ f l, Tlog.maxpow2Go f n l ≤ l + f := by
  intro f
  induction f with
  | zero => intro l; simp [Tlog.maxpow2Go]
  | succ f ih =>
    intro l
    unfold Tlog.maxpow2Go
    split
    · have := ih (l + 1); omega
    · omega

/-- the loop of `maxpow2` from `l ≤ 62` with at least `62 - l + 1` units of fuel, for EVERY `n` -/
theorem maxpow2_loop1_eq (n : Int) : ∀ (d l fuel : Nat), l + d = 62 → d < fuel →
    Generated.Tlog.maxpow2_loop1 n fuel (l : Int) = .ok ((Tlog.maxpow2Go d n.toNat l : Nat) : Int) := by
  intro d
  induction d with
  | zero =>
    intro l fuel hl hf
    obtain ⟨fuel, rfl⟩ : ∃ g, fuel = g + 1 := ⟨fuel - 1, by omega⟩
    have : ¬ ((l : Int) < 62) := by omega
    simp [Generated.Tlog.maxpow2_loop1, this, Tlog.maxpow2Go, mbind_ok, mpure]
  | succ d ih =>
    intro l fuel hl hf
    obtain ⟨fuel, rfl⟩ : ∃ g, fuel = g + 1 := ⟨fuel - 1, by omega⟩
    have h1 : ((l : Int) < 62) := by omega
    have e1 : ((l : Int) + 1) = ((l + 1 : Nat) : Int) := by omega
    have hp : 2 ^ (l + 1) ≤ 2 ^ 62 := Nat.pow_le_pow_right (by omega) (by omega)
    have hc : ((((2 ^ (l + 1) : Nat) : Int)) < n) ↔ 2 ^ (l + 1) < n.toNat := by
      generalize 2 ^ (l + 1) = p
      omega
    simp only [Generated.Tlog.maxpow2_loop1, h1, decide_true, ↓reduceIte, e1, chk64_natCast (show l + 1 < 2 ^ 63 by omega),
      toU64_natCast (show l + 1 < 2 ^ 64 by omega), shl_one_natCast, chk64_natCast (show 2 ^ (l + 1) < 2 ^ 63 by omega),
      mbind_ok, mpure, Tlog.maxpow2Go, hc]
    by_cases hlt : 2 ^ (l + 1) < n.toNat
    · simp only [hlt, decide_true, ↓reduceIte]
      exact ih (l + 1) fuel (by omega) (by omega)
    · simp [hlt]

/-- `maxpow2`, every `n` (also negative), fuel at least 63 -/
theorem maxpow2_eq (fuel : Nat) (n : Int) (hf : 63 ≤ fuel) :
    Generated.Tlog.maxpow2 fuel n = .ok (((Tlog.maxpow2 n.toNat).1 : Int), ((Tlog.maxpow2 n.toNat).2 : Int)) := by
  have hloop := maxpow2_loop1_eq n 62 0 fuel (by omega) (by omega)
  have hle := maxpow2Go_le n.toNat 62 0
  generalize hL : Tlog.maxpow2Go 62 n.toNat 0 = L at hloop hle
  have hp : 2 ^ L ≤ 2 ^ 62 := Nat.pow_le_pow_right (by omega) (by omega)
  simp only [Generated.Tlog.maxpow2, Int.natCast_zero] at hloop ⊢
  simp only [hloop, mbind_ok, toU64_natCast (show L < 2 ^ 64 by omega), shl_one_natCast,
    chk64_natCast (show 2 ^ L < 2 ^ 63 by omega), mpure, Tlog.maxpow2, hL]

/-! ### StoredHashIndex -/

theorem le_descend : ∀ l n, l + n ≤ Tlog.descend l n := by
  intro l
  induction l with
  | zero => intro n; simp [Tlog.descend]
  | succ l ih => intro n; have := ih (2 * n + 1); simp only [Tlog.descend]; omega

/-- first loop: `for l := level; l > 0; l-- { n = 2*n + 1 }` -/
theorem StoredHashIndex_loop1_eq : ∀ (l n fuel : Nat), l < fuel → Tlog.descend l n < 2 ^ 63 →
    Generated.Tlog.StoredHashIndex_loop1 fuel (n : Int) (l : Int) = .ok (((Tlog.descend l n : Nat) : Int), 0) := by
  intro l
  induction l with
  | zero =>
    intro n fuel hf _
    obtain ⟨fuel, rfl⟩ : ∃ g, fuel = g + 1 := ⟨fuel - 1, by omega⟩
    simp [Generated.Tlog.StoredHashIndex_loop1, Tlog.descend, mpure]
  | succ l ih =>
    intro n fuel hf hr
    obtain ⟨fuel, rfl⟩ : ∃ g, fuel = g + 1 := ⟨fuel - 1, by omega⟩
    have hd := le_descend l (2 * n + 1)
    simp only [Tlog.descend] at hr ⊢
    have h1 : ((l + 1 : Nat) : Int) > 0 := by omega
    have e1 : (2 : Int) * (n : Int) = ((2 * n : Nat) : Int) := by omega
    have e2 : ((2 * n : Nat) : Int) + 1 = ((2 * n + 1 : Nat) : Int) := by omega
    have e3 : ((l + 1 : Nat) : Int) - 1 = (l : Int) := by omega
    simp only [Generated.Tlog.StoredHashIndex_loop1, h1, decide_true, ↓reduceIte, e1,
      chk64_natCast (show 2 * n < 2 ^ 63 by omega), mbind_ok, e2, chk64_natCast (show 2 * n + 1 < 2 ^ 63 by omega),
      e3, chk64_natCast (show l < 2 ^ 63 by omega)]
    exact ih (2 * n + 1) fuel (by omega) hr

/-- second loop: `for ; n > 0; n >>= 1 { i += n }`; `fuel + 1` units are enough for `n < 2^fuel` -/
theorem StoredHashIndex_loop2_eq : ∀ (fuel n i : Nat), n < 2 ^ fuel → i + Tlog.S n < 2 ^ 63 →
    Generated.Tlog.StoredHashIndex_loop2 (fuel + 1) (i : Int) (n : Int) = .ok (((i + Tlog.S n : Nat) : Int), 0) := by
  intro fuel
  induction fuel with
  | zero =>
    intro n i hn _
    have : n = 0 := by simpa using hn
    subst this
    simp [Generated.Tlog.StoredHashIndex_loop2, Tlog.S_zero, mpure]
  | succ fuel ih =>
    intro n i hn hr
    by_cases h0 : n = 0
    · subst h0
      simp [Generated.Tlog.StoredHashIndex_loop2, Tlog.S_zero, mpure]
    · have hS := Tlog.S_pos n (by omega)
      have h1 : (n : Int) > 0 := by omega
      have e1 : (i : Int) + (n : Int) = ((i + n : Nat) : Int) := by omega
      rw [hS] at hr
      have hn2 : n / 2 < 2 ^ fuel := by rw [Nat.pow_succ] at hn; omega
      rw [Generated.Tlog.StoredHashIndex_loop2]
      simp only [h1, decide_true, ↓reduceIte, e1, chk64_natCast (show i + n < 2 ^ 63 by omega), mbind_ok,
        shr_natCast_one]
      rw [ih (n / 2) (i + n) hn2 (by omega), hS]
      simp only [Nat.add_assoc]

theorem two_pow_le_descend (l n : Nat) : 2 ^ l ≤ Tlog.descend l n + 1 := by
  rw [Tlog.descend_eq]
  have h1 : 1 * 2 ^ l ≤ (n + 1) * 2 ^ l := Nat.mul_le_mul_right _ (by omega)
  have h2 := Nat.two_pow_pos l
  omega

/-- in range, the level is at most 62 and the level-0 record number below `2^63` -/
theorem storedHashIndex_range (l n : Nat) (hr : Tlog.storedHashIndex l n < 2 ^ 63) :
    l ≤ 62 ∧ Tlog.descend l n < 2 ^ 63 := by
  have e : Tlog.storedHashIndex l n = Tlog.S (Tlog.descend l n) + l := rfl
  have h1 := TlogStore.le_S (Tlog.descend l n)
  have h2 := two_pow_le_descend l n
  refine ⟨?_, by omega⟩
  apply Nat.le_of_not_lt
  intro hc
  have : 2 ^ 63 ≤ 2 ^ l := Nat.pow_le_pow_right (by omega) (by omega)
  omega

/-- `StoredHashIndex`: non-negative arguments, result in the int64 range (exactly: no int64 overflow), fuel 64 -/
theorem StoredHashIndex_eq (fuel : Nat) (level n : Nat) (hr : Tlog.storedHashIndex level n < 2 ^ 63) (hf : 64 ≤ fuel) :
    Generated.Tlog.StoredHashIndex fuel (level : Int) (n : Int) = .ok ((Tlog.storedHashIndex level n : Nat) : Int) := by
  obtain ⟨hl, hd⟩ := storedHashIndex_range level n hr
  have e : Tlog.storedHashIndex level n = Tlog.S (Tlog.descend level n) + level := rfl
  obtain ⟨g, rfl⟩ : ∃ g, fuel = g + 1 := ⟨fuel - 1, by omega⟩
  have hlt : Tlog.descend level n < 2 ^ g :=
    Nat.lt_of_lt_of_le hd (Nat.pow_le_pow_right (by omega) (by omega))
  have h2 := StoredHashIndex_loop2_eq g (Tlog.descend level n) 0 hlt (by omega)
  simp only [Int.natCast_zero, Nat.zero_add] at h2
  have e1 : ((Tlog.S (Tlog.descend level n) : Nat) : Int) + (level : Int) = ((Tlog.storedHashIndex level n : Nat) : Int) := by
    rw [e]; omega
  simp only [Generated.Tlog.StoredHashIndex, StoredHashIndex_loop1_eq level n (g + 1) (by omega) hd, mbind_ok, h2, e1,
    chk64_natCast hr]

/-! ### SplitStoredHashIndex -/

theorem tz64Aux_eq : ∀ f n, tz64Aux f n = Tlog.tzAux f n := by
  intro f
  induction f with
  | zero => intro n; rfl
  | succ f ih => intro n; simp only [tz64Aux, Tlog.tzAux, ih]

/-- `bits.TrailingZeros64(uint64(m))` of the run-time vocabulary is the model's -/
theorem trailingZeros64_eq (m : Nat) : GoRt.trailingZeros64 (m : Int) = ((Tlog.trailingZeros64 m : Nat) : Int) := by
  rw [trailingZeros64_natCast, tz64Aux_eq]; rfl

theorem trailingZeros64_tz (m : Nat) (h1 : 0 < m) (h2 : m < 2 ^ 64) :
    GoRt.trailingZeros64 (m : Int) = ((RFC6962.tz m : Nat) : Int) := by
  rw [trailingZeros64_eq, Tlog.trailingZeros64_eq_tz m h1 h2]

/-- `S (2^k) = 2^(k+1) - 1` -/
theorem S_two_pow : ∀ k, Tlog.S (2 ^ k) + 1 = 2 ^ (k + 1) := by
  intro k
  induction k with
  | zero => rw [Tlog.S_pos 1 (by omega)]; simp [Tlog.S_zero]
  | succ k ih =>
    have hp := Nat.two_pow_pos k
    rw [Tlog.S_pos _ (Nat.two_pow_pos _)]
    have : 2 ^ (k + 1) / 2 = 2 ^ k := by rw [Nat.pow_succ]; omega
    rw [this, Nat.pow_succ 2 (k + 1)]
    omega

/-- the position after the record containing a position `≤ 2^63 - 2` is at most `2^63 - 1 = S (2^62)` -/
theorem S_succ_record_lt (p n : Nat) (h1 : Tlog.S n ≤ p) (hp : p + 1 < 2 ^ 63) : Tlog.S (n + 1) < 2 ^ 63 := by
  have h62 := S_two_pow 62
  have hlt : n < 2 ^ 62 := TlogStore.lt_of_S_lt n (2 ^ 62) (by omega)
  have := TlogStore.S_mono (2 ^ 62) (n + 1) (by omega)
  omega

/-- the loop of SplitStoredHashIndex from record `n` (with `indexN = S n`) up to the record `n + d` that contains `p` -/
theorem SplitStoredHashIndex_loop1_eq (p : Nat) : ∀ (d n fuel : Nat), Tlog.S (n + d) ≤ p → p < Tlog.S (n + d + 1) →
    d < fuel → Tlog.S (n + d + 1) < 2 ^ 63 →
    Generated.Tlog.SplitStoredHashIndex_loop1 (p : Int) fuel (n : Int) ((Tlog.S n : Nat) : Int) =
      .ok (((n + d : Nat) : Int), ((Tlog.S (n + d) : Nat) : Int)) := by
  intro d
  induction d with
  | zero =>
    intro n fuel h1 h2 hf hr
    obtain ⟨fuel, rfl⟩ : ∃ g, fuel = g + 1 := ⟨fuel - 1, by omega⟩
    simp only [Nat.add_zero] at h1 h2 hr ⊢
    have hSn := Tlog.S_succ n
    have hle := TlogStore.le_S (n + 1)
    have e1 : ((Tlog.S n : Nat) : Int) + 1 = ((Tlog.S n + 1 : Nat) : Int) := by omega
    have e2 : (n : Int) + 1 = ((n + 1 : Nat) : Int) := by omega
    have e3 : ((Tlog.S n + 1 : Nat) : Int) + ((RFC6962.tz (n + 1) : Nat) : Int) = ((Tlog.S (n + 1) : Nat) : Int) := by omega
    have hgt : ((Tlog.S (n + 1) : Nat) : Int) > (p : Int) := by omega
    rw [Generated.Tlog.SplitStoredHashIndex_loop1]
    simp only [e1, chk64_natCast (show Tlog.S n + 1 < 2 ^ 63 by omega), mbind_ok, e2,
      chk64_natCast (show n + 1 < 2 ^ 63 by omega), toU64_natCast (show n + 1 < 2 ^ 64 by omega),
      trailingZeros64_tz (n + 1) (by omega) (by omega), e3, chk64_natCast hr, hgt, decide_true, ↓reduceIte, mpure]
  | succ d ih =>
    intro n fuel h1 h2 hf hr
    obtain ⟨fuel, rfl⟩ : ∃ g, fuel = g + 1 := ⟨fuel - 1, by omega⟩
    have e : n + (d + 1) = n + 1 + d := by omega
    rw [e] at h1 h2 hr ⊢
    have hSn := Tlog.S_succ n
    have hle := TlogStore.le_S (n + 1)
    have hm1 : Tlog.S (n + 1) ≤ Tlog.S (n + 1 + d) := TlogStore.S_mono _ _ (by omega)
    have hm2 := TlogStore.S_lt_succ (n + 1 + d)
    have e1 : ((Tlog.S n : Nat) : Int) + 1 = ((Tlog.S n + 1 : Nat) : Int) := by omega
    have e2 : (n : Int) + 1 = ((n + 1 : Nat) : Int) := by omega
    have e3 : ((Tlog.S n + 1 : Nat) : Int) + ((RFC6962.tz (n + 1) : Nat) : Int) = ((Tlog.S (n + 1) : Nat) : Int) := by omega
    have hgt : ¬ (((Tlog.S (n + 1) : Nat) : Int) > (p : Int)) := by omega
    rw [Generated.Tlog.SplitStoredHashIndex_loop1]
    simp only [e1, chk64_natCast (show Tlog.S n + 1 < 2 ^ 63 by omega), mbind_ok, e2,
      chk64_natCast (show n + 1 < 2 ^ 63 by omega), toU64_natCast (show n + 1 < 2 ^ 64 by omega),
      trailingZeros64_tz (n + 1) (by omega) (by omega), e3, chk64_natCast (show Tlog.S (n + 1) < 2 ^ 63 by omega),
      hgt, decide_false, Bool.false_eq_true, ↓reduceIte]
    exact ih (n + 1) fuel h1 h2 (by omega) hr

/-- the model's answer as the result type of the generated function; a model error (never the case on the int64 range:
    `TlogStore.split_total`) corresponds to the "bad math" panic -/
def splitOut : Except Tlog.Err (Nat × Nat) → M (Int × Int)
  | .ok (l, k) => .ok ((l : Int), (k : Int))
  | .error _ => .error .panic

/-- `SplitStoredHashIndex` on `0 ≤ index ≤ 2^63 - 2` -/
theorem SplitStoredHashIndex_eq (fuel p : Nat) (hp : p + 1 < 2 ^ 63) (hf : 64 ≤ fuel) :
    Generated.Tlog.SplitStoredHashIndex fuel (p : Int) = splitOut (Tlog.splitStoredHashIndex p) := by
  obtain ⟨n, h1, h2⟩ := TlogStore.exists_record p
  rw [TlogStore.splitStoredHashIndex_spec p n h1 h2 (by omega)]
  have hS2 := Tlog.S_le_two_mul (p / 2)
  have hstart : p / 2 ≤ n := by
    have : p / 2 < n + 1 := TlogStore.lt_of_S_lt _ _ (by omega)
    omega
  have hn : n ≤ p := Nat.le_trans (TlogStore.le_S n) h1
  have hlow := TlogStore.S_lower n
  have hlog : n.log2 < 63 := by
    by_cases h0 : n = 0
    · subst h0; simp
    · exact (Nat.log2_lt h0).mpr (by omega)
  have hr := S_succ_record_lt p n h1 hp
  have hloop := SplitStoredHashIndex_loop1_eq p (n - p / 2) (p / 2) fuel
    (by rw [Nat.add_sub_cancel' hstart]; exact h1) (by rw [Nat.add_sub_cancel' hstart]; exact h2)
    (by omega) (by rw [Nat.add_sub_cancel' hstart]; exact hr)
  rw [Nat.add_sub_cancel' hstart] at hloop
  have hshi := StoredHashIndex_eq fuel 0 (p / 2) (by rw [Tlog.storedHashIndex_zero_eq]; omega) hf
  rw [Tlog.storedHashIndex_zero_eq] at hshi
  have hng : ¬ (((Tlog.S (p / 2) : Nat) : Int) > (p : Int)) := by omega
  have e1 : (p : Int) - ((Tlog.S n : Nat) : Int) = ((p - Tlog.S n : Nat) : Int) := by omega
  simp only [Int.natCast_zero] at hshi
  simp only [Generated.Tlog.SplitStoredHashIndex, quo_natCast_two, mbind_ok, hshi, hng, decide_false, Bool.false_eq_true,
    ↓reduceIte, hloop, e1, chk64_natCast (show p - Tlog.S n < 2 ^ 63 by omega),
    toU64_natCast (show p - Tlog.S n < 2 ^ 64 by omega), shr_natCast, mpure, splitOut]

/-! ### StoredHashCount -/

/-- `for i := uint64(n - 1); i&1 != 0; i >>= 1 { numHash++ }` -/
theorem StoredHashCount_loop1_eq : ∀ (f i nh : Nat), i < 2 ^ f → i < 2 ^ 64 → nh + Tlog.trailingOnes f i < 2 ^ 63 →
    ∃ j : Int, Generated.Tlog.StoredHashCount_loop1 (f + 1) (nh : Int) (i : Int) =
      .ok (((nh + Tlog.trailingOnes f i : Nat) : Int), j) := by
  intro f
  induction f with
  | zero =>
    intro i nh hi _ _
    have : i = 0 := by simpa using hi
    subst this
    refine ⟨0, ?_⟩
    have : band 0 1 = 0 := by decide
    simp [Generated.Tlog.StoredHashCount_loop1, Tlog.trailingOnes, this, mpure]
  | succ f ih =>
    intro i nh hi hi64 hr
    rw [Generated.Tlog.StoredHashCount_loop1]
    simp only [band_natCast_one hi64, Tlog.trailingOnes] at hr ⊢
    by_cases hodd : i % 2 = 1
    · have hb : (i % 2 == 1) = true := by simp [hodd]
      rw [hb] at hr ⊢
      simp only [↓reduceIte] at hr ⊢
      have hne : ¬ (((i % 2 : Nat) : Int) = 0) := by omega
      have e1 : (nh : Int) + 1 = ((nh + 1 : Nat) : Int) := by omega
      have hi2 : i / 2 < 2 ^ f := by rw [Nat.pow_succ] at hi; omega
      obtain ⟨j, hj⟩ := ih (i / 2) (nh + 1) hi2 (by omega) (by omega)
      refine ⟨j, ?_⟩
      simp only [hne, decide_false, Bool.not_false, ↓reduceIte, e1, chk64_natCast (show nh + 1 < 2 ^ 63 by omega),
        mbind_ok, shr_natCast_one, hj]
      congr 3
      omega
    · have hb : (i % 2 == 1) = false := by simp; omega
      rw [hb]
      have he : (((i % 2 : Nat) : Int) = 0) := by omega
      exact ⟨(i : Int), by simp [he, mpure]⟩

theorem storedHashCount_succ (m : Nat) :
    Tlog.storedHashCount (m + 1) = Tlog.S m + 1 + Tlog.trailingOnes 64 m := by
  simp [Tlog.storedHashCount, Tlog.storedHashIndex_zero_eq]

/-- `StoredHashCount` on `n ≥ 0` with the result in the int64 range -/
theorem StoredHashCount_eq (fuel n : Nat) (hr : Tlog.storedHashCount n < 2 ^ 63) (hf : 64 ≤ fuel) :
    Generated.Tlog.StoredHashCount fuel (n : Int) = .ok ((Tlog.storedHashCount n : Nat) : Int) := by
  cases n with
  | zero => simp [Generated.Tlog.StoredHashCount, Tlog.storedHashCount, mpure]
  | succ m =>
    rw [storedHashCount_succ] at hr ⊢
    have hle := TlogStore.le_S m
    have hne : ¬ (((m + 1 : Nat) : Int) = 0) := by omega
    have e1 : ((m + 1 : Nat) : Int) - 1 = (m : Int) := by omega
    have hshi := StoredHashIndex_eq fuel 0 m (by rw [Tlog.storedHashIndex_zero_eq]; omega) (by omega)
    rw [Tlog.storedHashIndex_zero_eq] at hshi
    simp only [Int.natCast_zero] at hshi
    have e2 : ((Tlog.S m : Nat) : Int) + 1 = ((Tlog.S m + 1 : Nat) : Int) := by omega
    obtain ⟨g, rfl⟩ : ∃ g, fuel = g + 1 := ⟨fuel - 1, by omega⟩
    have h64 : m < 2 ^ 64 := by omega
    have hpow : m < 2 ^ g := Nat.lt_of_lt_of_le (show m < 2 ^ 63 by omega) (Nat.pow_le_pow_right (by omega) (by omega))
    have hto : Tlog.trailingOnes g m = Tlog.trailingOnes 64 m := by
      rw [Tlog.trailingOnes_eq_tz 64 m h64, Tlog.trailingOnes_eq_tz g m hpow]
    obtain ⟨j, hj⟩ := StoredHashCount_loop1_eq g m (Tlog.S m + 1) hpow h64 (by rw [hto]; omega)
    rw [hto] at hj
    simp only [Generated.Tlog.StoredHashCount, hne, decide_false, Bool.false_eq_true, ↓reduceIte, e1,
      chk64_natCast (show m < 2 ^ 63 by omega), mbind_ok, hshi, e2, chk64_natCast (show Tlog.S m + 1 < 2 ^ 63 by omega),
      toU64_natCast h64, hj, mpure, Nat.add_assoc]

end ModVerif.TieFnTlogInt
