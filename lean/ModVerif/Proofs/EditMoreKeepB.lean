/-
  EditMore, part 17 — every primitive tree operation of read.go / rule.go under `Keeps`: Cleanup, removeDups, the sort,
  addLine (hinted walk), insertAt, appendToBlock, moveExisting, ensureBlock.
-/
import ModVerif.Proofs.EditMoreKeepA
set_option linter.unusedSimpArgs false
namespace ModVerif.Modfile.Edit
open ModVerif ModVerif.Modfile

theorem keeps_subset_block {S : List Nat} (b : LineBlock) (ls : List Line)
    (h : ∀ l ∈ b.lines, l.token ≠ [] → l.id ∉ S → l ∈ ls) : Keeps S [Expr.lineBlock b] [Expr.lineBlock { b with lines := ls }] := by
  intro v hv hs
  rw [viewX_block] at hv ⊢
  rcases List.mem_map.1 hv with ⟨l, hl, rfl⟩
  rcases List.mem_filter.1 hl with ⟨hl1, hl2⟩
  have hne : l.token ≠ [] := by intro e; simp [e] at hl2
  exact ⟨_, List.mem_map.2 ⟨l, List.mem_filter.2 ⟨h l hl1 hne hs, hl2⟩, rfl⟩, XLine.le_refl _⟩

/-- **`FileSyntax.Cleanup`** keeps every live line; a line of a collapsed block gains the block's comments -/
theorem keeps_cleanupStmts : ∀ (stmts : List Expr), Keeps [] stmts (cleanupStmts stmts) := by
  intro stmts
  induction stmts with
  | nil => exact Keeps.refl _ _
  | cons x xs ih =>
    cases x with
    | line l =>
      unfold cleanupStmts
      split
      · rename_i hl
        refine Keeps.drop_head ?_ ih
        intro v hv; rw [viewX_line, if_pos hl] at hv; cases hv
      · exact Keeps.cons (Keeps.refl _ _) ih
    | lineBlock b =>
      unfold cleanupStmts
      have hfl : ∀ l ∈ b.lines, l.token ≠ [] → l.id ∉ ([] : List Nat) → l ∈ b.lines.filter (fun l => !l.token.isEmpty) := by
        intro l hl hne _
        refine List.mem_filter.2 ⟨hl, ?_⟩
        cases hlt : l.token with
        | nil => exact absurd hlt hne
        | cons _ _ => rfl
      cases hlive : b.lines.filter (fun l => !l.token.isEmpty) with
      | nil =>
        simp only [hlive]
        refine Keeps.drop_head ?_ ih
        intro v hv; rw [viewX_block, hlive] at hv; cases hv
      | cons l ls =>
        cases ls with
        | nil =>
          simp only [hlive]
          split
          · refine Keeps.cons ?_ ih
            intro v hv _
            rw [viewX_block, hlive] at hv
            simp only [List.map_cons, List.map_nil, List.mem_singleton] at hv
            subst hv
            have hllive : l.token ≠ [] := by
              have : l ∈ b.lines.filter (fun l => !l.token.isEmpty) := by rw [hlive]; exact List.mem_singleton.2 rfl
              have := (List.mem_filter.1 this).2
              intro e; simp [e] at this
            have hne : (b.token ++ l.token).isEmpty = false := by
              cases hlt : l.token with
              | nil => exact absurd hlt hllive
              | cons _ _ => simp
            refine ⟨⟨l.id, b.token ++ l.token, b.comments.before ++ l.comments.before, l.comments.suffix ++ b.comments.suffix⟩, ?_,
              rfl, rfl, List.sublist_append_right _ _, List.sublist_append_left _ _⟩
            rw [viewX_line]
            simp [hne]
          · refine Keeps.cons ?_ ih
            rw [← hlive]; exact keeps_subset_block b _ hfl
        | cons l2 ls2 =>
          simp only [hlive]
          refine Keeps.cons ?_ ih
          rw [← hlive]; exact keeps_subset_block b _ hfl
    | commentBlock c => unfold cleanupStmts; exact Keeps.cons (Keeps.refl _ _) ih
    | lparen c => unfold cleanupStmts; exact Keeps.cons (Keeps.refl _ _) ih
    | rparen c => unfold cleanupStmts; exact Keeps.cons (Keeps.refl _ _) ih

/-- **`removeDups`' tree half** drops only lines of the kill list -/
theorem keeps_dropKilled (kill : List Nat) : ∀ (stmts : List Expr), Keeps kill stmts (dropKilled kill stmts) := by
  intro stmts
  induction stmts with
  | nil => exact Keeps.refl _ _
  | cons x xs ih =>
    cases x with
    | line l =>
      unfold dropKilled
      split
      · rename_i hk
        refine Keeps.drop_head ?_ ih
        intro v hv
        rw [viewX_line] at hv
        split at hv
        · cases hv
        · simp only [List.mem_singleton] at hv; subst hv
          simpa using hk
      · exact Keeps.cons (Keeps.refl _ _) ih
    | lineBlock b =>
      unfold dropKilled
      dsimp only
      have hfl : ∀ l ∈ b.lines, l.token ≠ [] → l.id ∉ kill → l ∈ b.lines.filter (fun l => !kill.contains l.id) := by
        intro l hl _ hk
        refine List.mem_filter.2 ⟨hl, ?_⟩
        simpa using hk
      split
      · rename_i he
        refine Keeps.drop_head ?_ ih
        intro v hv
        rw [viewX_block] at hv
        rcases List.mem_map.1 hv with ⟨l, hl, rfl⟩
        rcases List.mem_filter.1 hl with ⟨hl1, hl2⟩
        apply Classical.byContradiction
        intro hk
        have hne : l.token ≠ [] := by intro e; simp [e] at hl2
        have := hfl l hl1 hne hk
        rw [List.isEmpty_iff.1 he] at this
        cases this
      · exact Keeps.cons (keeps_subset_block b _ hfl) ih
    | commentBlock c => unfold dropKilled; exact Keeps.cons (Keeps.refl _ _) ih
    | lparen c => unfold dropKilled; exact Keeps.cons (Keeps.refl _ _) ih
    | rparen c => unfold dropKilled; exact Keeps.cons (Keeps.refl _ _) ih

/-- **the sort of SortBlocks** keeps every line -/
theorem keeps_sortStmts (sem work : Bool) : ∀ (stmts : List Expr), Keeps [] stmts (sortStmts sem work stmts) := by
  intro stmts
  induction stmts with
  | nil => exact Keeps.refl _ _
  | cons x xs ih =>
    have hcons : sortStmts sem work (x :: xs) = (sortStmts sem work [x]) ++ sortStmts sem work xs := by
      simp [sortStmts]
    rw [hcons]
    cases x with
    | lineBlock b =>
      simp only [sortStmts, List.map_cons, List.map_nil, List.singleton_append]
      refine Keeps.cons ?_ ih
      exact keeps_subset_block b _ (fun l hl _ _ => (stableSort_perm _ b.lines).symm.subset hl)
    | line l => simp only [sortStmts, List.map_cons, List.map_nil, List.singleton_append]; exact Keeps.cons (Keeps.refl _ _) ih
    | commentBlock c => simp only [sortStmts, List.map_cons, List.map_nil, List.singleton_append]; exact Keeps.cons (Keeps.refl _ _) ih
    | lparen c => simp only [sortStmts, List.map_cons, List.map_nil, List.singleton_append]; exact Keeps.cons (Keeps.refl _ _) ih
    | rparen c => simp only [sortStmts, List.map_cons, List.map_nil, List.singleton_append]; exact Keeps.cons (Keeps.refl _ _) ih

/-- inserting a statement keeps every line -/
theorem keeps_insertAt (stmts : List Expr) (i : Nat) (y : Expr) : Keeps [] stmts (insertAt stmts i y) := by
  unfold insertAt
  intro v hv _
  refine ⟨v, ?_, XLine.le_refl _⟩
  rw [viewX_append, viewX_cons]
  rw [← List.take_append_drop i stmts, viewX_append] at hv
  rcases List.mem_append.1 hv with h | h
  · exact List.mem_append_left _ h
  · exact List.mem_append_right _ (List.mem_append_right _ h)

theorem keeps_append_stmt (stmts : List Expr) (y : Expr) : Keeps [] stmts (stmts ++ [y]) := by
  intro v hv _
  exact ⟨v, by rw [viewX_append]; exact List.mem_append_left _ hv, XLine.le_refl _⟩

/-- appending a line to the block at an index keeps every line -/
theorem keeps_appendToBlock (stmts : List Expr) (idx : Nat) (l : Line) : Keeps [] stmts (appendToBlock stmts idx l) := by
  unfold appendToBlock
  cases hx : stmts[idx]? with
  | none => exact Keeps.refl _ _
  | some x =>
    cases x with
    | lineBlock b =>
      simp only
      rw [set_split _ hx]
      conv => lhs; rw [(split_at hx).1]
      refine Keeps.append (Keeps.refl _ _) (Keeps.cons ?_ (Keeps.refl _ _))
      exact keeps_subset_block b _ (fun l' hl' _ _ => List.mem_append_left _ hl')
    | line _ => exact Keeps.refl _ _
    | commentBlock _ => exact Keeps.refl _ _
    | lparen _ => exact Keeps.refl _ _
    | rparen _ => exact Keeps.refl _ _

/-- **moveExisting** changes only the moved line -/
theorem keeps_moveExisting (syn : FileSyntax) (i idx next : Nat) : Keeps [i] syn.stmts (moveExisting syn i idx next).stmts := by
  unfold moveExisting
  cases syn.findLine i with
  | none => exact Keeps.refl _ _
  | some old =>
    simp only
    have h1 := keeps_updateLine syn i (fun l => { l with token := [] })
    have h2 := keeps_appendToBlock (syn.updateLine i fun l => { l with token := [] }).stmts idx
      { old with id := next, token := (if (!old.inBlock && !old.token.isEmpty && headIs old.token (B "require")) = true then old.token.drop 1 else old.token), inBlock := true }
    have := h1.trans h2
    simpa using this


theorem insertAfterId_mem (h : Nat) (new : Line) : ∀ (ls r : List Line), insertAfterId h new ls = some r → ∀ l ∈ ls, l ∈ r := by
  intro ls r hr l hl
  rcases insertAfterId_spec h new ls r hr with ⟨l1, l2, e1, e2⟩
  rw [e1] at hl; rw [e2]
  rcases List.mem_append.1 hl with h | h
  · exact List.mem_append_left _ h
  · exact List.mem_append_right _ (List.mem_cons_of_mem _ h)

/-- the hinted walk of `addLine` keeps every line (a line converted into a block keeps its comments) -/
theorem keeps_addLineWalk (hint : Hint) (tokens : List Bytes) (new : Nat) :
    ∀ (stmts : List Expr) (i : Nat) (stmts' : List Expr), View2 stmts →
      addLineWalk hint tokens new stmts i = some stmts' → Keeps [] stmts stmts' := by
  intro stmts
  induction stmts with
  | nil => intro i stmts' _ h; simp [addLineWalk] at h
  | cons x xs ih =>
    intro i stmts' h2 h
    have hafter : Keeps [] (x :: xs) (x :: Expr.line (mkLine new tokens false) :: xs) :=
      Keeps.cons (Keeps.refl _ _) (Keeps.add_head (Keeps.refl _ _))
    have hrest : ∀ r, (addLineWalk hint tokens new xs (i + 1)).map (x :: ·) = some r → Keeps [] (x :: xs) r := by
      intro r hr
      cases hw : addLineWalk hint tokens new xs (i + 1) with
      | none => simp [hw] at hr
      | some r' =>
        simp only [hw, Option.map_some, Option.some.injEq] at hr; subst hr
        exact Keeps.cons (Keeps.refl _ _) (ih (i + 1) r' h2.tail hw)
    unfold addLineWalk at h
    dsimp only at h
    cases x with
    | line l =>
      simp only at h
      by_cases hh : (hint == Hint.line l.id || hint == Hint.stmt i) = true
      · rw [if_pos hh] at h
        by_cases hc : (l.token.isEmpty || !headIs l.token (tokens.head?.getD [])) = true
        · rw [if_pos hc] at h
          simp only [Option.some.injEq] at h; subst h; exact hafter
        · rw [if_neg hc] at h
          simp only [Bool.or_eq_true, Bool.not_eq_true', not_or, Bool.not_eq_true, Bool.not_eq_false] at hc
          simp only [Option.some.injEq] at h; subst h
          refine Keeps.cons ?_ (Keeps.refl _ _)
          have hlive : l.token ≠ [] := by intro e; simp [e] at hc
          have hlen : 2 ≤ l.token.length := by
            have := h2.head ⟨l.id, l.token, l.comments.suffix⟩ (by
              cases hlt : l.token with
              | nil => exact absurd hlt hlive
              | cons a as => simp [view, loc, locStmt, liveLoc, mkV, hlt])
            simpa using this
          intro v hv _
          rw [viewX_line] at hv
          rcases hlt : l.token with _ | ⟨a, _ | ⟨a2, as⟩⟩
          · exact absurd hlt hlive
          · rw [hlt] at hlen; simp at hlen
          · rw [hlt] at hv
            simp only [List.isEmpty_cons, Bool.false_eq_true, if_false, List.mem_singleton] at hv
            subst hv
            refine ⟨⟨l.id, a :: a2 :: as, l.comments.before, l.comments.suffix⟩, ?_, XLine.le_refl _⟩
            rw [viewX_block]
            simp [hlt, mkLine]
      · rw [if_neg hh] at h; exact hrest _ h
    | lineBlock b =>
      simp only at h
      by_cases hh : (hint == Hint.stmt i) = true
      · rw [if_pos hh] at h
        by_cases hv : (!headIs b.token (tokens.head?.getD [])) = true
        · rw [if_pos hv] at h
          simp only [Option.some.injEq] at h; subst h; exact hafter
        · rw [if_neg hv] at h
          simp only [Option.some.injEq] at h; subst h
          exact Keeps.cons (keeps_subset_block b _ (fun l hl _ _ => List.mem_append_left _ hl)) (Keeps.refl _ _)
      · rw [if_neg hh] at h
        cases hint with
        | line hid =>
          simp only at h
          by_cases ha : (b.lines.any fun x => x.id == hid) = true
          · rw [if_pos ha] at h
            by_cases hv : (!headIs b.token (tokens.head?.getD [])) = true
            · rw [if_pos hv] at h
              simp only [Option.some.injEq] at h; subst h; exact hafter
            · rw [if_neg hv] at h
              cases hins : insertAfterId hid (mkLine new (tokens.drop 1) true) b.lines with
              | none => simp only [hins] at h; exact hrest _ h
              | some ls =>
                simp only [hins, Option.some.injEq] at h; subst h
                exact Keeps.cons (keeps_subset_block b _ (fun l hl _ _ => insertAfterId_mem _ _ _ _ hins l hl)) (Keeps.refl _ _)
          · rw [if_neg ha] at h; exact hrest _ h
        | none => simp only at h; exact hrest _ h
        | stmt k => simp only at h; exact hrest _ h
    | commentBlock c => exact hrest _ h
    | lparen c => exact hrest _ h
    | rparen c => exact hrest _ h

/-- **`FileSyntax.addLine`** keeps every line with its comments -/
theorem keeps_addLine (fs : FileSyntax) (hint : Option Nat) (tokens : List Bytes) (new : Nat) (h2 : View2 fs.stmts) :
    Keeps [] fs.stmts (addLine fs hint tokens new).stmts := by
  rcases addLine_cases fs hint tokens new with h | ⟨h, stmts', hw, he⟩
  · rw [h]; exact keeps_append_stmt _ _
  · rw [he]; exact keeps_addLineWalk h tokens new fs.stmts 0 stmts' h2 hw

theorem keeps_addLinePtr (fs : FileSyntax) (hint : Option Nat) (tokens : List Bytes) (new : Nat) (h2 : View2 fs.stmts) :
    Keeps [] fs.stmts (addLinePtr fs hint tokens new).stmts := by
  unfold addLinePtr
  cases hint with
  | none => exact keeps_append_stmt _ _
  | some id =>
    dsimp only
    split
    · exact keeps_append_stmt _ _
    · exact keeps_addLine fs (some id) tokens new h2

/-- `ensureBlock` on a `require` statement keeps every line with its comments -/
theorem keeps_ensureBlock (stmts : List Expr) (d : Nat) (h2 : View2 stmts) (hr : ReqAt stmts d) (s : List Expr)
    (h : ensureBlock stmts d = .ok s) : Keeps [] stmts s := by
  rcases hr with ⟨x, hx, hreq⟩
  unfold ensureBlock at h
  cases x with
  | lineBlock b =>
    simp only [hx, Except.ok.injEq] at h
    subst h; exact Keeps.refl _ _
  | line l =>
    simp only [hx, Except.ok.injEq] at h
    subst h
    simp only [ReqStmt] at hreq
    have hsp := (split_at hx).1
    have hvl : ⟨l.id, l.token, l.comments.suffix⟩ ∈ view stmts := by
      rw [hsp, view_append, view_cons]
      refine List.mem_append_right _ (List.mem_append_left _ ?_)
      cases hlt : l.token with
      | nil => exact absurd hlt hreq.1
      | cons a as => simp [view, loc, locStmt, liveLoc, mkV, hlt]
    have hlen := h2 _ hvl
    simp only at hlen
    rw [set_split _ hx]
    conv => lhs; rw [hsp]
    refine Keeps.append (Keeps.refl _ _) (Keeps.cons ?_ (Keeps.refl _ _))
    intro v hv _
    rw [viewX_line] at hv
    rcases hlt : l.token with _ | ⟨a, _ | ⟨a2, as⟩⟩
    · exact absurd hlt hreq.1
    · rw [hlt] at hlen; simp at hlen
    · have ha : a = B "require" := by have := hreq.2; rw [hlt] at this; exact headIs_cons this
      subst ha
      rw [hlt] at hv
      simp only [List.isEmpty_cons, Bool.false_eq_true, if_false, List.mem_singleton] at hv
      subst hv
      refine ⟨⟨l.id, B "require" :: a2 :: as, l.comments.before, l.comments.suffix⟩, ?_, XLine.le_refl _⟩
      rw [viewX_block]
      simp [hlt]
  | commentBlock _ => exact hreq.elim
  | lparen _ => exact hreq.elim
  | rparen _ => exact hreq.elim

end ModVerif.Modfile.Edit
