/-
  Helper lemmas for the tie of the regenerated `dirhash.DirFiles` / `HashDir`, part 2: order and size.

  * `compsLt` (lexical order on element lists) and `walkLt` are strict total orders;
  * `flatList_sorted` : the pre-order of a `wfList` trie is strictly increasing in `compsLt`;
  * `walkOrder_eq_flat` : for a well-formed flat list, `walkOrder` of the paths is the pre-order of the trie;
  * `szList_treeOfList` : size bound (for the fuel of the walk).

  Core Lean only.
-/
import ModVerif.Proofs.TieFnDirhashDirTrie
import ModVerif.Proofs.ZipBPath
namespace ModVerif.TieFnDirhashDir
open ModVerif ModVerif.Zip ModVerif.ZipSpec ModVerif.Dirhash

/-! ### `compsLt`, `walkLt` -/

theorem compsLt_asymm : ∀ a b : List Bytes, compsLt a b = true → compsLt b a = false
  | [], [], h => by simp [compsLt] at h
  | [], _ :: _, _ => by simp [compsLt]
  | _ :: _, [], h => by simp [compsLt] at h
  | a :: as, b :: bs, h => by
    simp only [compsLt] at h ⊢
    by_cases hab : bytesLt a b = true
    · have hba := bytesLt_asymm a b hab
      simp [hba, hab]
    · have hab' : bytesLt a b = false := by simpa using hab
      simp only [hab', Bool.false_eq_true, if_false] at h
      by_cases hba : bytesLt b a = true
      · simp [hba] at h
      · have hba' : bytesLt b a = false := by simpa using hba
        simp only [hba', Bool.false_eq_true, if_false] at h
        simp only [hba', hab', Bool.false_eq_true, if_false]
        exact compsLt_asymm as bs h

theorem compsLt_total : ∀ a b : List Bytes, compsLt a b = false → compsLt b a = false → a = b
  | [], [], _, _ => rfl
  | [], _ :: _, h, _ => by simp [compsLt] at h
  | _ :: _, [], _, h => by simp [compsLt] at h
  | a :: as, b :: bs, h1, h2 => by
    simp only [compsLt] at h1 h2
    by_cases hab : bytesLt a b = true
    · simp [hab] at h1
    · have hab' : bytesLt a b = false := by simpa using hab
      by_cases hba : bytesLt b a = true
      · simp [hba] at h2
      · have hba' : bytesLt b a = false := by simpa using hba
        simp only [hab', hba', Bool.false_eq_true, if_false] at h1 h2
        rw [bytesLt_total a b hab' hba', compsLt_total as bs h1 h2]

theorem compsLt_trans : ∀ a b c : List Bytes, compsLt a b = true → compsLt b c = true → compsLt a c = true
  | [], [], _, h, _ => by simp [compsLt] at h
  | [], _ :: _, [], _, h => by simp [compsLt] at h
  | [], _ :: _, _ :: _, _, _ => by simp [compsLt]
  | _ :: _, [], _, h, _ => by simp [compsLt] at h
  | _ :: _, _ :: _, [], _, h => by simp [compsLt] at h
  | a :: as, b :: bs, c :: cs, h1, h2 => by
    simp only [compsLt] at h1 h2 ⊢
    by_cases hab : bytesLt a b = true
    · by_cases hbc : bytesLt b c = true
      · simp [bytesLt_trans a b c hab hbc]
      · have hbc' : bytesLt b c = false := by simpa using hbc
        simp only [hbc', Bool.false_eq_true, if_false] at h2
        by_cases hcb : bytesLt c b = true
        · simp [hcb] at h2
        · have hcb' : bytesLt c b = false := by simpa using hcb
          have e := bytesLt_total b c hbc' hcb'
          subst e
          simp [hab]
    · have hab' : bytesLt a b = false := by simpa using hab
      simp only [hab', Bool.false_eq_true, if_false] at h1
      by_cases hba : bytesLt b a = true
      · simp [hba] at h1
      · have hba' : bytesLt b a = false := by simpa using hba
        simp only [hba', Bool.false_eq_true, if_false] at h1
        have e := bytesLt_total a b hab' hba'
        subst e
        by_cases hac : bytesLt a c = true
        · simp [hac]
        · have hac' : bytesLt a c = false := by simpa using hac
          simp only [hac', Bool.false_eq_true, if_false] at h2 ⊢
          by_cases hca : bytesLt c a = true
          · simp [hca] at h2
          · have hca' : bytesLt c a = false := by simpa using hca
            simp only [hca', Bool.false_eq_true, if_false] at h2 ⊢
            exact compsLt_trans as bs cs h1 h2

theorem compsLt_strictTotal : StrictTotal compsLt := ⟨compsLt_asymm, compsLt_trans, compsLt_total⟩

theorem splitOn_injective {a b : Bytes} (h : splitOn slash a = splitOn slash b) : a = b := by
  rw [← joinWith_splitOn slash a, ← joinWith_splitOn slash b, h]

theorem walkLt_strictTotal : StrictTotal walkLt :=
  ⟨fun _ _ h => compsLt_asymm _ _ h, fun _ _ _ h1 h2 => compsLt_trans _ _ _ h1 h2,
   fun _ _ h1 h2 => splitOn_injective (compsLt_total _ _ h1 h2)⟩

theorem compsLt_cons_self (n : Bytes) (a b : List Bytes) : compsLt (n :: a) (n :: b) = compsLt a b := by
  simp [compsLt, bytesLt_irrefl]

theorem compsLt_cons_lt {n n' : Bytes} (h : bytesLt n n' = true) (a b : List Bytes) :
    compsLt (n :: a) (n' :: b) = true := by
  simp [compsLt, h]

/-! ### the pre-order of a well-formed trie is sorted -/

theorem mem_flatList {q : List Bytes} : ∀ {cs : List (Bytes × Node)}, q ∈ flatList cs →
    ∃ p ∈ cs, ∃ q', q = p.1 :: q' := by
  intro cs h
  rw [flatList_eq_flatMap] at h
  obtain ⟨p, hp, hq⟩ := List.mem_flatMap.1 h
  obtain ⟨q', _, rfl⟩ := List.mem_map.1 hq
  exact ⟨p, hp, q', rfl⟩

mutual
theorem flatNode_sorted : ∀ x : Node, wfNode x → (flatNode x).Pairwise (fun a b => compsLt a b = true)
  | .file .., _ => by simp [flatNode]
  | .dir cs, h => by
    simp only [flatNode]
    exact flatList_sorted cs (by simpa [wfNode] using h)
theorem flatList_sorted : ∀ cs : List (Bytes × Node), wfList cs →
    (flatList cs).Pairwise (fun a b => compsLt a b = true)
  | [], _ => by simp [flatList]
  | (n, x) :: rest, h => by
    simp only [wfList] at h
    obtain ⟨⟨_, hx⟩, hlt, hrest⟩ := h
    rw [flatList_cons, List.pairwise_append]
    refine ⟨?_, flatList_sorted rest hrest, ?_⟩
    · rw [List.pairwise_map]
      exact (flatNode_sorted x hx).imp (fun {a b} hab => by rw [compsLt_cons_self]; exact hab)
    · intro a ha b hb
      obtain ⟨a', _, rfl⟩ := List.mem_map.1 ha
      obtain ⟨p, hp, b', rfl⟩ := mem_flatList hb
      exact compsLt_cons_lt (hlt p hp) _ _
end

/-! ### well-formed flat lists -/

/-- executable: neither element list is a prefix of the other -/
def incompB (a b : Bytes) : Bool :=
  !(splitOn 47 a).isPrefixOf (splitOn 47 b) && !(splitOn 47 b).isPrefixOf (splitOn 47 a)

/-- a well-formed flat directory listing: every path is a non-empty clean relative slash path (no empty, `.` or `..`
    element), and no path is an element-prefix of another one (in particular the paths are pairwise distinct and no
    file lies below another file) -/
def WF (files : List (Bytes × Bytes)) : Prop :=
  (∀ f ∈ files, cleanRelB f.1 = true) ∧ (files.map (·.1)).Pairwise (fun a b => incompB a b = true)

instance (files : List (Bytes × Bytes)) : Decidable (WF files) := by unfold WF; exact inferInstance

theorem normal_of_cleanRelB {p : Bytes} (h : cleanRelB p = true) : ∀ c ∈ splitOn 47 p, NormalElem c := by
  intro c hc
  have h1 := cleanRel_of_check p h c hc
  exact ⟨h1.1, h1.2.1, h1.2.2, Proofs.ZipB.not_mem_of_mem_splitOn 47 p c hc⟩

theorem incomp_of_incompB {a b : Bytes} (h : incompB a b = true) : Incomp (splitOn 47 a) (splitOn 47 b) := by
  simp only [incompB, Bool.and_eq_true, Bool.not_eq_true'] at h
  constructor
  · intro hp; have := List.isPrefixOf_iff_prefix.2 hp; simp [h.1] at this
  · intro hp; have := List.isPrefixOf_iff_prefix.2 hp; simp [h.2] at this

theorem WF.nodup {files : List (Bytes × Bytes)} (h : WF files) : (files.map (·.1)).Nodup := by
  refine h.2.imp ?_
  intro a b hab e
  subst e
  exact (incomp_of_incompB hab).1 (List.prefix_refl _)

theorem WF.cleanRel {files : List (Bytes × Bytes)} (h : WF files) : ∀ f ∈ files, CleanRel f.1 :=
  fun f hf => cleanRel_of_check _ (h.1 f hf)

/-- the trie of a flat list -/
abbrev trieOf (files : List (Bytes × Bytes)) : List (Bytes × Node) := treeOfList (files.map leafOf)

theorem trieOf_spec {files : List (Bytes × Bytes)} (h : WF files) :
    wfList (trieOf files) ∧ (flatList (trieOf files)).Perm (files.map (fun f => splitOn 47 f.1)) := by
  have hpw : (files.map (fun f => splitOn 47 f.1)).Pairwise Incomp := by
    have := h.2
    rw [List.pairwise_map] at this ⊢
    exact this.imp (fun hab => incomp_of_incompB hab)
  have := foldl_insert_spec files [] (fun f hf => normal_of_cleanRelB (h.1 f hf)) hpw wfList_nil (by simp [flatList])
  simpa [trieOf, treeOfList, flatList] using this

/-- ★ for a well-formed flat list, `walkOrder` (insertion sort by the element-wise lexical order) of the paths is the
    pre-order of the file leaves of the trie -/
theorem walkOrder_eq_flat {files : List (Bytes × Bytes)} (h : WF files) :
    walkOrder (files.map (·.1)) = (flatList (trieOf files)).map (joinWith [slash]) := by
  obtain ⟨hwf, hperm⟩ := trieOf_spec h
  have hsorted := flatList_sorted _ hwf
  have hmem : ∀ a ∈ flatList (trieOf files), splitOn slash (joinWith [slash] a) = a := by
    intro a ha
    obtain ⟨f, _, rfl⟩ := List.mem_map.1 (hperm.subset ha)
    show splitOn slash (joinWith [slash] (splitOn slash f.1)) = splitOn slash f.1
    rw [joinWith_splitOn]
  unfold walkOrder
  apply insertionSort_eq_of_sorted_perm walkLt_strictTotal
  · apply strictSorted_le walkLt_strictTotal
    rw [List.pairwise_map]
    exact List.Pairwise.imp_of_mem (fun {a b} ha hb hab => by
      show compsLt (splitOn slash _) (splitOn slash _) = true
      rw [hmem a ha, hmem b hb]; exact hab) hsorted
  · have := hperm.map (joinWith [slash])
    refine this.trans ?_
    rw [List.map_map]
    have : (files.map ((joinWith [slash]) ∘ fun f => splitOn 47 f.1)) = files.map (·.1) := by
      apply List.map_congr_left
      intro f _
      exact joinWith_splitOn slash f.1
    rw [this]

/-! ### size -/

def szOpt : Option Node → Nat
  | none => 0
  | some v => szNode v

theorem szList_modifyChild (name : Bytes) (f : Option Node → Node) (k : Nat)
    (hf : ∀ old, szNode (f old) ≤ szOpt old + k) : ∀ cs : List (Bytes × Node),
    szList (modifyChild name f cs) ≤ szList cs + k + 1
  | [] => by
    have := hf none
    simp only [modifyChild, szList, szOpt] at this ⊢
    omega
  | (n, v) :: rest => by
    have ih := szList_modifyChild name f k hf rest
    simp only [modifyChild]
    split
    · have := hf (some v)
      simp only [szList, szOpt] at this ⊢
      omega
    · split
      · have := hf none
        simp only [szList, szOpt] at this ⊢
        omega
      · simp only [szList]
        omega

theorem szList_insertPath (m : Mode) (s : Int) (ct : Bytes) (g : Bool) : ∀ (cs : List Bytes) (t : List (Bytes × Node)),
    szList (insertPath cs (.file m s ct g) t) ≤ szList t + 3 * cs.length
  | [], t => by simp [insertPath]
  | [c], t => by
    rw [insertPath_single]
    have := szList_modifyChild c (fun _ => Node.file m s ct g) 1 (fun old => by simp [szNode]) t
    simp only [List.length_cons, List.length_nil]
    omega
  | c :: c' :: rest, t => by
    have hins : insertPath (c :: c' :: rest) (.file m s ct g) t =
        modifyChild c (fun old => .dir (insertPath (c' :: rest) (.file m s ct g) (childrenOf old))) t := by
      simp only [insertPath]
    rw [hins]
    have := szList_modifyChild c
      (fun old => Node.dir (insertPath (c' :: rest) (.file m s ct g) (childrenOf old))) (3 * (c' :: rest).length + 2)
      (fun old => by
        have ih := szList_insertPath m s ct g (c' :: rest) (childrenOf old)
        simp only [szNode]
        cases old with
        | none => simp only [childrenOf, szList, szOpt] at ih ⊢; omega
        | some v =>
          cases v with
          | file m' s' ct' g' => simp only [childrenOf, szList, szOpt, szNode] at ih ⊢; omega
          | dir sub => simp only [childrenOf, szOpt, szNode] at ih ⊢; omega) t
    simp only [List.length_cons] at this ⊢
    omega

/-- the fuel a walk over the trie of `files` needs: three per path element -/
def walkFuel (files : List (Bytes × Bytes)) : Nat := 3 * (files.map (fun f => f.1.length + 1)).sum + 1

theorem length_splitOn (sep : UInt8) : ∀ p : Bytes, (splitOn sep p).length ≤ p.length + 1
  | [] => by simp [splitOn]
  | c :: rest => by
    have ih := length_splitOn sep rest
    unfold splitOn
    split
    · simp; omega
    · cases h : splitOn sep rest with
      | nil => simp
      | cons s ss => rw [h] at ih; simp at ih ⊢; omega

theorem szList_foldl : ∀ (files : List (Bytes × Bytes)) (acc : List (Bytes × Node)),
    szList ((files.map leafOf).foldl (fun cs it => insertPath (splitOn 47 it.1) it.2 cs) acc) ≤
      szList acc + 3 * (files.map (fun f => f.1.length + 1)).sum
  | [], acc => by simp
  | f :: files, acc => by
    have h1 := szList_insertPath .regular (f.2.length : Int) f.2 false (splitOn 47 f.1) acc
    have h2 := length_splitOn 47 f.1
    have ih := szList_foldl files (insertPath (splitOn 47 f.1) (.file .regular (f.2.length : Int) f.2 false) acc)
    simp only [List.map_cons, List.foldl_cons, List.sum_cons]
    omega

theorem szList_trieOf (files : List (Bytes × Bytes)) : szList (trieOf files) ≤ walkFuel files := by
  have := szList_foldl files []
  simp only [szList] at this
  unfold trieOf treeOfList walkFuel
  omega

end ModVerif.TieFnDirhashDir
