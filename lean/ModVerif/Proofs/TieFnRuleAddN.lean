/-
  Helper lemmas for Tie/FnRuleAdd.lean, part N: reading back.  A represented state read by the driver's `fileM` / `workM`
  (Drv/GenRule.lean) under `ι = idOf ids` is the model's typed file (`fileM_of_rep`, `workM_of_rep`).
  Owner: rule-add.
-/
import ModVerif.Proofs.TieFnRuleRep
set_option linter.unusedSimpArgs false
set_option linter.unusedVariables false
namespace ModVerif.Tie.FnRuleAddN
open ModVerif ModVerif.GoRt ModVerif.Generated ModVerif.Tie.FnRuleRep
open ModVerif.Drv.GenRule (idOf lineM exprM synM getAll fileM workM)

section
variable {ids : List (Int × Nat)} {h : Rule.Heap}

theorem lineM_of (hl : RLine (idOf ids) h p l) : lineM ids h p = some l := by
  obtain ⟨h1, h2⟩ := hl
  simp only [lineM, h1, lineG_Comments, comsM_comsG, lineG_Start, posM_posG, lineG_Token, lineG_InBlock, lineG_End, h2]

theorem mapM_lineM_of : ∀ {ps : List Int} {ls : List Modfile.Line}, RLines (idOf ids) h ps ls → ps.mapM (lineM ids h) = some ls
  | [], [], _ => rfl
  | p :: ps, l :: ls, r => by
    simp only [List.mapM_cons, lineM_of r.1, mapM_lineM_of r.2, bind, Option.bind, pure]
  | [], _ :: _, r => r.elim
  | _ :: _, [], r => r.elim

theorem exprM_of {e : Rule.Expr} {s : Modfile.Expr} (r : RExpr (idOf ids) h e s) : exprM ids h e = some s := by
  cases e <;> cases s <;> simp only [RExpr] at r <;> try exact r.elim
  · simp only [exprM, r, cbG, comsM_comsG, posM_posG]
  · simp only [exprM, lineM_of r, Option.map_some]
  · obtain ⟨ps, r1, r2⟩ := r
    simp only [exprM, r1, blockG_Line, mapM_lineM_of r2, bind, Option.bind, pure, blockG, lparenG, rparenG, comsM_comsG, posM_posG]

theorem mapM_exprM_of : ∀ {es : List Rule.Expr} {ss : List Modfile.Expr}, RStmts (idOf ids) h es ss → es.mapM (exprM ids h) = some ss
  | [], [], _ => rfl
  | e :: es, s :: ss, r => by
    simp only [List.mapM_cons, exprM_of r.1, mapM_exprM_of r.2, bind, Option.bind, pure]
  | [], _ :: _, r => r.elim
  | _ :: _, [], r => r.elim

theorem synM_of {p : Int} {fs : Modfile.FileSyntax} (r : RepSyn (idOf ids) h p fs) : synM ids h p = some fs := by
  obtain ⟨es, r⟩ := r
  simp only [synM, r.file, fileG_Stmt, mapM_exprM_of r.stmts, bind, Option.bind, pure, fileG_Name, fileG_Comments, comsM_comsG]

/-- reading a typed list back -/
theorem getAll_of {α β : Type} {objs : List α} {R : α → β → Prop} : ∀ {ps : List Int} {xs : List β}, REntsL objs R ps xs →
    ∃ os : List α, getAll objs ps = some os ∧ os.length = xs.length ∧ ∀ (i : Nat) (o : α) (x : β), os[i]? = some o → xs[i]? = some x → R o x
  | [], [], _ => ⟨[], rfl, rfl, fun i o x ho _ => by simp at ho⟩
  | p :: ps, x :: xs, r => by
    obtain ⟨o, h1, h2⟩ := r.1
    obtain ⟨os, e, hl, hR⟩ := getAll_of r.2
    refine ⟨o :: os, ?_, by simp [hl], ?_⟩
    · have hc : getAll objs (p :: ps) = (do let a ← (heapGet objs p).toOption; let as ← getAll objs ps; pure (a :: as)) := by
        simp [getAll, List.mapM_cons]
      rw [hc, h1, e]; rfl
    · intro i o' x' ho hx
      cases i with
      | zero => simp at ho hx; subst ho hx; exact h2
      | succ i => simp at ho hx; exact hR i o' x' ho hx
  | [], _ :: _, r => r.elim
  | _ :: _, [], r => r.elim

/-- the read-back list is the model's, when the read-back function inverts the relation -/
theorem map_of_rel {α β : Type} {R : α → β → Prop} (f : α → β) (hf : ∀ o x, R o x → f o = x) :
    ∀ {os : List α} {xs : List β}, os.length = xs.length → (∀ (i : Nat) (o : α) (x : β), os[i]? = some o → xs[i]? = some x → R o x) → os.map f = xs
  | [], [], _, _ => rfl
  | o :: os, x :: xs, hl, hR => by
    simp only [List.map_cons]
    rw [hf o x (hR 0 o x rfl rfl), map_of_rel f hf (by simpa using hl) (fun i o' x' ho hx => hR (i + 1) o' x' (by simpa using ho) (by simpa using hx))]
  | [], _ :: _, hl, _ => by simp at hl
  | _ :: _, [], hl, _ => by simp at hl

theorem readList {α β : Type} {objs : List α} {R : α → β → Prop} (f : α → β) (hf : ∀ o x, R o x → f o = x)
    {ps : List Int} {xs : List β} (r : REntsL objs R ps xs) : ∃ os, getAll objs ps = some os ∧ os.map f = xs := by
  obtain ⟨os, e, hl, hR⟩ := getAll_of r
  exact ⟨os, e, map_of_rel f hf hl hR⟩

theorem mv_eta (m : Modfile.ModVersion) : ({ path := m.path, version := m.version } : Modfile.ModVersion) = m := rfl

/-- **reading back a represented go.mod state** -/
theorem fileM_of_rep {fp : Int} {errs : List Rule.Error} {st : Modfile.AddState} (R : RepR (idOf ids) h fp errs st) :
    fileM ids h fp = some st.file := by
  obtain ⟨o, ho, rt, rs⟩ := R.obj
  obtain ⟨gd, egd, mgd⟩ := readList (fun g : Rule.Godebug => ({ key := g.Key, value := g.Value, lineId := idOf ids g.Syntax } : Modfile.Godebug))
    (fun o x hr => by obtain ⟨a, b, c⟩ := hr; cases x; simp_all [c.id]) rt.godebug.rel
  obtain ⟨rq, erq, mrq⟩ := readList (fun r : Rule.Require => ({ mod := { path := r.Mod.Path, version := r.Mod.Version }, indirect := r.Indirect, lineId := idOf ids r.Syntax } : Modfile.Require))
    (fun o x hr => by obtain ⟨a, b, c⟩ := hr; obtain ⟨⟨mp, mv⟩, ind, lid⟩ := x; simp_all [c.id, mvG]) rt.require.rel
  obtain ⟨ex, eex, mex⟩ := readList (fun r : Rule.Exclude => ({ mod := { path := r.Mod.Path, version := r.Mod.Version }, lineId := idOf ids r.Syntax } : Modfile.Exclude))
    (fun o x hr => by obtain ⟨a, c⟩ := hr; obtain ⟨⟨mp, mv⟩, lid⟩ := x; simp_all [c.id, mvG]) rt.exclude.rel
  obtain ⟨rp, erp, mrp⟩ := readList (fun r : Rule.Replace => ({ old := { path := r.Old.Path, version := r.Old.Version }, new := { path := r.New.Path, version := r.New.Version }, lineId := idOf ids r.Syntax } : Modfile.Replace))
    (fun o x hr => by obtain ⟨a, b, c⟩ := hr; obtain ⟨⟨op, ov⟩, ⟨np, nv⟩, lid⟩ := x; simp_all [c.id, mvG]) rt.replace.rel
  obtain ⟨rr, err, mrr⟩ := readList (fun r : Rule.Retract => ({ interval := { low := r.VersionInterval.Low, high := r.VersionInterval.High }, rationale := r.Rationale, lineId := idOf ids r.Syntax } : Modfile.Retract))
    (fun o x hr => by obtain ⟨a, b, c, d⟩ := hr; obtain ⟨⟨lo, hi⟩, ra, lid⟩ := x; simp_all [d.id]) rt.retract.rel
  obtain ⟨tl, etl, mtl⟩ := readList (fun t : Rule.Tool => ({ path := t.Path, lineId := idOf ids t.Syntax } : Modfile.Tool))
    (fun o x hr => by obtain ⟨a, c⟩ := hr; cases x; simp_all [c.id]) rt.tool.rel
  have hmod : (if o.Module == 0 then some none else do
      let m ← (heapGet h.modules o.Module).toOption
      pure (some ({ mod := { path := m.Mod.Path, version := m.Mod.Version }, deprecated := m.Deprecated, lineId := idOf ids m.Syntax } : Modfile.Module))) =
      some st.file.module := by
    have hm := rt.module
    cases hmm : st.file.module with
    | none => rw [hmm] at hm; simp [show o.Module = 0 from hm]
    | some m =>
      rw [hmm] at hm
      obtain ⟨mo, h1, a, b, c⟩ := hm
      have hne : (o.Module == 0) = false := by have := heapGet_pos h1; simp; omega
      obtain ⟨⟨mp, mv⟩, dp, lid⟩ := m
      simp_all [hne, Except.toOption, bind, Option.bind, pure, mvG, c.id]
  have hgo : (if o.Go == 0 then some none else do
      let g ← (heapGet h.gos o.Go).toOption
      pure (some ({ version := g.Version, lineId := idOf ids g.Syntax } : Modfile.Go))) = some st.file.go := by
    have hm := rt.go
    cases hmm : st.file.go with
    | none => rw [hmm] at hm; simp [show o.Go = 0 from hm]
    | some m =>
      rw [hmm] at hm
      obtain ⟨mo, h1, a, c⟩ := hm
      have hne : (o.Go == 0) = false := by have := heapGet_pos h1; simp; omega
      cases m
      simp_all [hne, Except.toOption, bind, Option.bind, pure, c.id]
  have htc : (if o.Toolchain == 0 then some none else do
      let t ← (heapGet h.toolchains o.Toolchain).toOption
      pure (some ({ name := t.Name, lineId := idOf ids t.Syntax } : Modfile.Toolchain))) = some st.file.toolchain := by
    have hm := rt.toolchain
    cases hmm : st.file.toolchain with
    | none => rw [hmm] at hm; simp [show o.Toolchain = 0 from hm]
    | some m =>
      rw [hmm] at hm
      obtain ⟨mo, h1, a, c⟩ := hm
      have hne : (o.Toolchain == 0) = false := by have := heapGet_pos h1; simp; omega
      cases m
      simp_all [hne, Except.toOption, bind, Option.bind, pure, c.id]
  unfold fileM
  simp only [ho, Except.toOption, Option.bind_eq_bind, Option.bind_some, synM_of rs]
  simp only [Except.toOption, Option.bind_eq_bind, Option.pure_def] at hmod hgo htc
  simp only [hmod, hgo, htc, egd, erq, eex, erp, err, etl, Option.bind_some, mgd, mrq, mex, mrp, mrr, mtl, Option.pure_def]

/-- **reading back a represented go.work state** -/
theorem workM_of_rep {fp : Int} {errs : List Rule.Error} {st : Modfile.WorkState} (R : RepW (idOf ids) h fp errs st) :
    workM ids h fp = some st.file := by
  obtain ⟨o, ho, rt, rs⟩ := R.obj
  obtain ⟨gd, egd, mgd⟩ := readList (fun g : Rule.Godebug => ({ key := g.Key, value := g.Value, lineId := idOf ids g.Syntax } : Modfile.Godebug))
    (fun o x hr => by obtain ⟨a, b, c⟩ := hr; cases x; simp_all [c.id]) rt.godebug.rel
  obtain ⟨us, eus, mus⟩ := readList (fun u : Rule.Use => ({ path := u.Path, modulePath := u.ModulePath, lineId := idOf ids u.Syntax } : Modfile.Use))
    (fun o x hr => by obtain ⟨a, b, c⟩ := hr; cases x; simp_all [c.id]) rt.use.rel
  obtain ⟨rp, erp, mrp⟩ := readList (fun r : Rule.Replace => ({ old := { path := r.Old.Path, version := r.Old.Version }, new := { path := r.New.Path, version := r.New.Version }, lineId := idOf ids r.Syntax } : Modfile.Replace))
    (fun o x hr => by obtain ⟨a, b, c⟩ := hr; obtain ⟨⟨op, ov⟩, ⟨np, nv⟩, lid⟩ := x; simp_all [c.id, mvG]) rt.replace.rel
  have hgo : (if o.Go == 0 then some none else do
      let g ← (heapGet h.gos o.Go).toOption
      pure (some ({ version := g.Version, lineId := idOf ids g.Syntax } : Modfile.Go))) = some st.file.go := by
    have hm := rt.go
    cases hmm : st.file.go with
    | none => rw [hmm] at hm; simp [show o.Go = 0 from hm]
    | some m =>
      rw [hmm] at hm
      obtain ⟨mo, h1, a, c⟩ := hm
      have hne : (o.Go == 0) = false := by have := heapGet_pos h1; simp; omega
      cases m
      simp_all [hne, Except.toOption, bind, Option.bind, pure, c.id]
  have htc : (if o.Toolchain == 0 then some none else do
      let t ← (heapGet h.toolchains o.Toolchain).toOption
      pure (some ({ name := t.Name, lineId := idOf ids t.Syntax } : Modfile.Toolchain))) = some st.file.toolchain := by
    have hm := rt.toolchain
    cases hmm : st.file.toolchain with
    | none => rw [hmm] at hm; simp [show o.Toolchain = 0 from hm]
    | some m =>
      rw [hmm] at hm
      obtain ⟨mo, h1, a, c⟩ := hm
      have hne : (o.Toolchain == 0) = false := by have := heapGet_pos h1; simp; omega
      cases m
      simp_all [hne, Except.toOption, bind, Option.bind, pure, c.id]
  unfold workM
  simp only [ho, Except.toOption, Option.bind_eq_bind, Option.bind_some, synM_of rs]
  simp only [Except.toOption, Option.bind_eq_bind, Option.pure_def] at hgo htc
  simp only [hgo, htc, egd, eus, erp, Option.bind_some, mgd, mus, mrp, Option.pure_def]

end
end ModVerif.Tie.FnRuleAddN
