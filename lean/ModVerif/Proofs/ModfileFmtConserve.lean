/-
  C02 stage 3, part l: conservation of end-of-line comments by `assignComments`: every recorded comment
  ends up in exactly one `suffix` list or in the file's `before` list.  Consequence: a tree without
  end-of-line comments comes from an input in which the lexer recorded none.
-/
import ModVerif.Proofs.ModfileFmtFinal
namespace ModVerif.Proofs.ModfileFmtConserve
open ModVerif ModVerif.Modfile
open ModVerif.Proofs.ModfileFmtTree ModVerif.Proofs.ModfileFmtMain ModVerif.Proofs.ModfileFmtEmits

/-- the number of comments in the `suffix` lists of a statement -/
def sufCount : Expr → Nat
  | .commentBlock x => x.comments.suffix.length
  | .line l => l.comments.suffix.length
  | .lineBlock b => b.comments.suffix.length + b.lparen.comments.suffix.length +
      (b.lines.map (·.comments.suffix.length)).sum + b.rparen.comments.suffix.length
  | .lparen x => x.comments.suffix.length
  | .rparen x => x.comments.suffix.length

def sufCounts (ss : List Expr) : Nat := (ss.map sufCount).sum

theorem takeSuffix_len (e : Position) : ∀ (l acc t r : List Comment), takeSuffix e acc l = (t, r) →
    t.length + r.length = acc.length + l.length := by
  intro l
  induction l with
  | nil => intro acc t r h; simp [takeSuffix] at h; obtain ⟨rfl, rfl⟩ := h; simp
  | cons c rest ih =>
    intro acc t r h
    unfold takeSuffix at h
    split at h
    · have := ih (c :: acc) t r h
      simp only [List.length_cons] at this ⊢
      omega
    · simp only [Prod.mk.injEq] at h
      obtain ⟨rfl, rfl⟩ := h
      simp

theorem assignSuffix_len (span : Position × Position) (cs cs' : Comments) (suf suf' : List Comment)
    (h : assignSuffix span cs suf = (cs', suf')) : cs'.suffix.length + suf'.length = cs.suffix.length + suf.length := by
  unfold assignSuffix at h
  split at h
  · simp only [Prod.mk.injEq] at h
    obtain ⟨rfl, rfl⟩ := h
    simp
  · cases ht : takeSuffix span.2 [] suf with
    | mk t r =>
      simp only [ht, Prod.mk.injEq] at h
      obtain ⟨rfl, rfl⟩ := h
      have := takeSuffix_len span.2 suf [] t r ht
      simp only [List.length_reverse, List.length_append, List.length_nil] at this ⊢
      omega

theorem postLinesRev_len : ∀ (ls ls' : List Line) (suf suf' : List Comment), postLinesRev ls suf = (ls', suf') →
    (ls'.map (·.comments.suffix.length)).sum + suf'.length = (ls.map (·.comments.suffix.length)).sum + suf.length := by
  intro ls
  induction ls with
  | nil => intro ls' suf suf' h; simp [postLinesRev] at h; obtain ⟨rfl, rfl⟩ := h; simp
  | cons l ls ih =>
    intro ls' suf suf' h
    unfold postLinesRev at h
    cases h1 : assignSuffix (l.start, l.«end») l.comments suf with
    | mk c suf1 =>
      cases h2 : postLinesRev ls suf1 with
      | mk ls2 suf2 =>
        simp only [h1, h2, Prod.mk.injEq] at h
        obtain ⟨rfl, rfl⟩ := h
        have e1 := assignSuffix_len _ _ _ _ _ h1
        have e2 := ih ls2 suf1 suf2 h2
        simp only [List.map_cons, List.sum_cons]
        omega

theorem sum_reverse (l : List Nat) : l.reverse.sum = l.sum := by
  induction l with
  | nil => rfl
  | cons a l ih => simp [ih]; omega

theorem postStmt_len (s s' : Expr) (suf suf' : List Comment) (h : postStmt s suf = (s', suf')) :
    sufCount s' + suf'.length = sufCount s + suf.length := by
  cases s with
  | lineBlock b =>
    unfold postStmt at h
    simp only at h
    cases h1 : assignSuffix (Expr.lineBlock b).span b.comments suf with
    | mk c suf1 =>
      cases h2 : assignSuffix (Expr.rparen b.rparen).span b.rparen.comments suf1 with
      | mk rc suf2 =>
        cases h3 : postLinesRev b.lines.reverse suf2 with
        | mk lsRev suf3 =>
          cases h4 : assignSuffix (Expr.lparen b.lparen).span b.lparen.comments suf3 with
          | mk lc suf4 =>
            simp only [h1, h2, h3, h4, Prod.mk.injEq] at h
            obtain ⟨rfl, rfl⟩ := h
            have e1 := assignSuffix_len _ _ _ _ _ h1
            have e2 := assignSuffix_len _ _ _ _ _ h2
            have e3 := postLinesRev_len _ _ _ _ h3
            have e4 := assignSuffix_len _ _ _ _ _ h4
            have r1 : (List.map (fun l : Line => l.comments.suffix.length) lsRev.reverse).sum =
                (List.map (fun l : Line => l.comments.suffix.length) lsRev).sum := by
              rw [List.map_reverse, sum_reverse]
            have r2 : (List.map (fun l : Line => l.comments.suffix.length) b.lines.reverse).sum =
                (List.map (fun l : Line => l.comments.suffix.length) b.lines).sum := by
              rw [List.map_reverse, sum_reverse]
            simp only [sufCount, r1]
            rw [r2] at e3
            omega
  | commentBlock x =>
    unfold postStmt at h
    cases h1 : assignSuffix (Expr.commentBlock x).span (Expr.commentBlock x).comments suf with
    | mk c suf1 =>
      simp only [h1, Prod.mk.injEq] at h
      obtain ⟨rfl, rfl⟩ := h
      have := assignSuffix_len _ _ _ _ _ h1
      simpa [sufCount, Expr.setComments, Expr.comments] using this
  | line x =>
    unfold postStmt at h
    cases h1 : assignSuffix (Expr.line x).span (Expr.line x).comments suf with
    | mk c suf1 =>
      simp only [h1, Prod.mk.injEq] at h
      obtain ⟨rfl, rfl⟩ := h
      have := assignSuffix_len _ _ _ _ _ h1
      simpa [sufCount, Expr.setComments, Expr.comments] using this
  | lparen x =>
    unfold postStmt at h
    cases h1 : assignSuffix (Expr.lparen x).span (Expr.lparen x).comments suf with
    | mk c suf1 =>
      simp only [h1, Prod.mk.injEq] at h
      obtain ⟨rfl, rfl⟩ := h
      have := assignSuffix_len _ _ _ _ _ h1
      simpa [sufCount, Expr.setComments, Expr.comments] using this
  | rparen x =>
    unfold postStmt at h
    cases h1 : assignSuffix (Expr.rparen x).span (Expr.rparen x).comments suf with
    | mk c suf1 =>
      simp only [h1, Prod.mk.injEq] at h
      obtain ⟨rfl, rfl⟩ := h
      have := assignSuffix_len _ _ _ _ _ h1
      simpa [sufCount, Expr.setComments, Expr.comments] using this

theorem postStmtsRev_len : ∀ (ss ss' : List Expr) (suf suf' : List Comment), postStmtsRev ss suf = (ss', suf') →
    sufCounts ss' + suf'.length = sufCounts ss + suf.length := by
  intro ss
  induction ss with
  | nil => intro ss' suf suf' h; simp [postStmtsRev] at h; obtain ⟨rfl, rfl⟩ := h; simp [sufCounts]
  | cons s ss ih =>
    intro ss' suf suf' h
    unfold postStmtsRev at h
    cases h1 : postStmt s suf with
    | mk s1 suf1 =>
      cases h2 : postStmtsRev ss suf1 with
      | mk ss2 suf2 =>
        simp only [h1, h2, Prod.mk.injEq] at h
        obtain ⟨rfl, rfl⟩ := h
        have e1 := postStmt_len _ _ _ _ h1
        have e2 := ih ss2 suf1 suf2 h2
        simp only [sufCounts, List.map_cons, List.sum_cons] at e2 ⊢
        omega

theorem noSuf_count {s : Expr} (h : NoSuf s) : sufCount s = 0 := by
  cases s with
  | lineBlock b =>
    obtain ⟨h1, h2, h3, h4⟩ := h
    have : (b.lines.map (·.comments.suffix.length)).sum = 0 := by
      have : ∀ ls : List Line, (∀ l ∈ ls, l.comments.suffix = []) → (ls.map (·.comments.suffix.length)).sum = 0 := by
        intro ls
        induction ls with
        | nil => intro _; rfl
        | cons l ls ih =>
          intro h
          simp [h l (by simp), ih (fun l' hl' => h l' (by simp [hl']))]
      exact this b.lines h3
    simp [sufCount, h1, h2, h4, this]
  | commentBlock x => simp [sufCount, show x.comments.suffix = [] from h]
  | line x => simp [sufCount, show x.comments.suffix = [] from h]
  | lparen x => simp [sufCount, show x.comments.suffix = [] from h]
  | rparen x => simp [sufCount, show x.comments.suffix = [] from h]

theorem noSuf_counts : ∀ (ss : List Expr), (∀ s ∈ ss, NoSuf s) → sufCounts ss = 0 := by
  intro ss
  induction ss with
  | nil => intro _; rfl
  | cons s ss ih =>
    intro h
    simp [sufCounts, noSuf_count (h s (by simp))]
    exact ih (fun s' hs' => h s' (by simp [hs']))

theorem sufCounts_reverse (ss : List Expr) : sufCounts ss.reverse = sufCounts ss := by
  simp [sufCounts, List.map_reverse, sum_reverse]

/-- the tree has no end-of-line comment anywhere -/
def NoEol (t : FileSyntax) : Prop := t.comments.before = [] ∧ ∀ s ∈ t.stmts, NoSuf s

/-- ★ Conservation: if the parsed tree has no end-of-line comment (no `suffix` list is populated and no
    comment was left over for the file header), then the lexer recorded none. -/
theorem eolComments_nil_of_noEol (name x : Bytes) (t : FileSyntax) (h : parse name x = .ok t) (hno : NoEol t) :
    eolComments x = [] := by
  unfold parse at h
  cases hp : parseFile x with
  | error e => simp [hp, bind, Except.bind] at h
  | ok v =>
    obtain ⟨stmts, i⟩ := v
    simp only [hp, bind, Except.bind, Except.ok.injEq] at h
    obtain ⟨hwf, hsfx⟩ := parseFile_wf' x stmts i hp
    have hcs : eolComments x = i.commentsRev := by simp [eolComments, hp]
    rw [hcs]
    -- all recorded comments are end-of-line comments
    have hfl : (i.commentsRev.reverse.filter (fun c => !c.suffix)) = [] := by
      rw [List.filter_eq_nil_iff]
      intro c hc
      simp [hsfx c (by simpa using hc)]
    have hfs : (i.commentsRev.reverse.filter (fun c => c.suffix)) = i.commentsRev.reverse := by
      rw [List.filter_eq_self]
      intro c hc
      exact hsfx c (by simpa using hc)
    unfold assignComments at h
    simp only [hfl, hfs, assignBefore_nil, preStmts_nil] at h
    cases hpost : postStmtsRev stmts.reverse i.commentsRev.reverse.reverse with
    | mk stmtsRev sufRev =>
      simp only [hpost] at h
      have hlen := postStmtsRev_len _ _ _ _ hpost
      rw [sufCounts_reverse, noSuf_counts stmts (fun s hs => wf_noSuf (hwf s hs))] at hlen
      subst h
      obtain ⟨hb, hs⟩ := hno
      simp only at hb hs
      have hsuf0 : sufRev = [] := by simpa using hb
      have hcnt : sufCounts stmtsRev = 0 := by
        have := noSuf_counts stmtsRev.reverse hs
        rwa [sufCounts_reverse] at this
      rw [hsuf0, hcnt] at hlen
      simp at hlen
      exact List.eq_nil_of_length_eq_zero hlen.symm

/-- ★ `format_parse_syntax` for every accepted input whose tree has no end-of-line comment; the new tree
    has none either. -/
theorem format_parse_syntax_noEol (name x : Bytes) (t : FileSyntax) (h : parse name x = .ok t) (hno : NoEol t) :
    ∃ t', parse name (format t) = .ok t' ∧ eraseFile t' = normFile t ∧ NoEol t' := by
  have he := eolComments_nil_of_noEol name x t h hno
  obtain ⟨hwf, hc, hn⟩ := ModfileFmtFinal.parse_noeol h he
  obtain ⟨t', h1, h2, hwf', hc', _⟩ := reparse_wf name t hwf (by rw [hc])
  refine ⟨t', h1, ?_, by rw [hc'], fun s hs => wf_noSuf (hwf' s hs)⟩
  rw [h2]
  cases t
  simp only at hc hn
  subst hc hn
  exact (ModfileFmtFinal.normFile_plain _ _).symm

/-- ★ `format_idempotent` for every accepted input whose tree has no end-of-line comment. -/
theorem format_idempotent_noEol (name x : Bytes) (t t' : FileSyntax) (h : parse name x = .ok t) (hno : NoEol t)
    (h' : parse name (format t) = .ok t') : format t' = format t :=
  ModfileFmtFinal.format_idempotent_noeol name x t t' h (eolComments_nil_of_noEol name x t h hno) h'

end ModVerif.Proofs.ModfileFmtConserve
