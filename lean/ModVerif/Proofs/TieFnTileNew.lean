/-
  Tie proofs for sumdb/tlog/tile.go, part 4: `NewTiles`.
-/
import ModVerif.Proofs.TieFnTile
import ModVerif.Proofs.TileAuthNew
set_option linter.unusedSimpArgs false
namespace ModVerif.TieFnTile
open ModVerif ModVerif.GoRt ModVerif.GoRtTile

theorem toI64_natCast {n : Nat} (h : n < 2 ^ 63) : toI64 (n : Int) = (n : Int) := by
  have h1 : (n : Int) % two64 = (n : Int) := by
    unfold two64; omega
  simp only [toI64, h1]
  have : (n : Int) < two63 := by unfold two63; omega
  simp [this]

/-- the full tiles `n, n+1, …, n+d-1` of one level -/
def fullTiles (h level n d : Nat) : List Tile.Tile :=
  (List.range d).map fun i => ({ h := h, l := level, n := n + i, w := 2 ^ h } : Tile.Tile)

theorem fullTiles_succ (h level n d : Nat) :
    fullTiles h level n (d + 1) = { h := h, l := level, n := n, w := 2 ^ h } :: fullTiles h level (n + 1) d := by
  simp only [fullTiles, List.range_succ_eq_map, List.map_cons, List.map_map, Nat.add_zero]
  congr 1
  apply List.map_congr_left
  intro i _
  simp only [Function.comp]
  congr 1
  omega

/-- `for n := oldN >> H; n < newN>>H; n++ { tiles = append(tiles, Tile{H: h, L: int(level), N: n, W: 1 << H}) }` -/
theorem NewTiles_loop2_eq (h level newN : Nat) (hN : newN < 2 ^ 63) (hl : level < 2 ^ 63) :
    ∀ (d n fuel : Nat) (tiles : List GTile), d = newN >>> h - n → d < fuel →
    Generated.Tile.NewTiles_loop2 (h : Int) (h : Int) (level : Int) (newN : Int) fuel tiles (n : Int) =
      .ok (tiles ++ (fullTiles h level n d).map toGen, ((n + d : Nat) : Int)) := by
  intro d
  induction d with
  | zero =>
    intro n fuel tiles hd hf
    obtain ⟨g, rfl⟩ : ∃ g, fuel = g + 1 := ⟨fuel - 1, by omega⟩
    have : ¬ ((n : Int) < ((newN >>> h : Nat) : Int)) := by omega
    rw [Generated.Tile.NewTiles_loop2]
    simp only [shr_natCast, mbind_ok, this, decide_false, Bool.false_eq_true, ↓reduceIte, fullTiles, mpure, List.range_zero,
      List.map_nil, List.append_nil, Nat.add_zero]
  | succ d ih =>
    intro n fuel tiles hd hf
    obtain ⟨g, rfl⟩ : ∃ g, fuel = g + 1 := ⟨fuel - 1, by omega⟩
    have hlt : ((n : Int) < ((newN >>> h : Nat) : Int)) := by omega
    have hpos : 0 < newN >>> h := by omega
    have hp : 2 ^ h < 2 ^ 63 := by
      rw [Nat.shiftRight_eq_div_pow] at hpos
      have := (Nat.le_div_iff_mul_le (Nat.two_pow_pos h)).mp hpos
      omega
    have hle : newN >>> h ≤ newN := by rw [Nat.shiftRight_eq_div_pow]; exact Nat.div_le_self _ _
    have e1 : (n : Int) + 1 = ((n + 1 : Nat) : Int) := by omega
    rw [Generated.Tile.NewTiles_loop2]
    simp only [shr_natCast, mbind_ok, hlt, decide_true, ↓reduceIte, shl_one_natCast, chk64_natCast hp, toI64_natCast hl, e1,
      chk64_natCast (show n + 1 < 2 ^ 63 by omega)]
    rw [ih (n + 1) g _ (by omega) (by omega), fullTiles_succ]
    simp only [List.map_cons, List.append_assoc, List.singleton_append, toGen, Bool.false_eq_true, ↓reduceIte]
    congr 3
    omega

/-- the tiles of the model in the result type of the generated loop -/
def ntOut : Except Tlog.Err (List Tile.Tile) → M (List GTile)
  | .ok ts => .ok (ts.map toGen)
  | .error _ => .error .panic

/-- the level loop of `NewTiles`; `f` is the model's fuel.  `h*level ≤ 62 + h`: the uint product `H*level` does not wrap
    (the loop ends at the first level with `newTreeSize >> (H*level) = 0`, i.e. `H*level ≥ 63`). -/
theorem NewTiles_loop1_eq (h old new : Nat) (hh0 : 0 < h) (hh : h < 2 ^ 63) (ho : old < 2 ^ 63) (hn : new < 2 ^ 63) :
    ∀ (f level fuel : Nat) (tiles : List GTile) (rest : List Tile.Tile), h * level ≤ 62 + h →
      Tile.newTilesF h old new f level = .ok rest → f + new + 2 ≤ fuel →
      ∃ lv : Int, Generated.Tile.NewTiles_loop1 (h : Int) (old : Int) (new : Int) (h : Int) fuel tiles (level : Int) =
        .ok (tiles ++ rest.map toGen, lv) := by
  intro f
  induction f with
  | zero =>
    intro level fuel tiles rest hlv hm hf
    obtain ⟨g, rfl⟩ : ∃ g, fuel = g + 1 := ⟨fuel - 1, by omega⟩
    unfold Tile.newTilesF at hm
    split at hm
    · cases hm
    · rename_i hz
      cases hm
      have e1 : (h : Int) * (level : Int) = ((h * level : Nat) : Int) := by simp
      have hz' : ¬ (((new >>> (h * level) : Nat) : Int) > 0) := by omega
      refine ⟨(level : Int), ?_⟩
      rw [Generated.Tile.NewTiles_loop1]
      simp only [e1, toU64_natCast (show h * level < 2 ^ 64 by omega), shr_natCast, mbind_ok, hz', decide_false,
        Bool.false_eq_true, ↓reduceIte, mpure, List.map_nil, List.append_nil]
  | succ f ih =>
    intro level fuel tiles rest hlv hm hf
    obtain ⟨g, rfl⟩ : ∃ g, fuel = g + 1 := ⟨fuel - 1, by omega⟩
    have e1 : (h : Int) * (level : Int) = ((h * level : Nat) : Int) := by simp
    have hu : h * level < 2 ^ 64 := by omega
    unfold Tile.newTilesF at hm
    by_cases hpos : new >>> (h * level) > 0
    · rw [if_pos hpos] at hm
      have hpos' : (((new >>> (h * level) : Nat) : Int) > 0) := by omega
      -- the level is small
      have h62 : h * level ≤ 62 := by
        rw [Nat.shiftRight_eq_div_pow] at hpos
        have := (Nat.le_div_iff_mul_le (Nat.two_pow_pos (h * level))).mp hpos
        apply Nat.le_of_not_lt; intro hc
        have : 2 ^ 63 ≤ 2 ^ (h * level) := Nat.pow_le_pow_right (by omega) hc
        omega
      have hlevel : level ≤ 62 := by
        have : level * 1 ≤ level * h := Nat.mul_le_mul_left _ hh0
        rw [Nat.mul_comm level h] at this
        omega
      cases hrest : Tile.newTilesF h old new f (level + 1) with
      | error e => rw [hrest] at hm; cases hm
      | ok rest' =>
        rw [hrest] at hm
        simp only [bind, Except.bind, pure, Except.pure, Except.ok.injEq] at hm
        subst hm
        have hlv' : h * (level + 1) ≤ 62 + h := by rw [Nat.mul_add]; omega
        have e2 : toU64 ((level : Int) + 1) = ((level + 1 : Nat) : Int) := by
          have : (level : Int) + 1 = ((level + 1 : Nat) : Int) := by omega
          rw [this, toU64_natCast (by omega)]
        generalize hO : old >>> (h * level) = oldN
        generalize hNn : new >>> (h * level) = newN at hpos hpos'
        have hO63 : oldN < 2 ^ 63 := by
          rw [← hO, Nat.shiftRight_eq_div_pow]; exact Nat.lt_of_le_of_lt (Nat.div_le_self _ _) ho
        have hN63 : newN < 2 ^ 63 := by
          rw [← hNn, Nat.shiftRight_eq_div_pow]; exact Nat.lt_of_le_of_lt (Nat.div_le_self _ _) hn
        have hNle : newN ≤ new := by
          rw [← hNn, Nat.shiftRight_eq_div_pow]; exact Nat.div_le_self _ _
        rw [Generated.Tile.NewTiles_loop1]
        simp only [e1, toU64_natCast hu, shr_natCast, mbind_ok, hNn, hO, hpos', decide_true, ↓reduceIte, e2]
        unfold Tile.newTilesLevel
        simp only [hO, hNn]
        by_cases heq : oldN = newN
        · have heq' : ((oldN : Int) = (newN : Int)) := by omega
          have hb : (oldN == newN) = true := by simp [heq]
          obtain ⟨lv, hlv2⟩ := ih (level + 1) g tiles rest' hlv' hrest (by omega)
          refine ⟨lv, ?_⟩
          simp only [heq', decide_true, ↓reduceIte, hb, List.nil_append]
          exact hlv2
        · have heq' : ¬ ((oldN : Int) = (newN : Int)) := by omega
          have hb : (oldN == newN) = false := by simp [heq]
          have hdle : newN >>> h ≤ newN := by rw [Nat.shiftRight_eq_div_pow]; exact Nat.div_le_self _ _
          have hloop2 := NewTiles_loop2_eq h level newN hN63 (by omega) (newN >>> h - oldN >>> h) (oldN >>> h) g tiles rfl
            (by have := Nat.sub_le (newN >>> h) (oldN >>> h); omega)
          have hmul : (newN >>> h) * 2 ^ h ≤ newN := by
            rw [Nat.shiftRight_eq_div_pow]; exact Nat.div_mul_le_self _ _
          have e3 : (newN : Int) - (((newN >>> h) * 2 ^ h : Nat) : Int) = ((newN - (newN >>> h) * 2 ^ h : Nat) : Int) := by omega
          simp only [heq', decide_false, Bool.false_eq_true, ↓reduceIte, hb, hloop2, mbind_ok, shl_natCast,
            chk64_natCast (show (newN >>> h) * 2 ^ h < 2 ^ 63 by omega), e3,
            chk64_natCast (show newN - (newN >>> h) * 2 ^ h < 2 ^ 63 by omega), Nat.shiftLeft_eq, toI64_natCast (show level < 2 ^ 63 by omega)]
          by_cases hw : newN - (newN >>> h) * 2 ^ h > 0
          · have hw' : (((newN - (newN >>> h) * 2 ^ h : Nat) : Int) > 0) := by omega
            obtain ⟨lv, hlv2⟩ := ih (level + 1) g
              (tiles ++ (fullTiles h level (oldN >>> h) (newN >>> h - oldN >>> h)).map toGen ++
                [toGen { h := h, l := level, n := newN >>> h, w := newN - (newN >>> h) * 2 ^ h }]) rest' hlv' hrest (by omega)
            refine ⟨lv, ?_⟩
            simp only [hw, hw', decide_true, ↓reduceIte]
            have : (⟨(h : Int), (level : Int), ((newN >>> h : Nat) : Int), ((newN - (newN >>> h) * 2 ^ h : Nat) : Int)⟩ : GTile) =
                toGen ⟨h, level, newN >>> h, newN - (newN >>> h) * 2 ^ h, false⟩ := by simp [toGen]
            rw [this, hlv2]
            simp [fullTiles, List.append_assoc]
          · have hw' : ¬ (((newN - (newN >>> h) * 2 ^ h : Nat) : Int) > 0) := by omega
            obtain ⟨lv, hlv2⟩ := ih (level + 1) g
              (tiles ++ (fullTiles h level (oldN >>> h) (newN >>> h - oldN >>> h)).map toGen) rest' hlv' hrest (by omega)
            refine ⟨lv, ?_⟩
            simp only [hw, hw', decide_false, Bool.false_eq_true, ↓reduceIte]
            rw [hlv2]
            simp [fullTiles, List.append_assoc]
    · rw [if_neg hpos] at hm
      cases hm
      have hz' : ¬ (((new >>> (h * level) : Nat) : Int) > 0) := by omega
      refine ⟨(level : Int), ?_⟩
      rw [Generated.Tile.NewTiles_loop1]
      simp only [e1, toU64_natCast hu, shr_natCast, mbind_ok, hz', decide_false,
        Bool.false_eq_true, ↓reduceIte, mpure, List.map_nil, List.append_nil]

/-- `NewTiles(h, old, new)`, natural-number form, `h ≥ 1`; the fuel covers the number of tiles of level 0 -/
theorem NewTiles_eq (fuel h old new : Nat) (hh0 : 0 < h) (hh : h < 2 ^ 63) (ho : old < 2 ^ 63) (hn : new < 2 ^ 63)
    (hf : new + 67 ≤ fuel) :
    Generated.Tile.NewTiles fuel (h : Int) (old : Int) (new : Int) = ntOut (Tile.newTiles h old new) := by
  have hle : ¬ ((h : Int) ≤ 0) := by omega
  have hne : (h == 0) = false := by simp; omega
  have hlog : new.log2 < 63 := by
    by_cases h0 : new = 0
    · subst h0; simp
    · exact (Nat.log2_lt h0).mpr hn
  simp only [Generated.Tile.NewTiles, hle, decide_false, Bool.false_eq_true, ↓reduceIte, Tile.newTiles, hne,
    toU64_natCast (show h < 2 ^ 64 by omega)]
  cases hm : Tile.newTilesF h old new (new.log2 + 2) 0 with
  | error e =>
    exfalso
    obtain ⟨ts, h1, _⟩ := TileAuth.newTilesF_spec h old new hh0 (new.log2 + 2) 0 (by omega)
    rw [hm] at h1; cases h1
  | ok rest =>
    obtain ⟨lv, hlv⟩ := NewTiles_loop1_eq h old new hh0 hh ho hn (new.log2 + 2) 0 fuel [] rest (by omega) hm (by omega)
    simp only [Int.natCast_zero] at hlv
    simp only [hlv, mbind_ok, mpure, ntOut, List.nil_append]

end ModVerif.TieFnTile
