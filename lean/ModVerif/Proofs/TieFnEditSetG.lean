/-
  Helper lemmas for Tie/FnEditSet.lean, `File.SetRequireSeparateIndirect`, part 4: LOCAL frame lemmas for the statement
  relation (only the lines of the tree and the blocks of the statement list are read), the closure `ensureBlock`
  (a `*Line` statement is wrapped into a new block) and appending a line to the block at a statement index
  (the model's `appendToBlock`).
-/
import ModVerif.Proofs.TieFnEditSetF
set_option linter.unusedSimpArgs false
set_option linter.unusedVariables false
namespace ModVerif.Tie.FnEditSetG
open ModVerif ModVerif.GoRt ModVerif.Generated.Edit ModVerif.Tie.FnEditRep ModVerif.Tie.FnEditTreeA ModVerif.Tie.FnEditSetA
  ModVerif.Tie.FnEditSetB ModVerif.Tie.FnEditSetD ModVerif.Tie.FnEditSetE ModVerif.Tie.FnEditSetF
open ModVerif.Modfile.Edit (EFile insertAt emptyRequireBlock treeIds appendToBlock)

/-! ### local frame lemmas -/

theorem RLines_local {h h' : Heap} : ∀ {ps : List Int} {ls : List Modfile.Line},
    (∀ l ∈ ls, ∀ v, heapGet h.lines (l.id : Int) = .ok v → heapGet h'.lines (l.id : Int) = .ok v) →
    RLines h ps ls → RLines h' ps ls
  | [], [], _, _ => trivial
  | p :: ps, l :: ls, hl, r => by
    refine ⟨⟨?_, r.1.2⟩, RLines_local (fun l' hl' => hl l' (List.mem_cons_of_mem _ hl')) r.2⟩
    have := r.1.2
    rw [this]
    exact hl l List.mem_cons_self _ (by rw [← this]; exact r.1.1)
  | [], _ :: _, _, r => r.elim
  | _ :: _, [], _, r => r.elim

/-- only the lines of the tree, the blocks of the statement list and `cbs` are read -/
theorem RStmts_local {h h' : Heap} (hc : h'.cbs = h.cbs) : ∀ {es : List Expr} {ss : List Modfile.Expr},
    (∀ i ∈ treeIds ss, ∀ v, heapGet h.lines (i : Int) = .ok v → heapGet h'.lines (i : Int) = .ok v) →
    (∀ p ∈ blockPtrs es, ∀ v, heapGet h.blocks p = .ok v → heapGet h'.blocks p = .ok v) →
    RStmts h es ss → RStmts h' es ss
  | [], [], _, _, _ => trivial
  | e :: es, s :: ss, hl, hb, r => by
    have hl2 : ∀ i ∈ treeIds ss, ∀ v, heapGet h.lines (i : Int) = .ok v → heapGet h'.lines (i : Int) = .ok v := by
      intro i hi; apply hl; rw [Modfile.Edit.treeIds_cons]; exact List.mem_append_right _ hi
    have hl1 : ∀ i ∈ treeIds [s], ∀ v, heapGet h.lines (i : Int) = .ok v → heapGet h'.lines (i : Int) = .ok v := by
      intro i hi; apply hl; rw [Modfile.Edit.treeIds_cons]; exact List.mem_append_left _ hi
    have r1 := r.1
    cases e <;> cases s <;> simp only [RExpr] at r1 <;> try exact r1.elim
    · refine ⟨?_, RStmts_local hc hl2 (fun p hp => hb p (by simpa [blockPtrs] using hp)) r.2⟩
      simp only [RExpr]; rw [hc]; exact r1
    · rename_i p l
      refine ⟨?_, RStmts_local hc hl2 (fun p hp => hb p (by simpa [blockPtrs] using hp)) r.2⟩
      simp only [RExpr]
      have := RLines_local (h := h) (h' := h') (ps := [p]) (ls := [l])
        (fun l' hl' => by simp only [List.mem_singleton] at hl'; subst hl'; exact hl1 _ (by simp [treeIds, Modfile.Edit.loc, Modfile.Edit.locStmt]))
        ⟨r1, trivial⟩
      exact this.1
    · rename_i p b
      refine ⟨?_, RStmts_local hc hl2 (fun p hp => hb p (by simp only [blockPtrs, List.mem_cons]; exact Or.inr hp)) r.2⟩
      simp only [RExpr]
      obtain ⟨ps, hg, hls⟩ := r1
      refine ⟨ps, hb p (by simp [blockPtrs]) _ hg, RLines_local ?_ hls⟩
      intro l' hl'
      exact hl1 _ (by rw [Modfile.Edit.treeIds_block]; exact List.mem_map.2 ⟨l', hl', rfl⟩)
  | [], _ :: _, _, _, r => r.elim
  | _ :: _, [], _, _, r => r.elim

theorem treeIds_line (l : Modfile.Line) : treeIds [Modfile.Expr.line l] = [l.id] := by
  simp [treeIds, Modfile.Edit.loc, Modfile.Edit.locStmt]

theorem treeIds_mid (sa : List Modfile.Expr) (s : Modfile.Expr) (sb : List Modfile.Expr) :
    treeIds (sa ++ s :: sb) = treeIds sa ++ (treeIds [s] ++ treeIds sb) := by
  rw [Modfile.Edit.treeIds_append, Modfile.Edit.treeIds_cons]

theorem blockPtrs_mid_block (a : List Expr) (p : Int) (b : List Expr) :
    blockPtrs (a ++ Expr.LineBlock p :: b) = blockPtrs a ++ p :: blockPtrs b := by
  rw [blockPtrs_append]; rfl

theorem blockPtrs_mid_line (a : List Expr) (p : Int) (b : List Expr) :
    blockPtrs (a ++ Expr.Line p :: b) = blockPtrs a ++ blockPtrs b := by
  rw [blockPtrs_append]; rfl

/-! ### ensureBlock -/

/-- `&LineBlock{Token: []string{"require"}, Line: []*Line{stmt}}` -/
def wrapBlock (q : Int) : LineBlock := { (default : LineBlock) with Token := [([114, 101, 113, 117, 105, 114, 101] : Bytes)], Line := [q] }

theorem wrapBlock_eq (q : Int) : wrapBlock q = blockG { token := [B "require"] } [q] := by
  rw [B_require]; rfl

/-- the line function of ensureBlock: `stmt.Token = stmt.Token[1:]; stmt.InBlock = true` -/
def wrapLine (l : Modfile.Line) : Modfile.Line := { l with token := l.token.drop 1, inBlock := true }

theorem IdEquiv_wrapLine : IdEquiv wrapLine := fun _ _ => rfl

/-- the heap after `ensureBlock(i)` on a line -/
def wrapHeap (h : Heap) (x : Int) (fo : FileSyntax) (es' : List Expr) (q : Int) (l : Modfile.Line) : Heap :=
  { h with blocks := h.blocks ++ [wrapBlock q], lines := h.lines.set (q.toNat - 1) (lineG (wrapLine l)),
           files := h.files.set (x.toNat - 1) { fo with Stmt := es' } }

theorem ensureBlock_block (isPrint : Int → Bool) (quote : Bytes → Bytes) (fuel : Nat) {h : Heap} {f : Int} {o : File} {fo : FileSyntax}
    (hm : heapGet h.mods f = .ok o) (hfile : heapGet h.files o.Syntax = .ok fo) (a b : List Expr) (p : Int)
    (hab : fo.Stmt = a ++ Expr.LineBlock p :: b) :
    File_SetRequireSeparateIndirect_ensureBlock isPrint quote fuel f (a.length : Int) h = .ok (p, h) := by
  unfold File_SetRequireSeparateIndirect_ensureBlock
  simp only [bind, Except.bind, pure, Except.pure, hm, hfile, hab, idxL_cursor]

theorem ensureBlock_line (isPrint : Int → Bool) (quote : Bytes → Bytes) (fuel : Nat) {h : Heap} {f : Int} {o : File} {fo : FileSyntax}
    (hm : heapGet h.mods f = .ok o) (hfile : heapGet h.files o.Syntax = .ok fo) (a b : List Expr) (q : Int)
    (hab : fo.Stmt = a ++ Expr.Line q :: b) {l : Modfile.Line} (hq : heapGet h.lines q = .ok (lineG l)) (ht : l.token ≠ []) :
    File_SetRequireSeparateIndirect_ensureBlock isPrint quote fuel f (a.length : Int) h =
      .ok (((h.blocks.length + 1 : Nat) : Int),
           wrapHeap h o.Syntax fo (a ++ Expr.LineBlock ((h.blocks.length + 1 : Nat) : Int) :: b) q l) := by
  obtain ⟨t0, ts, htok⟩ := List.exists_cons_of_ne_nil ht
  unfold File_SetRequireSeparateIndirect_ensureBlock
  simp only [heapAlloc, bind, Except.bind, pure, Except.pure, hm, hfile, hab, idxL_cursor, hq, lineG_Token, htok, sliceFrom_one_cons,
    heapSet_of_get _ hq, fun X => heapGet_listSet_same X hq, fun X Y => heapSet_listSet_same hq X Y, setIdxL_mid,
    heapSet_of_get _ hfile]
  simp only [wrapHeap, wrapLine, lineG, htok, List.drop_one, List.tail_cons]
  rfl

theorem ensureBlock_bad (isPrint : Int → Bool) (quote : Bytes → Bytes) (fuel : Nat) {h : Heap} {f : Int} {o : File} {fo : FileSyntax}
    (hm : heapGet h.mods f = .ok o) (hfile : heapGet h.files o.Syntax = .ok fo) (i : Nat)
    (hbad : ∀ p, fo.Stmt[i]? ≠ some (Expr.LineBlock p) ∧ fo.Stmt[i]? ≠ some (Expr.Line p)) :
    File_SetRequireSeparateIndirect_ensureBlock isPrint quote fuel f (i : Int) h = .error .panic := by
  unfold File_SetRequireSeparateIndirect_ensureBlock
  simp only [bind, Except.bind, pure, Except.pure, hm, hfile]
  by_cases hi : i < fo.Stmt.length
  · rw [idxL_natCast hi]
    have hget : fo.Stmt[i]? = some fo.Stmt[i] := List.getElem?_eq_getElem hi
    cases he : fo.Stmt[i] with
    | LineBlock p => rw [he] at hget; exact absurd hget (hbad p).1
    | Line p => rw [he] at hget; exact absurd hget (hbad p).2
    | _ => rfl
  · rw [idxL_natCast_ge (by omega)]

theorem RepSynAt_wrap {h : Heap} {x : Int} {fs : Modfile.FileSyntax} {a b : List Expr} {q : Int}
    (r : RepSynAt h x fs (a ++ Expr.Line q :: b)) {sa sb : List Modfile.Expr} {l : Modfile.Line}
    (hs : fs.stmts = sa ++ Modfile.Expr.line l :: sb) (hl : sa.length = a.length) :
    RepSynAt (wrapHeap h x (fileG fs (a ++ Expr.Line q :: b)) (a ++ Expr.LineBlock ((h.blocks.length + 1 : Nat) : Int) :: b) q l) x
      { fs with stmts := sa ++ Modfile.Expr.lineBlock { token := [B "require"], lines := [wrapLine l] } :: sb }
      (a ++ Expr.LineBlock ((h.blocks.length + 1 : Nat) : Int) :: b) := by
  obtain ⟨sa', sb', h1, h2, h3, h4⟩ := RStmts_append_inv r.stmts
  have hsa : sa' = sa := by
    have := congrArg (List.take a.length) (h1.symm.trans hs)
    rw [← h2, List.take_left, h2, ← hl, List.take_left] at this
    exact this
  subst hsa
  cases sb' with
  | nil => exact h4.elim
  | cons s0 sb0 =>
    have hcons : s0 :: sb0 = Modfile.Expr.line l :: sb := List.append_cancel_left (h1.symm.trans hs)
    injection hcons with e1 e2
    subst e1 e2
    obtain ⟨hline, h5⟩ := h4
    simp only [RExpr] at hline
    obtain ⟨hq, hqid⟩ := hline
    have hnd := r.nodupL
    rw [hs, treeIds_mid, treeIds_line] at hnd
    have hnd' := List.nodup_append.1 hnd
    have hnd2 := List.nodup_append.1 hnd'.2.1
    have hqn : q.toNat = l.id := by omega
    -- the frame for the other statements
    have hframe : ∀ {es ss}, RStmts h es ss → l.id ∉ treeIds ss →
        RStmts (wrapHeap h x (fileG fs (a ++ Expr.Line q :: b)) (a ++ Expr.LineBlock ((h.blocks.length + 1 : Nat) : Int) :: b) q l) es ss := by
      intro es ss rr hn
      refine RStmts_local (h := h)
        (h' := wrapHeap h x (fileG fs (a ++ Expr.Line q :: b)) (a ++ Expr.LineBlock ((h.blocks.length + 1 : Nat) : Int) :: b) q l)
        rfl ?_ ?_ rr
      · intro i hi v hv
        show heapGet (h.lines.set (q.toNat - 1) _) _ = _
        have hne : ((i : Nat) : Int) ≠ q := by
          intro e
          rw [hqid] at e
          have : i = l.id := by omega
          subst this; exact hn hi
        rw [heapGet_listSet_other _ hq hne]
        exact hv
      · intro p _ v hv
        exact heapGet_alloc_old _ hv
    refine ⟨?_, ?_, ?_, ?_⟩
    · exact heapGet_listSet_same _ r.file
    · refine RStmts.append (hframe h3 (fun hm => hnd'.2.2 _ hm _ (List.mem_append_left _ (List.mem_singleton.2 rfl)) rfl))
        ⟨?_, hframe h5 (fun hm => hnd2.2.2 _ (List.mem_singleton.2 rfl) _ hm rfl)⟩
      refine ⟨[q], ?_, ⟨?_, hqid⟩, trivial⟩
      · show heapGet (h.blocks ++ [wrapBlock q]) _ = _
        rw [wrapBlock_eq]
        exact heapGet_alloc_new _ _
      · show heapGet (h.lines.set (q.toNat - 1) _) _ = _
        exact heapGet_listSet_same _ hq
    · rw [blockPtrs_mid_block]
      have hnb := r.nodupB
      rw [blockPtrs_mid_line] at hnb
      have hfresh : ∀ p ∈ blockPtrs (a ++ Expr.Line q :: b), p ≠ ((h.blocks.length + 1 : Nat) : Int) := by
        intro p hp
        have := (RStmts_blockPtrs_le r.stmts p hp).2
        omega
      rw [blockPtrs_mid_line] at hfresh
      apply RepSynAt_insert.nodup_insert_fresh hnb
      · intro hm; exact hfresh _ (List.mem_append_left _ hm) rfl
      · intro hm; exact hfresh _ (List.mem_append_right _ hm) rfl
    · show (treeIds (sa' ++ Modfile.Expr.lineBlock { token := [B "require"], lines := [wrapLine l] } :: sb0)).Nodup
      rw [treeIds_mid, Modfile.Edit.treeIds_block]
      exact hnd

end ModVerif.Tie.FnEditSetG
