/-
  C09 ◇ int64 range: for logs of fewer than `2^61` records no intermediate value of StoredHashIndex,
  SplitStoredHashIndex, StoredHashCount or subTreeIndex exceeds `2^63 - 1`.  All loop variables of these
  functions are non-decreasing accumulators (or shrink), so it is enough to bound the values below.
-/
import ModVerif.Proofs.TlogStoreSplit
import ModVerif.Proofs.TlogStoreTree
namespace ModVerif.TlogStore
open ModVerif ModVerif.Tlog ModVerif.RFC6962

/-- the partial sums `i` of the second loop of StoredHashIndex (after `f` iterations) -/
theorem sumHalves_le : ∀ f n, sumHalves f n ≤ 2 * n := by
  intro f
  induction f with
  | zero => intro n; simp [sumHalves]
  | succ f ih =>
    intro n
    unfold sumHalves
    split
    · have := ih (n / 2); omega
    · omega

/-- StoredHashIndex(l, k) for a complete subtree `(l, k)` of a log of `N < 2^61` records: the values of `n` in
    the first loop stay below `N`, the level below 61, every partial sum of the second loop below `2^62`, and the
    result below `2^63`. -/
theorem storedHashIndex_int64 (N l k : Nat) (hN : N < 2 ^ 61) (h : (k + 1) * 2 ^ l ≤ N) :
    (∀ j, j ≤ l → descend j k < N) ∧ l < 61 ∧ (∀ f, sumHalves f (descend l k) < 2 ^ 62) ∧
      storedHashIndex l k < 2 ^ 63 := by
  have hd : ∀ j, j ≤ l → descend j k < N := by
    intro j hj
    rw [descend_eq]
    have h1 : 2 ^ j ≤ 2 ^ l := Nat.pow_le_pow_right (by omega) hj
    have h2 : (k + 1) * 2 ^ j ≤ (k + 1) * 2 ^ l := Nat.mul_le_mul_left _ h1
    have h3 : 0 < (k + 1) * 2 ^ j := Nat.mul_pos (by omega) (Nat.two_pow_pos j)
    omega
  have hl : l < 61 := by
    apply Nat.lt_of_not_le
    intro hc
    have h1 : 2 ^ 61 ≤ 2 ^ l := Nat.pow_le_pow_right (by omega) hc
    have h2 : 1 * 2 ^ l ≤ (k + 1) * 2 ^ l := Nat.mul_le_mul_right _ (by omega)
    omega
  have hs : ∀ f, sumHalves f (descend l k) < 2 ^ 62 := by
    intro f
    have := sumHalves_le f (descend l k)
    have := hd l (Nat.le_refl _)
    omega
  refine ⟨hd, hl, hs, ?_⟩
  have := hs (descend l k)
  simp only [storedHashIndex]
  omega

/-- StoredHashCount(N) ≤ 2N (its summands are added to a non-decreasing accumulator) -/
theorem storedHashCount_int64 (N : Nat) (hN : N ≤ 2 ^ 64) : storedHashCount N ≤ 2 * N := by
  rw [storedHashCount_eq_index N hN, storedHashIndex_zero_eq]
  exact S_le_two_mul N

/-- SplitStoredHashIndex(index), `index < 2^62`, `n` the record containing it: the start value `index/2` and
    every value `x = indexN + 1 + TrailingZeros64(n'+1)` computed by the loop (`n' ≤ n`) are at most `2·(index+1)`. -/
theorem split_int64 (index n : Nat) (h1 : S n ≤ index) (hr : index < 2 ^ 62) :
    S (index / 2) ≤ index ∧ ∀ n', n' ≤ n → S n' + 1 + trailingZeros64 (n' + 1) ≤ 2 * (index + 1) := by
  refine ⟨by have := S_le_two_mul (index / 2); omega, ?_⟩
  intro n' hn'
  have hn : n ≤ index := Nat.le_trans (le_S n) h1
  rw [trailingZeros64_eq_tz (n' + 1) (by omega) (by omega), ← S_succ]
  have := S_mono (n + 1) (n' + 1) (by omega)
  have := S_le_two_mul (n + 1)
  omega

/-- subTreeIndex(lo, hi) for `hi < 2^61`: every index it computes is a StoredHashIndex of a complete subtree of
    the first `hi` records, hence below `2^63` (the other intermediates are `hi - lo + 1 ≤ hi + 1`, `1 << (l+1) ≤ 2^62`
    by the `l < 62` guard of maxpow2, and `lo + k ≤ hi`). -/
theorem subTreeIndex_int64 (lo hi : Nat) (hle : lo ≤ hi) (hal : Aligned lo hi) (hr : hi < 2 ^ 61) :
    ∃ idx, subTreeIndex lo hi = .ok idx ∧ ∀ x ∈ idx, x < 2 ^ 63 := by
  obtain ⟨cs, h1, _, h3⟩ := subTreeIndex_spec lo hi hle hal (by omega)
  refine ⟨_, h1, ?_⟩
  intro x hx
  obtain ⟨c, hc, rfl⟩ := List.mem_map.mp hx
  exact (storedHashIndex_int64 hi c.1 c.2 hr (cover_bound cs lo hi h3 c hc)).2.2.2

end ModVerif.TlogStore
