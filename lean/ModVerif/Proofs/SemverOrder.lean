/-
  semver.Compare is the pull-back of a strict total order on keys:
    key v = (major, minor, patch, prerelease identifiers or none)   for valid v,   none for invalid v
  numbers compared by (length, bytes), identifiers numeric < alphanumeric, numeric by (length, bytes),
  alphanumeric bytewise, shorter identifier list first, no prerelease highest, invalid lowest.
-/
import ModVerif.Model.Semver
import ModVerif.Proofs.BytesOrder
import ModVerif.Proofs.CmpList
namespace ModVerif.Semver
open ModVerif StrictCmp

def intKey (x : Bytes) : Nat × Bytes := (x.length, x)

theorem compareInt_eq (x y : Bytes) :
    compareInt x y = lex natCmp bytesCmp (intKey x) (intKey y) := by
  unfold compareInt lex intKey natCmp bytesCmp
  by_cases h : x = y
  · subst h; simp
  · by_cases l : x.length < y.length
    · have : ¬ x.length = y.length := by omega
      simp [h, l, this]
    · by_cases g : x.length > y.length
      · have : ¬ x.length = y.length := by omega
        simp [h, l, g, this]
      · have e : x.length = y.length := by omega
        simp [h, l, g, e]

theorem compareInt_strict : StrictCmp compareInt := by
  have h := comap (lex_strict natCmp_strict bytesCmp_strict) intKey
    (by intro x y h; exact (Prod.mk.inj h).2)
  have : compareInt = fun x y => lex natCmp bytesCmp (intKey x) (intKey y) := by
    funext x y; exact compareInt_eq x y
  rw [this]; exact h

def identKey (d : Bytes) : Nat × (Nat × Bytes) :=
  (if isNum d then 0 else 1, (if isNum d then d.length else 0, d))

/-- the comparison of two prerelease identifiers as `comparePrerelease` performs it -/
def identCmp (dx dy : Bytes) : Int := if dx = dy then 0 else cmpIdent dx dy

theorem identCmp_eq (dx dy : Bytes) :
    identCmp dx dy = lex natCmp (lex natCmp bytesCmp) (identKey dx) (identKey dy) := by
  unfold identCmp
  by_cases h : dx = dy
  · subst h
    simp [lex, natCmp_strict.refl, bytesCmp_strict.refl]
  · simp only [h, if_false]
    unfold cmpIdent lex identKey natCmp bytesCmp
    cases hx : isNum dx <;> cases hy : isNum dy <;> simp [h]
    · by_cases l : dx.length < dy.length
      · have : ¬ dx.length = dy.length := by omega
        simp [l, this]
      · by_cases g : dy.length < dx.length
        · have : ¬ dx.length = dy.length := by omega
          simp [l, g, this]
        · have e : dx.length = dy.length := by omega
          simp [l, g, e]

theorem identCmp_strict : StrictCmp identCmp := by
  have h := comap (lex_strict natCmp_strict (lex_strict natCmp_strict bytesCmp_strict)) identKey
    (by intro x y h; exact (Prod.mk.inj (Prod.mk.inj h).2).2)
  have : identCmp = fun x y => lex natCmp (lex natCmp bytesCmp) (identKey x) (identKey y) := by
    funext x y; exact identCmp_eq x y
  rw [this]; exact h

theorem cmpIdents_eq : ∀ xs ys : List Bytes, cmpIdents xs ys = listCmp identCmp xs ys
  | [], [] => rfl
  | [], _ :: _ => rfl
  | _ :: _, [] => rfl
  | x :: xs, y :: ys => by
    unfold cmpIdents listCmp identCmp
    by_cases h : x = y
    · subst h; simp [cmpIdents_eq xs ys]; rfl
    · simp only [h, if_false]
      have hne : cmpIdent x y ≠ 0 := by
        intro e
        have := (identCmp_strict.eq_iff x y).1 (by unfold identCmp; simp only [h, if_false]; exact e)
        exact h this
      simp [hne]

/-! splitting on a separator is injective -/

theorem splitOn_ne_nil (sep : UInt8) : ∀ s : Bytes, splitOn sep s ≠ []
  | [] => by simp [splitOn]
  | c :: rest => by
    unfold splitOn
    split
    · simp
    · split <;> simp

def joinSep (sep : UInt8) : List Bytes → Bytes
  | [] => []
  | [x] => x
  | x :: y :: rest => x ++ sep :: joinSep sep (y :: rest)

theorem joinSep_splitOn (sep : UInt8) : ∀ s : Bytes, joinSep sep (splitOn sep s) = s
  | [] => by simp [splitOn, joinSep]
  | c :: rest => by
    have ih := joinSep_splitOn sep rest
    unfold splitOn
    by_cases h : c == sep
    · simp only [h, if_true]
      have hc : c = sep := by simpa using h
      cases hs : splitOn sep rest with
      | nil => exact absurd hs (splitOn_ne_nil sep rest)
      | cons a as => rw [hs] at ih; simp [joinSep, ih, hc]
    · simp only [h]
      cases hs : splitOn sep rest with
      | nil => exact absurd hs (splitOn_ne_nil sep rest)
      | cons a as =>
        rw [hs] at ih
        cases as with
        | nil => simp [joinSep] at ih ⊢; exact ih
        | cons b bs => simp [joinSep] at ih ⊢; exact ih

theorem splitOn_inj (sep : UInt8) (s t : Bytes) (h : splitOn sep s = splitOn sep t) : s = t := by
  rw [← joinSep_splitOn sep s, ← joinSep_splitOn sep t, h]

/-! prerelease strings -/

def preKey (x : Bytes) : Option (List Bytes) :=
  if x.isEmpty then none else some (splitOn 46 (x.drop 1))

/-- what `parse` stores in `prerelease`: empty, or `-` followed by the identifiers -/
def PreOK (x : Bytes) : Prop := x = [] ∨ ∃ s, x = 45 :: s

theorem preKey_inj {x y : Bytes} (hx : PreOK x) (hy : PreOK y) (h : preKey x = preKey y) : x = y := by
  rcases hx with rfl | ⟨s, rfl⟩ <;> rcases hy with rfl | ⟨t, rfl⟩
  · rfl
  · simp [preKey] at h
  · simp [preKey] at h
  · simp [preKey] at h
    rw [splitOn_inj 46 s t h]

theorem comparePrerelease_eq {x y : Bytes} (hx : PreOK x) (hy : PreOK y) :
    comparePrerelease x y = optHighCmp (listCmp identCmp) (preKey x) (preKey y) := by
  unfold comparePrerelease
  by_cases h : x = y
  · subst h
    simp [(optHighCmp_strict (listCmp_strict identCmp_strict)).refl]
  · simp only [h, if_false]
    rcases hx with rfl | ⟨s, rfl⟩ <;> rcases hy with rfl | ⟨t, rfl⟩
    · exact absurd rfl h
    · simp [preKey, optHighCmp]
    · simp [preKey, optHighCmp]
    · simp [preKey, optHighCmp, cmpIdents_eq]

/-! keys of versions -/

abbrev VKey := Bytes × Bytes × Bytes × Option (List Bytes)

def pkey (p : Parsed) : VKey := (p.major, p.minor, p.patch, preKey p.prerelease)

def keyCmp : VKey → VKey → Int :=
  lex compareInt (lex compareInt (lex compareInt (optHighCmp (listCmp identCmp))))

theorem keyCmp_strict : StrictCmp keyCmp :=
  lex_strict compareInt_strict (lex_strict compareInt_strict (lex_strict compareInt_strict
    (optHighCmp_strict (listCmp_strict identCmp_strict))))

/-- the key of a version string: `none` for invalid versions -/
def vkey (v : Bytes) : Option VKey := (parse v).map pkey

theorem parsePrerelease_shape {v t r : Bytes} (h : parsePrerelease v = some (t, r)) : ∃ s, t = 45 :: s := by
  unfold parsePrerelease at h
  split at h
  · split at h
    · simp at h; exact ⟨_, h.1.symm⟩
    · simp at h
  · simp at h

theorem parsePreOpt_preOK {p q : Parsed} {v w : Bytes} (hp : PreOK p.prerelease)
    (h : parsePreOpt p v = some (q, w)) : PreOK q.prerelease := by
  unfold parsePreOpt at h
  split at h
  · split at h
    · rename_i t r hpp
      simp at h
      obtain ⟨s, hs⟩ := parsePrerelease_shape hpp
      rw [← h.1]; exact Or.inr ⟨s, hs⟩
    · simp at h
  · simp at h; rw [← h.1]; exact hp

theorem parseBuildOpt_prerelease {p q : Parsed} {v w : Bytes}
    (h : parseBuildOpt p v = some (q, w)) : q.prerelease = p.prerelease := by
  unfold parseBuildOpt at h
  split at h
  · split at h
    · simp at h; rw [← h.1]
    · simp at h
  · simp at h; rw [← h.1]

theorem parseTail_preOK {p q : Parsed} {v : Bytes} (hp : PreOK p.prerelease)
    (h : parseTail p v = some q) : PreOK q.prerelease := by
  unfold parseTail at h
  split at h
  · simp at h
  · rename_i p1 v1 h1
    split at h
    · simp at h
    · rename_i p2 v2 h2
      split at h
      · simp at h
        rw [← h, parseBuildOpt_prerelease h2]
        exact parsePreOpt_preOK hp h1
      · simp at h

theorem parse_preOK {v : Bytes} {p : Parsed} (h : parse v = some p) : PreOK p.prerelease := by
  unfold parse at h
  split at h
  · split at h
    · simp at h
    · split at h
      · simp at h; rw [← h]; exact Or.inl rfl
      · split at h
        · simp at h
        · split at h
          · simp at h; rw [← h]; exact Or.inl rfl
          · split at h
            · simp at h
            · exact parseTail_preOK (Or.inl rfl) h
          · simp at h
      · simp at h
  · simp at h

theorem compare_eq_key (v w : Bytes) :
    Semver.compare v w = optLowCmp keyCmp (vkey v) (vkey w) := by
  unfold Semver.compare vkey
  cases hv : parse v with
  | none => cases hw : parse w <;> simp [optLowCmp]
  | some pv =>
    cases hw : parse w with
    | none => simp [optLowCmp]
    | some pw =>
      simp only [Option.map, optLowCmp, keyCmp, lex, pkey]
      rw [comparePrerelease_eq (parse_preOK hv) (parse_preOK hw)]
      by_cases h1 : compareInt pv.major pw.major = 0
      · by_cases h2 : compareInt pv.minor pw.minor = 0
        · by_cases h3 : compareInt pv.patch pw.patch = 0
          · simp [h1, h2, h3]
          · simp [h1, h2, h3]
        · simp [h1, h2]
      · simp [h1]

end ModVerif.Semver
