/-
  Helper lemmas about the integer kernels and the guarded entry points of the tlog / tile models.
  (C09, C03, C10; property theorems are in Props/C09.lean, C03.lean, C10.lean.)
-/
import ModVerif.Model.Tlog
import ModVerif.Model.Tile
namespace ModVerif.Tlog
open ModVerif

/-! ### maxpow2 -/

theorem maxpow2Go_spec (n : Nat) : ∀ f l, 2 ^ l < n → l + f = 62 →
    l ≤ maxpow2Go f n l ∧ maxpow2Go f n l ≤ 62 ∧ 2 ^ (maxpow2Go f n l) < n ∧
      (n ≤ 2 ^ (maxpow2Go f n l + 1) ∨ maxpow2Go f n l = 62) := by
  intro f
  induction f with
  | zero => intro l h1 h2; simp [maxpow2Go]; omega
  | succ f ih =>
    intro l h1 h2
    unfold maxpow2Go
    split
    · rename_i h
      have := ih (l+1) h (by omega)
      omega
    · rename_i h
      refine ⟨Nat.le_refl _, by omega, h1, Or.inl (by omega)⟩

/-- `maxpow2 n = (k, l)` with `k = 2^l < n`, and `n ≤ 2k` unless the `l < 62` guard stopped the loop. -/
theorem maxpow2_spec' (n : Nat) (h : 1 < n) :
    (maxpow2 n).1 = 2 ^ (maxpow2 n).2 ∧ (maxpow2 n).1 < n ∧ (maxpow2 n).2 ≤ 62 ∧
      (n ≤ 2 * (maxpow2 n).1 ∨ (maxpow2 n).2 = 62) := by
  have := maxpow2Go_spec n 62 0 (by simpa using h) (by omega)
  simp only [maxpow2]
  refine ⟨trivial, this.2.2.1, this.2.1, ?_⟩
  rcases this.2.2.2 with h' | h'
  · left; rw [Nat.pow_succ] at h'; omega
  · right; exact h'

theorem maxpow2_fst_pos (n : Nat) : 0 < (maxpow2 n).1 := by
  simp only [maxpow2]; exact Nat.two_pow_pos _

/-- for `n ≥ 2`: `0 < k < n` -/
theorem maxpow2_lt (n : Nat) (h : 1 < n) : (maxpow2 n).1 < n := (maxpow2_spec' n h).2.1

/-! ### the checkers never reach a panic branch and never run out of fuel -/

section
variable {H : Type}

/-- the possible outcomes of running a proof from a guarded entry point -/
def Clean {α : Type} (r : Except Err α) : Prop := r = .error .proofFailed ∨ ∃ a, r = .ok a

theorem Clean.bind_ok {α β : Type} {r : Except Err α} {g : α → Except Err β}
    (hr : Clean r) (hg : ∀ a, Clean (g a)) : Clean (r >>= g) := by
  rcases hr with h | ⟨a, h⟩
  · subst h; left; rfl
  · subst h; exact hg a

theorem runRecordProofF_clean (node : H → H → H) : ∀ f p lo hi n leafHash,
    lo ≤ n → n < hi → hi - lo ≤ f → Clean (runRecordProofF node f p lo hi n leafHash) := by
  intro f
  induction f with
  | zero => intro p lo hi n lh h1 h2 h3; omega
  | succ f ih =>
    intro p lo hi n lh h1 h2 h3
    unfold runRecordProofF
    have hg : (!(decide (lo ≤ n) && decide (n < hi))) = false := by simp [h1, h2]
    simp only [hg, Bool.false_eq_true, ↓reduceIte]
    split
    · split
      · left; rfl
      · right; exact ⟨_, rfl⟩
    · rename_i hne
      have hne' : lo + 1 ≠ hi := by simpa using hne
      split
      · left; rfl
      · rename_i last _
        have hsz : 1 < hi - lo := by omega
        have hk := maxpow2_lt (hi - lo) hsz
        have hkp := maxpow2_fst_pos (hi - lo)
        split
        · rename_i hlt
          refine Clean.bind_ok (ih _ lo (lo + (maxpow2 (hi - lo)).1) n lh h1 hlt (by omega)) ?_
          intro a; right; exact ⟨_, rfl⟩
        · rename_i hge
          refine Clean.bind_ok (ih _ (lo + (maxpow2 (hi - lo)).1) hi n lh (by omega) h2 (by omega)) ?_
          intro a; right; exact ⟨_, rfl⟩

theorem runTreeProofF_clean (node : H → H → H) : ∀ f p lo hi n old,
    lo < n → n ≤ hi → hi - lo ≤ f → Clean (runTreeProofF node f p lo hi n old) := by
  intro f
  induction f with
  | zero => intro p lo hi n old h1 h2 h3; omega
  | succ f ih =>
    intro p lo hi n old h1 h2 h3
    unfold runTreeProofF
    have hg : (!(decide (lo < n) && decide (n ≤ hi))) = false := by simp [h1, h2]
    simp only [hg, Bool.false_eq_true, ↓reduceIte]
    split
    · split
      · split
        · left; rfl
        · right; exact ⟨_, rfl⟩
      · split
        · right; exact ⟨_, rfl⟩
        · left; rfl
    · rename_i hne
      have hne' : n ≠ hi := by simpa using hne
      split
      · left; rfl
      · rename_i last _
        have hsz : 1 < hi - lo := by omega
        have hk := maxpow2_lt (hi - lo) hsz
        have hkp := maxpow2_fst_pos (hi - lo)
        split
        · rename_i hle
          refine Clean.bind_ok (ih _ lo (lo + (maxpow2 (hi - lo)).1) n old h1 hle (by omega)) ?_
          intro a; right; exact ⟨_, rfl⟩
        · rename_i hgt
          refine Clean.bind_ok (ih _ (lo + (maxpow2 (hi - lo)).1) hi n old (by omega) h2 (by omega)) ?_
          intro a; right; exact ⟨_, rfl⟩

end
end ModVerif.Tlog

namespace ModVerif.Tlog
open ModVerif

/-! ### fuel lemmas: the interval recursions never run out of the fuel `hi - lo` -/

theorem subTreeIndexF_ne_fuel : ∀ f lo hi, hi - lo ≤ f → subTreeIndexF f lo hi ≠ .error .fuel := by
  intro f
  induction f with
  | zero =>
    intro lo hi h
    have : ¬ lo < hi := by omega
    simp [subTreeIndexF, this]
  | succ f ih =>
    intro lo hi h
    unfold subTreeIndexF
    split
    · rename_i hlt
      have hk := maxpow2_fst_pos (hi - lo + 1)
      split
      rename_i k level heq
      rw [heq] at hk
      split
      · simp
      · have := ih (lo + k) hi (by simp only at hk; omega)
        simp only [bind, Except.bind]
        split
        · rename_i e he; intro hc; cases hc; exact this he
        · simp [pure, Except.pure]
    · simp

theorem subTreeIndex_ne_fuel (lo hi : Nat) : subTreeIndex lo hi ≠ .error .fuel :=
  subTreeIndexF_ne_fuel _ lo hi (Nat.le_refl _)

theorem numTreeF_ne_fuel : ∀ f lo hi, hi - lo ≤ f → numTreeF f lo hi ≠ .error .fuel := by
  intro f
  induction f with
  | zero =>
    intro lo hi h
    have : ¬ lo < hi := by omega
    simp [numTreeF, this]
  | succ f ih =>
    intro lo hi h
    unfold numTreeF
    split
    · rename_i hlt
      have hk := maxpow2_fst_pos (hi - lo + 1)
      split
      rename_i k level heq
      rw [heq] at hk
      split
      · simp
      · have := ih (lo + k) hi (by simp only at hk; omega)
        simp only [bind, Except.bind]
        split
        · rename_i e he; intro hc; cases hc; exact this he
        · simp [pure, Except.pure]
    · simp

end ModVerif.Tlog
