/-
  EditWorkReparse, part C — go.work: from the tree invariant `InvW` to the hypotheses of the first run and of the round
  trip, and the composition (C15 `typed_eq_reparse`, go.work; the counterpart of Proofs/EditReparse{D,E}.lean).

  * `entry_item` / `inv_stmtOK` / `inv_surj` / `inv_IOK`: under `InvW e` every statement of the tree is `StmtOK (items e.f)`;
  * `rend_toks` / `inv_ewf`: the token clauses of C02's tree shape `EWFStmts` from `InvW` + readable values; the comment
    clauses are the Boolean test `comShapeB` (shared with go.mod);
  * `AbsPermW`: equality of two abstract go.work files (go / toolchain equal; godebug / use / replace as multisets);
  * `reparse_of_invW` (a state), `typed_eq_reparse_work_run` / `typed_eq_reparse_work_session` (sessions from a parsed file).
-/
import ModVerif.Proofs.EditWorkReparseB
set_option linter.unusedSimpArgs false
set_option linter.unusedVariables false
namespace ModVerif.Modfile.Edit.W
open ModVerif ModVerif.Modfile ModVerif.EditSpec
open ModVerif.Proofs.ModfileFmtDir (PathOK VerOK pathOKB pathOKB_sound lineTailOK_no_lparen)
open ModVerif.Proofs.ModfileFmtLine (TokText)
open ModVerif.Proofs.ModfileFmtWork (WorkWellFormed workValues WorkValues workValues_eq_iff)
open ModVerif.Proofs.ModfileEol (EWFStmts EWFStmt EWFLine EWFBlkLine EWFBlkLines EWFBlock SufOK NlOK NlLine)

/-! ### entries and items -/

theorem entry_item {f : WorkFile} {en : Ent} (hen : en ∈ entriesW f) :
    ∃ it, (en.id, it) ∈ items f ∧ ∀ t s, en.acc t s → Rend it t := by
  simp only [entriesW, List.mem_append, List.mem_map, Option.mem_toList, entsOf, List.mem_filter] at hen
  rcases hen with ⟨x, hx, rfl⟩ | ⟨x, hx, rfl⟩ | ⟨x, hx, rfl⟩ | ⟨x, hx, rfl⟩ | ⟨x, hx, rfl⟩
  · refine ⟨.go x.version, ?_, fun t s h => h⟩
    simp only [items, List.mem_append, List.mem_map, Option.mem_toList]; exact Or.inl ⟨x, hx, rfl⟩
  · refine ⟨.toolchain x.name, ?_, fun t s h => h⟩
    simp only [items, List.mem_append, List.mem_map, Option.mem_toList]; exact Or.inr (Or.inl ⟨x, hx, rfl⟩)
  · refine ⟨.godebug x.key x.value, ?_, fun t s h => h⟩
    simp only [items, List.mem_append, List.mem_map]; exact Or.inr (Or.inr (Or.inl ⟨x, hx.1, rfl⟩))
  · refine ⟨.use x.path, ?_, fun t s h => h⟩
    simp only [items, List.mem_append, List.mem_map]; exact Or.inr (Or.inr (Or.inr (Or.inl ⟨x, hx.1, rfl⟩)))
  · refine ⟨.replace x.old x.new, ?_, fun t s h => ?_⟩
    · simp only [items, List.mem_append, List.mem_map]; exact Or.inr (Or.inr (Or.inr (Or.inr ⟨x, hx.1, rfl⟩)))
    · have h' : t = replaceToks x := h
      rw [h', replaceToks_replArgs]; rfl

/-- every typed list holds live entries only (the state after `WorkFile.Cleanup`) -/
structure AllLive (f : WorkFile) : Prop where
  godebug : ∀ g ∈ f.godebug, liveG g = true
  use : ∀ u ∈ f.use, liveU u = true
  replace : ∀ r ∈ f.replace, liveRp r = true

theorem items_ids {f : WorkFile} (h : AllLive f) : (items f).map (·.1) = (entriesW f).map (·.id) := by
  simp only [items, entriesW, entsOf, List.map_append, List.map_map, List.filter_eq_self.2 h.godebug,
    List.filter_eq_self.2 h.use, List.filter_eq_self.2 h.replace]
  rfl

/-- every value of the typed file is readable -/
def VOK (f : WorkFile) : Prop := ∀ q ∈ items f, ItemOK q.2

theorem items_scalar1 (f : WorkFile) :
    (∀ a b p q, (a, Item.go p) ∈ items f → (b, Item.go q) ∈ items f → a = b) ∧
    (∀ a b p q, (a, Item.toolchain p) ∈ items f → (b, Item.toolchain q) ∈ items f → a = b) := by
  refine ⟨?_, ?_⟩ <;> intro a b p q h1 h2 <;>
    simp only [items, List.mem_append, List.mem_map, Prod.mk.injEq, reduceCtorEq, and_false, exists_false, or_false,
      false_or, Option.mem_toList, Option.mem_def] at h1 h2
  · obtain ⟨x, hx, rfl, _⟩ := h1
    obtain ⟨y, hy, rfl, _⟩ := h2
    rw [hx] at hy; cases hy; rfl
  · obtain ⟨x, hx, rfl, _⟩ := h1
    obtain ⟨y, hy, rfl, _⟩ := h2
    rw [hx] at hy; cases hy; rfl

theorem inv_IOK {e : EWork} (hi : InvW e) (hl : AllLive e.f) (hv : VOK e.f) : IOK (items e.f) :=
  ⟨by rw [items_ids hl]; exact hi.mtch.nodup, hv, (items_scalar1 e.f).1, (items_scalar1 e.f).2⟩

theorem line_item {e : EWork} (hi : InvW e) {p : List Bytes × Line} (hp : p ∈ loc e.f.syn.stmts) (hlive : liveLoc p = true) :
    ∃ it, (p.2.id, it) ∈ items e.f ∧ Rend it (p.1 ++ p.2.token) := by
  have hv : mkV p ∈ view e.f.syn.stmts := mem_view.2 ⟨p, hp, hlive, rfl⟩
  obtain ⟨en, hen, hid, hacc⟩ := hi.line_entry _ hv
  obtain ⟨it, hmem, hrend⟩ := entry_item hen
  refine ⟨it, ?_, hrend _ _ hacc⟩
  rw [hid] at hmem; exact hmem

theorem inv_stmtOK {e : EWork} (hi : InvW e) (hll : LinesLive e.f.syn.stmts) (hgb : GoodBlocks e.f.syn.stmts) :
    ∀ x ∈ e.f.syn.stmts, StmtOK (items e.f) x := by
  intro x hx
  cases x with
  | line l =>
    have hp := mem_loc_line hx
    obtain ⟨it, hmem, hr⟩ := line_item hi hp (hll _ hp)
    simp only [List.nil_append] at hr
    have hne : l.token ≠ [] := by
      have := hll _ hp; simp only [liveLoc, Bool.not_eq_true', List.isEmpty_eq_false_iff] at this; exact this
    obtain ⟨verb, args, htok⟩ := List.exists_cons_of_ne_nil hne
    exact ⟨verb, args, it, htok, hmem, by rw [htok] at hr; exact hr⟩
  | lineBlock b =>
    obtain ⟨v, hv⟩ := hi.tree.blockTok b hx
    refine ⟨v, hv, hgb b hx v hv, ?_⟩
    intro l hl
    have hp := mem_loc_block hx hl
    obtain ⟨it, hmem, hr⟩ := line_item hi hp (hll _ hp)
    refine ⟨it, hmem, ?_⟩
    simp only [hv, List.singleton_append] at hr
    exact hr
  | commentBlock c => trivial
  | lparen c => trivial
  | rparen c => trivial

theorem inv_surj {e : EWork} (hi : InvW e) (hl : AllLive e.f) : ∀ q ∈ items e.f, q.1 ∈ treeIds e.f.syn.stmts := by
  intro q hq
  have : q.1 ∈ (entriesW e.f).map (·.id) := by rw [← items_ids hl]; exact List.mem_map.2 ⟨q, hq, rfl⟩
  obtain ⟨en, hen, hid⟩ := List.mem_map.1 this
  obtain ⟨v, hv, hvid, _⟩ := hi.mtch.cover en hen
  rw [← hid, ← hvid]
  exact view_id_mem_treeIds hv

/-! ### the tokens of a rendered line -/

theorem rawTok_use : RawTok (B "use") := by
  refine ⟨?_, ?_⟩ <;> decide +kernel

theorem rend_toks {it : Item} {t : List Bytes} (hr : Rend it t) (hok : ItemOK it) :
    ∃ verb args, t = verb :: args ∧ ∀ a ∈ t, GoodTok a := by
  cases it with
  | go v => exact Edit.rend_toks (it := .go v) (s := []) hr hok
  | toolchain n => exact Edit.rend_toks (it := .toolchain n) (s := []) hr hok
  | godebug k v => exact Edit.rend_toks (it := .godebug k v) (s := []) hr hok
  | replace o n => exact Edit.rend_toks (it := .replace o n) (s := []) hr hok
  | use p =>
    refine ⟨_, _, hr, ?_⟩
    rw [show t = _ from hr]
    intro a ha
    simp only [List.mem_cons, List.mem_nil_iff, or_false] at ha
    rcases ha with rfl | rfl
    · exact goodTok_raw rawTok_use
    · exact goodTok_path hok

theorem blockVerb_raw {v : Bytes} (h : verbIn v workBlockVerbs = true) : RawTok v := by
  obtain ⟨r1, r2, r3, r4, r5, r6, r7, r8, r9, r10⟩ := rawTok_verb
  simp only [verbIn, workBlockVerbs, List.any_cons, List.any_nil, Bool.or_false, Bool.or_eq_true, beq_iff_eq] at h
  rcases h with h | h | h <;> rw [← h]
  · exact r4
  · exact rawTok_use
  · exact r7

/-! ### `EWFStmts` and `NlOK` of a tree satisfying the invariant -/

theorem ewf_blkLines (verb : Bytes) (I : List (Nat × Item)) (hI : ∀ q ∈ I, ItemOK q.2) :
    ∀ (ls : List Line) (allow : Bool), comBlkLinesB allow ls = true → (∀ l ∈ ls, l.token ≠ []) → (∀ l ∈ ls, l.inBlock = true) →
      (∀ l ∈ ls, ∃ it, (l.id, it) ∈ I ∧ Rend it (verb :: l.token)) →
      EWFBlkLines allow ls ∧ ∀ l ∈ ls, NlLine l := by
  intro ls
  induction ls with
  | nil => intro _ _ _ _ _; exact ⟨trivial, fun l hl => by cases hl⟩
  | cons l ls ih =>
    intro allow hc hne hin hr
    simp only [comBlkLinesB, Bool.and_eq_true, List.isEmpty_iff] at hc
    obtain ⟨⟨⟨hb, hs⟩, ha⟩, hrest⟩ := hc
    obtain ⟨it, hmem, hrend⟩ := hr l (by simp)
    obtain ⟨v, args, hcons, hgood⟩ := rend_toks hrend (hI _ hmem)
    have hgl : ∀ a ∈ l.token, GoodTok a := fun a ha => hgood a (List.mem_cons_of_mem _ ha)
    obtain ⟨h1, h2⟩ := ih true hrest (fun l' hl' => hne l' (by simp [hl'])) (fun l' hl' => hin l' (by simp [hl']))
      (fun l' hl' => hr l' (by simp [hl']))
    refine ⟨⟨⟨hne l (by simp), fun t ht => (hgl t ht).1, ?_, blkBeforeB_sound _ _ hb, sufOKB_sound hs, ha, hin l (by simp)⟩, h1⟩, ?_⟩
    · cases htok : l.token with
      | nil => simp
      | cons a as =>
        simp only [List.head?_cons, ne_eq, Option.some.injEq]
        exact (hgl a (by rw [htok]; simp)).2.2.1
    · intro l' hl'
      rcases List.mem_cons.1 hl' with rfl | hl'
      · intro _ t ht; exact (hgl t ht).2.2.2
      · exact h2 l' hl'

theorem inv_ewf {e : EWork} (hi : InvW e) (hv : VOK e.f) (hll : LinesLive e.f.syn.stmts) (hgb : GoodBlocks e.f.syn.stmts)
    (hcom : comShapeB e.f.syn = true) :
    EWFStmts e.f.syn.stmts ∧ (∀ s ∈ e.f.syn.stmts, NlOK s) ∧ e.f.syn.comments.before = [] := by
  simp only [comShapeB, Bool.and_eq_true, List.isEmpty_iff, List.all_eq_true] at hcom
  obtain ⟨hhdr, hstm⟩ := hcom
  have hok := inv_stmtOK hi hll hgb
  refine ⟨?_, ?_, hhdr⟩
  · intro x hx
    have hc := hstm x hx
    have hs := hok x hx
    cases x with
    | line l =>
      obtain ⟨verb, args, it, htok, hmem, hr⟩ := hs
      obtain ⟨_, _, _, hgood⟩ := rend_toks hr (hv _ hmem)
      simp only [comStmtB, Bool.and_eq_true, List.isEmpty_iff] at hc
      refine (⟨by rw [htok]; simp, fun t ht => (hgood t (by rw [← htok]; exact ht)).1, ?_, topBeforeB_sound hc.1.1,
        sufOKB_sound hc.1.2, hc.2, hi.tree.flagTop l hx⟩ : EWFLine l)
      rw [htok]
      exact lineTailOK_no_lparen _ (fun t ht => (hgood t (List.mem_cons_of_mem _ ht)).2.1)
    | lineBlock b =>
      obtain ⟨verb, htok, hverb, hlines⟩ := hs
      simp only [comStmtB, Bool.and_eq_true, List.isEmpty_iff] at hc
      obtain ⟨⟨⟨⟨⟨⟨⟨⟨c1, c2⟩, c3⟩, c4⟩, c5⟩, c6⟩, c7⟩, c8⟩, c9⟩ := hc
      have hlive : ∀ l ∈ b.lines, l.token ≠ [] := by
        intro l hl
        have := hll _ (mem_loc_block hx hl)
        simpa [liveLoc] using this
      obtain ⟨h1, _⟩ := ewf_blkLines verb (items e.f) hv b.lines false c6 hlive (hi.tree.flagIn b hx) hlines
      have hvt : ∀ t ∈ b.token, TokText t := by
        rw [htok]; intro t ht; simp only [List.mem_singleton] at ht; rw [ht]
        exact (goodTok_raw (blockVerb_raw hverb)).1
      exact (⟨by rw [htok]; simp, hvt,
        topBeforeB_sound c1, c2, c3, sufOKB_sound c4, c5, h1, blkBeforeB_sound _ _ c7, sufOKB_sound c8, c9⟩ : EWFBlock b)
    | commentBlock c =>
      simp only [comStmtB, Bool.and_eq_true, List.isEmpty_iff, Bool.not_eq_true', List.isEmpty_eq_false_iff] at hc
      exact ⟨hc.1.1.1, topBeforeB_sound hc.1.1.2, hc.1.2, hc.2⟩
    | lparen c => simp [comStmtB] at hc
    | rparen c => simp [comStmtB] at hc
  · intro x hx
    have hc := hstm x hx
    have hs := hok x hx
    cases x with
    | line l =>
      obtain ⟨verb, args, it, htok, hmem, hr⟩ := hs
      obtain ⟨_, _, _, hgood⟩ := rend_toks hr (hv _ hmem)
      intro _ t ht
      exact (hgood t (by rw [← htok]; exact ht)).2.2.2
    | lineBlock b =>
      obtain ⟨verb, htok, hverb, hlines⟩ := hs
      simp only [comStmtB, Bool.and_eq_true, List.isEmpty_iff] at hc
      obtain ⟨⟨⟨⟨⟨⟨⟨⟨c1, c2⟩, c3⟩, c4⟩, c5⟩, c6⟩, c7⟩, c8⟩, c9⟩ := hc
      have hlive : ∀ l ∈ b.lines, l.token ≠ [] := by
        intro l hl
        have := hll _ (mem_loc_block hx hl)
        simpa [liveLoc] using this
      exact (ewf_blkLines verb (items e.f) hv b.lines false c6 hlive (hi.tree.flagIn b hx) hlines).2
    | commentBlock c => trivial
    | lparen c => trivial
    | rparen c => trivial

/-! ### equality of abstract go.work files as multisets -/

/-- the directive lists of two abstract go.work files are equal as multisets; go version and toolchain are equal -/
structure AbsPermW (a b : AbsFile) : Prop where
  go : a.go = b.go
  toolchain : a.toolchain = b.toolchain
  godebug : a.godebug.Perm b.godebug
  use : a.use.Perm b.use
  replace : a.replace.Perm b.replace

theorem AbsPermW.refl (a : AbsFile) : AbsPermW a a := ⟨rfl, rfl, .refl _, .refl _, .refl _⟩
theorem AbsPermW.trans {a b c : AbsFile} (h1 : AbsPermW a b) (h2 : AbsPermW b c) : AbsPermW a c :=
  ⟨h1.go.trans h2.go, h1.toolchain.trans h2.toolchain, h1.godebug.trans h2.godebug, h1.use.trans h2.use,
   h1.replace.trans h2.replace⟩
theorem AbsPermW.symm {a b : AbsFile} (h : AbsPermW a b) : AbsPermW b a :=
  ⟨h.go.symm, h.toolchain.symm, h.godebug.symm, h.use.symm, h.replace.symm⟩

def selGo : Nat × Item → Option Bytes
  | (_, .go p) => some p
  | _ => none
def selToolchain : Nat × Item → Option Bytes
  | (_, .toolchain p) => some p
  | _ => none
def selGodebug : Nat × Item → Option (Bytes × Bytes)
  | (_, .godebug k v) => some (k, v)
  | _ => none
def selUse : Nat × Item → Option Bytes
  | (_, .use p) => some p
  | _ => none
def selReplace : Nat × Item → Option Repl
  | (_, .replace o n) => some ⟨o.path, o.version, n.path, n.version⟩
  | _ => none

theorem sel_go (f : WorkFile) : (items f).filterMap selGo = (absOfWork f).go.toList := by
  cases h : f.go <;>
    simp [items, absOfWork, selGo, List.filterMap_append, List.filterMap_map, Function.comp_def, fm_none, h]
theorem sel_toolchain (f : WorkFile) : (items f).filterMap selToolchain = (absOfWork f).toolchain.toList := by
  cases h : f.toolchain <;>
    simp [items, absOfWork, selToolchain, List.filterMap_append, List.filterMap_map, Function.comp_def, fm_none, h]
theorem sel_godebug (f : WorkFile) : (items f).filterMap selGodebug = (absOfWork f).godebug := by
  simp [items, absOfWork, selGodebug, List.filterMap_append, List.filterMap_map, Function.comp_def, fm_none]
theorem sel_use (f : WorkFile) : (items f).filterMap selUse = (absOfWork f).use := by
  simp [items, absOfWork, selUse, List.filterMap_append, List.filterMap_map, Function.comp_def, fm_none]
theorem sel_replace (f : WorkFile) : (items f).filterMap selReplace = (absOfWork f).replace := by
  simp [items, absOfWork, selReplace, List.filterMap_append, List.filterMap_map, Function.comp_def, fm_none]

/-- a permutation of the items is a permutation of every directive list -/
theorem absPermW_of_items {f g : WorkFile} (h : (items f).Perm (items g)) : AbsPermW (absOfWork f) (absOfWork g) := by
  refine ⟨opt_of_perm ?_, opt_of_perm ?_, ?_, ?_, ?_⟩
  · rw [← sel_go, ← sel_go]; exact h.filterMap _
  · rw [← sel_toolchain, ← sel_toolchain]; exact h.filterMap _
  · rw [← sel_godebug, ← sel_godebug]; exact h.filterMap _
  · rw [← sel_use, ← sel_use]; exact h.filterMap _
  · rw [← sel_replace, ← sel_replace]; exact h.filterMap _

/-- equal directive values (C02's `workValues`) give `AbsPermW` -/
theorem absPermW_of_values {f g : WorkFile} (h : workValues f = workValues g) : AbsPermW (absOfWork f) (absOfWork g) := by
  obtain ⟨h1, h2, h3, h4, h5⟩ := (workValues_eq_iff f g).1 h
  refine ⟨h1, h2, .of_eq h3, .of_eq h4, ?_⟩
  have := congrArg (List.map fun (p : ModVersion × ModVersion) => (⟨p.1.path, p.1.version, p.2.path, p.2.version⟩ : Repl)) h5
  simp only [List.map_map, Function.comp_def] at this
  exact List.Perm.of_eq this

/-! ### well-formedness (C02) of the file the first run builds -/

theorem wellFormed_of_items {f : WorkFile} {I : List (Nat × Item)} (hp : (items f).Perm I) (hok : ∀ q ∈ I, ItemOK q.2) :
    WorkWellFormed f := by
  have key : ∀ q ∈ items f, ItemOK q.2 := fun q hq => hok q (hp.mem_iff.1 hq)
  refine ⟨?_, ?_⟩
  · intro u hu
    exact key (u.lineId, .use u.path) (by
      simp only [items, List.mem_append, List.mem_map]
      exact Or.inr (Or.inr (Or.inr (Or.inl ⟨u, hu, rfl⟩))))
  · intro r hr
    have : Edit.ItemOK (.replace r.old r.new) := key (r.lineId, .replace r.old r.new) (by
      simp only [items, List.mem_append, List.mem_map]
      exact Or.inr (Or.inr (Or.inr (Or.inr ⟨r, hr, rfl⟩))))
    exact ⟨this.1, this.2.2.1, this.2.1, this.2.2.2.1⟩

/-! ### the state-level theorem -/

/-- **Typed lists = `ParseWork` of the formatted tree, for a STATE.**  `e`: any state of the go.work edit model that
    satisfies the tree invariant `InvW`, whose typed lists hold live entries only (`AllLive`: a Cleanup has run) with
    readable values (`VOK`), and whose tree has only lines with tokens (`LinesLive`), only block verbs on blocks
    (`W.GoodBlocks`) and the comment placement of a parsed file (`comShapeB`).  Then `ParseWork` accepts `Format` of the
    tree, and the file it returns has the same go version and toolchain and — as multisets — the same godebugs, use
    directories and replacements. -/
theorem reparse_of_invW (name : Bytes) (e : EWork) (hi : InvW e) (hl : AllLive e.f) (hv : VOK e.f)
    (hll : LinesLive e.f.syn.stmts) (hgb : GoodBlocks e.f.syn.stmts) (hcom : comShapeB e.f.syn = true) :
    ∃ g, parseWork name (format e.f.syn) none = .ok g ∧ AbsPermW (absOfWork g) (absOfWork e.f) := by
  have hIOK := inv_IOK hi hl hv
  obtain ⟨st1, hrun, herr, hperm⟩ := first_run hIOK e.f.syn hi.tree.nodup (inv_stmtOK hi hll hgb) (inv_surj hi hl)
  obtain ⟨hewf, hnl, hhdr⟩ := inv_ewf hi hv hll hgb hcom
  have hwf := wellFormed_of_items hperm hv
  obtain ⟨g, hparse, hvals⟩ := Proofs.EditReparse.reparse_of_first_run_work name e.f.syn st1 hewf hnl hhdr hrun herr hwf
  exact ⟨g, hparse, (absPermW_of_values hvals).trans (absPermW_of_items hperm)⟩

/-! ### the state after the final Cleanup -/

theorem workCleanup_allLive (e : EWork) : AllLive (workCleanup e).f := by
  refine ⟨?_, ?_, ?_⟩ <;> intro x hx <;> simp only [workCleanup, List.mem_filter] at hx <;> exact hx.2

theorem workCleanup_linesLive (e : EWork) : LinesLive (workCleanup e).f.syn.stmts := cleanupStmts_linesLive _

/-! ### readable values, on the abstract file, with a Boolean test -/

/-- the items of an abstract go.work file -/
def absItems (a : AbsFile) : List Item :=
  a.go.toList.map Item.go ++ (a.toolchain.toList.map Item.toolchain ++
  (a.godebug.map (fun g => Item.godebug g.1 g.2) ++ (a.use.map Item.use ++
   a.replace.map (fun r => Item.replace ⟨r.oldPath, r.oldVers⟩ ⟨r.newPath, r.newVers⟩))))

/-- every value of the abstract go.work file is one `ParseWork` accepts and reads back unchanged -/
def AbsOKW (a : AbsFile) : Prop := ∀ it ∈ absItems a, ItemOK it

theorem absItems_absOfWork (f : WorkFile) : absItems (absOfWork f) = (items f).map (·.2) := by
  cases hg : f.go <;> cases ht : f.toolchain <;>
    simp [absItems, absOfWork, items, List.map_append, List.map_map, Function.comp_def, hg, ht]

theorem vok_of_absOKW {f : WorkFile} (h : AbsOKW (absOfWork f)) : VOK f := by
  intro q hq
  apply h
  rw [absItems_absOfWork]
  exact List.mem_map.2 ⟨q, hq, rfl⟩

def itemOKB : Item → Bool
  | .go v => Edit.itemOKB (.go v)
  | .toolchain n => Edit.itemOKB (.toolchain n)
  | .godebug k v => Edit.itemOKB (.godebug k v)
  | .use p => pathOKB p
  | .replace o n => Edit.itemOKB (.replace o n)

theorem itemOKB_sound {it : Item} (h : itemOKB it = true) : ItemOK it := by
  cases it with
  | go v => exact Edit.itemOKB_sound (it := .go v) h
  | toolchain n => exact Edit.itemOKB_sound (it := .toolchain n) h
  | godebug k v => exact Edit.itemOKB_sound (it := .godebug k v) h
  | use p => exact pathOKB_sound h
  | replace o n => exact Edit.itemOKB_sound (it := .replace o n) h

def absOKWB (a : AbsFile) : Bool := (absItems a).all itemOKB

theorem absOKWB_sound {a : AbsFile} (h : absOKWB a = true) : AbsOKW a :=
  fun it hit => itemOKB_sound (List.all_eq_true.1 h it hit)

/-! ### the session-level theorems -/

/-- **typed_eq_reparse (go.work), on the run.**  From the parse `f` of any go.work text (no version fixer, as in
    `sessionWork`) with non-empty keys and no block suffix comment (the hypotheses of `parseWork_invW`), after ANY statically
    valid session (`StaticValidW`) that ran to `e'` (it always does: `nilDeref_unreachable_work_parsed`) and the final Cleanup:
    if the values of the final typed lists are readable (`AbsOKW`) and the final tree has the comment placement of a parsed
    file (`comShapeB`), then `ParseWork` accepts the formatted final tree and returns the typed lists of the final state, as
    multisets.  (`W.GoodBlocks` of the final tree is derived: `W.goodBlocks_run`.) -/
theorem typed_eq_reparse_work_run (name name' data : Bytes) (f : WorkFile) (ops : List Op) (e' : EWork) (res : List Bool)
    (hf : parseWork name data none = .ok f) (hk : WorkKeys f) (hs : NoBlockSuffix f.syn) (hv : StaticValidW false ops)
    (h : runOps applyWork (loadWork f) ops [] 0 = .done e' res)
    (hok : AbsOKW (absOfWork (workCleanup e').f)) (hcom : comShapeB (workCleanup e').f.syn = true) :
    ∃ g, parseWork name' (format (workCleanup e').f.syn) none = .ok g ∧
      AbsPermW (absOfWork g) (absOfWork (workCleanup e').f) := by
  have hl := StaticValidW.runValidW ops false (loadWork f) hv (fun hc => by cases hc)
  have hinv : InvW (workCleanup e') :=
    workCleanup_inv e' (runOpsWork_inv_all ops (loadWork f) [] 0 e' res hl (parseWork_invW hf hk hs) h)
  exact reparse_of_invW name' (workCleanup e') hinv (workCleanup_allLive e') (vok_of_absOKW hok) (workCleanup_linesLive e')
    (goodBlocks_run name data f ops e' res hf h).2 hcom

/-- **typed_eq_reparse (go.work), on `sessionWork`** — what `edit.worksession` prints. -/
theorem typed_eq_reparse_work_session (file : Bytes) (ops : List Op) (o : Outcome) (f : WorkFile)
    (hf : parseWork (B "go.work") file none = .ok f) (hk : WorkKeys f) (hs : NoBlockSuffix f.syn)
    (hv : StaticValidW false ops) (h : sessionWork file ops = some o) (hok : AbsOKW o.typed)
    (hcom : comShapeB o.tree = true) :
    ∃ r, o.reparsed = some r ∧ AbsPermW r o.typed := by
  unfold sessionWork at h
  rw [hf] at h
  simp only at h
  split at h
  · rename_i e res hrun
    simp only [Option.some.injEq] at h
    subst h
    simp only at hok hcom ⊢
    obtain ⟨g, hg, hperm⟩ := typed_eq_reparse_work_run (B "go.work") (B "go.work") file f ops e res hf hk hs hv hrun hok hcom
    rw [hg]
    exact ⟨absOfWork g, rfl, hperm⟩
  · cases h

/-- `W.GoodBlocks` on `sessionWork`: the tree of every outcome passes the Boolean test (no hypothesis on the session) -/
theorem goodBlocks_session (file : Bytes) (ops : List Op) (o : Outcome) (h : sessionWork file ops = some o) :
    goodBlocksB o.tree.stmts = true := by
  unfold sessionWork at h
  cases hf : parseWork (B "go.work") file none with
  | error err => rw [hf] at h; cases h
  | ok f =>
    rw [hf] at h
    simp only at h
    split at h
    · rename_i e res hrun
      simp only [Option.some.injEq] at h
      subst h
      exact goodBlocksB_complete (goodBlocks_run (B "go.work") file f ops e res hf hrun).2
    · cases h

end ModVerif.Modfile.Edit.W
