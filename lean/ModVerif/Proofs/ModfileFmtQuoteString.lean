/-
  C02 stage 2, part c: `strconv.Quote(s)` is ONE string token, for every byte string `s`.

  `quoteLoop` is rewritten as the concatenation `qbody` of per-rune chunks `stepOut`; every chunk is either
  a backslash escape (backslash, an ASCII byte, then hex digits) or the well-formed UTF-8 bytes of a
  printable rune other than `"` and `\`; such chunks prolong a `StrBody 34`.
-/
import ModVerif.Proofs.ModfileFmtQuoteIdent
namespace ModVerif.Proofs.ModfileFmtQuote
open ModVerif ModVerif.Modfile ModVerif.Proofs.ModfileLex ModVerif.Proofs.ModfileFmtUtf8
open ModVerif.Proofs.ModfileFmtTok ModVerif.Proofs.ModfileFmtLex

/-! ### `encode` inverts `decode` -/

theorem ofNat_eq_of_toNat {b : UInt8} {n : Nat} (h : b.toNat = n) : UInt8.ofNat n = b := by
  subst h; simp

/-- a well-formed sequence is the encoding of its rune -/
theorem encode_of_decode {s : Bytes} {r w : Nat} (h : Utf8.decode s = some (r, w)) :
    Utf8.encode r = s.take w := by
  unfold Utf8.decode at h
  split at h
  · simp at h
  · rename_i b0 rest
    simp only at h
    repeat' split at h
    all_goals first
      | (simp at h; done)
      | (simp only [Option.some.injEq, Prod.mk.injEq] at h
         obtain ⟨rfl, rfl⟩ := h
         try simp only [Utf8.isCont, Utf8.inRange, Bool.and_eq_true, decide_eq_true_eq, beq_iff_eq] at *
         unfold Utf8.encode
         repeat' split
         all_goals first
           | (exfalso; omega)
           | (simp only [List.take_succ_cons, List.take_zero, List.cons.injEq, and_true]
              and_intros <;> apply ofNat_eq_of_toNat <;> omega))

example : Utf8.decode [0xE2, 0x82, 0xAC, 65] = some (0x20AC, 3) := by decide

/-- a well-formed sequence decodes to a valid rune (no surrogate, at most U+10FFFF) -/
theorem validRune_of_decode {s : Bytes} {r w : Nat} (h : Utf8.decode s = some (r, w)) :
    Quote.validRune r = true := by
  unfold Utf8.decode at h
  split at h
  · simp at h
  · rename_i b0 rest
    simp only at h
    repeat' split at h
    all_goals first
      | (simp at h; done)
      | (simp only [Option.some.injEq, Prod.mk.injEq] at h
         obtain ⟨rfl, rfl⟩ := h
         try simp only [Utf8.isCont, Utf8.inRange, Bool.and_eq_true, decide_eq_true_eq, beq_iff_eq] at *
         simp only [Quote.validRune, Bool.or_eq_true, Bool.and_eq_true, decide_eq_true_eq]
         omega)

theorem decodeRune_of_decode {s : Bytes} {r w : Nat} (h : Utf8.decode s = some (r, w)) :
    Utf8.decodeRune s = (r, w) := by
  simp [Utf8.decodeRune, h]

/-! ### `quoteLoop` as a concatenation of chunks -/

/-- the ill-formed-byte test of `strconv.Quote`: `width == 1 && r == utf8.RuneError` -/
def badHead (s : Bytes) : Bool := (Utf8.decodeRune s).2 == 1 && (Utf8.decodeRune s).1 == Utf8.runeError

/-- what one iteration of `quoteLoop` appends -/
def stepOut : Bytes → Bytes
  | [] => []
  | c :: t =>
    if badHead (c :: t) then [92, 120, Quote.lowerhex (c.toNat / 16), Quote.lowerhex (c.toNat % 16)]
    else Quote.appendEscapedRune (Utf8.decodeRune (c :: t)).1

/-- the output of `quoteLoop` started with an empty accumulator -/
def qbody : Nat → Bytes → Bytes
  | 0, _ => []
  | _ + 1, [] => []
  | fuel + 1, c :: t => stepOut (c :: t) ++ qbody fuel ((c :: t).drop (Utf8.decodeRune (c :: t)).2)

theorem quoteLoop_cons (fuel : Nat) (c : UInt8) (t acc : Bytes) :
    Quote.quoteLoop (fuel + 1) (c :: t) acc =
      Quote.quoteLoop fuel ((c :: t).drop (Utf8.decodeRune (c :: t)).2) ((stepOut (c :: t)).reverse ++ acc) := by
  have hrw : (if c.toNat ≥ 0x80 then Utf8.decodeRune (c :: t) else (c.toNat, 1)) = Utf8.decodeRune (c :: t) := by
    split
    · rfl
    · rw [decodeRune_ascii c t (by omega)]
  simp only [Quote.quoteLoop, hrw]
  by_cases hb : badHead (c :: t) = true
  · have hb' := hb
    simp only [badHead, Bool.and_eq_true, beq_iff_eq] at hb'
    simp only [stepOut, hb, if_true, hb'.1, hb'.2, beq_self_eq_true, Bool.and_self]
  · have hc : ¬ ((Utf8.decodeRune (c :: t)).2 == 1 && (Utf8.decodeRune (c :: t)).1 == Utf8.runeError) = true := hb
    simp only [stepOut, hb, hc]
    rfl

theorem quoteLoop_eq_qbody : ∀ (fuel : Nat) (s acc : Bytes),
    Quote.quoteLoop fuel s acc = acc.reverse ++ qbody fuel s := by
  intro fuel
  induction fuel with
  | zero => intro s acc; simp [Quote.quoteLoop, qbody]
  | succ n ih =>
    intro s acc
    cases s with
    | nil => simp [Quote.quoteLoop, qbody]
    | cons c t =>
      rw [quoteLoop_cons, ih]
      simp [qbody]

theorem quote_eq_qbody (s : Bytes) : Quote.quote s = 34 :: (qbody (s.length + 1) s ++ [34]) := by
  simp [Quote.quote, quoteLoop_eq_qbody]

/-! ### the chunks -/

/-- the bytes `lowerhex` produces for a hex digit -/
def HexBytes (hs : Bytes) : Prop := ∀ b ∈ hs, ∃ n, n < 16 ∧ b = Quote.lowerhex n

theorem hexBytes_nil : HexBytes [] := by intro b hb; simp at hb

theorem hexBytes_cons {n : Nat} {hs : Bytes} (hn : n < 16) (h : HexBytes hs) : HexBytes (Quote.lowerhex n :: hs) := by
  intro b hb
  rcases List.mem_cons.1 hb with rfl | hb
  · exact ⟨n, hn, rfl⟩
  · exact h b hb

theorem hexBytes_hexDigits (r : Nat) : ∀ k, HexBytes (Quote.hexDigits r k) := by
  intro k
  induction k with
  | zero => exact hexBytes_nil
  | succ k ih => exact hexBytes_cons (Nat.mod_lt _ (by decide)) ih

theorem lowerhex_fin : ∀ n : Fin 16, (Quote.lowerhex n.val).toNat < 0x80 ∧ Quote.lowerhex n.val ≠ 10 ∧
    Quote.lowerhex n.val ≠ 34 ∧ Quote.lowerhex n.val ≠ 92 := by decide

theorem lowerhex_plain {n : Nat} (hn : n < 16) : (Quote.lowerhex n).toNat < 0x80 ∧ Quote.lowerhex n ≠ 10 ∧
    Quote.lowerhex n ≠ 34 ∧ Quote.lowerhex n ≠ 92 := lowerhex_fin ⟨n, hn⟩

/-- a chunk is a backslash escape -/
def IsEscape (u : Bytes) : Prop := ∃ e hs, u = 92 :: e :: hs ∧ e.toNat < 0x80 ∧ HexBytes hs

theorem isEscape_two (e : UInt8) (he : e.toNat < 0x80) : IsEscape [92, e] := ⟨e, [], rfl, he, hexBytes_nil⟩

theorem isEscape_ite {c : Prop} [Decidable c] {a b : Bytes} (ha : c → IsEscape a) (hb : ¬ c → IsEscape b) :
    IsEscape (if c then a else b) := by
  by_cases h : c
  · rw [if_pos h]; exact ha h
  · rw [if_neg h]; exact hb h

theorem isPrint_lt_128 {r : Nat} (hp : UnicodePrint.isPrint r = true) (hr : r < 0x80) : 0x20 ≤ r ∧ r ≤ 0x7E := by
  unfold UnicodePrint.isPrint at hp
  rw [if_pos (by omega)] at hp
  simp only [Bool.or_eq_true, Bool.and_eq_true, decide_eq_true_eq, bne_iff_ne] at hp
  omega

/-- `appendEscapedRune r` is a backslash escape, or the encoding of a printable rune other than `"`, `\` -/
theorem appendEscapedRune_class (r : Nat) :
    IsEscape (Quote.appendEscapedRune r) ∨
    (Quote.appendEscapedRune r = Utf8.encode r ∧ UnicodePrint.isPrint r = true ∧ r ≠ 34 ∧ r ≠ 92) := by
  delta Quote.appendEscapedRune
  by_cases h : (r == 34 || r == 92) = true
  · rw [if_pos h]
    left
    simp only [Bool.or_eq_true, beq_iff_eq] at h
    rcases h with h | h <;> subst h <;> exact isEscape_two _ (by decide)
  · rw [if_neg h]
    simp only [Bool.or_eq_true, beq_iff_eq, not_or] at h
    by_cases hp : UnicodePrint.isPrint r = true
    · rw [if_pos hp]
      exact Or.inr ⟨rfl, hp, h.1, h.2⟩
    · rw [if_neg hp]
      left
      refine isEscape_ite (fun _ => isEscape_two _ (by decide)) (fun _ => ?_)
      refine isEscape_ite (fun _ => isEscape_two _ (by decide)) (fun _ => ?_)
      refine isEscape_ite (fun _ => isEscape_two _ (by decide)) (fun _ => ?_)
      refine isEscape_ite (fun _ => isEscape_two _ (by decide)) (fun _ => ?_)
      refine isEscape_ite (fun _ => isEscape_two _ (by decide)) (fun _ => ?_)
      refine isEscape_ite (fun _ => isEscape_two _ (by decide)) (fun _ => ?_)
      refine isEscape_ite (fun _ => isEscape_two _ (by decide)) (fun _ => ?_)
      refine isEscape_ite (fun hx => ?_) (fun _ => ?_)
      · simp only [Bool.or_eq_true, decide_eq_true_eq, beq_iff_eq] at hx
        exact ⟨120, _, rfl, by decide, hexBytes_cons (by omega) (hexBytes_cons (by omega) hexBytes_nil)⟩
      · refine isEscape_ite (fun _ => ?_) (fun _ => isEscape_ite (fun _ => ?_) (fun _ => ?_))
        · exact ⟨117, _, rfl, by decide, hexBytes_hexDigits _ _⟩
        · exact ⟨117, _, rfl, by decide, hexBytes_hexDigits _ _⟩
        · exact ⟨85, _, rfl, by decide, hexBytes_hexDigits _ _⟩

/-- not an ill-formed head: the head is a well-formed sequence -/
theorem decode_of_not_bad {s : Bytes} (hb : badHead s = false) :
    Utf8.decode s = some (Utf8.decodeRune s) := by
  cases hd : Utf8.decode s with
  | some rw => simp [Utf8.decodeRune, hd]
  | none =>
    exfalso
    have : Utf8.decodeRune s = (Utf8.runeError, 1) := by simp [Utf8.decodeRune, hd]
    simp [badHead, this] at hb

example : badHead [0xC3, 0xA9] = false := by decide

/-- one chunk of `Quote`: an escape, or the (well-formed, printable) input bytes themselves -/
theorem stepOut_class (s : Bytes) (hs : s ≠ []) :
    IsEscape (stepOut s) ∨
    (stepOut s = s.take (Utf8.decodeRune s).2 ∧ Utf8.decode s = some (Utf8.decodeRune s) ∧
      UnicodePrint.isPrint (Utf8.decodeRune s).1 = true ∧ (Utf8.decodeRune s).1 ≠ 34 ∧ (Utf8.decodeRune s).1 ≠ 92) := by
  cases s with
  | nil => exact absurd rfl hs
  | cons c t =>
    simp only [stepOut]
    by_cases hb : badHead (c :: t) = true
    · left
      rw [if_pos hb]
      exact ⟨120, _, rfl, by decide, hexBytes_cons (by have := c.toNat_lt; omega)
        (hexBytes_cons (Nat.mod_lt _ (by decide)) hexBytes_nil)⟩
    · rw [if_neg hb]
      rcases appendEscapedRune_class (Utf8.decodeRune (c :: t)).1 with h | ⟨h1, h2, h3, h4⟩
      · exact Or.inl h
      · right
        have hd := decode_of_not_bad (by simpa using hb)
        exact ⟨by rw [h1]; exact encode_of_decode hd, hd, h2, h3, h4⟩

/-! ### prolonging a string body -/

theorem strBody_ascii {c : UInt8} {t : Bytes} (hc : c.toNat < 0x80) (h10 : c ≠ 10) (h34 : c ≠ 34) (h92 : c ≠ 92)
    (ht : StrBody 34 t) : StrBody 34 (c :: t) := by
  have hd := decodeRune_ascii c t hc
  have hne : ∀ (x : UInt8), c ≠ x → c.toNat ≠ x.toNat := fun x h1 h2 => h1 (UInt8.toNat_inj.1 h2)
  refine .other (by simp) ?_ ?_ ?_ ?_
  · rw [hd]; exact hne 10 h10
  · rw [hd]; exact hne 34 h34
  · rw [hd]; intro h; exact hne 92 h92 h.1
  · rw [hd]; simpa using ht

theorem strBody_hex {hs : Bytes} (hh : HexBytes hs) {t : Bytes} (ht : StrBody 34 t) : StrBody 34 (hs ++ t) := by
  induction hs with
  | nil => simpa using ht
  | cons b bs ih =>
    obtain ⟨n, hn, rfl⟩ := hh b (by simp)
    obtain ⟨h1, h2, h3, h4⟩ := lowerhex_plain hn
    exact strBody_ascii h1 h2 h3 h4 (ih (fun x hx => hh x (by simp [hx])))

theorem strBody_escape {u : Bytes} (hu : IsEscape u) {t : Bytes} (ht : StrBody 34 t) : StrBody 34 (u ++ t) := by
  obtain ⟨e, hs, rfl, he, hh⟩ := hu
  have hd := decodeRune_ascii 92 (e :: (hs ++ t)) (by decide)
  have hd2 := decodeRune_ascii e (hs ++ t) he
  have h92 : (92 : UInt8).toNat = 92 := rfl
  refine .esc (by simp) ?_ ?_ ?_ (by decide) ?_ ?_
  · simp only [List.cons_append, hd, h92]; decide
  · simp only [List.cons_append, hd, h92]; decide
  · simp only [List.cons_append, hd, h92]
  · simp only [List.cons_append, hd]; simp
  · simp only [List.cons_append, hd, List.drop_succ_cons, List.drop_zero, hd2]
    exact strBody_hex hh ht

/-- a well-formed, printable chunk copied from the input -/
theorem strBody_plain {s : Bytes} (hd : Utf8.decode s = some (Utf8.decodeRune s))
    (hp : UnicodePrint.isPrint (Utf8.decodeRune s).1 = true) (h34 : (Utf8.decodeRune s).1 ≠ 34)
    (h92 : (Utf8.decodeRune s).1 ≠ 92) {t : Bytes} (ht : StrBody 34 t) :
    StrBody 34 (s.take (Utf8.decodeRune s).2 ++ t) := by
  have hs : s ≠ [] := by intro h; subst h; simp [Utf8.decode] at hd
  have hw := decodeRune_width s hs
  have hlen := take_length_decodeRune s hs
  have hctx : Utf8.decodeRune (s.take (Utf8.decodeRune s).2 ++ t) = Utf8.decodeRune s := by
    exact decodeRune_of_decode (decode_take (r := (Utf8.decodeRune s).1) (w := (Utf8.decodeRune s).2) hd t)
  have h10 : (Utf8.decodeRune s).1 ≠ 10 := by
    intro h; rw [h] at hp; revert hp; decide
  have hne : s.take (Utf8.decodeRune s).2 ++ t ≠ [] := by
    intro h
    have := congrArg List.length h
    simp only [List.length_append, hlen, List.length_nil] at this
    omega
  refine .other hne (by rw [hctx]; exact h10) (by rw [hctx]; exact h34) (by rw [hctx]; exact fun h => h92 h.1) ?_
  rw [hctx, List.drop_append, List.drop_of_length_le (by omega), hlen]
  simpa using ht

example : Utf8.decode [0xC3, 0xA9] = some (Utf8.decodeRune [0xC3, 0xA9]) ∧
    UnicodePrint.isPrint (Utf8.decodeRune [0xC3, 0xA9]).1 = true := by decide

theorem strBody_close : StrBody 34 [34] := by
  have hd := decodeRune_ascii 34 [] (by decide)
  refine .close (by simp) ?_ ?_ ?_
  · rw [hd]; decide
  · rw [hd]; rfl
  · rw [hd]; rfl

/-- non-vacuity of the prolongation lemmas: `a"`, `\n"` and `é"` are string bodies -/
example : StrBody 34 [97, 34] := strBody_ascii (by decide) (by decide) (by decide) (by decide) strBody_close
example : StrBody 34 ([92, 110] ++ [34]) := strBody_escape (isEscape_two _ (by decide)) strBody_close
example : StrBody 34 (([0xC3, 0xA9] : Bytes).take (Utf8.decodeRune [0xC3, 0xA9]).2 ++ [34]) :=
  strBody_plain (by decide) (by decide) (by decide) (by decide) strBody_close
example : HexBytes [Quote.lowerhex 3] := hexBytes_cons (by decide) hexBytes_nil

theorem strBody_stepOut (s : Bytes) (hs : s ≠ []) {t : Bytes} (ht : StrBody 34 t) : StrBody 34 (stepOut s ++ t) := by
  rcases stepOut_class s hs with h | ⟨h1, h2, h3, h4, h5⟩
  · exact strBody_escape h ht
  · rw [h1]; exact strBody_plain h2 h3 h4 h5 ht

theorem strBody_qbody : ∀ (fuel : Nat) (s : Bytes) {t : Bytes}, StrBody 34 t → StrBody 34 (qbody fuel s ++ t) := by
  intro fuel
  induction fuel with
  | zero => intro s t ht; simpa [qbody] using ht
  | succ n ih =>
    intro s t ht
    cases s with
    | nil => simpa [qbody] using ht
    | cons c r =>
      simp only [qbody, List.append_assoc]
      exact strBody_stepOut _ (by simp) (ih _ ht)

/-- ★ `strconv.Quote(s)` is ONE string token, for every byte string `s` -/
theorem autoQuote_quoted (s : Bytes) : TokOK .string (Quote.quote s) := by
  rw [quote_eq_qbody]
  exact .string 34 _ (Or.inl rfl) (strBody_qbody _ s strBody_close)

/-- ★ every argument the directive layer stores prints as ONE token -/
theorem autoQuote_single_token (s : Bytes) : ∃ k, TokOK k (autoQuote s) := by
  unfold autoQuote
  cases h : mustQuote s with
  | true => exact ⟨.string, by simpa using autoQuote_quoted s⟩
  | false =>
    simp only [Bool.false_eq_true, if_false]
    rcases autoQuote_unquoted h with h | ⟨c, hc, rfl⟩
    · exact ⟨_, h⟩
    · exact ⟨_, .punct c hc⟩

end ModVerif.Proofs.ModfileFmtQuote
