/-
  A sequence of `Lookup` calls on the regenerated client (`genRun`) against the model's `runLookups`
  (Proofs/ClientAuth.lean): the invariant `RepL` is carried from call to call by `Lookup_tie_aux`.
-/
import ModVerif.Proofs.TieFnClientLookupMain
import ModVerif.Proofs.ClientAuth
set_option linter.unusedSectionVars false
namespace ModVerif.TieFnClientLookup
open ModVerif ModVerif.GoRt ModVerif.Generated.SumdbClient ModVerif.TieFnClientRep

section
variable {σ H : Type} [DecidableEq H] [Inhabited H]

/-- the regenerated client called with a list of `(path, vers)`, results dropped -/
def genRun {σ' : Type} (E : ClientEnv σ' H) (fuel : Nat) : CW σ' H → List (Bytes × Bytes) → M (CW σ' H)
  | cw, [] => pure cw
  | cw, q :: qs =>
    match Client_Lookup E fuel q.1 q.2 cw with
    | .ok (_, cw') => genRun E fuel cw' qs
    | .error e => .error e

/-- the side conditions of every call of the sequence, each at the world in which the model makes it -/
def RunAdm (P : Client.Params H) (E : Client.Env σ) (AM : Nat → Client.World σ H → Bytes → Prop)
    (AC : Nat → Client.World σ H → Int → Bytes → Prop) (fuel : Nat) : Client.World σ H → List (Bytes × Bytes) → Prop
  | _, [] => True
  | w, q :: qs => LookupAdm P E AM AC fuel w q.1 q.2 ∧ RunAdm P E AM AC fuel (Client.lookup P E w q.1 q.2).2 qs

theorem run_tie (P : Client.Params H) (E : Client.Env σ) (AM : Nat → Client.World σ H → Bytes → Prop)
    (AC : Nat → Client.World σ H → Int → Bytes → Prop) (hM : MergeLatestSpec P E AM) (hC : CheckRecordSpec P E AC)
    (hsha : ∀ x, 4 ≤ (P.sha x).length) (fuel : Nat) :
    ∀ (qs : List (Bytes × Bytes)) (w : Client.World σ H) (cw : GW σ H), RepL P E w cw → RunAdm P E AM AC fuel w qs →
      ∃ cw', genRun (envOf P E) fuel cw qs = .ok cw' ∧ RepL P E (Client.runLookups P E w qs) cw' := by
  intro qs
  induction qs with
  | nil => intro w cw h _; exact ⟨cw, rfl, h⟩
  | cons q qs ih =>
    intro w cw h ha
    obtain ⟨ha1, ha2⟩ := ha
    obtain ⟨r', cw1, h1, h2, _⟩ := Lookup_tie_aux P E AM AC hM hC hsha w cw fuel q.1 q.2 h ha1
    obtain ⟨cw', h3, h4⟩ := ih _ cw1 h2 ha2
    refine ⟨cw', ?_, h4⟩
    simp only [genRun, h1]
    exact h3

end
end ModVerif.TieFnClientLookup
