/-
  C10 groundwork: `hashFromTile` in closed form (tileForIndex_spec, second half): on true tile data it returns the
  true hash of the index; conversely (collision freedom) a correct result forces the slice that was read to be true.
-/
import ModVerif.Proofs.TileAuthHash
namespace ModVerif.TileAuth
open ModVerif ModVerif.Tlog ModVerif.Tile

/-- start of the hashes of coordinate `(lv, k)` inside its tile (in hashes); they are `2 ^ (lv % h)` many -/
def ts (h lv k : Nat) : Nat := (k % 2 ^ (h - lv % h)) * 2 ^ (lv % h)

/-- tile number of coordinate `(lv, k)` -/
def tnum (h lv k : Nat) : Nat := k / 2 ^ (h - lv % h)

theorem two_pow_split (h lv : Nat) (hh : 0 < h) : 2 ^ h = 2 ^ (h - lv % h) * 2 ^ (lv % h) := by
  have := Nat.mod_lt lv hh
  rw [← Nat.pow_add]; congr 1; omega

/-- the slice starts at the level-`L*h` coordinate `k * 2^r` -/
theorem tnum_ts (h lv k : Nat) (hh : 0 < h) : tnum h lv k * 2 ^ h + ts h lv k = k * 2 ^ (lv % h) := by
  unfold tnum ts
  rw [two_pow_split h lv hh, ← Nat.mul_assoc, ← Nat.add_mul]
  congr 1
  have := Nat.div_add_mod k (2 ^ (h - lv % h))
  rw [Nat.mul_comm] at this
  exact this

theorem ts_le (h lv k : Nat) (hh : 0 < h) : ts h lv k + 2 ^ (lv % h) ≤ 2 ^ h := by
  unfold ts
  rw [two_pow_split h lv hh]
  have := Nat.mod_lt k (Nat.two_pow_pos (h - lv % h))
  have : (k % 2 ^ (h - lv % h) + 1) * 2 ^ (lv % h) ≤ 2 ^ (h - lv % h) * 2 ^ (lv % h) :=
    Nat.mul_le_mul_right _ (by omega)
  rw [Nat.add_mul] at this
  omega

theorem lv_split (h lv : Nat) : lv / h * h + lv % h = lv := by
  have := Nat.div_add_mod lv h
  rw [Nat.mul_comm] at this
  exact this

/-- a coordinate inside the tree lies inside the standard tile of its tile coordinates -/
theorem coord_in_tile (h N lv k : Nat) (hh : 0 < h) (hv : (k + 1) * 2 ^ lv ≤ N) :
    tnum h lv k * 2 ^ h + ts h lv k + 2 ^ (lv % h) ≤ cnt h N (lv / h) := by
  rw [tnum_ts h lv k hh]
  have : (k + 1) * 2 ^ (lv % h) ≤ cnt h N (lv / h) := by
    rw [← valid_iff', lv_split]; exact hv
  rw [Nat.add_mul] at this
  omega

section
variable {H : Type} (node : H → H → H) (T : Nat → Nat → H) (N : Nat)

theorem hashFromTile_eq (t : Tile) (d : List H) (x lv k : Nat) (hh : 0 < t.h)
    (hs : splitStoredHashIndex x = .ok (lv, k)) :
    hashFromTile node t d x =
      if t.h < 1 || t.h > 30 || t.data || t.l ≥ 64 || t.w < 1 || t.w > 2 ^ t.h then .error .badTile
      else if d.length < t.w then .error .badTile
      else if t.l != lv / t.h || t.n != tnum t.h lv k || t.w < ts t.h lv k + 2 ^ (lv % t.h) then .error .badTile
      else tileHash node ((d.take (ts t.h lv k + 2 ^ (lv % t.h))).drop (ts t.h lv k)) := by
  unfold hashFromTile
  rw [tileForIndex_eq t.h x lv k hh hs]
  simp only [bind, Except.bind, ts, tnum, Nat.add_mul, Nat.one_mul]
  rfl

/-- the checks a successful `hashFromTile` has passed -/
theorem hashFromTile_ok (t : Tile) (d : List H) (x lv k : Nat) (v : H) (hh : 0 < t.h)
    (hs : splitStoredHashIndex x = .ok (lv, k)) (hok : hashFromTile node t d x = .ok v) :
    t.l = lv / t.h ∧ t.n = tnum t.h lv k ∧ ts t.h lv k + 2 ^ (lv % t.h) ≤ t.w ∧ t.w ≤ d.length ∧
      tileHash node ((d.take (ts t.h lv k + 2 ^ (lv % t.h))).drop (ts t.h lv k)) = .ok v := by
  rw [hashFromTile_eq node t d x lv k hh hs] at hok
  split at hok
  · cases hok
  · split at hok
    · cases hok
    · split at hok
      · cases hok
      · rename_i h1 h2 h3
        simp only [Bool.or_eq_true, bne_iff_ne, ne_eq, decide_eq_true_eq, not_or, Decidable.not_not, Nat.not_lt] at h3
        exact ⟨h3.1.1, h3.1.2, h3.2, by omega, hok⟩

/-- when the checks pass, `hashFromTile` hashes the slice -/
theorem hashFromTile_pass (t : Tile) (d : List H) (x lv k : Nat)
    (hs : splitStoredHashIndex x = .ok (lv, k))
    (h1 : 1 ≤ t.h) (h2 : t.h ≤ 30) (h3 : t.data = false) (h4 : t.l < 64) (h5 : 1 ≤ t.w) (h6 : t.w ≤ 2 ^ t.h)
    (h7 : t.w ≤ d.length) (h8 : t.l = lv / t.h) (h9 : t.n = tnum t.h lv k) (h10 : ts t.h lv k + 2 ^ (lv % t.h) ≤ t.w) :
    hashFromTile node t d x = tileHash node ((d.take (ts t.h lv k + 2 ^ (lv % t.h))).drop (ts t.h lv k)) := by
  rw [hashFromTile_eq node t d x lv k (by omega) hs]
  rw [if_neg (by simp [h3]; omega), if_neg (by omega), if_neg (by simp [← h8, ← h9]; omega)]

/-- on the true content of the tile, `hashFromTile` returns the true hash of the coordinate -/
theorem hashFromTile_good (hstep : StepOK node T N) (t : Tile) (x lv k : Nat)
    (hs : splitStoredHashIndex x = .ok (lv, k)) (hv : (k + 1) * 2 ^ lv ≤ N)
    (h1 : 1 ≤ t.h) (h2 : t.h ≤ 30) (h3 : t.data = false) (h4 : t.l < 64) (h6 : t.w ≤ 2 ^ t.h)
    (h8 : t.l = lv / t.h) (h9 : t.n = tnum t.h lv k) (h10 : ts t.h lv k + 2 ^ (lv % t.h) ≤ t.w) :
    hashFromTile node t (tdata T t.h t.l t.n t.w) x = .ok (T lv k) := by
  have hp := Nat.two_pow_pos (lv % t.h)
  rw [hashFromTile_pass node t _ x lv k hs h1 h2 h3 h4 (by omega) h6 (by rw [tdata_length]; omega) h8 h9 h10]
  rw [tdata_slice T _ _ _ _ _ _ h10, h9, tnum_ts t.h lv k (by omega)]
  apply tileHash_ptree node (lv % t.h) _ _ (by simp)
  rw [h8, ptree_T node T N hstep (lv % t.h) (lv / t.h * t.h) k (by rw [lv_split]; exact hv), lv_split]

/-- (collision freedom) if `hashFromTile` returns the true hash of the coordinate, the slice it read is true -/
theorem hashFromTile_auth (hcf : ∀ a b c d : H, node a b = node c d → a = c ∧ b = d) (hstep : StepOK node T N)
    (t : Tile) (d : List H) (x lv k : Nat) (hh : 0 < t.h)
    (hs : splitStoredHashIndex x = .ok (lv, k)) (hv : (k + 1) * 2 ^ lv ≤ N)
    (hok : hashFromTile node t d x = .ok (T lv k)) :
    ∀ q, ts t.h lv k ≤ q → q < ts t.h lv k + 2 ^ (lv % t.h) → d[q]? = some (T (t.l * t.h) (t.n * 2 ^ t.h + q)) := by
  obtain ⟨h8, h9, h10, h7, hth⟩ := hashFromTile_ok node t d x lv k _ hh hs hok
  have hp := Nat.two_pow_pos (lv % t.h)
  have hlen : ((d.take (ts t.h lv k + 2 ^ (lv % t.h))).drop (ts t.h lv k)).length = 2 ^ (lv % t.h) := by
    rw [List.length_drop, List.length_take, Nat.min_eq_left (by omega)]; omega
  have hp1 := ptree_of_tileHash node (lv % t.h) _ _ hlen hth
  have hp2 := ptree_T node T N hstep (lv % t.h) (lv / t.h * t.h) k (by rw [lv_split]; exact hv)
  rw [lv_split] at hp2
  have heq := ptree_inj node hcf (lv % t.h) _ _ _ hlen (by simp) hp1 hp2
  intro q hq1 hq2
  have : d[q]? = ((d.take (ts t.h lv k + 2 ^ (lv % t.h))).drop (ts t.h lv k))[q - ts t.h lv k]? := by
    rw [List.getElem?_drop, List.getElem?_take, if_pos (by omega)]
    congr 1; omega
  rw [this, heq, List.getElem?_map, List.getElem?_range' (by omega), h8, h9]
  simp only [Option.map_some, Nat.one_mul]
  congr 2
  rw [← tnum_ts t.h lv k hh]
  omega

end
end ModVerif.TileAuth
