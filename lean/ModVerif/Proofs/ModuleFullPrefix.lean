/-
  C06: PathMajorPrefix — exact characterisation of the non-panicking inputs and their results, and
  unreachability of the panics on suffixes returned by SplitPathVersion.
-/
import ModVerif.Proofs.ModuleFullCheck
namespace ModVerif.Module
open ModVerif

theorem num_spec_iff (n : Bytes) : PathSpec.Num n ↔ SemverSpec.Num n := by
  unfold PathSpec.Num SemverSpec.Num
  have e1 : (∀ d ∈ n, PathSpec.isAsciiDigit d.toNat) ↔ n.all SemverSpec.isDigit = true := by
    rw [List.all_eq_true]
    exact forall_congr' fun d => imp_congr_right fun _ => (isDigit_iff d).symm
  have e2 : (n.head? = some 48 → n = [48]) ↔ (n.head? = some 48 → n.length = 1) := by
    constructor
    · intro h hh; rw [h hh]; rfl
    · intro h hh
      have hl := h hh
      cases n with
      | nil => simp at hl
      | cons a t =>
        cases t with
        | nil => simp at hh; rw [hh]
        | cons b t' => simp at hl
  rw [e1, e2]

/-- the fixed points of semver.Major: the empty string and "vN" (N decimal without leading zero) -/
theorem major_fixed_iff (m : Bytes) :
    Semver.major m = m ↔ m = [] ∨ ∃ n, PathSpec.Num n ∧ m = 118 :: n := by
  constructor
  · intro h
    cases hp : Semver.parse m with
    | none =>
      left
      unfold Semver.major at h
      rw [hp] at h
      exact h.symm
    | some q =>
      right
      have hm := Semver.major_spec hp
      rw [h] at hm
      have hd := Semver.parse_decomp hp
      cases hd with
      | short1 maj hmaj => exact ⟨maj, (num_spec_iff maj).mpr hmaj, rfl⟩
      | short2 maj min _ _ =>
        have := congrArg List.length hm
        simp at this
      | full maj min pat pre bld _ _ _ _ _ =>
        have := congrArg List.length hm
        simp at this
  · rintro (rfl | ⟨n, hn, rfl⟩)
    · unfold Semver.major
      have : Semver.parse [] = none := rfl
      rw [this]
    · have hd := Semver.Decomp.short1 n ((num_spec_iff n).mp hn)
      have hp := Semver.decomp_parse hd
      exact Semver.major_spec hp

theorem hasSuffixB_iff (s suf : Bytes) : hasSuffixB s suf = true ↔ ∃ x, s = x ++ suf := by
  unfold hasSuffixB
  rw [isPrefixOfB_iff]
  constructor
  · rintro ⟨t, ht⟩
    refine ⟨t.reverse, ?_⟩
    have := congrArg List.reverse ht
    simpa using this
  · rintro ⟨x, rfl⟩
    exact ⟨x.reverse, by simp⟩

theorem B_dot_v : B ".v" = [46, 118] := by decide +kernel

theorem isPrefixOfB_dotv (maj : Bytes) : isPrefixOfB (B ".v") maj = true ↔ ∃ t, maj = 46 :: 118 :: t := by
  rw [isPrefixOfB_iff, B_dot_v]; simp

/-- the "-unstable" trimming step shared by CheckPathMajor and PathMajorPrefix -/
def trimUnstable (maj : Bytes) : Bytes :=
  if isPrefixOfB (B ".v") maj && hasSuffixB maj (B "-unstable")
  then trimSuffixB maj (B "-unstable") else maj

theorem trimUnstable_cases (maj : Bytes) :
    (trimUnstable maj = maj ∧ ¬ (∃ t, maj = 46 :: 118 :: t ++ B "-unstable")) ∨
    (∃ t, maj = 46 :: 118 :: t ++ B "-unstable" ∧ trimUnstable maj = 46 :: 118 :: t) := by
  unfold trimUnstable
  by_cases h : (isPrefixOfB (B ".v") maj && hasSuffixB maj (B "-unstable")) = true
  · right
    rw [if_pos h]
    simp only [Bool.and_eq_true] at h
    obtain ⟨t, ht⟩ := (isPrefixOfB_dotv maj).mp h.1
    obtain ⟨x, hx⟩ := (hasSuffixB_iff _ _).mp h.2
    -- x = ".v" ++ t' : the suffix "-unstable" cannot overlap ".v"
    have hx2 : ∃ t', x = 46 :: 118 :: t' := by
      rw [hx, B_unstable] at ht
      cases x with
      | nil => simp at ht
      | cons a x1 =>
        cases x1 with
        | nil => simp at ht
        | cons b x2 =>
          simp at ht
          exact ⟨x2, by rw [ht.1, ht.2.1]⟩
    obtain ⟨t', rfl⟩ := hx2
    refine ⟨t', by rw [hx], ?_⟩
    rw [hx, trimSuffixB_append]
  · left
    rw [if_neg h]
    refine ⟨rfl, ?_⟩
    rintro ⟨t, ht⟩
    apply h
    simp only [Bool.and_eq_true]
    exact ⟨(isPrefixOfB_dotv maj).mpr ⟨t ++ B "-unstable", by rw [ht]; rfl⟩,
      (hasSuffixB_iff _ _).mpr ⟨46 :: 118 :: t, by rw [ht]⟩⟩

theorem pathMajorPrefix_eq (c : UInt8) (t : Bytes) :
    pathMajorPrefix (c :: t) =
      if (c != 47 && c != 46) = true then none
      else if ((trimUnstable (c :: t)).drop 1 != Semver.major ((trimUnstable (c :: t)).drop 1)) = true then none
      else some ((trimUnstable (c :: t)).drop 1) := rfl

/-- PathMajorPrefix does not panic exactly on "", on the bare separators "/" and "." (result ""), and on
    "/vN", ".vN", ".vN-unstable" with N a decimal number without leading zero (result "vN"). -/
theorem pathMajorPrefix_iff (maj m : Bytes) :
    pathMajorPrefix maj = some m ↔
      (maj = [] ∧ m = []) ∨ ((maj = [47] ∨ maj = [46]) ∧ m = []) ∨
      ∃ n, PathSpec.Num n ∧ m = 118 :: n ∧
        (maj = 47 :: 118 :: n ∨ maj = 46 :: 118 :: n ∨ maj = 46 :: 118 :: (n ++ B "-unstable")) := by
  cases maj with
  | nil =>
    simp [pathMajorPrefix]
  | cons c t =>
    rw [pathMajorPrefix_eq]
    constructor
    · intro h
      split at h
      · cases h
      · rename_i hc
        split at h
        · cases h
        · rename_i hfix
          injection h with h
          have hfix' : Semver.major m = m := by
            rw [← h]
            simp only [bne_iff_ne, ne_eq, Decidable.not_not] at hfix
            exact hfix.symm
          have hc' : c = 47 ∨ c = 46 := by
            simp only [Bool.and_eq_true, bne_iff_ne, ne_eq, not_and, Decidable.not_not] at hc
            by_cases h47 : c = 47
            · exact Or.inl h47
            · exact Or.inr (hc h47)
          right
          rcases trimUnstable_cases (c :: t) with ⟨ht, hnot⟩ | ⟨t', ht', htr⟩
          · rw [ht] at h
            simp only [List.drop_succ_cons, List.drop_zero] at h
            subst h
            rcases (major_fixed_iff t).mp hfix' with rfl | ⟨n, hn, rfl⟩
            · left; rcases hc' with rfl | rfl <;> simp
            · right
              refine ⟨n, hn, rfl, ?_⟩
              rcases hc' with rfl | rfl
              · left; rfl
              · right; left; rfl
          · rw [htr] at h
            simp only [List.drop_succ_cons, List.drop_zero] at h
            subst h
            right
            rcases (major_fixed_iff (118 :: t')).mp hfix' with h0 | ⟨n, hn, hn'⟩
            · cases h0
            · have : t' = n := by injection hn'
              subst this
              exact ⟨t', hn, rfl, Or.inr (Or.inr (by rw [ht']; simp))⟩
    · rintro (⟨h, _⟩ | ⟨hsep, rfl⟩ | ⟨n, hn, rfl, hform⟩)
      · cases h
      · have hm0 : Semver.major [] = ([] : Bytes) := (major_fixed_iff []).mpr (Or.inl rfl)
        rcases hsep with h | h
        · injection h with h1 h2; subst h1; subst h2
          have : trimUnstable [47] = [47] := by decide +kernel
          rw [this]; simp [hm0]
        · injection h with h1 h2; subst h1; subst h2
          have : trimUnstable [46] = [46] := by decide +kernel
          rw [this]; simp [hm0]
      · have hmn : Semver.major (118 :: n) = 118 :: n := (major_fixed_iff _).mpr (Or.inr ⟨n, hn, rfl⟩)
        have hdig : ∀ d ∈ n, isDigit d = true := num_digits hn
        have key : (trimUnstable (c :: t)).drop 1 = 118 :: n ∧ (c = 47 ∨ c = 46) := by
          rcases hform with h | h | h
          · injection h with h1 h2; subst h1; subst h2
            refine ⟨?_, Or.inl rfl⟩
            have : trimUnstable (47 :: 118 :: n) = 47 :: 118 :: n := by
              unfold trimUnstable
              have : isPrefixOfB (B ".v") (47 :: 118 :: n) = false := by rw [B_dot_v]; simp [isPrefixOfB]
              simp [this]
            rw [this]; rfl
          · injection h with h1 h2; subst h1; subst h2
            refine ⟨?_, Or.inr rfl⟩
            have : trimUnstable (46 :: 118 :: n) = 46 :: 118 :: n := by
              unfold trimUnstable
              simp [hasSuffixB_digits n hn.2.1]
            rw [this]; rfl
          · injection h with h1 h2; subst h1; subst h2
            refine ⟨?_, Or.inr rfl⟩
            rcases trimUnstable_cases (46 :: 118 :: (n ++ B "-unstable")) with ⟨_, hnot⟩ | ⟨t', ht', htr⟩
            · exact absurd ⟨n, by simp⟩ hnot
            · have : n = t' := by
                have : n ++ B "-unstable" = t' ++ B "-unstable" := by simpa using ht'
                exact List.append_cancel_right this
              subst this
              rw [htr]; rfl
        rw [key.1, hmn]
        have hc : (c != 47 && c != 46) = false := by
          rcases key.2 with rfl | rfl <;> decide
        simp [hc]

/-- On every suffix SplitPathVersion returns with ok, PathMajorPrefix does not panic; its result is ""
    for the empty suffix and "vN" for "/vN", ".vN", ".vN-unstable". -/
theorem pathMajorPrefix_total_on_split (p pre maj : Bytes) (h : splitPathVersion p = (pre, maj, true)) :
    (maj = [] ∧ pathMajorPrefix maj = some []) ∨
    ∃ n, PathSpec.Num n ∧ pathMajorPrefix maj = some (118 :: n) ∧
      (maj = 47 :: 118 :: n ∨ maj = 46 :: 118 :: n ∨ maj = 46 :: 118 :: (n ++ B "-unstable")) := by
  have hok : (splitPathVersion p).2.2 = true := by rw [h]
  have hs := (split_spec' p hok).2
  rw [h] at hs
  simp only at hs
  rcases hs with rfl | ⟨n, rfl, hn, _, _⟩ | ⟨_, n, hn, hform⟩
  · left; exact ⟨rfl, rfl⟩
  · right
    exact ⟨n, hn, (pathMajorPrefix_iff _ _).mpr (Or.inr (Or.inr ⟨n, hn, rfl, Or.inl rfl⟩)), Or.inl rfl⟩
  · right
    rcases hform with rfl | rfl
    · exact ⟨n, hn, (pathMajorPrefix_iff _ _).mpr (Or.inr (Or.inr ⟨n, hn, rfl, Or.inr (Or.inl rfl)⟩)), Or.inr (Or.inl rfl)⟩
    · exact ⟨n, hn, (pathMajorPrefix_iff _ _).mpr (Or.inr (Or.inr ⟨n, hn, rfl, Or.inr (Or.inr rfl)⟩)), Or.inr (Or.inr rfl)⟩

end ModVerif.Module
