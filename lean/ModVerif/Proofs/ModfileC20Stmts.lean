/-
  C20, directive layer, continued: `workStmts`, the shape of the tree returned by `addStmts` (only tokens
  change), the line identities of retract entries, `fixRetract`, and the resulting theorems about the
  error lists of `parseToFile` / `parseWork`.
-/
import ModVerif.Proofs.ModfileC20Rule
import ModVerif.Proofs.ModfileC20Tree
import ModVerif.Proofs.ModfileParse
namespace ModVerif.Proofs.ModfileC20
open ModVerif ModVerif.Modfile

theorem workBlockLines_errs (Q : Position → Prop) (verb : Bytes) (fix : Option Fixer) :
    ∀ (ls : List Line) (st : WorkState), (∀ l ∈ ls, Q l.start) →
    ErrsExt (RErr Q) st.errsRev (workBlockLines verb fix st ls).1.errsRev := by
  intro ls
  induction ls with
  | nil => intro st _; exact ErrsExt.refl _
  | cons l rest ih =>
    intro st h
    unfold workBlockLines
    have h0 : ErrsExt (LineErr l) st.errsRev (WorkFile.add st l verb l.token fix).1.errsRev :=
      workAdd_errs st l verb l.token fix
    have h1 : ErrsExt (RErr Q) st.errsRev (WorkFile.add st l verb l.token fix).1.errsRev :=
      ErrsExt.mono (fun e (he : LineErr l e) => ⟨he.1 ▸ h l (by simp), he.2⟩) h0
    exact ErrsExt.trans h1 (ih _ (fun x hx => h x (List.mem_cons_of_mem _ hx)))

theorem workStmts_errs (Q : Position → Prop) (fix : Option Fixer) :
    ∀ (xs : List Expr) (st : WorkState), (∀ x ∈ xs, StmtPos Q x) →
    ErrsExt (RErr Q) st.errsRev (workStmts fix st xs).1.errsRev := by
  intro xs
  induction xs with
  | nil => intro st _; exact ErrsExt.refl _
  | cons x rest ih =>
    intro st h
    have hx := h x (by simp)
    have hrest := fun st' => ih st' (fun y hy => h y (List.mem_cons_of_mem _ hy))
    unfold workStmts
    cases x with
    | line l =>
      cases htok : l.token with
      | nil => simp only [htok]; exact hrest _
      | cons verb args =>
        simp only [htok]
        have h0 : ErrsExt (LineErr l) st.errsRev (WorkFile.add st l verb args fix).1.errsRev :=
          workAdd_errs st l verb args fix
        have h1 : ErrsExt (RErr Q) st.errsRev (WorkFile.add st l verb args fix).1.errsRev :=
          ErrsExt.mono (fun e (he : LineErr l e) => ⟨he.1 ▸ hx, he.2⟩) h0
        exact ErrsExt.trans h1 (hrest _)
    | lineBlock b =>
      have hone : ErrsExt (RErr Q) st.errsRev (st.err b.start .unknownBlock).errsRev :=
        ErrsExt.one ⟨hx.1, by intro s hs; cases hs⟩
      simp only
      split
      · split
        · exact ErrsExt.trans (workBlockLines_errs Q _ fix b.lines st hx.2) (hrest _)
        · exact ErrsExt.trans hone (hrest _)
      · exact ErrsExt.trans hone (hrest _)
    | commentBlock c => exact hrest _
    | lparen c => exact hrest _
    | rparen c => exact hrest _

/-- the statement positions of a consistent tree are consistent -/
theorem stmtPos_of_exprOK {data : Bytes} {x : Expr} (h : ExprOK data x) : StmtPos (PosOK data) x := by
  cases x with
  | line l => obtain ⟨_, _, _, hp⟩ := h.start; exact hp.1
  | lineBlock b =>
    obtain ⟨_, _, _, hp⟩ := h.start
    refine ⟨hp.1, ?_⟩
    intro l hl
    obtain ⟨_, _, _, hq⟩ := (h.lines l hl).start
    exact hq.1
  | commentBlock c => trivial
  | lparen c => trivial
  | rparen c => trivial

/-- ParseWork: every error is at a consistent position; when the syntax layer succeeds no error is of a
    syntax-layer kind. -/
theorem parseWork_errors (name data : Bytes) (fix : Option Fixer) (es : List RuleErr)
    (h : parseWork name data fix = .error es) :
    (∀ e ∈ es, PosOK data e.pos) ∧ (∀ e ∈ es, ∀ t, e.kind ≠ .syn (.internal t)) := by
  unfold parseWork at h
  have hp := parse_pos_consistent name data
  cases hparse : parse name data with
  | error e =>
    rw [hparse] at hp h
    simp only [Except.error.injEq] at h
    subst h
    refine ⟨?_, ?_⟩
    · intro e' he'; simp at he'; subst he'; exact hp
    · intro e' he' t ht
      simp at he'; subst he'
      simp only [RuleErrKind.syn.injEq] at ht
      exact ModVerif.Proofs.ModfileParse.parse_noInternal name data e hparse t ht
  | ok fs =>
    rw [hparse] at hp h
    simp only at hp h
    split at h
    · cases h
    · simp only [Except.error.injEq] at h
      subst h
      have := workStmts_errs (PosOK data) fix fs.stmts { file := { syn := fs } }
        (fun x hx => stmtPos_of_exprOK (hp.stmts x hx))
      obtain ⟨add, hadd, hall⟩ := this
      simp only [List.append_nil] at hadd
      refine ⟨?_, ?_⟩
      · intro e he
        exact (hall e (by rw [← hadd]; exact List.mem_reverse.mp he)).1
      · intro e he t ht
        exact (hall e (by rw [← hadd]; exact List.mem_reverse.mp he)).2 _ ht


/-! ### shape of the rewritten tree -/

/-- all lines of a statement list in source order -/
def linesOf (xs : List Expr) : List Line := ({ stmts := xs } : FileSyntax).allLines

theorem allLines_eq (fs : FileSyntax) : fs.allLines = linesOf fs.stmts := rfl

@[simp] theorem linesOf_nil : linesOf [] = [] := rfl
@[simp] theorem linesOf_line (l : Line) (xs : List Expr) : linesOf (.line l :: xs) = l :: linesOf xs := by
  simp [linesOf, FileSyntax.allLines, List.flatMap_cons]
@[simp] theorem linesOf_block (b : LineBlock) (xs : List Expr) : linesOf (.lineBlock b :: xs) = b.lines ++ linesOf xs := by
  simp [linesOf, FileSyntax.allLines, List.flatMap_cons]
@[simp] theorem linesOf_commentBlock (c : CommentBlock) (xs : List Expr) : linesOf (.commentBlock c :: xs) = linesOf xs := by
  simp [linesOf, FileSyntax.allLines, List.flatMap_cons]
@[simp] theorem linesOf_lparen (c : LParen) (xs : List Expr) : linesOf (.lparen c :: xs) = linesOf xs := by
  simp [linesOf, FileSyntax.allLines, List.flatMap_cons]
@[simp] theorem linesOf_rparen (c : RParen) (xs : List Expr) : linesOf (.rparen c :: xs) = linesOf xs := by
  simp [linesOf, FileSyntax.allLines, List.flatMap_cons]

/-- what the directive layer never changes of a line -/
def lineKey (l : Line) : Nat × Position := (l.id, l.start)

theorem addBlockLines_keys (block : Comments) (verb : Bytes) (fix : Option Fixer) (strict : Bool) :
    ∀ (ls : List Line) (st : AddState), (addBlockLines block verb fix strict st ls).2.map lineKey = ls.map lineKey := by
  intro ls
  induction ls with
  | nil => intro st; rfl
  | cons l rest ih =>
    intro st
    unfold addBlockLines
    simp only [List.map_cons, ih]
    rfl

theorem addStmts_keys (fix : Option Fixer) (strict : Bool) :
    ∀ (xs : List Expr) (st : AddState), (linesOf (addStmts fix strict st xs).2).map lineKey = (linesOf xs).map lineKey := by
  intro xs
  induction xs with
  | nil => intro st; rfl
  | cons x rest ih =>
    intro st
    unfold addStmts
    cases x with
    | line l =>
      cases htok : l.token with
      | nil => simp only [htok, linesOf_line, List.map_cons, ih]
      | cons verb args => simp only [htok, linesOf_line, List.map_cons, ih]; rfl
    | lineBlock b =>
      simp only
      split
      · split
        · simp only [linesOf_block, List.map_append, ih, addBlockLines_keys]
        · simp only [linesOf_block, List.map_append, ih]
      · simp only [linesOf_block, List.map_append, ih]
    | commentBlock c => simp only [linesOf_commentBlock, ih]
    | lparen c => simp only [linesOf_lparen, ih]
    | rparen c => simp only [linesOf_rparen, ih]


/-! ### retract entries refer to lines of the tree -/

/-- the retract list of the first component is `old`, possibly with one entry for `line` appended -/
def FstRetr {β : Type} (line : Line) (old : List Retract) (r : AddState × β) : Prop :=
  r.1.file.retract = old ∨ ∃ x, r.1.file.retract = old ++ [x] ∧ x.lineId = line.id

macro "retr_auto" : tactic =>
  `(tactic| (repeat' (first | split | (dsimp only))) <;> (first | exact Or.inl rfl | exact Or.inr ⟨_, rfl, rfl⟩))

theorem add_retr (st : AddState) (block : Option Comments) (line : Line) (verb : Bytes) (args : List Bytes)
    (fix : Option Fixer) (strict : Bool) :
    FstRetr line st.file.retract (File.add st block line verb args fix strict) := by
  rw [add_eq]
  split
  · exact Or.inl rfl
  split
  · unfold addGo; retr_auto
  split
  · unfold addToolchain; retr_auto
  split
  · unfold addModule; retr_auto
  split
  · unfold addGodebugV; retr_auto
  split
  · unfold addReqExc; retr_auto
  split
  · unfold addReplaceV; retr_auto
  split
  · unfold addRetractV; retr_auto
  split
  · unfold addToolV; retr_auto
  · exact Or.inl rfl

/-- every retract entry is old or carries the identity of one of the given lines -/
def RetrIn (old : List Retract) (ls : List Line) (new : List Retract) : Prop :=
  ∀ r ∈ new, r ∈ old ∨ ∃ l ∈ ls, l.id = r.lineId

theorem RetrIn.step {old mid new : List Retract} {l : Line} {ls : List Line}
    (h1 : mid = old ∨ ∃ x, mid = old ++ [x] ∧ x.lineId = l.id) (h2 : RetrIn mid ls new) : RetrIn old (l :: ls) new := by
  intro r hr
  rcases h2 r hr with h | ⟨l', hl', hid⟩
  · rcases h1 with rfl | ⟨x, rfl, hx⟩
    · exact Or.inl h
    · simp only [List.mem_append, List.mem_singleton] at h
      rcases h with h | rfl
      · exact Or.inl h
      · exact Or.inr ⟨l, by simp, hx.symm⟩
  · exact Or.inr ⟨l', List.mem_cons_of_mem _ hl', hid⟩

theorem RetrIn.weaken {old new : List Retract} {ls ls' : List Line} (h : RetrIn old ls new) (hs : ∀ l ∈ ls, l ∈ ls') :
    RetrIn old ls' new := by
  intro r hr
  rcases h r hr with h | ⟨l, hl, hid⟩
  · exact Or.inl h
  · exact Or.inr ⟨l, hs l hl, hid⟩

theorem RetrIn.trans {a b c : List Retract} {l1 l2 : List Line} (h1 : RetrIn a l1 b) (h2 : RetrIn b l2 c) :
    RetrIn a (l1 ++ l2) c := by
  intro r hr
  rcases h2 r hr with h | ⟨l, hl, hid⟩
  · rcases h1 r h with h | ⟨l, hl, hid⟩
    · exact Or.inl h
    · exact Or.inr ⟨l, List.mem_append_left _ hl, hid⟩
  · exact Or.inr ⟨l, List.mem_append_right _ hl, hid⟩

theorem addBlockLines_retr (block : Comments) (verb : Bytes) (fix : Option Fixer) (strict : Bool) :
    ∀ (ls : List Line) (st : AddState),
    RetrIn st.file.retract ls (addBlockLines block verb fix strict st ls).1.file.retract := by
  intro ls
  induction ls with
  | nil => intro st r hr; exact Or.inl hr
  | cons l rest ih =>
    intro st
    unfold addBlockLines
    exact RetrIn.step (add_retr st (some block) l verb l.token fix strict) (ih _)

theorem addStmts_retr (fix : Option Fixer) (strict : Bool) :
    ∀ (xs : List Expr) (st : AddState),
    RetrIn st.file.retract (linesOf xs) (addStmts fix strict st xs).1.file.retract := by
  intro xs
  induction xs with
  | nil => intro st r hr; exact Or.inl hr
  | cons x rest ih =>
    intro st
    unfold addStmts
    cases x with
    | line l =>
      cases htok : l.token with
      | nil =>
        simp only [htok, linesOf_line]
        exact (ih st).weaken (fun x hx => List.mem_cons_of_mem _ hx)
      | cons verb args =>
        simp only [htok, linesOf_line]
        exact RetrIn.step (add_retr st none l verb args fix strict) (ih _)
    | lineBlock b =>
      have hskip : ∀ st' : AddState, st'.file.retract = st.file.retract →
          RetrIn st.file.retract (b.lines ++ linesOf rest) (addStmts fix strict st' rest).1.file.retract := by
        intro st' h
        rw [← h]
        exact (ih st').weaken (fun x hx => List.mem_append_right _ hx)
      simp only [linesOf_block]
      split
      · split
        · exact RetrIn.trans (addBlockLines_retr b.comments _ fix strict b.lines st) (ih _)
        · exact hskip _ (by cases strict <;> rfl)
      · exact hskip _ (by cases strict <;> rfl)
    | commentBlock c => simp only [linesOf_commentBlock]; exact ih st
    | lparen c => simp only [linesOf_lparen]; exact ih st
    | rparen c => simp only [linesOf_rparen]; exact ih st


/-! ### fixRetract -/

/-- every line start satisfies `Q` (stated on the keys, which the directive layer preserves) -/
def AllQ (Q : Position → Prop) (xs : List Expr) : Prop := ∀ k ∈ (linesOf xs).map lineKey, Q k.2

theorem allQ_of_stmtPos {Q : Position → Prop} : ∀ (xs : List Expr), (∀ x ∈ xs, StmtPos Q x) → AllQ Q xs := by
  intro xs
  induction xs with
  | nil => intro _ k hk; simp at hk
  | cons x rest ih =>
    intro h
    have hx := h x (by simp)
    have hr := ih (fun y hy => h y (List.mem_cons_of_mem _ hy))
    intro k hk
    cases x with
    | line l =>
      simp only [linesOf_line, List.map_cons, List.mem_cons] at hk
      rcases hk with rfl | hk
      · exact hx
      · exact hr k hk
    | lineBlock b =>
      simp only [linesOf_block, List.map_append, List.mem_append] at hk
      rcases hk with hk | hk
      · obtain ⟨l, hl, rfl⟩ := List.mem_map.mp hk
        exact hx.2 l hl
      · exact hr k hk
    | commentBlock c => simp only [linesOf_commentBlock] at hk; exact hr k hk
    | lparen c => simp only [linesOf_lparen] at hk; exact hr k hk
    | rparen c => simp only [linesOf_rparen] at hk; exact hr k hk

theorem updateLineIn_keys (id : Nat) (g : Line → Line) (hg : ∀ l, lineKey (g l) = lineKey l) :
    ∀ (ls : List Line), (updateLineIn id g ls).map lineKey = ls.map lineKey := by
  intro ls
  induction ls with
  | nil => rfl
  | cons l rest ih =>
    unfold updateLineIn
    split
    · simp only [List.map_cons, hg]
    · simp only [List.map_cons, ih]

theorem updateLine_keys (fs : FileSyntax) (id : Nat) (g : Line → Line) (hg : ∀ l, lineKey (g l) = lineKey l) :
    (linesOf (fs.updateLine id g).stmts).map lineKey = (linesOf fs.stmts).map lineKey := by
  unfold FileSyntax.updateLine
  simp only
  generalize fs.stmts = xs
  induction xs with
  | nil => rfl
  | cons x rest ih =>
    cases x with
    | line l =>
      simp only [List.map_cons]
      split
      · simp only [linesOf_line, List.map_cons, hg, ih]
      · simp only [linesOf_line, List.map_cons, ih]
    | lineBlock b => simp only [List.map_cons, linesOf_block, List.map_append, updateLineIn_keys id g hg, ih]
    | commentBlock c => simp only [List.map_cons, linesOf_commentBlock, ih]
    | lparen c => simp only [List.map_cons, linesOf_lparen, ih]
    | rparen c => simp only [List.map_cons, linesOf_rparen, ih]

theorem findLine_key_mem {fs : FileSyntax} {id : Nat} {l : Line} (h : fs.findLine id = some l) :
    lineKey l ∈ (linesOf fs.stmts).map lineKey := by
  unfold FileSyntax.findLine at h
  exact List.mem_map_of_mem (List.mem_of_find?_eq_some h)

/-- the tokens of a retract line split into the verb (kept) and the interval arguments -/
def frArgs (l : Line) : List Bytes × List Bytes :=
  match l.token with
  | t0 :: rest => if t0 == B "retract" then ([t0], rest) else ([], l.token)
  | [] => ([], [])

/-- one iteration of `fixRetractLoop` on the line `l` found for `r`: new interval, tree, error list -/
def frStep (path : Bytes) (fx : Fixer) (fs : FileSyntax) (r : Retract) (l : Line) (errsRev : List RuleErr) :
    VersionInterval × FileSyntax × List RuleErr :=
  let pv := parseVersionInterval path (frArgs l).2 (some fx)
  (match pv.2 with
     | .error _ => {}
     | .ok (vi, _) => vi,
   fs.updateLine r.lineId (fun l' => { l' with token := (frArgs l).1 ++ pv.1 }),
   match pv.2 with
     | .error e => ⟨l.start, e⟩ :: errsRev
     | .ok _ => errsRev)

theorem fixRetractLoop_cons (path : Bytes) (fx : Fixer) (r : Retract) (rs : List Retract) (fs : FileSyntax)
    (errsRev : List RuleErr) :
    fixRetractLoop path fx (r :: rs) fs errsRev =
      match fs.findLine r.lineId with
      | none =>
        (r :: (fixRetractLoop path fx rs fs errsRev).1, (fixRetractLoop path fx rs fs errsRev).2.1,
          (fixRetractLoop path fx rs fs errsRev).2.2)
      | some l =>
        let s := frStep path fx fs r l errsRev
        ({ r with interval := s.1 } :: (fixRetractLoop path fx rs s.2.1 s.2.2).1,
          (fixRetractLoop path fx rs s.2.1 s.2.2).2.1, (fixRetractLoop path fx rs s.2.1 s.2.2).2.2) := by
  rw [fixRetractLoop]
  cases hf : fs.findLine r.lineId with
  | none => rfl
  | some l =>
    simp only [frStep, frArgs]
    cases l.token with
    | nil =>
      simp only
      cases (parseVersionInterval path [] (some fx)) with
      | mk a b => cases b <;> rfl
    | cons t0 rest =>
      simp only
      cases (t0 == B "retract")
      · simp only [Bool.false_eq_true, if_false]
        cases (parseVersionInterval path (t0 :: rest) (some fx)) with
        | mk a b => cases b <;> rfl
      · simp only [if_true]
        cases (parseVersionInterval path rest (some fx)) with
        | mk a b => cases b <;> rfl

theorem fixRetractLoop_errs (Q : Position → Prop) (path : Bytes) (fx : Fixer) :
    ∀ (rs : List Retract) (fs : FileSyntax) (errsRev : List RuleErr), AllQ Q fs.stmts →
    ErrsExt (RErr Q) errsRev (fixRetractLoop path fx rs fs errsRev).2.2 := by
  intro rs
  induction rs with
  | nil => intro fs errsRev _; exact ErrsExt.refl _
  | cons r rest ih =>
    intro fs errsRev hq
    rw [fixRetractLoop_cons]
    cases hfind : fs.findLine r.lineId with
    | none => exact ih fs errsRev hq
    | some l =>
      simp only
      have hq' : AllQ Q (frStep path fx fs r l errsRev).2.1.stmts := by
        intro k hk
        simp only [frStep] at hk
        have hkeys := updateLine_keys fs r.lineId (fun l' => { l' with
          token := (frArgs l).fst ++ (parseVersionInterval path (frArgs l).snd (some fx)).fst }) (fun _ => rfl)
        rw [hkeys] at hk
        exact hq k hk
      have hl : Q l.start := hq _ (findLine_key_mem hfind)
      refine ErrsExt.trans ?_ (ih _ _ hq')
      simp only [frStep]
      split
      · rename_i e heq
        refine ErrsExt.one ⟨hl, ?_⟩
        exact notSyn_of_pair (parseVersionInterval_notSyn _ _ _) (Prod.ext rfl heq)
      · exact ErrsExt.refl _


theorem mem_of_keys {L1 L2 : List Line} (h : L1.map lineKey = L2.map lineKey) {l : Line} (hl : l ∈ L2) :
    ∃ l' ∈ L1, l'.id = l.id ∧ l'.start = l.start := by
  have : lineKey l ∈ L1.map lineKey := by rw [h]; exact List.mem_map_of_mem hl
  obtain ⟨l', hl', hk⟩ := List.mem_map.mp this
  simp only [lineKey, Prod.mk.injEq] at hk
  exact ⟨l', hl', hk.1, hk.2⟩

theorem fixRetract_errs (Q : Position → Prop) (st : AddState) (fix : Option Fixer) (hq : AllQ Q st.file.syn.stmts)
    (hr : ∀ r ∈ st.file.retract, ∃ l ∈ linesOf st.file.syn.stmts, l.id = r.lineId) :
    ErrsExt (RErr Q) st.errsRev (fixRetract st fix).errsRev := by
  unfold fixRetract
  cases fix with
  | none => exact ErrsExt.refl _
  | some fx =>
    simp only
    cases hret : st.file.retract with
    | nil => exact ErrsExt.refl _
    | cons r rest =>
      simp only
      have hno : ErrsExt (RErr Q) st.errsRev
          (st.err (((st.file.syn.findLine r.lineId).map (·.start)).getD {}) .retractNoModule).errsRev := by
        refine ErrsExt.one ⟨?_, by intro s hs; cases hs⟩
        obtain ⟨l, hl, hid⟩ := hr r (by rw [hret]; simp)
        have hsome : (st.file.syn.findLine r.lineId).isSome = true := by
          unfold FileSyntax.findLine
          rw [List.find?_isSome]
          exact ⟨l, hl, by simp [hid]⟩
        cases hf : st.file.syn.findLine r.lineId with
        | none => rw [hf] at hsome; cases hsome
        | some l' => exact hq _ (findLine_key_mem hf)
      split
      · split
        · exact hno
        · exact fixRetractLoop_errs Q _ fx (r :: rest) st.file.syn st.errsRev hq
      · exact hno

/-- Parse / ParseLax: every error is at a consistent position and is never an internal error.  (When the
    syntax layer succeeds, no error has a syntax-layer kind at all.) -/
theorem parseToFile_errors (name data : Bytes) (fix : Option Fixer) (strict : Bool) (es : List RuleErr)
    (h : parseToFile name data fix strict = .error es) :
    (∀ e ∈ es, PosOK data e.pos) ∧ (∀ e ∈ es, ∀ t, e.kind ≠ .syn (.internal t)) := by
  unfold parseToFile at h
  have hp := parse_pos_consistent name data
  cases hparse : parse name data with
  | error e =>
    rw [hparse] at hp h
    simp only [Except.error.injEq] at h
    subst h
    refine ⟨?_, ?_⟩
    · intro e' he'; simp at he'; subst he'; exact hp
    · intro e' he' t ht
      simp at he'; subst he'
      simp only [RuleErrKind.syn.injEq] at ht
      exact ModVerif.Proofs.ModfileParse.parse_noInternal name data e hparse t ht
  | ok fs =>
    rw [hparse] at hp h
    simp only at hp h
    split at h
    · cases h
    · simp only [Except.error.injEq] at h
      subst h
      have hsp : ∀ x ∈ fs.stmts, StmtPos (PosOK data) x := fun x hx => stmtPos_of_exprOK (hp.stmts x hx)
      have h1 := addStmts_errs (PosOK data) fix strict fs.stmts { file := { syn := fs } } hsp
      have hkeys := addStmts_keys fix strict fs.stmts { file := { syn := fs } }
      have hretr := addStmts_retr fix strict fs.stmts { file := { syn := fs } }
      have hq0 := allQ_of_stmtPos fs.stmts hsp
      have h2 := fixRetract_errs (PosOK data)
        { (addStmts fix strict { file := { syn := fs } } fs.stmts).1 with
          file := { (addStmts fix strict { file := { syn := fs } } fs.stmts).1.file with
            syn := { fs with stmts := (addStmts fix strict { file := { syn := fs } } fs.stmts).2 } } } fix
        (by intro k hk; exact hq0 k (by rw [← hkeys]; exact hk))
        (by
          intro r hr
          rcases hretr r hr with h0 | ⟨l, hl, hid⟩
          · cases h0
          · obtain ⟨l', hl', hid', _⟩ := mem_of_keys hkeys hl
            exact ⟨l', hl', hid'.trans hid⟩)
      obtain ⟨add, hadd, hall⟩ := ErrsExt.trans h1 h2
      simp only [List.append_nil] at hadd
      refine ⟨?_, ?_⟩
      · intro e he
        exact (hall e (by rw [← hadd]; exact List.mem_reverse.mp he)).1
      · intro e he t ht
        exact (hall e (by rw [← hadd]; exact List.mem_reverse.mp he)).2 _ ht


/-! ### the verb lists regenerated from the source are the verbs of the if-chains -/

/-- A verb outside `addVerbs` (the list regenerated from `File.add`'s switch, `Tie.modfile_addVerbs_tie`) is
    answered by "unknown directive" in strict mode. -/
theorem add_unknown_verb (st : AddState) (block : Option Comments) (line : Line) (verb : Bytes) (args : List Bytes)
    (fix : Option Fixer) (h : verbIn verb addVerbs = false) :
    File.add st block line verb args fix true = (st.err line.start .unknownDirective, args) := by
  rw [add_eq]
  simp only [verbIn, addVerbs, List.any_cons, List.any_nil, Bool.or_false, Bool.or_eq_false_iff] at h
  obtain ⟨h1, h2, h3, h4, h5, h6, h7, h8, h9⟩ := h
  have e1 : (verb == B "go") = false := by rw [← h1]; exact Bool.beq_comm
  have e2 : (verb == B "toolchain") = false := by rw [← h2]; exact Bool.beq_comm
  have e3 : (verb == B "module") = false := by rw [← h3]; exact Bool.beq_comm
  have e4 : (verb == B "godebug") = false := by rw [← h4]; exact Bool.beq_comm
  have e5 : (verb == B "require") = false := by rw [← h5]; exact Bool.beq_comm
  have e6 : (verb == B "exclude") = false := by rw [← h6]; exact Bool.beq_comm
  have e7 : (verb == B "replace") = false := by rw [← h7]; exact Bool.beq_comm
  have e8 : (verb == B "retract") = false := by rw [← h8]; exact Bool.beq_comm
  have e9 : (verb == B "tool") = false := by rw [← h9]; exact Bool.beq_comm
  simp [e1, e2, e3, e4, e5, e6, e7, e8, e9]

/-- the same for `WorkFile.add` and `workVerbs` -/
theorem workAdd_unknown_verb (st : WorkState) (line : Line) (verb : Bytes) (args : List Bytes)
    (fix : Option Fixer) (h : verbIn verb workVerbs = false) :
    WorkFile.add st line verb args fix = (st.err line.start .unknownDirective, args) := by
  simp only [verbIn, workVerbs, List.any_cons, List.any_nil, Bool.or_false, Bool.or_eq_false_iff] at h
  obtain ⟨h1, h2, h3, h4, h5⟩ := h
  have e1 : (verb == B "go") = false := by rw [← h1]; exact Bool.beq_comm
  have e2 : (verb == B "toolchain") = false := by rw [← h2]; exact Bool.beq_comm
  have e3 : (verb == B "godebug") = false := by rw [← h3]; exact Bool.beq_comm
  have e4 : (verb == B "use") = false := by rw [← h4]; exact Bool.beq_comm
  have e5 : (verb == B "replace") = false := by rw [← h5]; exact Bool.beq_comm
  unfold WorkFile.add
  simp [e1, e2, e3, e4, e5]

end ModVerif.Proofs.ModfileC20
