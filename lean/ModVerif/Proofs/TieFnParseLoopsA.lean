/-
  Helper lemmas for Tie/FnParse.lean, part A: the lexer ties transported to the parser unit (`embP`, `readTokenP_eq`,
  `lexP_eq`), token-kind tests, and `input.parseLine` (which allocates one Line) against the model's `parseLine`.

  State correspondence.  `embP f pre post mi` is the parser-unit `input` for the model lexer state `mi` (Tie/FnLex.lean's
  embedding, lifted by Proofs/TieFnParseLoopsLex.lean) with `file = f`, `pre`, `post` carried along.  The heap `h` has
  one Line object per line the model has created: `h.lines.length = mi.nextId`, so that the pointer of the next line is
  `nextId + 1` and `id = pointer - 1`.

  Fuel.  Model loops run on their own fuel `fm` (hypothesis `m i < fm`, the measure of Proofs/ModfileParse.lean, which is
  what the model's `parseFile` supplies); generated loops need `m i + c ≤ fg` for a small constant `c` per function.
-/
import ModVerif.Proofs.TieFnParseLoopsLex
import ModVerif.Proofs.TieFnParseHeap
import ModVerif.Proofs.ModfileParse
import ModVerif.Proofs.ModfileC20Ids
set_option linter.unusedSimpArgs false
set_option linter.unusedVariables false
namespace ModVerif.TieFnParse
open ModVerif ModVerif.GoRt ModVerif.Modfile ModVerif.TieFnLex
open ModVerif.Tie.FnParseHeap
open ModVerif.Proofs.ModfileParse (m Good lex_spec)
open ModVerif.Proofs.ModfileLex (NotInternal)
open ModVerif.Drv.LexOps.G (isPrintI isSpaceI)
open ModVerif.Drv.LexOps.M (kindCode)

/-! ### the model lexer state in the parser unit -/

def embP (f : Int) (pre post : List Generated.Parse.Expr) (mi : Input) : Generated.Parse.input :=
  lift f pre post (emb mi)

theorem posG_eq (p : Position) : posG p = posP (embPos p) := rfl
theorem tokG_eq (t : Token) : tokG t = tokP (embTok t) := rfl
theorem comG_eq (c : Comment) : comG c = comP (embComment c) := rfl

variable {f : Int} {pre post : List Generated.Parse.Expr}

@[simp] theorem embP_file (mi : Input) : (embP f pre post mi).file = f := rfl
@[simp] theorem embP_pre (mi : Input) : (embP f pre post mi).pre = pre := rfl
@[simp] theorem embP_post (mi : Input) : (embP f pre post mi).post = post := rfl
@[simp] theorem embP_nextId (mi : Input) (n : Nat) : embP f pre post { mi with nextId := n } = embP f pre post mi := rfl
theorem embP_peek (mi : Input) : Generated.Parse.input_peek (embP f pre post mi) = kindCode mi.peek := rfl
theorem embP_comments (mi : Input) : (embP f pre post mi).comments = mi.commentsRev.reverse.map comG := by
  show (mi.commentsRev.reverse.map embComment).map comP = _
  rw [List.map_map]; rfl

theorem WF_nextId {mi : Input} (n : Nat) (h : WF mi) : WF { mi with nextId := n } := h

/-- readToken of the parser unit, from any token kind and `tokenStart` -/
theorem readTokenP_eq (k : Int) (ts : Bytes) (i : Input) (hw : WF i) (fuel : Nat) (hf : i.remaining.length + 4 ≤ fuel) :
    Generated.Parse.input_readToken isPrintI isSpaceI fuel (lift f pre post (embKT k ts i)) =
      (match readToken i with
       | .ok j => .ok ((), embP f pre post j)
       | .error _ => .error .panic) ∧
      ∀ j, readToken i = .ok j → WF j := by
  obtain ⟨hG, hP⟩ := readToken_eq k ts i hw fuel hf
  refine ⟨?_, hP⟩
  rw [readToken_lift, hG]
  cases readToken i <;> rfl

/-- lex of the parser unit -/
theorem lexP_eq (i : Input) (hw : WF i) (fuel : Nat) (hf : i.remaining.length + 4 ≤ fuel) :
    Generated.Parse.input_lex isPrintI isSpaceI fuel (embP f pre post i) =
      (match lex i with
       | .ok (t, j) => .ok (tokG t, embP f pre post j)
       | .error _ => .error .panic) ∧
      ∀ t j, lex i = .ok (t, j) → WF j := by
  obtain ⟨hG, hP⟩ := lex_eq i hw fuel hf
  refine ⟨?_, fun t j h => (hP t j h).1⟩
  unfold embP
  rw [lex_lift, hG]
  cases hl : lex i with
  | error e => rfl
  | ok p => obtain ⟨t, j⟩ := p; rfl

theorem m_ge (i : Input) : i.remaining.length ≤ m i := by unfold m; omega

/-- one `lex` step, all facts together: the model side either fails with a non-internal error (then the generated lexer
    panics) or returns the pending token and a state with a smaller measure -/
theorem lex_step (i : Input) (hw : WF i) (fuel : Nat) (hf : m i + 4 ≤ fuel) :
    (∃ j, lex i = .ok (i.token, j) ∧
        Generated.Parse.input_lex isPrintI isSpaceI fuel (embP f pre post i) = .ok (tokG i.token, embP f pre post j) ∧
        WF j ∧ m j ≤ m i ∧ (i.token.kind ≠ .eof → m j < m i) ∧ j.nextId = i.nextId) ∨
    (∃ e, lex i = .error e ∧
        Generated.Parse.input_lex isPrintI isSpaceI fuel (embP f pre post i) = .error .panic) := by
  have hr := m_ge i
  obtain ⟨hG, hP⟩ := lexP_eq (f := f) (pre := pre) (post := post) i hw fuel (by omega)
  rcases lex_spec i with ⟨j, h1, hle, hlt⟩ | ⟨e, h1, _⟩
  · refine Or.inl ⟨j, h1, ?_, hP _ _ h1, hle, hlt, Proofs.ModfileC20.lex_nextId h1⟩
    rw [hG, h1]
  · refine Or.inr ⟨e, h1, ?_⟩
    rw [hG, h1]

/-! ### token kinds -/

theorem isEOL_tokG (t : Token) : Generated.Parse.tokenKind_isEOL (tokG t).kind = t.kind.isEOL := isEOL_eq t.kind

theorem isEOL_code (k : TokKind) : Generated.Parse.tokenKind_isEOL (kindCode k) = k.isEOL := isEOL_eq k

theorem kindCode_punct_eq (c : UInt8) (n : Nat) (hn : n < 256) :
    (kindCode (.punct c) = (n : Int)) ↔ c = UInt8.ofNat n := by
  show ((c.toNat : Nat) : Int) = (n : Int) ↔ _
  constructor
  · intro h
    have : c.toNat = n := by omega
    rw [← this]; simp
  · intro h; subst h
    simp only [UInt8.toNat_ofNat']
    have : n % 2 ^ 8 = n := Nat.mod_eq_of_lt hn
    omega

theorem kindCode_eq_10 (k : TokKind) : (kindCode k = 10) ↔ k = .punct 10 := by
  cases k with
  | punct c =>
    have := kindCode_punct_eq c 10 (by omega)
    simp only [TokKind.punct.injEq]
    exact this
  | _ => simp [kindCode]

theorem kindCode_eq_40 (k : TokKind) : (kindCode k = 40) ↔ k = .punct 40 := by
  cases k with
  | punct c =>
    have := kindCode_punct_eq c 40 (by omega)
    simp only [TokKind.punct.injEq]
    exact this
  | _ => simp [kindCode]

theorem kindCode_eq_41 (k : TokKind) : (kindCode k = 41) ↔ k = .punct 41 := by
  cases k with
  | punct c =>
    have := kindCode_punct_eq c 41 (by omega)
    simp only [TokKind.punct.injEq]
    exact this
  | _ => simp [kindCode]

theorem kindCode_eq_m1 (k : TokKind) : (kindCode k = -1) ↔ k = .eof := kindCode_eq_eof k

theorem kindCode_eq_m2 (k : TokKind) : (kindCode k = -2) ↔ k = .eolComment := by
  cases k with
  | punct c => simp only [reduceCtorEq, iff_false]; show ¬ ((c.toNat : Nat) : Int) = -2; omega
  | _ => simp [kindCode]

theorem kindCode_eq_m5 (k : TokKind) : (kindCode k = -5) ↔ k = .comment := by
  cases k with
  | punct c => simp only [reduceCtorEq, iff_false]; show ¬ ((c.toNat : Nat) : Int) = -5; omega
  | _ => simp [kindCode]

/-! ### parseLine -/

/-- the Line object the parser allocates for a line -/
theorem lineG_new (id : Nat) (s e : Position) (ts : List Bytes) (b : Bool) :
    lineG { id := id, start := s, token := ts, «end» := e, inBlock := b } =
      { (default : Generated.Parse.Line) with Start := posG s, Token := ts, End := posG e, InBlock := b } := rfl

theorem parseLine_loop_sim : ∀ (fm : Nat) (i : Input) (s e : Position) (ts : List Bytes), WF i → m i < fm →
    ∀ (fg : Nat), m i + 5 ≤ fg → ∀ (h : Generated.Parse.Heap),
    match parseLineLoop fm i s e ts with
    | .ok (l, i') =>
        Generated.Parse.input_parseLine_loop1 isPrintI isSpaceI (posG s) fg (embP f pre post i) h ts.reverse (posG e) =
          .ok (.ret ((((h.lines.length + 1 : Nat) : Int), embP f pre post i'),
                     { h with lines := h.lines ++ [lineG l] })) ∧ WF i'
    | .error _ =>
        Generated.Parse.input_parseLine_loop1 isPrintI isSpaceI (posG s) fg (embP f pre post i) h ts.reverse (posG e) =
          .error .panic := by
  intro fm
  induction fm with
  | zero => intro i _ _ _ _ hm; omega
  | succ n ih =>
    intro i s e ts hw hm fg hfg h
    obtain ⟨g, rfl⟩ : ∃ g, fg = g + 1 := ⟨fg - 1, by omega⟩
    unfold parseLineLoop Generated.Parse.input_parseLine_loop1
    rcases lex_step (f := f) (pre := pre) (post := post) i hw g (by omega) with
      ⟨j, hM, hG, hwj, hle, hlt, hid⟩ | ⟨e1, hM, hG⟩
    · simp only [hM, hG, bind_ok, ebind_ok, isEOL_tokG]
      cases hk : i.token.kind.isEOL with
      | true =>
        simp only [if_true, heapAlloc_fst, heapAlloc_snd, pure_eq_ok, embP_nextId]
        exact ⟨rfl, hwj⟩
      | false =>
        simp only [Bool.false_eq_true, if_false]
        have hlt' := hlt (Proofs.ModfileParse.not_eof_of_not_isEOL hk)
        have := ih j s i.token.endPos (i.token.text :: ts) hwj (by omega) g (by omega) h
        simp only [List.reverse_cons] at this
        exact this
    · simp only [hM, hG, bind_error, ebind_error]

theorem parseLine_sim (fm : Nat) (i : Input) (hw : WF i) (hm : m i ≤ fm) (fg : Nat) (hfg : m i + 5 ≤ fg)
    (h : Generated.Parse.Heap) :
    match parseLine fm i with
    | .ok (l, i') =>
        Generated.Parse.input_parseLine isPrintI isSpaceI fg (embP f pre post i) h =
          .ok ((((h.lines.length + 1 : Nat) : Int), embP f pre post i'), { h with lines := h.lines ++ [lineG l] }) ∧ WF i'
    | .error _ =>
        Generated.Parse.input_parseLine isPrintI isSpaceI fg (embP f pre post i) h = .error .panic := by
  unfold parseLine Generated.Parse.input_parseLine
  rcases lex_step (f := f) (pre := pre) (post := post) i hw fg (by omega) with
    ⟨j, hM, hG, hwj, hle, hlt, hid⟩ | ⟨e1, hM, hG⟩
  · simp only [hM, hG, bind_ok, ebind_ok, isEOL_tokG]
    cases hk : i.token.kind.isEOL with
    | true => simp
    | false =>
      simp only [Bool.false_eq_true, if_false]
      have hlt' := hlt (Proofs.ModfileParse.not_eof_of_not_isEOL hk)
      have := parseLine_loop_sim (f := f) (pre := pre) (post := post) fm j i.token.pos i.token.endPos [i.token.text] hwj
        (by omega) fg (by omega) h
      simp only [List.reverse_cons, List.reverse_nil, List.nil_append] at this
      cases hl : parseLineLoop fm j i.token.pos i.token.endPos [i.token.text] with
      | error e2 =>
        rw [hl] at this
        simp only [tokG] at this ⊢
        simp only [this, bind_error]
      | ok p =>
        obtain ⟨l, i'⟩ := p
        rw [hl] at this
        simp only [tokG] at this ⊢
        simp only [this.1, bind_ok, pure_eq_ok]
        exact ⟨trivial, this.2⟩
  · simp only [hM, hG, bind_error, ebind_error]

end ModVerif.TieFnParse
