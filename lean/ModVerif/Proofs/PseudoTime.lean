/- Helper lemmas for C18: fixed-width decimal time stamps — bytewise order is numeric order. -/
import ModVerif.Proofs.PseudoDecimal
namespace ModVerif.Proofs.Pseudo
open ModVerif ModVerif.PseudoSpec
open ModVerif.Pseudo hiding isDigit isAlnum

theorem decValue_append : ∀ a b : Bytes, decValue (a ++ b) = decValue a * 10 ^ b.length + decValue b
  | [], b => by simp [decValue]
  | c :: a, b => by
    simp only [List.cons_append, decValue, decValue_append a b, List.length_append]
    rw [Nat.pow_add, Nat.add_mul, Nat.mul_assoc]
    omega

theorem decValue_lt : ∀ a : Bytes, (∀ c ∈ a, isDigit c = true) → decValue a < 10 ^ a.length
  | [], _ => by simp [decValue]
  | c :: a, h => by
    have hc := digit_range c (h c (by simp))
    have ih := decValue_lt a (fun x hx => h x (by simp [hx]))
    simp only [decValue, List.length_cons, Nat.pow_succ]
    have : (c.toNat - 48) * 10 ^ a.length ≤ 9 * 10 ^ a.length := Nat.mul_le_mul_right _ (by omega)
    omega

theorem u8_lt_iff (c d : UInt8) : c < d ↔ c.toNat < d.toNat := UInt8.lt_iff_toNat_lt

/-- on digit strings of equal length, bytewise order is numeric order -/
theorem bytesLt_iff_decValue : ∀ a b : Bytes, (∀ c ∈ a, isDigit c = true) → (∀ c ∈ b, isDigit c = true) →
    a.length = b.length → (bytesLt a b = true ↔ decValue a < decValue b)
  | [], [], _, _, _ => by simp [bytesLt, decValue]
  | [], _ :: _, _, _, hl => by simp at hl
  | _ :: _, [], _, _, hl => by simp at hl
  | c :: a, d :: b, ha, hb, hl => by
    have hc := digit_range c (ha c (by simp))
    have hd := digit_range d (hb d (by simp))
    have ha' : ∀ x ∈ a, isDigit x = true := fun x hx => ha x (by simp [hx])
    have hb' : ∀ x ∈ b, isDigit x = true := fun x hx => hb x (by simp [hx])
    have hl' : a.length = b.length := by simpa using hl
    have ih := bytesLt_iff_decValue a b ha' hb' hl'
    have la := decValue_lt a ha'
    have lb := decValue_lt b hb'
    rw [hl'] at la
    simp only [bytesLt, decValue, hl']
    generalize 10 ^ b.length = P at la lb
    by_cases h1 : c < d
    · simp only [h1, if_true, true_iff]
      have h1' := (u8_lt_iff c d).mp h1
      have : (c.toNat - 48 + 1) * P ≤ (d.toNat - 48) * P := Nat.mul_le_mul_right _ (by omega)
      rw [Nat.add_mul] at this
      omega
    · simp only [h1, if_false]
      by_cases h2 : d < c
      · simp only [h2, if_true, Bool.false_eq_true, false_iff]
        have h2' := (u8_lt_iff d c).mp h2
        have : (d.toNat - 48 + 1) * P ≤ (c.toNat - 48) * P := Nat.mul_le_mul_right _ (by omega)
        rw [Nat.add_mul] at this
        omega
      · simp only [h2, if_false]
        have e : c.toNat = d.toNat := by
          have n1 : ¬ c.toNat < d.toNat := fun h => h1 ((u8_lt_iff c d).mpr h)
          have n2 : ¬ d.toNat < c.toNat := fun h => h2 ((u8_lt_iff d c).mpr h)
          omega
        rw [ih, e]
        omega

theorem small_digit : ∀ n : Fin 10, isDigit (UInt8.ofNat (48 + n)) = true ∧ (UInt8.ofNat (48 + n)).toNat - 48 = n := by
  decide

/-- the decimal digits of a number below 10^k: at most k of them, at least one, with that value -/
theorem natDigits_spec : ∀ (fuel n k : Nat), 1 ≤ k → n < 10 ^ k → k ≤ fuel →
    (natDigits fuel n).length ≤ k ∧ decValue (natDigits fuel n) = n ∧ ∀ c ∈ natDigits fuel n, isDigit c = true
  | 0, _, _, hk, _, hf => by omega
  | fuel + 1, n, k, hk, hn, hf => by
    by_cases h10 : n < 10
    · have := small_digit ⟨n, h10⟩
      simp only [natDigits, h10, if_true]
      refine ⟨by simpa using hk, ?_, ?_⟩
      · simp only [decValue, List.length_nil, Nat.pow_zero, Nat.mul_one, Nat.add_zero]; exact this.2
      · intro c hc; rw [List.mem_singleton] at hc; subst hc; exact this.1
    · have hk2 : 2 ≤ k := by
        rcases Nat.lt_or_ge k 2 with h | h
        · have : k = 1 := by omega
          subst this; simp at hn; omega
        · exact h
      have hdiv : n / 10 < 10 ^ (k - 1) := by
        apply Nat.div_lt_of_lt_mul
        have : 10 ^ k = 10 * 10 ^ (k - 1) := by
          rw [← Nat.pow_succ']; congr 1; omega
        omega
      obtain ⟨i1, i2, i3⟩ := natDigits_spec fuel (n / 10) (k - 1) (by omega) hdiv (by omega)
      have hm := small_digit ⟨n % 10, Nat.mod_lt _ (by omega)⟩
      simp only [natDigits, h10, if_false]
      refine ⟨by simp; omega, ?_, ?_⟩
      · rw [decValue_append, i2]
        simp only [decValue, List.length_nil, Nat.pow_zero, Nat.mul_one, Nat.add_zero, List.length_singleton, Nat.pow_one]
        rw [hm.2]; simp only []; omega
      · intro c hc
        rcases List.mem_append.mp hc with h | h
        · exact i3 c h
        · rw [List.mem_singleton] at h; subst h; exact hm.1

theorem padDec_spec (w n : Nat) (hw : 1 ≤ w) (hw' : w ≤ 40) (hn : n < 10 ^ w) :
    (padDec w n).length = w ∧ decValue (padDec w n) = n ∧ ∀ c ∈ padDec w n, isDigit c = true := by
  obtain ⟨i1, i2, i3⟩ := natDigits_spec 40 n w hw hn hw'
  unfold padDec
  refine ⟨by simp; omega, ?_, ?_⟩
  · rw [decValue_append, decValue_replicate_zero, i2]; simp
  · intro c hc
    rcases List.mem_append.mp hc with h | h
    · rw [List.eq_of_mem_replicate h]; decide
    · exact i3 c h

theorem fmtTime_spec {Y M D h m s : Nat} (hr : Y < 10000 ∧ M < 100 ∧ D < 100 ∧ h < 100 ∧ m < 100 ∧ s < 100) :
    Ts (fmtTime Y M D h m s) ∧
    decValue (fmtTime Y M D h m s) = ((((Y * 100 + M) * 100 + D) * 100 + h) * 100 + m) * 100 + s := by
  obtain ⟨r1, r2, r3, r4, r5, r6⟩ := hr
  obtain ⟨a1, a2, a3⟩ := padDec_spec 4 Y (by omega) (by omega) (by omega)
  obtain ⟨b1, b2, b3⟩ := padDec_spec 2 M (by omega) (by omega) (by omega)
  obtain ⟨c1, c2, c3⟩ := padDec_spec 2 D (by omega) (by omega) (by omega)
  obtain ⟨d1, d2, d3⟩ := padDec_spec 2 h (by omega) (by omega) (by omega)
  obtain ⟨e1, e2, e3⟩ := padDec_spec 2 m (by omega) (by omega) (by omega)
  obtain ⟨f1, f2, f3⟩ := padDec_spec 2 s (by omega) (by omega) (by omega)
  unfold fmtTime
  refine ⟨⟨by simp [a1, b1, c1, d1, e1, f1], ?_⟩, ?_⟩
  · intro c hc
    simp only [List.mem_append] at hc
    rcases hc with ((((hc | hc) | hc) | hc) | hc) | hc
    · exact a3 c hc
    · exact b3 c hc
    · exact c3 c hc
    · exact d3 c hc
    · exact e3 c hc
    · exact f3 c hc
  · simp only [decValue_append, a2, b2, c2, d2, e2, f2, b1, c1, d1, e1, f1]

theorem fmtTime_mono_aux {Y M D h m s Y' M' D' h' m' s' : Nat}
    (hr : Y < 10000 ∧ M < 100 ∧ D < 100 ∧ h < 100 ∧ m < 100 ∧ s < 100)
    (hr' : Y' < 10000 ∧ M' < 100 ∧ D' < 100 ∧ h' < 100 ∧ m' < 100 ∧ s' < 100) :
    Ts (fmtTime Y M D h m s) ∧
    (bytesLt (fmtTime Y M D h m s) (fmtTime Y' M' D' h' m' s') = true ↔
      civilLt (Y, M, D, h, m, s) (Y', M', D', h', m', s')) := by
  obtain ⟨t1, v1⟩ := fmtTime_spec hr
  obtain ⟨t2, v2⟩ := fmtTime_spec hr'
  refine ⟨t1, ?_⟩
  rw [bytesLt_iff_decValue _ _ t1.2 t2.2 (by rw [t1.1, t2.1]), v1, v2]
  obtain ⟨r1, r2, r3, r4, r5, r6⟩ := hr
  obtain ⟨q1, q2, q3, q4, q5, q6⟩ := hr'
  simp only [civilLt]
  omega


/-! ### time.Parse accepts the stamp of every real civil time -/

theorem foldl_decVal : ∀ (d : Bytes) (n : Nat),
    d.foldl (fun n c => 10 * n + (c.toNat - 48)) n = n * 10 ^ d.length + decValue d
  | [], n => by simp [decValue]
  | c :: d, n => by
    simp only [List.foldl_cons, foldl_decVal d, decValue, List.length_cons, Nat.pow_succ]
    rw [Nat.add_mul, Nat.mul_comm 10 n, Nat.mul_assoc, Nat.mul_comm 10 (10 ^ d.length)]
    omega

theorem decVal_eq (d : Bytes) : decVal d = decValue d := by
  unfold decVal; rw [foldl_decVal]; simp

theorem fields_of_concat (A B C D E F : Bytes) (ha : A.length = 4) (hb : B.length = 2) (hc : C.length = 2)
    (hd : D.length = 2) (he : E.length = 2) :
    let ts := A ++ B ++ C ++ D ++ E ++ F
    ts.take 4 = A ∧ (ts.drop 4).take 2 = B ∧ (ts.drop 6).take 2 = C ∧ (ts.drop 8).take 2 = D ∧
      (ts.drop 10).take 2 = E ∧ ts.drop 12 = F := by
  intro ts
  have e : ts = A ++ (B ++ (C ++ (D ++ (E ++ F)))) := by simp [ts]
  have d4 : ts.drop 4 = B ++ (C ++ (D ++ (E ++ F))) := by rw [e]; exact List.drop_left' ha
  have d6 : ts.drop 6 = C ++ (D ++ (E ++ F)) := by
    have : ts.drop 6 = (ts.drop 4).drop 2 := by simp
    rw [this, d4]; exact List.drop_left' hb
  have d8 : ts.drop 8 = D ++ (E ++ F) := by
    have : ts.drop 8 = (ts.drop 6).drop 2 := by simp
    rw [this, d6]; exact List.drop_left' hc
  have d10 : ts.drop 10 = E ++ F := by
    have : ts.drop 10 = (ts.drop 8).drop 2 := by simp
    rw [this, d8]; exact List.drop_left' hd
  have d12 : ts.drop 12 = F := by
    have : ts.drop 12 = (ts.drop 10).drop 2 := by simp
    rw [this, d10]; exact List.drop_left' he
  refine ⟨by rw [e]; exact List.take_left' ha, by rw [d4]; exact List.take_left' hb,
    by rw [d6]; exact List.take_left' hc, by rw [d8]; exact List.take_left' hd,
    by rw [d10]; exact List.take_left' he, d12⟩

/-- the stamp of a real date and time of day passes the range validation of time.Parse -/
theorem timeValid_fmtTime_aux {Y M D h m s : Nat} (hY : Y < 10000) (hM : 1 ≤ M ∧ M ≤ 12)
    (hD : 1 ≤ D ∧ D ≤ daysIn M Y) (hh : h < 24) (hm : m < 60) (hs : s < 60) :
    timeValid (fmtTime Y M D h m s) = true := by
  have hD31 : D ≤ 31 := by
    have : daysIn M Y ≤ 31 := by unfold daysIn; split <;> (try split) <;> omega
    omega
  obtain ⟨a1, a2, _⟩ := padDec_spec 4 Y (by omega) (by omega) (by omega)
  obtain ⟨b1, b2, _⟩ := padDec_spec 2 M (by omega) (by omega) (by omega)
  obtain ⟨c1, c2, _⟩ := padDec_spec 2 D (by omega) (by omega) (by omega)
  obtain ⟨d1, d2, _⟩ := padDec_spec 2 h (by omega) (by omega) (by omega)
  obtain ⟨e1, e2, _⟩ := padDec_spec 2 m (by omega) (by omega) (by omega)
  obtain ⟨f1, f2, _⟩ := padDec_spec 2 s (by omega) (by omega) (by omega)
  obtain ⟨t1, _⟩ := fmtTime_spec (Y := Y) (M := M) (D := D) (h := h) (m := m) (s := s)
    ⟨hY, by omega, by omega, by omega, by omega, by omega⟩
  obtain ⟨g1, g2, g3, g4, g5, g6⟩ := fields_of_concat _ _ _ _ _ (padDec 2 s) a1 b1 c1 d1 e1
  have g6' : (List.drop 12 (fmtTime Y M D h m s)).take 2 = padDec 2 s := by
    unfold fmtTime; rw [g6]; exact List.take_of_length_le (by omega)
  have hall : (fmtTime Y M D h m s).all Pseudo.isDigit = true := by
    rw [List.all_eq_true]; exact t1.2
  unfold timeValid
  simp only [hall, t1.1]
  unfold fmtTime
  simp only [g1, g2, g3, g4, g5]
  have g6'' := g6'
  unfold fmtTime at g6''
  simp only [g6'', decVal_eq, a2, b2, c2, d2, e2, f2]
  simp [hM.1, hM.2, hD.1, hD.2, hh, hm, hs]


/-! ### a number is determined by its value -/

theorem bytesLt_or_of_ne : ∀ a b : Bytes, a.length = b.length → a ≠ b → bytesLt a b = true ∨ bytesLt b a = true
  | [], [], _, h => absurd rfl h
  | [], _ :: _, hl, _ => by simp at hl
  | _ :: _, [], hl, _ => by simp at hl
  | c :: a, d :: b, hl, hne => by
    by_cases h1 : c < d
    · left; simp [bytesLt, h1]
    · by_cases h2 : d < c
      · right; simp [bytesLt, h2]
      · have e : c = d := by
          have n1 : ¬ c.toNat < d.toNat := fun h => h1 ((u8_lt_iff c d).mpr h)
          have n2 : ¬ d.toNat < c.toNat := fun h => h2 ((u8_lt_iff d c).mpr h)
          exact UInt8.toNat_inj.mp (by omega)
        subst e
        have hne' : a ≠ b := fun e => hne (by rw [e])
        rcases bytesLt_or_of_ne a b (by simpa using hl) hne' with h | h
        · left; simp [bytesLt, h]
        · right; simp [bytesLt, h]

theorem num_ge {d : Bytes} (hd : Num d) (hh : d.head? ≠ some 48) : 10 ^ (d.length - 1) ≤ decValue d := by
  obtain ⟨hne, hdig, _⟩ := hd
  cases d with
  | nil => exact absurd rfl hne
  | cons c cs =>
    have hc := digit_range c (hdig c (by simp))
    have hc48 : c.toNat ≠ 48 := by
      intro e
      apply hh
      have : c = 48 := UInt8.toNat_inj.mp (by simpa using e)
      simp [this]
    simp only [decValue, List.length_cons, Nat.add_sub_cancel]
    have : 1 * 10 ^ cs.length ≤ (c.toNat - 48) * 10 ^ cs.length := Nat.mul_le_mul_right _ (by omega)
    omega

theorem num_unique {a b : Bytes} (ha : Num a) (hb : Num b) (hv : decValue a = decValue b) : a = b := by
  have pos : ∀ n : Nat, 1 ≤ 10 ^ n := fun n => Nat.pow_pos (by omega)
  have key : ∀ x y : Bytes, Num x → Num y → x.head? ≠ some 48 → y.head? ≠ some 48 → decValue x = decValue y →
      ¬ x.length < y.length := by
    intro x y hx hy h1 h2 e hlt
    have l1 := decValue_lt x hx.2.1
    have l2 := num_ge hy h2
    have : 10 ^ x.length ≤ 10 ^ (y.length - 1) := Nat.pow_le_pow_right (by omega) (by omega)
    omega
  rcases ha.2.2 with rfl | h1
  · rcases hb.2.2 with rfl | h2
    · rfl
    · have := num_ge hb h2
      have := pos (b.length - 1)
      simp [decValue] at hv
      omega
  · rcases hb.2.2 with rfl | h2
    · have := num_ge ha h1
      have := pos (a.length - 1)
      simp [decValue] at hv
      omega
    · have hl : a.length = b.length := by
        have := key a b ha hb h1 h2 hv
        have := key b a hb ha h2 h1 hv.symm
        omega
      by_cases e : a = b
      · exact e
      · rcases bytesLt_or_of_ne a b hl e with h | h
        · have := (bytesLt_iff_decValue a b ha.2.1 hb.2.1 hl).mp h; omega
        · have := (bytesLt_iff_decValue b a hb.2.1 ha.2.1 hl.symm).mp h; omega

end ModVerif.Proofs.Pseudo
