/- Helper lemmas for C18: fixed-width decimal time stamps — bytewise order is numeric order. -/
import ModVerif.Proofs.PseudoDecimal
namespace ModVerif.Proofs.Pseudo
open ModVerif ModVerif.PseudoSpec
open ModVerif.Pseudo hiding isDigit isAlnum

theorem decValue_append : ∀ a b : Bytes, decValue (a ++ b) = decValue a * 10 ^ b.length + decValue b
  | [], b => by simp [decValue]
  | c :: a, b => by
    simp only [List.cons_append, decValue, decValue_append a b, List.length_append]
    rw [Nat.pow_add, Nat.add_mul, Nat.mul_assoc]
    omega

theorem decValue_lt : ∀ a : Bytes, (∀ c ∈ a, isDigit c = true) → decValue a < 10 ^ a.length
  | [], _ => by simp [decValue]
  | c :: a, h => by
    have hc := digit_range c (h c (by simp))
    have ih := decValue_lt a (fun x hx => h x (by simp [hx]))
    simp only [decValue, List.length_cons, Nat.pow_succ]
    have : (c.toNat - 48) * 10 ^ a.length ≤ 9 * 10 ^ a.length := Nat.mul_le_mul_right _ (by omega)
    omega

theorem u8_lt_iff (c d : UInt8) : c < d ↔ c.toNat < d.toNat := UInt8.lt_iff_toNat_lt

/-- on digit strings of equal length, bytewise order is numeric order -/
theorem bytesLt_iff_decValue : ∀ a b : Bytes, (∀ c ∈ a, isDigit c = true) → (∀ c ∈ b, isDigit c = true) →
    a.length = b.length → (bytesLt a b = true ↔ decValue a < decValue b)
  | [], [], _, _, _ => by simp [bytesLt, decValue]
  | [], _ :: _, _, _, hl => by simp at hl
  | _ :: _, [], _, _, hl => by simp at hl
  | c :: a, d :: b, ha, hb, hl => by
    have hc := digit_range c (ha c (by simp))
    have hd := digit_range d (hb d (by simp))
    have ha' : ∀ x ∈ a, isDigit x = true := fun x hx => ha x (by simp [hx])
    have hb' : ∀ x ∈ b, isDigit x = true := fun x hx => hb x (by simp [hx])
    have hl' : a.length = b.length := by simpa using hl
    have ih := bytesLt_iff_decValue a b ha' hb' hl'
    have la := decValue_lt a ha'
    have lb := decValue_lt b hb'
    rw [hl'] at la
    simp only [bytesLt, decValue, hl']
    generalize 10 ^ b.length = P at la lb
    by_cases h1 : c < d
    · simp only [h1, if_true, true_iff]
      have h1' := (u8_lt_iff c d).mp h1
      have : (c.toNat - 48 + 1) * P ≤ (d.toNat - 48) * P := Nat.mul_le_mul_right _ (by omega)
      rw [Nat.add_mul] at this
      omega
    · simp only [h1, if_false]
      by_cases h2 : d < c
      · simp only [h2, if_true, Bool.false_eq_true, false_iff]
        have h2' := (u8_lt_iff d c).mp h2
        have : (d.toNat - 48 + 1) * P ≤ (c.toNat - 48) * P := Nat.mul_le_mul_right _ (by omega)
        rw [Nat.add_mul] at this
        omega
      · simp only [h2, if_false]
        have e : c.toNat = d.toNat := by
          have n1 : ¬ c.toNat < d.toNat := fun h => h1 ((u8_lt_iff c d).mpr h)
          have n2 : ¬ d.toNat < c.toNat := fun h => h2 ((u8_lt_iff d c).mpr h)
          omega
        rw [ih, e]
        omega

theorem small_digit : ∀ n : Fin 10, isDigit (UInt8.ofNat (48 + n)) = true ∧ (UInt8.ofNat (48 + n)).toNat - 48 = n := by
  decide

/-- the decimal digits of a number below 10^k: at most k of them, at least one, with that value -/
theorem natDigits_spec : ∀ (fuel n k : Nat), 1 ≤ k → n < 10 ^ k → k ≤ fuel →
    (natDigits fuel n).length ≤ k ∧ decValue (natDigits fuel n) = n ∧ ∀ c ∈ natDigits fuel n, isDigit c = true
  | 0, _, _, hk, _, hf => by omega
  | fuel + 1, n, k, hk, hn, hf => by
    by_cases h10 : n < 10
    · have := small_digit ⟨n, h10⟩
      simp only [natDigits, h10, if_true]
      refine ⟨by simpa using hk, ?_, ?_⟩
      · simp only [decValue, List.length_nil, Nat.pow_zero, Nat.mul_one, Nat.add_zero]; exact this.2
      · intro c hc; rw [List.mem_singleton] at hc; subst hc; exact this.1
    · have hk2 : 2 ≤ k := by
        rcases Nat.lt_or_ge k 2 with h | h
        · have : k = 1 := by omega
          subst this; simp at hn; omega
        · exact h
      have hdiv : n / 10 < 10 ^ (k - 1) := by
        apply Nat.div_lt_of_lt_mul
        have : 10 ^ k = 10 * 10 ^ (k - 1) := by
          rw [← Nat.pow_succ']; congr 1; omega
        omega
      obtain ⟨i1, i2, i3⟩ := natDigits_spec fuel (n / 10) (k - 1) (by omega) hdiv (by omega)
      have hm := small_digit ⟨n % 10, Nat.mod_lt _ (by omega)⟩
      simp only [natDigits, h10, if_false]
      refine ⟨by simp; omega, ?_, ?_⟩
      · rw [decValue_append, i2]
        simp only [decValue, List.length_nil, Nat.pow_zero, Nat.mul_one, Nat.add_zero, List.length_singleton, Nat.pow_one]
        rw [hm.2]; simp only []; omega
      · intro c hc
        rcases List.mem_append.mp hc with h | h
        · exact i3 c h
        · rw [List.mem_singleton] at h; subst h; exact hm.1

theorem padDec_spec (w n : Nat) (hw : 1 ≤ w) (hw' : w ≤ 40) (hn : n < 10 ^ w) :
    (padDec w n).length = w ∧ decValue (padDec w n) = n ∧ ∀ c ∈ padDec w n, isDigit c = true := by
  obtain ⟨i1, i2, i3⟩ := natDigits_spec 40 n w hw hn hw'
  unfold padDec
  refine ⟨by simp; omega, ?_, ?_⟩
  · rw [decValue_append, decValue_replicate_zero, i2]; simp
  · intro c hc
    rcases List.mem_append.mp hc with h | h
    · rw [List.eq_of_mem_replicate h]; decide
    · exact i3 c h

theorem fmtTime_spec {Y M D h m s : Nat} (hr : Y < 10000 ∧ M < 100 ∧ D < 100 ∧ h < 100 ∧ m < 100 ∧ s < 100) :
    Ts (fmtTime Y M D h m s) ∧
    decValue (fmtTime Y M D h m s) = ((((Y * 100 + M) * 100 + D) * 100 + h) * 100 + m) * 100 + s := by
  obtain ⟨r1, r2, r3, r4, r5, r6⟩ := hr
  obtain ⟨a1, a2, a3⟩ := padDec_spec 4 Y (by omega) (by omega) (by omega)
  obtain ⟨b1, b2, b3⟩ := padDec_spec 2 M (by omega) (by omega) (by omega)
  obtain ⟨c1, c2, c3⟩ := padDec_spec 2 D (by omega) (by omega) (by omega)
  obtain ⟨d1, d2, d3⟩ := padDec_spec 2 h (by omega) (by omega) (by omega)
  obtain ⟨e1, e2, e3⟩ := padDec_spec 2 m (by omega) (by omega) (by omega)
  obtain ⟨f1, f2, f3⟩ := padDec_spec 2 s (by omega) (by omega) (by omega)
  unfold fmtTime
  refine ⟨⟨by simp [a1, b1, c1, d1, e1, f1], ?_⟩, ?_⟩
  · intro c hc
    simp only [List.mem_append] at hc
    rcases hc with ((((hc | hc) | hc) | hc) | hc) | hc
    · exact a3 c hc
    · exact b3 c hc
    · exact c3 c hc
    · exact d3 c hc
    · exact e3 c hc
    · exact f3 c hc
  · simp only [decValue_append, a2, b2, c2, d2, e2, f2, b1, c1, d1, e1, f1]

theorem fmtTime_mono_aux {Y M D h m s Y' M' D' h' m' s' : Nat}
    (hr : Y < 10000 ∧ M < 100 ∧ D < 100 ∧ h < 100 ∧ m < 100 ∧ s < 100)
    (hr' : Y' < 10000 ∧ M' < 100 ∧ D' < 100 ∧ h' < 100 ∧ m' < 100 ∧ s' < 100) :
    Ts (fmtTime Y M D h m s) ∧
    (bytesLt (fmtTime Y M D h m s) (fmtTime Y' M' D' h' m' s') = true ↔
      civilLt (Y, M, D, h, m, s) (Y', M', D', h', m', s')) := by
  obtain ⟨t1, v1⟩ := fmtTime_spec hr
  obtain ⟨t2, v2⟩ := fmtTime_spec hr'
  refine ⟨t1, ?_⟩
  rw [bytesLt_iff_decValue _ _ t1.2 t2.2 (by rw [t1.1, t2.1]), v1, v2]
  obtain ⟨r1, r2, r3, r4, r5, r6⟩ := hr
  obtain ⟨q1, q2, q3, q4, q5, q6⟩ := hr'
  simp only [civilLt]
  omega

end ModVerif.Proofs.Pseudo
